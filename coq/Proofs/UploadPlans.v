(* The property in explicit form, derived from [run_sound] (Proofs/UploadLaw.v) and from what
   the specification checker accepts on two families of scripts:

     plans      start, writes, then any number of (close, resume, writes) - the content cut
                into writes in any way, closed and resumed at any of the write boundaries, in
                any of the three resume modes - and a final commit;
     episodes   a plan, then a resume at a wrong offset, writes and a close, then a resume at
                the right offset, more writes and a commit.                                  *)
From Coq Require Import String.
From OCI Require Import Model.Upload Model.UploadSpec Proofs.RangeCodec Proofs.UploadLaw.

Local Open Scope Z_scope.

Definition seg := (rmode * Z * list bytes)%type.      (* how resumed, chunk-size hint, the writes *)

Fixpoint later_ops (segs : list seg) : list uop :=
  match segs with
  | [] => []
  | (m, h, ws) :: r => UClose :: UResume m h :: map UWrite ws ++ later_ops r
  end.
Definition plan_ops (h0 : Z) (ws0 : list bytes) (segs : list seg) : list uop :=
  UStart h0 :: map UWrite ws0 ++ later_ops segs.

Fixpoint later_content (segs : list seg) : bytes :=
  match segs with
  | [] => []
  | (_, _, ws) :: r => concat ws ++ later_content r
  end.

(* the resume modes of the property: at the reported size, by asking the registry (not when
   exactly one byte has been received), at the explicit offset that is the size *)
Definition mode_ok (m : rmode) (g : bytes) : Prop :=
  match m with MSize => True | MInfo => blen g <> 1 | MAt off => off = blen g end.
Fixpoint later_ok (g : bytes) (segs : list seg) : Prop :=
  match segs with
  | [] => True
  | (m, _, ws) :: r => mode_ok m g /\ later_ok (g ++ concat ws) r
  end.

Definition ok_res (ob : uobs) : Prop := exists n, uo_res ob = UOk n.

Section CheckerFacts.
  Variable hash : bytes -> bytes.
  Variable http : bool.
  Notation chk := (check_ops hash http).

  Lemma is_uok_ok n r : is_uok n r = true -> r = UOk n.
  Proof. destruct r; cbn; try discriminate. intros H. apply Z.eqb_eq in H. now subst. Qed.

  Lemma check_ops_app ops1 : forall cs ops2 obs cs',
    chk cs (ops1 ++ ops2) obs = (cs', true) ->
    exists obs1 obs2 cs1, obs = obs1 ++ obs2 /\ chk cs ops1 obs1 = (cs1, true) /\ chk cs1 ops2 obs2 = (cs', true).
  Proof.
    induction ops1 as [|o ops1 IH]; intros cs ops2 obs cs' H.
    - exists [], obs, cs. auto.
    - cbn [app check_ops] in H. destruct obs as [|ob obs]; [discriminate|].
      destruct (check_step hash http cs o ob) as [cs1 ok] eqn:E. destruct ok; [|discriminate].
      destruct (IH _ _ _ _ H) as (obs1 & obs2 & cs2 & -> & H1 & H2).
      exists (ob :: obs1), obs2, cs2. split; [reflexivity|]. split; [|exact H2].
      cbn [check_ops]. now rewrite E.
  Qed.

  Lemma check_writes ws : forall g obs cs,
    chk (COpen g) (map UWrite ws) obs = (cs, true) ->
    cs = COpen (g ++ concat ws) /\ Forall ok_res obs.
  Proof.
    induction ws as [|d ws IH]; intros g obs cs H.
    - destruct obs; [|discriminate]. injection H as <-. cbn. rewrite app_nil_r. auto.
    - cbn [map check_ops] in H. destruct obs as [|ob obs]; [discriminate|].
      cbn [check_step] in H.
      destruct (is_uok (blen d) (uo_res ob) && (uo_size ob =? blen (g ++ d))) eqn:E; [|discriminate].
      apply andb_true_iff in E as [E _]. apply is_uok_ok in E.
      destruct (IH _ _ _ H) as [-> Hf]. cbn [concat]. rewrite app_assoc. split; [reflexivity|].
      constructor; [eexists; exact E|exact Hf].
  Qed.

  Lemma check_resume_ok g m h ob cs obs ops :
    mode_ok m g ->
    chk (CClosed g) (UResume m h :: ops) (ob :: obs) = (cs, true) ->
    ok_res ob /\ chk (COpen g) ops obs = (cs, true).
  Proof.
    intros Hm H. cbn [check_ops] in H.
    assert (E : check_step hash http (CClosed g) (UResume m h) ob =
                (COpen g, is_uok 0 (uo_res ob) && (uo_size ob =? blen g))).
    { destruct m as [| |off]; cbn [check_step mode_ok] in *.
      - reflexivity.
      - destruct (Z.eqb_spec (blen g) 1); [contradiction|reflexivity].
      - subst off. now rewrite Z.eqb_refl. }
    rewrite E in H. destruct (is_uok 0 (uo_res ob) && (uo_size ob =? blen g)) eqn:E2; [|discriminate].
    apply andb_true_iff in E2 as [E2 _]. apply is_uok_ok in E2. split; [eexists; exact E2|exact H].
  Qed.

  Lemma check_close_ok g ob cs obs ops :
    chk (COpen g) (UClose :: ops) (ob :: obs) = (cs, true) ->
    ok_res ob /\ chk (CClosed g) ops obs = (cs, true).
  Proof.
    intros H. cbn [check_ops] in H.
    change (check_step hash http (COpen g) UClose ob)
      with (CClosed g, is_uok 0 (uo_res ob) && (uo_size ob =? blen g)) in H.
    destruct (is_uok 0 (uo_res ob) && (uo_size ob =? blen g)) eqn:E; [|discriminate].
    apply andb_true_iff in E as [E _]. apply is_uok_ok in E. split; [eexists; exact E|exact H].
  Qed.

  Lemma check_start_ok h ob cs obs ops :
    chk CInit (UStart h :: ops) (ob :: obs) = (cs, true) ->
    ok_res ob /\ chk (COpen []) ops obs = (cs, true).
  Proof.
    intros H. cbn [check_ops] in H.
    change (check_step hash http CInit (UStart h) ob)
      with (COpen [], is_uok 0 (uo_res ob) && (uo_size ob =? 0)) in H.
    destruct (is_uok 0 (uo_res ob) && (uo_size ob =? 0)) eqn:E; [|discriminate].
    apply andb_true_iff in E as [E _]. apply is_uok_ok in E. split; [eexists; exact E|exact H].
  Qed.

  Lemma check_resume_wrong g off h ob cs obs ops :
    0 <= off -> off <> blen g ->
    chk (CClosed g) (UResume (MAt off) h :: ops) (ob :: obs) = (cs, true) ->
    chk (CEp g false []) ops obs = (cs, true).
  Proof.
    intros H0 Hne H. cbn [check_ops] in H.
    assert (E : check_step hash http (CClosed g) (UResume (MAt off) h) ob =
                (CEp g false [], is_uok 0 (uo_res ob))).
    { cbn [check_step]. destruct (Z.eqb_spec off (blen g)); [contradiction|].
      destruct (Z.leb_spec 0 off); [reflexivity|lia]. }
    rewrite E in H. destruct (is_uok 0 (uo_res ob)); [exact H|discriminate].
  Qed.

  Lemma check_resume_back g h ob cs obs ops :
    chk (CEpClosed g) (UResume (MAt (blen g)) h :: ops) (ob :: obs) = (cs, true) ->
    chk (COpen g) ops obs = (cs, true).
  Proof.
    intros H. cbn [check_ops] in H.
    assert (E : check_step hash http (CEpClosed g) (UResume (MAt (blen g)) h) ob =
                (COpen g, is_uok 0 (uo_res ob) && (uo_size ob =? blen g))).
    { cbn [check_step]. now rewrite Z.eqb_refl. }
    rewrite E in H. destruct (is_uok 0 (uo_res ob) && (uo_size ob =? blen g)); [exact H|discriminate].
  Qed.

  Lemma check_later segs : forall g obs cs,
    later_ok g segs ->
    chk (COpen g) (later_ops segs) obs = (cs, true) ->
    cs = COpen (g ++ later_content segs) /\ Forall ok_res obs.
  Proof.
    induction segs as [|[[m h] ws] segs IH]; intros g obs cs Hok H.
    - destruct obs; [|discriminate]. injection H as <-. cbn. rewrite app_nil_r. auto.
    - destruct Hok as [Hm Hrest]. cbn [later_ops] in H.
      destruct obs as [|ob1 obs]; [discriminate|].
      destruct (check_close_ok _ _ _ _ _ H) as [E1 H1]. clear H.
      destruct obs as [|ob2 obs]; [discriminate|].
      destruct (check_resume_ok _ _ _ _ _ _ _ Hm H1) as [Hr2 H2].
      destruct (check_ops_app _ _ _ _ _ H2) as (obsw & obsr & cs1 & -> & Hw & Hr).
      destruct (check_writes _ _ _ _ Hw) as [-> Hfw].
      destruct (IH _ _ _ Hrest Hr) as [-> Hfr].
      cbn [later_content]. rewrite app_assoc. split; [reflexivity|].
      constructor; [exact E1|]. constructor; [exact Hr2|]. apply Forall_app. auto.
  Qed.

  (* what the checker accepts on a plan *)
  Lemma check_plan h0 ws0 segs obs cs :
    later_ok (concat ws0) segs ->
    chk CInit (plan_ops h0 ws0 segs) obs = (cs, true) ->
    cs = COpen (concat ws0 ++ later_content segs) /\ Forall ok_res obs.
  Proof.
    intros Hok H. unfold plan_ops in H. destruct obs as [|ob obs]; [discriminate|].
    destruct (check_start_ok _ _ _ _ _ H) as [E H']. clear H.
    destruct (check_ops_app _ _ _ _ _ H') as (obsw & obsr & cs1 & -> & Hw & Hr).
    destruct (check_writes _ _ _ _ Hw) as [-> Hfw]. cbn [app] in Hr.
    destruct (check_later _ _ _ _ Hok Hr) as [-> Hfr]. split; [reflexivity|].
    constructor; [exact E|]. apply Forall_app. auto.
  Qed.

  (* ... and on the commit that ends it *)
  Lemma check_commit g d0 d obs cs :
    chk (COpen g) [UCommit (d0 :: d)] obs = (cs, true) ->
    exists ob, obs = [ob] /\
      ((d0 :: d) = hash g -> cs = CDone (Some (d0 :: d, g)) /\ uo_res ob = UOk (blen g)) /\
      ((d0 :: d) <> hash g -> cs = CDone None /\ is_uerr (uo_res ob) = true).
  Proof.
    intros H. destruct obs as [|ob [|ob' obs]]; try discriminate.
    - exists ob. split; [reflexivity|]. cbn [check_ops check_step] in H.
      destruct (beqb (d0 :: d) (hash g)) eqn:E.
      + apply beqb_eq in E. destruct (is_uok (blen g) (uo_res ob)) eqn:E2; [|discriminate].
        injection H as <-. apply is_uok_ok in E2. split; [auto|congruence].
      + apply beqb_neq in E. destruct (is_uerr (uo_res ob)) eqn:E2; [|discriminate].
        injection H as <-. split; [congruence|auto].
    - cbn [check_ops] in H. destruct (check_step hash http (COpen g) (UCommit (d0 :: d)) ob) as [c1 [|]]; discriminate.
  Qed.

  (* writes through a writer at a wrong offset, then Close: a refusal has been reported *)
  Lemma check_episode_writes ews : forall g seen sent obs cs,
    chk (CEp g seen sent) (map UWrite ews) obs = (cs, true) ->
    exists seen', cs = CEp g seen' (sent ++ concat ews) /\
      (seen' = true -> seen = true \/ Exists (fun ob => is_range_refusal http (uo_res ob) = true) obs).
  Proof.
    induction ews as [|d ews IH]; intros g seen sent obs cs H.
    - destruct obs; [|discriminate]. injection H as <-. exists seen. cbn. rewrite app_nil_r. auto.
    - cbn [map check_ops] in H. destruct obs as [|ob obs]; [discriminate|]. cbn [check_step] in H.
      destruct (is_uok (blen d) (uo_res ob) || is_range_refusal http (uo_res ob)) eqn:E; [|discriminate].
      destruct (IH _ _ _ _ _ H) as (seen' & -> & Hs). exists seen'. cbn [concat]. rewrite app_assoc.
      split; [reflexivity|]. intros Hs'. destruct (Hs Hs') as [H1|H1].
      + apply orb_true_iff in H1 as [H1|H1]; [auto|]. right. constructor.
        destruct (uo_res ob) as [n|c st|]; cbn in *; try discriminate. exact E.
      + right. now constructor 2.
  Qed.

  Lemma check_episode g ews obs cs :
    concat ews <> [] ->
    chk (CEp g false []) (map UWrite ews ++ [UClose]) obs = (cs, true) ->
    cs = CEpClosed g /\ Exists (fun ob => is_range_refusal http (uo_res ob) = true) obs.
  Proof.
    intros Hne H. destruct (check_ops_app _ _ _ _ _ H) as (obsw & obsc & cs1 & -> & Hw & Hc).
    destruct (check_episode_writes _ _ _ _ _ _ Hw) as (seen' & -> & Hs). cbn [app] in Hc.
    destruct obsc as [|ob [|ob' obsc]]; try discriminate.
    2:{ cbn [check_ops] in Hc. destruct (check_step hash http (CEp g seen' (concat ews)) UClose ob) as [c1 [|]]; discriminate. }
    cbn [check_ops check_step] in Hc.
    destruct (concat ews) as [|c0 ce] eqn:Ece; [congruence|].
    destruct ((is_uok 0 (uo_res ob) || is_range_refusal http (uo_res ob)) && (seen' || is_uerr (uo_res ob))) eqn:E; [|discriminate].
    injection Hc as <-. split; [reflexivity|].
    apply andb_true_iff in E as [E1 E2]. apply Exists_app.
    apply orb_true_iff in E2 as [E2|E2].
    - destruct (Hs E2) as [?|?]; [discriminate|auto].
    - right. constructor. destruct (uo_res ob) as [n|c st|]; cbn in *; try discriminate. exact E1.
  Qed.
End CheckerFacts.

(* ------------------------------------------------------------------ on a lawful backend *)

Section Plans.
  Context {S W I : Type}.
  Variable B : ubackend S W I.
  Variable hash : bytes -> bytes.
  Variable repo : bytes.
  Variable stor : S -> bytes -> list (option bytes).
  Variable rcv : I -> S -> bytes.
  Variable Inv : S -> Prop.
  Variable Good : I -> S -> Prop.
  Variable Syn : I -> S -> W -> bytes -> Prop.
  Variable Uns : I -> S -> W -> Z -> Z -> bytes -> Prop.
  Variable rs : Z.
  Hypothesis L : ulaw B hash repo stor rcv Inv Good Syn Uns rs.
  Variable http : bool.
  Hypothesis Hrs : if http then rs = 416 else rs = 0 \/ rs = 416.
  Variable st0 : S.
  Hypothesis Hinv0 : Inv st0.

  Lemma run_checked ops st' cur' obs :
    weight ops <= MAX64 -> run_script B repo st0 None ops = (st', cur', obs) ->
    exists cs', check_ops hash http CInit ops obs = (cs', true) /\
                store_rel stor st0 cs' st'.
  Proof.
    intros Hw E.
    assert (Hrel : rel B stor rcv Inv Good Syn Uns st0 (weight ops) CInit st0 None).
    { split; [intros x; reflexivity | split; [exact Hinv0 | split; [reflexivity | exact Hw]]]. }
    exact (run_sound B hash repo stor rcv Inv Good Syn Uns rs L http Hrs st0 ops _ _ _ Hrel _ _ _ E).
  Qed.

  (* For every content, every partition of it into Write calls, every chunk-size hint, every
     subset of the write boundaries at which the writer is closed and resumed, in each of
     the three modes: every operation succeeds; a commit with the hash of the concatenation
     stores exactly the concatenation (in every registry underneath); a commit with another
     digest fails and stores nothing. *)
  Theorem plan_commit h0 ws0 segs d0 d st' cur' obs :
    let ops := plan_ops h0 ws0 segs ++ [UCommit (d0 :: d)] in
    let content := concat ws0 ++ later_content segs in
    later_ok (concat ws0) segs -> weight ops <= MAX64 ->
    run_script B repo st0 None ops = (st', cur', obs) ->
    exists obs1 ob, obs = obs1 ++ [ob] /\ Forall ok_res obs1 /\
      ((d0 :: d) = hash content ->
         uo_res ob = UOk (blen content) /\
         forall x, stor st' x = put_view (d0 :: d) content x (stor st0 x)) /\
      ((d0 :: d) <> hash content ->
         is_uerr (uo_res ob) = true /\ forall x, stor st' x = stor st0 x).
  Proof.
    intros ops content Hok Hw E.
    destruct (run_checked ops _ _ _ Hw E) as (cs' & Hc & Hs).
    destruct (check_ops_app _ _ _ _ _ _ _ Hc) as (obs1 & obs2 & cs1 & -> & H1 & H2).
    destruct (check_plan _ _ _ _ _ _ _ Hok H1) as [-> Hf].
    destruct (check_commit _ _ _ _ _ _ _ H2) as (ob & -> & Hgood & Hbad).
    exists obs1, ob. split; [reflexivity|]. split; [exact Hf|]. fold content in Hgood, Hbad. split.
    - intros Hd. destruct (Hgood Hd) as [-> Hr]. split; [exact Hr|]. exact Hs.
    - intros Hd. destruct (Hbad Hd) as [-> Hr]. split; [exact Hr|]. exact Hs.
  Qed.

  (* Data sent at an offset other than what the registry has received: after any plan,
     closed, a resume at an explicit wrong offset followed by writes that carry at least one
     byte and a Close has one of its operations refused as range-invalid (HTTP 416 over
     HTTP); the upload is not altered: resumed at the right offset it accepts further writes
     and commits as exactly the bytes written through well-positioned writers. *)
  Theorem wrong_offset_refused h0 ws0 segs off h1 ews h2 ws2 st' cur' obs :
    let g := concat ws0 ++ later_content segs in
    let content := g ++ concat ws2 in
    let d := hash content in
    let ops := plan_ops h0 ws0 segs ++ UClose :: UResume (MAt off) h1 :: (map UWrite ews ++ [UClose])
               ++ UResume (MAt (blen g)) h2 :: map UWrite ws2 ++ [UCommit d] in
    later_ok (concat ws0) segs -> 0 <= off -> off <> blen g -> concat ews <> [] -> d <> [] ->
    weight ops <= MAX64 ->
    run_script B repo st0 None ops = (st', cur', obs) ->
    exists obs1 obe obs2 ob,
      obs = obs1 ++ obe ++ obs2 ++ [ob] /\
      Exists (fun o => is_range_refusal http (uo_res o) = true) obe /\
      uo_res ob = UOk (blen content) /\
      forall x, stor st' x = put_view d content x (stor st0 x).
  Proof.
    intros g content d ops Hok Hoff Hne Hews Hd Hw E.
    assert (Hdd : d = hash content) by reflexivity. clearbody d.
    destruct (run_checked ops _ _ _ Hw E) as (cs' & Hc & Hs).
    destruct (check_ops_app _ _ _ _ _ _ _ Hc) as (obs1 & obsr & cs1 & -> & H1 & H2).
    destruct (check_plan _ _ _ _ _ _ _ Hok H1) as [-> Hf]. fold g in H2.
    (* close, resume at the wrong offset *)
    destruct obsr as [|oc obsr]; [discriminate|].
    destruct (check_close_ok _ _ _ _ _ _ _ H2) as [_ H3]. clear H2.
    destruct obsr as [|orr obsr]; [discriminate|].
    pose proof (check_resume_wrong _ _ _ _ _ _ _ _ _ Hoff Hne H3) as H4. clear H3.
    destruct (check_ops_app _ _ _ _ _ _ _ H4) as (obse & obst & cs2 & -> & He & Ht).
    destruct (check_episode _ _ _ _ _ _ Hews He) as [-> Hex].
    (* back at the right offset *)
    destruct obst as [|ob2 obst]; [discriminate|].
    pose proof (check_resume_back _ _ _ _ _ _ _ _ Ht) as Ht'. clear Ht.
    destruct (check_ops_app _ _ _ _ _ _ _ Ht') as (obsw & obsc & cs3 & -> & Hw2 & Hc2).
    destruct (check_writes _ _ _ _ _ _ Hw2) as [-> _].
    destruct d as [|d0 dr]; [congruence|].
    destruct (check_commit _ _ _ _ _ _ _ Hc2) as (ob & -> & Hgood & _).
    fold content in Hgood. destruct (Hgood Hdd) as [-> Hres].
    exists (obs1 ++ [oc; orr]), obse, (ob2 :: obsw), ob.
    split; [rewrite <- !app_assoc; reflexivity|]. split; [exact Hex|]. split; [exact Hres|]. exact Hs.
  Qed.
End Plans.

(* ------------------------------------------------------------------ the chunk size in force *)

(* PushBlobChunked: the writer's chunk size is the larger of the caller's hint (64 KiB when
   the hint is not positive) and the minimum the registry announces in OCI-Chunk-Min-Length *)
Section ChunkSize.
  Context {S I : Type}.
  Variable srv : S -> request I -> S * response I.

  Lemma chunk_size_from_response_max (p : response I) c m :
    parse_int (p_minchunk p) = Some m -> chunk_size_from_response p c = Z.max c m.
  Proof. intros H. unfold chunk_size_from_response. rewrite H. destruct (Z.gtb_spec m c); lia. Qed.

  Theorem client_start_chunksize st repo hint st' i rg m :
    srv st (QStart repo) = (st', upload_response 202 repo i rg (fmt_int m)) -> in_int64 m = true ->
    exists w, client_start srv st repo hint = (st', Ok w) /\
      w_chunksize w = Z.max (if hint <=? 0 then DEFAULT_CHUNK else hint) m /\
      w_size w = 0 /\ w_flushed w = 0 /\ w_chunk w = [] /\ w_loc w = LUpload repo i.
  Proof.
    intros E Hm. unfold client_start. rewrite E. unfold check_response, upload_response.
    cbn [p_status p_location rbind]. rewrite Z.eqb_refl. cbn [rbind p_location].
    eexists. split; [reflexivity|]. cbn [w_chunksize w_size w_flushed w_chunk w_loc].
    split; [|auto]. apply chunk_size_from_response_max. cbn [p_minchunk].
    apply Proofs.RangeCodec.parse_int_fmt_int, Hm.
  Qed.
End ChunkSize.
