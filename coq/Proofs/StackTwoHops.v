(* C03 (d): transparency composes.  The stack seen as a backend ([stack_bstep], one step per
   Interface call) answers a conforming backend's conforming answer with a conforming answer, so the
   transparency theorems apply again to a second client -> server hop in front of it: through two
   hops (independent option sets and client configurations) the caller gets what one hop gives, the
   innermost backend receives the one call, and ends in the state after that call. *)
From Coq Require Import String.
From OCI Require Import Model.Stack Proofs.Request Proofs.StackBase Proofs.StackDesc Proofs.StackTransparent.
From OCI Require Proofs.Errors.

Local Open Scope Z_scope.

Section TwoHops.
  Variable linked : alg -> bool.
  Variable hash : bytes -> bytes -> bytes.
  Variable subject_of : bytes -> option (option bytes).
  Variable media : bytes -> bytes.
  Variable enc : jval -> bytes.
  Variable dec_errors : bytes -> option (list werr).
  Variable dec_names : bool -> bytes -> option (list bytes).
  Variable dec_index : bytes -> option (list desc).
  Variable redirect : bytes -> bytes -> bytes * bytes.
  Variable B : Type.
  Variable bstep : backend B.

  Hypothesis media_json : media json_ct = json_ct.
  Hypothesis json_errors_rt : forall w, dec_errors (enc (JErr w)) = Some [w].

  Notation stack o cc bs := (stack_bstep linked hash subject_of media enc dec_errors dec_names dec_index redirect bs o cc).
  Notation callv o cc bs := (stack_call linked hash subject_of media enc dec_errors dec_names dec_index redirect bs o cc).
  Notation cerr := (conf_err).
  Notation werror := (wire_error enc).

  (* the server state a call of the stack-as-backend starts from, and ends in *)
  Definition srv_start {S} (st : sstate S) : srv S :=
    mksrv (sv_b (st_srv st)) [] (sv_panic (st_srv st)) (sv_outside (st_srv st)).

  Definition clean {S} (st : sstate S) : Prop := sv_outside (st_srv st) = false.

  (* ---------------------------------------------------------- the stack as a backend, per call *)

  Section Inner.
    Variable o : opts.
    Variable cc : ccfg.

    Lemma inner_ResolveBlob_ok (st : sstate B) repo dig b' v :
      clean st -> vrepo repo = true -> vdigest linked dig = true ->
      bstep (sv_b (st_srv st)) (ResolveBlob repo dig) = (b', Ok v) -> conf_desc linked (desc_of v) ->
      stack o cc bstep st (ResolveBlob repo dig)
      = (mksstate (after B (srv_start st) b' [ECall (ResolveBlob repo dig) (Ok v)]) (st_writers st),
         Ok (VDesc (head_desc false (desc_of v)))).
    Proof.
      intros Hcl Hr Hd Hb Hc.
      destruct (transparent_ResolveBlob_ok linked hash subject_of media enc dec_errors dec_names dec_index redirect
                  B bstep o cc (start B st) repo dig b' v Hr Hd Hb Hc) as (w' & E & Hw).
      unfold stack_call, Client.run in E. unfold stack_bstep, raw_step.
      destruct (resolve_blob (srv B) _ _ current repo dig (start B st)) as [w1 r1]. injection E as -> ->.
      cbn [lift_res]. unfold with_srv. cbn [st_srv]. rewrite Hw. unfold after, start, init_world, srv_start.
      cbn [sv_outside w_srv sv_b sv_tr sv_panic]. unfold clean in Hcl. rewrite Hcl. reflexivity.
    Qed.

    Lemma inner_ResolveBlob_err (st : sstate B) repo dig b' e :
      clean st -> vrepo repo = true -> vdigest linked dig = true ->
      bstep (sv_b (st_srv st)) (ResolveBlob repo dig) = (b', Err e) ->
      cerr e -> blen (enc (JErr (r_err (marshal_error go_sprefix go_cprefix e)))) <= 8192 ->
      stack o cc bstep st (ResolveBlob repo dig)
      = (mksstate (after B (srv_start st) b' [ECall (ResolveBlob repo dig) (Err e)]) (st_writers st),
         Err (werror true e)).
    Proof.
      intros Hcl Hr Hd Hb He Hlen.
      destruct (transparent_ResolveBlob_err linked hash subject_of media enc dec_errors dec_names dec_index redirect
                  B bstep o cc media_json json_errors_rt (start B st) repo dig b' e Hr Hd Hb He Hlen) as (w' & E & Hw).
      unfold stack_call, Client.run in E. unfold stack_bstep, raw_step.
      destruct (resolve_blob (srv B) _ _ current repo dig (start B st)) as [w1 r1]. injection E as -> ->.
      cbn [lift_res]. unfold with_srv. cbn [st_srv]. rewrite Hw. unfold after, start, init_world, srv_start.
      cbn [sv_outside w_srv sv_b sv_tr sv_panic]. unfold clean in Hcl. rewrite Hcl. reflexivity.
    Qed.

    Lemma inner_GetBlob_ok (st : sstate B) repo dig b' v :
      clean st -> o_locs o = None -> (1 <= cc_bufsz cc)%nat ->
      vrepo repo = true -> vdigest linked dig = true ->
      bstep (sv_b (st_srv st)) (GetBlob repo dig) = (b', Ok v) ->
      d_size (desc_of v) = blen (data_of v) -> blen (data_of v) <= max_int64 ->
      content_of hash dig (data_of v) ->
      stack o cc bstep st (GetBlob repo dig)
      = (mksstate (after B (srv_start st) b' [ECall (GetBlob repo dig) (Ok v); ECloseR]) (st_writers st),
         Ok (VRead {| d_media := media_or_octet (d_media (desc_of v)); d_digest := dig;
                      d_size := d_size (desc_of v); d_artifact := [] |} (data_of v))).
    Proof.
      intros Hcl Hl Hk Hr Hd Hb Hsz Hmax Hco.
      destruct (transparent_GetBlob_ok linked hash subject_of media enc dec_errors dec_names dec_index redirect
                  B bstep o cc (start B st) repo dig (cc_bufsz cc) b' v Hl Hk Hr Hd Hb Hsz Hmax Hco) as (w' & E & Hw).
      unfold stack_call, Client.run in E. unfold stack_bstep, raw_step.
      destruct (read_and_drain (srv B) _ (get_blob (srv B) _ _ current repo dig) (cc_bufsz cc) (start B st)) as [w1 r1].
      injection E as -> ->.
      cbn [read_res]. unfold with_srv. cbn [st_srv]. rewrite Hw. unfold after, start, init_world, srv_start.
      cbn [sv_outside w_srv sv_b sv_tr sv_panic]. unfold clean in Hcl. rewrite Hcl. reflexivity.
    Qed.

    Lemma inner_GetBlob_err (st : sstate B) repo dig b' e :
      clean st -> o_locs o = None -> vrepo repo = true -> vdigest linked dig = true ->
      bstep (sv_b (st_srv st)) (GetBlob repo dig) = (b', Err e) ->
      cerr e -> blen (enc (JErr (r_err (marshal_error go_sprefix go_cprefix e)))) <= 8192 ->
      stack o cc bstep st (GetBlob repo dig)
      = (mksstate (after B (srv_start st) b' [ECall (GetBlob repo dig) (Err e)]) (st_writers st),
         Err (werror false e)).
    Proof.
      intros Hcl Hl Hr Hd Hb He Hlen.
      destruct (transparent_GetBlob_err linked hash subject_of media enc dec_errors dec_names dec_index redirect
                  B bstep o cc media_json json_errors_rt (start B st) repo dig (cc_bufsz cc) b' e Hl Hr Hd Hb He Hlen)
        as (w' & E & Hw).
      unfold stack_call, Client.run in E. unfold stack_bstep, raw_step.
      destruct (read_and_drain (srv B) _ (get_blob (srv B) _ _ current repo dig) (cc_bufsz cc) (start B st)) as [w1 r1].
      injection E as -> ->.
      cbn [read_res]. unfold with_srv. cbn [st_srv]. rewrite Hw. unfold after, start, init_world, srv_start.
      cbn [sv_outside w_srv sv_b sv_tr sv_panic]. unfold clean in Hcl. rewrite Hcl. reflexivity.
    Qed.

    Lemma inner_DeleteTag_ok (st : sstate B) repo tag b' v :
      clean st -> vrepo repo = true -> vtag tag = true ->
      bstep (sv_b (st_srv st)) (DeleteTag repo tag) = (b', Ok v) ->
      stack o cc bstep st (DeleteTag repo tag)
      = (mksstate (after B (srv_start st) b' [ECall (DeleteTag repo tag) (Ok v)]) (st_writers st), Ok VUnit).
    Proof.
      intros Hcl Hr Ht Hb.
      destruct (transparent_DeleteTag_ok linked hash subject_of media enc dec_errors dec_names dec_index redirect
                  B bstep o cc (start B st) repo tag b' v Hr Ht Hb) as (w' & E & Hw).
      unfold stack_call, Client.run in E. unfold stack_bstep, raw_step.
      destruct (delete_tag (srv B) _ _ repo tag (start B st)) as [w1 r1]. injection E as -> ->.
      cbn [lift_res]. unfold with_srv. cbn [st_srv]. rewrite Hw. unfold after, start, init_world, srv_start.
      cbn [sv_outside w_srv sv_b sv_tr sv_panic]. unfold clean in Hcl. rewrite Hcl. reflexivity.
    Qed.

  End Inner.

  (* ---------------------------------------------------------- conformance is kept *)

  Lemma head_desc_conf d : conf_desc linked d -> conf_desc linked (head_desc false d).
  Proof. intros H. exact H. Qed.

  Lemma head_desc_idem m d : head_desc m (head_desc m d) = head_desc m d.
  Proof. unfold head_desc. cbn. destruct m; [|reflexivity]. destruct (d_media d); reflexivity. Qed.

  Lemma wire_error_conf head e : cerr e -> cerr (werror head e).
  Proof.
    intros [Ht Hs]. unfold conf_err, wire_error.
    destruct (Proofs.Errors.hop_form go_sprefix go_cprefix (hopspec_of enc head (marshal_error go_sprefix go_cprefix e)) e)
      as [inner Hf].
    split.
    - unfold hop, Errors.make_error, apply_wrap. cbn [h_cwrap hopspec_of text_panics].
      destruct (Z.ltb _ _); [reflexivity|]. unfold make_error1. cbn [rp_head response_of h_head hopspec_of].
      destruct head.
      + repeat match goal with |- context [Z.eqb ?a ?b] => destruct (Z.eqb a b) end; reflexivity.
      + cbn [rp_media response_of]. rewrite Proofs.Errors.json_media_is_json. reflexivity.
    - rewrite (Proofs.Errors.status_preserved_hop go_sprefix go_cprefix) by reflexivity. exact Hs.
  Qed.

  (* ---------------------------------------------------------- two hops *)

  Variable o1 o2 : opts.
  Variable cc1 cc2 : ccfg.

  Notation W2 := (world (srv (sstate B))).
  Notation hop1 := (stack o1 cc1 bstep).
  Notation call2 := (callv o2 cc2 hop1).

  Definition inner_state (w : W2) : sstate B := sv_b (w_srv w).

  Theorem two_hops_ResolveBlob (w : W2) repo dig b' v :
    clean (inner_state w) -> vrepo repo = true -> vdigest linked dig = true ->
    bstep (sv_b (st_srv (inner_state w))) (ResolveBlob repo dig) = (b', Ok v) -> conf_desc linked (desc_of v) ->
    exists w',
      call2 (CResolveBlob repo dig) w = (w', ODesc (Ok (head_desc false (desc_of v))))
      /\ sv_b (st_srv (inner_state w')) = b'
      /\ sv_tr (st_srv (inner_state w')) = [ECall (ResolveBlob repo dig) (Ok v)].
  Proof.
    intros Hcl Hr Hd Hb Hc.
    pose proof (inner_ResolveBlob_ok o1 cc1 (inner_state w) repo dig b' v Hcl Hr Hd Hb Hc) as Hin.
    destruct (transparent_ResolveBlob_ok linked hash subject_of media enc dec_errors dec_names dec_index redirect
                (sstate B) hop1 o2 cc2 w repo dig _ _ Hr Hd Hin (head_desc_conf _ Hc)) as (w' & E & Hw).
    exists w'. cbn [desc_of] in E. rewrite head_desc_idem in E. split; [exact E|].
    unfold inner_state. rewrite Hw. cbn [after sv_b st_srv sv_tr srv_start app]. split; reflexivity.
  Qed.

  Theorem two_hops_ResolveBlob_err (w : W2) repo dig b' e :
    clean (inner_state w) -> vrepo repo = true -> vdigest linked dig = true ->
    bstep (sv_b (st_srv (inner_state w))) (ResolveBlob repo dig) = (b', Err e) ->
    cerr e -> blen (enc (JErr (r_err (marshal_error go_sprefix go_cprefix e)))) <= 8192 ->
    blen (enc (JErr (r_err (marshal_error go_sprefix go_cprefix (werror true e))))) <= 8192 ->
    exists w' e2,
      call2 (CResolveBlob repo dig) w = (w', ODesc (Err e2))
      /\ as_http e2 = Some (marshal_status e)
      /\ sv_b (st_srv (inner_state w')) = b'
      /\ sv_tr (st_srv (inner_state w')) = [ECall (ResolveBlob repo dig) (Err e)].
  Proof.
    intros Hcl Hr Hd Hb He Hl1 Hl2.
    pose proof (inner_ResolveBlob_err o1 cc1 (inner_state w) repo dig b' e Hcl Hr Hd Hb He Hl1) as Hin.
    destruct (transparent_ResolveBlob_err linked hash subject_of media enc dec_errors dec_names dec_index redirect
                (sstate B) hop1 o2 cc2 media_json json_errors_rt w repo dig _ _ Hr Hd Hin
                (wire_error_conf true e He) Hl2) as (w' & E & Hw).
    exists w', (werror true (werror true e)). split; [exact E|]. split.
    - rewrite !wire_error_status. f_equal.
      unfold wire_error. now rewrite (Proofs.Errors.status_preserved_hop go_sprefix go_cprefix) by reflexivity.
    - unfold inner_state. rewrite Hw. cbn [after sv_b st_srv sv_tr srv_start app]. split; reflexivity.
  Qed.

  Theorem two_hops_GetBlob (w : W2) repo dig bufsz b' v :
    clean (inner_state w) -> o_locs o1 = None -> o_locs o2 = None ->
    (1 <= cc_bufsz cc1)%nat -> (1 <= bufsz)%nat ->
    vrepo repo = true -> vdigest linked dig = true ->
    bstep (sv_b (st_srv (inner_state w))) (GetBlob repo dig) = (b', Ok v) ->
    d_size (desc_of v) = blen (data_of v) -> blen (data_of v) <= max_int64 ->
    content_of hash dig (data_of v) ->
    exists w',
      call2 (CGetBlob repo dig bufsz) w
      = (w', ORead (Ok ({| d_media := media_or_octet (d_media (desc_of v)); d_digest := dig;
                           d_size := d_size (desc_of v); d_artifact := [] |}, data_of v, RdEOF)))
      /\ sv_b (st_srv (inner_state w')) = b'
      /\ sv_tr (st_srv (inner_state w')) = [ECall (GetBlob repo dig) (Ok v); ECloseR].
  Proof.
    intros Hcl Hl1 Hl2 Hk1 Hk Hr Hd Hb Hsz Hmax Hco.
    pose proof (inner_GetBlob_ok o1 cc1 (inner_state w) repo dig b' v Hcl Hl1 Hk1 Hr Hd Hb Hsz Hmax Hco) as Hin.
    destruct (transparent_GetBlob_ok linked hash subject_of media enc dec_errors dec_names dec_index redirect
                (sstate B) hop1 o2 cc2 w repo dig bufsz _ _ Hl2 Hk Hr Hd Hin) as (w' & E & Hw).
    - exact Hsz.
    - exact Hmax.
    - exact Hco.
    - exists w'. cbn [desc_of data_of d_media d_size] in E. split.
      + rewrite E. do 4 f_equal. destruct (d_media (desc_of v)); reflexivity.
      + unfold inner_state. rewrite Hw. cbn [after sv_b st_srv sv_tr srv_start app]. split; reflexivity.
  Qed.

  (* a body-carrying error keeps its code, detail and status through both hops *)
  Theorem two_hops_GetBlob_err (w : W2) repo dig bufsz b' e :
    clean (inner_state w) -> o_locs o1 = None -> o_locs o2 = None ->
    vrepo repo = true -> vdigest linked dig = true ->
    bstep (sv_b (st_srv (inner_state w))) (GetBlob repo dig) = (b', Err e) ->
    cerr e -> blen (enc (JErr (r_err (marshal_error go_sprefix go_cprefix e)))) <= 8192 ->
    blen (enc (JErr (r_err (marshal_error go_sprefix go_cprefix (werror false e))))) <= 8192 ->
    exists w' e2,
      call2 (CGetBlob repo dig bufsz) w = (w', ORead (Err e2))
      /\ marshal_code e2 = marshal_code e /\ marshal_detail e2 = marshal_detail e
      /\ marshal_status e2 = marshal_status e
      /\ sv_b (st_srv (inner_state w')) = b'
      /\ sv_tr (st_srv (inner_state w')) = [ECall (GetBlob repo dig) (Err e)].
  Proof.
    intros Hcl Hl1 Hl2 Hr Hd Hb He Hs1 Hs2.
    pose proof (inner_GetBlob_err o1 cc1 (inner_state w) repo dig b' e Hcl Hl1 Hr Hd Hb He Hs1) as Hin.
    destruct (transparent_GetBlob_err linked hash subject_of media enc dec_errors dec_names dec_index redirect
                (sstate B) hop1 o2 cc2 media_json json_errors_rt w repo dig bufsz _ _ Hl2 Hr Hd Hin
                (wire_error_conf false e He) Hs2) as (w' & E & Hw).
    exists w', (werror false (werror false e)). split; [exact E|].
    destruct (wire_error_body enc e Hs1) as (C1 & D1 & S1).
    destruct (wire_error_body enc (werror false e) Hs2) as (C2 & D2 & S2).
    rewrite C2, D2, S2, C1, D1, S1. repeat split.
    all: unfold inner_state; rewrite Hw; cbn [after sv_b st_srv sv_tr srv_start app]; reflexivity.
  Qed.

  Theorem two_hops_DeleteTag (w : W2) repo tag b' v :
    clean (inner_state w) -> vrepo repo = true -> vtag tag = true ->
    bstep (sv_b (st_srv (inner_state w))) (DeleteTag repo tag) = (b', Ok v) ->
    exists w',
      call2 (CDeleteTag repo tag) w = (w', OUnit (Ok tt))
      /\ sv_b (st_srv (inner_state w')) = b'
      /\ sv_tr (st_srv (inner_state w')) = [ECall (DeleteTag repo tag) (Ok v)].
  Proof.
    intros Hcl Hr Ht Hb.
    pose proof (inner_DeleteTag_ok o1 cc1 (inner_state w) repo tag b' v Hcl Hr Ht Hb) as Hin.
    destruct (transparent_DeleteTag_ok linked hash subject_of media enc dec_errors dec_names dec_index redirect
                (sstate B) hop1 o2 cc2 w repo tag _ _ Hr Ht Hin) as (w' & E & Hw).
    exists w'. split; [exact E|].
    unfold inner_state. rewrite Hw. cbn [after sv_b st_srv sv_tr srv_start app]. split; reflexivity.
  Qed.

End TwoHops.

Print Assumptions two_hops_ResolveBlob.
Print Assumptions two_hops_ResolveBlob_err.
Print Assumptions two_hops_GetBlob.
Print Assumptions two_hops_GetBlob_err.
Print Assumptions two_hops_DeleteTag.
