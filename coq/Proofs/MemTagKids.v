(* The in-memory registry in immutable-tags mode: what a tagged manifest names DIRECTLY is stored,
   in every reachable state ([tagkids], property C14).

   PushManifest refuses a manifest whose layers / config / index entries are not stored
   (checkManifest), a tag is bound only by a push that passed that check, and from then on the
   delete walk (refersTo from the tags) refuses to remove what the tagged manifest names.  So, in
   immutable-tags mode, "the blob a tagged image lists" and "the manifest a tagged index lists"
   are retrievable at every moment - not only "still retrievable if they were at some earlier
   snapshot".  (A subject may dangle: the standard says so and checkManifest does not look.)
   Deeper levels are NOT claimed: an index can be tagged over a child whose layer was deleted
   before the tagging.

   The effect table of Proofs/MemImmutable.v does not record that checkManifest passed, so the
   PushManifest case is unfolded once more here ([push_manifest_checked]). *)
From Coq Require Import String Lia.
From OCI Require Import Model.Mem Proofs.MemBasics Proofs.MemInv Proofs.MemImmutable.

Section Kids.
  Variable hash : bytes -> bytes.
  Variable valid_digest : bytes -> bool.
  Variable valid_repo : bytes -> bool.
  Variable valid_tag : bytes -> bool.
  Variable decode_image : bytes -> option image_manifest.
  Variable decode_index : bytes -> option index_manifest.
  Variable cfg : config.

  Local Notation step := (step hash valid_digest valid_repo valid_tag decode_image decode_index cfg).
  Local Notation manifest_refs := (manifest_refs decode_image decode_index).
  Local Notation check_manifest := (check_manifest hash valid_digest decode_image decode_index).
  Local Notation check_refs := (check_refs hash valid_digest).
  Local Notation tagged_refers_to := (tagged_refers_to decode_image decode_index).
  Local Notation make_repo := (make_repo valid_repo).
  Local Notation mrefs_ := (mrefs decode_image decode_index).
  Local Notation treach_ := (treach decode_image decode_index).
  Local Notation Inv := (Inv hash decode_image decode_index).

  (* a direct reference that the registry insists on: the thing it names is stored *)
  Definition stored_ref (rp : repo) (kd : refkind * desc) : Prop :=
    match fst kd with
    | KBlob => alookup (d_digest (snd kd)) (blobs rp) <> None
    | KManifest => alookup (d_digest (snd kd)) (manifests rp) <> None
    | KSubject => True
    end.

  Definition tagkids (rp : repo) : Prop :=
    forall t de b rs kd,
      alookup t (tags rp) = Some de -> alookup (d_digest de) (manifests rp) = Some b ->
      mrefs_ b = Some rs -> In kd rs -> stored_ref rp kd.

  (* the loop of checkManifest succeeded: every blob / manifest reference is stored *)
  Lemma check_refs_stored rp : forall refs subj res,
    check_refs rp refs subj = Some res -> forall kd, In kd refs -> stored_ref rp kd.
  Proof.
    induction refs as [|[k de] rest IH]; intros subj res H kd Hin; [destruct Hin|].
    cbn [Mem.check_refs] in H.
    destruct (check_descriptor hash valid_digest de None); [discriminate|].
    destruct k.
    - destruct Hin as [<-|Hin]; [exact I | eauto].
    - destruct (alookup (d_digest de) (blobs rp)) eqn:E; [|discriminate].
      destruct Hin as [<-|Hin]; [unfold stored_ref; cbn; congruence | eauto].
    - destruct (alookup (d_digest de) (manifests rp)) eqn:E; [|discriminate].
      destruct Hin as [<-|Hin]; [unfold stored_ref; cbn; congruence | eauto].
  Qed.

  Lemma check_manifest_stored rp media data subj rs :
    check_manifest rp media data = Some subj -> manifest_refs media data = Some rs ->
    forall kd, In kd rs -> stored_ref rp kd.
  Proof.
    unfold Mem.check_manifest. intros H Hr. rewrite Hr in H. eapply check_refs_stored; eauto.
  Qed.

  (* what PushManifest r t data media does to repository r: nothing (to the three maps), or it
     stores the manifest - and then checkManifest passed on the repository as it was *)
  Lemma push_manifest_checked st r t data media :
    let rp := repo_of st r in
    let rp' := repo_of (fst (step st (PushManifest r t data media))) r in
    same3 rp rp' \/
    exists subj,
      check_manifest rp media data = Some subj /\
      blobs rp' = blobs rp /\
      manifests rp' = aset (hash data) {| b_media := media; b_data := data; b_subject := subj |} (manifests rp) /\
      (immutable_tags cfg = true ->
         forall cur, alookup (hash data) (manifests rp) = Some cur -> b_media cur = media) /\
      tags rp' = match t with
                 | [] => tags rp
                 | _ => aset t {| d_media := media; d_digest := hash data; d_size := blen data; d_artifact := [] |} (tags rp)
                 end /\
      (immutable_tags cfg = true -> t <> [] -> alookup t (tags rp) = None).
  Proof.
    cbn zeta. cbn [Mem.step].
    destruct (make_repo st r) as [st1|] eqn:EM; [|left; apply same3_refl].
    pose proof (repo_of_make valid_repo _ _ _ EM r) as Hr.
    rewrite (make_repo_get valid_repo _ _ _ EM).
    set (rp := repo_of st r).
    assert (Hstore :
      (immutable_tags cfg = true -> t <> [] -> alookup t (tags rp) = None) ->
      forall X : state * result,
      X = (if immutable_tags cfg
              && match alookup (hash data) (manifests rp) with
                 | Some cur => negb (beqb (b_media cur) media)
                 | None => false
                 end
           then (st1, Err (E DENIED (s "mismatched media type")))
           else
           match check_descriptor hash valid_digest
                   {| d_media := media; d_digest := hash data; d_size := blen data; d_artifact := [] |}
                   (Some data) with
           | Some e => (st1, Err (e_plain (s "invalid descriptor")))
           | None =>
               match check_manifest rp media data with
               | None => (st1, Err (e_plain (s "invalid manifest")))
               | Some subject =>
                   (upd_repo st1 r (fun rp0 =>
                      let rp1 := rp_set_manifest (hash data)
                                   {| b_media := media; b_data := data; b_subject := subject |} rp0 in
                      match t with
                      | [] => rp1
                      | _ => rp_set_tag t {| d_media := media; d_digest := hash data;
                                             d_size := blen data; d_artifact := [] |} rp1
                      end),
                    Ok (RDesc {| d_media := media; d_digest := hash data; d_size := blen data; d_artifact := [] |}))
               end
           end) ->
      same3 rp (repo_of (fst X) r) \/
      exists subj,
        check_manifest rp media data = Some subj /\
        blobs (repo_of (fst X) r) = blobs rp /\
        manifests (repo_of (fst X) r)
          = aset (hash data) {| b_media := media; b_data := data; b_subject := subj |} (manifests rp) /\
        (immutable_tags cfg = true ->
           forall cur, alookup (hash data) (manifests rp) = Some cur -> b_media cur = media) /\
        tags (repo_of (fst X) r)
          = match t with
            | [] => tags rp
            | _ => aset t {| d_media := media; d_digest := hash data; d_size := blen data; d_artifact := [] |} (tags rp)
            end /\
        (immutable_tags cfg = true -> t <> [] -> alookup t (tags rp) = None)).
    { intros Htag X ->.
      destruct (immutable_tags cfg
                && match alookup (hash data) (manifests rp) with
                   | Some cur => negb (beqb (b_media cur) media)
                   | None => false
                   end) eqn:EMT; [cbn [fst]; rewrite Hr; left; apply same3_refl|].
      destruct (check_descriptor _ _ _ _); [cbn [fst]; rewrite Hr; left; apply same3_refl|].
      destruct (check_manifest rp media data) as [subj|] eqn:EC; [|cbn [fst]; rewrite Hr; left; apply same3_refl].
      cbn [fst]. rewrite repo_of_upd, (make_repo_get valid_repo _ _ _ EM). fold rp.
      rewrite beqb_refl. right. exists subj. split; [reflexivity|].
      split; [destruct t; reflexivity|]. split; [destruct t; reflexivity|]. split.
      - intros Hi cur Hc. rewrite Hi, Hc in EMT. cbn in EMT.
        apply negb_false_iff, beqb_eq in EMT. exact EMT.
      - split; [destruct t; reflexivity | exact Htag]. }
    destruct t as [|c t'].
    - apply Hstore; [congruence | reflexivity].
    - destruct (negb (valid_tag (c :: t'))); [cbn [fst]; rewrite Hr; left; apply same3_refl|].
      destruct (immutable_tags cfg) eqn:EI.
      + destruct (alookup (c :: t') (tags rp)) as [cur|] eqn:ET.
        * destruct (beqb (hash data) (d_digest cur)); [destruct (beqb (d_media cur) media)|];
            cbn [fst]; rewrite Hr; left; apply same3_refl.
        * apply Hstore; [intros _ _; reflexivity | reflexivity].
      + apply Hstore; [discriminate | reflexivity].
  Qed.

  Hypothesis Himm : immutable_tags cfg = true.
  Hypothesis hash_inj : forall a b, hash a = hash b -> a = b.

  Lemma stored_ref_mono rp rp' kd :
    (forall d, alookup d (blobs rp) <> None -> alookup d (blobs rp') <> None) ->
    (forall d, alookup d (manifests rp) <> None -> alookup d (manifests rp') <> None) ->
    stored_ref rp kd -> stored_ref rp' kd.
  Proof. unfold stored_ref. intros Hb Hm. destruct (fst kd); auto. Qed.

  (* what a tagged manifest names directly is reached from the tags *)
  Lemma kid_reached rp t de b rs k cd :
    alookup t (tags rp) = Some de -> alookup (d_digest de) (manifests rp) = Some b ->
    mrefs_ b = Some rs -> In (k, cd) rs -> treach_ rp (d_digest cd).
  Proof.
    intros Ht Hb Hrs Hin. unfold treach.
    eapply reach_down; [eapply tag_ref_in; exact Ht | discriminate | exact Hb | exact Hrs |].
    eapply reach_here; eauto.
  Qed.

  Theorem step_tagkids st o r :
    Inv st -> tagkids (repo_of st r) -> tagkids (repo_of (fst (step st o)) r).
  Proof.
    intros HI HK.
    pose proof (inv_hashed hash decode_image decode_index st r HI) as [HM HB].
    pose proof (step_effect hash valid_digest valid_repo valid_tag decode_image decode_index cfg st o r) as He.
    set (rp := repo_of st r) in *. set (rp' := repo_of (fst (step st o)) r) in *.
    destruct He as [(Ht & Hm & Hb) | d b Ht Hm Hb | d Ho Hc Ht Hm Hb
                    | t data media subj Ho _ _ _ _ _ | d Ho Hc Ht Hb Hm | t Ho Hi Hm Hb Ht].
    - (* nothing changed *)
      intros t de b rs kd H1 H2 H3 H4. rewrite Ht in H1. rewrite Hm in H2.
      eapply stored_ref_mono; [| |eapply HK; eauto]; intros d; rewrite ?Hb, ?Hm; auto.
    - (* a blob stored *)
      intros t de b0 rs kd H1 H2 H3 H4. rewrite Ht in H1. rewrite Hm in H2.
      eapply stored_ref_mono; [| |eapply HK; eauto]; intros d0; rewrite ?Hb, ?Hm; auto.
      rewrite alookup_aset. destruct (beqb d0 d); [discriminate | auto].
    - (* a blob deleted: no tag reached it *)
      pose proof (tagged_refers_false _ _ _ _ (Hc Himm)) as Hn.
      intros t de b0 rs [k cd] H1 H2 H3 H4. rewrite Ht in H1. rewrite Hm in H2.
      pose proof (HK t de b0 rs (k, cd) H1 H2 H3 H4) as Hs.
      unfold stored_ref in *. cbn [fst snd] in *. destruct k; auto.
      + rewrite Hb, alookup_adel. destruct (beqb (d_digest cd) d) eqn:E; [|exact Hs].
        apply beqb_eq in E. subst d. exfalso. apply Hn. eapply kid_reached; eauto.
      + now rewrite Hm.
    - (* a manifest stored, maybe under a new tag: checkManifest passed *)
      subst o. subst rp rp'.
      destruct (push_manifest_checked st r t data media) as [(Ht & Hm & Hb) | [subj' [Hck [Hb [Hm [Hmt [Ht Htn]]]]]]].
      + intros t0 de b rs kd H1 H2 H3 H4. rewrite Ht in H1. rewrite Hm in H2.
        eapply stored_ref_mono; [| |eapply HK; eauto]; intros d; rewrite ?Hb, ?Hm; auto.
      + set (rp := repo_of st r) in *.
        set (rp' := repo_of (fst (step st (PushManifest r t data media))) r) in *.
        set (nb := {| b_media := media; b_data := data; b_subject := subj' |}) in *.
        assert (Hgrow : forall kd, stored_ref rp kd -> stored_ref rp' kd).
        { intros kd. apply stored_ref_mono; intros d; rewrite ?Hb, ?Hm; auto.
          rewrite alookup_aset. destruct (beqb d (hash data)); [discriminate | auto]. }
        (* the references of whatever is stored under a digest after the push *)
        assert (Hrefs : forall d b rs, alookup d (manifests rp') = Some b -> mrefs_ b = Some rs ->
                  (d = hash data /\ manifest_refs media data = Some rs) \/
                  (alookup d (manifests rp) = Some b)).
        { intros d b rs Hd Hrs. rewrite Hm, alookup_aset in Hd.
          destruct (beqb d (hash data)) eqn:E; [|now right].
          apply beqb_eq in E. injection Hd as <-. left. split; [exact E | exact Hrs]. }
        intros t0 de b rs kd H1 H2 H3 H4.
        destruct (Hrefs _ _ _ H2 H3) as [[Hd Hr]|Hold].
        * (* the manifest just pushed (new, or the same bytes again) *)
          apply Hgrow. eapply check_manifest_stored; eauto.
        * (* an older manifest: was its tag there before? *)
          rewrite Ht in H1. destruct t as [|c t'].
          -- apply Hgrow. eapply HK; eauto.
          -- rewrite alookup_aset in H1. destruct (beqb t0 (c :: t')) eqn:E.
             ++ injection H1 as <-. cbn [d_digest] in *.
                (* the tag names hash data: the stored bytes hash to it, so they are data *)
                pose proof (HM _ _ Hold) as Hh. apply hash_inj in Hh.
                pose proof (Hmt Himm _ Hold) as Hmed.
                apply Hgrow. eapply check_manifest_stored; [exact Hck | | exact H4].
                unfold mrefs in H3. now rewrite Hh, Hmed in H3.
             ++ apply Hgrow. eapply HK; eauto.
    - (* a manifest deleted: no tag reached it *)
      pose proof (tagged_refers_false _ _ _ _ (Hc Himm)) as Hn.
      intros t de b0 rs [k cd] H1 H2 H3 H4. rewrite Ht in H1.
      rewrite Hm, alookup_adel in H2. destruct (beqb (d_digest de) d) eqn:E0; [discriminate|].
      pose proof (HK t de b0 rs (k, cd) H1 H2 H3 H4) as Hs.
      unfold stored_ref in *. cbn [fst snd] in *. destruct k; auto.
      + now rewrite Hb.
      + rewrite Hm, alookup_adel. destruct (beqb (d_digest cd) d) eqn:E; [|exact Hs].
        apply beqb_eq in E. subst d. exfalso. apply Hn. eapply kid_reached; eauto.
    - congruence.
  Qed.

  Lemma tagkids_init r : tagkids (repo_of init r).
  Proof. intros t de b rs kd H. discriminate. Qed.

  Theorem history_tagkids h : forall st,
    Inv st -> (forall r, tagkids (repo_of st r)) -> forall r, tagkids (repo_of (final step st h) r).
  Proof.
    induction h as [|o h IH]; intros st HI HK r; [apply HK|].
    rewrite final_cons. apply IH; [now apply inv_step|]. intros r'. now apply step_tagkids.
  Qed.
End Kids.

(* the invariant over every history from the empty registry, in terms of the three views *)
Theorem tagged_direct_refs_stored : forall hash vd vr vt di dx cfg,
  immutable_tags cfg = true -> (forall a b, hash a = hash b -> a = b) ->
  forall h r t de b rs k cd,
  let st := final (step hash vd vr vt di dx cfg) init h in
  itag st r t = Some de -> iman st r (d_digest de) = Some b ->
  manifest_refs di dx (b_media b) (b_data b) = Some rs -> In (k, cd) rs ->
  match k with
  | KBlob => iblob st r (d_digest cd) <> None
  | KManifest => iman st r (d_digest cd) <> None
  | KSubject => True
  end.
Proof.
  intros hash vd vr vt di dx cfg Himm Hinj h r t de b rs k cd st Ht Hm Hrs Hin.
  rewrite itag_repo_of in Ht. rewrite iman_repo_of in Hm.
  pose proof (history_tagkids hash vd vr vt di dx cfg Himm Hinj h init (inv_init hash di dx)
                (fun r' => tagkids_init di dx r') r t de b rs (k, cd) Ht Hm Hrs Hin) as H.
  unfold stored_ref in H. cbn [fst snd] in H.
  destruct k; [exact I | now rewrite iblob_repo_of | now rewrite iman_repo_of].
Qed.
