(* C03: the laws about content-free repositories ([SlackLaws], Proofs/StackWriters.v) hold of the
   in-memory registry (ImmutableTags off or on), so the history theorem with refused PushBlobs inside the histories applies
   to the runner's stack in front of ocimem ([mem_history_transparent_slack]); an example history
   (the one Proofs/StackHistoryRefuted.v refutes the strict statement with: a refused PushBlob,
   then Repositories).

     m_slack st sp    every repository of st is a repository of sp with the same tags, manifests
                      and blobs; every other repository of sp has none *)
From Coq Require Import String.
From OCI Require Import Obs.StackRun Model.MemSpec Proofs.MemBasics Proofs.MemInv.
From OCI Require Import Proofs.Request Proofs.RequestCodec Proofs.StackBase Proofs.StackDesc Proofs.StackRange Proofs.StackUpload.
From OCI Require Import Proofs.StackTransparent Proofs.StackListing Proofs.StackListingB Proofs.StackTwoHops.
From OCI Require Import Proofs.StackStep Proofs.StackHistory Proofs.StackHistoryRun Proofs.StackMem Proofs.StackWriterStep Proofs.StackWriters.
From OCI Require Import Proofs.StackMemImm Proofs.StackWritersMem Proofs.StackJson.
From OCI Require Model.MemRel.

Local Open Scope Z_scope.

Section SlackMem.
  Variable orc : oracles.
  Variable more : list (bytes * bytes * bytes).
  Variable imm : bool.      (* ImmutableTags *)

  Notation all := (fun _ : alg => true).
  Notation hashhex := (orc_hashhex orc more).
  Notation mhash := (orc_hash orc).
  Notation vd := (orc_vd orc).
  Notation vr := (orc_vr orc).
  Notation vt := (orc_vt orc).
  Notation mem := (mem_step orc imm).
  Notation mback := (backend_of_registry (mem_step orc imm)).
  Notation trt := (Mem.tagged_refers_to (orc_img orc) (orc_idx orc)).

  Lemma mback_eq st c : mback st c = (fst (mem st c), bres_of_result (snd (mem st c))).
  Proof. unfold backend_of_registry. destruct (mem st c); reflexivity. Qed.

  Definition content_eq (rp rpp : repo) : Prop :=
    tags rp = tags rpp /\ manifests rp = manifests rpp /\ blobs rp = blobs rpp.

  Definition content_free (rp : repo) : Prop := tags rp = [] /\ manifests rp = [] /\ blobs rp = [].

  Definition m_slack (st sp : state) : Prop :=
    forall r, match get_repo st r, get_repo sp r with
              | Some rp, Some rpp => content_eq rp rpp
              | None, Some rpp => content_free rpp
              | None, None => True
              | Some _, None => False
              end.

  Lemma slack_refl st : m_slack st st.
  Proof. intros r. destruct (get_repo st r); [repeat split | exact I]. Qed.

  Lemma slack_repos_r st sp sp' : m_slack st sp -> repos sp' = repos sp -> m_slack st sp'.
  Proof. intros H E r. specialize (H r). unfold get_repo in *. now rewrite E. Qed.

  Lemma trt_ce x y d : content_eq x y -> trt x d = trt y d.
  Proof.
    intros (Ht & Hm & _). unfold Mem.tagged_refers_to, tag_refs. rewrite Ht, Hm. now apply (refers_to_manifests orc).
  Qed.

  (* ---------------------------------------------------------- lookups *)

  Lemma blob_for_slack st sp r d : m_slack st sp ->
    blob_for st r d = blob_for sp r d
    \/ (blob_for st r d = Err e_name_unknown /\ blob_for sp r d = Err e_blob_unknown).
  Proof.
    intros H. specialize (H r). unfold blob_for. destruct (get_repo st r) as [rp|], (get_repo sp r) as [rpp|]; try contradiction.
    - destruct H as (_ & _ & ->). left; reflexivity.
    - destruct H as (_ & _ & ->). right. auto.
    - left; reflexivity.
  Qed.

  Lemma manifest_for_slack st sp r d : m_slack st sp ->
    manifest_for st r d = manifest_for sp r d
    \/ (manifest_for st r d = Err e_name_unknown /\ manifest_for sp r d = Err e_manifest_unknown).
  Proof.
    intros H. specialize (H r). unfold manifest_for. destruct (get_repo st r) as [rp|], (get_repo sp r) as [rpp|]; try contradiction.
    - destruct H as (_ & -> & _). left; reflexivity.
    - destruct H as (_ & -> & _). right. auto.
    - left; reflexivity.
  Qed.

  Lemma nf_name : not_found (gerr_of_err e_name_unknown). Proof. reflexivity. Qed.
  Lemma nf_blob : not_found (gerr_of_err e_blob_unknown). Proof. reflexivity. Qed.
  Lemma nf_manifest : not_found (gerr_of_err e_manifest_unknown). Proof. reflexivity. Qed.

  (* ---------------------------------------------------------- updates *)

  Lemma slack_make_repo st sp r : m_slack st sp ->
    match make_repo vr st r, make_repo vr sp r with
    | Some t, Some tp => m_slack t tp /\ exists rp rpp, get_repo t r = Some rp /\ get_repo tp r = Some rpp /\ content_eq rp rpp
    | None, None => True
    | _, _ => False
    end.
  Proof.
    intros H. unfold make_repo. destruct (vr r); [|exact I]. pose proof (H r) as Hr.
    destruct (get_repo st r) as [rp|] eqn:E1, (get_repo sp r) as [rpp|] eqn:E2; try contradiction.
    - split; [exact H|]. exists rp, rpp. auto.
    - split.
      + intros r'. rewrite get_repo_set_repo. destruct (beqb r' r) eqn:B.
        * apply beqb_eq in B. subst r'. rewrite E2. destruct Hr as (A & B0 & C). unfold content_eq. cbn. rewrite A, B0, C. auto.
        * apply H.
      + exists empty_repo, rpp. rewrite get_repo_set_repo, beqb_refl. destruct Hr as (A & B0 & C).
        unfold content_eq. cbn. rewrite A, B0, C. auto.
    - split.
      + intros r'. rewrite !get_repo_set_repo. destruct (beqb r' r); [repeat split | apply H].
      + exists empty_repo, empty_repo. rewrite !get_repo_set_repo, beqb_refl. repeat split.
  Qed.

  Lemma slack_upd_repo st sp r rp (f : repo -> repo) : m_slack st sp -> get_repo st r = Some rp ->
    (forall x y, content_eq x y -> content_eq (f x) (f y)) ->
    m_slack (upd_repo st r f) (upd_repo sp r f).
  Proof.
    intros H Hg Hf r'. rewrite !get_repo_upd_repo. destruct (beqb r' r) eqn:B; [|apply H].
    pose proof (H r) as Hr. rewrite Hg in *. destruct (get_repo sp r); [|contradiction]. cbn. now apply Hf.
  Qed.

  Lemma ce_set_blob d b x y : content_eq x y -> content_eq (rp_set_blob d b x) (rp_set_blob d b y).
  Proof. intros (A & B0 & C). repeat split; cbn; congruence. Qed.
  Lemma ce_del_blob d x y : content_eq x y -> content_eq (rp_del_blob d x) (rp_del_blob d y).
  Proof. intros (A & B0 & C). repeat split; cbn; congruence. Qed.
  Lemma ce_del_manifest d x y : content_eq x y -> content_eq (rp_del_manifest d x) (rp_del_manifest d y).
  Proof. intros (A & B0 & C). repeat split; cbn; congruence. Qed.
  Lemma ce_del_tag t x y : content_eq x y -> content_eq (rp_del_tag t x) (rp_del_tag t y).
  Proof. intros (A & B0 & C). repeat split; cbn; congruence. Qed.

  Lemma check_refs_ce x y refs : content_eq x y -> forall subj, check_refs mhash vd x refs subj = check_refs mhash vd y refs subj.
  Proof.
    intros (A & B0 & C). induction refs as [|[k de] rest IH]; intros subj; cbn [check_refs]; [reflexivity|].
    destruct (check_descriptor mhash vd de None); [reflexivity|]. destruct k; rewrite ?B0, ?C; try apply IH.
    - destruct (alookup (d_digest de) (blobs y)); [apply IH | reflexivity].
    - destruct (alookup (d_digest de) (manifests y)); [apply IH | reflexivity].
  Qed.

  (* ---------------------------------------------------------- every one-call method *)

  Notation bres_ r := (bres_of_result r).

  Ltac nf_err e1 e2 := right; exists (gerr_of_err e1), (gerr_of_err e2); repeat split; reflexivity.

  Lemma mem_slack_step st sp c : m_slack st sp -> plain_op c = true ->
    slack_ans c (bres_ (snd (mem st c))) (bres_ (snd (mem sp c))) /\ m_slack (fst (mem st c)) (fst (mem sp c)).
  Proof.
    intros H Hpl.
    destruct c as [rp d|rp d o0 o1|rp d|rp t|rp d|rp d|rp t|rp de content|rp hint|rp id off hint|from to d|rp t content med|rp d|rp d|rp t|st0|rp st0|rp d art|h data|h|h|h|h|h d|h];
      try discriminate Hpl; unfold mem_step; cbn [step fst snd].
    - (* GetBlob *)
      split; [|exact H]. destruct (blob_for_slack st sp rp d H) as [-> | [-> ->]]; [left; reflexivity | nf_err e_name_unknown e_blob_unknown].
    - (* GetBlobRange *)
      split; [|exact H]. destruct (blob_for_slack st sp rp d H) as [-> | [-> ->]]; [left; reflexivity | nf_err e_name_unknown e_blob_unknown].
    - (* GetManifest *)
      split; [|exact H]. destruct (manifest_for_slack st sp rp d H) as [-> | [-> ->]]; [left; reflexivity | nf_err e_name_unknown e_manifest_unknown].
    - (* GetTag *)
      split; [|exact H]. pose proof (H rp) as Hr.
      destruct (get_repo st rp) as [r1|] eqn:E1, (get_repo sp rp) as [r2|] eqn:E2; try contradiction.
      + destruct Hr as (-> & _ & _). destruct (alookup t (tags r2)) as [de|]; [|left; reflexivity].
        destruct (manifest_for_slack st sp rp (d_digest de) H) as [-> | [Ha Hb]]; [left; reflexivity|].
        unfold manifest_for in Ha. rewrite E1 in Ha. destruct (alookup (d_digest de) (manifests r1)); discriminate.
      + destruct Hr as (-> & _ & _). cbn. nf_err e_name_unknown e_manifest_unknown.
      + left; reflexivity.
    - (* ResolveBlob *)
      split; [|exact H]. destruct (blob_for_slack st sp rp d H) as [-> | [-> ->]]; [left; reflexivity | nf_err e_name_unknown e_blob_unknown].
    - (* ResolveManifest *)
      split; [|exact H]. destruct (manifest_for_slack st sp rp d H) as [-> | [-> ->]]; [left; reflexivity | nf_err e_name_unknown e_manifest_unknown].
    - (* ResolveTag *)
      split; [|exact H]. pose proof (H rp) as Hr.
      destruct (get_repo st rp) as [r1|], (get_repo sp rp) as [r2|]; try contradiction.
      + destruct Hr as (-> & _ & _). left; reflexivity.
      + destruct Hr as (-> & _ & _). cbn. nf_err e_name_unknown e_manifest_unknown.
      + left; reflexivity.
    - (* PushBlob *)
      destruct (check_descriptor mhash vd de (Some content)); [split; [left; reflexivity | exact H]|].
      pose proof (slack_make_repo st sp rp H) as Hm.
      destruct (make_repo vr st rp) as [t1|], (make_repo vr sp rp) as [t2|]; try contradiction; [|split; [left; reflexivity | exact H]].
      destruct Hm as (Hm & r1 & r2 & E1 & E2 & Hce). cbn [fst snd]. split; [left; reflexivity|].
      apply (slack_upd_repo t1 t2 rp r1 _ Hm E1). intros x y. apply ce_set_blob.
    - (* MountBlob *)
      pose proof (slack_make_repo st sp to H) as Hm.
      destruct (make_repo vr st to) as [t1|], (make_repo vr sp to) as [t2|]; try contradiction; [|split; [left; reflexivity | exact H]].
      destruct Hm as (Hm & r1 & r2 & E1 & E2 & Hce).
      destruct (blob_for_slack t1 t2 from d Hm) as [E | [-> ->]].
      + rewrite E. destruct (blob_for t2 from d); cbn [fst snd]; try (split; [left; reflexivity | exact Hm]).
        split; [left; reflexivity|]. apply (slack_upd_repo t1 t2 to r1 _ Hm E1). intros x y. apply ce_set_blob.
      + cbn [fst snd]. split; [nf_err e_name_unknown e_blob_unknown | exact Hm].
    - (* PushManifest *)
      pose proof (slack_make_repo st sp rp H) as Hm.
      destruct (make_repo vr st rp) as [t1|], (make_repo vr sp rp) as [t2|]; try contradiction; [|split; [left; reflexivity | exact H]].
      destruct Hm as (Hm & r1 & r2 & E1 & E2 & Hce). rewrite E1, E2. cbn [immutable_tags].
      assert (Hcm : check_manifest mhash vd (orc_img orc) (orc_idx orc) r1 med content
                    = check_manifest mhash vd (orc_img orc) (orc_idx orc) r2 med content).
      { unfold check_manifest. destruct (manifest_refs (orc_img orc) (orc_idx orc) med content); [|reflexivity].
        now apply check_refs_ce. }
      rewrite Hcm. pose proof Hce as (Htg & Hmf & _). rewrite Htg, Hmf.
      set (de := {| d_media := med; d_digest := mhash content; d_size := blen content; d_artifact := [] |}).
      assert (G : forall tt0 : bytes,
        let X (s1 : state) : state * result :=
          if imm && match alookup (mhash content) (manifests r2) with Some cur => negb (beqb (b_media cur) med) | None => false end
          then (s1, Err (E DENIED (s "mismatched media type")))
          else
          match check_descriptor mhash vd de (Some content) with
          | Some _ => (s1, Err (e_plain (s "invalid descriptor")))
          | None =>
              match check_manifest mhash vd (orc_img orc) (orc_idx orc) r2 med content with
              | None => (s1, Err (e_plain (s "invalid manifest")))
              | Some subject =>
                  (upd_repo s1 rp (fun rp0 =>
                     let rp1' := rp_set_manifest (mhash content) {| b_media := med; b_data := content; b_subject := subject |} rp0 in
                     match tt0 with [] => rp1' | _ => rp_set_tag tt0 de rp1' end), Ok (RDesc de))
              end
          end in
        slack_ans (PushManifest rp t content med) (bres_ (snd (X t1))) (bres_ (snd (X t2))) /\ m_slack (fst (X t1)) (fst (X t2))).
      { intros tt0 X. unfold X.
        destruct (imm && match alookup (mhash content) (manifests r2) with Some cur => negb (beqb (b_media cur) med) | None => false end);
          [split; [left; reflexivity | exact Hm]|].
        destruct (check_descriptor mhash vd de (Some content)); [split; [left; reflexivity | exact Hm]|].
        destruct (check_manifest mhash vd (orc_img orc) (orc_idx orc) r2 med content); [|split; [left; reflexivity | exact Hm]].
        cbn [fst snd]. split; [left; reflexivity|]. apply (slack_upd_repo t1 t2 rp r1 _ Hm E1).
        intros x y (A & B0 & C). destruct tt0; repeat split; cbn; congruence. }
      destruct t as [|c0 t'].
      + apply (G []).
      + destruct (vt (c0 :: t')); cbn [negb]; [|split; [left; reflexivity | exact Hm]].
        destruct imm; [|apply (G (c0 :: t'))].
        destruct (alookup (c0 :: t') (tags r2)) as [cur|]; [|apply (G (c0 :: t'))].
        destruct (beqb (mhash content) (d_digest cur)); [|split; [left; reflexivity | exact Hm]].
        destruct (beqb (d_media cur) med); (split; [left; reflexivity | exact Hm]).
    - (* DeleteBlob *)
      destruct (blob_for_slack st sp rp d H) as [E | [-> ->]].
      + rewrite E. destruct (blob_for sp rp d) as [b| | |] eqn:Eb; cbn [fst snd]; try (split; [left; reflexivity | exact H]).
        pose proof (H rp) as Hr. destruct (get_repo st rp) as [r1|] eqn:E1, (get_repo sp rp) as [r2|] eqn:E2; try contradiction;
          cbn [immutable_tags fst snd].
        * rewrite (trt_ce r1 r2 d Hr).
          assert (Gd : slack_ans (DeleteBlob rp d) (bres_ (Ok RUnit)) (bres_ (Ok RUnit))
                       /\ m_slack (upd_repo st rp (rp_del_blob d)) (upd_repo sp rp (rp_del_blob d))).
          { split; [left; reflexivity|]. apply (slack_upd_repo st sp rp r1 _ H E1). intros x y. apply ce_del_blob. }
          destruct imm; [|exact Gd]. destruct (trt r2 d) as [[|]| | |]; cbn [fst snd]; try exact Gd; (split; [left; reflexivity | exact H]).
        * unfold blob_for in E. rewrite E1 in E. discriminate E.
        * split; [left; reflexivity | exact H].
      + cbn [fst snd]. split; [nf_err e_name_unknown e_blob_unknown | exact H].
    - (* DeleteManifest *)
      destruct (manifest_for_slack st sp rp d H) as [E | [-> ->]].
      + rewrite E. destruct (manifest_for sp rp d) as [b| | |] eqn:Eb; cbn [fst snd]; try (split; [left; reflexivity | exact H]).
        pose proof (H rp) as Hr. destruct (get_repo st rp) as [r1|] eqn:E1, (get_repo sp rp) as [r2|] eqn:E2; try contradiction;
          cbn [immutable_tags fst snd].
        * rewrite (trt_ce r1 r2 d Hr).
          assert (Gd : slack_ans (DeleteManifest rp d) (bres_ (Ok RUnit)) (bres_ (Ok RUnit))
                       /\ m_slack (upd_repo st rp (rp_del_manifest d)) (upd_repo sp rp (rp_del_manifest d))).
          { split; [left; reflexivity|]. apply (slack_upd_repo st sp rp r1 _ H E1). intros x y. apply ce_del_manifest. }
          destruct imm; [|exact Gd]. destruct (trt r2 d) as [[|]| | |]; cbn [fst snd]; try exact Gd; (split; [left; reflexivity | exact H]).
        * unfold manifest_for in E. rewrite E1 in E. discriminate E.
        * split; [left; reflexivity | exact H].
      + cbn [fst snd]. split; [nf_err e_name_unknown e_manifest_unknown | exact H].
    - (* DeleteTag *)
      pose proof (H rp) as Hr. destruct (get_repo st rp) as [r1|] eqn:E1, (get_repo sp rp) as [r2|] eqn:E2; try contradiction.
      + pose proof Hr as (Ht & _ & _). rewrite Ht. destruct (alookup t (tags r2)); cbn [immutable_tags fst snd]; [|split; [left; reflexivity | exact H]].
        destruct imm; cbn [fst snd]; [split; [left; reflexivity | exact H]|].
        split; [left; reflexivity|]. apply (slack_upd_repo st sp rp r1 _ H E1). intros x y. apply ce_del_tag.
      + destruct Hr as (-> & _ & _). cbn [alookup fst snd]. split; [nf_err e_name_unknown e_manifest_unknown | exact H].
      + split; [left; reflexivity | exact H].
    - (* Repositories *)
      split; [|exact H]. right. cbn [bres_of_result bval_of_res option_map]. eexists. eexists. split; [reflexivity|]. split; [reflexivity|].
      intros x Hx. apply list_after_In in Hx as [Hin Hlt]. apply list_after_In. split; [|exact Hlt].
      apply In_akeys_lookup in Hin as (r1 & Hl). pose proof (H x) as Hr. unfold get_repo in Hr. rewrite Hl in Hr.
      destruct (alookup x (repos sp)) eqn:E2; [|contradiction]. eapply alookup_Some_in. exact E2.
    - (* Tags *)
      split; [|exact H]. pose proof (H rp) as Hr.
      destruct (get_repo st rp) as [r1|], (get_repo sp rp) as [r2|]; try contradiction.
      + destruct Hr as (-> & _ & _). left; reflexivity.
      + destruct Hr as (-> & _ & _). right. cbn. split; [|reflexivity]. eexists. split; reflexivity.
      + left; reflexivity.
    - (* Referrers *)
      split; [|exact H]. pose proof (H rp) as Hr.
      destruct (get_repo st rp) as [r1|], (get_repo sp rp) as [r2|]; try contradiction.
      + destruct Hr as (_ & -> & _). left; reflexivity.
      + destruct Hr as (_ & -> & _). right. cbn. split; [|reflexivity]. eexists. split; reflexivity.
      + left; reflexivity.
  Qed.

  (* ---------------------------------------------------------- the calls that store nothing *)

  Lemma slack_trans st sp sp' : m_slack st sp -> m_slack sp sp' -> m_slack st sp'.
  Proof.
    intros H1 H2 r. specialize (H1 r). specialize (H2 r).
    destruct (get_repo st r) as [a|], (get_repo sp r) as [b|], (get_repo sp' r) as [c|]; try contradiction; try exact I.
    - destruct H1 as (A1 & B1 & C1), H2 as (A2 & B2 & C2). repeat split; congruence.
    - destruct H1 as (A1 & B1 & C1), H2 as (A2 & B2 & C2). repeat split; congruence.
    - exact H2.
  Qed.

  Lemma slack_same_repos sp sp' : repos sp' = repos sp -> m_slack sp sp'.
  Proof. intros E. apply (slack_repos_r sp sp sp' (slack_refl sp) E). Qed.

  Lemma chunked_slack sp r id0 off : m_slack sp (fst (chunked orc sp r id0 off)).
  Proof.
    unfold chunked. pose proof (slack_make_repo sp sp r (slack_refl sp)) as Hm.
    destruct (make_repo vr sp r) as [s1|] eqn:EM; [|apply slack_refl].
    assert (H1 : m_slack sp s1).
    { apply make_repo_some in EM as (_ & _ & _ & _ & Hg). intros r'. rewrite Hg. destruct (get_repo sp r') as [a|]; [repeat split|].
      destruct (beqb r' r); [repeat split | exact I]. }
    destruct (get_repo s1 r) as [r0|] eqn:Eg; [|exact H1].
    destruct (alookup id0 (uploads r0)); cbn [fst].
    - apply (slack_trans _ s1); [exact H1 | now apply slack_same_repos].
    - apply (slack_trans _ s1); [exact H1|]. intros r'.
      assert (Eg' : get_repo {| repos := aset r (rp_set_upload match id0 with [] => fresh_id (next_id s1) | _ :: _ => id0 end
                                                     (N.of_nat (length (bufs s1))) r0) (repos s1);
                                bufs := bufs s1 ++ [new_buffer r match id0 with [] => fresh_id (next_id s1) | _ :: _ => id0 end off];
                                next_id := match id0 with [] => N.succ (next_id s1) | _ :: _ => next_id s1 end |} r'
                    = if beqb r' r then Some (rp_set_upload match id0 with [] => fresh_id (next_id s1) | _ :: _ => id0 end
                                                (N.of_nat (length (bufs s1))) r0) else get_repo s1 r').
      { unfold get_repo. cbn [repos]. apply alookup_aset. }
      rewrite Eg'. destruct (beqb r' r) eqn:B.
      + apply beqb_eq in B. subst r'. rewrite Eg. repeat split.
      + destruct (get_repo s1 r'); [repeat split | exact I].
  Qed.

  Lemma mem_stores_nothing sp c : stores_nothing state mback sp c -> m_slack sp (fst (mem sp c)).
  Proof.
    intros Hq. destruct c; try contradiction.
    - rewrite start_chunked. apply chunked_slack.
    - rewrite resume_chunked. apply chunked_slack.
    - apply slack_same_repos. unfold mem_step. cbn [step]. destruct (nth_error (bufs sp) (N.to_nat w)); [|reflexivity].
      destruct (negb (u_check b =? -1) && negb (blen (u_buf b) =? u_check b)); reflexivity.
    - apply slack_refl.
    - apply slack_refl.
    - apply slack_refl.
    - apply slack_refl.
    - (* a Commit that is refused *)
      cbn [stores_nothing] in Hq. destruct Hq as (e & Hq). rewrite mback_eq in Hq. cbn [snd] in Hq.
      apply slack_same_repos. unfold mem_step in *. cbn [step] in *. destruct (nth_error (bufs sp) (N.to_nat w)) as [b|]; [|reflexivity].
      destruct (u_err b); [reflexivity|]. destruct (beqb (mhash (u_buf b)) d); [discriminate Hq | reflexivity].
    - apply slack_same_repos. unfold mem_step. cbn [step]. destruct (nth_error (bufs sp) (N.to_nat w)); reflexivity.
  Qed.

  Lemma mem_push_fail st r d data e : snd (mem st (PushBlob r d data)) = Err e -> fst (mem st (PushBlob r d data)) = st.
  Proof.
    unfold mem_step. cbn [step]. destruct (check_descriptor mhash vd d (Some data)); [reflexivity|].
    destruct (make_repo vr st r); [discriminate | reflexivity].
  Qed.

  (* ---------------------------------------------------------- the laws *)

  Theorem mem_slack_laws : SlackLaws all hashhex (orc_subject orc) state mback (InvW orc) m_slack.
  Proof.
    constructor.
    - intros b _. apply slack_refl.
    - intros b bp c _ _ H Hpl _. rewrite !mback_eq. cbn [fst snd]. now apply mem_slack_step.
    - intros b bp c _ H Hq. rewrite mback_eq. cbn [fst]. apply (slack_trans _ bp); [exact H | now apply mem_stores_nothing].
    - intros b bp r d data e _ H Hr. rewrite mback_eq in *. cbn [fst snd] in *.
      destruct (snd (mem b (PushBlob r d data))) as [|e0| |] eqn:E; try discriminate Hr.
      now rewrite (mem_push_fail b r d data e0 E).
  Qed.

End SlackMem.

Print Assumptions mem_slack_laws.

(* ================================================================ a refused session, by evaluation *)

Definition try_session_err {St} (bstep : backend St) (b : St) (rp dg data : bytes) : option (St * gerr) :=
  let '(b1, r1) := bstep b (PushBlobChunked rp 0) in
  match r1 with
  | Ok vw =>
    let '(b2, r2) := bstep b1 (WID (wid_of vw)) in
    match r2 with
    | Ok vid =>
      let '(b3, r3) := bstep b2 (WChunkSize (wid_of vw)) in
      match r3 with
      | Ok vcs =>
        let '(b4, rc) := bstep b3 (WClose (wid_of vw)) in
        let '(b5, r5) := bstep b4 (PushBlobChunkedResume rp (str_of vid) 0 (blen data)) in
        match r5 with
        | Ok vw2 =>
          let '(b6, r6) := bstep b5 (WWrite (wid_of vw2) data) in
          match r6 with
          | Ok vn =>
            let '(b7, r7) := bstep b6 (WCommit (wid_of vw2) dg) in
            match r7 with
            | Err e => let '(b8, rc2) := bstep b7 (WClose (wid_of vw2)) in Some (b8, e)
            | _ => None
            end
          | _ => None
          end
        | _ => None
        end
      | _ => None
      end
    | _ => None
    end
  | _ => None
  end.

Lemma try_session_err_ok {St} (bstep : backend St) b rp dg data b8 e :
  try_session_err bstep b rp dg data = Some (b8, e) -> session_err St bstep b rp dg data b8 e.
Proof.
  unfold try_session_err, session_err.
  destruct (bstep b (PushBlobChunked rp 0)) as [b1 [vw| | |]] eqn:E1; try discriminate.
  destruct (bstep b1 (WID (wid_of vw))) as [b2 [vid| | |]] eqn:E2; try discriminate.
  destruct (bstep b2 (WChunkSize (wid_of vw))) as [b3 [vcs| | |]] eqn:E3; try discriminate.
  destruct (bstep b3 (WClose (wid_of vw))) as [b4 rc] eqn:E4.
  destruct (bstep b4 (PushBlobChunkedResume rp (str_of vid) 0 (blen data))) as [b5 [vw2| | |]] eqn:E5; try discriminate.
  destruct (bstep b5 (WWrite (wid_of vw2) data)) as [b6 [vn| | |]] eqn:E6; try discriminate.
  destruct (bstep b6 (WCommit (wid_of vw2) dg)) as [b7 [|e0| |]] eqn:E7; try discriminate.
  destruct (bstep b7 (WClose (wid_of vw2))) as [b8' rc2] eqn:E8. intros H. injection H as <- <-.
  exists b1, b2, b3, b4, b5, b6, b7, vw, vid, vcs, rc, vw2, vn, rc2. auto 10.
Qed.

(* ================================================================ the theorem for the runner in front of ocimem *)

Section SlackRun.
  Variable orc : oracles.
  Variable more : list (bytes * bytes * bytes).
  Variable imm : bool.
  Variable sv : opts.
  Variable cc : ccfg.

  Notation so := (soracles_of orc more).
  Notation mback := (backend_of_registry (mem_step orc imm)).

  Definition mem_shadow_adm : state -> list op -> list state -> Prop :=
    shadow_adm (so_linked so) (so_hash so) (so_subject so) enc0 state mback sv cc.

  (* histories of the one-call methods in which PushBlobs may be refused (ImmutableTags off or on):
     the answers agree up to [slack_equiv]; the store behind the stack is that of the shadow, which
     has the store of the registry called directly and content-free repositories beside *)
  Theorem mem_history_transparent_slack h bps :
    orc_sane orc more -> (imm = true -> MemRel.acyclic (orc_hash orc) (orc_img orc) (orc_idx orc)) ->
    o_locs sv = None -> (1 <= cc_bufsz cc)%nat ->
    (N.of_nat (length h) <= id_limit)%N ->
    mem_shadow_adm init h bps ->
    Forall3 slack_equiv h (snd (brun mback init h)) (snd (brun (stack_backend so sv cc mback) (sstate0 init) h))
    /\ m_slack (fst (brun mback init h)) (last bps init)
    /\ simM (last bps init) (sv_b (st_srv (fst (brun (stack_backend so sv cc mback) (sstate0 init) h)))).
  Proof.
    intros Hs Hac Hl Hk Hlen Ha. unfold stack_backend.
    exact (history_transparent_slack (so_linked so) (so_hash so) (so_subject so) media0 enc0 dec_errors0 dec_names0 dec_index0
             redirect0 state mback sv cc (InvW orc) simM (m_upl orc) (m_hdl orc) m_room
             (mem_conforming_w orc more imm Hs Hac sv) (mem_upload_laws orc imm) Hl media_json0 json_errors_rt0 json_index_rt0
             json_tags_rt0 json_catalog_rt0 Hk m_slack (mem_slack_laws orc more imm) init h bps (invw_init orc) Hlen Ha).
  Qed.
End SlackRun.

Print Assumptions mem_history_transparent_slack.

(* ================================================================ the refuted history, now covered *)

From OCI Require Proofs.StackMemRun.

Module SlackExample.
  Import Smoke.

  Notation so := (soracles_of orc []).
  Notation mback := (backend_of_registry (mem_step orc false)).

  (* the digest is blob1's, the content blob2: refused; then the catalogue *)
  Definition bad_push : op := PushBlob repo1 (bdesc blob1) blob2.
  Definition shist : list op := [bad_push; Repositories []; ResolveBlob repo1 (dg blob1)].

  (* the shadow after the refused push: the registry with the upload session left behind *)
  Definition shadow1 : state :=
    match try_session_err mback init repo1 (dg blob1) blob2 with Some (b8, _) => b8 | None => init end.

  Lemma shadow1_session :
    try_session_err mback init repo1 (dg blob1) blob2 = Some (shadow1, gerr_of_err (E DIGEST_INVALID (s "digest mismatch"))).
  Proof. vm_compute. reflexivity. Qed.

  Lemma catalog_small : forall s0 v,
    snd (mback shadow1 (Repositories s0)) = Ok v ->
    blen (enc0 (JCatalog (firstn (Z.to_nat (c_page_size (stack_client default_ccfg))) (items_of v)))) <= max_int64.
  Proof.
    intros s0 v. unfold backend_of_registry. cbn [snd mem_step]. unfold mem_step. cbn [step snd bres_of_result].
    change (akeys (repos shadow1)) with [repo1]. unfold list_after. cbn [filter].
    destruct (bltb s0 repo1); intros E; injection E as <-; vm_compute; discriminate.
  Qed.

  Lemma shist_admissible : mem_shadow_adm orc [] false default_opts default_ccfg init shist [shadow1; shadow1; shadow1].
  Proof.
    unfold mem_shadow_adm, shist. cbn [shadow_adm]. split; [|split; [|split; [|exact I]]].
    - (* the refused PushBlob *)
      unfold shadow_ok.
      assert (Er : refused state mback init bad_push
                   = Some (repo1, bdesc blob1, blob2, gerr_of_err (E DIGEST_INVALID (s "digest mismatch")))) by (vm_compute; reflexivity).
      rewrite Er. split; [reflexivity|]. split; [cbn [wf_op]; repeat split; try (vm_compute; reflexivity); vm_compute; discriminate|].
      split; [discriminate|].
      apply try_session_err_ok. exact shadow1_session.
    - (* Repositories on the shadow *)
      unfold shadow_ok. assert (Er : refused state mback shadow1 (Repositories []) = None) by reflexivity. rewrite Er.
      split; [|vm_compute; reflexivity].
      split; [reflexivity|]. split; [reflexivity|]. split; [vm_compute; split; discriminate|].
      split; [vm_compute; split; [reflexivity | discriminate]|]. split; [vm_compute; lia|].
      split; [exact catalog_small | vm_compute; lia].
    - (* ResolveBlob: not found on both sides *)
      unfold shadow_ok. assert (Er : refused state mback shadow1 (ResolveBlob repo1 (dg blob1)) = None) by reflexivity. rewrite Er.
      split; [|vm_compute; reflexivity].
      split; [reflexivity|]. split; [repeat split; vm_compute; reflexivity|]. split; [vm_compute; exact I | exact I].
  Qed.

  Example shist_transparent :
    Forall3 slack_equiv shist (snd (brun mback init shist))
            (snd (brun (stack_backend so default_opts default_ccfg mback) (sstate0 init) shist)).
  Proof.
    destruct (mem_history_transparent_slack orc [] false default_opts default_ccfg shist [shadow1; shadow1; shadow1]
                StackMemRun.Example.smoke_sane ltac:(discriminate) eq_refl ltac:(vm_compute; lia) ltac:(vm_compute; discriminate) shist_admissible) as (H & _).
    exact H.
  Qed.

  (* what the two runs answer to the catalogue request: nothing directly, the repository of the
     refused upload through the stack *)
  Example shist_catalogues :
    (nth_error (snd (brun mback init shist)) 1,
     nth_error (snd (brun (stack_backend so default_opts default_ccfg mback) (sstate0 init) shist)) 1)
    = (Some (Ok (VList [] None)), Some (Ok (VList [repo1] None))).
  Proof. vm_compute. reflexivity. Qed.
End SlackExample.

Print Assumptions SlackExample.shist_transparent.
