(* No Location the in-repo server emits has a "." or ".." path segment, so url.ResolveReference
   leaves it alone ([dot_free] in Model/Stack.v's [interp_url]): every segment of a valid
   repository name begins with a letter or a digit. *)
From Coq Require Import String.
From OCI Require Import Base.Regex Model.Stack Proofs.Request Proofs.Ref.

Local Open Scope N_scope.

(* no segment begins with a dot: [ps] = the previous byte was a "/" (or this is the start) *)
Fixpoint nds (ps : bool) (p : bytes) : bool :=
  match p with
  | [] => true
  | c :: r => (if ps then negb (c =? 46) else true) && nds (c =? 47) r
  end.

Definition is_dot_seg (seg : bytes) : bool := beqb seg [46] || beqb seg [46; 46].

Lemma dot_seg_first seg : is_dot_seg seg = true -> exists r, seg = 46 :: r.
Proof.
  unfold is_dot_seg. intros H. apply orb_true_iff in H as [H|H]; apply beqb_eq in H; subst; eauto.
Qed.

(* [cur] is the current segment reversed: empty, or its first byte is not a dot *)
Lemma nds_split p : forall cur,
  (cur = [] \/ exists c r, rev cur = c :: r /\ c <> 46) ->
  nds (match cur with [] => true | _ => false end) p = true ->
  existsb is_dot_seg (split_byte_aux 47 p cur) = false.
Proof.
  induction p as [|d p IH]; intros cur Hcur Hn; cbn [split_byte_aux existsb].
  - rewrite orb_false_r. destruct (is_dot_seg (rev cur)) eqn:E; [|reflexivity].
    apply dot_seg_first in E as [r E]. destruct Hcur as [->|(c & r' & Hc & Hne)]; [discriminate|].
    rewrite Hc in E. injection E as -> _. congruence.
  - cbn [nds] in Hn. apply andb_true_iff in Hn as [Hd Hn].
    destruct (N.eqb_spec d 47) as [->|Hd47].
    + cbn [existsb]. rewrite (IH [] (or_introl eq_refl) Hn), orb_false_r.
      destruct (is_dot_seg (rev cur)) eqn:E; [|reflexivity].
      apply dot_seg_first in E as [r E]. destruct Hcur as [->|(c & r' & Hc & Hne)]; [discriminate|].
      rewrite Hc in E. injection E as -> _. congruence.
    + apply IH; [|exact Hn]. right. destruct Hcur as [->|(c & r' & Hc & Hne)].
      * cbn [rev app]. exists d, []. split; [reflexivity|].
        cbn in Hd. apply negb_true_iff, N.eqb_neq in Hd. exact Hd.
      * cbn [rev]. rewrite Hc. exists c, (r' ++ [d]). split; [reflexivity | exact Hne].
Qed.

Lemma nds_dot_free p : nds true p = true -> dot_free p = true.
Proof.
  intros H. unfold dot_free, split_byte. fold is_dot_seg.
  change (fun seg : bytes => beqb seg [46] || beqb seg [46; 46]) with is_dot_seg.
  now rewrite (nds_split p [] (or_introl eq_refl) H).
Qed.

Definition ends_slash (ps : bool) (a : bytes) : bool :=
  match rev a with [] => ps | c :: _ => c =? 47 end.

Lemma nds_app a : forall ps b, nds ps (a ++ b) = nds ps a && nds (ends_slash ps a) b.
Proof.
  induction a as [|c a IH]; intros ps b.
  - reflexivity.
  - cbn [app nds]. rewrite IH, andb_assoc. f_equal. f_equal. unfold ends_slash. cbn [rev].
    destruct (rev a) as [|x l]; reflexivity.
Qed.

(* a string without "/" and without a leading dot *)
Lemma nds_no_slash ps a : ~ In 47 a -> (ps = true -> forall c r, a = c :: r -> c <> 46) -> nds ps a = true.
Proof.
  revert ps. induction a as [|c a IH]; intros ps Hn Hf; [reflexivity|]. cbn [nds].
  assert (Hc : c <> 47) by (intros ->; apply Hn; left; reflexivity).
  apply N.eqb_neq in Hc. rewrite Hc. apply andb_true_iff. split.
  - destruct ps; [|reflexivity]. apply negb_true_iff, N.eqb_neq. exact (Hf eq_refl c a eq_refl).
  - apply IH; [intros Hi; apply Hn; right; exact Hi | discriminate].
Qed.

Lemma ends_slash_no_slash ps c a : ~ In 47 (c :: a) -> ends_slash ps (c :: a) = false.
Proof.
  intros Hn. unfold ends_slash. destruct (rev (c :: a)) as [|x l] eqn:E.
  - apply (f_equal (@length N)) in E. rewrite rev_length in E. discriminate.
  - apply N.eqb_neq. intros ->. apply Hn. apply in_rev. rewrite E. left. reflexivity.
Qed.

(* ---------------------------------------------------------------- repository names *)

Definition alnum (c : N) : bool := ((97 <=? c) && (c <=? 122)) || ((48 <=? c) && (c <=? 57)).

Lemma path_component_shape w : Matches pathComponent w ->
  exists c r, w = c :: r /\ alnum c = true /\ ~ In 47 w.
Proof.
  intros H. pose proof (matches_alphabet _ _ H) as Ha.
  assert (Hns : ~ In 47 w).
  { intros Hi. rewrite Forall_forall in Ha. specialize (Ha _ Hi). vm_compute in Ha. discriminate. }
  unfold pathComponent, alphanumeric, Plus in H.
  apply m_cat in H as (u & v & -> & Hu & _). apply m_cat in Hu as (u1 & u2 & -> & Hu1 & _).
  apply m_chr in Hu1 as (c & -> & Hc). exists c, (u2 ++ v). split; [reflexivity|]. split; [|exact Hns].
  unfold cls_mem in Hc. cbn [c_neg c_ranges existsb xorb] in Hc. unfold in_range in Hc.
  change (fst r_lower) with 97 in Hc. change (snd r_lower) with 122 in Hc.
  change (fst r_digit) with 48 in Hc. change (snd r_digit) with 57 in Hc. rewrite orb_false_r in Hc.
  unfold alnum. destruct ((97 <=? c) && (c <=? 122) || (48 <=? c) && (c <=? 57)); [reflexivity | discriminate].
Qed.

Lemma alnum_not c : alnum c = true -> c <> 46 /\ c <> 47.
Proof.
  unfold alnum. intros H. apply orb_true_iff in H as [H|H]; apply andb_true_iff in H as [H1 H2];
    apply N.leb_le in H1, H2; lia.
Qed.

Lemma nds_component ps w : Matches pathComponent w -> nds ps w = true /\ ends_slash ps w = false.
Proof.
  intros H. destruct (path_component_shape w H) as (c & r & -> & Hc & Hn). split.
  - apply nds_no_slash; [exact Hn|]. intros _ c' r' E. injection E as <- <-. now apply alnum_not in Hc.
  - now apply ends_slash_no_slash.
Qed.

Lemma nds_components v : Matches (Star (Cat (Byte b_slash) pathComponent)) v ->
  nds false v = true /\ (v = [] \/ ends_slash false v = false).
Proof.
  intros H. remember (Star (Cat (Byte b_slash) pathComponent)) as rx eqn:Er.
  induction H; try discriminate.
  - split; [reflexivity | left; reflexivity].
  - injection Er as ->. specialize (IHMatches2 eq_refl) as [IH1 IH2]. clear IHMatches1.
    apply m_cat in H as (s0 & pc & -> & Hs & Hpc). apply m_byte in Hs as ->.
    destruct (nds_component true pc Hpc) as [N1 E1].
    destruct (path_component_shape pc Hpc) as (c & r & Epc & _ & Hns).
    assert (Hend : ends_slash false ([b_slash] ++ pc) = false).
    { unfold ends_slash. rewrite rev_app_distr. subst pc.
      destruct (rev (c :: r)) as [|x l] eqn:E.
      - apply (f_equal (@length N)) in E. rewrite rev_length in E. discriminate.
      - cbn [app]. apply N.eqb_neq. intros ->. apply Hns. apply in_rev. rewrite E. left. reflexivity. }
    split.
    + rewrite nds_app, Hend, IH1, andb_true_r. cbn [app nds]. change (b_slash =? 47) with true. exact N1.
    + right. destruct v as [|x v'].
      * rewrite app_nil_r. exact Hend.
      * destruct IH2 as [IH2|IH2]; [discriminate|]. unfold ends_slash in *. rewrite rev_app_distr.
        destruct (rev (x :: v')) as [|y l] eqn:E; [|exact IH2].
        apply (f_equal (@length N)) in E. rewrite rev_length in E. discriminate.
Qed.

Lemma vrepo_nds repo ps : vrepo repo = true -> nds ps repo = true /\ ends_slash ps repo = false.
Proof.
  intros H. apply vrepo_matches in H. apply matches_sem in H. unfold repoPat, repoName in H.
  apply m_cat in H as (u & v & -> & Hu & Hv).
  destruct (nds_component ps u Hu) as [N1 E1]. destruct (nds_components v Hv) as [N2 E2]. split.
  - rewrite nds_app, N1, E1, N2. reflexivity.
  - destruct E2 as [->|E2]; [rewrite app_nil_r; exact E1|].
    unfold ends_slash in *. rewrite rev_app_distr. destruct (rev v) as [|y l] eqn:E; [|exact E2].
    cbn [app]. exact E1.
Qed.

(* "/v2/" ++ repo ++ tail, where the tail begins with "/" and has no dot segment itself *)
Theorem v2_repo_dot_free repo tail :
  vrepo repo = true -> nds false tail = true -> dot_free (s "/v2/" ++ repo ++ tail) = true.
Proof.
  intros Hr Ht. apply nds_dot_free. destruct (vrepo_nds repo true Hr) as [N1 E1].
  change (s "/v2/" ++ repo ++ tail) with (47 :: 118 :: 50 :: 47 :: (repo ++ tail)).
  cbn [nds]. change (47 =? 46) with false. change (47 =? 47) with true. change (118 =? 47) with false.
  change (50 =? 47) with false. cbn [negb andb]. rewrite nds_app, N1, E1. exact Ht.
Qed.

Print Assumptions v2_repo_dot_free.
