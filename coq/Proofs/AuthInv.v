(* Proofs about Model/Auth.v, part 3: the invariant that ties the transport's state to the
   history (every cached token, the refresh token, the recorded challenge and the Basic
   credentials of a host are that host's own), and the bookkeeping of calls in flight. *)
From Coq Require Import String ZArith Lia.
From OCI Require Import Base.Outcome Model.Scope Model.Challenge Model.Auth Model.AuthSpec
  Proofs.Challenge Proofs.AuthBase Proofs.AuthShape.

Local Open Scope Z_scope.

Section Inv.
  Variable E : env.

  (* host [host] has answered a request with challenge [ch] *)
  Definition Named (host : bytes) (ch : auth_header) (h : hist) : Prop :=
    exists i a rsp, In (ESend i (MReg host a) rsp) h /\ challenge_of rsp = Some ch.

  Lemma Named_named host ch p h : Named host ch h -> p ch = true -> named host p h = true.
  Proof.
    intros [i [a [rsp [Hin Hc]]]] Hp. induction h as [|e h IH]; [destruct Hin|].
    destruct Hin as [->|Hin].
    - cbn. rewrite beqb_refl, Hc, Hp. reflexivity.
    - apply named_cons. now apply IH.
  Qed.

  Lemma Named_app host ch new h : Named host ch h -> Named host ch (new ++ h).
  Proof. intros [i [a [rsp [Hin Hc]]]]. exists i, a, rsp. split; [|exact Hc]. apply in_or_app. now right. Qed.

  Lemma Named_scheme host ch h : Named host ch h -> ah_scheme ch = sch_basic \/ ah_scheme ch = sch_bearer.
  Proof.
    intros [i [a [rsp [_ Hc]]]]. unfold challenge_of in Hc. destruct rsp as [|st www b]; [discriminate|].
    destruct (st =? 401)%N; [|discriminate]. now apply challenge_scheme in Hc.
  Qed.

  (* where a cached token comes from *)
  Definition tok_just (host : bytes) (r : registry) (tok : scoped_token) (h : hist) : Prop :=
    (exists ce, e_cfg E host = Some ce /\ nonempty (ce_access ce) = true
                /\ tok = {| st_scope := UnlimitedScope; st_token := ce_access ce; st_expires := forever |})
    \/ (exists i, In i (issues E h) /\ on_host (i_id i) host h = true
                  /\ i_text i = String (st_scope tok) /\ i_tok i = st_token tok /\ nonempty (st_token tok) = true
                  /\ i_exp i = st_expires tok /\ In (st_scope tok) (r_asked r)).

  Record RI (host : bytes) (r : registry) (h : hist) : Prop := {
    ri_inited : r_inited r = true;
    ri_basic : r_initerr r = false -> r_basic r = cfg_basic E host;
    ri_refresh : r_refresh r = [] \/ refresh_of_host E host (r_refresh r) h = true;
    ri_www : forall ch, r_www r = Some ch -> Named host ch h;
    ri_tok : forall tok, In tok (r_tokens r) -> tok_just host r tok h
  }.

  (* more history does not hurt, as long as no call is started twice *)
  Definition fresh_new (new h : hist) : Prop :=
    forall pre e post, new = pre ++ e :: post -> fresh_ev e (post ++ h).

  Lemma fresh_new_nil h : fresh_new [] h.
  Proof. intros pre e post H. destruct pre; discriminate. Qed.

  Lemma fresh_new_cons e new h : fresh_ev e (new ++ h) -> fresh_new new h -> fresh_new (e :: new) h.
  Proof.
    intros He Hn pre e' post H. destruct pre as [|x pre]; cbn in H.
    - injection H as <- <-. exact He.
    - injection H as _ H. now apply (Hn pre).
  Qed.

  Lemma fresh_new_tail e new h : fresh_new (e :: new) h -> fresh_ev e (new ++ h) /\ fresh_new new h.
  Proof.
    intros H. split.
    - apply (H [] e new). reflexivity.
    - intros pre e' post Hp. apply (H (e :: pre)). cbn. now rewrite Hp.
  Qed.

  Lemma no_start_fresh new h : (forall e, In e new -> forall i q, e <> EStart i q) -> fresh_new new h.
  Proof.
    intros H pre e post Hp i q He. exfalso. apply (H e) with (i := i) (q := q); [|exact He].
    rewrite Hp. apply in_or_app. right. now left.
  Qed.

  Lemma tok_just_cons host r tok e h : fresh_ev e h -> tok_just host r tok h -> tok_just host r tok (e :: h).
  Proof.
    intros Hf [H|[i [Hi [Ho Hrest]]]]; [now left|]. right. exists i.
    split; [now apply in_issues_cons|]. split; [now apply on_host_cons|]. exact Hrest.
  Qed.

  Lemma RI_cons host r e h : fresh_ev e h -> RI host r h -> RI host r (e :: h).
  Proof.
    intros Hf [H1 H2 H3 H4 H5]. split; auto.
    - destruct H3 as [H3|H3]; [now left|]. right. now apply refresh_of_host_cons.
    - intros ch Hc. apply (Named_app _ _ [e]). now apply H4.
    - intros tok Ht. apply tok_just_cons; auto.
  Qed.

  Lemma RI_app host r new h : fresh_new new h -> RI host r h -> RI host r (new ++ h).
  Proof.
    induction new as [|e new IH]; intros Hf Hr; [exact Hr|].
    apply fresh_new_tail in Hf as [He Hn]. cbn [app]. apply RI_cons; auto.
  Qed.

  Lemma tok_just_asked host r r' tok h :
    incl (r_asked r) (r_asked r') -> tok_just host r tok h -> tok_just host r' tok h.
  Proof.
    intros Hi [H|[i H]]; [now left|]. right. exists i. intuition.
  Qed.

  (* ---------- the registry map ---------- *)

  Lemma reg_get_set_same host r m : reg_get host (reg_set host r m) = Some r.
  Proof.
    induction m as [|[k r'] m IH]; cbn.
    - now rewrite beqb_refl.
    - destruct (beqb host k) eqn:Ek; cbn; rewrite Ek; [reflexivity | exact IH].
  Qed.

  Lemma reg_get_set_other host host' r m : beqb host' host = false -> reg_get host' (reg_set host r m) = reg_get host' m.
  Proof.
    intros Hk. induction m as [|[k r'] m IH]; cbn.
    - now rewrite Hk.
    - destruct (beqb host k) eqn:Ek; cbn.
      + apply beqb_eq in Ek. subst k. now rewrite Hk.
      + destruct (beqb host' k); [reflexivity | exact IH].
  Qed.

  Lemma th_get_set_same id t m : th_get id (th_set id t m) = Some t.
  Proof.
    induction m as [|[k t'] m IH]; cbn.
    - now rewrite Nat.eqb_refl.
    - destruct (Nat.eqb id k) eqn:Ek; cbn; rewrite Ek; [reflexivity | exact IH].
  Qed.

  Lemma th_get_set_other id id' t m : id' <> id -> th_get id' (th_set id t m) = th_get id' m.
  Proof.
    intros Hk. apply Nat.eqb_neq in Hk. induction m as [|[k t'] m IH]; cbn.
    - now rewrite Hk.
    - destruct (Nat.eqb id k) eqn:Ek; cbn.
      + apply Nat.eqb_eq in Ek. subst k. now rewrite Hk.
      + destruct (Nat.eqb id' k); [reflexivity | exact IH].
  Qed.

  (* ---------- calls in flight ---------- *)

  Definition thread_ok (id : nat) (th : thread) (h : hist) (rg : list (bytes * registry)) : Prop :=
    req_of id h = Some (th_q th) /\
    match th_pc th with
    | PAwait1 rsp =>
        returned id h = false /\ count_reg id h = 1%nat /\ last_reg id h = Some (th_hdr th, rsp)
        /\ In (ESend id (MReg (q_host (th_q th)) (th_hdr th)) rsp) h
        /\ (exists older, before_phase id h = EStart id (th_q th) :: older)
        /\ (exists r, reg_get (q_host (th_q th)) rg = Some r /\ r_initerr r = false)
    | PAwait2 rsp ta =>
        returned id h = false /\ count_reg id h = 2%nat /\ last_reg id h = Some (th_hdr th, rsp)
        /\ (exists older, before_phase id h = EResume id :: older)
        /\ (if ta then exists t, th_hdr th = ABearer t /\ existsb (fun i => beqb (i_tok i) t) (phase_issues E id h) = true
            else exists u p, th_hdr th = ABasic u p)
    | PDone => returned id h = true
    end.

  Record Inv (st : state) : Prop := {
    inv_none : forall id, th_get id (threads st) = None -> forall e, In e (history st) -> ev_id e <> id;
    inv_thr : forall id th, th_get id (threads st) = Some th -> thread_ok id th (history st) (regs st);
    inv_reg : forall host r, reg_get host (regs st) = Some r -> RI host r (history st)
  }.

  Lemma Inv_init : Inv init_state.
  Proof. split; cbn; intros; try discriminate; contradiction. Qed.

  (* ---------- events of one call ---------- *)

  Definition mine (id : nat) (new : hist) : Prop := Forall (fun e => ev_id e = id) new.

  Lemma mine_others id j new : j <> id -> mine id new -> others j new.
  Proof. intros Hj. apply Forall_impl. intros e He. congruence. Qed.

  Definition tok_sends (id : nat) (new : hist) : Prop :=
    Forall (fun e => exists m rsp, e = ESend id m rsp /\ is_tok_msg m = true) new.

  Lemma tok_sends_mine id new : tok_sends id new -> mine id new.
  Proof. apply Forall_impl. intros e [m [rsp [-> _]]]. reflexivity. Qed.

  Lemma tok_sends_fresh id new h : tok_sends id new -> fresh_new new h.
  Proof.
    intros H. apply no_start_fresh. intros e He i q ->. unfold tok_sends in H.
    rewrite Forall_forall in H. destruct (H _ He) as [m [rsp [Hx _]]]. discriminate.
  Qed.

  Lemma tok_sends_app id a b : tok_sends id a -> tok_sends id b -> tok_sends id (a ++ b).
  Proof. intros. now apply Forall_app. Qed.

  Lemma tok_events_sends id rf bs www txt new : tok_events E id rf bs www txt new -> tok_sends id new.
  Proof.
    apply Forall_impl. intros e [m [rsp [-> Hm]]]. exists m, rsp. split; [reflexivity|].
    exact (proj1 (tokmsg_facts E _ _ _ _ _ Hm)).
  Qed.

  Lemma tok_block_sends id rf bs www A B new sc2 res2 : tok_block E id rf bs www A B new sc2 res2 -> tok_sends id new.
  Proof.
    intros [n1 [res1 [H1 [[_ [-> _]]|[_ [n2 [H2 [-> _]]]]]]]].
    - eapply tok_events_sends, tok_seq_events, H1.
    - apply tok_sends_app; eapply tok_events_sends, tok_seq_events; eassumption.
  Qed.

  Lemma tok_block_ok id rf bs www A B new sc2 w :
    tok_block E id rf bs www A B new sc2 (Ok w) ->
    exists m www' rest, new = ESend id m (RHttp 200 www' (TBJSON w)) :: rest /\ tokmsg_for E rf bs www (String sc2) m.
  Proof.
    intros [n1 [res1 [H1 [[_ [-> [<- ->]]]|[_ [n2 [H2 [-> ->]]]]]]]].
    - now apply tok_seq_ok in H1.
    - apply tok_seq_ok in H2 as [m [www' [rest [-> Hm]]]]. exists m, www', (rest ++ n1). now split.
  Qed.

  (* frames for the history functions that involve the environment *)
  Lemma phase_issues_other id e h : ev_id e <> id -> phase_issues E id (e :: h) = phase_issues E id h.
  Proof.
    intros H. cbn [phase_issues]. destruct (is_marker id e) eqn:Em.
    - destruct e; cbn in *; try discriminate; apply Nat.eqb_eq in Em; congruence.
    - apply Nat.eqb_neq in H. now rewrite H.
  Qed.

  Lemma phase_issues_app id new h : others id new -> phase_issues E id (new ++ h) = phase_issues E id h.
  Proof.
    induction 1 as [|e l He _ IH]; [reflexivity|]. cbn [app]. now rewrite phase_issues_other.
  Qed.

  Lemma on_host_app i host new h : fresh_new new h -> on_host i host h = true -> on_host i host (new ++ h) = true.
  Proof.
    induction new as [|e new IH]; intros Hf Ho; [exact Ho|].
    apply fresh_new_tail in Hf as [He Hn]. cbn [app]. apply on_host_cons; auto.
  Qed.

  Lemma in_issues_app i new h : In i (issues E h) -> In i (issues E (new ++ h)).
  Proof. induction new; cbn [app]; auto. intros. now apply in_issues_cons, IHnew. Qed.

  (* a call that is not the one acting keeps its bookkeeping *)
  Lemma thread_ok_frame j th new h rg rg' :
    others j new ->
    (forall host r, reg_get host rg = Some r -> r_initerr r = false ->
                    exists r', reg_get host rg' = Some r' /\ r_initerr r' = false) ->
    thread_ok j th h rg -> thread_ok j th (new ++ h) rg'.
  Proof.
    intros Ho Hrg [Hq Hpc]. split; [now rewrite req_of_app|].
    destruct (th_pc th) as [rsp|rsp ta|].
    - destruct Hpc as [H1 [H2 [H3 [H4 [[older H5] [r [H6 H7]]]]]]].
      rewrite returned_app, count_reg_app, last_reg_app, before_phase_app by assumption.
      repeat split; auto.
      + apply in_or_app. now right.
      + now exists older.
      + now apply (Hrg _ r).
    - destruct Hpc as [H1 [H2 [H3 [[older H4] H5]]]].
      rewrite returned_app, count_reg_app, last_reg_app, before_phase_app, phase_issues_app by assumption.
      repeat split; auto. now exists older.
    - now rewrite returned_app.
  Qed.

  (* the state after one call acted *)
  Lemma Inv_update st id th' rg' new :
    Inv st ->
    mine id new -> fresh_new new (history st) ->
    (forall host r', reg_get host rg' = Some r' -> RI host r' (new ++ history st)) ->
    (forall host r, reg_get host (regs st) = Some r -> r_initerr r = false ->
                    exists r', reg_get host rg' = Some r' /\ r_initerr r' = false) ->
    thread_ok id th' (new ++ history st) rg' ->
    Inv {| regs := rg'; threads := th_set id th' (threads st); history := new ++ history st |}.
  Proof.
    intros [Hn Ht Hr] Hm Hf Hri Hie Hth. split; cbn [regs threads history].
    - intros j Hj e He. assert (j <> id) as Hne.
      { intros ->. rewrite th_get_set_same in Hj. discriminate. }
      rewrite th_get_set_other in Hj by exact Hne.
      apply in_app_or in He as [He|He].
      + unfold mine in Hm. rewrite Forall_forall in Hm. rewrite (Hm _ He). congruence.
      + now apply (Hn j).
    - intros j th Hj. destruct (Nat.eq_dec j id) as [->|Hne].
      + rewrite th_get_set_same in Hj. injection Hj as <-. exact Hth.
      + rewrite th_get_set_other in Hj by exact Hne.
        apply thread_ok_frame with (rg := regs st); auto. now apply mine_others with (id := id).
    - exact Hri.
  Qed.

  (* replacing the registry of one host *)
  Lemma regs_RI st host r' new :
    Inv st -> fresh_new new (history st) -> RI host r' (new ++ history st) ->
    forall host0 r0, reg_get host0 (reg_set host r' (regs st)) = Some r0 -> RI host0 r0 (new ++ history st).
  Proof.
    intros Hinv Hf Hr host0 r0 Hg. destruct (beqb host0 host) eqn:Eh.
    - apply beqb_eq in Eh. subst host0. rewrite reg_get_set_same in Hg. now injection Hg as <-.
    - rewrite reg_get_set_other in Hg by exact Eh. apply RI_app; auto. now apply (inv_reg _ Hinv).
  Qed.

  Lemma regs_initerr (rg : list (bytes * registry)) host r' :
    (forall r, reg_get host rg = Some r -> r_initerr r = false -> r_initerr r' = false) ->
    forall host0 r, reg_get host0 rg = Some r -> r_initerr r = false ->
                    exists r0, reg_get host0 (reg_set host r' rg) = Some r0 /\ r_initerr r0 = false.
  Proof.
    intros H host0 r Hg Hi. destruct (beqb host0 host) eqn:Eh.
    - apply beqb_eq in Eh. subst host0. exists r'. rewrite reg_get_set_same. split; [reflexivity|]. now apply (H r).
    - exists r. now rewrite reg_get_set_other.
  Qed.
End Inv.
