(* The contract of an upload backend ([ulaw]) and what follows from it for every script:
   the specification checker of Model/UploadSpec.v accepts whatever a lawful backend
   produces ([check_sound]).  Proofs/Upload.v shows that the server and client layers turn a
   lawful backend into a lawful backend; Proofs/UploadMem.v that ocimem is one. *)
From Coq Require Import String.
From OCI Require Import Model.Upload Model.UploadSpec.

Local Open Scope Z_scope.

(* what a commit of content c under digest d does to the per-registry view of digest x *)
Definition put_view (d c : bytes) (x : bytes) (v : list (option bytes)) : list (option bytes) :=
  if beqb x d then map (fun _ => Some c) v else v.

Lemma blen_app (a b : bytes) : blen (a ++ b) = blen a + blen b.
Proof. unfold blen. rewrite app_length. lia. Qed.
Lemma blen_nonneg (a : bytes) : 0 <= blen a.
Proof. unfold blen. lia. Qed.
Lemma blen_nil_iff (a : bytes) : blen a = 0 <-> a = [].
Proof. unfold blen. destruct a; cbn; split; intros; try reflexivity; try discriminate; lia. Qed.

Section Law.
  Context {S W I : Type}.
  Variable B : ubackend S W I.
  Variable hash : bytes -> bytes.
  Variable repo : bytes.
  Variable stor : S -> bytes -> list (option bytes).   (* digest -> content held, per registry underneath *)
  Variable rcv : I -> S -> bytes.                      (* bytes upload i has received *)
  Variable Inv : S -> Prop.                            (* a state in which an upload can be started *)
  Variable Good : I -> S -> Prop.                      (* upload i exists, is alive, no writer holds unsent bytes *)
  Variable Syn : I -> S -> W -> bytes -> Prop.
    (* Syn i st w pend: w is an open writer of upload i positioned at the end of what the
       registry has received, holding pend not yet sent *)
  Variable Uns : I -> S -> W -> Z -> Z -> bytes -> Prop.
    (* Uns i st w a n pend: w is an open writer of upload i that believes the upload has a
       bytes, which is wrong; n bytes have been handed to it, pend of them are held unsent *)
  Variable rs : Z.                                     (* HTTP status carried by a range refusal *)

  Definition range_refusal (e : uerr) : Prop := ue_code e = RANGE_INVALID /\ ue_status e = rs.

  Record ulaw : Prop := {
    (* only Commit changes what the registries hold (whatever the repository, writer, id) *)
    frame_start : forall st r hint x, stor (fst (ub_start B st r hint)) x = stor st x;
    frame_resume : forall st r i a hint x, stor (fst (ub_resume B st r i a hint)) x = stor st x;
    frame_write : forall st w data x, stor (fst (fst (ub_write B st w data))) x = stor st x;
    frame_close : forall st w x, stor (fst (fst (ub_close B st w))) x = stor st x;

    law_start : forall st hint, Inv st ->
      exists st' w i, ub_start B st repo hint = (st', Ok w) /\ Syn i st' w [] /\ rcv i st' = [];

    law_resume_at : forall i st a hint, Good i st -> 0 <= a <= MAX64 ->
      exists st' w, ub_resume B st repo i a hint = (st', Ok w) /\ rcv i st' = rcv i st /\
        (a = blen (rcv i st) -> Syn i st' w []) /\
        (a <> blen (rcv i st) -> Uns i st' w a 0 []);

    law_resume_info : forall i st hint, Good i st -> blen (rcv i st) <> 1 -> blen (rcv i st) <= MAX64 ->
      exists st' w, ub_resume B st repo i (-1) hint = (st', Ok w) /\ rcv i st' = rcv i st /\ Syn i st' w [];

    syn_size : forall i st w pend, Syn i st w pend -> ub_size B st w = blen (rcv i st) + blen pend;
    syn_id : forall i st w pend, Syn i st w pend -> ub_id B st w = i;

    law_write_syn : forall i st w pend data, Syn i st w pend ->
      blen (rcv i st) + blen pend + blen data <= MAX64 ->
      exists st' w' pend', ub_write B st w data = (st', w', None) /\ Syn i st' w' pend' /\
        rcv i st' ++ pend' = rcv i st ++ pend ++ data;

    law_close_syn : forall i st w pend, Syn i st w pend -> blen (rcv i st) + blen pend <= MAX64 ->
      exists st' w', ub_close B st w = (st', w', None) /\ Good i st' /\ rcv i st' = rcv i st ++ pend /\
        ub_id B st' w' = i /\ ub_size B st' w' = blen (rcv i st');

    law_commit_syn : forall i st w pend d, Syn i st w pend -> blen (rcv i st) + blen pend <= MAX64 ->
      let c := rcv i st ++ pend in
      (hash c = d -> d <> [] ->
         exists st' w' de, ub_commit B st w d = (st', w', Ok de) /\ d_size de = blen c /\
                           forall x, stor st' x = put_view d c x (stor st x)) /\
      (hash c <> d ->
         exists st' w' e, ub_commit B st w d = (st', w', Err e) /\ forall x, stor st' x = stor st x);

    uns_good : forall i st w a n pend, Uns i st w a n pend ->
      Good i st /\ ub_id B st w = i /\ blen pend <= n /\ 0 <= a /\ a <> blen (rcv i st);

    law_write_uns : forall i st w a n pend data, Uns i st w a n pend -> a + n + blen data <= MAX64 ->
      exists st' w' r, ub_write B st w data = (st', w', r) /\ rcv i st' = rcv i st /\
        match r with
        | None => Uns i st' w' a (n + blen data) (pend ++ data)
        | Some e => range_refusal e /\ Uns i st' w' a (n + blen data) pend
        end;

    law_close_uns : forall i st w a n pend, Uns i st w a n pend -> a + n <= MAX64 ->
      exists st' w' r, ub_close B st w = (st', w', r) /\ rcv i st' = rcv i st /\ Good i st' /\
        ub_id B st' w' = i /\
        match pend with
        | [] => r = None
        | _ => exists e, r = Some e /\ range_refusal e
        end;

    law_commit_uns : forall i st w a n pend d, Uns i st w a n pend -> a + n <= MAX64 -> pend <> [] -> d <> [] ->
      exists st' w' e, ub_commit B st w d = (st', w', Err e) /\ range_refusal e /\
        rcv i st' = rcv i st /\ Uns i st' w' a n pend /\ forall x, stor st' x = stor st x
  }.

  (* ------------------------------------------------------------------ soundness of the checker *)

  Hypothesis L : ulaw.
  Variable http : bool.
  Hypothesis Hrs : if http then rs = 416 else rs = 0 \/ rs = 416.

  Lemma weight_nonneg ops : 0 <= weight ops.
  Proof.
    induction ops as [|o ops IH]; cbn [weight]; [lia|].
    destruct o as [h|m h|d| |d]; try lia.
    - destruct m; lia.
    - pose proof (blen_nonneg d). lia.
  Qed.

  Lemma weight_cons o ops : weight (o :: ops) = weight [o] + weight ops.
  Proof. destruct o as [h|m h|d| |d]; cbn [weight]; try lia. destruct m; lia. Qed.

  Variable st0 : S.

  (* the relation between the checker's state and the state of the stack *)
  Definition store_rel (cs : cstate) (st : S) : Prop :=
    match cs with
    | CStop => True
    | CDone (Some (d, g)) => forall x, stor st x = put_view d g x (stor st0 x)
    | _ => forall x, stor st x = stor st0 x
    end.

  Definition rel (budget : Z) (cs : cstate) (st : S) (cur : option W) : Prop :=
    store_rel cs st /\
    match cs with
    | CInit => Inv st /\ cur = None /\ budget <= MAX64
    | COpen g =>
        exists w i pend, cur = Some w /\ Syn i st w pend /\ rcv i st ++ pend = g /\ blen g + budget <= MAX64
    | CClosed g =>
        exists w i, cur = Some w /\ Good i st /\ rcv i st = g /\ ub_id B st w = i /\
                    ub_size B st w = blen g /\ blen g + budget <= MAX64
    | CEp g seen sent =>
        exists w i a n pend, cur = Some w /\ Uns i st w a n pend /\ rcv i st = g /\ n = blen sent /\
          (sent <> [] -> seen = false -> pend <> []) /\ a + n + budget <= MAX64 /\ blen g + budget <= MAX64
    | CEpClosed g =>
        exists w i, cur = Some w /\ Good i st /\ rcv i st = g /\ ub_id B st w = i /\ blen g + budget <= MAX64
    | CDone _ => True
    | CStop => True
    end.

  Lemma is_range_refusal_of e : range_refusal e -> is_range_refusal http (ures_of_err e) = true.
  Proof.
    intros [Hc Hs]. unfold ures_of_err, is_range_refusal. rewrite Hc, Hs.
    destruct http.
    - rewrite Hrs. reflexivity.
    - destruct Hrs as [-> | ->]; reflexivity.
  Qed.

  Lemma store_rel_frame cs st st' :
    (forall x, stor st' x = stor st x) -> store_rel cs st -> store_rel cs st'.
  Proof.
    intros H. destruct cs as [| | | | | [[d g]|] |]; cbn; auto; intros H0 x; rewrite H; apply H0.
  Qed.

  (* store_rel only distinguishes CStop, CDone and the rest *)
  Definition plain (cs : cstate) : Prop :=
    match cs with CStop | CDone _ => False | _ => True end.
  Lemma store_rel_plain cs cs' st : plain cs -> plain cs' -> store_rel cs st -> store_rel cs' st.
  Proof. destruct cs as [| | | | | [[]|] |], cs' as [| | | | | [[]|] |]; cbn; tauto. Qed.

  Lemma rel_stop budget st cur : rel budget CStop st cur.
  Proof. split; exact Logic.I. Qed.

  (* a resume at an explicit offset from a state where the upload is quiescent *)
  Lemma resume_at_sound cs g st w i off hint budget st1 cur1 r :
    plain cs -> store_rel cs st -> Good i st -> rcv i st = g -> 0 <= off ->
    off + budget <= MAX64 -> blen g + budget <= MAX64 -> 0 <= budget ->
    new_writer (Some w) (ub_resume B st repo i off hint) = (st1, cur1, r) ->
    r = UOk 0 /\
    (off = blen g -> rel budget (COpen g) st1 cur1 /\ uo_size (observe B st1 cur1 r) = blen g) /\
    (off <> blen g -> rel budget (CEp g false []) st1 cur1).
  Proof.
    intros Hp Hst Hgood Hr Hoff Hb1 Hb2 Hb E.
    destruct (law_resume_at L i st off hint Hgood ltac:(lia)) as (st' & w' & E' & Hr' & Hs & Hu).
    unfold new_writer in E. rewrite E' in E. injection E as <- <- <-.
    assert (Hfr : forall x, stor st' x = stor st x).
    { intros x. pose proof (frame_resume L st repo i off hint x) as F. now rewrite E' in F. }
    split; [reflexivity|]. rewrite Hr in *. split.
    - intros ->. specialize (Hs eq_refl). split.
      + split.
        * eapply store_rel_frame; [exact Hfr|]. eapply store_rel_plain; [exact Hp|exact Logic.I|exact Hst].
        * exists w', i, []. rewrite app_nil_r. repeat split; auto.
      + cbn [observe uo_size]. rewrite (syn_size L _ _ _ _ Hs), Hr'. cbn. lia.
    - intros Hne. specialize (Hu Hne). split.
      + eapply store_rel_frame; [exact Hfr|]. eapply store_rel_plain; [exact Hp|exact Logic.I|exact Hst].
      + exists w', i, off, 0, []. repeat split; auto. cbn. lia.
  Qed.

  Lemma resume_info_sound cs g st w i hint budget st1 cur1 r :
    plain cs -> store_rel cs st -> Good i st -> rcv i st = g -> blen g <> 1 ->
    blen g + budget <= MAX64 -> 0 <= budget ->
    new_writer (Some w) (ub_resume B st repo i (-1) hint) = (st1, cur1, r) ->
    r = UOk 0 /\ rel budget (COpen g) st1 cur1 /\ uo_size (observe B st1 cur1 r) = blen g.
  Proof.
    intros Hp Hst Hgood Hr Hne Hb2 Hb E. rewrite <- Hr in Hne, Hb2.
    destruct (law_resume_info L i st hint Hgood Hne ltac:(lia)) as (st' & w' & E' & Hr' & Hs).
    unfold new_writer in E. rewrite E' in E. injection E as <- <- <-.
    assert (Hfr : forall x, stor st' x = stor st x).
    { intros x. pose proof (frame_resume L st repo i (-1) hint x) as F. now rewrite E' in F. }
    split; [reflexivity|]. split; [split|].
    - eapply store_rel_frame; [exact Hfr|]. eapply store_rel_plain; [exact Hp|exact Logic.I|exact Hst].
    - exists w', i, []. rewrite app_nil_r. repeat split; auto; congruence.
    - cbn [observe uo_size]. rewrite (syn_size L _ _ _ _ Hs), Hr', Hr. cbn. lia.
  Qed.

  (* the resume transitions of the checker, from CClosed and from CEpClosed alike *)
  Lemma resume_sound cs g st w i m hint budget st1 cur1 r cs1 ok :
    (cs = CClosed g /\ ub_size B st w = blen g) \/ (cs = CEpClosed g /\ m <> MSize) ->
    store_rel cs st -> Good i st -> rcv i st = g -> ub_id B st w = i ->
    blen g + (weight [UResume m hint] + budget) <= MAX64 -> 0 <= budget ->
    script_step B repo st (Some w) (UResume m hint) = (st1, cur1, r) ->
    check_step hash http cs (UResume m hint) (observe B st1 cur1 r) = (cs1, ok) ->
    ok = true /\ rel budget cs1 st1 cur1.
  Proof.
    intros Hcs Hst Hgood Hr Hid Hbud Hb E C.
    assert (Hp : plain cs) by (destruct Hcs as [[-> _]|[-> _]]; exact Logic.I).
    cbn [script_step] in E. rewrite Hid in E.
    pose proof (blen_nonneg g) as Hg0.
    destruct m as [| |off].
    - (* MSize *)
      destruct Hcs as [[-> Hsz]|[_ Hm]]; [|congruence]. rewrite Hsz in E.
      cbn [weight] in Hbud.
      destruct (resume_at_sound _ g _ _ _ _ _ budget _ _ _ Hp Hst Hgood Hr Hg0 ltac:(lia) ltac:(lia) Hb E)
        as (-> & Hok & _).
      destruct (Hok eq_refl) as [Hrel Hsz'].
      cbn [check_step] in C. rewrite Hsz' in C. cbn [uo_res observe] in C.
      assert (uo_res (observe B st1 cur1 (UOk 0)) = UOk 0) as Hres by (destruct cur1; reflexivity).
      rewrite Hres in C. cbn [is_uok] in C. rewrite !Z.eqb_refl in C. injection C as <- <-. auto.
    - (* MInfo *)
      cbn [weight] in Hbud.
      assert (C' : (if blen g =? 1 then (CStop, true)
                    else (COpen g, is_uok 0 (uo_res (observe B st1 cur1 r)) && (uo_size (observe B st1 cur1 r) =? blen g)))
                   = (cs1, ok)).
      { destruct Hcs as [[-> _]|[-> _]]; exact C. }
      clear C. destruct (Z.eqb_spec (blen g) 1) as [H1|H1].
      + injection C' as <- <-. split; [reflexivity | apply rel_stop].
      + destruct (resume_info_sound _ g _ _ _ _ budget _ _ _ Hp Hst Hgood Hr H1 ltac:(lia) Hb E)
          as (-> & Hrel & Hsz').
        rewrite Hsz' in C'.
        assert (uo_res (observe B st1 cur1 (UOk 0)) = UOk 0) as Hres by (destruct cur1; reflexivity).
        rewrite Hres in C'. cbn [is_uok] in C'. rewrite !Z.eqb_refl in C'. injection C' as <- <-. auto.
    - (* MAt off *)
      cbn [weight] in Hbud.
      assert (C' : (if off =? blen g
                    then (COpen g, is_uok 0 (uo_res (observe B st1 cur1 r)) && (uo_size (observe B st1 cur1 r) =? blen g))
                    else if 0 <=? off then (CEp g false [], is_uok 0 (uo_res (observe B st1 cur1 r)))
                    else (CStop, true))
                   = (cs1, ok)).
      { destruct Hcs as [[-> _]|[-> _]]; exact C. }
      clear C.
      destruct (Z.leb_spec 0 off) as [H0|H0].
      + destruct (resume_at_sound _ g _ _ _ off hint budget _ _ _ Hp Hst Hgood Hr H0 ltac:(lia) ltac:(lia) Hb E)
          as (-> & Hok & Hbad).
        assert (uo_res (observe B st1 cur1 (UOk 0)) = UOk 0) as Hres by (destruct cur1; reflexivity).
        rewrite Hres in C'. cbn [is_uok] in C'.
        destruct (Z.eqb_spec off (blen g)) as [He|He].
        * destruct (Hok He) as [Hrel Hsz']. rewrite Hsz' in C'. rewrite !Z.eqb_refl in C'.
          injection C' as <- <-. auto.
        * injection C' as <- <-. split; [reflexivity|]. apply Hbad, He.
      + destruct (Z.eqb_spec off (blen g)) as [He|He]; [lia|].
        injection C' as <- <-. split; [reflexivity | apply rel_stop].
  Qed.

  (* one step: the checker accepts the observation and the relation is re-established *)
  Lemma step_sound cs st cur o budget st1 cur1 r cs1 ok :
    rel (weight [o] + budget) cs st cur -> 0 <= budget ->
    script_step B repo st cur o = (st1, cur1, r) ->
    check_step hash http cs o (observe B st1 cur1 r) = (cs1, ok) ->
    ok = true /\ rel budget cs1 st1 cur1.
  Proof.
    intros [Hst Hrel] Hb E C.
    assert (Hstop : (CStop, true) = (cs1, ok) -> ok = true /\ rel budget cs1 st1 cur1).
    { intros H. injection H as <- <-. split; [reflexivity | apply rel_stop]. }
    (* the empty digest first: the checker stops whatever the state *)
    destruct o as [hint|m hint|d| |[|d0 d]].
    5:{ apply Hstop. destruct cs; exact C. }
    all: destruct cs as [|g|g|g seen sent|g|cm|]; cbn [check_step] in C; try (apply Hstop; exact C).
    - (* CInit, UStart *)
      destruct Hrel as (Hinv & -> & Hbud). cbn [script_step weight] in E, Hbud.
      destruct (law_start L st hint Hinv) as (st' & w & i & E' & Hsyn & Hr).
      unfold new_writer in E. rewrite E' in E. injection E as <- <- <-.
      cbn [observe uo_res uo_size] in C. rewrite (syn_size L _ _ _ _ Hsyn), Hr in C. cbn in C.
      injection C as <- <-. split; [reflexivity|]. split.
      + eapply store_rel_frame; [|exact Hst]. intros x.
        pose proof (frame_start L st repo hint x) as F. now rewrite E' in F.
      + exists w, i, []. rewrite app_nil_r. repeat split; auto; try (cbn [blen List.length Z.of_nat]; lia).
    - (* CClosed, UResume *)
      destruct Hrel as (w & i & -> & Hgood & Hr & Hid & Hsz & Hbud).
      eapply (resume_sound (CClosed g) g); eauto.
    - (* CEpClosed, UResume *)
      destruct Hrel as (w & i & -> & Hgood & Hr & Hid & Hbud).
      destruct m as [| |off].
      + apply Hstop. exact C.
      + eapply (resume_sound (CEpClosed g) g); eauto. right. split; [reflexivity|discriminate].
      + eapply (resume_sound (CEpClosed g) g); eauto. right. split; [reflexivity|discriminate].
    - (* COpen, UWrite *)
      destruct Hrel as (w & i & pend & -> & Hsyn & Hg & Hbud). cbn [weight] in Hbud.
      cbn [script_step] in E.
      assert (Hfit : blen (rcv i st) + blen pend + blen d <= MAX64).
      { rewrite <- Hg, blen_app in Hbud. lia. }
      destruct (law_write_syn L _ _ _ _ d Hsyn Hfit) as (st' & w' & pend' & E' & Hsyn' & Hc).
      rewrite E' in E. injection E as <- <- <-.
      cbn [observe uo_res uo_size] in C.
      rewrite (syn_size L _ _ _ _ Hsyn'), <- blen_app, Hc, app_assoc, Hg in C.
      cbn [is_uok] in C. rewrite !Z.eqb_refl in C. injection C as <- <-.
      split; [reflexivity|]. split.
      + eapply store_rel_frame; [|exact Hst]. intros x.
        pose proof (frame_write L st w d x) as F. now rewrite E' in F.
      + exists w', i, pend'. repeat split; auto.
        * rewrite Hc, app_assoc, Hg. reflexivity.
        * rewrite blen_app. lia.
    - (* CEp, UWrite *)
      destruct Hrel as (w & i & a & n & pend & -> & Huns & Hr & Hn & Hpend & Hbud & Hbud2).
      cbn [weight] in Hbud, Hbud2. cbn [script_step] in E.
      pose proof (blen_nonneg d) as Hd0.
      destruct (law_write_uns L _ _ _ _ _ _ d Huns ltac:(lia)) as (st' & w' & r' & E' & Hr' & Hcase).
      rewrite E' in E.
      assert (Hfr : forall x, stor st' x = stor st x).
      { intros x. pose proof (frame_write L st w d x) as F. now rewrite E' in F. }
      destruct r' as [e|].
      + destruct Hcase as [Hrefuse Huns']. injection E as <- <- <-.
        cbn [observe uo_res ures_of_err is_uerr] in C.
        rewrite (is_range_refusal_of e Hrefuse), !orb_true_r in C. injection C as <- <-. split; [reflexivity|]. split.
        * eapply store_rel_frame; [exact Hfr|exact Hst].
        * exists w', i, a, (n + blen d), pend. repeat split; auto.
          -- congruence.
          -- rewrite blen_app. lia.
          -- discriminate.
          -- lia.
          -- lia.
      + injection E as <- <- <-.
        cbn [observe uo_res is_uok] in C. rewrite Z.eqb_refl in C. cbn [orb] in C.
        injection C as <- <-. split; [reflexivity|]. split.
        * eapply store_rel_frame; [exact Hfr|exact Hst].
        * exists w', i, a, (n + blen d), (pend ++ d). repeat split; auto.
          -- congruence.
          -- rewrite blen_app. lia.
          -- cbn [is_uerr]. rewrite orb_false_r. intros Hs Hseen.
             destruct sent as [|c sent'].
             ++ destruct d; [exfalso; now apply Hs|]. destruct pend; discriminate.
             ++ specialize (Hpend ltac:(discriminate) Hseen). destruct pend; [congruence|discriminate].
          -- lia.
          -- lia.
    - (* COpen, UClose *)
      destruct Hrel as (w & i & pend & -> & Hsyn & Hg & Hbud). cbn [weight] in Hbud.
      cbn [script_step] in E.
      assert (Hfit : blen (rcv i st) + blen pend <= MAX64).
      { rewrite <- Hg, blen_app in Hbud. lia. }
      destruct (law_close_syn L _ _ _ _ Hsyn Hfit) as (st' & w' & E' & Hgood & Hr & Hid & Hsz).
      rewrite E' in E. injection E as <- <- <-.
      cbn [observe uo_res uo_size] in C. rewrite Hsz, Hr, Hg in C.
      cbn [is_uok] in C. rewrite !Z.eqb_refl in C. injection C as <- <-.
      split; [reflexivity|]. split.
      + eapply store_rel_frame; [|exact Hst]. intros x.
        pose proof (frame_close L st w x) as F. now rewrite E' in F.
      + exists w', i. repeat split; auto; try congruence; try lia.
    - (* CEp, UClose *)
      destruct Hrel as (w & i & a & n & pend & -> & Huns & Hr & Hn & Hpend & Hbud & Hbud2).
      cbn [weight] in Hbud, Hbud2. cbn [script_step] in E.
      destruct (law_close_uns L _ _ _ _ _ _ Huns ltac:(lia)) as (st' & w' & r' & E' & Hr' & Hgood & Hid & Hcase).
      rewrite E' in E.
      assert (Hfr : forall x, stor st' x = stor st x).
      { intros x. pose proof (frame_close L st w x) as F. now rewrite E' in F. }
      assert (Hfin : rel budget (CEpClosed g) st' (Some w')).
      { split; [eapply store_rel_frame; [exact Hfr|exact Hst]|].
        exists w', i. repeat split; auto; try congruence; try lia. }
      destruct pend as [|p0 pend].
      + subst r'. injection E as <- <- <-.
        cbn [observe uo_res is_uok is_uerr] in C. rewrite Z.eqb_refl in C. cbn [orb andb] in C.
        assert (Hs : match sent with [] => true | _ => seen || false end = true).
        { destruct sent as [|c sent']; [reflexivity|]. rewrite orb_false_r.
          destruct seen; [reflexivity|]. exfalso. now apply (Hpend ltac:(discriminate) eq_refl). }
        rewrite Hs in C. injection C as <- <-. auto.
      + destruct Hcase as (e & -> & Hrefuse). injection E as <- <- <-.
        cbn [observe uo_res] in C. rewrite (is_range_refusal_of e Hrefuse) in C.
        rewrite orb_true_r in C. cbn [ures_of_err is_uerr andb] in C.
        assert (Hs : match sent with [] => true | _ => seen || true end = true).
        { destruct sent; [reflexivity | apply orb_true_r]. }
        rewrite Hs in C. injection C as <- <-. auto.
    - (* COpen, UCommit (d0 :: d) *)
      destruct Hrel as (w & i & pend & -> & Hsyn & Hg & Hbud). cbn [weight] in Hbud.
      cbn [script_step] in E.
      assert (Hfit : blen (rcv i st) + blen pend <= MAX64).
      { rewrite <- Hg, blen_app in Hbud. lia. }
      destruct (law_commit_syn L _ _ _ _ (d0 :: d) Hsyn Hfit) as [Hok Hbad]. rewrite Hg in Hok, Hbad.
      destruct (beqb (d0 :: d) (hash g)) eqn:Ed.
      + apply beqb_eq in Ed.
        destruct (Hok (eq_sym Ed) ltac:(discriminate)) as (st' & w' & de & E' & Hsz & Hstor).
        rewrite E' in E. injection E as <- <- <-.
        cbn [observe uo_res is_uok] in C. rewrite Hsz, Z.eqb_refl in C. injection C as <- <-.
        split; [reflexivity|]. split; [|exact Logic.I].
        cbn. intros x. rewrite Hstor. unfold put_view. destruct (beqb x (d0 :: d)); [|apply Hst].
        f_equal. apply Hst.
      + apply beqb_neq in Ed.
        destruct (Hbad ltac:(congruence)) as (st' & w' & e & E' & Hstor).
        rewrite E' in E. injection E as <- <- <-.
        cbn [observe uo_res ures_of_err is_uerr] in C. injection C as <- <-.
        split; [reflexivity|]. split; [|exact Logic.I]. cbn. intros x. rewrite Hstor. apply Hst.
    - (* CEp, UCommit (d0 :: d) *)
      destruct Hrel as (w & i & a & n & pend & -> & Huns & Hr & Hn & Hpend & Hbud & Hbud2).
      cbn [weight] in Hbud, Hbud2. cbn [script_step] in E.
      destruct sent as [|c sent']; [apply Hstop; exact C|].
      destruct seen; [apply Hstop; exact C|].
      specialize (Hpend ltac:(discriminate) eq_refl).
      destruct (law_commit_uns L _ _ _ _ _ _ (d0 :: d) Huns ltac:(lia) Hpend ltac:(discriminate))
        as (st' & w' & e & E' & Hrefuse & Hr' & Huns' & Hstor).
      rewrite E' in E. injection E as <- <- <-.
      cbn [observe uo_res] in C. rewrite (is_range_refusal_of e Hrefuse) in C. injection C as <- <-.
      split; [reflexivity|]. split.
      + eapply store_rel_frame; [exact Hstor|exact Hst].
      + destruct (uns_good L _ _ _ _ _ _ Huns') as (Hgood & Hid & _).
        exists w', i. repeat split; auto; try congruence; try lia.
  Qed.

  (* every script: the checker accepts the whole run *)
  Lemma run_sound ops : forall cs st cur,
    rel (weight ops) cs st cur ->
    forall st' cur' obs, run_script B repo st cur ops = (st', cur', obs) ->
    exists cs', check_ops hash http cs ops obs = (cs', true) /\ store_rel cs' st'.
  Proof.
    induction ops as [|o ops IH]; intros cs st cur Hrel st' cur' obs E.
    - cbn in E. injection E as <- <- <-. exists cs. split; [reflexivity | apply Hrel].
    - cbn [run_script] in E.
      destruct (script_step B repo st cur o) as [[st1 cur1] r] eqn:E1.
      destruct (run_script B repo st1 cur1 ops) as [[st2 cur2] obs2] eqn:E2.
      injection E as <- <- <-.
      cbn [check_ops].
      destruct (check_step hash http cs o (observe B st1 cur1 r)) as [cs1 ok] eqn:C.
      rewrite weight_cons in Hrel.
      destruct (step_sound _ _ _ _ _ _ _ _ _ _ Hrel (weight_nonneg ops) E1 C) as [-> Hrel1].
      exact (IH _ _ _ Hrel1 _ _ _ E2).
  Qed.

  Hypothesis Hinv0 : Inv st0.
  Hypothesis Hempty : forall x, Forall (fun v => v = None) (stor st0 x).

  (* The specification checker accepts every script run on a lawful backend from a state that
     holds no blob: all partitions into writes, all chunk-size hints, all close-and-resume
     patterns, resumes at wrong offsets, right and wrong commit digests. *)
  Theorem check_sound ops st' cur' obs digests :
    weight ops <= MAX64 ->
    run_script B repo st0 None ops = (st', cur', obs) ->
    check hash http ops obs (map (fun d => (d, stor st' d)) digests) = true.
  Proof.
    intros Hw E.
    assert (Hrel : rel (weight ops) CInit st0 None).
    { split; [intros x; reflexivity | split; [exact Hinv0 | split; [reflexivity | exact Hw]]]. }
    destruct (run_sound ops _ _ _ Hrel _ _ _ E) as (cs' & Hc & Hs).
    unfold check. rewrite Hc. cbn [andb]. unfold check_stored.
    apply forallb_forall. intros [d v] Hin. apply in_map_iff in Hin as (d' & Heq & _).
    injection Heq as <- <-. cbn [fst snd].
    assert (Hnone : forall x, forallb (obytes_eq None) (stor st0 x) = true).
    { intros x. apply forallb_forall. intros v Hv.
      pose proof (Hempty x) as F. rewrite Forall_forall in F. now rewrite (F v Hv). }
    destruct cs' as [| | | | | [[dg g]|] |]; cbn [expected_content]; try reflexivity;
      try (cbn in Hs; rewrite Hs; apply Hnone).
    cbn in Hs. rewrite Hs. unfold put_view. destruct (beqb d' dg); [|apply Hnone].
    apply forallb_forall. intros v Hv. apply in_map_iff in Hv as (u & <- & _).
    cbn. apply beqb_refl.
  Qed.
End Law.

Arguments frame_start {S W I B hash repo stor rcv Inv Good Syn Uns rs} u.
Arguments frame_resume {S W I B hash repo stor rcv Inv Good Syn Uns rs} u.
Arguments frame_write {S W I B hash repo stor rcv Inv Good Syn Uns rs} u.
Arguments frame_close {S W I B hash repo stor rcv Inv Good Syn Uns rs} u.
Arguments law_start {S W I B hash repo stor rcv Inv Good Syn Uns rs} u.
Arguments law_resume_at {S W I B hash repo stor rcv Inv Good Syn Uns rs} u.
Arguments law_resume_info {S W I B hash repo stor rcv Inv Good Syn Uns rs} u.
Arguments syn_size {S W I B hash repo stor rcv Inv Good Syn Uns rs} u.
Arguments syn_id {S W I B hash repo stor rcv Inv Good Syn Uns rs} u.
Arguments law_write_syn {S W I B hash repo stor rcv Inv Good Syn Uns rs} u.
Arguments law_close_syn {S W I B hash repo stor rcv Inv Good Syn Uns rs} u.
Arguments law_commit_syn {S W I B hash repo stor rcv Inv Good Syn Uns rs} u.
Arguments uns_good {S W I B hash repo stor rcv Inv Good Syn Uns rs} u.
Arguments law_write_uns {S W I B hash repo stor rcv Inv Good Syn Uns rs} u.
Arguments law_close_uns {S W I B hash repo stor rcv Inv Good Syn Uns rs} u.
Arguments law_commit_uns {S W I B hash repo stor rcv Inv Good Syn Uns rs} u.
