(* BRIDGE C04: Model/Upload.v (the per-property model of chunked and resumable uploads: client blobWriter,
   the four upload handlers of ociserver, ocimem through Model/UploadMem.v) AGREES WITH the line-by-line
   composition Model/Client.v o Model/Stack.v (wire) o Model/Server.v o backend on everything the
   per-property model covers.

   0. codecs     strconv.ParseInt, "%d", ocirequest.RangeString / ParseRange and ociserver.chunkRange are
                 transcribed three times (Model/RangeCodec.v, Model/Http.v, Model/Request.v + Model/Server.v):
                 the transcriptions are equal on ALL inputs ([rc_parse_int] [rc_fmt_int] [rc_range_string]
                 [rc_parse_range] [rc_chunk_range]).
   1. errors     [U] projects a Go error tree onto the (code, status) pair Model/Upload.v keeps; the error
                 the composed client makes of a served error is the one Model/Upload.v's client makes of
                 Model/Upload.v's error response ([U_wire_error]).
   2. server     for every backend [bstep] and every upload-backend view [UB] of it ([Agrees]): each of
                 handleBlobStartUpload / UploadInfo / UploadChunk / CompleteUpload of Model/Server.v, on
                 every request that routes to it (any Content-Range, Content-Length, body), ends in the state
                 Model/Upload.v's handler ends in and answers the response Model/Upload.v's handler answers
                 ([srv_start] [srv_info] [srv_patch] [srv_put]; [RespRel]: status, Location, Range,
                 OCI-Chunk-Min-Length on success; status and code on every error path).
   3. client     [flush_bridge] (blobWriter.flush: nothing to send / PATCH / closing PUT, success and every
                 failure), [flush_same_wire] (the same request on the wire), [write_bridge] [close_bridge]
                 [commit_bridge] [start_bridge] [resume_bridge] (explicit offset, -1, invalid offset): the
                 methods of Model/Client.v over [serve_stack] do what Model/Upload.v's client does over
                 Model/Upload.v's server: same result, same writer fields, same backend state - for every
                 chunk size, hint, buffer, backend answer.
   3b. recorder  the same with the backend calls recorded in the state ([agrees_rec]).
   4. ocimem     Model/Mem.v behind Model/Server.v ([mem_bstep]) and Model/UploadMem.v's [mem_backend] are
                 such a pair ([mem_agrees] [mem_sized]).
   5. scripts    [script_sim]: whole scripts (Model/Upload.v [run_script] against the same script on the
                 composed model, [crun]); 6. [stack_script_agrees] from the empty ocimem, and C04's theorems
                 restated on the composed model: [stack_meets_spec] (C04_spec_one_hop), [stack_plan_commit]
                 (C04_plan_commit: Commit stores the concatenation), [stack_wrong_offset_refused]
                 (C04_wrong_offset_refused: RANGE_INVALID / 416, upload unchanged), [stack_same_backend_calls].
   7. the hypotheses hold of the runner's concrete oracles ([concrete_script_agrees], [concrete_run]);
      where the two models differ: [script_agrees_without_fit_refuted], [script_agrees_bad_digest_refuted].

   Hypotheses, all explicit: the JSON round trip of the error document and mime of application/json (as in
   Proofs/Stack*.v; discharged for the runner in Proofs/StackJson.v); no LocationsForDescriptor; repository
   names valid for the router; upload IDs non-empty valid UTF-8 (what can be put in a URL); Commit digests
   well formed; backend errors servable (4xx / 5xx, Error() does not panic) with a JSON body within the
   client's 8 KiB limit; the backend answers every call (no panic) and writes all of a body; offsets within
   int64 ([wbound], for scripts: UploadSpec.weight <= 2^63 - 1, the condition C04's theorems have).
   Not covered: a writer used again after a successful Commit (its location is then a blob URL). *)
From Coq Require Import String.
From OCI Require Import Model.Stack Proofs.Request Proofs.StackBase Proofs.StackDesc.
From OCI Require Import Model.RequestCodecSpec Proofs.RequestCodec Proofs.StackQuery Proofs.StackUpload Proofs.StackTransparent Proofs.StackUploadEmpty.
From OCI Require Proofs.Errors Proofs.Server.
From OCI Require Model.RangeCodec Model.Upload Model.UploadSpec Model.UploadMem Model.Mem Proofs.RangeCodec Proofs.MemBasics Proofs.MemInv.
From OCI Require Proofs.UploadLaw Proofs.Upload Proofs.UploadMem Proofs.UploadPlans.
From OCI Require Obs.StackRun Proofs.StackJson.
Local Open Scope Z_scope.

(* ================================================================ 0. the codecs agree *)

Lemma rc_digits_val a : forall acc, RangeCodec.digits_val acc a = Http.digits_val a acc.
Proof.
  induction a as [|c a IH]; intros acc; [reflexivity|]. cbn [RangeCodec.digits_val Http.digits_val].
  change (RangeCodec.is_digit c) with (Http.is_digit c). destruct (Http.is_digit c); [|reflexivity].
  rewrite IH. f_equal. lia.
Qed.

Lemma rc_parse_int64 a : RangeCodec.parse_int a = parse_int64 a.
Proof.
  assert (G : forall (neg : bool) ds,
    match RangeCodec.parse_digits ds with
    | None => None
    | Some n => let z := if neg then - Z.of_N n else Z.of_N n in
                if RangeCodec.in_int64 z then Some z else None
    end =
    match parse_digits ds with
    | None => None
    | Some n => let z := Z.of_N n in
                if neg then (if z <=? two63 then Some (- z) else None)
                else (if z <? two63 then Some z else None)
    end).
  { intros neg ds. unfold RangeCodec.parse_digits, parse_digits. destruct ds as [|c ds]; [reflexivity|].
    rewrite rc_digits_val. destruct (Http.digits_val (c :: ds) 0) as [n|]; [|reflexivity].
    cbv zeta. unfold RangeCodec.in_int64, RangeCodec.MIN64, RangeCodec.MAX64, two63.
    destruct neg.
    - destruct (Z.leb_spec (Z.of_N n) 9223372036854775808);
      destruct (Z.leb_spec (-9223372036854775808) (- Z.of_N n));
      destruct (Z.leb_spec (- Z.of_N n) 9223372036854775807); cbn; try reflexivity; lia.
    - destruct (Z.ltb_spec (Z.of_N n) 9223372036854775808);
      destruct (Z.leb_spec (-9223372036854775808) (Z.of_N n));
      destruct (Z.leb_spec (Z.of_N n) 9223372036854775807); cbn; try reflexivity; lia. }
  unfold RangeCodec.parse_int, parse_int64. destruct a as [|c r]; [reflexivity|].
  destruct (c =? 43)%N; [apply (G false)|]. destruct (c =? 45)%N; [apply (G true) | apply (G false)].
Qed.

(* strconv.ParseInt: Model/RangeCodec.v, Model/Http.v and Model/Request.v read the same language *)
Theorem rc_parse_int a : RangeCodec.parse_int a = parse_int a.
Proof. rewrite rc_parse_int64. apply parse_int64_parse_int. Qed.

Lemma pos_size_nat p : Pos.size_nat p = Pos.to_nat (Pos.size p).
Proof. induction p as [p IH|p IH|]; cbn [Pos.size_nat Pos.size]; rewrite ?Pos2Nat.inj_succ, ?IH; reflexivity. Qed.

Lemma n_size_nat n : N.size_nat n = N.to_nat (N.size n).
Proof. destruct n as [|p]; [reflexivity|]. cbn. apply pos_size_nat. Qed.

Lemma dec_fuel_dec_rev f : forall n acc, (n < 2 ^ N.of_nat f)%N ->
  dec_fuel f n acc = rev (RangeCodec.dec_rev f n) ++ acc.
Proof.
  induction f as [|f IH]; intros n acc Hn; [reflexivity|].
  cbn [dec_fuel RangeCodec.dec_rev]. cbv zeta.
  destruct (N.ltb_spec n 10) as [Hlt|Hge].
  - rewrite (N.div_small n 10 Hlt). cbn. reflexivity.
  - assert (Hq : (n / 10 <> 0)%N).
    { intros E. apply N.div_small_iff in E; lia. }
    destruct (N.eqb_spec (n / 10) 0); [contradiction|].
    rewrite IH.
    + cbn [rev]. rewrite <- app_assoc. reflexivity.
    + rewrite Nnat.Nat2N.inj_succ, N.pow_succ_r' in Hn.
      apply N.div_lt_upper_bound; [lia|]. revert Hn. generalize (2 ^ N.of_nat f)%N. intros; lia.
Qed.

Lemma rc_fmt_N n : RangeCodec.fmt_N n = dec_N n.
Proof.
  unfold RangeCodec.fmt_N, dec_N. rewrite n_size_nat.
  rewrite (dec_fuel_dec_rev _ n [] (Proofs.RangeCodec.size_bound n)). now rewrite app_nil_r.
Qed.

(* "%d": the same digits *)
Theorem rc_fmt_int z : RangeCodec.fmt_int z = dec_Z z.
Proof. destruct z; cbn [RangeCodec.fmt_int dec_Z]; rewrite ?rc_fmt_N; reflexivity. Qed.

Lemma rc_wrap64 z : RangeCodec.wrap64 z = wrap64 z.
Proof. reflexivity. Qed.

(* ocirequest.RangeString / ParseRange *)
Theorem rc_range_string a b : RangeCodec.range_string a b = range_string a b.
Proof. unfold RangeCodec.range_string, range_string. rewrite !rc_fmt_int. reflexivity. Qed.

Theorem rc_parse_range a : RangeCodec.parse_range a = parse_range a.
Proof.
  unfold RangeCodec.parse_range, parse_range. change RangeCodec.DASH with 45%N.
  destruct (cut_byte 45 a) as [[p0s p1s]|]; [|reflexivity]. rewrite !rc_parse_int.
  destruct (parse_int p0s) as [p0|]; [|reflexivity]. destruct (parse_int p1s) as [p1|]; [|reflexivity].
  rewrite !Z.gtb_ltb. reflexivity.
Qed.

(* ociserver.chunkRange: the two transcriptions compute the same range / the same refusal *)
Definition cr_view (r : RangeCodec.chunk_range_result) : R gerr (Z * Z) :=
  match r with
  | RangeCodec.CROk a b => Ok (a, b)
  | RangeCodec.CRBadRange => Err (bad_api_use_error (s "we don't understand your Content-Range"))
  | RangeCodec.CRBadLength _ => Err (bad_api_use_error (s "Content-Range implies a length that is not Content-Length"))
  end.

Theorem rc_chunk_range (req : Server.hreq) :
  chunk_range req = cr_view (RangeCodec.chunk_range (hq_crange req) (hq_clen req)).
Proof.
  unfold chunk_range, RangeCodec.chunk_range. destruct (hq_crange req) as [|c0 cr].
  - cbn [negb andb]. rewrite Z.geb_leb. destruct (0 <=? hq_clen req); reflexivity.
  - rewrite rc_parse_range. destruct (parse_range (c0 :: cr)) as [[a b]|]; [|reflexivity].
    cbn [andb negb]. rewrite Z.geb_leb. destruct (0 <=? hq_clen req); cbn [andb]; [|reflexivity].
    destruct ((a =? 0) && (b =? 0) && (hq_clen req =? 1)); unfold RangeCodec.wrap64, wrap64;
      match goal with |- context [negb (?x =? ?y)] => destruct (x =? y) end; reflexivity.
Qed.

(* ================================================================ 1. errors *)

(* what Model/Upload.v keeps of an error value: the code errors.As finds, the status of the
   HTTPError when there is one (the projection Model/Stack.v's [err_of_gerr] makes) *)
Definition U (e : gerr) : Upload.uerr :=
  Upload.UE (match as_err e with Some w => ecode_of_code (w_code w) | None => ENone end)
            (match as_http e with Some st => st | None => 0 end).

Lemma U_wrap p e : U (Wrap p e) = U e.
Proof. reflexivity. Qed.

Lemma U_plain m : U (Plain m) = Upload.plain_error.
Proof. reflexivity. Qed.

Ltac code_chain c0 cs :=
  repeat match goal with
         | |- context [beqb (c0 :: cs) ?k] =>
             let E := fresh "E" in
             destruct (beqb (c0 :: cs) k) eqn:E;
             [apply beqb_eq in E; try (rewrite E); try reflexivity; try discriminate|]
         end.

Lemma ecode_of_code_not_none c : c <> [] -> ecode_of_code c <> ENone.
Proof.
  destruct c as [|c0 cs]; [congruence|]. intros _. unfold ecode_of_code.
  code_chain c0 cs. discriminate.
Qed.

Lemma code_status c : c <> [] -> Upload.status_of_code (ecode_of_code c) = lookup c error_statuses.
Proof.
  destruct c as [|c0 cs]; [congruence|]. intros _. unfold ecode_of_code.
  code_chain c0 cs.
  unfold error_statuses. cbn [lookup Upload.status_of_code].
  repeat match goal with H : beqb _ _ = false |- _ => rewrite H; clear H end. reflexivity.
Qed.

Lemma marshal_code_nonempty e : marshal_code e <> [].
Proof.
  unfold marshal_code. destruct (as_err e) as [w|]; [|discriminate].
  destruct (w_code w); discriminate.
Qed.

Lemma wire_code_U e : Upload.wire_code (U e) = ecode_of_code (marshal_code e).
Proof.
  unfold U, Upload.wire_code, marshal_code. cbn [Upload.ue_code].
  destruct (as_err e) as [w|]; [|reflexivity].
  destruct (w_code w) as [|c0 cs] eqn:Ec; [reflexivity|].
  pose proof (ecode_of_code_not_none (c0 :: cs) ltac:(discriminate)) as Hn.
  destruct (ecode_of_code (c0 :: cs)); try reflexivity. congruence.
Qed.

Lemma wire_status_U e : 400 <= marshal_status e <= 599 -> Upload.wire_status (U e) = marshal_status e.
Proof.
  intros Hst. unfold Upload.wire_status. rewrite wire_code_U, (code_status _ (marshal_code_nonempty e)).
  unfold marshal_status in *. destruct (lookup (marshal_code e) error_statuses) as [st|]; [reflexivity|].
  unfold U. cbn [Upload.ue_status]. destruct (as_http e) as [st|]; [|reflexivity].
  destruct (Z.eqb_spec st 0); [lia | reflexivity].
Qed.

Notation merr := (marshal_error go_sprefix go_cprefix).

Section Errs.
  Variable enc : jval -> bytes.

  Definition small (e : gerr) : Prop := blen (enc (JErr (r_err (merr e)))) <= 8192.

  Lemma wire_error_shape e : small e ->
    wire_error enc false e = Http (marshal_status e) (Some (Wires [r_err (merr e)])) true.
  Proof.
    intros Hs. unfold wire_error, hop, hopspec_of, apply_wrap, Errors.make_error, response_of.
    cbn [h_cwrap h_swrap h_head h_len rp_len rp_status r_status marshal_error].
    unfold Errors.error_body_size_limit.
    destruct (Z.ltb_spec 8192 (blen (enc (JErr (r_err (merr e)))))) as [Hx|_]; [unfold small in Hs; lia|].
    reflexivity.
  Qed.

  (* the error the client makes of a served error is the error Model/Upload.v's client makes of
     Model/Upload.v's error response *)
  Lemma U_wire_error e : conf_err e -> small e ->
    U (wire_error enc false e) = Upload.UE (Upload.wire_code (U e)) (Upload.wire_status (U e)).
  Proof.
    intros [_ Hst] Hs. rewrite (wire_error_shape e Hs), wire_code_U, (wire_status_U e Hst). reflexivity.
  Qed.
End Errs.

(* ================================================================ 2. the server *)

(* io.Copy as Model/Server.v has it: one Write of the whole body, none for an empty body *)
Definition pieces1 (b : bytes) : list bytes := match b with [] => [] | _ => [b] end.

Lemma pieces1_concat b : concat (pieces1 b) = b.
Proof. destruct b; cbn; rewrite ?app_nil_r; reflexivity. Qed.

Definition copy1 : bytes := s "cannot copy blob data: ".
Definition close1 : bytes := s "cannot close BlobWriter: ".
Definition copy2 : bytes := s "failed to copy data: ".

Section Bridge.
  Variable linked : alg -> bool.
  Variable hash : bytes -> bytes -> bytes.
  Variable subject_of : bytes -> option (option bytes).
  Variable media : bytes -> bytes.
  Variable enc : jval -> bytes.
  Variable dec_errors : bytes -> option (list werr).
  Variable dec_names : bool -> bytes -> option (list bytes).
  Variable dec_index : bytes -> option (list desc).
  Variable redirect : bytes -> bytes -> bytes * bytes.
  Variable B : Type.
  Variable bstep : backend B.
  Variable o : opts.

  Hypothesis media_json : media json_ct = json_ct.
  Hypothesis json_errors_rt : forall w, dec_errors (enc (JErr w)) = Some [w].
  Hypothesis no_locs : o_locs o = None.

  Notation serve := (serve_stack linked hash subject_of enc redirect bstep o).
  Notation env := (stack_env linked hash media dec_errors dec_names dec_index).
  Notation shandle := (server_handle linked hash subject_of enc redirect B bstep o).
  Notation W := (world (srv B)).

  (* ---------------------------------------------------------- the backend, in both vocabularies *)

  Variable UB : Upload.ubackend B wid bytes.

  (* an error a handler can serve and the client can read back: Error() does not panic, the status is
     4xx / 5xx, the JSON body fits the client's 8 KiB limit, also under the handlers' prefixes *)
  Definition okerr (e : gerr) : Prop :=
    conf_err e /\ small enc e /\ small enc (Wrap copy1 e) /\ small enc (Wrap close1 e) /\ small enc (Wrap copy2 e).

  Definition relE (u : Upload.uerr) (r : bres) : Prop := exists e, r = Err e /\ U e = u /\ okerr e.

  Definition relW (x : R Upload.uerr wid) (r : bres) : Prop :=
    match x with
    | Ok w => exists v, r = Ok v /\ wid_of v = w
    | Err u => relE u r
    | _ => False
    end.
  Definition relN (d : bytes) (x : option Upload.uerr) (r : bres) : Prop :=
    match x with
    | None => exists v, r = Ok v /\ n_of v = blen d
    | Some u => relE u r
    end.
  Definition relU (x : option Upload.uerr) (r : bres) : Prop :=
    match x with
    | None => exists v, r = Ok v
    | Some u => relE u r
    end.
  Definition relD (x : R Upload.uerr desc) (r : bres) : Prop :=
    match x with
    | Ok de => exists v, r = Ok v /\ desc_of v = de /\ vdigest linked (d_digest de) = true
    | Err u => relE u r
    | _ => False
    end.

  (* [Live b w]: w is a writer the backend handed out, and its upload ID can be put in a URL;
     [Inv b]: what the backend keeps true of its states so that this holds of every writer it opens *)
  Variable Live : B -> wid -> Prop.
  Variable Inv : B -> Prop.

  Record Agrees : Prop := {
    ag_start : forall b r h, exists x,
      bstep b (PushBlobChunked r h) = (fst (Upload.ub_start UB b r h), x) /\ relW (snd (Upload.ub_start UB b r h)) x;
    ag_resume : forall b r id off h, exists x,
      bstep b (PushBlobChunkedResume r id off h) = (fst (Upload.ub_resume UB b r id off h), x)
      /\ relW (snd (Upload.ub_resume UB b r id off h)) x;
    ag_write : forall b w d, Live b w -> exists x,
      bstep b (WWrite w d) = (fst (fst (Upload.ub_write UB b w d)), x)
      /\ snd (fst (Upload.ub_write UB b w d)) = w /\ relN d (snd (Upload.ub_write UB b w d)) x;
    ag_close : forall b w, Live b w -> exists x,
      bstep b (WClose w) = (fst (fst (Upload.ub_close UB b w)), x)
      /\ snd (fst (Upload.ub_close UB b w)) = w /\ relU (snd (Upload.ub_close UB b w)) x;
    ag_commit : forall b w dg, Live b w -> vdigest linked dg = true -> exists x,
      bstep b (WCommit w dg) = (fst (fst (Upload.ub_commit UB b w dg)), x)
      /\ snd (fst (Upload.ub_commit UB b w dg)) = w /\ relD (snd (Upload.ub_commit UB b w dg)) x;
    ag_size : forall b w, Live b w -> bstep b (WSize w) = (b, Ok (VN (Upload.ub_size UB b w)));
    ag_chunk : forall b w, Live b w -> bstep b (WChunkSize w) = (b, Ok (VN (Upload.ub_chunk UB b w)));
    ag_id : forall b w, Live b w -> bstep b (WID w) = (b, Ok (VStr (Upload.ub_id UB b w)));
    ag_id_good : forall b w, Live b w -> good_upload_id (Upload.ub_id UB b w);
    ag_live_start : forall b r h b1 w, Inv b -> Upload.ub_start UB b r h = (b1, Ok w) -> Live b1 w;
    ag_live_resume : forall b r id off h b1 w, Inv b -> good_upload_id id ->
      Upload.ub_resume UB b r id off h = (b1, Ok w) -> Live b1 w;
    ag_live_write : forall b w d, Live b w -> Live (fst (fst (Upload.ub_write UB b w d))) w;
    ag_live_close : forall b w, Live b w -> Live (fst (fst (Upload.ub_close UB b w))) w;
    ag_live_commit : forall b w dg, Live b w -> Live (fst (fst (Upload.ub_commit UB b w dg))) w;
    ag_inv_start : forall b r h, Inv b -> Inv (fst (Upload.ub_start UB b r h));
    ag_inv_resume : forall b r id off h, Inv b -> good_upload_id id -> Inv (fst (Upload.ub_resume UB b r id off h));
    ag_inv_write : forall b w d, Inv b -> Inv (fst (fst (Upload.ub_write UB b w d)));
    ag_inv_close : forall b w, Inv b -> Inv (fst (fst (Upload.ub_close UB b w)));
    ag_inv_commit : forall b w dg, Inv b -> Inv (fst (fst (Upload.ub_commit UB b w dg)))
  }.

  Hypothesis AG : Agrees.

  (* ---------------------------------------------------------- responses *)

  Definition good_loc (l : Upload.loc bytes) : Prop :=
    match l with
    | Upload.LUpload rp id => vrepo rp = true /\ good_upload_id id
    | Upload.LBlob rp dg => vrepo rp = true /\ vdigest linked dg = true
    end.

  (* the headers of a success response of the four upload handlers *)
  Definition hdrs_of (p : Upload.response bytes) : Server.headers :=
    let h0 := match Upload.p_location p with
              | Some (Upload.LUpload rp id) => hset H_location (upath rp id) []
              | Some (Upload.LBlob rp dg) => hset H_dcd dg (hset H_location (blob_location rp dg) [])
              | None => []
              end in
    let h1 := match Upload.p_range p with [] => h0 | rg => hset H_range rg h0 end in
    match Upload.p_minchunk p with [] => h1 | mc => hset H_chunk_min mc h1 end.

  Definition hresp_of (p : Upload.response bytes) : Server.hresp := mkresp (Upload.p_status p) (hdrs_of p) [] None.

  Definition servable (e : gerr) : Prop := conf_err e /\ small enc e.

  Inductive RespRel (p : Upload.response bytes) (r : Server.hresp) : Prop :=
    | RR_ok l : Upload.p_code p = ENone -> Upload.p_location p = Some l -> good_loc l ->
                (Upload.p_status p = 201 \/ Upload.p_status p = 202 \/ Upload.p_status p = 204) ->
                r = hresp_of p -> RespRel p r
    | RR_err e : servable e -> p = Upload.error_response (U e) -> r = err_resp enc [] (merr e) -> RespRel p r.

  Lemma okerr_servable e : okerr e -> servable e.
  Proof. intros (A & S0 & _). split; assumption. Qed.

  Lemma conf_err_wrap p e : conf_err e -> conf_err (Wrap p e).
  Proof. intros [A C]. split; [exact A | exact C]. Qed.

  Lemma okerr_copy1 e : okerr e -> servable (Wrap copy1 e).
  Proof. intros (A & _ & S1 & _). split; [now apply conf_err_wrap | exact S1]. Qed.
  Lemma okerr_close1 e : okerr e -> servable (Wrap close1 e).
  Proof. intros (A & _ & _ & S1 & _). split; [now apply conf_err_wrap | exact S1]. Qed.
  Lemma okerr_copy2 e : okerr e -> servable (Wrap copy2 e).
  Proof. intros (A & _ & _ & _ & S1). split; [now apply conf_err_wrap | exact S1]. Qed.

  Notation H := (handle linked (digest_of hash) subject_of enc redirect B bstep o).

  Ltac fin :=
    cbn [h_b h_tr h_w fst snd set_hdr write_header write_body upd_w log rev app finish
         w_status w_hdrs w_body w_json rw0 as_desc as_read as_unit as_writer as_str as_n
         desc_of data_of wid_of n_of str_of negb].

  (* the two exits of ServeHTTP *)
  Lemma handle_err b req b' tr e : servable e ->
    Server.v2 linked (digest_of hash) subject_of enc redirect B bstep o (mkst b [] rw0) req = (mkst b' tr rw0, Err e) ->
    H b req = (b', rev tr, Ok (err_resp enc [] (merr e))).
  Proof.
    intros [Hc _] Hv. unfold Server.handle. rewrite Hv.
    rewrite (write_error_rw0 enc B b' tr e (merr e) (conf_err_serve e Hc)). fin. reflexivity.
  Qed.

  Lemma handle_ok b req st u :
    Server.v2 linked (digest_of hash) subject_of enc redirect B bstep o (mkst b [] rw0) req = (st, Ok u) ->
    H b req = (h_b st, rev (h_tr st), Ok (finish (h_w st))).
  Proof. intros Hv. unfold Server.handle. rewrite Hv. reflexivity. Qed.

  Lemma dec_Z_nonempty z : dec_Z z <> [].
  Proof. rewrite <- rc_fmt_int. apply Proofs.RangeCodec.fmt_int_nonempty. Qed.

  Lemma range_string_nonempty a b : range_string a b <> [].
  Proof. rewrite <- rc_range_string. apply Proofs.RangeCodec.range_string_nonempty. Qed.

  Lemma hdrs_of_upload st rp id rg mc :
    hdrs_of (Upload.upload_response st rp id rg mc)
    = let h0 := hset H_location (upath rp id) [] in
      let h1 := match rg with [] => h0 | _ => hset H_range rg h0 end in
      match mc with [] => h1 | _ => hset H_chunk_min mc h1 end.
  Proof. destruct rg, mc; reflexivity. Qed.

  Ltac route Hp Hk := unfold Server.handle, Server.v2; rewrite Hp; unfold Server.dispatch; rewrite Hk.

  Lemma srv_start b req r :
    parse_req linked (hq_method req) (hq_path req) (hq_rawquery req) = Ok r ->
    Request.q_kind r = Request.ReqBlobStartUpload -> vrepo (q_repo r) = true -> Inv b ->
    exists tr resp,
      H b req = (fst (Upload.handle_start UB b (q_repo r)), tr, Ok resp)
      /\ RespRel (snd (Upload.handle_start UB b (q_repo r))) resp.
  Proof.
    intros Hp Hk Hr HI. unfold Upload.handle_start.
    destruct (ag_start AG b (q_repo r) 0) as (x & E1 & R1).
    destruct (Upload.ub_start UB b (q_repo r) 0) as [b1 y] eqn:Es. cbn [fst snd] in *.
    destruct y as [w|u| |]; cbn [relW] in R1; try contradiction.
    - destruct R1 as (v & -> & Hw).
      pose proof (ag_live_start AG _ _ _ _ _ HI Es) as L1.
      destruct (ag_close AG b1 w L1) as (xc & Ec & Hcw & Rc).
      destruct (Upload.ub_close UB b1 w) as [[b2 w2] ec] eqn:Ecl. cbn [fst snd] in *.
      eexists. eexists. split.
      + route Hp Hk. unfold handle_blob_start_upload, call. fin. rewrite E1. fin. rewrite Hw.
        unfold with_upload_location, call. fin. rewrite (ag_id AG _ _ L1). fin.
        rewrite (location_ok linked _ _ Hr (ag_id_good AG _ _ L1)). fin.
        rewrite (ag_chunk AG _ _ L1). fin. unfold defer_close, call. fin. rewrite Ec.
        destruct ec as [u|]; cbn [relU] in Rc.
        * destruct Rc as (e & -> & _). fin. reflexivity.
        * destruct Rc as (vc & ->). fin. reflexivity.
      + eapply RR_ok; try reflexivity.
        * split; [exact Hr | exact (ag_id_good AG _ _ L1)].
        * auto.
        * unfold hresp_of. rewrite hdrs_of_upload. cbn [Upload.p_status Upload.upload_response].
          rewrite rc_fmt_int. cbv zeta.
          destruct (dec_Z (Upload.ub_chunk UB b1 w)) eqn:Ed; [now apply dec_Z_nonempty in Ed|]. reflexivity.
    - destruct R1 as (e & -> & <- & Hok). eexists. eexists. split.
      + route Hp Hk. unfold handle_blob_start_upload, call. fin. rewrite E1. fin.
        rewrite (write_error_rw0 enc B _ _ e (merr e) (conf_err_serve e (proj1 Hok))). fin. reflexivity.
      + eapply RR_err; [exact (okerr_servable e Hok) | reflexivity | reflexivity].
  Qed.

  Ltac err_exit e Hserv :=
    rewrite (write_error_rw0 enc B _ _ e (merr e) (conf_err_serve e (proj1 Hserv))); fin; reflexivity.

  Lemma srv_info b req r :
    parse_req linked (hq_method req) (hq_path req) (hq_rawquery req) = Ok r ->
    Request.q_kind r = Request.ReqBlobUploadInfo -> vrepo (q_repo r) = true -> good_upload_id (q_upload r) -> Inv b ->
    exists tr resp,
      H b req = (fst (Upload.handle_info UB b (q_repo r) (q_upload r)), tr, Ok resp)
      /\ RespRel (snd (Upload.handle_info UB b (q_repo r) (q_upload r))) resp.
  Proof.
    intros Hp Hk Hr Hid HI. unfold Upload.handle_info.
    destruct (ag_resume AG b (q_repo r) (q_upload r) (-1) 0) as (x & E1 & R1).
    destruct (Upload.ub_resume UB b (q_repo r) (q_upload r) (-1) 0) as [b1 y] eqn:Es. cbn [fst snd] in *.
    destruct y as [w|u| |]; cbn [relW] in R1; try contradiction.
    - destruct R1 as (v & -> & Hw).
      pose proof (ag_live_resume AG _ _ _ _ _ _ _ HI Hid Es) as L1.
      destruct (ag_close AG b1 w L1) as (xc & Ec & Hcw & Rc).
      destruct (Upload.ub_close UB b1 w) as [[b2 w2] ec] eqn:Ecl. cbn [fst snd] in *.
      eexists. eexists. split.
      + route Hp Hk. unfold handle_blob_upload_info, call. fin. rewrite E1. fin. rewrite Hw.
        unfold with_upload_location, call. fin. rewrite (ag_id AG _ _ L1). fin.
        rewrite (location_ok linked _ _ Hr (ag_id_good AG _ _ L1)). fin.
        rewrite (ag_size AG _ _ L1). fin. unfold defer_close, call. fin. rewrite Ec.
        destruct ec as [u|]; cbn [relU] in Rc.
        * destruct Rc as (e & -> & _). fin. reflexivity.
        * destruct Rc as (vc & ->). fin. reflexivity.
      + eapply RR_ok; try reflexivity.
        * split; [exact Hr | exact (ag_id_good AG _ _ L1)].
        * auto.
        * unfold hresp_of. rewrite hdrs_of_upload. cbn [Upload.p_status Upload.upload_response].
          rewrite rc_range_string. cbv zeta.
          destruct (range_string 0 (Upload.ub_size UB b1 w)) eqn:Ed; [now apply range_string_nonempty in Ed|]. reflexivity.
    - destruct R1 as (e & -> & <- & Hok). eexists. eexists. split.
      + route Hp Hk. unfold handle_blob_upload_info, call. fin. rewrite E1. fin. err_exit e (okerr_servable e Hok).
      + eapply RR_err; [exact (okerr_servable e Hok) | reflexivity | reflexivity].
  Qed.

  (* the two refusals chunkRange makes are servable *)
  Definition bad_range_err : gerr := bad_api_use_error (s "we don't understand your Content-Range").
  Definition bad_length_err : gerr := bad_api_use_error (s "Content-Range implies a length that is not Content-Length").
  Hypothesis small_bad_range : small enc bad_range_err.
  Hypothesis small_bad_length : small enc bad_length_err.

  Lemma bad_api_conf m : conf_err (bad_api_use_error m).
  Proof. split; [reflexivity | vm_compute; split; discriminate]. Qed.

  (* chunkRange in both models: the same range, or a refusal with the same code *)
  Lemma chunk_range_cases (req : Server.hreq) :
    match Upload.chunk_range_of (hq_crange req) (hq_clen req) with
    | Ok (a, b) => chunk_range req = Ok (a, b)
    | Err u => exists e, chunk_range req = Err e /\ servable e /\ U e = u
    | _ => False
    end.
  Proof.
    rewrite rc_chunk_range. unfold Upload.chunk_range_of.
    destruct (RangeCodec.chunk_range (hq_crange req) (hq_clen req)); cbn [cr_view].
    - reflexivity.
    - exists bad_range_err. repeat split; try apply bad_api_conf; try assumption; reflexivity.
    - exists bad_length_err. repeat split; try apply bad_api_conf; try assumption; reflexivity.
  Qed.

  (* io.Copy in both models *)
  Lemma copy_body_cases b1 w body tr (rw_ : rw) : Live b1 w ->
    let y := Upload.copy_body UB pieces1 b1 w body in
    snd (fst y) = w /\ Live (fst (fst y)) w /\
    exists tr',
      match snd y with
      | None => Server.copy_body B bstep (mkst b1 tr rw_) w body = (mkst (fst (fst y)) (tr' ++ tr) rw_, Ok tt)
      | Some u => exists e, Server.copy_body B bstep (mkst b1 tr rw_) w body = (mkst (fst (fst y)) (tr' ++ tr) rw_, Err e)
                            /\ U e = u /\ okerr e
      end.
  Proof.
    intros L1. unfold Upload.copy_body, pieces1, Server.copy_body. destruct body as [|c0 body].
    - cbn [Upload.copy_pieces fst snd]. repeat split; try assumption. exists []. reflexivity.
    - cbn [Upload.copy_pieces].
      destruct (ag_write AG b1 w (c0 :: body) L1) as (x & E & Hw & R).
      pose proof (ag_live_write AG b1 w (c0 :: body) L1) as L2.
      destruct (Upload.ub_write UB b1 w (c0 :: body)) as [[b2 w2] ew] eqn:Ew. cbn [fst snd] in *. subst w2.
      destruct ew as [u|]; cbn [relN fst snd] in *.
      + destruct R as (e & -> & Hu & Hok). repeat split; try assumption.
        exists [ECall (WWrite w (c0 :: body)) (Err e)]. exists e. unfold call. fin. rewrite E. fin. auto.
      + destruct R as (v & -> & Hn). repeat split; try assumption.
        exists [ECall (WWrite w (c0 :: body)) (Ok v)]. unfold call. fin. rewrite E. fin. rewrite Hn, Z.eqb_refl. reflexivity.
  Qed.

  Lemma srv_patch b req r :
    parse_req linked (hq_method req) (hq_path req) (hq_rawquery req) = Ok r ->
    Request.q_kind r = Request.ReqBlobUploadChunk -> vrepo (q_repo r) = true -> good_upload_id (q_upload r) -> Inv b ->
    let y := Upload.handle_patch UB pieces1 b (q_repo r) (q_upload r) (hq_crange req) (hq_clen req) (hq_body req) in
    exists tr resp, H b req = (fst y, tr, Ok resp) /\ RespRel (snd y) resp.
  Proof.
    intros Hp Hk Hr Hid HI. cbv zeta. unfold Upload.handle_patch.
    pose proof (chunk_range_cases req) as Hcr.
    destruct (Upload.chunk_range_of (hq_crange req) (hq_clen req)) as [[a b0]|u| |]; try contradiction.
    2:{ destruct Hcr as (e & Ecr & Hs & <-). eexists. eexists. split.
        - route Hp Hk. unfold handle_blob_upload_chunk. rewrite Ecr. err_exit e Hs.
        - eapply RR_err; [exact Hs | reflexivity | reflexivity]. }
    destruct (ag_resume AG b (q_repo r) (q_upload r) a (wrap64 (b0 - a))) as (x & E1 & R1).
    change (RangeCodec.wrap64 (b0 - a)) with (wrap64 (b0 - a)).
    destruct (Upload.ub_resume UB b (q_repo r) (q_upload r) a (wrap64 (b0 - a))) as [b1 y] eqn:Es. cbn [fst snd] in *.
    destruct y as [w|u| |]; cbn [relW] in R1; try contradiction.
    2:{ destruct R1 as (e & -> & <- & Hok). eexists. eexists. split.
        - route Hp Hk. unfold handle_blob_upload_chunk, call. rewrite Hcr. fin. rewrite E1. fin.
          err_exit e (okerr_servable e Hok).
        - eapply RR_err; [exact (okerr_servable e Hok) | reflexivity | reflexivity]. }
    destruct R1 as (v & -> & Hw).
    pose proof (ag_live_resume AG _ _ _ _ _ _ _ HI Hid Es) as L1.
    destruct (copy_body_cases b1 w (hq_body req)
                [ECall (PushBlobChunkedResume (q_repo r) (q_upload r) a (wrap64 (b0 - a))) (Ok v)] rw0 L1)
      as (Hw2 & L2 & tr' & Hcp).
    destruct (Upload.copy_body UB pieces1 b1 w (hq_body req)) as [[b2 w2] ec] eqn:Ecp. cbn [fst snd] in *. subst w2.
    destruct (ag_close AG b2 w L2) as (xc & Ec & Hcw & Rc).
    pose proof (ag_live_close AG b2 w L2) as L3.
    destruct (Upload.ub_close UB b2 w) as [[b3 w3] ecl] eqn:Ecl. cbn [fst snd] in *. subst w3.
    destruct ec as [u|].
    - (* the copy failed *)
      destruct Hcp as (e & Hcp & <- & Hok). eexists. eexists. split.
      + route Hp Hk. unfold handle_blob_upload_chunk, call. rewrite Hcr. fin. rewrite E1. fin. rewrite Hw, Hcp.
        fin. rewrite Ec.
        assert (Hx : xc <> Panic /\ xc <> OutOfFuel).
        { destruct ecl; cbn [relU] in Rc; [destruct Rc as (? & -> & _) | destruct Rc as (? & ->)]; split; discriminate. }
        destruct xc; try (exfalso; tauto); fin; err_exit (Wrap copy1 e) (okerr_copy1 e Hok).
      + eapply RR_err; [exact (okerr_copy1 e Hok) | reflexivity | reflexivity].
    - destruct ecl as [u|]; cbn [relU] in Rc.
      + (* Close failed *)
        destruct Rc as (e & -> & <- & Hok). eexists. eexists. split.
        * route Hp Hk. unfold handle_blob_upload_chunk, call. rewrite Hcr. fin. rewrite E1. fin. rewrite Hw, Hcp.
          fin. rewrite Ec. fin. err_exit (Wrap close1 e) (okerr_close1 e Hok).
        * eapply RR_err; [exact (okerr_close1 e Hok) | reflexivity | reflexivity].
      + destruct Rc as (vc & ->). eexists. eexists. split.
        * route Hp Hk. unfold handle_blob_upload_chunk, call. rewrite Hcr. fin. rewrite E1. fin. rewrite Hw, Hcp.
          fin. rewrite Ec. fin. unfold with_upload_location, call. fin. rewrite (ag_id AG _ _ L3). fin.
          rewrite (location_ok linked _ _ Hr (ag_id_good AG _ _ L3)). fin.
          rewrite (ag_size AG _ _ L3). fin. reflexivity.
        * eapply RR_ok; try reflexivity.
          -- split; [exact Hr | exact (ag_id_good AG _ _ L3)].
          -- auto.
          -- unfold hresp_of. cbn [snd]. rewrite hdrs_of_upload. cbn [Upload.p_status Upload.upload_response].
             rewrite rc_range_string. cbv zeta.
             destruct (range_string 0 (Upload.ub_size UB b3 w)) eqn:Ed; [now apply range_string_nonempty in Ed|]. reflexivity.
  Qed.

  Lemma close_not_fatal x ecl : relU ecl x -> x <> Panic /\ x <> OutOfFuel.
  Proof.
    destruct ecl; cbn [relU]; [intros (? & -> & _) | intros (? & ->)]; split; discriminate.
  Qed.

  Lemma srv_put b req r :
    parse_req linked (hq_method req) (hq_path req) (hq_rawquery req) = Ok r ->
    Request.q_kind r = Request.ReqBlobCompleteUpload -> vrepo (q_repo r) = true -> good_upload_id (q_upload r) ->
    vdigest linked (q_digest r) = true -> Inv b ->
    let y := Upload.handle_put UB pieces1 b (q_repo r) (q_upload r) (q_digest r) (hq_crange req) (hq_clen req) (hq_body req) in
    exists tr resp, H b req = (fst y, tr, Ok resp) /\ RespRel (snd y) resp.
  Proof.
    intros Hp Hk Hr Hid Hd HI. cbv zeta. unfold Upload.handle_put.
    pose proof (chunk_range_cases req) as Hcr.
    destruct (Upload.chunk_range_of (hq_crange req) (hq_clen req)) as [[a b0]|u| |]; try contradiction.
    2:{ destruct Hcr as (e & Ecr & Hs & <-). eexists. eexists. split.
        - route Hp Hk. unfold handle_blob_complete_upload. rewrite Ecr. err_exit e Hs.
        - eapply RR_err; [exact Hs | reflexivity | reflexivity]. }
    destruct (ag_resume AG b (q_repo r) (q_upload r) a (wrap64 (b0 - a))) as (x & E1 & R1).
    change (RangeCodec.wrap64 (b0 - a)) with (wrap64 (b0 - a)).
    destruct (Upload.ub_resume UB b (q_repo r) (q_upload r) a (wrap64 (b0 - a))) as [b1 y] eqn:Es. cbn [fst snd] in *.
    destruct y as [w|u| |]; cbn [relW] in R1; try contradiction.
    2:{ destruct R1 as (e & -> & <- & Hok). eexists. eexists. split.
        - route Hp Hk. unfold handle_blob_complete_upload, call. rewrite Hcr. fin. rewrite E1. fin.
          err_exit e (okerr_servable e Hok).
        - eapply RR_err; [exact (okerr_servable e Hok) | reflexivity | reflexivity]. }
    destruct R1 as (v & -> & Hw).
    pose proof (ag_live_resume AG _ _ _ _ _ _ _ HI Hid Es) as L1.
    destruct (copy_body_cases b1 w (hq_body req)
                [ECall (PushBlobChunkedResume (q_repo r) (q_upload r) a (wrap64 (b0 - a))) (Ok v)] rw0 L1)
      as (Hw2 & L2 & tr' & Hcp).
    destruct (Upload.copy_body UB pieces1 b1 w (hq_body req)) as [[b2 w2] ec] eqn:Ecp. cbn [fst snd] in *. subst w2.
    destruct ec as [u|].
    - (* the copy failed *)
      destruct Hcp as (e & Hcp & <- & Hok).
      destruct (ag_close AG b2 w L2) as (xc & Ec & Hcw & Rc).
      destruct (Upload.ub_close UB b2 w) as [[b3 w3] ecl] eqn:Ecl. cbn [fst snd] in *. subst w3.
      destruct (close_not_fatal _ _ Rc) as [Hx1 Hx2].
      eexists. eexists. split.
      + route Hp Hk. unfold handle_blob_complete_upload, call. rewrite Hcr. fin. rewrite E1. fin. rewrite Hw, Hcp.
        unfold defer_close, call. fin. rewrite Ec.
        destruct xc; try congruence; fin; err_exit (Wrap copy2 e) (okerr_copy2 e Hok).
      + eapply RR_err; [exact (okerr_copy2 e Hok) | reflexivity | reflexivity].
    - destruct (ag_commit AG b2 w (q_digest r) L2 Hd) as (xm & Em & Hmw & Rm).
      pose proof (ag_live_commit AG b2 w (q_digest r) L2) as L3.
      destruct (Upload.ub_commit UB b2 w (q_digest r)) as [[b3 w3] em] eqn:Ecm. cbn [fst snd] in *. subst w3.
      destruct (ag_close AG b3 w L3) as (xc & Ec & Hcw & Rc).
      destruct (Upload.ub_close UB b3 w) as [[b4 w4] ecl] eqn:Ecl. cbn [fst snd] in *. subst w4.
      destruct (close_not_fatal _ _ Rc) as [Hx1 Hx2].
      destruct em as [de|u| |]; cbn [relD] in Rm; try contradiction.
      + destruct Rm as (vd & -> & Hde & Hvd). eexists. eexists. split.
        * route Hp Hk. unfold handle_blob_complete_upload, call. rewrite Hcr. fin. rewrite E1. fin. rewrite Hw, Hcp.
          fin. rewrite Em. fin. unfold set_location_header. rewrite no_locs. fin.
          unfold defer_close, call. fin. rewrite Ec.
          destruct xc; try congruence; fin; reflexivity.
        * eapply RR_ok; try reflexivity.
          -- split; [exact Hr | exact Hvd].
          -- auto.
          -- unfold hresp_of, hdrs_of. cbn [snd Upload.p_status Upload.p_location Upload.p_range Upload.p_minchunk].
             rewrite Hde. reflexivity.
      + destruct Rm as (e & -> & <- & Hok). eexists. eexists. split.
        * route Hp Hk. unfold handle_blob_complete_upload, call. rewrite Hcr. fin. rewrite E1. fin. rewrite Hw, Hcp.
          fin. rewrite Em. fin. unfold defer_close, call. fin. rewrite Ec.
          destruct xc; try congruence; fin; err_exit e (okerr_servable e Hok).
        * eapply RR_err; [exact (okerr_servable e Hok) | reflexivity | reflexivity].
  Qed.


  (* ---------------------------------------------------------- the handlers keep the backend's invariant *)

  Lemma copy_inv b w body : Inv b -> Inv (fst (fst (Upload.copy_body UB pieces1 b w body))).
  Proof.
    intros HI. unfold Upload.copy_body, pieces1. destruct body as [|c0 body]; [exact HI|]. cbn [Upload.copy_pieces].
    pose proof (ag_inv_write AG b w (c0 :: body) HI) as H2.
    destruct (Upload.ub_write UB b w (c0 :: body)) as [[b2 w2] [e|]]; exact H2.
  Qed.

  Lemma start_inv b rp : Inv b -> Inv (fst (Upload.handle_start UB b rp)).
  Proof.
    intros HI. unfold Upload.handle_start. pose proof (ag_inv_start AG b rp 0 HI) as H1.
    destruct (Upload.ub_start UB b rp 0) as [b1 [w|?| |]]; cbn [fst] in *; try exact H1.
    pose proof (ag_inv_close AG b1 w H1) as H2. destruct (Upload.ub_close UB b1 w) as [[b2 w2] e2]. exact H2.
  Qed.

  Lemma info_inv b rp id : Inv b -> good_upload_id id -> Inv (fst (Upload.handle_info UB b rp id)).
  Proof.
    intros HI Hid. unfold Upload.handle_info. pose proof (ag_inv_resume AG b rp id (-1) 0 HI Hid) as H1.
    destruct (Upload.ub_resume UB b rp id (-1) 0) as [b1 [w|?| |]]; cbn [fst] in *; try exact H1.
    pose proof (ag_inv_close AG b1 w H1) as H2. destruct (Upload.ub_close UB b1 w) as [[b2 w2] e2]. exact H2.
  Qed.

  Lemma patch_inv b rp id cr cl body : Inv b -> good_upload_id id ->
    Inv (fst (Upload.handle_patch UB pieces1 b rp id cr cl body)).
  Proof.
    intros HI Hid. unfold Upload.handle_patch.
    destruct (Upload.chunk_range_of cr cl) as [[a b0]|?| |]; try exact HI.
    pose proof (ag_inv_resume AG b rp id a (RangeCodec.wrap64 (b0 - a)) HI Hid) as H1.
    destruct (Upload.ub_resume UB b rp id a (RangeCodec.wrap64 (b0 - a))) as [b1 [w|?| |]]; cbn [fst] in *; try exact H1.
    pose proof (copy_inv b1 w body H1) as H2.
    destruct (Upload.copy_body UB pieces1 b1 w body) as [[b2 w2] ec]. cbn [fst] in H2.
    pose proof (ag_inv_close AG b2 w2 H2) as H3.
    destruct ec; destruct (Upload.ub_close UB b2 w2) as [[b3 w3] [e3|]]; exact H3.
  Qed.

  Lemma put_inv b rp id dg cr cl body : Inv b -> good_upload_id id ->
    Inv (fst (Upload.handle_put UB pieces1 b rp id dg cr cl body)).
  Proof.
    intros HI Hid. unfold Upload.handle_put.
    destruct (Upload.chunk_range_of cr cl) as [[a b0]|?| |]; try exact HI.
    pose proof (ag_inv_resume AG b rp id a (RangeCodec.wrap64 (b0 - a)) HI Hid) as H1.
    destruct (Upload.ub_resume UB b rp id a (RangeCodec.wrap64 (b0 - a))) as [b1 [w|?| |]]; cbn [fst] in *; try exact H1.
    pose proof (copy_inv b1 w body H1) as H2.
    destruct (Upload.copy_body UB pieces1 b1 w body) as [[b2 w2] ec]. cbn [fst] in H2.
    destruct ec.
    - pose proof (ag_inv_close AG b2 w2 H2) as H3. destruct (Upload.ub_close UB b2 w2) as [[b3 w3] e3]. exact H3.
    - pose proof (ag_inv_commit AG b2 w2 dg H2) as H3.
      destruct (Upload.ub_commit UB b2 w2 dg) as [[b3 w3] [de|?| |]]; cbn [fst] in *; try exact H3.
      + pose proof (ag_inv_close AG b3 w3 H3) as H4. destruct (Upload.ub_close UB b3 w3) as [[b4 w4] e4]. exact H4.
      + pose proof (ag_inv_close AG b3 w3 H3) as H4. destruct (Upload.ub_close UB b3 w3) as [[b4 w4] e4]. exact H4.
  Qed.

  (* ================================================================ 3. the client *)

  (* ---------------------------------------------------------- one exchange, in both models *)

  Definition loc_str (l : Upload.loc bytes) : bytes :=
    match l with
    | Upload.LUpload rp id => upath rp id
    | Upload.LBlob rp dg => blob_location rp dg
    end.

  Lemma hdrs_location p : Server.hget H_location (hdrs_of p) = option_map loc_str (Upload.p_location p).
  Proof.
    unfold hdrs_of. destruct (Upload.p_location p) as [[rp id|rp dg]|], (Upload.p_range p), (Upload.p_minchunk p);
      cbn [option_map loc_str]; rewrite ?hget_hset; lit_beqb; reflexivity.
  Qed.

  Lemma hdrs_range p : Http.hget h_range (hdrs_of p) = Upload.p_range p.
  Proof.
    rewrite http_hget. change h_range with H_range. unfold hdrs_of.
    destruct (Upload.p_location p) as [[rp id|rp dg]|], (Upload.p_range p), (Upload.p_minchunk p);
      rewrite ?hget_hset; lit_beqb; reflexivity.
  Qed.

  Lemma hdrs_minchunk p : Http.hget h_chunk_min (hdrs_of p) = Upload.p_minchunk p.
  Proof.
    rewrite http_hget. change h_chunk_min with H_chunk_min. unfold hdrs_of.
    destruct (Upload.p_location p) as [[rp id|rp dg]|], (Upload.p_range p), (Upload.p_minchunk p);
      rewrite ?hget_hset; lit_beqb; reflexivity.
  Qed.

  Lemma ok_status_facts st : st = 201 \/ st = 202 \/ st = 204 ->
    redirect_status st = false /\ Client.is_ok_status st = true /\ Upload.is_ok_status st = true.
  Proof. intros [->|[->| ->]]; repeat split; reflexivity. Qed.

  Lemma resp_rel_status p resp : RespRel p resp -> Server.p_status resp = Upload.p_status p.
  Proof.
    intros [l _ _ _ _ ->|e [[_ Hst] _] -> ->]; [reflexivity|].
    cbn [Server.p_status err_resp r_status marshal_error Upload.p_status Upload.error_response].
    symmetry. now apply wire_status_U.
  Qed.

  (* client.do of a request the upload handlers answer: the response the other model's client accepts, or
     the error the other model's client makes *)
  Lemma client_do_rel rq exp (w : W) sreq b' tr resp p :
    to_server_req rq = Ok sreq ->
    shandle (sv_b (w_srv w)) sreq = (b', tr, Ok resp) ->
    RespRel p resp -> rq_method rq <> MHead -> (exp = 201 \/ exp = 202 \/ exp = 204) ->
    exists w', w_srv w' = after B (w_srv w) b' tr /\
      match Upload.check_response exp p with
      | Ok p' => p' = p /\ client_do (srv B) serve env rq [exp] w = (w', Ok (got B w rq resp))
                 /\ resp = hresp_of p /\ exists l, Upload.p_location p = Some l /\ good_loc l
      | Err u => exists e, client_do (srv B) serve env rq [exp] w = (w', Err e) /\ U e = u
      | _ => False
      end.
  Proof.
    intros Hts Hh HR Hm Hexp. pose proof (resp_rel_status p resp HR) as Hst.
    unfold Upload.check_response.
    destruct HR as [l Hc Hl Hg Hs ->|e [[Ht Hcs] Hsm] -> ->].
    - destruct (ok_status_facts _ Hs) as (Hrd & Hok1 & Hok2).
      rewrite (client_do_stack linked hash subject_of media enc dec_errors dec_names dec_index redirect B bstep o
                 rq [exp] w sreq b' tr _ Hts Hh) by (rewrite Hst; exact Hrd).
      cbv zeta. rewrite Hst. unfold status_accepted. cbn [existsb]. rewrite orb_false_r, Hok1, Hok2. cbn [negb].
      destruct (Z.eqb_spec (Upload.p_status p) exp) as [E|E].
      + eexists. split; [|split; [reflexivity|split; [reflexivity|split; [reflexivity|exists l; auto]]]]. reflexivity.
      + eexists. split; [|exists (Plain (s "unexpected HTTP response code")); split; reflexivity]. reflexivity.
    - destruct (err_status_facts _ Hcs) as (Hrd & Hnb & Hok).
      rewrite (client_do_stack linked hash subject_of media enc dec_errors dec_names dec_index redirect B bstep o
                 rq [exp] w sreq b' tr _ Hts Hh) by exact Hrd.
      cbv zeta. cbn [Server.p_status err_resp r_status marshal_error]. rewrite Hok. cbn [negb].
      assert (Hna : status_accepted [exp] (marshal_status e) = false).
      { unfold status_accepted. cbn [existsb]. rewrite orb_false_r. apply Z.eqb_neq. lia. }
      rewrite Hna. unfold fail_make_error.
      erewrite make_error_stack; try eassumption; try reflexivity; [|apply json_errors_rt].
      assert (Hmh : meth_eqb (rq_method rq) MHead = false) by (destruct (rq_method rq); try reflexivity; congruence).
      rewrite Hmh.
      cbn [Upload.p_status Upload.error_response Upload.p_code].
      assert (Hne : (Upload.wire_status (U e) =? exp) = false).
      { rewrite (wire_status_U e Hcs). apply Z.eqb_neq. lia. }
      rewrite Hne.
      assert (Hnok : Upload.is_ok_status (Upload.wire_status (U e)) = false).
      { rewrite (wire_status_U e Hcs). unfold Upload.is_ok_status. apply Z.eqb_neq.
        intros Hq. assert (200 <= marshal_status e < 300); [|lia].
        pose proof (Z.div_mod (marshal_status e) 100 ltac:(lia)).
        pose proof (Z.mod_pos_bound (marshal_status e) 100 ltac:(lia)). lia. }
      rewrite Hnok. cbn [negb].
      eexists. split; [|exists (client_error enc false (merr e)); split; [reflexivity|]].
      + reflexivity.
      + change (client_error enc false (merr e)) with (wire_error enc false e).
        apply U_wire_error; [split; assumption | exact Hsm].
  Qed.

  (* ---------------------------------------------------------- writers *)

  (* where a writer sends its next request *)
  Definition lrel (l : Upload.loc bytes) (u : url) : Prop :=
    interp_url u = Ok (loc_str l, []) /\ good_loc l.

  Definition wfields (uw : Upload.bwriter bytes) (wr : writer) : Prop :=
    Upload.w_chunksize uw = wr_chunk_size wr /\ Upload.w_closed uw = wr_closed wr /\
    Upload.w_chunk uw = chunk_bytes wr /\ Upload.w_closeerr uw = option_map U (wr_close_err wr) /\
    Upload.w_size uw = wr_size wr /\ Upload.w_flushed uw = wr_flushed wr.

  Definition wrel (uw : Upload.bwriter bytes) (wr : writer) : Prop :=
    wfields uw wr /\ lrel (Upload.w_loc uw) (wr_location wr).

  Definition at_upload (uw : Upload.bwriter bytes) : Prop :=
    match Upload.w_loc uw with Upload.LUpload _ _ => True | _ => False end.

  Lemma lrel_ref base rp id : vrepo rp = true -> good_upload_id id ->
    lrel (Upload.LUpload rp id) (URef base (upath rp id)).
  Proof.
    intros Hr Hid. split; [|split; assumption]. cbn [interp_url loc_str].
    now rewrite (upath_dot_free rp id Hr Hid), (upath_parse rp id Hr Hid).
  Qed.

  (* locationFromResponse on a success response of the upload handlers *)
  Lemma location_rel (w : W) rq p l : Upload.p_location p = Some l -> good_loc l ->
    location_from_response env (got B w rq (hresp_of p)) = Ok (URef (rq_url rq) (loc_str l)).
  Proof.
    intros Hl Hg. unfold location_from_response, rheader, got. cbn [hr_rs hr_req].
    rewrite rs_header_of_server_resp. unfold hresp_of. cbn [p_hdrs]. change location_hdr with H_location.
    rewrite http_hget, hdrs_location, Hl. cbn [option_map].
    cbn [e_url_ok stack_env]. unfold url_ok.
    destruct l as [rp id|rp dg]; destruct Hg as [Hr Hx]; cbn [loc_str].
    - assert (Hnel : is_empty (upath rp id) = false) by reflexivity. rewrite Hnel.
      rewrite (upath_parse rp id Hr Hx). reflexivity.
    - assert (Hnel : is_empty (blob_location rp dg) = false) by reflexivity. rewrite Hnel.
      unfold blob_location. rewrite (blob_location_parse linked rp dg Hr Hx). reflexivity.
  Qed.

  (* ---------------------------------------------------------- blobWriter.flush *)

  Lemma blen_blenZ a : blenZ a = blen a.
  Proof. reflexivity. Qed.

  Lemma blen_app' (a b : bytes) : blen (a ++ b) = blen a + blen b.
  Proof. unfold blen. rewrite app_length. lia. Qed.

  Lemma blen_pos (a : bytes) : a <> [] -> 0 < blen a.
  Proof. destruct a; [congruence|]. intros _. unfold blen. cbn [length]. lia. Qed.

  (* the request of a flush as the server reads it: also for the closing PUT without body *)
  Lemma flush_req_wire loc m f chunk buf p rawq :
    interp_url loc = Ok (p, rawq) -> 0 <= f -> f + blen (chunk ++ buf) <= max_int64 ->
    (m = MPut \/ chunk ++ buf <> []) ->
    to_server_req (flush_request loc m f chunk buf)
    = Ok (mkhreq (meth_bytes m) p rawq [] (range_string f (f + blen (chunk ++ buf))) []
                 (blen (chunk ++ buf)) (chunk ++ buf)).
  Proof.
    intros Hi Hf Hm Hc. destruct (list_eq_dec N.eq_dec (chunk ++ buf) []) as [E|Hne].
    - destruct Hc as [->|Hc]; [|contradiction]. apply app_eq_nil in E as [-> ->].
      unfold flush_request. cbn [concat_body app]. change (blenZ [] + blenZ []) with 0.
      change (blen []) with 0 in *. rewrite Z.add_0_r in *.
      rewrite (to_server_req_put_empty loc _ p rawq [] Hi eq_refl).
      rewrite w64_wrap64, wrap64_small by (unfold min_int64, max_int64 in *; lia).
      rewrite http_range_string. reflexivity.
    - now apply to_server_req_flush.
  Qed.


  (* where the success responses of the handlers point *)
  Lemma patch_loc st rp id cr cl body l :
    Upload.p_location (snd (Upload.handle_patch UB pieces1 st rp id cr cl body)) = Some l -> exists id', l = Upload.LUpload rp id'.
  Proof.
    unfold Upload.handle_patch. destruct (Upload.chunk_range_of cr cl) as [[a b]|?| |]; cbn [snd Upload.p_location Upload.error_response]; try discriminate.
    destruct (Upload.ub_resume UB st rp id a (RangeCodec.wrap64 (b - a))) as [st1 [w|?| |]]; cbn [snd Upload.p_location Upload.error_response]; try discriminate.
    destruct (Upload.copy_body UB pieces1 st1 w body) as [[st2 w2] [e|]].
    - destruct (Upload.ub_close UB st2 w2) as [[st3 w3] e3]. cbn [snd Upload.p_location Upload.error_response]. discriminate.
    - destruct (Upload.ub_close UB st2 w2) as [[st3 w3] [e3|]]; cbn [snd Upload.p_location Upload.error_response Upload.upload_response]; try discriminate.
      intros E. injection E as <-. eauto.
  Qed.

  Lemma info_loc st rp id l :
    Upload.p_location (snd (Upload.handle_info UB st rp id)) = Some l -> exists id', l = Upload.LUpload rp id'.
  Proof.
    unfold Upload.handle_info.
    destruct (Upload.ub_resume UB st rp id (-1) 0) as [st1 [w|?| |]]; cbn [snd Upload.p_location Upload.error_response]; try discriminate.
    destruct (Upload.ub_close UB st1 w) as [[st2 w2] e2]. cbn [snd Upload.p_location Upload.upload_response].
    intros E. injection E as <-. eauto.
  Qed.

  Lemma start_loc st rp l :
    Upload.p_location (snd (Upload.handle_start UB st rp)) = Some l -> exists id', l = Upload.LUpload rp id'.
  Proof.
    unfold Upload.handle_start.
    destruct (Upload.ub_start UB st rp 0) as [st1 [w|?| |]]; cbn [snd Upload.p_location Upload.error_response]; try discriminate.
    destruct (Upload.ub_close UB st1 w) as [[st2 w2] e2]. cbn [snd Upload.p_location Upload.upload_response].
    intros E. injection E as <-. eauto.
  Qed.

  Definition flush_result (uw : Upload.bwriter bytes) (wr' : writer) (odig : option bytes) : Prop :=
    wfields uw wr' /\ (odig = None -> lrel (Upload.w_loc uw) (wr_location wr') /\ at_upload uw).

  Lemma flush_bridge (w : W) wr uw buf dig odig rp id :
    wfields uw wr -> Upload.w_loc uw = Upload.LUpload rp id -> lrel (Upload.LUpload rp id) (wr_location wr) ->
    (dig = [] /\ odig = None \/ odig = Some dig /\ vdigest linked dig = true) ->
    0 <= wr_flushed wr -> wr_flushed wr + blen (chunk_bytes wr ++ buf) <= max_int64 -> Inv (sv_b (w_srv w)) ->
    let y := Upload.client_flush (Upload.serve UB pieces1) (sv_b (w_srv w)) uw buf odig in
    exists w' x,
      flush (srv B) serve env wr buf dig w = (w', x) /\ sv_b (w_srv w') = fst (fst y) /\ Inv (sv_b (w_srv w'))
      /\ sv_outside (w_srv w') = sv_outside (w_srv w) /\ sv_panic (w_srv w') = sv_panic (w_srv w)
      /\ match snd y with
         | None => exists wr', x = Ok wr' /\ flush_result (snd (fst y)) wr' odig
         | Some u => snd (fst y) = uw /\ exists e, x = Err e /\ U e = u
         end.
  Proof.
    intros Hfs Hloc [Hint [Hrp Hid]] Hdig Hf0 Hmax HI. cbv zeta. cbn [loc_str] in Hint.
    pose proof Hfs as (Hcs & Hcl & Hch & Hce & Hsz & Hfl).
    unfold Upload.client_flush. rewrite Hch, Hloc, Hfl.
    set (data := chunk_bytes wr ++ buf) in *. set (f := wr_flushed wr) in *.
    assert (Hlen : blenZ (chunk_bytes wr) + blenZ buf = blen data).
    { unfold data. rewrite blen_app'. reflexivity. }
    (* nothing to do *)
    destruct Hdig as [[-> ->]|[-> Hvd]].
    { destruct data as [|c0 d0] eqn:Ed.
      - unfold flush. cbn [is_empty andb]. replace (blenZ buf + blenZ (chunk_bytes wr)) with 0 by (rewrite Z.add_comm, Hlen; reflexivity).
        cbn [Z.eqb]. unfold ret. exists w, (Ok wr). cbn [fst snd].
        split; [reflexivity|]. split; [reflexivity|]. split; [exact HI|]. split; [reflexivity|]. split; [reflexivity|].
        exists wr. split; [reflexivity|]. split; [exact Hfs|]. intros _. rewrite Hloc.
        split; [split; [exact Hint | split; assumption] | unfold at_upload; rewrite Hloc; exact I].
      - (* a chunk: PATCH *)
        rewrite <- Ed in *. assert (Hne : data <> []) by (rewrite Ed; discriminate). clear Ed c0 d0.
        assert (Hsel : match data with [] => false | _ => true end = true) by (destruct data; congruence).
        pose proof (blen_pos data Hne) as Hpos.
        set (sreq := mkhreq m_PATCH (upath rp id) [] [] (range_string f (f + blen data)) [] (blen data) data).
        pose proof (flush_req_wire (wr_location wr) MPatch f (chunk_bytes wr) buf _ _ Hint Hf0 Hmax (or_intror Hne)) as Hts.
        fold data in Hts. change (meth_bytes MPatch) with m_PATCH in Hts. fold sreq in Hts.
        destruct (srv_patch (sv_b (w_srv w)) sreq _ (chunk_parse linked rp id Hrp Hid) eq_refl Hrp Hid HI) as (tr & resp & Hh & HR).
        pose proof (patch_inv (sv_b (w_srv w)) rp id (range_string f (f + blen data)) (blen data) data HI Hid) as HI1.
        cbn [Request.q_repo Request.q_upload hq_crange hq_clen hq_body sreq] in Hh, HR.
        destruct (client_do_rel (flush_request (wr_location wr) MPatch f (chunk_bytes wr) buf) 202 w sreq _ tr resp _ Hts Hh HR
                    ltac:(discriminate) ltac:(auto)) as (w' & Hw' & Hck).
        unfold flush, bind. cbn [is_empty andb negb].
        replace (blenZ buf + blenZ (chunk_bytes wr) =? 0) with false by (symmetry; apply Z.eqb_neq; lia).
        change {| rq_method := MPatch; rq_url := wr_location wr;
                  rq_header := [(h_content_range, Http.range_string (wr_flushed wr)
                                   (w64 (wr_flushed wr + (blenZ (chunk_bytes wr) + blenZ buf))))];
                  rq_body := concat_body (chunk_bytes wr) buf; rq_clen := blenZ (chunk_bytes wr) + blenZ buf |}
          with (flush_request (wr_location wr) MPatch f (chunk_bytes wr) buf).
        destruct data as [|c0 d0] eqn:Ed; [congruence|]. rewrite <- Ed in *.
        cbn [Upload.serve]. rewrite rc_range_string.
        destruct (Upload.handle_patch UB pieces1 (sv_b (w_srv w)) rp id (range_string f (f + blen data)) (blen data) data)
          as [b1 p] eqn:Ehp. cbn [fst snd] in *.
        destruct (Upload.check_response 202 p) as [p'|u| |] eqn:Eck; try contradiction.
        + destruct Hck as (-> & Hcd & -> & l & Hl & Hg). rewrite Hcd. unfold lift.
          rewrite (location_rel w _ p l Hl Hg). cbn [flatten]. unfold ret. rewrite Hl.
          exists w'. eexists. cbn [fst snd]. split; [reflexivity|]. rewrite Hw'. cbn [after sv_b sv_outside sv_panic].
          split; [reflexivity|]. split; [exact HI1|]. split; [reflexivity|]. split; [reflexivity|].
          eexists. split; [reflexivity|]. split.
          * unfold wfields. cbn [Upload.w_chunksize Upload.w_closed Upload.w_chunk Upload.w_closeerr Upload.w_size
                                 Upload.w_flushed wr_chunk_size wr_closed wr_close_err wr_size wr_flushed].
            repeat split; try assumption.
            -- unfold chunk_bytes. cbn [wr_chunk]. destruct (wr_chunk wr); reflexivity.
            -- rewrite Hlen, w64_wrap64, wrap64_small by (unfold min_int64, max_int64 in *; lia). reflexivity.
          * intros _. cbn [Upload.w_loc wr_location].
            assert (Hpl : Upload.p_location (snd (Upload.handle_patch UB pieces1 (sv_b (w_srv w)) rp id
                                                   (range_string f (f + blen data)) (blen data) data)) = Some l)
              by (rewrite Ehp; exact Hl).
            destruct (patch_loc _ _ _ _ _ _ _ Hpl) as (id' & ->). destruct Hg as [Hr' Hid'].
            split; [apply lrel_ref; assumption | exact I].
        + destruct Hck as (e & Hcd & Hue). rewrite Hcd.
          exists w'. eexists. cbn [fst snd]. split; [reflexivity|]. rewrite Hw'. cbn [after sv_b sv_outside sv_panic].
          split; [reflexivity|]. split; [exact HI1|]. split; [reflexivity|]. split; [reflexivity|]. split; [reflexivity|]. exists e. split; [reflexivity | exact Hue]. }
    (* the closing request: PUT *)
    assert (Hdne : is_empty dig = false) by (now apply vdigest_nonempty in Hvd).
    set (sreq := mkhreq m_PUT (upath rp id) (s "digest=" ++ query_escape dig) [] (range_string f (f + blen data)) []
                        (blen data) data).
    assert (Hint' : interp_url (UDigest (wr_location wr) dig) = Ok (upath rp id, s "digest=" ++ query_escape dig))
      by (cbn [interp_url]; now rewrite Hint).
    pose proof (flush_req_wire (UDigest (wr_location wr) dig) MPut f (chunk_bytes wr) buf _ _ Hint' Hf0 Hmax (or_introl eq_refl)) as Hts.
    fold data in Hts. change (meth_bytes MPut) with m_PUT in Hts. fold sreq in Hts.
    destruct (srv_put (sv_b (w_srv w)) sreq _ (complete_parse linked rp id dig Hrp Hid Hvd) eq_refl Hrp Hid Hvd HI) as (tr & resp & Hh & HR).
    pose proof (put_inv (sv_b (w_srv w)) rp id dig (range_string f (f + blen data)) (blen data) data HI Hid) as HI1.
    cbn [Request.q_repo Request.q_upload Request.q_digest hq_crange hq_clen hq_body sreq] in Hh, HR.
    destruct (client_do_rel (flush_request (UDigest (wr_location wr) dig) MPut f (chunk_bytes wr) buf) 201 w sreq _ tr resp _ Hts Hh HR
                ltac:(discriminate) ltac:(auto)) as (w' & Hw' & Hck).
    unfold flush, bind. rewrite Hdne. cbn [andb negb].
    change {| rq_method := MPut; rq_url := UDigest (wr_location wr) dig;
              rq_header := [(h_content_range, Http.range_string (wr_flushed wr)
                               (w64 (wr_flushed wr + (blenZ (chunk_bytes wr) + blenZ buf))))];
              rq_body := concat_body (chunk_bytes wr) buf; rq_clen := blenZ (chunk_bytes wr) + blenZ buf |}
      with (flush_request (UDigest (wr_location wr) dig) MPut f (chunk_bytes wr) buf).
    cbn [Upload.serve]. rewrite rc_range_string.
    destruct (Upload.handle_put UB pieces1 (sv_b (w_srv w)) rp id dig (range_string f (f + blen data)) (blen data) data)
      as [b1 p] eqn:Ehp. cbn [fst snd] in *.
    destruct (Upload.check_response 201 p) as [p'|u| |] eqn:Eck; try contradiction.
    - destruct Hck as (-> & Hcd & -> & l & Hl & Hg). rewrite Hcd. unfold lift.
      rewrite (location_rel w _ p l Hl Hg). cbn [flatten]. unfold ret. rewrite Hl.
      exists w'. eexists. cbn [fst snd]. split; [reflexivity|]. rewrite Hw'. cbn [after sv_b sv_outside sv_panic].
      split; [reflexivity|]. split; [exact HI1|]. split; [reflexivity|]. split; [reflexivity|].
      eexists. split; [reflexivity|]. split; [|discriminate].
      unfold wfields. cbn [Upload.w_chunksize Upload.w_closed Upload.w_chunk Upload.w_closeerr Upload.w_size
                             Upload.w_flushed wr_chunk_size wr_closed wr_close_err wr_size wr_flushed].
      repeat split; try assumption.
      + unfold chunk_bytes. cbn [wr_chunk]. destruct (wr_chunk wr); reflexivity.
      + rewrite Hlen, w64_wrap64, wrap64_small by (pose proof (Nat2Z.is_nonneg (length data)); unfold blen, min_int64, max_int64 in *; lia). reflexivity.
    - destruct Hck as (e & Hcd & Hue). rewrite Hcd.
      exists w'. eexists. cbn [fst snd]. split; [reflexivity|]. rewrite Hw'. cbn [after sv_b sv_outside sv_panic].
      split; [reflexivity|]. split; [exact HI1|]. split; [reflexivity|]. split; [reflexivity|]. split; [reflexivity|]. exists e. split; [reflexivity | exact Hue].
  Qed.

  (* ---------------------------------------------------------- the same request on the wire *)

  (* a request of Model/Upload.v's client as ociserver reads it off the wire: method, path of the upload
     session, the digest in the query, Content-Range, Content-Length, body *)
  Definition wire_of (q : Upload.request bytes) : option Server.hreq :=
    match q with
    | Upload.QPatch (Upload.LUpload rp id) cr cl body => Some (mkhreq m_PATCH (upath rp id) [] [] cr [] cl body)
    | Upload.QPut (Upload.LUpload rp id) d cr cl body =>
        Some (mkhreq m_PUT (upath rp id) (s "digest=" ++ query_escape d) [] cr [] cl body)
    | _ => None
    end.

  (* the request of a flush of Model/Upload.v's writer *)
  Definition uflush_request (uw : Upload.bwriter bytes) (buf : bytes) (odig : option bytes) : Upload.request bytes :=
    let data := Upload.w_chunk uw ++ buf in
    let cr := RangeCodec.range_string (Upload.w_flushed uw) (Upload.w_flushed uw + blen data) in
    match odig with
    | None => Upload.QPatch (Upload.w_loc uw) cr (blen data) data
    | Some d => Upload.QPut (Upload.w_loc uw) d cr (blen data) data
    end.

  (* the request of a flush of the composed model's writer (what [Client.flush] hands to client.do) *)
  Definition cflush_request (wr : writer) (buf dig : bytes) : Http.hreq :=
    match dig with
    | [] => flush_request (wr_location wr) MPatch (wr_flushed wr) (chunk_bytes wr) buf
    | _ => flush_request (UDigest (wr_location wr) dig) MPut (wr_flushed wr) (chunk_bytes wr) buf
    end.

  (* what goes over the wire is the same in the two models: method, path, Content-Range, Content-Length, body *)
  Theorem flush_same_wire wr uw (buf dig : bytes) odig rp id :
    wfields uw wr -> Upload.w_loc uw = Upload.LUpload rp id -> lrel (Upload.LUpload rp id) (wr_location wr) ->
    (dig = [] /\ odig = None /\ chunk_bytes wr ++ buf <> [] \/ odig = Some dig /\ dig <> []) ->
    0 <= wr_flushed wr -> wr_flushed wr + blen (chunk_bytes wr ++ buf) <= max_int64 ->
    option_map Ok (wire_of (uflush_request uw buf odig)) = Some (to_server_req (cflush_request wr buf dig)).
  Proof.
    intros (_ & _ & Hch & _ & _ & Hfl) Hloc [Hint _] Hdig Hf0 Hmax. cbn [loc_str] in Hint.
    unfold uflush_request, cflush_request. rewrite Hch, Hfl, Hloc, rc_range_string.
    destruct Hdig as [(-> & -> & Hne)|[-> Hne]].
    - cbn [wire_of option_map]. f_equal. symmetry.
      exact (flush_req_wire (wr_location wr) MPatch (wr_flushed wr) (chunk_bytes wr) buf _ _ Hint Hf0 Hmax (or_intror Hne)).
    - destruct dig as [|d0 dg]; [congruence|]. cbn [wire_of option_map]. f_equal. symmetry.
      assert (Hint' : interp_url (UDigest (wr_location wr) (d0 :: dg)) = Ok (upath rp id, s "digest=" ++ query_escape (d0 :: dg)))
        by (cbn [interp_url]; now rewrite Hint).
      exact (flush_req_wire _ MPut (wr_flushed wr) (chunk_bytes wr) buf _ _ Hint' Hf0 Hmax (or_introl eq_refl)).
  Qed.

  (* ---------------------------------------------------------- Write, Close, Commit *)

  (* offsets as the writers keep them: what has been flushed plus the pending chunk is the size,
     all within int64 *)
  Definition wbound (wr : writer) : Prop :=
    0 <= wr_flushed wr /\ wr_size wr = wr_flushed wr + blen (chunk_bytes wr) /\ wr_size wr <= max_int64.

  (* the two writers are in step and point at an upload session *)
  Definition Sim (uw : Upload.bwriter bytes) (wr : writer) : Prop :=
    wrel uw wr /\ at_upload uw /\ wbound wr.

  Lemma alloc_chunk_current wr : alloc_chunk current wr = Ok (chunk_bytes wr).
  Proof.
    unfold alloc_chunk, chunk_bytes. destruct (wr_chunk wr); [reflexivity|]. cbn [b_prealloc_capped current].
    unfold max_alloc, default_chunk_size. destruct (Z.ltb_spec 281474976710656 (Z.min (wr_chunk_size wr) 65536)); [lia | reflexivity].
  Qed.

  Lemma at_upload_loc uw : at_upload uw -> exists rp id, Upload.w_loc uw = Upload.LUpload rp id.
  Proof. unfold at_upload. destruct (Upload.w_loc uw); [eauto | contradiction]. Qed.


  (* what a successful flush of Model/Upload.v's writer leaves *)
  Lemma uflush_fields (st : B) uw buf odig st1 uw1 :
    Upload.client_flush (Upload.serve UB pieces1) st uw buf odig = (st1, uw1, None) ->
    Upload.w_chunksize uw1 = Upload.w_chunksize uw /\ Upload.w_closed uw1 = Upload.w_closed uw /\
    Upload.w_closeerr uw1 = Upload.w_closeerr uw /\ Upload.w_size uw1 = Upload.w_size uw /\
    Upload.w_chunk uw1 = [] /\ Upload.w_flushed uw1 = Upload.w_flushed uw + blen (Upload.w_chunk uw ++ buf).
  Proof.
    unfold Upload.client_flush.
    assert (G : forall data q expect,
      (let '(st1', p) := Upload.serve UB pieces1 st q in
       match Upload.check_response expect p with
       | Ok p0 =>
           match Upload.p_location p0 with
           | Some l =>
               (st1', {| Upload.w_chunksize := Upload.w_chunksize uw; Upload.w_closed := Upload.w_closed uw; Upload.w_chunk := [];
                         Upload.w_closeerr := Upload.w_closeerr uw; Upload.w_size := Upload.w_size uw;
                         Upload.w_flushed := Upload.w_flushed uw + blen data; Upload.w_loc := l |}, None)
           | None => (st1', uw, Some Upload.plain_error)
           end
       | Err e => (st1', uw, Some e)
       | _ => (st1', uw, Some Upload.plain_error)
       end) = (st1, uw1, None) ->
      Upload.w_chunksize uw1 = Upload.w_chunksize uw /\ Upload.w_closed uw1 = Upload.w_closed uw /\
      Upload.w_closeerr uw1 = Upload.w_closeerr uw /\ Upload.w_size uw1 = Upload.w_size uw /\
      Upload.w_chunk uw1 = [] /\ Upload.w_flushed uw1 = Upload.w_flushed uw + blen data).
    { intros data q expect. destruct (Upload.serve UB pieces1 st q) as [st1' p].
      destruct (Upload.check_response expect p) as [p0|?| |]; try discriminate.
      destruct (Upload.p_location p0); try discriminate.
      intros E. injection E as _ <-. cbn. repeat split; reflexivity. }
    remember (Upload.w_chunk uw ++ buf) as data eqn:Ed.
    destruct odig as [d|].
    - destruct data; apply G.
    - destruct data as [|c0 d0].
      + intros E. injection E as _ <-. symmetry in Ed. apply app_eq_nil in Ed as [-> _]. cbn. repeat split; try reflexivity. lia.
      + apply G.
  Qed.

  Lemma write_bridge (w : W) wr uw buf :
    Sim uw wr -> wr_size wr + blen buf <= max_int64 -> Inv (sv_b (w_srv w)) ->
    let y := Upload.client_write (Upload.serve UB pieces1) (sv_b (w_srv w)) uw buf in
    exists w' wr' x,
      writer_write (srv B) serve env current wr buf w = (w', (wr', x)) /\ sv_b (w_srv w') = fst (fst y) /\ Inv (sv_b (w_srv w'))
      /\ sv_outside (w_srv w') = sv_outside (w_srv w) /\ sv_panic (w_srv w') = sv_panic (w_srv w)
      /\ Sim (snd (fst y)) wr'
      /\ match snd y with
         | None => x = Ok (blen buf)
         | Some u => exists e, x = Err e /\ U e = u
         end.
  Proof.
    intros ((Hfs & Hlr) & Hat & Hf0 & Hsz & Hmx) Hmax HI. cbv zeta.
    destruct (at_upload_loc uw Hat) as (rp & id & Hloc). rewrite Hloc in Hlr.
    pose proof Hfs as (Hcs & Hcl & Hch & Hce & Hsize & Hfl).
    pose proof (Nat2Z.is_nonneg (length buf)) as Hb0. fold (blen buf) in Hb0.
    pose proof (Nat2Z.is_nonneg (length (chunk_bytes wr))) as Hc0. fold (blen (chunk_bytes wr)) in Hc0.
    unfold Upload.client_write, writer_write. change blenZ with blen. rewrite Hch, Hcs, Z.gtb_ltb.
    destruct (wr_chunk_size wr <? blen (chunk_bytes wr) + blen buf) eqn:Ebig.
    - assert (Hm' : wr_flushed wr + blen (chunk_bytes wr ++ buf) <= max_int64) by (rewrite blen_app'; lia).
      pose proof (flush_bridge w wr uw buf [] (@None bytes) rp id Hfs Hloc Hlr (or_introl (conj eq_refl eq_refl)) Hf0 Hm' HI) as HF.
      cbv zeta in HF. destruct HF as (w' & x & Ef & Hb & HI' & Ho & Hp & Hres).
      rewrite Ef.
      destruct (Upload.client_flush (Upload.serve UB pieces1) (sv_b (w_srv w)) uw buf None) as [[b1 uw1] eu] eqn:Ecf.
      cbn [fst snd] in *. destruct eu as [u|].
      + destruct Hres as (-> & e & -> & Hu). do 3 eexists. split; [reflexivity|]. cbn [fst snd].
        split; [exact Hb|]. split; [exact HI'|]. split; [exact Ho|]. split; [exact Hp|]. split.
        * split; [split; [exact Hfs | rewrite Hloc; exact Hlr]|]. split; [exact Hat|]. repeat split; assumption.
        * exists e. auto.
      + destruct Hres as (wr' & -> & Hfs' & Hl'). destruct (Hl' eq_refl) as [Hlr' Hat'].
        pose proof Hfs' as (Hcs' & Hcl' & Hch' & Hce' & Hsize' & Hfl').
        destruct (uflush_fields _ _ _ _ _ _ Ecf) as (U1 & U2 & U3 & U4 & U5 & U6).
        do 3 eexists. split; [reflexivity|]. cbn [fst snd].
        split; [exact Hb|]. split; [exact HI'|]. split; [exact Ho|]. split; [exact Hp|]. split; [|reflexivity].
        assert (Hsz' : wr_size wr' = wr_size wr) by congruence.
        assert (Hw : w64 (wr_size wr' + blen buf) = wr_size wr + blen buf).
        { rewrite Hsz', w64_wrap64, wrap64_small; [reflexivity | unfold min_int64, max_int64 in *; lia]. }
        assert (Hfl2 : wr_flushed wr' = wr_flushed wr + blen (chunk_bytes wr ++ buf)) by congruence.
        assert (Hch2 : chunk_bytes wr' = []) by congruence.
        split; [split|split].
        * unfold wfields. cbn [Upload.w_chunksize Upload.w_closed Upload.w_chunk Upload.w_closeerr Upload.w_size
                               Upload.w_flushed set_size wr_chunk_size wr_closed wr_close_err wr_size wr_flushed].
          repeat split; try assumption. rewrite Hw. congruence.
        * cbn [Upload.w_loc set_size wr_location]. exact Hlr'.
        * exact Hat'.
        * unfold wbound. change (chunk_bytes (set_size wr' (w64 (wr_size wr' + blen buf)))) with (chunk_bytes wr').
          cbn [set_size wr_flushed wr_size]. rewrite Hw, Hfl2, Hch2, blen_app'. change (blen []) with 0.
          pose proof (Nat2Z.is_nonneg (length (chunk_bytes wr ++ buf))). unfold blen in *. repeat split; lia.
    - rewrite alloc_chunk_current. do 3 eexists. split; [reflexivity|]. cbn [fst snd].
      split; [reflexivity|]. split; [exact HI|]. split; [reflexivity|]. split; [reflexivity|]. split; [|reflexivity].
      assert (Hw : w64 (wr_size wr + blen buf) = wr_size wr + blen buf).
      { rewrite w64_wrap64, wrap64_small; [reflexivity | unfold min_int64, max_int64 in *; lia]. }
      split; [split|split].
      + unfold wfields. cbn [Upload.w_chunksize Upload.w_closed Upload.w_chunk Upload.w_closeerr Upload.w_size
                             Upload.w_flushed wr_chunk_size wr_closed wr_close_err wr_size wr_flushed].
        repeat split; try assumption. rewrite Hw. congruence.
      + cbn [Upload.w_loc wr_location]. rewrite Hloc. exact Hlr.
      + unfold at_upload. cbn [Upload.w_loc]. rewrite Hloc. exact I.
      + unfold wbound, chunk_bytes. cbn [wr_chunk wr_flushed wr_size]. fold (chunk_bytes wr).
        rewrite Hw, blen_app'. repeat split; lia.
  Qed.

  Lemma close_bridge (w : W) wr uw :
    Sim uw wr -> Inv (sv_b (w_srv w)) ->
    let y := Upload.client_close (Upload.serve UB pieces1) (sv_b (w_srv w)) uw in
    exists w' wr' x,
      writer_close (srv B) serve env wr w = (w', (wr', x)) /\ sv_b (w_srv w') = fst (fst y) /\ Inv (sv_b (w_srv w'))
      /\ sv_outside (w_srv w') = sv_outside (w_srv w) /\ sv_panic (w_srv w') = sv_panic (w_srv w)
      /\ Sim (snd (fst y)) wr'
      /\ match snd y with
         | None => x = Ok 0
         | Some u => exists e, x = Err e /\ U e = u
         end.
  Proof.
    intros ((Hfs & Hlr) & Hat & Hf0 & Hsz & Hmx) HI. cbv zeta.
    destruct (at_upload_loc uw Hat) as (rp & id & Hloc). rewrite Hloc in Hlr.
    pose proof Hfs as (Hcs & Hcl & Hch & Hce & Hsize & Hfl).
    pose proof (Nat2Z.is_nonneg (length (chunk_bytes wr))) as Hc0. fold (blen (chunk_bytes wr)) in Hc0.
    unfold Upload.client_close, writer_close. rewrite Hcl. destruct (wr_closed wr) eqn:Eclosed.
    - do 3 eexists. split; [reflexivity|]. cbn [fst snd].
      split; [reflexivity|]. split; [exact HI|]. split; [reflexivity|]. split; [reflexivity|]. split.
      + split; [split; [exact Hfs | rewrite Hloc; exact Hlr]|]. split; [exact Hat|]. repeat split; assumption.
      + rewrite Hce. destruct (wr_close_err wr) as [e|]; cbn [option_map]; [exists e; auto | reflexivity].
    - assert (Hm' : wr_flushed wr + blen (chunk_bytes wr ++ []) <= max_int64) by (rewrite app_nil_r; lia).
      pose proof (flush_bridge w wr uw [] [] (@None bytes) rp id Hfs Hloc Hlr (or_introl (conj eq_refl eq_refl)) Hf0 Hm' HI) as HF.
      cbv zeta in HF. destruct HF as (w' & x & Ef & Hb & HI' & Ho & Hp & Hres).
      rewrite Ef.
      destruct (Upload.client_flush (Upload.serve UB pieces1) (sv_b (w_srv w)) uw [] None) as [[b1 uw1] eu] eqn:Ecf.
      cbn [fst snd] in *. destruct eu as [u|].
      + destruct Hres as (-> & e & -> & Hu). do 3 eexists. split; [reflexivity|]. cbn [fst snd].
        split; [exact Hb|]. split; [exact HI'|]. split; [exact Ho|]. split; [exact Hp|]. split; [|exists e; auto].
        split; [split|split].
        * unfold wfields. cbn [Upload.w_chunksize Upload.w_closed Upload.w_chunk Upload.w_closeerr Upload.w_size
                               Upload.w_flushed set_closed wr_chunk_size wr_closed wr_close_err wr_size wr_flushed].
          change (chunk_bytes (set_closed wr (Some e))) with (chunk_bytes wr).
          repeat split; try assumption. cbn [option_map]. now rewrite Hu.
        * cbn [Upload.w_loc set_closed wr_location]. rewrite Hloc. exact Hlr.
        * unfold at_upload. cbn [Upload.w_loc]. rewrite Hloc. exact I.
        * unfold wbound. change (chunk_bytes (set_closed wr (Some e))) with (chunk_bytes wr).
          cbn [set_closed wr_flushed wr_size]. repeat split; assumption.
      + destruct Hres as (wr' & -> & Hfs' & Hl'). destruct (Hl' eq_refl) as [Hlr' Hat'].
        pose proof Hfs' as (Hcs' & Hcl' & Hch' & Hce' & Hsize' & Hfl').
        destruct (uflush_fields _ _ _ _ _ _ Ecf) as (U1 & U2 & U3 & U4 & U5 & U6).
        rewrite app_nil_r in U6.
        do 3 eexists. split; [reflexivity|]. cbn [fst snd].
        split; [exact Hb|]. split; [exact HI'|]. split; [exact Ho|]. split; [exact Hp|]. split; [|reflexivity].
        split; [split|split].
        * unfold wfields. cbn [Upload.w_chunksize Upload.w_closed Upload.w_chunk Upload.w_closeerr Upload.w_size
                               Upload.w_flushed set_closed wr_chunk_size wr_closed wr_close_err wr_size wr_flushed].
          change (chunk_bytes (set_closed wr' None)) with (chunk_bytes wr').
          repeat split; assumption || reflexivity.
        * cbn [Upload.w_loc set_closed wr_location]. exact Hlr'.
        * exact Hat'.
        * unfold wbound. change (chunk_bytes (set_closed wr' None)) with (chunk_bytes wr').
          cbn [set_closed wr_flushed wr_size].
          assert (Hch2 : chunk_bytes wr' = []) by congruence. rewrite Hch2. change (blen []) with 0.
          assert (wr_flushed wr' = wr_flushed wr + blen (chunk_bytes wr)) by congruence.
          assert (wr_size wr' = wr_size wr) by congruence. repeat split; lia.
  Qed.

  Lemma commit_bridge (w : W) wr uw (dig : bytes) :
    Sim uw wr -> (dig = [] \/ vdigest linked dig = true) -> Inv (sv_b (w_srv w)) ->
    let y := Upload.client_commit (Upload.serve UB pieces1) (sv_b (w_srv w)) uw dig in
    exists w' wr' x,
      writer_commit (srv B) serve env wr dig w = (w', (wr', x)) /\ sv_b (w_srv w') = fst (fst y) /\ Inv (sv_b (w_srv w'))
      /\ sv_outside (w_srv w') = sv_outside (w_srv w) /\ sv_panic (w_srv w') = sv_panic (w_srv w)
      /\ wfields (snd (fst y)) wr'
      /\ match snd y with
         | Ok de => x = Ok de
         | Err u => exists e, x = Err e /\ U e = u
         | _ => False
         end.
  Proof.
    intros ((Hfs & Hlr) & Hat & Hf0 & Hsz & Hmx) Hd HI. cbv zeta.
    destruct (at_upload_loc uw Hat) as (rp & id & Hloc). rewrite Hloc in Hlr.
    pose proof (Nat2Z.is_nonneg (length (chunk_bytes wr))) as Hc0. fold (blen (chunk_bytes wr)) in Hc0.
    unfold Upload.client_commit, writer_commit. destruct Hd as [->|Hvd].
    - cbn [is_empty]. do 3 eexists. split; [reflexivity|]. cbn [fst snd].
      split; [reflexivity|]. split; [exact HI|]. split; [reflexivity|]. split; [reflexivity|]. split; [exact Hfs|]. eexists. split; reflexivity.
    - assert (Hdne : is_empty dig = false) by (now apply vdigest_nonempty in Hvd). rewrite Hdne.
      assert (Hm : forall A (a b : A), match dig with [] => a | _ :: _ => b end = b)
        by (intros; destruct dig; [discriminate Hdne | reflexivity]).
      rewrite Hm. clear Hm.
      assert (Hm' : wr_flushed wr + blen (chunk_bytes wr ++ []) <= max_int64) by (rewrite app_nil_r; lia).
      pose proof (flush_bridge w wr uw [] dig (@Some bytes dig) rp id Hfs Hloc Hlr (or_intror (conj eq_refl Hvd)) Hf0 Hm' HI) as HF.
      cbv zeta in HF. destruct HF as (w' & x & Ef & Hb & HI' & Ho & Hp & Hres).
      rewrite Ef.
      destruct (Upload.client_flush (Upload.serve UB pieces1) (sv_b (w_srv w)) uw [] (Some dig)) as [[b1 uw1] eu] eqn:Ecf.
      cbn [fst snd] in *. destruct eu as [u|].
      + destruct Hres as (-> & e & -> & Hu). do 3 eexists. split; [reflexivity|]. cbn [fst snd].
        split; [exact Hb|]. split; [exact HI'|]. split; [exact Ho|]. split; [exact Hp|]. split; [exact Hfs|].
        eexists. split; [reflexivity | exact Hu].
      + destruct Hres as (wr' & -> & Hfs' & _). do 3 eexists. split; [reflexivity|]. cbn [fst snd].
        split; [exact Hb|]. split; [exact HI'|]. split; [exact Ho|]. split; [exact Hp|]. split; [exact Hfs'|].
        destruct Hfs' as (_ & _ & _ & _ & Hsize' & _). rewrite Hsize'. reflexivity.
  Qed.

  (* ---------------------------------------------------------- PushBlobChunked *)

  Lemma start_codec repo : vrepo repo = true ->
    codec_at linked (req_of (start_upload_rreq repo)) (mkreq Request.ReqBlobStartUpload repo [] [] [] [] 0 []).
  Proof.
    intros Hr. unfold start_upload_rreq.
    change (mkreq Request.ReqBlobStartUpload repo [] [] [] [] 0 [])
      with (norm (req_of (mk_rreq Http.ReqBlobStartUpload repo [] []))).
    apply codec_of_wf. unfold wf_request.
    cbn [Request.q_kind req_of kind_of mk_rreq Http.q_kind Http.q_repo Http.q_digest Http.q_tag Http.q_from
         Http.q_upload Http.q_n Http.q_last Request.q_repo Request.q_digest Request.q_tag Request.q_from].
    rewrite Hr. reflexivity.
  Qed.

  Lemma status_got (w : W) rq resp : Http.status (got B w rq resp) = Server.p_status resp.
  Proof. unfold Http.status, got. cbn [hr_rs]. apply rs_status_of_server_resp. Qed.

  Lemma rheader_got (w : W) rq p k : rheader k (got B w rq (hresp_of p)) = Http.hget k (hdrs_of p).
  Proof. unfold rheader, got. cbn [hr_rs]. now rewrite rs_header_of_server_resp. Qed.

  (* chunkSizeFromResponse in both models *)
  Lemma chunk_size_rel (w : W) rq p cs :
    chunk_size_from_response (got B w rq (hresp_of p)) cs = Upload.chunk_size_from_response p cs.
  Proof.
    unfold chunk_size_from_response, Upload.chunk_size_from_response. rewrite rheader_got, hdrs_minchunk.
    unfold atoi. rewrite <- rc_parse_int64. destruct (RangeCodec.parse_int (Upload.p_minchunk p)) as [m|]; [|reflexivity].
    now rewrite Z.gtb_ltb.
  Qed.

  Definition fresh_sim (uw : Upload.bwriter bytes) (wr : writer) : Prop :=
    wrel uw wr /\ at_upload uw /\ wr_size wr = wr_flushed wr /\ chunk_bytes wr = [].

  Lemma fresh_sim_Sim uw wr : fresh_sim uw wr -> 0 <= wr_flushed wr <= max_int64 -> Sim uw wr.
  Proof.
    intros (Hr & Ha & Hs & Hc) Hb. split; [exact Hr|]. split; [exact Ha|]. unfold wbound. rewrite Hc, Hs.
    change (blen []) with 0. repeat split; lia.
  Qed.

  Lemma start_bridge (w : W) repo hint :
    vrepo repo = true -> Inv (sv_b (w_srv w)) ->
    let y := Upload.client_start (Upload.serve UB pieces1) (sv_b (w_srv w)) repo hint in
    exists w' x,
      push_blob_chunked (srv B) serve env repo hint w = (w', x) /\ sv_b (w_srv w') = fst y /\ Inv (sv_b (w_srv w'))
      /\ sv_outside (w_srv w') = sv_outside (w_srv w) /\ sv_panic (w_srv w') = sv_panic (w_srv w)
      /\ match snd y with
         | Ok uw => exists wr, x = Ok wr /\ fresh_sim uw wr /\ wr_flushed wr = 0
         | Err u => exists e, x = Err e /\ U e = u
         | _ => False
         end.
  Proof.
    intros Hr HI. cbv zeta.
    pose proof (start_codec repo Hr) as Hc.
    pose proof (codec_construct_ok _ _ _ Hc) as HC. destruct Hc as (p0 & rawq & Hu & Hp).
    rewrite construct_method in Hp.
    destruct (srv_start (sv_b (w_srv w)) (plain_req MPost p0 rawq) _ Hp eq_refl Hr HI) as (tr & resp & Hh & HR).
    pose proof (start_inv (sv_b (w_srv w)) repo HI) as HI1.
    cbn [Request.q_repo] in Hh, HR.
    destruct (client_do_rel (request_of (start_upload_rreq repo)) 202 w _ _ tr resp _
                (to_server_req_of (start_upload_rreq repo) p0 rawq Hu) Hh HR ltac:(discriminate) ltac:(auto))
      as (w' & Hw' & Hck).
    unfold push_blob_chunked, bind, do_request, bind, new_request. cbn [e_construct_ok stack_env].
    unfold Stack.construct_ok. rewrite HC. unfold ret.
    change {| rq_method := kind_method (Http.q_kind (start_upload_rreq repo)); rq_url := UReq (start_upload_rreq repo);
              rq_header := []; rq_body := BNil; rq_clen := 0 |} with (request_of (start_upload_rreq repo)).
    unfold Upload.client_start. cbn [Upload.serve].
    destruct (Upload.handle_start UB (sv_b (w_srv w)) repo) as [b1 p] eqn:Ehs. cbn [fst snd] in *.
    destruct (Upload.check_response 202 p) as [p'|u| |] eqn:Eck; try contradiction.
    - destruct Hck as (-> & Hcd & -> & l & Hl & Hg).
      cbn [Http.q_kind start_upload_rreq mk_rreq]. rewrite Hcd.
      rewrite status_got. cbn [Server.p_status hresp_of].
      assert (Hst : Upload.p_status p = 202).
      { unfold Upload.check_response in Eck. destruct (Z.eqb_spec (Upload.p_status p) 202); [assumption|].
        destruct (negb (Upload.is_ok_status (Upload.p_status p))); discriminate. }
      rewrite Hst. change (Client.is_ok_status 202) with true. cbn iota. unfold lift.
      rewrite (location_rel w _ p l Hl Hg). cbn [rbind]. rewrite Hl.
      exists w'. eexists. split; [reflexivity|]. rewrite Hw'. cbn [after sv_b sv_outside sv_panic].
      split; [reflexivity|]. split; [exact HI1|]. split; [reflexivity|]. split; [reflexivity|].
      eexists. split; [reflexivity|].
      assert (Hpl : Upload.p_location (snd (Upload.handle_start UB (sv_b (w_srv w)) repo)) = Some l) by (rewrite Ehs; exact Hl).
      destruct (start_loc _ _ _ Hpl) as (id' & ->). destruct Hg as [Hr' Hid'].
      split; [|reflexivity]. split; [split|split; [exact I | split; reflexivity]].
      + unfold wfields. cbn. repeat split; try reflexivity. symmetry. apply chunk_size_rel.
      + cbn [Upload.w_loc wr_location]. apply lrel_ref; assumption.
    - destruct Hck as (e & Hcd & Hue). cbn [Http.q_kind start_upload_rreq mk_rreq]. rewrite Hcd.
      exists w'. eexists. split; [reflexivity|]. rewrite Hw'. cbn [after sv_b sv_outside sv_panic].
      split; [reflexivity|]. split; [exact HI1|]. split; [reflexivity|]. split; [reflexivity|]. exists e. split; [reflexivity | exact Hue].
  Qed.

  (* ---------------------------------------------------------- PushBlobChunkedResume *)

  (* GET <location>: the upload status *)
  Lemma info_parse repo id : vrepo repo = true -> good_upload_id id ->
    parse_req linked m_GET (upath repo id) [] = Ok (mkreq Request.ReqBlobUploadInfo repo [] [] [] id 0 []).
  Proof.
    intros Hr [Hne Hu]. unfold upath. rewrite (upload_path_assoc repo (b64u_encode id)). change (s "/v2/") with v2.
    rewrite (parse_upload linked m_GET repo id [] [] Hr Hne Hu eq_refl). cbv zeta. lit_beqb. reflexivity.
  Qed.

  Lemma upath_nonempty rp id : is_empty (upath rp id) = false.
  Proof. reflexivity. Qed.

  Lemma upath_url_ok rp id : vrepo rp = true -> good_upload_id id -> url_ok (upath rp id) = true.
  Proof. intros Hr Hid. unfold url_ok. now rewrite (upath_parse rp id Hr Hid). Qed.

  Lemma upath_url_rooted rp id : vrepo rp = true -> good_upload_id id -> url_rooted (upath rp id) = true.
  Proof. intros Hr Hid. unfold url_rooted. rewrite (upath_parse rp id Hr Hid). reflexivity. Qed.

  Lemma lrel_id rp id : vrepo rp = true -> good_upload_id id -> lrel (Upload.LUpload rp id) (UId (upath rp id)).
  Proof. intros Hr Hid. split; [|split; assumption]. cbn [interp_url loc_str]. apply (upath_parse rp id Hr Hid). Qed.

  (* the ID a client resumes with is the writer's location: the path of the upload session *)
  Lemma resume_bridge (w : W) repo rp id offset hint :
    vrepo rp = true -> good_upload_id id -> Inv (sv_b (w_srv w)) ->
    let y := Upload.client_resume (Upload.serve UB pieces1) (sv_b (w_srv w)) repo (Upload.LUpload rp id) offset hint in
    exists w' x,
      push_blob_chunked_resume (srv B) serve env repo (upath rp id) offset hint w = (w', x) /\ sv_b (w_srv w') = fst y /\ Inv (sv_b (w_srv w'))
      /\ sv_outside (w_srv w') = sv_outside (w_srv w) /\ sv_panic (w_srv w') = sv_panic (w_srv w)
      /\ match snd y with
         | Ok uw => exists wr, x = Ok wr /\ fresh_sim uw wr /\ (offset <> -1 -> wr_flushed wr = offset /\ w' = w)
         | Err u => exists e, x = Err e /\ U e = u
         | _ => False
         end.
  Proof.
    intros Hr Hid HI. cbv zeta. unfold push_blob_chunked_resume, Upload.client_resume.
    rewrite upath_nonempty. cbn [e_url_ok e_url_rooted stack_env].
    rewrite (upath_url_ok rp id Hr Hid), (upath_url_rooted rp id Hr Hid). cbn [negb].
    destruct (Z.eqb_spec offset (-1)) as [->|Hne].
    - (* ask the registry *)
      set (rq := {| rq_method := MGet; rq_url := UId (upath rp id); rq_header := []; rq_body := BNil; rq_clen := 0 |}).
      assert (Hts : to_server_req rq = Ok (plain_req MGet (upath rp id) [])).
      { unfold to_server_req, rq. cbn [rq_url interp_url]. rewrite (upath_parse rp id Hr Hid). reflexivity. }
      destruct (srv_info (sv_b (w_srv w)) (plain_req MGet (upath rp id) []) _ (info_parse rp id Hr Hid) eq_refl Hr Hid HI)
        as (tr & resp & Hh & HR).
      pose proof (info_inv (sv_b (w_srv w)) rp id HI Hid) as HI1.
      cbn [Request.q_repo Request.q_upload] in Hh, HR.
      destruct (client_do_rel rq 204 w _ _ tr resp _ Hts Hh HR ltac:(discriminate) ltac:(auto)) as (w' & Hw' & Hck).
      cbn [Upload.serve].
      destruct (Upload.handle_info UB (sv_b (w_srv w)) rp id) as [b1 p] eqn:Ehs. cbn [fst snd] in *.
      destruct (Upload.check_response 204 p) as [p'|u| |] eqn:Eck; try contradiction.
      + destruct Hck as (-> & Hcd & -> & l & Hl & Hg). rewrite Hcd.
        rewrite (location_rel w _ p l Hl Hg). cbn [flatten rbind]. rewrite Hl.
        rewrite rheader_got, hdrs_range, http_parse_range, <- rc_parse_range.
        exists w'. eexists. split; [reflexivity|]. rewrite Hw'. cbn [after sv_b sv_outside sv_panic].
        split; [reflexivity|]. split; [exact HI1|]. split; [reflexivity|]. split; [reflexivity|].
        destruct (RangeCodec.parse_range (Upload.p_range p)) as [[q0 q1]|].
        * destruct (q0 =? 0); cbn [negb].
          -- eexists. split; [reflexivity|].
             assert (Hpl : Upload.p_location (snd (Upload.handle_info UB (sv_b (w_srv w)) rp id)) = Some l) by (rewrite Ehs; exact Hl).
             destruct (info_loc _ _ _ _ Hpl) as (id' & ->). destruct Hg as [Hr' Hid'].
             split; [|intros X; congruence]. split; [split|split; [exact I | split; reflexivity]].
             ++ unfold wfields. cbn. repeat split; try reflexivity. symmetry. apply chunk_size_rel.
             ++ cbn [Upload.w_loc wr_location]. apply lrel_ref; assumption.
          -- eexists. split; reflexivity.
        * eexists. split; reflexivity.
      + destruct Hck as (e & Hcd & Hue). rewrite Hcd.
        exists w'. eexists. split; [reflexivity|]. rewrite Hw'. cbn [after sv_b sv_outside sv_panic].
        split; [reflexivity|]. split; [exact HI1|]. split; [reflexivity|]. split; [reflexivity|]. eexists. split; [reflexivity | exact Hue].
    - destruct (offset <? 0).
      + unfold fail. exists w. eexists. cbn [fst snd]. split; [reflexivity|]. split; [reflexivity|]. split; [exact HI|]. split; [reflexivity|]. split; [reflexivity|]. eexists. split; reflexivity.
      + unfold ret. exists w. eexists. cbn [fst snd]. split; [reflexivity|]. split; [reflexivity|]. split; [exact HI|]. split; [reflexivity|]. split; [reflexivity|].
        eexists. split; [reflexivity|]. split; [|intros _; split; reflexivity].
        split; [split|split; [exact I | split; reflexivity]].
        * unfold wfields. cbn. repeat split; reflexivity.
        * cbn [Upload.w_loc wr_location]. apply lrel_id; assumption.
  Qed.

  (* ================================================================ 5. scripts *)

  (* ---------------------------------------------------------- how much an upload can have received *)

  (* [Bound b K]: no upload of b has received more than K bytes.  Needed for one thing only: the
     offsets the two clients keep must stay within int64 for their arithmetic to agree, and a resume by
     asking the registry starts at what the registry reports. *)
  Variable Bound : B -> Z -> Prop.

  Record Sized : Prop := {
    sb_mono : forall b K K', Bound b K -> K <= K' -> Bound b K';
    sb_size : forall b w K, Bound b K -> Live b w -> 0 <= Upload.ub_size UB b w <= K;
    sb_start : forall b r h K, Bound b K -> 0 <= K -> Bound (fst (Upload.ub_start UB b r h)) K;
    sb_resume : forall b r id off h K, Bound b K -> 0 <= K -> Bound (fst (Upload.ub_resume UB b r id off h)) K;
    sb_write : forall b w d K, Bound b K -> Bound (fst (fst (Upload.ub_write UB b w d))) (K + blen d);
    sb_write_err : forall b w d K e, Bound b K -> snd (Upload.ub_write UB b w d) = Some e ->
                                     Bound (fst (fst (Upload.ub_write UB b w d))) K;
    sb_close : forall b w K, Bound b K -> Bound (fst (fst (Upload.ub_close UB b w))) K;
    sb_close_ok : forall b w, Live b w -> snd (Upload.ub_close UB b w) = None;
    sb_commit : forall b w dg K, Bound b K -> Bound (fst (fst (Upload.ub_commit UB b w dg))) K
  }.

  Hypothesis SZ : Sized.

  Lemma start_bound b rp K : Bound b K -> 0 <= K -> Bound (fst (Upload.handle_start UB b rp)) K.
  Proof.
    intros HB HK. unfold Upload.handle_start. pose proof (sb_start SZ b rp 0 K HB HK) as H1.
    destruct (Upload.ub_start UB b rp 0) as [b1 [w|?| |]]; cbn [fst] in *; try exact H1.
    pose proof (sb_close SZ b1 w K H1) as H2. destruct (Upload.ub_close UB b1 w) as [[b2 w2] e2]. exact H2.
  Qed.

  Lemma info_bound b rp id K : Bound b K -> 0 <= K -> Bound (fst (Upload.handle_info UB b rp id)) K.
  Proof.
    intros HB HK. unfold Upload.handle_info. pose proof (sb_resume SZ b rp id (-1) 0 K HB HK) as H1.
    destruct (Upload.ub_resume UB b rp id (-1) 0) as [b1 [w|?| |]]; cbn [fst] in *; try exact H1.
    pose proof (sb_close SZ b1 w K H1) as H2. destruct (Upload.ub_close UB b1 w) as [[b2 w2] e2]. exact H2.
  Qed.

  (* what a status answer reports is within the bound *)
  Lemma info_reports b rp id K l : Inv b -> good_upload_id id -> Bound b K -> 0 <= K ->
    Upload.p_location (snd (Upload.handle_info UB b rp id)) = Some l ->
    exists n, 0 <= n <= K /\ Upload.p_range (snd (Upload.handle_info UB b rp id)) = RangeCodec.range_string 0 n.
  Proof.
    intros HI Hid HB HK. unfold Upload.handle_info.
    pose proof (sb_resume SZ b rp id (-1) 0 K HB HK) as H1.
    destruct (Upload.ub_resume UB b rp id (-1) 0) as [b1 [w|?| |]] eqn:Es; cbn [fst snd Upload.p_location Upload.error_response] in *;
      try discriminate.
    pose proof (ag_live_resume AG _ _ _ _ _ _ _ HI Hid Es) as L1.
    destruct (Upload.ub_close UB b1 w) as [[b2 w2] e2]. cbn [snd Upload.p_range Upload.upload_response]. intros _.
    exists (Upload.ub_size UB b1 w). split; [exact (sb_size SZ b1 w K H1 L1) | reflexivity].
  Qed.

  (* a chunk: the upload grows by the body when the answer is the 202, not at all otherwise *)
  Lemma patch_bound b rp id cr cl body K : Inv b -> good_upload_id id -> Bound b K -> 0 <= K ->
    let y := Upload.handle_patch UB pieces1 b rp id cr cl body in
    Bound (fst y) (K + blen body) /\ (Upload.p_location (snd y) = None -> Bound (fst y) K).
  Proof.
    intros HI Hid HB HK. cbv zeta. pose proof (Nat2Z.is_nonneg (length body)) as Hb0. fold (blen body) in Hb0.
    assert (Hup : forall b', Bound b' K -> Bound b' (K + blen body)) by (intros b' H'; apply (sb_mono SZ b' K); [exact H' | lia]).
    unfold Upload.handle_patch.
    destruct (Upload.chunk_range_of cr cl) as [[a b0]|?| |]; cbn [fst snd]; try (split; [now apply Hup | intros _; exact HB]).
    pose proof (sb_resume SZ b rp id a (RangeCodec.wrap64 (b0 - a)) K HB HK) as H1.
    destruct (Upload.ub_resume UB b rp id a (RangeCodec.wrap64 (b0 - a))) as [b1 [w|?| |]] eqn:Es; cbn [fst snd] in *;
      try (split; [now apply Hup | intros _; exact H1]).
    pose proof (ag_live_resume AG _ _ _ _ _ _ _ HI Hid Es) as L1.
    unfold Upload.copy_body, pieces1. destruct body as [|c0 body'].
    - cbn [Upload.copy_pieces]. pose proof (sb_close SZ b1 w K H1) as H3. pose proof (sb_close_ok SZ b1 w L1) as Hok.
      destruct (Upload.ub_close UB b1 w) as [[b3 w3] e3]. cbn [fst snd] in *. subst e3. cbn [fst snd].
      split; [now apply Hup | discriminate].
    - cbn [Upload.copy_pieces]. set (body := c0 :: body') in *.
      pose proof (sb_write SZ b1 w body K H1) as H2. pose proof (sb_write_err SZ b1 w body K) as H2e.
      pose proof (ag_live_write AG b1 w body L1) as L2. destruct (ag_write AG b1 w body L1) as (x & _ & Hw & _).
      destruct (Upload.ub_write UB b1 w body) as [[b2 w2] [e|]]; cbn [fst snd] in *; subst w2.
      + specialize (H2e e H1 eq_refl). pose proof (sb_close SZ b2 w K H2e) as H3.
        destruct (Upload.ub_close UB b2 w) as [[b3 w3] e3]. cbn [fst snd]. split; [now apply Hup | intros _; exact H3].
      + cbn [Upload.copy_pieces]. pose proof (sb_close SZ b2 w _ H2) as H3. pose proof (sb_close_ok SZ b2 w L2) as Hok.
        destruct (Upload.ub_close UB b2 w) as [[b3 w3] e3]. cbn [fst snd] in *. subst e3. cbn [fst snd].
        split; [exact H3 | discriminate].
  Qed.

  Lemma patch_status st rp id cr cl body l :
    Upload.p_location (snd (Upload.handle_patch UB pieces1 st rp id cr cl body)) = Some l ->
    Upload.p_status (snd (Upload.handle_patch UB pieces1 st rp id cr cl body)) = 202.
  Proof.
    unfold Upload.handle_patch. destruct (Upload.chunk_range_of cr cl) as [[a b]|?| |]; cbn [snd Upload.p_location Upload.error_response]; try discriminate.
    destruct (Upload.ub_resume UB st rp id a (RangeCodec.wrap64 (b - a))) as [st1 [w|?| |]]; cbn [snd Upload.p_location Upload.error_response]; try discriminate.
    destruct (Upload.copy_body UB pieces1 st1 w body) as [[st2 w2] [e|]].
    - destruct (Upload.ub_close UB st2 w2) as [[st3 w3] e3]. cbn [snd Upload.p_location Upload.error_response]. discriminate.
    - destruct (Upload.ub_close UB st2 w2) as [[st3 w3] [e3|]]; cbn [snd Upload.p_location Upload.error_response Upload.upload_response]; try discriminate.
      reflexivity.
  Qed.

  Notation usrv := (Upload.serve UB pieces1).

  (* a flush without digest: the upload grows by what was sent when it succeeds, not at all when it fails *)
  Lemma uflush_bound st uw buf rp id K : Inv st -> Upload.w_loc uw = Upload.LUpload rp id -> good_upload_id id ->
    Bound st K -> 0 <= K ->
    let y := Upload.client_flush usrv st uw buf None in
    match snd y with
    | None => Bound (fst (fst y)) (K + blen (Upload.w_chunk uw ++ buf))
    | Some _ => Bound (fst (fst y)) K
    end.
  Proof.
    intros HI Hloc Hid HB HK. cbv zeta. unfold Upload.client_flush. rewrite Hloc.
    destruct (Upload.w_chunk uw ++ buf) as [|c0 d0] eqn:Ed.
    { cbn [fst snd]. change (blen []) with 0. now rewrite Z.add_0_r. }
    rewrite <- Ed. set (data := Upload.w_chunk uw ++ buf). cbn [Upload.serve].
    pose proof (patch_bound st rp id (RangeCodec.range_string (Upload.w_flushed uw) (Upload.w_flushed uw + blen data))
                  (blen data) data K HI Hid HB HK) as HP. cbv zeta in HP. destruct HP as [HA HN].
    pose proof (patch_status st rp id (RangeCodec.range_string (Upload.w_flushed uw) (Upload.w_flushed uw + blen data))
                  (blen data) data) as HS.
    destruct (Upload.handle_patch UB pieces1 st rp id _ (blen data) data) as [st1 p]. cbn [fst snd] in *.
    unfold Upload.check_response. destruct (Upload.p_location p) as [l|] eqn:El.
    - rewrite (HS l eq_refl). cbn [Z.eqb Pos.eqb]. rewrite El. cbn [fst snd]. exact HA.
    - specialize (HN eq_refl). destruct (Upload.p_status p =? 202); [rewrite El; exact HN|].
      destruct (negb (Upload.is_ok_status (Upload.p_status p))); exact HN.
  Qed.

  (* ---------------------------------------------------------- what the operations of Model/Upload.v's client do to the bound *)


  Lemma uflush_err_same (st : B) uw buf odig st1 uw1 e :
    Upload.client_flush usrv st uw buf odig = (st1, uw1, Some e) -> uw1 = uw.
  Proof.
    unfold Upload.client_flush.
    assert (G : forall q expect (k : Upload.loc bytes -> Upload.bwriter bytes),
      (let '(st1', p) := usrv st q in
       match Upload.check_response expect p with
       | Ok p0 => match Upload.p_location p0 with
                  | Some l => (st1', k l, None)
                  | None => (st1', uw, Some Upload.plain_error)
                  end
       | Err e0 => (st1', uw, Some e0)
       | _ => (st1', uw, Some Upload.plain_error)
       end) = (st1, uw1, Some e) -> uw1 = uw).
    { intros q expect k. destruct (usrv st q) as [st' p].
      destruct (Upload.check_response expect p) as [p0|?| |]; try (intros E; injection E; congruence).
      destruct (Upload.p_location p0); intros E; injection E; congruence. }
    destruct odig as [d|]; destruct (Upload.w_chunk uw ++ buf); try discriminate; apply G.
  Qed.

  Lemma uwrite_facts st uw buf rp id K : Inv st -> Upload.w_loc uw = Upload.LUpload rp id -> good_upload_id id ->
    Bound st K -> 0 <= K ->
    let y := Upload.client_write usrv st uw buf in
    exists K', Bound (fst (fst y)) K' /\ K <= K' /\
      K' + blen (Upload.w_chunk (snd (fst y))) <= K + blen (Upload.w_chunk uw) + blen buf /\
      Upload.w_size (snd (fst y)) <= Upload.w_size uw + blen buf.
  Proof.
    intros HI Hloc Hid HB HK. cbv zeta. unfold Upload.client_write.
    pose proof (Nat2Z.is_nonneg (length buf)) as Hb0. fold (blen buf) in Hb0.
    pose proof (Nat2Z.is_nonneg (length (Upload.w_chunk uw))) as Hc0. fold (blen (Upload.w_chunk uw)) in Hc0.
    destruct (blen (Upload.w_chunk uw) + blen buf >? Upload.w_chunksize uw).
    - pose proof (uflush_bound st uw buf rp id K HI Hloc Hid HB HK) as HF. cbv zeta in HF.
      destruct (Upload.client_flush usrv st uw buf None) as [[st1 uw1] [e|]] eqn:Ef; cbn [fst snd] in *.
      + rewrite (uflush_err_same _ _ _ _ _ _ _ Ef). exists K. repeat split; try assumption; lia.
      + destruct (uflush_fields _ _ _ _ _ _ Ef) as (_ & _ & _ & U4 & U5 & _).
        rewrite blen_app' in HF.
        exists (K + (blen (Upload.w_chunk uw) + blen buf)). cbn [Upload.w_chunk Upload.w_size]. rewrite U4, U5.
        change (blen []) with 0. repeat split; try assumption; lia.
    - cbn [fst snd Upload.w_chunk Upload.w_size]. exists K. rewrite blen_app'. repeat split; try assumption; lia.
  Qed.

  Lemma uclose_facts st uw rp id K : Inv st -> Upload.w_loc uw = Upload.LUpload rp id -> good_upload_id id ->
    Bound st K -> 0 <= K ->
    let y := Upload.client_close usrv st uw in
    exists K', Bound (fst (fst y)) K' /\ K <= K' /\
      K' + blen (Upload.w_chunk (snd (fst y))) <= K + blen (Upload.w_chunk uw) /\
      Upload.w_size (snd (fst y)) <= Upload.w_size uw.
  Proof.
    intros HI Hloc Hid HB HK. cbv zeta. unfold Upload.client_close.
    pose proof (Nat2Z.is_nonneg (length (Upload.w_chunk uw))) as Hc0. fold (blen (Upload.w_chunk uw)) in Hc0.
    destruct (Upload.w_closed uw).
    - cbn [fst snd]. exists K. repeat split; try assumption; lia.
    - pose proof (uflush_bound st uw [] rp id K HI Hloc Hid HB HK) as HF. cbv zeta in HF.
      destruct (Upload.client_flush usrv st uw [] None) as [[st1 uw1] [e|]] eqn:Ef; cbn [fst snd Upload.w_chunk Upload.w_size] in *.
      + rewrite (uflush_err_same _ _ _ _ _ _ _ Ef). exists K. repeat split; try assumption; lia.
      + destruct (uflush_fields _ _ _ _ _ _ Ef) as (_ & _ & _ & U4 & U5 & _). rewrite app_nil_r in HF.
        exists (K + blen (Upload.w_chunk uw)). rewrite U5, U4. change (blen []) with 0. repeat split; try assumption; lia.
  Qed.

  Lemma status_parse n : 0 <= n <= RangeCodec.MAX64 ->
    exists p1, RangeCodec.parse_range (RangeCodec.range_string 0 n) = Some (0, p1) /\ 0 <= p1 <= n.
  Proof.
    intros Hn. destruct (Z.eq_dec n 1) as [->|Hne].
    - exists 0. split; [apply Proofs.RangeCodec.status_range_one | lia].
    - exists n. split; [now apply Proofs.RangeCodec.status_range_roundtrip | lia].
  Qed.

  Lemma uresume_facts st rp id off hint K r0 : Inv st -> good_upload_id id -> Bound st K -> 0 <= K -> K <= max_int64 ->
    let y := Upload.client_resume usrv st r0 (Upload.LUpload rp id) off hint in
    Bound (fst y) K /\
    forall uw', snd y = Ok uw' ->
      Upload.w_chunk uw' = [] /\ Upload.w_flushed uw' = Upload.w_size uw' /\ 0 <= Upload.w_size uw' /\
      (off = -1 -> Upload.w_size uw' <= K) /\ (off <> -1 -> Upload.w_size uw' = off).
  Proof.
    intros HI Hid HB HK HKm. cbv zeta. unfold Upload.client_resume. destruct (Z.eqb_spec off (-1)) as [->|Hne].
    - cbn [Upload.serve]. pose proof (info_bound st rp id K HB HK) as H1.
      pose proof (info_reports st rp id K) as HR.
      destruct (Upload.handle_info UB st rp id) as [st1 p]. cbn [fst snd] in *. split; [exact H1|].
      intros uw'. unfold Upload.check_response. destruct (Upload.p_status p =? 204); cbn [rbind].
      + destruct (Upload.p_location p) as [l|] eqn:El; [|discriminate].
        destruct (HR l HI Hid HB HK eq_refl) as (n & Hn & ->).
        destruct (status_parse n) as (p1 & -> & Hp1); [unfold RangeCodec.MAX64, max_int64 in *; lia|].
        cbn [Z.eqb negb]. intros E. injection E as <-. cbn. repeat split; try reflexivity; try lia; try (intros X; congruence).
      + destruct (negb (Upload.is_ok_status (Upload.p_status p))); discriminate.
    - destruct (Z.ltb_spec off 0); cbn [fst snd]; (split; [exact HB|]); intros uw'; [discriminate|].
      intros E. injection E as <-. cbn. repeat split; try reflexivity; try lia; try (intros X; congruence).
  Qed.

  Lemma ustart_facts st r hint K : Bound st K -> 0 <= K ->
    let y := Upload.client_start usrv st r hint in
    Bound (fst y) K /\ forall uw', snd y = Ok uw' -> Upload.w_chunk uw' = [] /\ Upload.w_size uw' = 0.
  Proof.
    intros HB HK. cbv zeta. unfold Upload.client_start. cbn [Upload.serve].
    pose proof (start_bound st r K HB HK) as H1. destruct (Upload.handle_start UB st r) as [st1 p]. cbn [fst snd] in *.
    split; [exact H1|]. intros uw'. destruct (Upload.check_response 202 p) as [p0|?| |]; cbn [rbind]; try discriminate.
    destruct (Upload.p_location p0); [|discriminate]. intros E. injection E as <-. split; reflexivity.
  Qed.

  (* ---------------------------------------------------------- the two script runners *)

  Variable repo : bytes.
  Hypothesis repo_ok : vrepo repo = true.

  (* Model/Upload.v: client over server over the backend *)
  Notation hop := (Upload.client_backend usrv).

  Definition cres_err (e : gerr) : Upload.ures := Upload.UErr (Upload.ue_code (U e)) (Upload.ue_status (U e)).

  Definition cnew (cur : option writer) (x : W * R gerr writer) : W * option writer * Upload.ures :=
    match x with
    | (w', Ok wr) => (w', Some wr, Upload.UOk 0)
    | (w', Err e) => (w', cur, cres_err e)
    | (w', _) => (w', cur, Upload.UBroken)
    end.

  (* the same script step on the composed model: the methods of Model/Client.v over [serve_stack];
     the ID a resume passes is what BlobWriter.ID returns (Model/Stack.v [url_string]) *)
  Definition cstep (w : W) (cur : option writer) (op : Upload.uop) : W * option writer * Upload.ures :=
    match op, cur with
    | Upload.UStart hint, _ => cnew cur (push_blob_chunked (srv B) serve env repo hint w)
    | Upload.UResume m hint, Some wr =>
        let off := match m with Upload.MSize => wr_size wr | Upload.MInfo => -1 | Upload.MAt z => z end in
        match url_string (wr_location wr) with
        | Ok id => cnew cur (push_blob_chunked_resume (srv B) serve env repo id off hint w)
        | _ => (w, cur, Upload.UBroken)
        end
    | Upload.UWrite data, Some wr =>
        let '(w', (wr', x)) := writer_write (srv B) serve env current wr data w in
        (w', Some wr', match x with Ok n => Upload.UOk n | Err e => cres_err e | _ => Upload.UBroken end)
    | Upload.UClose, Some wr =>
        let '(w', (wr', x)) := writer_close (srv B) serve env wr w in
        (w', Some wr', match x with Ok _ => Upload.UOk 0 | Err e => cres_err e | _ => Upload.UBroken end)
    | Upload.UCommit d, Some wr =>
        let '(w', (wr', x)) := writer_commit (srv B) serve env wr d w in
        (w', Some wr', match x with Ok de => Upload.UOk (d_size de) | Err e => cres_err e | _ => Upload.UBroken end)
    | _, None => (w, None, Upload.UBroken)
    end.

  Definition cobserve (cur : option writer) (r : Upload.ures) : Upload.uobs :=
    match cur with
    | Some wr => {| Upload.uo_res := r; Upload.uo_size := wr_size wr; Upload.uo_chunk := wr_chunk_size wr |}
    | None => {| Upload.uo_res := r; Upload.uo_size := 0; Upload.uo_chunk := 0 |}
    end.

  Fixpoint crun (w : W) (cur : option writer) (ops : list Upload.uop) : W * option writer * list Upload.uobs :=
    match ops with
    | [] => (w, cur, [])
    | op :: ops' =>
        let '(w1, cur1, r) := cstep w cur op in
        let '(w2, cur2, obs) := crun w1 cur1 ops' in
        (w2, cur2, cobserve cur1 r :: obs)
    end.

  (* ---------------------------------------------------------- the simulation relation *)

  (* R = the weight (Model/UploadSpec.v) of what the script still has to do *)
  Definition Rel (st : B) (cur : option (Upload.bwriter bytes)) (w : W) (ccur : option writer) (K R : Z) : Prop :=
    sv_b (w_srv w) = st /\ Inv st /\ Bound st K /\ 0 <= K /\ 0 <= R /\
    match cur, ccur with
    | None, None => K + R <= max_int64
    | Some uw, Some wr => Sim uw wr /\ K + blen (Upload.w_chunk uw) + R <= max_int64 /\ Upload.w_size uw + R <= max_int64
    | _, _ => False
    end.

  Definition is_commit (op : Upload.uop) : bool := match op with Upload.UCommit _ => true | _ => false end.

  Lemma ures_of_U e : Upload.ures_of_err (U e) = cres_err e.
  Proof. reflexivity. Qed.

  Lemma url_string_upload u rp id : lrel (Upload.LUpload rp id) u -> url_string u = Ok (upath rp id).
  Proof.
    intros [Hi [Hr Hid]]. unfold url_string. rewrite Hi. cbn [loc_str]. rewrite app_nil_r. f_equal.
    apply path_escape_safe. unfold upath. rewrite forallb_app. rewrite (upath_safe rp id Hr Hid). reflexivity.
  Qed.

  Lemma obs_eq st uw wr r : wfields uw wr -> cobserve (Some wr) r = Upload.observe hop st (Some uw) r.
  Proof. intros (Hcs & _ & _ & _ & Hsz & _). unfold cobserve, Upload.observe. cbn. now rewrite Hcs, Hsz. Qed.

  Lemma Sim_fields uw wr : Sim uw wr -> wfields uw wr.
  Proof. intros [[H _] _]. exact H. Qed.

  Lemma Sim_loc uw wr : Sim uw wr -> exists rp id, Upload.w_loc uw = Upload.LUpload rp id /\ lrel (Upload.LUpload rp id) (wr_location wr).
  Proof. intros [[_ Hl] [Hat _]]. destruct (at_upload_loc uw Hat) as (rp & id & E). rewrite E in Hl. eauto. Qed.

  (* one step of a script that is not a Commit *)
  Lemma step_sim st cur w ccur K R op :
    Rel st cur w ccur K (UploadSpec.weight [op] + R) -> 0 <= R -> is_commit op = false ->
    let '(st', cur', r) := Upload.script_step hop repo st cur op in
    let '(w', ccur', cr) := cstep w ccur op in
    cr = r /\ cobserve ccur' cr = Upload.observe hop st' cur' r /\
    sv_outside (w_srv w') = sv_outside (w_srv w) /\ sv_panic (w_srv w') = sv_panic (w_srv w) /\
    exists K', Rel st' cur' w' ccur' K' R.
  Proof.
    intros (Hst & HI & HB & HK & HR0 & Hcur) HR Hnc. subst st.
    destruct op as [hint|m hint|d| |dg]; try discriminate Hnc; cbn [UploadSpec.weight] in *.
    - (* Start *)
      cbn [Upload.script_step cstep Upload.ub_start Upload.client_backend].
      pose proof (start_bridge w repo hint repo_ok HI) as HBr. cbv zeta in HBr.
      destruct HBr as (w' & x & Ex & Hb' & HI' & Ho & Hp & Hres).
      pose proof (ustart_facts (sv_b (w_srv w)) repo hint K HB HK) as HF. cbv zeta in HF. destruct HF as [HB' Hnew].
      rewrite Ex. destruct (Upload.client_start usrv (sv_b (w_srv w)) repo hint) as [st1 y] eqn:Es. cbn [fst snd] in *.
      assert (HKR : K + R <= max_int64 /\ R <= max_int64).
      { destruct cur as [uw|], ccur as [wr|]; try contradiction.
        - destruct Hcur as (_ & H1 & _). pose proof (Nat2Z.is_nonneg (length (Upload.w_chunk uw))). unfold blen in *. lia.
        - lia. }
      subst st1. destruct y as [uw'|u| |]; try contradiction.
      + destruct Hres as (wr' & -> & Hfs & Hfl). destruct (Hnew uw' eq_refl) as [Hch Hsz].
        cbn [Upload.new_writer cnew]. split; [reflexivity|]. split; [apply obs_eq, (proj1 (proj1 Hfs))|]. split; [exact Ho|]. split; [exact Hp|].
        exists K. split; [reflexivity|]. split; [exact HI'|]. split; [exact HB'|]. split; [exact HK|]. split; [exact HR|].
        split; [apply fresh_sim_Sim; [exact Hfs | rewrite Hfl; unfold max_int64; lia]|].
        rewrite Hch, Hsz. change (blen []) with 0. lia.
      + destruct Hres as (e & -> & <-). cbn [Upload.new_writer cnew].
        split; [reflexivity|]. split.
        { destruct cur as [uw|], ccur as [wr|]; try contradiction; [apply obs_eq, Sim_fields, Hcur | reflexivity]. }
        split; [exact Ho|]. split; [exact Hp|].
        exists K. split; [reflexivity|]. split; [exact HI'|]. split; [exact HB'|]. split; [exact HK|]. split; [exact HR|].
        destruct cur as [uw|], ccur as [wr|]; try contradiction; [|lia].
        destruct Hcur as (HS & H1 & H2). split; [exact HS|]. lia.
    - (* Resume *)
      destruct cur as [uw|], ccur as [wr|]; try contradiction.
      2:{ cbn [Upload.script_step cstep]. split; [reflexivity|]. split; [reflexivity|]. split; [reflexivity|]. split; [reflexivity|].
          exists K. repeat split; try assumption. destruct m; lia. }
      destruct Hcur as (HS & H1 & H2). pose proof (Sim_fields _ _ HS) as Hwf.
      destruct (Sim_loc _ _ HS) as (rp & id & Hloc & Hlr). pose proof Hlr as (_ & Hrp & Hid).
      pose proof Hwf as (Hcs & _ & _ & _ & Hsz & _).
      pose proof (Nat2Z.is_nonneg (length (Upload.w_chunk uw))) as Hc0. fold (blen (Upload.w_chunk uw)) in Hc0.
      assert (Hsz0 : 0 <= Upload.w_size uw).
      { destruct HS as (_ & _ & Hf0 & Hs & _). rewrite Hsz, Hs. pose proof (Nat2Z.is_nonneg (length (chunk_bytes wr))). unfold blen. lia. }
      cbn [Upload.script_step cstep Upload.ub_resume Upload.ub_id Upload.ub_size Upload.client_backend].
      rewrite (url_string_upload _ _ _ Hlr), Hloc.
      set (off := match m with Upload.MSize => Upload.w_size uw | Upload.MInfo => -1 | Upload.MAt z => z end).
      assert (Eoff : match m with Upload.MSize => wr_size wr | Upload.MInfo => -1 | Upload.MAt z => z end = off)
        by (unfold off; destruct m; congruence).
      rewrite Eoff.
      pose proof (resume_bridge w repo rp id off hint Hrp Hid HI) as HBr. cbv zeta in HBr.
      destruct HBr as (w' & x & Ex & Hb' & HI' & Ho & Hp & Hres).
      assert (HKm : K <= max_int64) by (destruct m; lia).
      pose proof (uresume_facts (sv_b (w_srv w)) rp id off hint K repo HI Hid HB HK HKm) as HF. cbv zeta in HF. destruct HF as [HB' Hnew].
      rewrite Ex. destruct (Upload.client_resume usrv (sv_b (w_srv w)) repo (Upload.LUpload rp id) off hint) as [st1 y] eqn:Es.
      cbn [fst snd] in *. subst st1. destruct y as [uw'|u| |]; try contradiction.
      + destruct Hres as (wr' & -> & Hfs & Hfl). destruct (Hnew uw' eq_refl) as (Hch & Hfe & Hs0 & Hinfo & Hat).
        pose proof (proj1 (proj1 Hfs)) as Hwf'. pose proof Hwf' as (_ & _ & _ & _ & Hsz' & Hfl').
        cbn [Upload.new_writer cnew]. split; [reflexivity|]. split; [apply obs_eq, Hwf'|]. split; [exact Ho|]. split; [exact Hp|].
        assert (Hsb : Upload.w_size uw' + R <= max_int64).
        { destruct (Z.eq_dec off (-1)) as [E|E]; [specialize (Hinfo E); destruct m; lia|].
          rewrite (Hat E). unfold off. destruct m; lia. }
        exists K. split; [reflexivity|]. split; [exact HI'|]. split; [exact HB'|]. split; [exact HK|]. split; [exact HR|].
        split; [apply fresh_sim_Sim; [exact Hfs | rewrite <- Hfl', Hfe; lia]|].
        rewrite Hch. change (blen []) with 0. split; [destruct m; lia | exact Hsb].
      + destruct Hres as (e & -> & <-). cbn [Upload.new_writer cnew].
        split; [reflexivity|]. split; [apply obs_eq, Hwf|]. split; [exact Ho|]. split; [exact Hp|].
        exists K. split; [reflexivity|]. split; [exact HI'|]. split; [exact HB'|]. split; [exact HK|]. split; [exact HR|].
        split; [exact HS|]. destruct m; lia.
    - (* Write *)
      destruct cur as [uw|], ccur as [wr|]; try contradiction.
      2:{ cbn [Upload.script_step cstep]. split; [reflexivity|]. split; [reflexivity|]. split; [reflexivity|]. split; [reflexivity|].
          pose proof (Nat2Z.is_nonneg (length d)). unfold blen in *. exists K. repeat split; try assumption. lia. }
      destruct Hcur as (HS & H1 & H2). pose proof (Sim_fields _ _ HS) as Hwf.
      destruct (Sim_loc _ _ HS) as (rp & id & Hloc & Hlr). pose proof Hlr as (_ & Hrp & Hid).
      pose proof Hwf as (Hcs & _ & _ & _ & Hsz & _).
      pose proof (Nat2Z.is_nonneg (length d)) as Hd0. fold (blen d) in Hd0.
      cbn [Upload.script_step cstep Upload.ub_write Upload.client_backend].
      assert (Hfit : wr_size wr + blen d <= max_int64) by (rewrite <- Hsz; lia).
      pose proof (write_bridge w wr uw d HS Hfit HI) as HBr. cbv zeta in HBr.
      destruct HBr as (w' & wr' & x & Ex & Hb' & HI' & Ho & Hp & HS' & Hres).
      pose proof (uwrite_facts (sv_b (w_srv w)) uw d rp id K HI Hloc Hid HB HK) as HF. cbv zeta in HF.
      destruct HF as (K' & HB' & HKK & Hk1 & Hk2).
      rewrite Ex. destruct (Upload.client_write usrv (sv_b (w_srv w)) uw d) as [[st1 uw1] ew] eqn:Ew.
      cbn [fst snd] in *. subst st1.
      assert (HRel : Rel (sv_b (w_srv w')) (Some uw1) w' (Some wr') K' R).
      { split; [reflexivity|]. split; [exact HI'|]. split; [exact HB'|]. split; [lia|]. split; [exact HR|].
        split; [exact HS'|]. lia. }
      destruct ew as [u|].
      + destruct Hres as (e & -> & <-). split; [reflexivity|]. split; [apply obs_eq, (Sim_fields _ _ HS')|].
        split; [exact Ho|]. split; [exact Hp|]. exists K'. exact HRel.
      + subst x. split; [reflexivity|]. split; [apply obs_eq, (Sim_fields _ _ HS')|].
        split; [exact Ho|]. split; [exact Hp|]. exists K'. exact HRel.
    - (* Close *)
      destruct cur as [uw|], ccur as [wr|]; try contradiction.
      2:{ cbn [Upload.script_step cstep]. split; [reflexivity|]. split; [reflexivity|]. split; [reflexivity|]. split; [reflexivity|].
          exists K. repeat split; try assumption; try lia. }
      destruct Hcur as (HS & H1 & H2). pose proof (Sim_fields _ _ HS) as Hwf.
      destruct (Sim_loc _ _ HS) as (rp & id & Hloc & Hlr). pose proof Hlr as (_ & Hrp & Hid).
      cbn [Upload.script_step cstep Upload.ub_close Upload.client_backend].
      pose proof (close_bridge w wr uw HS HI) as HBr. cbv zeta in HBr.
      destruct HBr as (w' & wr' & x & Ex & Hb' & HI' & Ho & Hp & HS' & Hres).
      pose proof (uclose_facts (sv_b (w_srv w)) uw rp id K HI Hloc Hid HB HK) as HF. cbv zeta in HF.
      destruct HF as (K' & HB' & HKK & Hk1 & Hk2).
      rewrite Ex. destruct (Upload.client_close usrv (sv_b (w_srv w)) uw) as [[st1 uw1] ew] eqn:Ew.
      cbn [fst snd] in *. subst st1.
      assert (HRel : Rel (sv_b (w_srv w')) (Some uw1) w' (Some wr') K' R).
      { split; [reflexivity|]. split; [exact HI'|]. split; [exact HB'|]. split; [lia|]. split; [exact HR|].
        split; [exact HS'|]. lia. }
      destruct ew as [u|].
      + destruct Hres as (e & -> & <-). split; [reflexivity|]. split; [apply obs_eq, (Sim_fields _ _ HS')|].
        split; [exact Ho|]. split; [exact Hp|]. exists K'. exact HRel.
      + subst x. split; [reflexivity|]. split; [apply obs_eq, (Sim_fields _ _ HS')|].
        split; [exact Ho|]. split; [exact Hp|]. exists K'. exact HRel.
  Qed.

  (* the closing Commit *)
  Lemma commit_sim st cur w ccur K R dg :
    Rel st cur w ccur K R -> (dg = [] \/ vdigest linked dg = true) ->
    let '(st', cur', r) := Upload.script_step hop repo st cur (Upload.UCommit dg) in
    let '(w', ccur', cr) := cstep w ccur (Upload.UCommit dg) in
    cr = r /\ cobserve ccur' cr = Upload.observe hop st' cur' r /\ sv_b (w_srv w') = st' /\
    sv_outside (w_srv w') = sv_outside (w_srv w) /\ sv_panic (w_srv w') = sv_panic (w_srv w).
  Proof.
    intros (Hst & HI & HB & HK & HR0 & Hcur) Hd. subst st.
    destruct cur as [uw|], ccur as [wr|]; try contradiction.
    2:{ cbn [Upload.script_step cstep]. repeat split; reflexivity. }
    destruct Hcur as (HS & _ & _).
    cbn [Upload.script_step cstep Upload.ub_commit Upload.client_backend].
    pose proof (commit_bridge w wr uw dg HS Hd HI) as HBr. cbv zeta in HBr.
    destruct HBr as (w' & wr' & x & Ex & Hb' & HI' & Ho & Hp & Hwf' & Hres).
    rewrite Ex. destruct (Upload.client_commit usrv (sv_b (w_srv w)) uw dg) as [[st1 uw1] y] eqn:Ec.
    cbn [fst snd] in *. subst st1. destruct y as [de|u| |]; try contradiction.
    - subst x. split; [reflexivity|]. split; [apply obs_eq, Hwf'|]. repeat split; assumption.
    - destruct Hres as (e & -> & <-). split; [reflexivity|]. split; [apply obs_eq, Hwf'|]. repeat split; assumption.
  Qed.

  (* ---------------------------------------------------------- whole scripts *)

  (* the scripts covered: a Commit only as the last operation, with the empty string or a well-formed digest *)
  Fixpoint script_ok (ops : list Upload.uop) : Prop :=
    match ops with
    | [] => True
    | [Upload.UCommit d] => d = [] \/ vdigest linked d = true
    | op :: ops' => is_commit op = false /\ script_ok ops'
    end.

  Lemma weight_cons' op ops : UploadSpec.weight (op :: ops) = UploadSpec.weight [op] + UploadSpec.weight ops.
  Proof. destruct op as [h|m h|d| |d]; cbn [UploadSpec.weight]; try lia. destruct m; lia. Qed.

  Lemma weight_nonneg' ops : 0 <= UploadSpec.weight ops.
  Proof.
    induction ops as [|op ops IH]; [cbn; lia|]. rewrite weight_cons'.
    destruct op as [h|m h|d| |d]; cbn [UploadSpec.weight]; try lia.
    - destruct m; lia.
    - pose proof (Nat2Z.is_nonneg (length d)). unfold blen. lia.
  Qed.

  (* THE SIMULATION.  For every script whose weight fits the budget of the relation: the composed model
     answers every operation as Model/Upload.v's one-hop stack does (result, Size, ChunkSize after each
     step) and leaves the backend in the same state. *)
  Theorem script_sim : forall ops st cur w ccur K,
    script_ok ops -> Rel st cur w ccur K (UploadSpec.weight ops) ->
    let '(st', cur', obs) := Upload.run_script hop repo st cur ops in
    let '(w', ccur', cobs) := crun w ccur ops in
    cobs = obs /\ sv_b (w_srv w') = st' /\
    sv_outside (w_srv w') = sv_outside (w_srv w) /\ sv_panic (w_srv w') = sv_panic (w_srv w).
  Proof.
    induction ops as [|op ops IH]; intros st cur w ccur K Hok HRel.
    - cbn [Upload.run_script crun]. destruct HRel as (Hst & _). repeat split; try reflexivity. exact Hst.
    - assert (Hcase : (exists d, op = Upload.UCommit d /\ ops = [] /\ (d = [] \/ vdigest linked d = true))
                      \/ (is_commit op = false /\ script_ok ops)).
      { destruct op as [h|m h|d| |d]; try (right; destruct ops; exact Hok).
        destruct ops as [|op' ops']; [left; eauto | right; exact Hok]. }
      destruct Hcase as [(d & -> & -> & Hd)|[Hnc Hok']].
      + cbn [Upload.run_script crun]. pose proof (commit_sim st cur w ccur K _ d HRel Hd) as HC.
        destruct (Upload.script_step hop repo st cur (Upload.UCommit d)) as [[st1 cur1] r].
        destruct (cstep w ccur (Upload.UCommit d)) as [[w1 ccur1] cr].
        destruct HC as (-> & Hobs & Hb & Ho & Hp). rewrite Hobs. repeat split; assumption.
      + rewrite weight_cons' in HRel. cbn [Upload.run_script crun].
        pose proof (step_sim st cur w ccur K (UploadSpec.weight ops) op HRel (weight_nonneg' ops) Hnc) as HS.
        destruct (Upload.script_step hop repo st cur op) as [[st1 cur1] r].
        destruct (cstep w ccur op) as [[w1 ccur1] cr].
        destruct HS as (-> & Hobs & Ho & Hp & K' & HRel').
        specialize (IH st1 cur1 w1 ccur1 K' Hok' HRel').
        destruct (Upload.run_script hop repo st1 cur1 ops) as [[st2 cur2] obs].
        destruct (crun w1 ccur1 ops) as [[w2 ccur2] cobs].
        destruct IH as (-> & Hb & Ho2 & Hp2). rewrite Hobs. repeat split; try assumption; congruence.
  Qed.
End Bridge.

(* ================================================================ 3b. the same backend calls *)

(* Both models with their backend instrumented: the five calls that act on the backend (PushBlobChunked,
   PushBlobChunkedResume, Write, Close, Commit) are recorded, with their arguments, in the state.  The
   instrumented pair agrees when the plain pair does, so every theorem above also says: the records are
   equal, i.e. the two models make the same backend calls in the same order.  (Size / ChunkSize / ID are
   observers in Model/Upload.v's vocabulary and are not recorded.) *)
Section Recorder.
  Variable linked : alg -> bool.
  Variable enc : jval -> bytes.
  Variable B : Type.
  Variable bstep : backend B.
  Variable UB : Upload.ubackend B wid bytes.
  Variable Live : B -> wid -> Prop.
  Variable Inv : B -> Prop.
  Variable Bound : B -> Z -> Prop.

  Definition eff (c : op) : bool :=
    match c with
    | PushBlobChunked _ _ | PushBlobChunkedResume _ _ _ _ | WWrite _ _ | WClose _ | WCommit _ _ => true
    | _ => false
    end.

  Definition rec_bstep : backend (B * list op) :=
    fun bl c => let '(b', r) := bstep (fst bl) c in ((b', if eff c then snd bl ++ [c] else snd bl), r).

  Definition rec_ub : Upload.ubackend (B * list op) wid bytes :=
    {| Upload.ub_start := fun bl r h =>
         let '(b', x) := Upload.ub_start UB (fst bl) r h in ((b', snd bl ++ [PushBlobChunked r h]), x);
       Upload.ub_resume := fun bl r id off h =>
         let '(b', x) := Upload.ub_resume UB (fst bl) r id off h in ((b', snd bl ++ [PushBlobChunkedResume r id off h]), x);
       Upload.ub_write := fun bl w d =>
         let '(b', w', x) := Upload.ub_write UB (fst bl) w d in ((b', snd bl ++ [WWrite w d]), w', x);
       Upload.ub_close := fun bl w =>
         let '(b', w', x) := Upload.ub_close UB (fst bl) w in ((b', snd bl ++ [WClose w]), w', x);
       Upload.ub_commit := fun bl w dg =>
         let '(b', w', x) := Upload.ub_commit UB (fst bl) w dg in ((b', snd bl ++ [WCommit w dg]), w', x);
       Upload.ub_size := fun bl w => Upload.ub_size UB (fst bl) w;
       Upload.ub_chunk := fun bl w => Upload.ub_chunk UB (fst bl) w;
       Upload.ub_id := fun bl w => Upload.ub_id UB (fst bl) w |}.

  Definition LiveR (bl : B * list op) (w : wid) : Prop := Live (fst bl) w.
  Definition InvR (bl : B * list op) : Prop := Inv (fst bl).
  Definition BoundR (bl : B * list op) (K : Z) : Prop := Bound (fst bl) K.

  Theorem agrees_rec : Agrees linked enc B bstep UB Live Inv ->
    Agrees linked enc (B * list op) rec_bstep rec_ub LiveR InvR.
  Proof.
    intros AG. constructor; unfold LiveR, InvR, rec_bstep.
    - intros [b l] r h. cbn [fst snd Upload.ub_start rec_ub]. destruct (ag_start _ _ _ _ _ _ _ AG b r h) as (x & E & R).
      rewrite E. destruct (Upload.ub_start UB b r h) as [b' y]. exists x. split; [reflexivity | exact R].
    - intros [b l] r id off h. cbn [fst snd Upload.ub_resume rec_ub].
      destruct (ag_resume _ _ _ _ _ _ _ AG b r id off h) as (x & E & R).
      rewrite E. destruct (Upload.ub_resume UB b r id off h) as [b' y]. exists x. split; [reflexivity | exact R].
    - intros [b l] w d L. cbn [fst snd Upload.ub_write rec_ub] in *. destruct (ag_write _ _ _ _ _ _ _ AG b w d L) as (x & E & Hw & R).
      rewrite E. destruct (Upload.ub_write UB b w d) as [[b' w'] y]. exists x. split; [reflexivity|]. split; [exact Hw | exact R].
    - intros [b l] w L. cbn [fst snd Upload.ub_close rec_ub] in *. destruct (ag_close _ _ _ _ _ _ _ AG b w L) as (x & E & Hw & R).
      rewrite E. destruct (Upload.ub_close UB b w) as [[b' w'] y]. exists x. split; [reflexivity|]. split; [exact Hw | exact R].
    - intros [b l] w dg L Hd. cbn [fst snd Upload.ub_commit rec_ub] in *.
      destruct (ag_commit _ _ _ _ _ _ _ AG b w dg L Hd) as (x & E & Hw & R).
      rewrite E. destruct (Upload.ub_commit UB b w dg) as [[b' w'] y]. exists x. split; [reflexivity|]. split; [exact Hw | exact R].
    - intros [b l] w L. cbn [fst snd Upload.ub_size rec_ub eff] in *. now rewrite (ag_size _ _ _ _ _ _ _ AG b w L).
    - intros [b l] w L. cbn [fst snd Upload.ub_chunk rec_ub eff] in *. now rewrite (ag_chunk _ _ _ _ _ _ _ AG b w L).
    - intros [b l] w L. cbn [fst snd Upload.ub_id rec_ub eff] in *. now rewrite (ag_id _ _ _ _ _ _ _ AG b w L).
    - intros [b l] w L. exact (ag_id_good _ _ _ _ _ _ _ AG b w L).
    - intros [b l] r h [b1 l1] w HI. cbn [fst snd Upload.ub_start rec_ub] in *.
      destruct (Upload.ub_start UB b r h) as [b' y] eqn:E. intros X. injection X as <- _ ->.
      exact (ag_live_start _ _ _ _ _ _ _ AG b r h _ _ HI E).
    - intros [b l] r id off h [b1 l1] w HI Hid. cbn [fst snd Upload.ub_resume rec_ub] in *.
      destruct (Upload.ub_resume UB b r id off h) as [b' y] eqn:E. intros X. injection X as <- _ ->.
      exact (ag_live_resume _ _ _ _ _ _ _ AG b r id off h _ _ HI Hid E).
    - intros [b l] w d L. cbn [fst snd Upload.ub_write rec_ub] in *. pose proof (ag_live_write _ _ _ _ _ _ _ AG b w d L) as H.
      destruct (Upload.ub_write UB b w d) as [[b' w'] y]. exact H.
    - intros [b l] w L. cbn [fst snd Upload.ub_close rec_ub] in *. pose proof (ag_live_close _ _ _ _ _ _ _ AG b w L) as H.
      destruct (Upload.ub_close UB b w) as [[b' w'] y]. exact H.
    - intros [b l] w dg L. cbn [fst snd Upload.ub_commit rec_ub] in *. pose proof (ag_live_commit _ _ _ _ _ _ _ AG b w dg L) as H.
      destruct (Upload.ub_commit UB b w dg) as [[b' w'] y]. exact H.
    - intros [b l] r h HI. cbn [fst snd Upload.ub_start rec_ub] in *. pose proof (ag_inv_start _ _ _ _ _ _ _ AG b r h HI) as H.
      destruct (Upload.ub_start UB b r h) as [b' y]. exact H.
    - intros [b l] r id off h HI Hid. cbn [fst snd Upload.ub_resume rec_ub] in *.
      pose proof (ag_inv_resume _ _ _ _ _ _ _ AG b r id off h HI Hid) as H.
      destruct (Upload.ub_resume UB b r id off h) as [b' y]. exact H.
    - intros [b l] w d HI. cbn [fst snd Upload.ub_write rec_ub] in *. pose proof (ag_inv_write _ _ _ _ _ _ _ AG b w d HI) as H.
      destruct (Upload.ub_write UB b w d) as [[b' w'] y]. exact H.
    - intros [b l] w HI. cbn [fst snd Upload.ub_close rec_ub] in *. pose proof (ag_inv_close _ _ _ _ _ _ _ AG b w HI) as H.
      destruct (Upload.ub_close UB b w) as [[b' w'] y]. exact H.
    - intros [b l] w dg HI. cbn [fst snd Upload.ub_commit rec_ub] in *. pose proof (ag_inv_commit _ _ _ _ _ _ _ AG b w dg HI) as H.
      destruct (Upload.ub_commit UB b w dg) as [[b' w'] y]. exact H.
  Qed.

  Theorem sized_rec : Sized B UB Live Bound -> Sized (B * list op) rec_ub LiveR BoundR.
  Proof.
    intros SZ. constructor; unfold LiveR, BoundR.
    - intros [b l] K K'. exact (sb_mono _ _ _ _ SZ b K K').
    - intros [b l] w K. exact (sb_size _ _ _ _ SZ b w K).
    - intros [b l] r h K HB HK. cbn [fst snd Upload.ub_start rec_ub] in *. pose proof (sb_start _ _ _ _ SZ b r h K HB HK) as H.
      destruct (Upload.ub_start UB b r h) as [b' y]. exact H.
    - intros [b l] r id off h K HB HK. cbn [fst snd Upload.ub_resume rec_ub] in *.
      pose proof (sb_resume _ _ _ _ SZ b r id off h K HB HK) as H. destruct (Upload.ub_resume UB b r id off h) as [b' y]. exact H.
    - intros [b l] w d K HB. cbn [fst snd Upload.ub_write rec_ub] in *. pose proof (sb_write _ _ _ _ SZ b w d K HB) as H.
      destruct (Upload.ub_write UB b w d) as [[b' w'] y]. exact H.
    - intros [b l] w d K e HB. cbn [fst snd Upload.ub_write rec_ub] in *. pose proof (sb_write_err _ _ _ _ SZ b w d K e HB) as H.
      destruct (Upload.ub_write UB b w d) as [[b' w'] y]. exact H.
    - intros [b l] w K HB. cbn [fst snd Upload.ub_close rec_ub] in *. pose proof (sb_close _ _ _ _ SZ b w K HB) as H.
      destruct (Upload.ub_close UB b w) as [[b' w'] y]. exact H.
    - intros [b l] w L. cbn [fst snd Upload.ub_close rec_ub] in *. pose proof (sb_close_ok _ _ _ _ SZ b w L) as H.
      destruct (Upload.ub_close UB b w) as [[b' w'] y]. exact H.
    - intros [b l] w dg K HB. cbn [fst snd Upload.ub_commit rec_ub] in *. pose proof (sb_commit _ _ _ _ SZ b w dg K HB) as H.
      destruct (Upload.ub_commit UB b w dg) as [[b' w'] y]. exact H.
  Qed.
End Recorder.

(* ================================================================ 4. the in-memory registry *)

Module MemBridge.
Import Model.Mem.

Section MemInstance.
  Variable hash : bytes -> bytes.
  Variables vd vr vt : bytes -> bool.
  Variable di : bytes -> option image_manifest.
  Variable dx : bytes -> option index_manifest.
  Variable cfg : config.
  Variable linked : alg -> bool.
  Variable enc : jval -> bytes.

  Notation MB := (UploadMem.mem_backend hash vd vr vt di dx cfg).
  Notation mst := (Mem.step hash vd vr vt di dx cfg).

  (* ocimem behind ociserver: Model/Mem.v in the vocabulary of Model/Server.v *)
  Definition mem_bstep : backend state := backend_of_registry mst.

  Definition std_coded (e : err) : Prop := match e_code e with ECustom _ => False | _ => True end.

  Lemma U_gerr_of_err e : std_coded e -> U (gerr_of_err e) = UploadMem.uerr_of e.
  Proof. destruct e as [c t]. destruct c; cbn; intros H; try contradiction; reflexivity. Qed.

  Definition e_range : err := E RANGE_INVALID (s "invalid offset in resumed upload").
  Definition e_digest : err := E DIGEST_INVALID (s "digest mismatch").
  Definition mem_errs : list err := [e_name_invalid; e_range; e_digest].

  (* the three errors ocimem answers an upload call with can be served and read back *)
  Hypothesis errs_ok : forall e, In e mem_errs -> okerr enc (gerr_of_err e).

  Definition okE (e : err) : Prop := std_coded e /\ okerr enc (gerr_of_err e).
  Definition err_ok (oe : option err) : Prop := match oe with None => True | Some e => okE e end.

  Lemma okE_mem e : In e mem_errs -> okE e.
  Proof.
    intros Hin. split; [|now apply errs_ok].
    destruct Hin as [<-|[<-|[<-|[]]]]; exact I.
  Qed.

  Definition bufs_ok (st : state) : Prop :=
    forall i b, nth_error (bufs st) i = Some b -> good_upload_id (u_id b) /\ err_ok (u_err b).

  Definition m_inv (st : state) : Prop := MemInv.Inv hash di dx st /\ bufs_ok st.

  Definition m_live (st : state) (w : wid) : Prop :=
    exists b, nth_error (bufs st) (N.to_nat w) = Some b /\ good_upload_id (u_id b) /\ err_ok (u_err b).

  (* ---------------------------------------------------------- upload IDs ocimem makes up *)

  Lemma dec_digits_ascii f : forall n acc, forallb (fun c => c <? 128)%N acc = true ->
    forallb (fun c => c <? 128)%N (dec_digits f n acc) = true.
  Proof.
    induction f as [|f IH]; intros n acc Ha; [exact Ha|]. cbn [dec_digits]. cbv zeta.
    assert (Hd : forallb (fun c => c <? 128)%N ((48 + n mod 10)%N :: acc) = true).
    { cbn [forallb]. rewrite Ha, andb_true_r. apply N.ltb_lt.
      pose proof (N.mod_upper_bound n 10 ltac:(discriminate)). lia. }
    destruct (n / 10 =? 0)%N; [exact Hd | now apply IH].
  Qed.

  Lemma ascii_utf8 a : forallb (fun c => c <? 128)%N a = true -> utf8_valid a = true.
  Proof.
    induction a as [|c a IH]; [reflexivity|]. cbn [forallb]. intros H. apply andb_true_iff in H as [Hc Ha].
    cbn [utf8_valid]. rewrite Hc. now apply IH.
  Qed.

  Lemma fresh_id_good n : good_upload_id (fresh_id n).
  Proof.
    split; [discriminate|]. apply ascii_utf8. unfold fresh_id. cbn [forallb].
    change (35 <? 128)%N with true. cbn [andb]. now apply dec_digits_ascii.
  Qed.

  (* ---------------------------------------------------------- what the upload calls compute *)

  Definition set_check (off : Z) (b : buffer) : buffer :=
    {| u_repo := u_repo b; u_id := u_id b; u_buf := u_buf b; u_check := off;
       u_committed := u_committed b; u_desc := u_desc b; u_err := u_err b |}.

  (* PushBlobChunked (id = "", off = 0) and PushBlobChunkedResume *)
  Definition chunked (st : state) (r id : bytes) (off : Z) : state * result :=
    match make_repo vr st r with
    | None => (st, Err e_name_invalid)
    | Some st1 =>
        match get_repo st1 r with
        | None => (st1, Err e_name_invalid)
        | Some rp =>
            match alookup id (uploads rp) with
            | Some i => (with_buf st1 (N.to_nat i) (set_check off), Ok (RWriter i))
            | None =>
                let id' := match id with [] => fresh_id (next_id st1) | _ => id end in
                let i := N.of_nat (length (bufs st1)) in
                ({| repos := aset r (rp_set_upload id' i rp) (repos st1);
                    bufs := bufs st1 ++ [new_buffer r id' off];
                    next_id := match id with [] => N.succ (next_id st1) | _ => next_id st1 end |},
                 Ok (RWriter i))
            end
        end
    end.

  Lemma start_eq st r h : mst st (PushBlobChunked r h) = chunked st r [] 0.
  Proof. reflexivity. Qed.
  Lemma resume_eq st r id off h : mst st (PushBlobChunkedResume r id off h) = chunked st r id off.
  Proof. reflexivity. Qed.

  Lemma bufs_ok_with_buf st i f : bufs_ok st ->
    (forall b, u_id (f b) = u_id b /\ (err_ok (u_err b) -> err_ok (u_err (f b)))) -> bufs_ok (with_buf st i f).
  Proof.
    intros Hb Hf j b Hn. unfold with_buf in Hn. cbn [bufs] in Hn. rewrite MemBasics.nth_error_upd_nth in Hn.
    destruct (Nat.eqb j i).
    - destruct (nth_error (bufs st) j) as [b0|] eqn:E; [|discriminate]. injection Hn as <-.
      destruct (Hb _ _ E) as [Hg He]. destruct (Hf b0) as [Hi Hx]. rewrite Hi. auto.
    - exact (Hb _ _ Hn).
  Qed.

  Lemma live_with_buf st w f : m_live st w ->
    (forall b, u_id (f b) = u_id b /\ (err_ok (u_err b) -> err_ok (u_err (f b)))) -> m_live (with_buf st (N.to_nat w) f) w.
  Proof.
    intros (b & Hn & Hg & He) Hf. exists (f b). unfold with_buf. cbn [bufs].
    rewrite MemBasics.nth_error_upd_nth, Nat.eqb_refl, Hn. destruct (Hf b) as [Hi Hx]. rewrite Hi. auto.
  Qed.

  (* the writer a successful chunked call returns is live, the buffers stay well-formed *)
  Lemma chunked_cases st r id off : m_inv st -> (id = [] \/ good_upload_id id) ->
    let y := chunked st r id off in
    m_inv (fst y) /\ (snd y = Err e_name_invalid \/ exists i, snd y = Ok (RWriter i) /\ m_live (fst y) i).
  Proof.
    intros [HI Hb] Hid. cbv zeta.
    assert (HI' : MemInv.Inv hash di dx (fst (chunked st r id off))).
    { rewrite <- (resume_eq st r id off 0). apply MemInv.inv_step, HI. }
    unfold chunked in *. destruct (make_repo vr st r) as [st1|] eqn:Em.
    2:{ split; [split; assumption | left; reflexivity]. }
    pose proof (MemBasics.make_repo_some _ _ _ _ Em) as (_ & _ & Hbufs & _ & _).
    pose proof (MemInv.inv_make_repo hash vr di dx st r st1 HI Em) as HI1.
    assert (Hb1 : bufs_ok st1) by (intros i b Hn; rewrite Hbufs in Hn; exact (Hb _ _ Hn)).
    destruct (get_repo st1 r) as [rp|] eqn:Eg.
    2:{ split; [split; assumption | left; reflexivity]. }
    destruct (alookup id (uploads rp)) as [i|] eqn:El; cbn [fst snd] in *.
    - assert (Hf : forall b, u_id (set_check off b) = u_id b /\ (err_ok (u_err b) -> err_ok (u_err (set_check off b))))
        by (intros b; split; [reflexivity | auto]).
      split; [split; [exact HI' | now apply bufs_ok_with_buf]|]. right. exists i. split; [reflexivity|].
      apply live_with_buf; [|exact Hf].
      destruct (MemInv.ok_up _ _ _ _ _ _ (MemInv.inv_repo _ _ _ _ HI1 _ _ Eg) _ _ El) as (b & Hn & _).
      destruct (Hb1 _ _ Hn) as [Hg He]. exists b. auto.
    - set (id' := match id with [] => fresh_id (next_id st1) | _ => id end).
      assert (Hg' : good_upload_id id').
      { unfold id'. destruct Hid as [->|Hid]; [apply fresh_id_good|]. destruct id; [destruct Hid; congruence | exact Hid]. }
      split; [split; [exact HI'|]|].
      + intros j b Hn. cbn [bufs] in Hn.
        destruct (Nat.lt_ge_cases j (length (bufs st1))) as [Hlt|Hge].
        * rewrite nth_error_app1 in Hn by exact Hlt. exact (Hb1 _ _ Hn).
        * rewrite nth_error_app2 in Hn by exact Hge.
          destruct (j - length (bufs st1))%nat as [|k]; [|destruct k; discriminate].
          injection Hn as <-. cbn [new_buffer u_id u_err]. split; [exact Hg' | exact I].
      + right. eexists. split; [reflexivity|]. exists (new_buffer r id' off). cbn [bufs].
        rewrite Nnat.Nat2N.id, nth_error_app2, Nat.sub_diag by lia. cbn [nth_error new_buffer u_id u_err]. split; [reflexivity|]. split; [exact Hg' | exact I].
  Qed.

  (* ---------------------------------------------------------- ocimem agrees with its upload-backend view *)

  Lemma relE_okE e : okE e -> relE enc (UploadMem.uerr_of e) (Err (gerr_of_err e)).
  Proof. intros [Hs Ho]. exists (gerr_of_err e). split; [reflexivity|]. split; [now apply U_gerr_of_err | exact Ho]. Qed.

  Lemma name_invalid_ok : okE e_name_invalid.
  Proof. apply okE_mem. left. reflexivity. Qed.
  Lemma range_ok : okE e_range.
  Proof. apply okE_mem. right. left. reflexivity. Qed.
  Lemma digest_ok : okE e_digest.
  Proof. apply okE_mem. right. right. left. reflexivity. Qed.

  Lemma same_fields f b : (forall b0, u_id (f b0) = u_id b0 /\ u_err (f b0) = u_err b0) ->
    u_id (f b) = u_id b /\ (err_ok (u_err b) -> err_ok (u_err (f b))).
  Proof. intros Hf. destruct (Hf b) as [A E]. rewrite A, E. auto. Qed.

  Theorem mem_agrees : Agrees linked enc state mem_bstep MB m_live m_inv.
  Proof.
    constructor.
    - (* PushBlobChunked *)
      intros b r h. unfold mem_bstep, backend_of_registry. cbn [Upload.ub_start UploadMem.mem_backend].
      unfold UploadMem.mstep. rewrite start_eq. unfold chunked.
      destruct (make_repo vr b r) as [st1|]; [|eexists; split; [reflexivity | apply relE_okE, name_invalid_ok]].
      destruct (get_repo st1 r) as [rp|]; [|eexists; split; [reflexivity | apply relE_okE, name_invalid_ok]].
      destruct (alookup [] (uploads rp)) as [i|]; eexists; (split; [reflexivity|]); cbn; eexists; split; reflexivity.
    - (* PushBlobChunkedResume *)
      intros b r id off h. unfold mem_bstep, backend_of_registry. cbn [Upload.ub_resume UploadMem.mem_backend].
      unfold UploadMem.mstep. rewrite resume_eq. unfold chunked.
      destruct (make_repo vr b r) as [st1|]; [|eexists; split; [reflexivity | apply relE_okE, name_invalid_ok]].
      destruct (get_repo st1 r) as [rp|]; [|eexists; split; [reflexivity | apply relE_okE, name_invalid_ok]].
      destruct (alookup id (uploads rp)) as [i|]; eexists; (split; [reflexivity|]); cbn; eexists; split; reflexivity.
    - (* Write *)
      intros b w d (bf & Hn & _ & _). unfold mem_bstep, backend_of_registry. cbn [Upload.ub_write UploadMem.mem_backend].
      unfold UploadMem.mstep. cbn [step]. rewrite Hn.
      destruct (negb (u_check bf =? -1)%Z && negb (blen (u_buf bf) =? u_check bf)%Z).
      + eexists. split; [reflexivity|]. split; [reflexivity|]. apply (relE_okE e_range), range_ok.
      + eexists. split; [reflexivity|]. split; [reflexivity|]. cbn. eexists. split; reflexivity.
    - (* Close *)
      intros b w (bf & Hn & _ & _). unfold mem_bstep, backend_of_registry. cbn [Upload.ub_close UploadMem.mem_backend].
      unfold UploadMem.mstep. cbn [step]. rewrite Hn.
      eexists. split; [reflexivity|]. split; [reflexivity|]. cbn. eexists. reflexivity.
    - (* Commit *)
      intros b w dg (bf & Hn & _ & He) Hvd. unfold mem_bstep, backend_of_registry. cbn [Upload.ub_commit UploadMem.mem_backend].
      unfold UploadMem.mstep. cbn [step]. rewrite Hn. destruct (u_err bf) as [e|].
      + eexists. split; [reflexivity|]. split; [reflexivity|]. apply (relE_okE e), He.
      + destruct (beqb (hash (u_buf bf)) dg).
        * eexists. split; [reflexivity|]. split; [reflexivity|]. cbn. eexists. split; [reflexivity|]. split; [reflexivity | exact Hvd].
        * eexists. split; [reflexivity|]. split; [reflexivity|]. apply (relE_okE e_digest), digest_ok.
    - intros b w (bf & Hn & _ & _). unfold mem_bstep, backend_of_registry. cbn [Upload.ub_size UploadMem.mem_backend].
      unfold UploadMem.mstep. cbn [step]. rewrite Hn. reflexivity.
    - intros b w (bf & Hn & _ & _). unfold mem_bstep, backend_of_registry. cbn [Upload.ub_chunk UploadMem.mem_backend].
      unfold UploadMem.mstep. cbn [step]. rewrite Hn. reflexivity.
    - intros b w (bf & Hn & _ & _). unfold mem_bstep, backend_of_registry. cbn [Upload.ub_id UploadMem.mem_backend].
      unfold UploadMem.mstep. cbn [step]. rewrite Hn. reflexivity.
    - intros b w (bf & Hn & Hg & _). cbn [Upload.ub_id UploadMem.mem_backend].
      unfold UploadMem.mstep. cbn [step]. rewrite Hn. exact Hg.
    - (* a started writer is live *)
      intros b r h b1 w HI. cbn [Upload.ub_start UploadMem.mem_backend]. unfold UploadMem.mstep. rewrite start_eq.
      pose proof (chunked_cases b r [] 0 HI (or_introl eq_refl)) as HC. cbv zeta in HC.
      destruct (chunked b r [] 0) as [st' res]. cbn [fst snd] in HC. destruct HC as (_ & [->|(i & -> & HL)]).
      + cbn. discriminate.
      + cbn. intros E. injection E as <- <-. exact HL.
    - intros b r id off h b1 w HI Hid. cbn [Upload.ub_resume UploadMem.mem_backend]. unfold UploadMem.mstep. rewrite resume_eq.
      pose proof (chunked_cases b r id off HI (or_intror Hid)) as HC. cbv zeta in HC.
      destruct (chunked b r id off) as [st' res]. cbn [fst snd] in HC. destruct HC as (_ & [->|(i & -> & HL)]).
      + cbn. discriminate.
      + cbn. intros E. injection E as <- <-. exact HL.
    - (* liveness is kept *)
      intros b w d HL. pose proof HL as (bf & Hn & _ & _). cbn [Upload.ub_write UploadMem.mem_backend].
      unfold UploadMem.mstep. cbn [step]. rewrite Hn.
      destruct (negb (u_check bf =? -1)%Z && negb (blen (u_buf bf) =? u_check bf)%Z); cbn [fst UploadMem.as_unit]; [exact HL|].
      apply live_with_buf; [exact HL|]. intros b0. cbn [u_id u_err]. split; [reflexivity | auto].
    - intros b w HL. pose proof HL as (bf & Hn & _ & _). cbn [Upload.ub_close UploadMem.mem_backend].
      unfold UploadMem.mstep. cbn [step]. rewrite Hn. exact HL.
    - intros b w dg HL. pose proof HL as (bf & Hn & Hg & He). cbn [Upload.ub_commit UploadMem.mem_backend].
      unfold UploadMem.mstep. cbn [step]. rewrite Hn. destruct (u_err bf) as [e|]; cbn [fst UploadMem.as_desc]; [exact HL|].
      destruct (beqb (hash (u_buf bf)) dg); cbn [fst UploadMem.as_desc].
      + eexists. rewrite MemBasics.bufs_upd_repo. unfold with_buf. cbn [bufs].
        rewrite MemBasics.nth_error_upd_nth, Nat.eqb_refl, Hn. cbn [option_map u_id u_err]. split; [reflexivity|]. split; [exact Hg | exact I].
      + eexists. unfold with_buf. cbn [bufs].
        rewrite MemBasics.nth_error_upd_nth, Nat.eqb_refl, Hn. cbn [option_map u_id u_err]. split; [reflexivity|]. split; [exact Hg | exact digest_ok].
    - (* the invariant is kept *)
      intros b r h HI. cbn [Upload.ub_start UploadMem.mem_backend]. unfold UploadMem.mstep. rewrite start_eq.
      pose proof (chunked_cases b r [] 0 HI (or_introl eq_refl)) as HC. cbv zeta in HC.
      destruct (chunked b r [] 0) as [st' [v|e| |]]; cbn [fst snd] in *; try (destruct v); apply HC.
    - intros b r id off h HI Hid. cbn [Upload.ub_resume UploadMem.mem_backend]. unfold UploadMem.mstep. rewrite resume_eq.
      pose proof (chunked_cases b r id off HI (or_intror Hid)) as HC. cbv zeta in HC.
      destruct (chunked b r id off) as [st' [v|e| |]]; cbn [fst snd] in *; try (destruct v); apply HC.
    - intros b w d [HI Hb]. cbn [Upload.ub_write UploadMem.mem_backend]. unfold UploadMem.mstep.
      pose proof (MemInv.inv_step hash vd vr vt di dx cfg b (WWrite w d) HI) as HI'. cbn [step] in *.
      destruct (nth_error (bufs b) (N.to_nat w)) as [bf|]; [|split; assumption].
      destruct (negb (u_check bf =? -1)%Z && negb (blen (u_buf bf) =? u_check bf)%Z); cbn [fst UploadMem.as_unit] in *; [split; assumption|].
      split; [exact HI'|]. apply bufs_ok_with_buf; [exact Hb|]. intros b0. cbn [u_id u_err]. split; [reflexivity | auto].
    - intros b w [HI Hb]. cbn [Upload.ub_close UploadMem.mem_backend]. unfold UploadMem.mstep. cbn [step].
      destruct (nth_error (bufs b) (N.to_nat w)); split; assumption.
    - intros b w dg [HI Hb]. cbn [Upload.ub_commit UploadMem.mem_backend]. unfold UploadMem.mstep.
      pose proof (MemInv.inv_step hash vd vr vt di dx cfg b (WCommit w dg) HI) as HI'. cbn [step] in *.
      destruct (nth_error (bufs b) (N.to_nat w)) as [bf|]; [|split; assumption].
      destruct (u_err bf) as [e|]; cbn [fst UploadMem.as_desc] in *; [split; assumption|].
      destruct (beqb (hash (u_buf bf)) dg); cbn [fst UploadMem.as_desc] in *; (split; [exact HI'|]).
      + intros j b0 Hj. rewrite MemBasics.bufs_upd_repo in Hj. revert j b0 Hj.
        apply (bufs_ok_with_buf b (N.to_nat w)); [exact Hb|]. intros b0. split; [reflexivity | intros _; exact I].
      + apply bufs_ok_with_buf; [exact Hb|]. intros b0. split; [reflexivity | intros _; exact digest_ok].
  Qed.

  (* ---------------------------------------------------------- how much an upload of ocimem has received *)

  Definition m_bound (st : state) (K : Z) : Prop :=
    forall i b, nth_error (bufs st) i = Some b -> (blen (u_buf b) <= K)%Z.

  Lemma m_bound_with_buf st i f K K' : m_bound st K -> (K <= K')%Z ->
    (forall b, (blen (u_buf b) <= K)%Z -> (blen (u_buf (f b)) <= K')%Z) -> m_bound (with_buf st i f) K'.
  Proof.
    intros Hb Hle Hf j b Hn. unfold with_buf in Hn. cbn [bufs] in Hn. rewrite MemBasics.nth_error_upd_nth in Hn.
    destruct (Nat.eqb j i).
    - destruct (nth_error (bufs st) j) as [b0|] eqn:E; [|discriminate]. injection Hn as <-. apply Hf. exact (Hb _ _ E).
    - specialize (Hb _ _ Hn). lia.
  Qed.

  Lemma chunked_bound st r id off K : m_bound st K -> (0 <= K)%Z -> m_bound (fst (chunked st r id off)) K.
  Proof.
    intros Hb HK. unfold chunked. destruct (make_repo vr st r) as [st1|] eqn:Em; [|exact Hb].
    pose proof (MemBasics.make_repo_some _ _ _ _ Em) as (_ & _ & Hbufs & _ & _).
    assert (Hb1 : m_bound st1 K) by (intros i b Hn; rewrite Hbufs in Hn; exact (Hb _ _ Hn)).
    destruct (get_repo st1 r) as [rp|]; [|exact Hb1].
    destruct (alookup id (uploads rp)) as [i|]; cbn [fst].
    - apply (m_bound_with_buf st1 _ _ K K Hb1); [lia|]. intros b Hle. exact Hle.
    - intros j b Hn. cbn [bufs] in Hn.
      destruct (Nat.lt_ge_cases j (length (bufs st1))) as [Hlt|Hge].
      + rewrite nth_error_app1 in Hn by exact Hlt. exact (Hb1 _ _ Hn).
      + rewrite nth_error_app2 in Hn by exact Hge.
        destruct (j - length (bufs st1))%nat as [|k]; [|destruct k; discriminate].
        injection Hn as <-. cbn [new_buffer u_buf]. exact HK.
  Qed.

  Theorem mem_sized : Sized state MB m_live m_bound.
  Proof.
    constructor.
    - intros b K K' Hb Hle i bf Hn. specialize (Hb _ _ Hn). lia.
    - intros b w K Hb (bf & Hn & _ & _). cbn [Upload.ub_size UploadMem.mem_backend]. unfold UploadMem.mstep. cbn [step].
      rewrite Hn. cbn [UploadMem.as_n]. specialize (Hb _ _ Hn). pose proof (Nat2Z.is_nonneg (length (u_buf bf))). unfold blen in *. lia.
    - intros b r h K Hb HK. cbn [Upload.ub_start UploadMem.mem_backend]. unfold UploadMem.mstep. rewrite start_eq.
      pose proof (chunked_bound b r [] 0 K Hb HK) as H1.
      destruct (chunked b r [] 0) as [st' [v|e| |]]; cbn [fst UploadMem.as_writer] in *; try (destruct v); exact H1.
    - intros b r id off h K Hb HK. cbn [Upload.ub_resume UploadMem.mem_backend]. unfold UploadMem.mstep. rewrite resume_eq.
      pose proof (chunked_bound b r id off K Hb HK) as H1.
      destruct (chunked b r id off) as [st' [v|e| |]]; cbn [fst UploadMem.as_writer] in *; try (destruct v); exact H1.
    - intros b w d K Hb. pose proof (Nat2Z.is_nonneg (length d)) as Hd0. fold (blen d) in Hd0.
      assert (Hup : m_bound b (K + blen d)) by (intros i bf Hn; specialize (Hb _ _ Hn); lia).
      cbn [Upload.ub_write UploadMem.mem_backend]. unfold UploadMem.mstep. cbn [step].
      destruct (nth_error (bufs b) (N.to_nat w)) as [bf|]; [|exact Hup].
      destruct (negb (u_check bf =? -1)%Z && negb (blen (u_buf bf) =? u_check bf)%Z); cbn [fst UploadMem.as_unit]; [exact Hup|].
      apply (m_bound_with_buf b _ _ K); [exact Hb | lia|]. intros b0 Hle. cbn [u_buf].
      unfold blen in *. rewrite app_length. lia.
    - intros b w d K e Hb. cbn [Upload.ub_write UploadMem.mem_backend]. unfold UploadMem.mstep. cbn [step].
      destruct (nth_error (bufs b) (N.to_nat w)) as [bf|]; [|intros _; exact Hb].
      destruct (negb (u_check bf =? -1)%Z && negb (blen (u_buf bf) =? u_check bf)%Z); cbn [fst snd UploadMem.as_unit]; [intros _; exact Hb|].
      discriminate.
    - intros b w K Hb. cbn [Upload.ub_close UploadMem.mem_backend]. unfold UploadMem.mstep. cbn [step].
      destruct (nth_error (bufs b) (N.to_nat w)); exact Hb.
    - intros b w (bf & Hn & _ & _). cbn [Upload.ub_close UploadMem.mem_backend]. unfold UploadMem.mstep. cbn [step].
      rewrite Hn. reflexivity.
    - intros b w dg K Hb. cbn [Upload.ub_commit UploadMem.mem_backend]. unfold UploadMem.mstep. cbn [step].
      destruct (nth_error (bufs b) (N.to_nat w)) as [bf|]; [|exact Hb].
      destruct (u_err bf) as [e|]; cbn [fst UploadMem.as_desc]; [exact Hb|].
      destruct (beqb (hash (u_buf bf)) dg); cbn [fst UploadMem.as_desc].
      + intros j b0 Hj. rewrite MemBasics.bufs_upd_repo in Hj. revert j b0 Hj.
        apply (m_bound_with_buf b _ _ K K Hb); [lia|]. intros b0 Hle. exact Hle.
      + apply (m_bound_with_buf b _ _ K K Hb); [lia|]. intros b0 Hle. exact Hle.
  Qed.

  (* ================================================================ 6. the stack in front of ocimem, and C04's theorems on it *)

  (* the oracles of the composed model *)
  Variable hash2 : bytes -> bytes -> bytes.
  Variable subject_of : bytes -> option (option bytes).
  Variable media : bytes -> bytes.
  Variable dec_errors : bytes -> option (list werr).
  Variable dec_names : bool -> bytes -> option (list bytes).
  Variable dec_index : bytes -> option (list desc).
  Variable redirect : bytes -> bytes -> bytes * bytes.
  Variable o : opts.

  Hypothesis media_json : media json_ct = json_ct.
  Hypothesis json_errors_rt : forall w, dec_errors (enc (JErr w)) = Some [w].
  Hypothesis no_locs : o_locs o = None.
  Hypothesis small_bad_range : small enc bad_range_err.
  Hypothesis small_bad_length : small enc bad_length_err.

  Variable repo : bytes.
  Hypothesis repo_ok : vrepo repo = true.       (* the router's notion (Model/Request.v) *)
  Hypothesis repo_ok_mem : vr repo = true.      (* ocimem's notion (an oracle of Model/Mem.v) *)

  (* Model/Upload.v's one-hop stack, with io.Copy as Model/Server.v has it *)
  Notation hop1 := (UploadMem.hop1 hash vd vr vt di dx cfg pieces1).

  (* the composed model: Model/Client.v over Model/Stack.v's wire over Model/Server.v over ocimem *)
  Notation stack_run := (crun linked hash2 subject_of media enc dec_errors dec_names dec_index redirect state mem_bstep o repo).

  Definition w0 : world (srv state) := init_world (srv0 init).

  Lemma m_inv_init : m_inv init.
  Proof. split; [apply MemInv.inv_init|]. intros [|i] b Hn; discriminate. Qed.

  (* BRIDGE, whole scripts.  From the empty registry, for every script that fits int64 (C04's own
     condition) whose only Commit is its last operation: the composed model makes the observations
     Model/Upload.v's one-hop stack makes, and ocimem ends in the same state. *)
  Theorem stack_script_agrees ops :
    script_ok linked ops -> (UploadSpec.weight ops <= max_int64)%Z ->
    let '(st', cur', obs) := Upload.run_script hop1 repo init None ops in
    let '(w', ccur', cobs) := stack_run w0 None ops in
    cobs = obs /\ sv_b (w_srv w') = st' /\ sv_outside (w_srv w') = false /\ sv_panic (w_srv w') = false.
  Proof.
    intros Hok Hw.
    assert (HRel : Rel linked state m_inv m_bound init None w0 None 0 (UploadSpec.weight ops)).
    { split; [reflexivity|]. split; [apply m_inv_init|]. split; [intros [|i] b Hn; discriminate|].
      split; [lia|]. split; [apply weight_nonneg'|]. lia. }
    exact (script_sim linked hash2 subject_of media enc dec_errors dec_names dec_index redirect state mem_bstep o
             media_json json_errors_rt no_locs MB m_live m_inv mem_agrees small_bad_range small_bad_length
             m_bound mem_sized repo repo_ok ops init None w0 None 0 Hok HRel).
  Qed.

  (* TRANSFER 1 (C04_spec_one_hop): what the composed model does on such a script satisfies the
     specification of the property (Model/UploadSpec.v [check]) *)
  Theorem stack_meets_spec ops digests :
    script_ok linked ops -> (UploadSpec.weight ops <= max_int64)%Z ->
    let '(w', ccur', cobs) := stack_run w0 None ops in
    UploadSpec.check hash true ops cobs (map (fun d => (d, UploadMem.m_stor repo (sv_b (w_srv w')) d)) digests) = true.
  Proof.
    intros Hok Hw. pose proof (stack_script_agrees ops Hok Hw) as HS.
    destruct (Upload.run_script hop1 repo init None ops) as [[st' cur'] obs] eqn:Er.
    destruct (stack_run w0 None ops) as [[w' ccur'] cobs]. destruct HS as (-> & -> & _).
    exact (UploadMem.hop1_check hash vd vr vt di dx cfg repo repo_ok_mem pieces1 pieces1_concat ops _ cur' obs digests Hw Er).
  Qed.

  Lemma script_ok_app ops d : forallb (fun op => negb (is_commit op)) ops = true ->
    (d = [] \/ vdigest linked d = true) -> script_ok linked (ops ++ [Upload.UCommit d]).
  Proof.
    induction ops as [|op ops IH]; intros Hn Hd; [exact Hd|].
    cbn [forallb] in Hn. apply andb_true_iff in Hn as [H1 H2]. apply negb_true_iff in H1.
    cbn [app]. specialize (IH H2 Hd).
    destruct op; try discriminate H1; cbn [script_ok]; destruct (ops ++ [Upload.UCommit d]) eqn:E;
      try (destruct ops; discriminate E); split; try reflexivity; exact IH.
  Qed.

  Lemma no_commit_app a b : forallb (fun op => negb (is_commit op)) a = true ->
    forallb (fun op => negb (is_commit op)) b = true -> forallb (fun op => negb (is_commit op)) (a ++ b) = true.
  Proof. intros Ha Hb. now rewrite forallb_app, Ha, Hb. Qed.

  Lemma no_commit_writes ws : forallb (fun op => negb (is_commit op)) (map Upload.UWrite ws) = true.
  Proof. induction ws; [reflexivity | exact IHws]. Qed.

  Lemma no_commit_later segs : forallb (fun op => negb (is_commit op)) (UploadPlans.later_ops segs) = true.
  Proof.
    induction segs as [|[[m h] ws] r IH]; [reflexivity|]. cbn [UploadPlans.later_ops forallb is_commit negb andb].
    apply no_commit_app; [apply no_commit_writes | exact IH].
  Qed.

  Lemma no_commit_plan h0 ws0 segs : forallb (fun op => negb (is_commit op)) (UploadPlans.plan_ops h0 ws0 segs) = true.
  Proof.
    unfold UploadPlans.plan_ops. cbn [forallb is_commit negb andb].
    apply no_commit_app; [apply no_commit_writes | apply no_commit_later].
  Qed.

  (* TRANSFER 2 (C04_plan_commit): "Commit stores the concatenation", on the composed model.  Every
     content, every cutting of it into Write calls, every chunk-size hint, closed and resumed at any of the
     write boundaries in any of the three modes: every operation succeeds; Commit with the hash of the
     concatenation (a well-formed digest) returns its length and ocimem holds exactly the concatenation
     under that digest; Commit with another digest fails and stores nothing. *)
  Theorem stack_plan_commit h0 ws0 segs (dg : bytes) :
    let ops := UploadPlans.plan_ops h0 ws0 segs ++ [Upload.UCommit dg] in
    let content := concat ws0 ++ UploadPlans.later_content segs in
    UploadPlans.later_ok (concat ws0) segs -> (UploadSpec.weight ops <= max_int64)%Z -> vdigest linked dg = true ->
    let '(w', ccur', cobs) := stack_run w0 None ops in
    exists obs1 ob, cobs = obs1 ++ [ob] /\ Forall UploadPlans.ok_res obs1 /\
      (dg = hash content ->
         Upload.uo_res ob = Upload.UOk (blen content) /\
         forall x, UploadMem.m_stor repo (sv_b (w_srv w')) x = UploadLaw.put_view dg content x (UploadMem.m_stor repo init x)) /\
      (dg <> hash content ->
         UploadSpec.is_uerr (Upload.uo_res ob) = true /\
         forall x, UploadMem.m_stor repo (sv_b (w_srv w')) x = UploadMem.m_stor repo init x).
  Proof.
    intros ops content Hlo Hw Hvd.
    assert (Hok : script_ok linked ops) by (apply script_ok_app; [apply no_commit_plan | right; exact Hvd]).
    pose proof (stack_script_agrees ops Hok Hw) as HS.
    destruct (Upload.run_script hop1 repo init None ops) as [[st' cur'] obs] eqn:Er.
    destruct (stack_run w0 None ops) as [[w' ccur'] cobs]. destruct HS as (-> & -> & _).
    destruct dg as [|d0 d]; [apply vdigest_nonempty in Hvd; discriminate|].
    exact (UploadPlans.plan_commit hop1 hash repo (UploadMem.m_stor repo) _ (UploadMem.m_Inv repo) _ _ _ 416%Z
             (UploadMem.hop1_law hash vd vr vt di dx cfg repo repo_ok_mem pieces1 pieces1_concat)
             true eq_refl init (UploadMem.init_inv repo) h0 ws0 segs d0 d _ cur' obs Hlo Hw Er).
  Qed.

  (* TRANSFER 3 (C04_wrong_offset_refused): "a wrong offset is RANGE_INVALID / 416 and leaves the upload
     unchanged", on the composed model.  After any such upload, closed: a resume at an explicit offset
     other than what ocimem has received, writes that carry at least one byte and a Close: one of these
     operations is refused as range-invalid with HTTP status 416; the upload is not altered: resumed at
     the right offset it takes the further writes and commits as exactly the bytes written through
     well-positioned writers. *)
  Theorem stack_wrong_offset_refused h0 ws0 segs off h1 ews h2 ws2 :
    let g := concat ws0 ++ UploadPlans.later_content segs in
    let content := g ++ concat ws2 in
    let d := hash content in
    let ops := UploadPlans.plan_ops h0 ws0 segs ++ Upload.UClose :: Upload.UResume (Upload.MAt off) h1
               :: (map Upload.UWrite ews ++ [Upload.UClose])
               ++ Upload.UResume (Upload.MAt (blen g)) h2 :: map Upload.UWrite ws2 ++ [Upload.UCommit d] in
    UploadPlans.later_ok (concat ws0) segs -> (0 <= off)%Z -> off <> blen g -> concat ews <> [] ->
    vdigest linked d = true -> (UploadSpec.weight ops <= max_int64)%Z ->
    let '(w', ccur', cobs) := stack_run w0 None ops in
    exists obs1 obe obs2 ob,
      cobs = obs1 ++ obe ++ obs2 ++ [ob] /\
      Exists (fun ob' => UploadSpec.is_range_refusal true (Upload.uo_res ob') = true) obe /\
      Upload.uo_res ob = Upload.UOk (blen content) /\
      forall x, UploadMem.m_stor repo (sv_b (w_srv w')) x = UploadLaw.put_view d content x (UploadMem.m_stor repo init x).
  Proof.
    intros g content d ops Hlo Hoff Hne Hews Hvd Hw.
    assert (Hshape : ops = (UploadPlans.plan_ops h0 ws0 segs ++ Upload.UClose :: Upload.UResume (Upload.MAt off) h1
                            :: (map Upload.UWrite ews ++ [Upload.UClose])
                            ++ Upload.UResume (Upload.MAt (blen g)) h2 :: map Upload.UWrite ws2) ++ [Upload.UCommit d]).
    { unfold ops. rewrite <- !app_assoc. cbn [app]. rewrite <- !app_assoc. reflexivity. }
    assert (Hok : script_ok linked ops).
    { rewrite Hshape. apply script_ok_app; [|right; exact Hvd].
      apply no_commit_app; [apply no_commit_plan|]. cbn [forallb is_commit negb andb].
      apply no_commit_app; [apply no_commit_app; [apply no_commit_writes | reflexivity]|].
      cbn [forallb is_commit negb andb]. apply no_commit_writes. }
    pose proof (stack_script_agrees ops Hok Hw) as HS.
    destruct (Upload.run_script hop1 repo init None ops) as [[st' cur'] obs] eqn:Er.
    destruct (stack_run w0 None ops) as [[w' ccur'] cobs]. destruct HS as (-> & -> & _).
    assert (Hdne : d <> []) by (intros E; rewrite E in Hvd; apply vdigest_nonempty in Hvd; discriminate).
    exact (UploadPlans.wrong_offset_refused hop1 hash repo (UploadMem.m_stor repo) _ (UploadMem.m_Inv repo) _ _ _ 416%Z
             (UploadMem.hop1_law hash vd vr vt di dx cfg repo repo_ok_mem pieces1 pieces1_concat)
             true eq_refl init (UploadMem.init_inv repo) h0 ws0 segs off h1 ews h2 ws2 _ cur' obs Hlo Hoff Hne Hews Hdne Hw Er).
  Qed.

  (* SAME BACKEND CALLS.  With ocimem instrumented in both models (section 3b): after any such script the
     records of backend calls - PushBlobChunked / PushBlobChunkedResume / Write / Close / Commit with their
     arguments, in order - are equal, and so are the states of ocimem. *)
  Theorem stack_same_backend_calls ops :
    script_ok linked ops -> (UploadSpec.weight ops <= max_int64)%Z ->
    let '(st', cur', obs) :=
      Upload.run_script (Upload.client_backend (Upload.serve (rec_ub state MB) pieces1)) repo (init, []) None ops in
    let '(w', ccur', cobs) :=
      crun linked hash2 subject_of media enc dec_errors dec_names dec_index redirect (state * list op)
           (rec_bstep state mem_bstep) o repo (init_world (srv0 (init, []))) None ops in
    cobs = obs /\ sv_b (w_srv w') = st'.
  Proof.
    intros Hok Hw.
    assert (HRel : Rel linked (state * list op) (InvR state m_inv) (BoundR state m_bound) (init, []) None
                       (init_world (srv0 (init, []))) None 0 (UploadSpec.weight ops)).
    { split; [reflexivity|]. split; [apply m_inv_init|]. split; [intros [|i] b Hn; discriminate|].
      split; [lia|]. split; [apply weight_nonneg'|]. lia. }
    pose proof (script_sim linked hash2 subject_of media enc dec_errors dec_names dec_index redirect (state * list op)
                  (rec_bstep state mem_bstep) o media_json json_errors_rt no_locs (rec_ub state MB)
                  (LiveR state m_live) (InvR state m_inv)
                  (agrees_rec linked enc state mem_bstep MB m_live m_inv mem_agrees)
                  small_bad_range small_bad_length (BoundR state m_bound)
                  (sized_rec state MB m_live m_bound mem_sized) repo repo_ok ops (init, []) None
                  (init_world (srv0 (init, []))) None 0 Hok HRel) as HS.
    destruct (Upload.run_script _ repo (init, []) None ops) as [[st' cur'] obs].
    destruct (crun _ _ _ _ _ _ _ _ _ _ _ _ _ _ None ops) as [[w' ccur'] cobs].
    destruct HS as (A & C & _). split; assumption.
  Qed.

End MemInstance.
End MemBridge.

(* ================================================================ 7. the hypotheses are satisfiable; where the models differ *)

Module Concrete.
Import MemBridge.

Definition chash : bytes -> bytes := StackRun.Smoke.dg.
Definition yes (_ : bytes) : bool := true.
Definition all (_ : alg) : bool := true.
Definition ccfg0 : Mem.config := {| Mem.immutable_tags := false |}.
Definition crepo : bytes := s "foo/bar".

Definition cmem := UploadMem.hop1 chash yes yes yes (fun _ => None) (fun _ => None) ccfg0 pieces1.

Definition cstack :=
  crun all (fun _ _ => []) (fun _ => Some None) StackRun.media0 StackRun.enc0 StackRun.dec_errors0 StackRun.dec_names0
       StackRun.dec_index0 StackRun.redirect0 Mem.state
       (mem_bstep chash yes yes yes (fun _ => None) (fun _ => None) ccfg0) StackRun.default_opts crepo.

Definition res_of (x : world (srv Mem.state) * option writer * list Upload.uobs) := map Upload.uo_res (snd x).

Definition abc : bytes := [97; 98; 99]%N.
Definition ops1 : list Upload.uop :=
  UploadPlans.plan_ops 0 [[97%N]; [98%N]] [(Upload.MInfo, 0%Z, [[99%N]])] ++ [Upload.UCommit (chash abc)].


Lemma conf_err_compute e : text_panics e = false -> (400 <=? marshal_status e) && (marshal_status e <=? 599) = true -> conf_err e.
Proof. intros Ht Hs. apply andb_true_iff in Hs as [A C]. apply Z.leb_le in A, C. split; [exact Ht | lia]. Qed.

Lemma small_compute e : (blen (StackRun.enc0 (JErr (r_err (merr e)))) <=? 8192) = true -> small StackRun.enc0 e.
Proof. intros H. apply Z.leb_le in H. exact H. Qed.

(* the three errors of ocimem, and the two of chunkRange, under the runner's JSON encoder *)
Lemma errs_ok0 : forall e, In e mem_errs -> okerr StackRun.enc0 (gerr_of_err e).
Proof.
  intros e [<-|[<-|[<-|[]]]]; (split; [apply conf_err_compute; vm_compute; reflexivity|]);
    repeat split; apply small_compute; vm_compute; reflexivity.
Qed.

Lemma small_bad_range0 : small StackRun.enc0 bad_range_err.
Proof. apply small_compute. vm_compute. reflexivity. Qed.
Lemma small_bad_length0 : small StackRun.enc0 bad_length_err.
Proof. apply small_compute. vm_compute. reflexivity. Qed.

Lemma crepo_ok : vrepo crepo = true.
Proof. vm_compute. reflexivity. Qed.

(* every hypothesis of the bridge holds of the runner's oracles: the whole-script theorem, instantiated *)
Theorem concrete_script_agrees ops :
  script_ok all ops -> (UploadSpec.weight ops <= max_int64)%Z ->
  let '(st', cur', obs) := Upload.run_script cmem crepo Mem.init None ops in
  let '(w', ccur', cobs) := cstack w0 None ops in
  cobs = obs /\ sv_b (w_srv w') = st' /\ sv_outside (w_srv w') = false /\ sv_panic (w_srv w') = false.
Proof.
  exact (stack_script_agrees chash yes yes yes (fun _ => None) (fun _ => None) ccfg0 all StackRun.enc0 errs_ok0
           (fun _ _ => []) (fun _ => Some None) StackRun.media0 StackRun.dec_errors0 StackRun.dec_names0 StackRun.dec_index0
           StackRun.redirect0 StackRun.default_opts StackJson.media_json0 StackJson.json_errors_rt0 eq_refl
           small_bad_range0 small_bad_length0 crepo crepo_ok ops).
Qed.

(* a non-trivial run: three bytes in three writes, closed after two, resumed by asking the registry,
   committed: both models, computed *)
Example concrete_run :
  res_of (cstack w0 None ops1)
  = [Upload.UOk 0; Upload.UOk 1; Upload.UOk 1; Upload.UOk 0; Upload.UOk 0; Upload.UOk 1; Upload.UOk 3]
  /\ map Upload.uo_res (snd (Upload.run_script cmem crepo Mem.init None ops1)) = res_of (cstack w0 None ops1)
  /\ UploadMem.m_stor crepo (sv_b (w_srv (fst (fst (cstack w0 None ops1))))) (chash abc) = [Some abc].
Proof. vm_compute. repeat split; reflexivity. Qed.

(* ---------------------------------------------------------- differences *)

(* 1. int64.  Model/Upload.v keeps Size / flushed in unbounded integers; the composed model wraps them as
   Go's int64 does.  Outside the scripts that fit int64 (the condition of C04's theorems and of the bridge)
   the two differ: resumed at offset 2^63 - 1, one more byte written, Size() is 2^63 in one model and
   -2^63 in the other (and in Go). *)
Definition ops_wrap : list Upload.uop :=
  [Upload.UStart 0; Upload.UClose; Upload.UResume (Upload.MAt max_int64) 0; Upload.UWrite [1%N]].

Theorem script_agrees_without_fit_refuted :
  exists ops, script_ok all ops /\
    map Upload.uo_size (snd (Upload.run_script cmem crepo Mem.init None ops)) <> map Upload.uo_size (snd (cstack w0 None ops)).
Proof. exists ops_wrap. split; [vm_compute; auto|]. vm_compute. discriminate. Qed.

(* 2. a digest that is not well formed.  Model/Upload.v hands whatever string Commit is given to the
   backend (its header says digests are assumed well formed); in the composed model, as in Go, the
   router refuses the closing PUT (400, no OCI code) before any handler runs: the answers differ in their
   code, and ocimem has received the last chunk in one model and not in the other. *)
Definition ops_baddigest : list Upload.uop :=
  [Upload.UStart 0; Upload.UWrite [97%N]; Upload.UCommit (s "nodigest")].

Theorem script_agrees_bad_digest_refuted :
  exists ops, (UploadSpec.weight ops <= max_int64)%Z /\
    map Upload.uo_res (snd (Upload.run_script cmem crepo Mem.init None ops)) <> res_of (cstack w0 None ops).
Proof. exists ops_baddigest. split; [vm_compute; discriminate|]. vm_compute. discriminate. Qed.


End Concrete.

Print Assumptions rc_chunk_range.
Print Assumptions U_wire_error.
Print Assumptions srv_patch.
Print Assumptions srv_put.
Print Assumptions flush_bridge.
Print Assumptions flush_same_wire.
Print Assumptions write_bridge.
Print Assumptions close_bridge.
Print Assumptions commit_bridge.
Print Assumptions start_bridge.
Print Assumptions resume_bridge.
Print Assumptions script_sim.
Print Assumptions agrees_rec.
Print Assumptions MemBridge.mem_agrees.
Print Assumptions MemBridge.mem_sized.
Print Assumptions MemBridge.stack_script_agrees.
Print Assumptions MemBridge.stack_meets_spec.
Print Assumptions MemBridge.stack_plan_commit.
Print Assumptions MemBridge.stack_wrong_offset_refused.
Print Assumptions MemBridge.stack_same_backend_calls.
Print Assumptions Concrete.concrete_script_agrees.
Print Assumptions Concrete.script_agrees_without_fit_refuted.
Print Assumptions Concrete.script_agrees_bad_digest_refuted.
