(* Proofs about stacks of the wrappers of ocifilter/select.go (Model/FilterStack.v):
   property C12 for AccessChecker / Select applied to each other. *)
From Coq Require Import String.
From OCI Require Import Model.FilterStack Proofs.Funcs Proofs.FilterSelect.

(* ---------- what a stack must do, as tables ---------- *)

(* the rejection a call meets in a stack: the levels are asked from the outside in, each
   with the pairs its own wrapper needs; the first level that rejects decides *)
Fixpoint stack_denial (ls : list layer) (o : op) : option err :=
  match ls with
  | [] => None
  | l :: ls' =>
      match first_denial (l_check l) (pre_checks (l_listAll l) o) with
      | Some e => Some e
      | None => stack_denial ls' o
      end
  end.

(* what the levels do to the innermost registry's result on its way out *)
Fixpoint stack_post (ls : list layer) (o : op) (r : result) : result :=
  match ls with
  | [] => r
  | l :: ls' => post (l_check l) o (stack_post ls' o r)
  end.

Lemma stack_denial_none ls o :
  stack_denial ls o = None <->
  (forall l, In l ls -> first_denial (l_check l) (pre_checks (l_listAll l) o) = None).
Proof.
  induction ls as [|l ls IH]; cbn.
  - split; [intros _ l [] | reflexivity].
  - destruct (first_denial (l_check l) (pre_checks (l_listAll l) o)) eqn:E.
    + split; [discriminate|]. intros H. specialize (H l (or_introl eq_refl)). congruence.
    + rewrite IH. split.
      * intros H l' [<-|Hi]; [exact E | now apply H].
      * intros H l' Hi. apply H. now right.
Qed.

(* the error is the answer of the OUTERMOST level that rejects: every level outside it let
   the call pass *)
Lemma stack_denial_some ls o e :
  stack_denial ls o = Some e ->
  exists outer l inner,
    ls = outer ++ l :: inner /\
    (forall l', In l' outer -> first_denial (l_check l') (pre_checks (l_listAll l') o) = None) /\
    first_denial (l_check l) (pre_checks (l_listAll l) o) = Some e.
Proof.
  induction ls as [|l ls IH]; cbn; [discriminate|].
  destruct (first_denial (l_check l) (pre_checks (l_listAll l) o)) eqn:E.
  - intros H. injection H as <-. exists [], l, ls. repeat split; [intros l' []| exact E].
  - intros H. destruct (IH H) as (outer & l0 & inner & -> & Ho & Hl).
    exists (l :: outer), l0, inner. repeat split; [|exact Hl].
    intros l' [<-|Hi]; [exact E | now apply Ho].
Qed.

(* a rejection at ANY level is a rejection of the stack *)
Lemma stack_denial_any ls o l :
  In l ls -> first_denial (l_check l) (pre_checks (l_listAll l) o) <> None -> stack_denial ls o <> None.
Proof. intros Hi Hd Hn. apply Hd. exact (proj1 (stack_denial_none ls o) Hn l Hi). Qed.

Lemma post_deliver check o e : post check o (deliver o e) = deliver o e.
Proof. destruct o; reflexivity. Qed.

(* ---------- one call ---------- *)

Section OneCall.
  Context {B : Type}.
  Variable bstep : registry B.

  Lemma stack_step_spec ls st o :
    stack_step ls bstep st o =
      match stack_denial ls o with
      | Some e => (st, deliver o e, [])
      | None => (fst (bstep st o), stack_post ls o (snd (bstep st o)), [o])
      end.
  Proof.
    revert st; induction ls as [|l ls IH]; intros st; cbn [stack_step stack_denial stack_post].
    - unfold bottom. destruct (bstep st o). reflexivity.
    - unfold over. rewrite declared_all_is_step, ac_step_spec.
      destruct (first_denial (l_check l) (pre_checks (l_listAll l) o)) as [e|]; [reflexivity|].
      unfold as_registry. cbn [fst snd]. rewrite IH.
      destruct (stack_denial ls o) as [e|]; cbn [fst snd app]; [|reflexivity].
      now rewrite post_deliver.
  Qed.

  (* a rejection at any level: the innermost registry is not invoked, its state is untouched,
     and the caller gets the error of the outermost level that rejects *)
  Lemma stack_denied ls st o l :
    In l ls ->
    (exists rk, In rk (pre_checks (l_listAll l) o) /\ l_check l (fst rk) (snd rk) <> None) ->
    exists e, stack_denial ls o = Some e /\ stack_step ls bstep st o = (st, deliver o e, []).
  Proof.
    intros Hi H. apply first_denial_some in H. pose proof (stack_denial_any ls o l Hi H) as Hd.
    rewrite stack_step_spec. destruct (stack_denial ls o) as [e|]; [|congruence].
    exists e. split; reflexivity.
  Qed.

  (* every level allows every pair it needs: exactly the direct call *)
  Lemma stack_allowed ls st o :
    (forall l, In l ls -> forall rk, In rk (pre_checks (l_listAll l) o) -> l_check l (fst rk) (snd rk) = None) ->
    stack_step ls bstep st o = (fst (bstep st o), stack_post ls o (snd (bstep st o)), [o]).
  Proof.
    intros H. rewrite stack_step_spec.
    replace (stack_denial ls o) with (@None err); [reflexivity|].
    symmetry. apply stack_denial_none. intros l Hi. apply first_denial_none. now apply H.
  Qed.

  Lemma stack_trace_step ls st o o' :
    In o' (snd (stack_step ls bstep st o)) -> o' = o /\ stack_denial ls o = None.
  Proof.
    rewrite stack_step_spec. destruct (stack_denial ls o); cbn; [tauto|].
    intros [<-|[]]. split; reflexivity.
  Qed.

  Lemma stack_state_step ls st o :
    fst (fst (stack_step ls bstep st o)) = final bstep st (snd (stack_step ls bstep st o)).
  Proof.
    rewrite stack_step_spec. destruct (stack_denial ls o); cbn; [reflexivity|].
    unfold final. cbn. destruct (bstep st o). reflexivity.
  Qed.

  (* ---------- histories ---------- *)

  (* every call that reaches the innermost registry passed every check of EVERY level *)
  Lemma stack_trace_allowed ls h st o' :
    In o' (ttrace (stack_step ls bstep) st h) ->
    forall l, In l ls -> forall rk, In rk (op_checks o') -> l_check l (fst rk) (snd rk) = None.
  Proof.
    revert st; induction h as [|o h IH]; intros st; [intros []|].
    rewrite ttrace_cons. intros Hi. apply in_app_or in Hi as [Hi|Hi]; [|eapply IH; eauto].
    apply stack_trace_step in Hi as [-> Hn]. intros l Hl rk Hrk.
    pose proof (proj1 (stack_denial_none ls o) Hn l Hl) as Hd.
    apply (proj1 (first_denial_none (l_check l) _) Hd).
    destruct o; cbn in *; auto; contradiction.
  Qed.

  Lemma stack_state_replay ls h st :
    fst (trun (stack_step ls bstep) st h) = final bstep st (ttrace (stack_step ls bstep) st h).
  Proof.
    revert st; induction h as [|o h IH]; intros st; [reflexivity|].
    rewrite trun_cons_state, ttrace_cons, final_app, IH, <- stack_state_step. reflexivity.
  Qed.
End OneCall.

(* one level is the wrapper of Model/Filter.v *)
Lemma stack_one {B} (l : layer) (bstep : registry B) st o :
  stack_step [l] bstep st o = ac_step (l_check l) (l_listAll l) bstep st o.
Proof.
  rewrite stack_step_spec, ac_step_spec. cbn.
  destruct (first_denial (l_check l) (pre_checks (l_listAll l) o)); reflexivity.
Qed.

(* ---------- listings, drained ---------- *)

(* a name is listed when every level lets it be read *)
Definition stack_visible (ls : list layer) (repo : bytes) : bool :=
  forallb (fun l => visible (l_check l) repo) ls.

Lemma filter_filter {A} (p q : A -> bool) l : filter p (filter q l) = filter (fun a => p a && q a) l.
Proof.
  induction l as [|a l IH]; cbn; [reflexivity|].
  destruct (q a); cbn; destruct (p a); cbn; now rewrite IH.
Qed.

Lemma stack_post_listing ls start l e :
  stack_post ls (Repositories start) (Ok (RList l e)) = Ok (RList (filter (stack_visible ls) l) e).
Proof.
  induction ls as [|x ls IH]; cbn [stack_post].
  - cbn. f_equal. f_equal. induction l as [|a l IHl]; cbn; [reflexivity | now rewrite <- IHl].
  - rewrite IH. cbn [post repos_result]. rewrite ac_keep_filter, filter_filter. reflexivity.
Qed.

Lemma stack_post_other ls o r :
  (forall start, o <> Repositories start) -> stack_post ls o r = r.
Proof.
  intros Hn. induction ls as [|x ls IH]; cbn [stack_post]; [reflexivity|]. rewrite IH.
  destruct o; try reflexivity. exfalso. eapply Hn. reflexivity.
Qed.

Lemma stack_post_nonlist ls o r :
  (forall l e, r <> Ok (RList l e)) -> stack_post ls o r = r.
Proof.
  intros Hn. induction ls as [|x ls IH]; cbn [stack_post]; [reflexivity|]. rewrite IH.
  destruct o; try reflexivity. cbn. destruct r as [[]| | |]; try reflexivity. exfalso. eapply Hn. reflexivity.
Qed.

Lemma stack_listing {B} ls (bstep : registry B) st start st' l e :
  stack_denial ls (Repositories start) = None ->
  bstep st (Repositories start) = (st', Ok (RList l e)) ->
  stack_step ls bstep st (Repositories start) =
    (st', Ok (RList (filter (stack_visible ls) l) e), [Repositories start]).
Proof.
  intros Hd Hb. rewrite stack_step_spec, Hd, Hb. cbn [fst snd]. now rewrite stack_post_listing.
Qed.

(* ---------- listings, yield by yield ---------- *)

(* the rejection of the listing itself: the outermost level, not built by Select, whose
   policy rejects ("*", list) *)
Fixpoint star_denial (ls : list layer) : option err :=
  match ls with
  | [] => None
  | l :: ls' =>
      match (if l_listAll l then None else l_check l star AccessList) with
      | Some e => Some e
      | None => star_denial ls'
      end
  end.

Lemma star_denial_is_stack_denial ls start : star_denial ls = stack_denial ls (Repositories start).
Proof.
  induction ls as [|l ls IH]; cbn -[star]; [reflexivity|]. rewrite IH.
  destruct (l_listAll l); cbn -[star]; [reflexivity|]. destruct (l_check l star AccessList); reflexivity.
Qed.

(* the callbacks the levels hand down, composed: what the innermost iterator is given *)
Definition level_callback {S} (check : checker) (yield : yfun S) : yfun S :=
  fun y s =>
    match snd y with
    | Some err => (fst (yield ([], Some err) s), false)
    | None =>
        match check (fst y) AccessRead with
        | Some _ => (s, true)
        | None => yield (fst y, None) s
        end
    end.

Fixpoint stack_callback {S} (ls : list layer) (yield : yfun S) : yfun S :=
  match ls with
  | [] => yield
  | l :: ls' => stack_callback ls' (level_callback (l_check l) yield)
  end.

Lemma stack_callback_spec {S} ls : forall (yield : yfun S) y s,
  stack_callback ls yield y s =
    match ls with
    | [] => yield y s
    | _ =>
      match snd y with
      | Some err => (fst (yield ([], Some err) s), false)
      | None => if stack_visible ls (fst y) then yield (fst y, None) s else (s, true)
      end
    end.
Proof.
  induction ls as [|l ls IH]; intros yield y s; [reflexivity|].
  cbn [stack_callback]. rewrite IH. destruct ls as [|l' ls].
  - unfold level_callback, stack_visible, visible. cbn.
    destruct (snd y); [reflexivity|]. destruct (l_check l (fst y) AccessRead); reflexivity.
  - remember (l' :: ls) as ls1. unfold level_callback at 1 2. cbn [fst snd].
    destruct (snd y) as [err|]; [reflexivity|].
    unfold stack_visible. cbn [forallb]. fold (stack_visible ls1 (fst y)).
    unfold visible at 1. destruct (stack_visible ls1 (fst y)).
    + destruct (l_check l (fst y) AccessRead); reflexivity.
    + now rewrite andb_false_r.
Qed.

(* a stack of Repositories iterators over ANY innermost iterator that treats its callback
   as a black box: either some level refuses the listing and the caller's callback is called
   once with that error (the innermost iterator is never started), or the innermost iterator
   runs with the composed callback *)
Lemma stack_seqf_spec {S} ls (bottom_seq : seqf S) : forall (yield : yfun S) s,
  stack_seqf ls bottom_seq yield s =
    match star_denial ls with
    | Some e => fst (yield ([], Some e) s)
    | None => bottom_seq (stack_callback ls yield) s
    end.
Proof.
  induction ls as [|l ls IH]; intros yield s; [reflexivity|].
  change (stack_seqf (l :: ls) bottom_seq) with (ac_repositories l (stack_seqf ls bottom_seq)).
  cbn [star_denial]. unfold ac_repositories.
  destruct (if l_listAll l then None else l_check l star AccessList) as [e|]; [reflexivity|].
  unfold repos_literal. rewrite IH.
  destruct (star_denial ls) as [e|]; reflexivity.
Qed.

Definition stack_keep (ls : list layer) (repo : bytes) : option bytes :=
  if stack_visible ls repo then Some repo else None.

(* the innermost iterator under the composed callback of at least one level and a caller
   that answers [more]: the one-wrapper function literal ([repos_drive]) with the conjunction
   of the levels' filters *)
Lemma stack_callback_cons {S} l ls (yield : yfun S) y s :
  stack_callback (l :: ls) yield y s =
    match snd y with
    | Some err => (fst (yield ([], Some err) s), false)
    | None => if stack_visible (l :: ls) (fst y) then yield (fst y, None) s else (s, true)
    end.
Proof. now rewrite stack_callback_spec. Qed.

Lemma raw_drive l0 ls0 more evs : forall ys n,
  raw_seqf count_yield evs (stack_callback (l0 :: ls0) (consumer more)) (ys, n) =
    let '(ys', n') := repos_drive (stack_keep (l0 :: ls0)) more (length ys) evs in (ys ++ ys', (n + n')%nat).
Proof.
  induction evs as [|[repo [e|]] evs IH]; intros ys n; cbn [raw_seqf repos_drive].
  - now rewrite app_nil_r, Nat.add_0_r.
  - rewrite stack_callback_cons. unfold consumer, count_yield. cbn [fst snd].
    replace (n + 1)%nat with (S n) by lia. reflexivity.
  - rewrite stack_callback_cons. unfold stack_keep, consumer, count_yield. cbn [fst snd].
    destruct (stack_visible (l0 :: ls0) repo).
    + destruct (more (length ys)).
      * rewrite IH. rewrite app_length. cbn [length]. rewrite Nat.add_1_r.
        destruct (repos_drive _ more (S (length ys)) evs) as [ys' n'].
        rewrite <- app_assoc. cbn. f_equal. lia.
      * f_equal. lia.
    + rewrite IH. destruct (repos_drive _ more (length ys) evs) as [ys' n']. f_equal. lia.
Qed.

(* the whole stack (at least one level), yield by yield *)
Lemma stack_drive_spec l ls more evs :
  stack_drive (l :: ls) more evs =
    match star_denial (l :: ls) with
    | Some e => ([([], Some e)], 0%nat)
    | None => repos_drive (stack_keep (l :: ls)) more 0 evs
    end.
Proof.
  unfold stack_drive. rewrite stack_seqf_spec. destruct (star_denial (l :: ls)) as [e|]; [reflexivity|].
  rewrite raw_drive. cbn [length]. destruct (repos_drive (stack_keep (l :: ls)) more 0 evs). reflexivity.
Qed.

(* one level: the function literal of Model/Filter.v *)
Lemma stack_drive_one l more evs :
  (if l_listAll l then None else l_check l star AccessList) = None ->
  stack_drive [l] more evs = repos_drive (ac_keep (l_check l)) more 0 evs.
Proof.
  intros H. rewrite stack_drive_spec. cbn -[star]. rewrite H.
  assert (Hk : forall repo, stack_keep [l] repo = ac_keep (l_check l) repo).
  { intros repo. unfold stack_keep, stack_visible, visible, ac_keep. cbn.
    destruct (l_check l repo AccessRead); reflexivity. }
  generalize 0%nat. induction evs as [|[repo [e|]] evs IH]; intros i; cbn; try reflexivity.
  rewrite Hk. destruct (ac_keep (l_check l) repo); [destruct (more i)|]; now rewrite ?IH.
Qed.
