(* Proofs about Model/Challenge.v used by the correspondence of C10 and C11: whatever the
   spelling in the header, parseWWWAuthenticate hands out the scheme and every parameter NAME in
   lower case (RFC 7235 2.1: both are case-insensitive; the transport looks up realm, service
   and scope by their lower-case names). *)
From Coq Require Import String ZArith Lia.
From OCI Require Import Base.Outcome Model.Challenge Model.Auth Model.AuthSpec Proofs.Challenge.

Lemma no_upper_to_lower a : no_upper (to_lower a) = true.
Proof.
  induction a as [|c a IH]; [reflexivity|]. cbn [to_lower map no_upper forallb]. fold (to_lower a).
  change (forallb _ (to_lower a)) with (no_upper (to_lower a)). rewrite IH, andb_true_r.
  unfold lower_byte. destruct ((65 <=? c)%N && (c <=? 90)%N) eqn:Ec.
  - apply andb_true_iff in Ec as [E1 E2]. apply N.leb_le in E1, E2.
    apply negb_true_iff, andb_false_iff. right. apply N.leb_gt. lia.
  - now rewrite Ec.
Qed.

Definition keys_lower (m : list (bytes * bytes)) : Prop := forall k v, In (k, v) m -> no_upper k = true.

Lemma keys_lower_pset k v m : no_upper k = true -> keys_lower m -> keys_lower (pset k v m).
Proof.
  intros Hk. induction m as [|[k' v'] m IH]; intros Hm k0 v0 Hin; cbn [pset] in Hin.
  - destruct Hin as [[= <- <-]|[]]. exact Hk.
  - destruct (beqb k k').
    + destruct Hin as [[= <- <-]|Hin]; [exact Hk|]. apply (Hm k0 v0). now right.
    + destruct Hin as [[= <- <-]|Hin]; [apply (Hm k' v'); now left|].
      apply (IH (fun a b H => Hm a b (or_intror H)) k0 v0 Hin).
Qed.

Lemma parse_params_lower : forall fuel a params ps,
  keys_lower params -> parse_params fuel a params = Ok (Some ps) -> keys_lower ps.
Proof.
  induction fuel as [|f IH]; intros a params ps Hp H.
  - destruct a; cbn in H; [injection H as <-; exact Hp | discriminate].
  - destruct a as [|c0 a0]; [cbn in H; injection H as <-; exact Hp|].
    cbn [parse_params] in H. set (a := c0 :: a0) in *.
    destruct (expect_token (skip_space a)) as [pkey s1].
    destruct (is_nil pkey); [discriminate|].
    destruct s1 as [|c s2]; [discriminate|].
    destruct (negb (c =? equals)%N); [discriminate|].
    destruct (expect_token_or_quoted s2) as [[pvalue s3]| | |]; cbn [rbind] in H; try discriminate.
    destruct (is_nil pvalue); [discriminate|].
    assert (Hp' : keys_lower (pset (to_lower pkey) pvalue params)) by (apply keys_lower_pset; [apply no_upper_to_lower | exact Hp]).
    destruct (skip_space s3) as [|d s5].
    + injection H as <-. exact Hp'.
    + destruct (d =? comma)%N; [|discriminate]. eapply IH; eauto.
Qed.

Theorem parse_lower header h :
  parseWWWAuthenticate header = Ok (Some h) -> no_upper (ah_scheme h) = true /\ keys_lower (ah_params h).
Proof.
  unfold parseWWWAuthenticate. destruct (expect_token header) as [scheme s1].
  destruct (is_nil scheme); [discriminate|].
  destruct (parse_params (S (List.length s1)) (skip_space s1) []) as [[ps|]| | |] eqn:Ep; cbn [rbind]; try discriminate.
  intros [= <-]. cbn [ah_scheme ah_params]. split; [apply no_upper_to_lower|].
  eapply parse_params_lower; [|exact Ep]. intros k v [].
Qed.

Lemma pget_nonempty_in k m : nonempty (pget k m) = true -> In (k, pget k m) m.
Proof.
  induction m as [|[k' v] m IH]; cbn [pget]; [discriminate|].
  destruct (beqb k k') eqn:Ek.
  - apply beqb_eq in Ek. subst k'. intros _. now left.
  - intros H. right. now apply IH.
Qed.

(* what the harness saw of a parse that the model reproduces has lower-case names *)
Lemma agree_parsed_lower (hdr sch : bytes) (ps : list (bytes * bytes)) h :
  parseWWWAuthenticate hdr = Ok (Some h) -> beqb sch (ah_scheme h) = true ->
  forallb (fun kv => beqb (pget (fst kv) (ah_params h)) (snd kv) && nonempty (snd kv)) ps = true ->
  parsed_lower (Some (sch, ps)) = true.
Proof.
  intros Hp Hs Hps. destruct (parse_lower _ _ Hp) as [L1 L2]. cbn [parsed_lower].
  apply beqb_eq in Hs. subst sch. rewrite L1. cbn [andb].
  apply forallb_forall. intros [k v] Hin. rewrite forallb_forall in Hps. specialize (Hps _ Hin). cbn [fst snd] in *.
  apply andb_true_iff in Hps as [H1 H2]. apply beqb_eq in H1. subst v.
  apply (L2 k (pget k (ah_params h))). now apply pget_nonempty_in.
Qed.
