(* C03: the contract on upload sessions of Proofs/StackWriters.v ([UploadLaws]) is inhabited by
   the in-memory registry (Model/Mem.v, ImmutableTags off or on), so the history theorem
   with the chunked-upload writers inside the histories applies to the runner's stack in front
   of ocimem ([mem_whistory_transparent]).

     m_upl st rp id rcv   the repository rp has an upload named id whose buffer holds rcv, has no
                          commit error pending and accepts a write (no offset check pending, or
                          one that the buffer passes); the id is one the registry minted
                          ("#k" with k below the counter)
     m_hdl st h rp id     the writer h is the buffer of the upload (rp, id)
     m_room n st          the counter of minted IDs is at least n below 10^40 (the model renders the
                          counter with 40 digits: beyond that two IDs could coincide) *)
From Coq Require Import String.
From OCI Require Import Obs.StackRun Model.MemSpec Proofs.MemBasics Proofs.MemInv.
From OCI Require Import Proofs.Request Proofs.RequestCodec Proofs.StackBase Proofs.StackDesc Proofs.StackRange Proofs.StackUpload.
From OCI Require Import Proofs.StackTransparent Proofs.StackListing Proofs.StackListingB Proofs.StackTwoHops.
From OCI Require Import Proofs.StackStep Proofs.StackHistory Proofs.StackHistoryRun Proofs.StackMem Proofs.StackMemImm Proofs.StackWriterStep Proofs.StackWriters.
From OCI Require Model.MemRel.

Local Open Scope Z_scope.

(* ================================================================ "#k" names k, below 10^40 *)

Definition dval (l : bytes) : BinNums.N := fold_left (fun a c => (10 * a + (c - 48))%N) l 0%N.

Lemma dec_digits_app f : forall n acc, dec_digits f n acc = dec_digits f n [] ++ acc.
Proof.
  induction f as [|f IH]; intros n acc; cbn [dec_digits]; [reflexivity|].
  destruct (n / 10 =? 0)%N; [reflexivity|]. rewrite (IH _ (_ :: acc)), (IH _ [_]), <- app_assoc. reflexivity.
Qed.

Lemma dval_dec_digits f : forall n, (n < 10 ^ N.of_nat f)%N -> (0 < f)%nat -> dval (dec_digits f n []) = n.
Proof.
  induction f as [|f IH]; intros n Hn Hf; [lia|]. cbn [dec_digits].
  destruct (N.eqb_spec (n / 10) 0) as [E|E].
  - unfold dval. cbn [fold_left]. apply N.div_small_iff in E; [|lia]. rewrite N.mod_small by exact E. lia.
  - rewrite dec_digits_app. unfold dval. rewrite fold_left_app. cbn [fold_left]. fold (dval (dec_digits f (n / 10) [])).
    assert (Hf' : (0 < f)%nat).
    { destruct f; [|lia]. exfalso. apply E. apply N.div_small. cbn in Hn. lia. }
    rewrite IH; [| |exact Hf'].
    + pose proof (N.div_mod' n 10) as Hdm. rewrite (N.add_comm 48 (n mod 10)), N.add_sub. symmetry. exact Hdm.
    + rewrite Nat2N.inj_succ, N.pow_succ_r' in Hn. apply N.div_lt_upper_bound; lia.
Qed.

Definition id_limit : BinNums.N := (10 ^ N.of_nat 40)%N.

Lemma fresh_id_inj k1 k2 : (k1 < id_limit)%N -> (k2 < id_limit)%N -> fresh_id k1 = fresh_id k2 -> k1 = k2.
Proof.
  intros H1 H2 E. unfold fresh_id in E. apply (f_equal (@tl _)) in E. cbn [tl] in E.
  rewrite <- (dval_dec_digits 40 k1 H1 ltac:(lia)), <- (dval_dec_digits 40 k2 H2 ltac:(lia)). now rewrite E.
Qed.

(* a stronger invariant is as good, when the steps keep it *)
Lemma conforming_strengthen linked hash subject_of enc St (bstep : backend St) o (Inv P : St -> Prop) sim :
  Conforming linked hash subject_of enc St bstep o Inv sim ->
  (forall b c, Inv b -> P b -> P (fst (bstep b c))) ->
  Conforming linked hash subject_of enc St bstep o (fun b => Inv b /\ P b) sim.
Proof.
  intros CF HP. constructor.
  - intros b c [Hi Hp]. split; [now apply (cf_inv _ _ _ _ _ _ _ _ _ CF) | now apply HP].
  - intros b [Hi _]. now apply (cf_refl _ _ _ _ _ _ _ _ _ CF).
  - intros b c [Hi _]. now apply (cf_answer _ _ _ _ _ _ _ _ _ CF).
  - intros b1 b2 c [H1 _] [H2 _]. now apply (cf_step _ _ _ _ _ _ _ _ _ CF).
  - intros b1 b2 c [H1 _] [H2 _]. now apply (cf_step_list _ _ _ _ _ _ _ _ _ CF).
  - intros b1 b2 c [H2 _]. now apply (cf_read _ _ _ _ _ _ _ _ _ CF).
  - intros b rp t b' v [Hi _]. now apply (cf_tag_head _ _ _ _ _ _ _ _ _ CF).
  - intros b c [Hi _]. now apply (cf_list _ _ _ _ _ _ _ _ _ CF).
  - intros b1 b2 rp d data b1' v [H1 _] [H2 _]. now apply (cf_session _ _ _ _ _ _ _ _ _ CF).
Qed.

Section WMem.
  Variable orc : oracles.
  Variable more : list (bytes * bytes * bytes).
  Variable imm : bool.      (* ImmutableTags *)

  Notation all := (fun _ : alg => true).
  Notation hashhex := (orc_hashhex orc more).
  Notation mhash := (orc_hash orc).
  Notation vd := (orc_vd orc).
  Notation vr := (orc_vr orc).
  Notation vt := (orc_vt orc).
  Notation mem := (mem_step orc imm).
  Notation mback := (backend_of_registry (mem_step orc imm)).
  Notation InvM := (InvM orc).
  Notation BaseInv := (MemInv.Inv mhash (orc_img orc) (orc_idx orc)).

  (* ---------------------------------------------------------- the invariant: an upload's buffer carries its name *)

  Definition up_ids (st : state) : Prop :=
    forall r rpo id i b, get_repo st r = Some rpo -> alookup id (uploads rpo) = Some i ->
      nth_error (bufs st) (N.to_nat i) = Some b -> u_repo b = r /\ u_id b = id.

  Definition InvW (st : state) : Prop := InvM st /\ up_ids st.

  (* the entry of the upload table, the buffer it names, the name minted by the registry *)
  Definition entry (st : state) (rp id : bytes) (i : wid) (b : buffer) : Prop :=
    vr rp = true /\ exists rpo k, get_repo st rp = Some rpo /\ alookup id (uploads rpo) = Some i
      /\ nth_error (bufs st) (N.to_nat i) = Some b /\ id = fresh_id k /\ (k < next_id st)%N.

  Definition m_upl (st : state) (rp id rcv : bytes) : Prop :=
    exists i b, entry st rp id i b /\ u_buf b = rcv /\ u_err b = None /\ (u_check b = -1 \/ u_check b = blen rcv).

  Definition m_hdl (st : state) (h : wid) (rp id : bytes) : Prop := exists b, entry st rp id h b /\ u_repo b = rp /\ u_id b = id.

  Definition m_room (n : nat) (st : state) : Prop := (next_id st + N.of_nat n <= id_limit)%N.

  (* the body of PushBlobChunked / PushBlobChunkedResume *)
  Definition chunked (st : state) (r id0 : bytes) (off : Z) : state * result :=
    match make_repo vr st r with
    | None => (st, Err e_name_invalid)
    | Some st1 =>
        match get_repo st1 r with
        | None => (st1, Err e_name_invalid)
        | Some rp =>
            match alookup id0 (uploads rp) with
            | Some i =>
                (with_buf st1 (N.to_nat i) (fun b =>
                   {| u_repo := u_repo b; u_id := u_id b; u_buf := u_buf b; u_check := off;
                      u_committed := u_committed b; u_desc := u_desc b; u_err := u_err b |}),
                 Ok (RWriter i))
            | None =>
                let id' := match id0 with [] => fresh_id (next_id st1) | _ => id0 end in
                let i := N.of_nat (length (bufs st1)) in
                ({| repos := aset r (rp_set_upload id' i rp) (repos st1);
                    bufs := bufs st1 ++ [new_buffer r id' off];
                    next_id := match id0 with [] => N.succ (next_id st1) | _ => next_id st1 end |},
                 Ok (RWriter i))
            end
        end
    end.

  Lemma start_chunked st r hint : mem st (PushBlobChunked r hint) = chunked st r [] 0.
  Proof. reflexivity. Qed.
  Lemma resume_chunked st r id0 off hint : mem st (PushBlobChunkedResume r id0 off hint) = chunked st r id0 off.
  Proof. reflexivity. Qed.

  Lemma repo_after_make st r st1 r0 : InvM st -> make_repo vr st r = Some st1 -> get_repo st1 r = Some r0 -> rpx orc r0.
  Proof.
    intros (_ & HR) EM Eg. apply make_repo_some in EM as (_ & _ & _ & _ & Hgs).
    pose proof (Hgs r) as Hg1. rewrite Eg in Hg1. destruct (get_repo st r) as [rp0|] eqn:E0.
    - injection Hg1 as ->. exact (proj2 (HR _ _ E0)).
    - rewrite beqb_refl in Hg1. injection Hg1 as ->. apply rpx_empty.
  Qed.

  (* ---------------------------------------------------------- buffers: identity kept, contents changed by one call at most *)

  Definition keeps (st st' : state) : Prop :=
    forall i b, nth_error (bufs st) i = Some b ->
      exists b', nth_error (bufs st') i = Some b' /\ u_repo b' = u_repo b /\ u_id b' = u_id b.

  Lemma keeps_refl st : keeps st st.
  Proof. intros i b H. exists b. auto. Qed.

  Lemma keeps_eq st st' : bufs st' = bufs st -> keeps st st'.
  Proof. intros E i b H. exists b. rewrite E. auto. Qed.

  Lemma keeps_trans st st' st'' : keeps st st' -> keeps st' st'' -> keeps st st''.
  Proof.
    intros H1 H2 i b H. destruct (H1 i b H) as (b' & Hn & Hr & Hi). destruct (H2 i b' Hn) as (b'' & Hn' & Hr' & Hi').
    exists b''. split; [exact Hn'|]. split; congruence.
  Qed.

  Lemma keeps_with_buf st j f : (forall b, u_repo (f b) = u_repo b /\ u_id (f b) = u_id b) -> keeps st (with_buf st j f).
  Proof.
    intros Hf i b H. unfold with_buf. cbn [bufs]. rewrite nth_error_upd_nth. destruct (Nat.eqb i j).
    - rewrite H. cbn. exists (f b). destruct (Hf b). auto.
    - exists b. auto.
  Qed.

  Lemma keeps_app st rs bl nx : keeps st {| repos := rs; bufs := bufs st ++ bl; next_id := nx |}.
  Proof.
    intros i b H. exists b. cbn [bufs]. rewrite nth_error_app1; [auto|]. apply nth_error_Some. congruence.
  Qed.

  Lemma keeps_make_repo st r st1 : make_repo vr st r = Some st1 -> keeps st st1.
  Proof. intros E. apply make_repo_some in E as (_ & _ & Hb & _). now apply keeps_eq. Qed.

  Lemma keeps_upd_repo st st' r f : keeps st st' -> keeps st (upd_repo st' r f).
  Proof. intros H i b Hn. destruct (H i b Hn) as (b' & Hn' & Hr). exists b'. now rewrite bufs_upd_repo. Qed.

  Ltac keeps_tac :=
    repeat match goal with
           | |- keeps ?st ?st => apply keeps_refl
           | |- keeps _ (fst (_, _)) => cbn [fst]
           | |- keeps _ (fst (match ?x with _ => _ end)) => destruct x eqn:?
           | |- keeps _ (fst (if ?x then _ else _)) => destruct x eqn:?
           | |- keeps _ (fst (let '(_, _) := ?x in _)) => destruct x eqn:?
           end.

  Lemma mem_keeps st c : keeps st (fst (mem st c)).
  Proof.
    unfold mem_step. destruct c; cbn [step]; keeps_tac;
      try (apply keeps_eq; rewrite ?bufs_upd_repo; reflexivity);
      try (apply keeps_with_buf; intros; split; reflexivity);
      try (eapply keeps_trans; [eapply keeps_make_repo; eassumption|];
           first [ apply keeps_refl | apply keeps_eq; rewrite ?bufs_upd_repo; reflexivity
                 | apply keeps_with_buf; intros; split; reflexivity | apply keeps_app ]).
    apply keeps_upd_repo. apply keeps_with_buf; intros; split; reflexivity.
  Qed.

  (* the buffer a call writes to *)
  Definition writes (st : state) (c : op) : option nat :=
    match c with
    | WWrite w _ | WCommit w _ | WCancel w => Some (N.to_nat w)
    | PushBlobChunked r _ | PushBlobChunkedResume r _ _ _ =>
        let id0 := match c with PushBlobChunkedResume _ id _ _ => id | _ => [] end in
        match make_repo vr st r with
        | Some st1 => match get_repo st1 r with
                      | Some rp => option_map N.to_nat (alookup id0 (uploads rp))
                      | None => None
                      end
        | None => None
        end
    | _ => None
    end.

  Definition same_at (i : nat) (st st' : state) : Prop := nth_error (bufs st') i = nth_error (bufs st) i.

  Lemma same_at_with_buf st i j f : j <> i -> same_at i st (with_buf st j f).
  Proof. intros H. unfold same_at, with_buf. cbn [bufs]. rewrite nth_error_upd_nth. destruct (Nat.eqb_spec i j); congruence. Qed.

  Ltac same_tac :=
    repeat match goal with
           | |- same_at _ ?st ?st => reflexivity
           | |- same_at _ _ (fst (_, _)) => cbn [fst]
           | |- same_at _ _ (fst (match ?x with _ => _ end)) => destruct x eqn:?
           | |- same_at _ _ (fst (if ?x then _ else _)) => destruct x eqn:?
           end.

  Lemma mem_same_at st c i : (i < length (bufs st))%nat -> writes st c <> Some i -> same_at i st (fst (mem st c)).
  Proof.
    intros Hlt Hw.
    assert (Hmk : forall r st1, make_repo vr st r = Some st1 -> bufs st1 = bufs st)
      by (intros r st1 E; now apply make_repo_some in E as (_ & _ & Hb & _)).
    destruct c; try (solve [unfold mem_step; cbn [step]; same_tac; unfold same_at; rewrite ?bufs_upd_repo;
                             try reflexivity; try (now erewrite Hmk by eassumption)]).
    - (* PushBlobChunked *)
      rewrite start_chunked. unfold chunked. cbn [writes] in Hw.
      destruct (make_repo vr st r) as [s1|] eqn:EM; [|reflexivity]. pose proof (Hmk _ _ EM) as Hb.
      destruct (get_repo s1 r) as [r0|]; [|cbn [fst]; unfold same_at; now rewrite Hb].
      destruct (alookup [] (uploads r0)) as [i'|]; cbn [fst option_map] in *.
      + unfold same_at. rewrite <- Hb. apply same_at_with_buf. congruence.
      + unfold same_at. cbn [bufs]. rewrite Hb, nth_error_app1 by exact Hlt. reflexivity.
    - (* PushBlobChunkedResume *)
      rewrite resume_chunked. unfold chunked. cbn [writes] in Hw.
      destruct (make_repo vr st r) as [s1|] eqn:EM; [|reflexivity]. pose proof (Hmk _ _ EM) as Hb.
      destruct (get_repo s1 r) as [r0|]; [|cbn [fst]; unfold same_at; now rewrite Hb].
      destruct (alookup id (uploads r0)) as [i'|]; cbn [fst option_map] in *.
      + unfold same_at. rewrite <- Hb. apply same_at_with_buf. congruence.
      + unfold same_at. cbn [bufs]. rewrite Hb, nth_error_app1 by exact Hlt. reflexivity.
    - (* WWrite *)
      cbn [writes] in Hw. unfold mem_step; cbn [step]; same_tac; apply same_at_with_buf; congruence.
    - (* WCommit *)
      cbn [writes] in Hw. unfold mem_step; cbn [step]; same_tac.
      + unfold same_at. rewrite bufs_upd_repo. apply same_at_with_buf. congruence.
      + apply same_at_with_buf. congruence.
    - (* WCancel *)
      cbn [writes] in Hw. unfold mem_step; cbn [step]; same_tac; apply same_at_with_buf; congruence.
  Qed.

  (* ---------------------------------------------------------- the counter *)

  Ltac nx_tac :=
    repeat match goal with
           | |- next_id (fst (_, _)) = _ => cbn [fst]
           | |- next_id (fst (match ?x with _ => _ end)) = _ => destruct x eqn:?
           | |- next_id (fst (if ?x then _ else _)) = _ => destruct x eqn:?
           end.

  Lemma next_id_upd_repo st r f : next_id (upd_repo st r f) = next_id st.
  Proof. unfold upd_repo. destruct (get_repo st r); reflexivity. Qed.

  Lemma next_id_make_repo st r st1 : make_repo vr st r = Some st1 -> next_id st1 = next_id st.
  Proof. intros E. now apply make_repo_some in E as (_ & _ & _ & H & _). Qed.

  Lemma next_id_keep st c : not_start c -> next_id (fst (mem st c)) = next_id st.
  Proof.
    intros Hns. unfold mem_step. destruct c; try contradiction; cbn [step]; nx_tac;
      rewrite ?next_id_upd_repo; try reflexivity;
      try (erewrite next_id_make_repo by eassumption; reflexivity);
      try (cbn [next_id with_buf]; rewrite ?next_id_upd_repo; try reflexivity; erewrite next_id_make_repo by eassumption; reflexivity).
    all: cbn [next_id]; destruct id; [contradiction|]; erewrite next_id_make_repo by eassumption; reflexivity.
  Qed.

  Lemma next_id_chunked st r id0 off :
    (next_id st <= next_id (fst (chunked st r id0 off)) <= N.succ (next_id st))%N.
  Proof.
    unfold chunked. destruct (make_repo vr st r) as [s1|] eqn:EM; cbn [fst]; [|lia].
    rewrite <- (next_id_make_repo _ _ _ EM). destruct (get_repo s1 r) as [r0|]; cbn [fst]; [|lia].
    destruct (alookup id0 (uploads r0)); cbn [fst next_id with_buf]; [lia|]. destruct id0; lia.
  Qed.

  Lemma next_id_mono st c : (next_id st <= next_id (fst (mem st c)))%N.
  Proof.
    destruct c; try (rewrite next_id_keep by exact I; lia).
    - rewrite start_chunked. apply next_id_chunked.
    - rewrite resume_chunked. apply next_id_chunked.
  Qed.

  (* ---------------------------------------------------------- the upload table *)

  Definition tkeeps (rp id : bytes) (i : wid) (st st' : state) : Prop :=
    forall rpo, get_repo st rp = Some rpo -> alookup id (uploads rpo) = Some i ->
      exists rpo', get_repo st' rp = Some rpo' /\ alookup id (uploads rpo') = Some i.

  Lemma tkeeps_refl rp id i st : tkeeps rp id i st st.
  Proof. intros rpo H1 H2. eauto. Qed.

  Lemma tkeeps_trans rp id i st st' st'' : tkeeps rp id i st st' -> tkeeps rp id i st' st'' -> tkeeps rp id i st st''.
  Proof. intros H1 H2 rpo Hg Hu. destruct (H1 rpo Hg Hu) as (rpo' & Hg' & Hu'). exact (H2 rpo' Hg' Hu'). Qed.

  Lemma tkeeps_repos rp id i st st' : repos st' = repos st -> tkeeps rp id i st st'.
  Proof. intros E rpo Hg Hu. exists rpo. unfold get_repo in *. rewrite E. auto. Qed.

  Lemma tkeeps_upd_repo rp id i st r f : (forall x, uploads (f x) = uploads x) -> tkeeps rp id i st (upd_repo st r f).
  Proof.
    intros Hf rpo Hg Hu. rewrite get_repo_upd_repo. destruct (beqb rp r) eqn:E.
    - apply beqb_eq in E. subst r. rewrite Hg. cbn. exists (f rpo). now rewrite Hf.
    - exists rpo. auto.
  Qed.

  Lemma tkeeps_make_repo rp id i st r st1 : make_repo vr st r = Some st1 -> tkeeps rp id i st st1.
  Proof. intros EM rpo Hg Hu. apply make_repo_some in EM as (_ & _ & _ & _ & Hgs). exists rpo. rewrite Hgs, Hg. auto. Qed.

  Ltac tk_tac :=
    repeat match goal with
           | |- tkeeps _ _ _ ?st ?st => apply tkeeps_refl
           | |- tkeeps _ _ _ _ (fst (_, _)) => cbn [fst]
           | |- tkeeps _ _ _ _ (fst (match ?x with _ => _ end)) => destruct x eqn:?
           | |- tkeeps _ _ _ _ (fst (if ?x then _ else _)) => destruct x eqn:?
           end.

  Ltac tk_leaf :=
    first [ apply tkeeps_refl
          | eapply tkeeps_make_repo; eassumption
          | apply tkeeps_repos; reflexivity
          | apply tkeeps_upd_repo; intros x; try reflexivity;
            repeat match goal with |- context [match ?v with _ => _ end] => destruct v end; reflexivity
          | eapply tkeeps_trans; [eapply tkeeps_make_repo; eassumption|];
            first [ apply tkeeps_repos; reflexivity
                  | apply tkeeps_upd_repo; intros x; try reflexivity;
                    repeat match goal with |- context [match ?v with _ => _ end] => destruct v end; reflexivity ] ].

  Lemma chunked_tkeeps rp id i st r id0 off k :
    id = fresh_id k -> (k < next_id st)%N -> (id0 = [] -> m_room 1 st) ->
    tkeeps rp id i st (fst (chunked st r id0 off)).
  Proof.
    intros Hid Hk Hroom. unfold chunked. destruct (make_repo vr st r) as [s1|] eqn:EM; [|apply tkeeps_refl].
    eapply tkeeps_trans; [eapply tkeeps_make_repo; exact EM|].
    destruct (get_repo s1 r) as [r0|] eqn:Eg; [|apply tkeeps_refl].
    destruct (alookup id0 (uploads r0)) as [i'|] eqn:EU; cbn [fst]; [apply tkeeps_repos; reflexivity|].
    intros rpo Hg Hu. unfold get_repo at 1. cbn [repos]. rewrite alookup_aset. destruct (beqb rp r) eqn:E.
    - apply beqb_eq in E. subst r. rewrite Eg in Hg. injection Hg as <-.
      eexists. split; [reflexivity|]. cbn [uploads rp_set_upload]. rewrite alookup_aset_neq; [exact Hu|].
      intros X. destruct id0 as [|c0 id0'].
      + apply make_repo_some in EM as (_ & _ & _ & Hnx & _). specialize (Hroom eq_refl). unfold m_room in Hroom.
        rewrite Hid in X. apply fresh_id_inj in X; lia.
      + subst id. congruence.
    - exists rpo. auto.
  Qed.

  Lemma mem_tkeeps rp id i st c k : InvM st -> not_start c \/ m_room 1 st ->
    id = fresh_id k -> (k < next_id st)%N -> tkeeps rp id i st (fst (mem st c)).
  Proof.
    intros HI Hroom Hid Hk. destruct c; try (solve [unfold mem_step; cbn [step]; tk_tac; tk_leaf]).
    - rewrite start_chunked. apply (chunked_tkeeps rp id i st r [] 0 k Hid Hk). intros _. destruct Hroom as [[]|H]; exact H.
    - rewrite resume_chunked. apply (chunked_tkeeps rp id i st r id0 off k Hid Hk). intros ->. destruct Hroom as [[]|H]; exact H.
    - unfold mem_step; cbn [step]; tk_tac; try tk_leaf.
      match goal with |- tkeeps _ _ _ _ (upd_repo ?x _ _) => apply (tkeeps_trans _ _ _ _ x) end;
        [apply tkeeps_repos; reflexivity | apply tkeeps_upd_repo; reflexivity].
  Qed.

  (* ---------------------------------------------------------- [up_ids] is an invariant *)

  Lemma upids_with_buf st j f : (forall b, u_repo (f b) = u_repo b /\ u_id (f b) = u_id b) -> up_ids st -> up_ids (with_buf st j f).
  Proof.
    intros Hf H r rpo id i b Hg Hu Hn. unfold with_buf in Hn. cbn [bufs] in Hn. rewrite nth_error_upd_nth in Hn.
    destruct (Nat.eqb (N.to_nat i) j).
    - destruct (nth_error (bufs st) (N.to_nat i)) as [b0|] eqn:E; [|discriminate]. cbn in Hn. injection Hn as <-.
      destruct (Hf b0) as [-> ->]. exact (H r rpo id i b0 Hg Hu E).
    - exact (H r rpo id i b Hg Hu Hn).
  Qed.

  Lemma upids_upd_repo st r f : (forall x, uploads (f x) = uploads x) -> up_ids st -> up_ids (upd_repo st r f).
  Proof.
    intros Hf H r' rpo id i b Hg Hu Hn. rewrite bufs_upd_repo in Hn. rewrite get_repo_upd_repo in Hg.
    destruct (beqb r' r) eqn:E; [|exact (H r' rpo id i b Hg Hu Hn)].
    apply beqb_eq in E. subst r'. destruct (get_repo st r) as [rp0|] eqn:Eg; [|discriminate]. cbn in Hg. injection Hg as <-.
    rewrite Hf in Hu. exact (H r rp0 id i b Eg Hu Hn).
  Qed.

  Lemma upids_make_repo st r st1 : make_repo vr st r = Some st1 -> up_ids st -> up_ids st1.
  Proof.
    intros EM H r' rpo id i b Hg Hu Hn. apply make_repo_some in EM as (_ & _ & Hb & _ & Hgs). rewrite Hb in Hn.
    rewrite Hgs in Hg. destruct (get_repo st r') as [rp0|] eqn:Eg.
    - injection Hg as <-. exact (H r' rp0 id i b Eg Hu Hn).
    - destruct (beqb r' r); [|discriminate]. injection Hg as <-. discriminate Hu.
  Qed.

  Lemma upids_new st r rpo id' off nx : BaseInv st -> get_repo st r = Some rpo -> up_ids st ->
    up_ids {| repos := aset r (rp_set_upload id' (N.of_nat (length (bufs st))) rpo) (repos st);
              bufs := bufs st ++ [new_buffer r id' off]; next_id := nx |}.
  Proof.
    intros HB Hgr H r' rpo' id i b Hg Hu Hn. unfold get_repo in Hg. cbn [repos bufs] in *. rewrite alookup_aset in Hg.
    assert (Hold : forall rp0, get_repo st r' = Some rp0 -> alookup id (uploads rp0) = Some i -> u_repo b = r' /\ u_id b = id).
    { intros rp0 Hg0 Hu0. destruct (ok_up _ _ _ _ _ _ (inv_repo _ _ _ _ HB _ _ Hg0) _ _ Hu0) as (b0 & Hn0 & _).
      rewrite nth_error_app1 in Hn by (apply nth_error_Some; congruence). exact (H r' rp0 id i b Hg0 Hu0 Hn). }
    destruct (beqb r' r) eqn:E; [|exact (Hold rpo' Hg Hu)].
    apply beqb_eq in E. subst r'. injection Hg as <-. cbn [uploads rp_set_upload] in Hu. rewrite alookup_aset in Hu.
    destruct (beqb id id') eqn:E2; [|exact (Hold rpo Hgr Hu)].
    apply beqb_eq in E2. subst id'. injection Hu as <-. rewrite Nat2N.id, nth_error_app2, Nat.sub_diag in Hn by lia.
    cbn in Hn. injection Hn as <-. cbn. auto.
  Qed.

  Ltac ui_tac :=
    repeat match goal with
           | |- up_ids (fst (_, _)) => cbn [fst]
           | |- up_ids (fst (match ?x with _ => _ end)) => destruct x eqn:?
           | |- up_ids (fst (if ?x then _ else _)) => destruct x eqn:?
           end.

  Ltac ui_leaf H :=
    first [ exact H
          | eapply upids_make_repo; [eassumption | exact H]
          | apply upids_with_buf; [intros; split; reflexivity | exact H]
          | apply upids_upd_repo;
            [intros x; try reflexivity; repeat match goal with |- context [match ?v with _ => _ end] => destruct v end; reflexivity
            | first [exact H | eapply upids_make_repo; [eassumption | exact H]]] ].

  Lemma chunked_up_ids st r id0 off : InvM st -> up_ids st -> up_ids (fst (chunked st r id0 off)).
  Proof.
    intros (HB & _) H. unfold chunked. destruct (make_repo vr st r) as [s1|] eqn:EM; [|exact H].
    pose proof (upids_make_repo _ _ _ EM H) as H1. pose proof (inv_make_repo _ _ _ _ _ _ _ HB EM) as HB1.
    destruct (get_repo s1 r) as [r0|] eqn:Eg; [|exact H1].
    destruct (alookup id0 (uploads r0)); cbn [fst].
    - apply upids_with_buf; [intros; split; reflexivity | exact H1].
    - now apply upids_new.
  Qed.

  Lemma mem_up_ids st c : InvM st -> up_ids st -> up_ids (fst (mem st c)).
  Proof.
    intros HI H. destruct c; try (solve [unfold mem_step; cbn [step]; ui_tac; ui_leaf H]).
    - rewrite start_chunked. now apply chunked_up_ids.
    - rewrite resume_chunked. now apply chunked_up_ids.
    - unfold mem_step; cbn [step]; ui_tac; try (ui_leaf H).
      apply upids_upd_repo; [reflexivity|]. apply upids_with_buf; [intros; split; reflexivity | exact H].
  Qed.

  Lemma invw_init : InvW init.
  Proof. split; [apply invm_init|]. intros r rpo id i b H. discriminate H. Qed.

  (* ---------------------------------------------------------- an entry through a call *)

  Notation touchesM := (touches state mback m_hdl).

  Lemma mstep_eq' st c : mback st c = (fst (mem st c), bres_of_result (snd (mem st c))).
  Proof. unfold backend_of_registry. destruct (mem st c); reflexivity. Qed.

  Lemma entry_keep st c rp id i b : InvW st -> not_start c \/ m_room 1 st -> entry st rp id i b ->
    exists b', entry (fst (mem st c)) rp id i b' /\ (writes st c <> Some (N.to_nat i) -> b' = b).
  Proof.
    intros (HI & _) Hroom (Hv & rpo & k & Hg & Hu & Hn & Hid & Hk).
    destruct (mem_tkeeps rp id i st c k HI Hroom Hid Hk rpo Hg Hu) as (rpo' & Hg' & Hu').
    destruct (mem_keeps st c _ _ Hn) as (b' & Hn' & _).
    exists b'. split.
    - split; [exact Hv|]. exists rpo', k. repeat split; try assumption. pose proof (next_id_mono st c). lia.
    - intros Hw. pose proof (mem_same_at st c (N.to_nat i) ltac:(apply nth_error_Some; congruence) Hw) as Hs.
      unfold same_at in Hs. congruence.
  Qed.

  Lemma entry_fun st rp id i b i' b' : entry st rp id i b -> entry st rp id i' b' -> i' = i /\ b' = b.
  Proof.
    intros (_ & rpo & k & Hg & Hu & Hn & _) (_ & rpo' & k' & Hg' & Hu' & Hn' & _).
    rewrite Hg in Hg'. injection Hg' as <-. rewrite Hu in Hu'. injection Hu' as <-. rewrite Hn in Hn'. injection Hn' as <-. auto.
  Qed.

  Lemma writes_touches st c rp id i b : InvW st -> not_start c \/ m_room 1 st -> entry st rp id i b ->
    writes st c = Some (N.to_nat i) -> touchesM st c rp id.
  Proof.
    intros HIW Hroom He Hw. pose proof HIW as (HI & Hup).
    assert (Hh : m_hdl st i rp id).
    { exists b. split; [exact He|]. destruct He as (_ & rpo & k & Hg & Hu & Hn & _). exact (Hup rp rpo id i b Hg Hu Hn). }
    destruct c; cbn [writes] in Hw; try discriminate Hw; cbn [touches].
    - (* PushBlobChunked: no upload has the empty name *)
      destruct (make_repo vr st r) as [s1|] eqn:EM; [|discriminate]. destruct (get_repo s1 r) as [r0|] eqn:Eg; [|discriminate].
      rewrite (x_up _ _ (repo_after_make st r s1 r0 HI EM Eg)) in Hw. discriminate.
    - (* PushBlobChunkedResume: the upload of that name is this one *)
      destruct (make_repo vr st r) as [s1|] eqn:EM; [|discriminate]. destruct (get_repo s1 r) as [r0|] eqn:Eg; [|discriminate].
      destruct (alookup id0 (uploads r0)) as [i'|] eqn:EU; [|discriminate]. cbn in Hw. injection Hw as Hw. apply N2Nat.inj in Hw. subst i'.
      rewrite mstep_eq', resume_chunked. unfold chunked. rewrite EM, Eg, EU. cbn [fst snd bres_of_result bval_of_res wid_of].
      (* the repository was there already, with this entry *)
      pose proof (make_repo_some _ _ _ _ EM) as (_ & _ & Hb & Hnx & Hgs).
      assert (Hg0 : get_repo st r = Some r0).
      { pose proof (Hgs r) as H. rewrite Eg in H. destruct (get_repo st r); [congruence|]. rewrite beqb_refl in H.
        injection H as ->. discriminate EU. }
      destruct He as (Hv & rpo & k & Hg & Hu & Hn & Hid & Hk).
      destruct (Hup r r0 id0 i b Hg0 EU Hn) as [Hr1 Hi1]. destruct (Hup rp rpo id i b Hg Hu Hn) as [Hr2 Hi2].
      assert (Er : r = rp) by congruence. assert (Ei : id0 = id) by congruence. rewrite Er, Ei in *.
      assert (Ero : r0 = rpo) by congruence. rewrite Ero in *.
      eexists. split.
      { split; [exact Hv|]. exists rpo, k. split; [exact Eg|]. split; [exact Hu|].
        split; [unfold with_buf; cbn [bufs]; rewrite nth_error_upd_nth, Nat.eqb_refl, Hb, Hn; reflexivity|].
        split; [exact Hid|]. cbn [next_id with_buf]. lia. }
      cbn. exact (Hup rp rpo id i b Hg Hu Hn).
    - injection Hw as Hw. apply N2Nat.inj in Hw. subst w. exact Hh.
    - injection Hw as Hw. apply N2Nat.inj in Hw. subst w. exact Hh.
    - injection Hw as Hw. apply N2Nat.inj in Hw. subst w. exact Hh.
  Qed.

  Lemma mem_hdl_keep st c h rp id : InvW st -> not_start c \/ m_room 1 st -> m_hdl st h rp id -> m_hdl (fst (mem st c)) h rp id.
  Proof.
    intros HI Hroom (b & He & _). destruct (entry_keep st c rp id h b HI Hroom He) as (b' & He' & _). exists b'. split; [exact He'|].
    destruct HI as [HI Hup]. pose proof (mem_up_ids st c HI Hup) as Hup'. destruct He' as (_ & rpo & k & Hg & Hu & Hn & _).
    exact (Hup' rp rpo id h b' Hg Hu Hn).
  Qed.

  Lemma mem_frame st c rp id rcv : InvW st -> not_start c \/ m_room 1 st -> m_upl st rp id rcv -> ~ touchesM st c rp id ->
    m_upl (fst (mem st c)) rp id rcv.
  Proof.
    intros HI Hroom (i & b & He & Hrest) Ht. destruct (entry_keep st c rp id i b HI Hroom He) as (b' & He' & Hsame).
    rewrite Hsame in He'; [exists i, b; auto|]. intros Hw. apply Ht. exact (writes_touches st c rp id i b HI Hroom He Hw).
  Qed.

  (* ---------------------------------------------------------- what a call answers on its own session *)

  Lemma make_repo_known st r rpo : vr r = true -> get_repo st r = Some rpo -> make_repo vr st r = Some st.
  Proof. intros Hv Hg. unfold make_repo. now rewrite Hv, Hg. Qed.

  Lemma nth_with_buf st j f : nth_error (bufs (with_buf st j f)) j = option_map f (nth_error (bufs st) j).
  Proof. unfold with_buf. cbn [bufs]. now rewrite nth_error_upd_nth, Nat.eqb_refl. Qed.

  (* the entry after its own buffer was rewritten *)
  Lemma entry_with_buf st rp id i b f : entry st rp id i b -> entry (with_buf st (N.to_nat i) f) rp id i (f b).
  Proof.
    intros (Hv & rpo & k & Hg & Hu & Hn & Hid & Hk). split; [exact Hv|]. exists rpo, k.
    split; [exact Hg|]. split; [exact Hu|]. split; [rewrite nth_with_buf, Hn; reflexivity|]. auto.
  Qed.

  Lemma hdl_upl st h rp id rcv : m_hdl st h rp id -> m_upl st rp id rcv ->
    exists b, entry st rp id h b /\ u_buf b = rcv /\ u_err b = None /\ (u_check b = -1 \/ u_check b = blen rcv).
  Proof.
    intros (b & He & _) (i & b' & He' & Hrest). destruct (entry_fun _ _ _ _ _ _ _ He He') as [-> ->]. exists b. auto.
  Qed.

  Lemma entry_repo st rp id i b : up_ids st -> entry st rp id i b -> u_repo b = rp /\ u_id b = id.
  Proof. intros Hup (_ & rpo & k & Hg & Hu & Hn & _). exact (Hup rp rpo id i b Hg Hu Hn). Qed.

  Lemma mem_resume st rp id rcv off hint : up_ids st -> m_upl st rp id rcv -> off = -1 \/ off = blen rcv ->
    exists st' i, mem st (PushBlobChunkedResume rp id off hint) = (st', Ok (RWriter i))
                  /\ m_hdl st' i rp id /\ m_upl st' rp id rcv.
  Proof.
    intros Hup (i & b & He & Hb & Herr & Hck) Hoff. pose proof He as (Hv & rpo & k & Hg & Hu & Hn & Hid & Hk).
    destruct (Hup rp rpo id i b Hg Hu Hn) as [Hr Hi].
    eexists. exists i. split; [|split].
    - rewrite resume_chunked. unfold chunked. rewrite (make_repo_known st rp rpo Hv Hg), Hg, Hu. reflexivity.
    - eexists. split; [apply (entry_with_buf st rp id i b _ He)|]. cbn. auto.
    - exists i. eexists. split; [apply (entry_with_buf st rp id i b _ He)|]. cbn.
      split; [exact Hb|]. split; [exact Herr|]. destruct Hoff as [-> | ->]; [left | right]; congruence.
  Qed.

  Lemma mem_write st h rp id rcv data : m_hdl st h rp id -> m_upl st rp id rcv ->
    exists st', mem st (WWrite h data) = (st', Ok (RN (blen data))) /\ m_upl st' rp id (rcv ++ data).
  Proof.
    intros Hh Hu. destruct (hdl_upl st h rp id rcv Hh Hu) as (b & He & Hb & Herr & Hck).
    pose proof He as (_ & _ & _ & _ & _ & Hn & _).
    eexists. split.
    - unfold mem_step. cbn [step]. rewrite Hn.
      assert (Hc : negb (u_check b =? -1) && negb (blen (u_buf b) =? u_check b) = false).
      { destruct Hck as [-> | ->]; [reflexivity|]. rewrite Hb, Z.eqb_refl. apply andb_false_r. }
      rewrite Hc. reflexivity.
    - exists h. eexists. split; [apply (entry_with_buf st rp id h b _ He)|]. cbn. rewrite Hb. auto.
  Qed.

  Lemma mem_accessors st h rp id rcv : m_hdl st h rp id -> m_upl st rp id rcv -> up_ids st ->
    mem st (WSize h) = (st, Ok (RN (blen rcv))) /\ mem st (WID h) = (st, Ok (RStr id))
    /\ mem st (WChunkSize h) = (st, Ok (RN 8192)) /\ mem st (WClose h) = (st, Ok RUnit).
  Proof.
    intros Hh Hu Hup. destruct (hdl_upl st h rp id rcv Hh Hu) as (b & He & Hb & Herr & Hck).
    destruct (entry_repo st rp id h b Hup He) as [Hr Hi].
    pose proof He as (_ & _ & _ & _ & _ & Hn & _).
    unfold mem_step. cbn [step]. rewrite Hn, Hb, Hi. auto.
  Qed.

  Lemma mem_cancel st h rp id rcv : m_hdl st h rp id -> m_upl st rp id rcv ->
    exists st', mem st (WCancel h) = (st', Ok RUnit).
  Proof.
    intros Hh Hu. destruct (hdl_upl st h rp id rcv Hh Hu) as (b & He & _).
    pose proof He as (_ & _ & _ & _ & _ & Hn & _). eexists. unfold mem_step. cbn [step]. rewrite Hn. reflexivity.
  Qed.

  Lemma mem_close_any st h : snd (mem st (WClose h)) <> Panic /\ snd (mem st (WClose h)) <> OutOfFuel.
  Proof. unfold mem_step. cbn [step snd]. destruct (nth_error (bufs st) (N.to_nat h)); split; discriminate. Qed.

  (* ---------------------------------------------------------- neutrality *)

  Lemma mem_neutral_repos st c : neutral state m_upl st c -> repos (fst (mem st c)) = repos st.
  Proof.
    intros Hn. destruct c; try contradiction; cbn [neutral] in Hn.
    - destruct Hn as (rcv & i & b & (Hv & rpo & k & Hg & Hu & _) & _).
      rewrite resume_chunked. unfold chunked. rewrite (make_repo_known st r rpo Hv Hg), Hg, Hu. reflexivity.
    - unfold mem_step. cbn [step]. destruct (nth_error (bufs st) (N.to_nat w)); [|reflexivity].
      destruct (negb (u_check b =? -1) && negb (blen (u_buf b) =? u_check b)); reflexivity.
    - reflexivity.
    - reflexivity.
    - reflexivity.
    - reflexivity.
    - unfold mem_step. cbn [step]. destruct (nth_error (bufs st) (N.to_nat w)); reflexivity.
  Qed.

  (* ---------------------------------------------------------- PushBlobChunked *)

  Lemma mem_start st r hint st' v : InvW st -> m_room 1 st -> mem st (PushBlobChunked r hint) = (st', Ok v) ->
    exists i id, v = RWriter i /\ good_upload_id id /\ m_hdl st' i r id /\ m_upl st' r id [] /\ forall rcv, ~ m_upl st r id rcv.
  Proof.
    intros (HI & Hup) Hroom E. rewrite start_chunked in E. unfold chunked in E.
    destruct (make_repo vr st r) as [s1|] eqn:EM; [|discriminate].
    destruct (get_repo s1 r) as [r0|] eqn:Eg; [|discriminate].
    rewrite (x_up _ _ (repo_after_make st r s1 r0 HI EM Eg)) in E. cbn in E. injection E as <- <-.
    pose proof (make_repo_some _ _ _ _ EM) as (Hv & _ & Hb & Hnx & Hgs).
    set (id := fresh_id (next_id s1)). set (i := N.of_nat (length (bufs s1))).
    assert (He : entry {| repos := aset r (rp_set_upload id i r0) (repos s1); bufs := bufs s1 ++ [new_buffer r id 0];
                          next_id := N.succ (next_id s1) |} r id i (new_buffer r id 0)).
    { split; [exact Hv|]. eexists. exists (next_id s1). split; [unfold get_repo; cbn [repos]; apply alookup_aset_eq|].
      split; [cbn [uploads rp_set_upload]; apply alookup_aset_eq|].
      split; [cbn [bufs]; unfold i; rewrite Nat2N.id, nth_error_app2, Nat.sub_diag by lia; reflexivity|].
      split; [reflexivity | cbn; lia]. }
    exists i, id. split; [reflexivity|]. split; [apply fresh_id_good|]. split; [eexists; split; [exact He | cbn; auto]|].
    split; [exists i; eexists; split; [exact He|]; cbn; auto|].
    intros rcv (i' & b' & (_ & rpo & k & _ & _ & _ & Hid & Hk) & _). unfold id in Hid.
    unfold m_room in Hroom. rewrite Hnx in Hid. apply fresh_id_inj in Hid; lia.
  Qed.

  Lemma rs_set_upload' rp1 rp2 id i id' i' : repo_sim rp1 rp2 -> repo_sim (rp_set_upload id i rp1) (rp_set_upload id' i' rp2).
  Proof. intros (A & B0 & C). repeat split; assumption. Qed.

  Lemma mem_start_sim s1 s2 r h1 h2 s1' v1 : InvM s1 -> InvM s2 -> simM s1 s2 ->
    mem s1 (PushBlobChunked r h1) = (s1', Ok v1) ->
    exists s2' v2, mem s2 (PushBlobChunked r h2) = (s2', Ok v2) /\ simM s1' s2'.
  Proof.
    intros HI1 HI2 Hs E. rewrite start_chunked in *. unfold chunked in *.
    pose proof (sim_make_repo orc s1 s2 r Hs) as Hm.
    destruct (make_repo vr s1 r) as [t1|] eqn:EM1; [|discriminate].
    destruct (make_repo vr s2 r) as [t2|] eqn:EM2; [|contradiction].
    destruct (get_repo t1 r) as [r1|] eqn:Eg1; [|discriminate].
    pose proof Hm as (HA & HB). pose proof (HB r) as Hr. rewrite Eg1 in Hr.
    destruct (get_repo t2 r) as [r2|] eqn:Eg2; [|contradiction]. cbn in Hr.
    rewrite (x_up _ _ (repo_after_make s1 r t1 r1 HI1 EM1 Eg1)) in E. cbn in E. injection E as <- <-.
    rewrite (x_up _ _ (repo_after_make s2 r t2 r2 HI2 EM2 Eg2)).
    eexists. eexists. split; [reflexivity|]. split.
    - cbn [repos]. unfold get_repo in Eg1, Eg2. rewrite !akeys_aset_in by (eapply alookup_Some_in; eauto). exact HA.
    - intros r'. unfold get_repo at 1 2. cbn [repos]. rewrite !alookup_aset. destruct (beqb r' r); [|apply HB].
      cbn. now apply rs_set_upload'.
  Qed.

  (* ---------------------------------------------------------- Commit *)

  Lemma mem_commit s1 s2 h1 h2 rp id1 id2 data dg s1' v1 : up_ids s1 -> up_ids s2 -> simM s1 s2 ->
    m_hdl s1 h1 rp id1 -> m_upl s1 rp id1 data -> m_hdl s2 h2 rp id2 -> m_upl s2 rp id2 data ->
    mem s1 (WCommit h1 dg) = (s1', Ok v1) ->
    v1 = RDesc (octet_desc dg (blen data)) /\
    exists s2', mem s2 (WCommit h2 dg) = (s2', Ok (RDesc (octet_desc dg (blen data)))) /\ simM s1' s2'.
  Proof.
    intros Hup1 Hup2 Hs Hh1 Hu1 Hh2 Hu2 E.
    destruct (hdl_upl s1 h1 rp id1 data Hh1 Hu1) as (b1 & He1 & Hb1 & Herr1 & _).
    destruct (hdl_upl s2 h2 rp id2 data Hh2 Hu2) as (b2 & He2 & Hb2 & Herr2 & _).
    destruct (entry_repo s1 rp id1 h1 b1 Hup1 He1) as [Hr1 _]. destruct (entry_repo s2 rp id2 h2 b2 Hup2 He2) as [Hr2 _].
    pose proof He1 as (_ & _ & _ & _ & _ & Hn1 & _). pose proof He2 as (_ & _ & _ & _ & _ & Hn2 & _).
    unfold mem_step in *. cbn [step] in *. rewrite Hn1, Herr1, Hb1, Hr1 in E. rewrite Hn2, Herr2, Hb2, Hr2.
    destruct (beqb (mhash data) dg); [|discriminate]. injection E as <- <-. split; [reflexivity|].
    eexists. split; [reflexivity|]. apply sim_upd_repo.
    - apply (sim_repos_eq _ s2); [|reflexivity]. apply (sim_repos_eq_l s1); [exact Hs | reflexivity].
    - intros ra rb Hab. apply rs_set_blob; [reflexivity | exact Hab].
  Qed.

  (* ---------------------------------------------------------- refusals *)

  Definition e_digest_mismatch : err := E DIGEST_INVALID (s "digest mismatch").

  Lemma relay_digest_mismatch : relayable enc0 (gerr_of_err e_digest_mismatch).
  Proof. split; [split; [reflexivity | vm_compute; split; discriminate] | vm_compute; discriminate]. Qed.

  Lemma relay_name_invalid' : relayable enc0 (gerr_of_err e_name_invalid).
  Proof. split; [split; [reflexivity | vm_compute; split; discriminate] | vm_compute; discriminate]. Qed.

  Lemma mem_start_err s1 s2 r h1 h2 s1' e : InvM s1 -> InvM s2 ->
    mem s1 (PushBlobChunked r h1) = (s1', Err e) ->
    e = e_name_invalid /\ s1' = s1 /\ mem s2 (PushBlobChunked r h2) = (s2, Err e).
  Proof.
    intros HI1 HI2 E. rewrite start_chunked in *. unfold chunked in *.
    destruct (make_repo vr s1 r) as [t1|] eqn:EM1.
    - destruct (get_repo t1 r) as [r1|] eqn:Eg1.
      + rewrite (x_up _ _ (repo_after_make s1 r t1 r1 HI1 EM1 Eg1)) in E. discriminate E.
      + apply make_repo_some in EM1 as (_ & Hne & _). congruence.
    - injection E as <- <-. apply make_repo_none in EM1. split; [reflexivity|]. split; [reflexivity|].
      assert (EM2 : make_repo vr s2 r = None) by (now apply make_repo_none). now rewrite EM2.
  Qed.

  Lemma mem_commit_err s1 s2 h1 h2 rp id1 id2 data dg s1' e :
    m_hdl s1 h1 rp id1 -> m_upl s1 rp id1 data -> m_hdl s2 h2 rp id2 -> m_upl s2 rp id2 data ->
    mem s1 (WCommit h1 dg) = (s1', Err e) ->
    e = e_digest_mismatch /\ repos s1' = repos s1 /\
    exists s2', mem s2 (WCommit h2 dg) = (s2', Err e) /\ repos s2' = repos s2.
  Proof.
    intros Hh1 Hu1 Hh2 Hu2 E.
    destruct (hdl_upl s1 h1 rp id1 data Hh1 Hu1) as (b1 & He1 & Hb1 & Herr1 & _).
    destruct (hdl_upl s2 h2 rp id2 data Hh2 Hu2) as (b2 & He2 & Hb2 & Herr2 & _).
    pose proof He1 as (_ & _ & _ & _ & _ & Hn1 & _). pose proof He2 as (_ & _ & _ & _ & _ & Hn2 & _).
    unfold mem_step in *. cbn [step] in *. rewrite Hn1, Herr1, Hb1 in E. rewrite Hn2, Herr2, Hb2.
    destruct (beqb (mhash data) dg); [discriminate|]. injection E as <- <-.
    split; [reflexivity|]. split; [reflexivity|]. eexists. split; reflexivity.
  Qed.

  (* ---------------------------------------------------------- the contract *)

  Hypothesis sane : orc_sane orc more.
  (* with ImmutableTags on: no digest cycle (Proofs/StackMemImm.v) *)
  Hypothesis acyc : imm = true -> MemRel.acyclic mhash (orc_img orc) (orc_idx orc).
  Variable o : opts.

  Lemma mem_conforming_any : Conforming all hashhex (orc_subject orc) enc0 state mback o InvM simM.
  Proof.
    clear -sane acyc. destruct imm.
    - exact (mem_conforming_imm orc more sane (acyc eq_refl) o).
    - exact (mem_conforming orc more sane o).
  Qed.

  Theorem mem_conforming_w : Conforming all hashhex (orc_subject orc) enc0 state mback o InvW simM.
  Proof.
    apply (conforming_strengthen _ _ _ _ _ _ _ InvM up_ids simM mem_conforming_any).
    intros b c Hi Hp. rewrite mstep_eq'. cbn [fst]. now apply mem_up_ids.
  Qed.

  Theorem mem_upload_laws : UploadLaws enc0 state mback InvW simM m_upl m_hdl m_room.
  Proof.
    constructor.
    - (* ul_hdl_fun *)
      intros b h rp id rp' id' (b1 & He & Hr & Hi) (b2 & He' & Hr' & Hi'). destruct He as (_ & rpo & k & Hg & Hu & Hn & _).
      destruct He' as (_ & rpo' & k' & Hg' & Hu' & Hn' & _). rewrite Hn in Hn'. injection Hn' as <-. split; congruence.
    - (* ul_nonempty *)
      intros b rp id rcv (i & bb & (_ & rpo & k & _ & _ & _ & -> & _) & _). discriminate.
    - (* ul_hdl_keep *)
      intros b c h rp id Hi Hroom Hh. rewrite mstep_eq'. cbn [fst]. now apply mem_hdl_keep.
    - (* ul_frame *)
      intros b c rp id rcv Hi Hroom Hu Ht. rewrite mstep_eq'. cbn [fst]. now apply mem_frame.
    - (* ul_neutral *)
      intros b c Hi Hn. rewrite mstep_eq'. cbn [fst]. pose proof (mem_neutral_repos b c Hn) as E.
      split; intros x Hx; [apply (sim_repos_eq_l b) | apply (sim_repos_eq _ b)]; assumption.
    - (* ul_room_weaken *)
      intros b n H. unfold m_room in *. lia.
    - (* ul_room_keep *)
      intros b c n _ Hns H. rewrite mstep_eq'. cbn [fst]. unfold m_room in *. now rewrite next_id_keep.
    - (* ul_room_start *)
      intros b rp hint n _ H. rewrite mstep_eq'. cbn [fst]. unfold m_room in *. rewrite start_chunked.
      pose proof (next_id_chunked b rp [] 0). lia.
    - (* ul_start *)
      intros b rp hint b' vw Hi Hroom E. rewrite mstep_eq' in E.
      assert (Eb := f_equal fst E). assert (Er := f_equal snd E). cbn [fst snd] in Eb, Er. clear E. subst b'.
      destruct (mem b (PushBlobChunked rp hint)) as [st' r] eqn:Em. cbn [fst snd] in *.
      destruct r as [rv| | |]; try discriminate Er. cbn [bres_of_result] in Er. injection Er as <-.
      destruct (mem_start b rp hint st' rv Hi Hroom Em) as (i & id & -> & Hg & Hh & Hu & Hf).
      exists id. cbn [bval_of_res wid_of]. auto.
    - (* ul_start_sim *)
      intros b1 b2 rp h1 h2 b1' v1 [Hi1 _] [Hi2 _] Hs E. rewrite mstep_eq' in E.
      assert (Eb := f_equal fst E). assert (Er := f_equal snd E). cbn [fst snd] in Eb, Er. clear E. subst b1'.
      destruct (mem b1 (PushBlobChunked rp h1)) as [s1' r] eqn:Em. cbn [fst snd] in *.
      destruct r as [rv| | |]; try discriminate Er.
      destruct (mem_start_sim b1 b2 rp h1 h2 s1' rv Hi1 Hi2 Hs Em) as (s2' & v2 & E2 & Hs').
      exists s2', (bval_of_res v2). rewrite mstep_eq', E2. auto.
    - (* ul_start_err *)
      intros b1 b2 rp h1 h2 b1' e [Hi1 _] [Hi2 _] Hs E. rewrite mstep_eq' in E.
      assert (Eb := f_equal fst E). assert (Er := f_equal snd E). cbn [fst snd] in Eb, Er. clear E. subst b1'.
      destruct (mem b1 (PushBlobChunked rp h1)) as [s1' r] eqn:Em. cbn [fst snd] in *.
      destruct r as [|re| |]; try discriminate Er. cbn [bres_of_result] in Er. injection Er as <-.
      destruct (mem_start_err b1 b2 rp h1 h2 s1' re Hi1 Hi2 Em) as (-> & -> & E2).
      split; [apply relay_name_invalid'|]. exists b2. rewrite mstep_eq', E2. auto.
    - (* ul_resume *)
      intros b rp id rcv off hint [_ Hup] Hu Hoff. destruct (mem_resume b rp id rcv off hint Hup Hu Hoff) as (st' & i & E & Hh & Hu').
      exists st', (VWriter i). rewrite mstep_eq', E. auto.
    - (* ul_write *)
      intros b h rp id rcv data _ Hh Hu. destruct (mem_write b h rp id rcv data Hh Hu) as (st' & E & Hu').
      exists st', (VN (blen data)). rewrite mstep_eq', E. auto.
    - (* ul_size *)
      intros b h rp id rcv [_ Hup] Hh Hu. destruct (mem_accessors b h rp id rcv Hh Hu Hup) as (E & _).
      exists b, (VN (blen rcv)). rewrite mstep_eq', E. auto.
    - (* ul_id *)
      intros b h rp id rcv [_ Hup] Hh Hu. destruct (mem_accessors b h rp id rcv Hh Hu Hup) as (_ & E & _).
      exists b, (VStr id). rewrite mstep_eq', E. auto.
    - (* ul_chunksize *)
      intros b h rp id rcv [_ Hup] Hh Hu. destruct (mem_accessors b h rp id rcv Hh Hu Hup) as (_ & _ & E & _).
      exists b, (VN 8192). rewrite mstep_eq', E. cbn. unfold min_int64, max_int64. repeat split; lia.
    - (* ul_close *)
      intros b h rp id rcv [_ Hup] Hh Hu. destruct (mem_accessors b h rp id rcv Hh Hu Hup) as (_ & _ & _ & E).
      exists b, VUnit. rewrite mstep_eq', E. auto.
    - (* ul_close_any *)
      intros b h _. rewrite mstep_eq'. cbn [snd]. destruct (mem_close_any b h) as [H1 H2].
      destruct (snd (mem b (WClose h))); split; try discriminate; congruence.
    - (* ul_cancel *)
      intros b h rp id rcv _ Hh Hu. destruct (mem_cancel b h rp id rcv Hh Hu) as (st' & E).
      exists st', VUnit. rewrite mstep_eq', E. auto.
    - (* ul_commit *)
      intros b1 b2 h1 h2 rp id1 id2 data dg b1' v1 [_ Hup1] [_ Hup2] Hs Hh1 Hu1 Hh2 Hu2 E. rewrite mstep_eq' in E.
      assert (Eb := f_equal fst E). assert (Er := f_equal snd E). cbn [fst snd] in Eb, Er. clear E. subst b1'.
      destruct (mem b1 (WCommit h1 dg)) as [s1' r] eqn:Em. cbn [fst snd] in *.
      destruct r as [rv| | |]; try discriminate Er. cbn [bres_of_result] in Er. injection Er as <-.
      destruct (mem_commit b1 b2 h1 h2 rp id1 id2 data dg s1' rv Hup1 Hup2 Hs Hh1 Hu1 Hh2 Hu2 Em) as (-> & s2' & E2 & Hs').
      cbn [bval_of_res desc_of octet_desc d_digest d_size]. split; [reflexivity|]. split; [reflexivity|].
      eexists. eexists. rewrite mstep_eq', E2. cbn [fst snd bres_of_result bval_of_res]. split; [reflexivity|]. auto.
    - (* ul_commit_err *)
      intros b1 b2 h1 h2 rp id1 id2 data dg b1' e _ _ Hs Hh1 Hu1 Hh2 Hu2 E. rewrite mstep_eq' in E.
      assert (Eb := f_equal fst E). assert (Er := f_equal snd E). cbn [fst snd] in Eb, Er. clear E. subst b1'.
      destruct (mem b1 (WCommit h1 dg)) as [s1' r] eqn:Em. cbn [fst snd] in *.
      destruct r as [|re| |]; try discriminate Er. cbn [bres_of_result] in Er. injection Er as <-.
      destruct (mem_commit_err b1 b2 h1 h2 rp id1 id2 data dg s1' re Hh1 Hu1 Hh2 Hu2 Em) as (-> & Hr1 & s2' & E2 & Hr2).
      split; [apply relay_digest_mismatch|]. exists s2'. rewrite mstep_eq', E2. split; [reflexivity|]. cbn [fst].
      apply (sim_repos_eq _ b2); [|exact Hr2]. apply (sim_repos_eq_l b1); [exact Hs | exact Hr1].
  Qed.

End WMem.

Print Assumptions mem_conforming_w.
Print Assumptions mem_upload_laws.

(* ================================================================ the theorem for the runner in front of ocimem *)

From OCI Require Import Proofs.StackJson.

Section MemRun.
  Variable orc : oracles.
  Variable more : list (bytes * bytes * bytes).
  Variable imm : bool.
  Variable sv : opts.
  Variable cc : ccfg.

  Notation so := (soracles_of orc more).
  Notation mback := (backend_of_registry (mem_step orc imm)).

  Definition mem_wadmissible : state -> list wid -> list sst -> list hop -> Prop :=
    wadmissible (so_linked so) (so_hash so) (so_subject so) enc0 state mback sv cc (m_upl orc) (m_hdl orc).

  (* every history over sessions, outside the recorded deviations, of at most 10^40 steps: the
     stack of Obs/StackRun.v in front of ocimem (ImmutableTags off or on) answers as ocimem does,
     and leaves the same store *)
  Theorem mem_whistory_transparent h :
    orc_sane orc more -> (imm = true -> MemRel.acyclic (orc_hash orc) (orc_img orc) (orc_idx orc)) ->
    o_locs sv = None -> (1 <= cc_bufsz cc)%nat ->
    (N.of_nat (length h) <= id_limit)%N ->
    mem_wadmissible init [] [] h ->
    let d := hrun mback init [] h in
    let v := hrun (stack_backend so sv cc mback) (sstate0 init) [] h in
    Forall3 hres_equiv h (snd d) (snd v)
    /\ length (snd (fst d)) = length (snd (fst v))
    /\ simM (fst (fst d)) (sv_b (st_srv (fst (fst v))))
    /\ clean (fst (fst v)).
  Proof.
    intros Hs Hac Hl Hk Hlen Ha. unfold stack_backend.
    exact (whistory_transparent (so_linked so) (so_hash so) (so_subject so) media0 enc0 dec_errors0 dec_names0 dec_index0
             redirect0 state mback sv cc (InvW orc) simM (m_upl orc) (m_hdl orc) m_room
             (mem_conforming_w orc more imm Hs Hac sv) (mem_upload_laws orc imm) Hl media_json0 json_errors_rt0 json_index_rt0
             json_tags_rt0 json_catalog_rt0 Hk init h (invw_init orc) Hlen Ha).
  Qed.
End MemRun.

Print Assumptions mem_whistory_transparent.

(* ================================================================ the hypotheses are satisfiable *)

From OCI Require Proofs.StackMemRun.

Module WExample.
  Import Smoke.

  Notation so := (soracles_of orc []).
  Notation mback imm := (backend_of_registry (mem_step orc imm)).

  (* a session written in two pieces with a resume in between, another one cancelled, reads
     and a failing read around them, a third session whose Commit the registry refuses *)
  Definition whist : list hop :=
    [ HStart repo1 0;
      HW 0 (WoWrite (firstn 30 blob2));
      HW 0 WoSize;
      HW 0 WoClose;
      HResume 0 repo1 (-1) 0;
      HW 0 (WoWrite (skipn 30 blob2));
      HID 0;
      HW 0 (WoCommit (dg blob2));
      HOp (GetBlob repo1 (dg blob2));
      HStart repo2 0;
      HW 1 WoCancel;
      HOp (ResolveBlob repo2 (dg blob1));
      HStart repo2 0;
      HW 2 (WoWrite blob1);
      HW 2 (WoCommit (dg blob2)) ].

  Lemma upl_data st h rp id data : m_hdl orc st h rp id -> m_upl orc st rp id data ->
    exists b, nth_error (bufs st) (N.to_nat h) = Some b /\ rp = u_repo b /\ id = u_id b /\ data = u_buf b.
  Proof.
    intros Hh Hu. destruct (hdl_upl orc st h rp id data Hh Hu) as (b & He & Hb & _).
    destruct Hh as (b0 & He0 & Hr & Hi). destruct (entry_fun orc _ _ _ _ _ _ _ He He0) as [_ ->].
    destruct He as (_ & _ & _ & _ & _ & Hn & _). exists b. auto.
  Qed.

  Lemma wadm_cons imm b tb ss e rest b' tb' r :
    ok_hop (so_linked so) (so_hash so) (so_subject so) enc0 state (mback imm) default_opts default_ccfg (m_upl orc) (m_hdl orc) b tb ss e ->
    hstep (mback imm) b tb e = (b', tb', r) ->
    mem_wadmissible orc [] imm default_opts default_ccfg b' tb' (next_sst ss e r) rest ->
    mem_wadmissible orc [] imm default_opts default_ccfg b tb ss (e :: rest).
  Proof. intros H1 E H2. split; [exact H1|]. rewrite E. exact H2. Qed.

  Ltac bools := repeat split; vm_compute; reflexivity.
  Ltac sizes := vm_compute; try split; discriminate.
  Ltac live := eexists; eexists; vm_compute; reflexivity.

  (* what the side condition of a writer operation asks, on a state that is known *)
  Ltac known Hn Hh Hu :=
    let b := fresh "b" in let Hb := fresh "Hb" in
    destruct (upl_data _ _ _ _ _ Hh Hu) as (b & Hb & -> & -> & ->);
    vm_compute in Hn; injection Hn as <-; vm_compute in Hb; injection Hb as <-.

  (* in both modes: no operation of the history reads the ImmutableTags option *)
  Lemma whist_admissible imm : mem_wadmissible orc [] imm default_opts default_ccfg init [] [] whist.
  Proof.
    unfold whist.
    (* PushBlobChunked *)
    eapply wadm_cons; [|vm_compute; reflexivity|].
    { split; [vm_compute; reflexivity|]. vm_compute. exact I. }
    (* Write *)
    eapply wadm_cons; [|vm_compute; reflexivity|].
    { split; [live|]. intros h rp id data Hn Hh Hu. known Hn Hh Hu. split; [vm_compute; discriminate | exact I]. }
    (* Size *)
    eapply wadm_cons; [|vm_compute; reflexivity|].
    { split; [live|]. intros h rp id data Hn Hh Hu. known Hn Hh Hu. split; [vm_compute; discriminate | exact I]. }
    (* Close *)
    eapply wadm_cons; [|vm_compute; reflexivity|].
    { split; [live|]. intros h rp id data Hn Hh Hu. known Hn Hh Hu. split; [vm_compute; discriminate | exact I]. }
    (* resume, asking the registry for the offset *)
    eapply wadm_cons; [|vm_compute; reflexivity|].
    { split; [eexists; vm_compute; reflexivity|]. intros h rp id data Hn Hh Hu. known Hn Hh Hu.
      split; [reflexivity|]. left. split; [reflexivity | vm_compute; discriminate]. }
    (* Write *)
    eapply wadm_cons; [|vm_compute; reflexivity|].
    { split; [live|]. intros h rp id data Hn Hh Hu. known Hn Hh Hu. split; [vm_compute; discriminate | exact I]. }
    (* ID *)
    eapply wadm_cons; [|vm_compute; reflexivity|].
    { live. }
    (* Commit *)
    eapply wadm_cons; [|vm_compute; reflexivity|].
    { split; [live|]. intros h rp id data Hn Hh Hu. known Hn Hh Hu. split; [vm_compute; discriminate|].
      split; [vm_compute; reflexivity|]. vm_compute. exact I. }
    (* GetBlob *)
    eapply wadm_cons; [|vm_compute; reflexivity|].
    { split; [reflexivity|]. split; [bools|]. split; [sizes | exact I]. }
    (* a second session *)
    eapply wadm_cons; [|vm_compute; reflexivity|].
    { split; [vm_compute; reflexivity|]. vm_compute. exact I. }
    (* Cancel *)
    eapply wadm_cons; [|vm_compute; reflexivity|].
    { split; [live|]. intros h rp id data Hn Hh Hu. known Hn Hh Hu. split; [vm_compute; discriminate | exact I]. }
    (* ResolveBlob: fails *)
    eapply wadm_cons; [|vm_compute; reflexivity|].
    { split; [reflexivity|]. split; [bools|]. split; [vm_compute; exact I | exact I]. }
    (* a third session *)
    eapply wadm_cons; [|vm_compute; reflexivity|].
    { split; [vm_compute; reflexivity|]. vm_compute. exact I. }
    eapply wadm_cons; [|vm_compute; reflexivity|].
    { split; [live|]. intros h rp id data Hn Hh Hu. known Hn Hh Hu. split; [vm_compute; discriminate | exact I]. }
    (* Commit under another content's digest: refused *)
    eapply wadm_cons; [|vm_compute; reflexivity|].
    { split; [live|]. intros h rp id data Hn Hh Hu. known Hn Hh Hu. split; [vm_compute; discriminate|].
      split; [vm_compute; reflexivity|]. vm_compute. exact I. }
    exact I.
  Qed.

  (* the refused Commit is in the history *)
  Example whist_commit_refused :
    nth_error (snd (hrun (mback false) init [] whist)) 14 = Some (Err (gerr_of_err (E DIGEST_INVALID (s "digest mismatch")))).
  Proof. vm_compute. reflexivity. Qed.

  Example whist_transparent imm :
    let d := hrun (mback imm) init [] whist in
    let v := hrun (stack_backend so default_opts default_ccfg (mback imm)) (sstate0 init) [] whist in
    Forall3 hres_equiv whist (snd d) (snd v)
    /\ simM (fst (fst d)) (sv_b (st_srv (fst (fst v)))).
  Proof.
    destruct (mem_whistory_transparent orc [] imm default_opts default_ccfg whist StackMemRun.Example.smoke_sane
                (fun _ => StackMemImm.ImmExample.smoke_acyclic) eq_refl
                ltac:(vm_compute; lia) ltac:(vm_compute; discriminate) (whist_admissible imm)) as (H1 & _ & H2 & _).
    split; assumption.
  Qed.
End WExample.

Print Assumptions WExample.whist_transparent.
