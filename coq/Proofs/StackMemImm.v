(* C03: the contract of Proofs/StackHistory.v is also inhabited by the in-memory registry with
   ImmutableTags ON ([mem_step orc true]), for oracle tables whose hash has no digest cycle
   ([MemRel.acyclic]: no manifest contains, directly or through other manifests, its own digest -
   what keeps the model's search for tagged references, Registry.refersTo, from running out of
   fuel; with a real hash a cycle is a sha256 fixed point).

   Four methods read the option: PushManifest (a stored digest keeps its media type, a tag is not
   overwritten), DeleteBlob / DeleteManifest (refused for content a tag refers to), DeleteTag
   (refused).  Every other method is the same function in both modes ([memT_same]), so the
   lemmas of Proofs/StackMem.v carry over; the four are proved here. *)
From Coq Require Import String.
From OCI Require Import Obs.StackRun Model.MemSpec Model.MemRel Proofs.MemBasics Proofs.MemInv Proofs.MemReach.
From OCI Require Import Proofs.Request Proofs.RequestCodec Proofs.StackBase Proofs.StackDesc Proofs.StackRange Proofs.StackUpload.
From OCI Require Import Proofs.StackTransparent Proofs.StackListing Proofs.StackListingB Proofs.StackTwoHops.
From OCI Require Import Proofs.StackStep Proofs.StackHistory Proofs.StackMem.

Local Open Scope Z_scope.

Section MemImm.
  Variable orc : oracles.
  Variable more : list (bytes * bytes * bytes).

  Notation all := (fun _ : alg => true).
  Notation hashhex := (orc_hashhex orc more).
  Notation mhash := (orc_hash orc).
  Notation vd := (orc_vd orc).
  Notation vr := (orc_vr orc).
  Notation vt := (orc_vt orc).
  Notation img := (orc_img orc).
  Notation idx := (orc_idx orc).
  Notation mem := (mem_step orc false).
  Notation memT := (mem_step orc true).
  Notation InvM := (InvM orc).
  Notation BaseInv := (MemInv.Inv mhash img idx).
  Notation trt := (Mem.tagged_refers_to img idx).

  Hypothesis sane : orc_sane orc more.
  Hypothesis acyc : MemRel.acyclic mhash img idx.

  Definition mstepT : backend state := backend_of_registry memT.

  Lemma mstepT_eq st c : mstepT st c = (fst (memT st c), bres_of_result (snd (memT st c))).
  Proof. unfold mstepT, backend_of_registry. destruct (memT st c); reflexivity. Qed.

  (* ---------------------------------------------------------- the methods that do not read the option *)

  Definition cfg_free (c : op) : bool :=
    match c with PushManifest _ _ _ _ | DeleteBlob _ _ | DeleteManifest _ _ | DeleteTag _ _ => false | _ => true end.

  Lemma memT_same st c : cfg_free c = true -> memT st c = mem st c.
  Proof. intros H. destruct c; try discriminate H; reflexivity. Qed.

  (* ---------------------------------------------------------- the search for tagged references answers *)

  Lemma refers_ok st r rp d : InvM st -> get_repo st r = Some rp -> exists bb, trt rp d = Ok bb.
  Proof.
    intros (HB & _) Hg. pose proof (inv_repo _ _ _ _ HB _ _ Hg) as Hrp.
    assert (Hfuel : trt rp d <> OutOfFuel).
    { destruct acyc as [rk Hrk].
      apply (MemReach.tagged_refers_to_fuel img idx mhash (fun _ => True) rk (fun media data k c _ => Hrk media data k c I)).
      intros x b Hx. split; [exact (proj1 (ok_man _ _ _ _ _ _ Hrp _ _ Hx)) | exact I]. }
    pose proof (refers_to_shape img idx rp) as Hsh.
    assert (Hdec : forall x b, alookup x (manifests rp) = Some b -> manifest_refs img idx (b_media b) (b_data b) <> None).
    { intros x b Hx. exact (proj1 (proj2 (ok_man _ _ _ _ _ _ Hrp _ _ Hx))). }
    specialize (Hsh Hdec (S (length (manifests rp))) (tag_refs rp) d).
    unfold Mem.tagged_refers_to in *. destruct (refers_to img idx (S (length (manifests rp))) rp (tag_refs rp) d) as [bb| | |];
      try contradiction; try congruence; eauto.
  Qed.

  Definition denied (what : bytes) : err := E DENIED what.

  Ltac relay_const := split; [split; [reflexivity | vm_compute; split; discriminate] | vm_compute; discriminate].

  Lemma relay_d1 : relayable enc0 (gerr_of_err (denied (s "deletion of tagged blob not permitted"))). Proof. relay_const. Qed.
  Lemma relay_d2 : relayable enc0 (gerr_of_err (denied (s "deletion of tagged manifest not permitted"))). Proof. relay_const. Qed.
  Lemma relay_d3 : relayable enc0 (gerr_of_err (denied (s "tag deletion not permitted"))). Proof. relay_const. Qed.
  Lemma relay_d4 : relayable enc0 (gerr_of_err (denied (s "mismatched media type"))). Proof. relay_const. Qed.
  Lemma relay_d5 : relayable enc0 (gerr_of_err (denied (s "cannot overwrite tag"))). Proof. relay_const. Qed.

  (* ---------------------------------------------------------- the four methods, by cases *)

  (* the deletions: as without the option, or refused with the state as it was *)
  Lemma delete_cases st c : InvM st ->
    match c with DeleteBlob _ _ | DeleteManifest _ _ | DeleteTag _ _ => True | _ => False end ->
    memT st c = mem st c
    \/ exists what, memT st c = (st, Err (denied what)) /\ relayable enc0 (gerr_of_err (denied what)).
  Proof.
    intros HI Hc. destruct c; try contradiction; unfold mem_step; cbn [step].
    - destruct (blob_for st r d) as [b| | |]; try (left; reflexivity).
      destruct (get_repo st r) as [rp|] eqn:Eg; [|left; reflexivity]. cbn [immutable_tags].
      destruct (refers_ok st r rp d HI Eg) as ([|] & ->); [right; eexists; split; [reflexivity | apply relay_d1] | left; reflexivity].
    - destruct (manifest_for st r d) as [b| | |]; try (left; reflexivity).
      destruct (get_repo st r) as [rp|] eqn:Eg; [|left; reflexivity]. cbn [immutable_tags].
      destruct (refers_ok st r rp d HI Eg) as ([|] & ->); [right; eexists; split; [reflexivity | apply relay_d2] | left; reflexivity].
    - destruct (get_repo st r) as [rp|]; [|left; reflexivity]. destruct (alookup t (tags rp)); [|left; reflexivity].
      cbn [immutable_tags]. right. eexists. split; [reflexivity | apply relay_d3].
  Qed.

  (* PushManifest: as without the option, or refused, or the tag already says so *)
  Lemma push_manifest_cases st r t data media :
    memT st (PushManifest r t data media) = mem st (PushManifest r t data media)
    \/ (exists st1 what, make_repo vr st r = Some st1 /\ memT st (PushManifest r t data media) = (st1, Err (denied what))
                         /\ relayable enc0 (gerr_of_err (denied what)))
    \/ (exists st1 rp cur, make_repo vr st r = Some st1 /\ get_repo st1 r = Some rp /\ t <> [] /\ alookup t (tags rp) = Some cur
                           /\ mhash data = d_digest cur /\ d_media cur = media
                           /\ memT st (PushManifest r t data media) = (st1, Ok (RDesc cur))).
  Proof.
    unfold mem_step. cbn [step]. destruct (make_repo vr st r) as [st1|] eqn:EM; [|left; reflexivity].
    destruct (get_repo st1 r) as [rp|] eqn:Eg; [|left; reflexivity]. cbn [immutable_tags andb].
    assert (Hstore : forall X Y : state * result,
      (if match alookup (mhash data) (manifests rp) with Some cur => negb (beqb (b_media cur) media) | None => false end
       then (st1, Err (E DENIED (s "mismatched media type"))) else X) = X
      \/ exists what, (if match alookup (mhash data) (manifests rp) with Some cur => negb (beqb (b_media cur) media) | None => false end
                       then (st1, Err (E DENIED (s "mismatched media type"))) else X) = (st1, Err (denied what))
                      /\ relayable enc0 (gerr_of_err (denied what))).
    { intros X _. destruct (match alookup (mhash data) (manifests rp) with Some cur => negb (beqb (b_media cur) media) | None => false end);
        [right; eexists; split; [reflexivity | apply relay_d4] | left; reflexivity]. }
    destruct t as [|c0 t'].
    - destruct (Hstore (match check_descriptor mhash vd {| d_media := media; d_digest := mhash data; d_size := blen data; d_artifact := [] |} (Some data) with
                        | Some _ => (st1, Err (e_plain (s "invalid descriptor")))
                        | None => match check_manifest mhash vd img idx rp media data with
                                  | None => (st1, Err (e_plain (s "invalid manifest")))
                                  | Some subject => (upd_repo st1 r (fun rp0 => rp_set_manifest (mhash data) {| b_media := media; b_data := data; b_subject := subject |} rp0),
                                                     Ok (RDesc {| d_media := media; d_digest := mhash data; d_size := blen data; d_artifact := [] |}))
                                  end
                        end) (st1, Ok RUnit)) as [E | (what & E & Hr)].
      + left. exact E.
      + right. left. exists st1, what. auto.
    - destruct (vt (c0 :: t')); cbn [negb]; [|left; reflexivity].
      destruct (alookup (c0 :: t') (tags rp)) as [cur|] eqn:Et.
      + destruct (beqb (mhash data) (d_digest cur)) eqn:E1.
        * destruct (beqb (d_media cur) media) eqn:E2.
          -- right. right. exists st1, rp, cur. apply beqb_eq in E1, E2. repeat split; try assumption; try reflexivity. discriminate.
          -- right. left. exists st1. eexists. split; [reflexivity|]. split; [reflexivity | apply relay_d4].
        * right. left. exists st1. eexists. split; [reflexivity|]. split; [reflexivity | apply relay_d5].
      + match goal with |- (if ?c then ?d else ?X) = _ \/ _ => destruct (Hstore X (st1, Ok RUnit)) as [E | (what & E & Hr)] end.
        * left. exact E.
        * right. left. exists st1, what. auto.
  Qed.

  (* ---------------------------------------------------------- the invariant *)

  Theorem invm_stepT st c : InvM st -> InvM (fst (memT st c)).
  Proof.
    intros HI. destruct (cfg_free c) eqn:Ef; [rewrite (memT_same st c Ef); now apply invm_step|].
    destruct c; try discriminate Ef.
    - (* PushManifest *)
      destruct (push_manifest_cases st r t content media) as [E | [(st1 & what & EM & E & _) | (st1 & rp & cur & EM & _ & _ & _ & _ & _ & E)]];
        rewrite E; [now apply invm_step| |]; cbn [fst]; destruct HI as (HB & HR);
        (split; [exact (inv_make_repo _ _ _ _ _ _ _ HB EM) | exact (repos_ok_make_repo orc _ _ _ HR EM)]).
    - destruct (delete_cases st (DeleteBlob r d) HI I) as [E | (what & E & _)]; rewrite E; [now apply invm_step | exact HI].
    - destruct (delete_cases st (DeleteManifest r d) HI I) as [E | (what & E & _)]; rewrite E; [now apply invm_step | exact HI].
    - destruct (delete_cases st (DeleteTag r t) HI I) as [E | (what & E & _)]; rewrite E; [now apply invm_step | exact HI].
  Qed.

  (* ---------------------------------------------------------- every answer is conforming *)

  Variable o : opts.

  Lemma bop_cfg c : cfg_free c = false -> bop c = c.
  Proof. destruct c; try discriminate; reflexivity. Qed.

  Lemma cfg_free_bop c : cfg_free (bop c) = cfg_free c.
  Proof. destruct c; try reflexivity. cbn [bop]. destruct (whole_range o0 o1); reflexivity. Qed.

  Lemma mem_confT st c : InvM st -> one_call c = true -> wf_op all hashhex (orc_subject orc) c ->
    sizes_ok enc0 c (bres_of_result (snd (memT st (bop c)))) ->
    conf_answer all hashhex enc0 o c (bres_of_result (snd (memT st (bop c)))).
  Proof.
    intros HI H1 Hwf Hsz. destruct (cfg_free c) eqn:Ef.
    - rewrite (memT_same st (bop c)) in * by (now rewrite cfg_free_bop). now apply (mem_conf orc more sane).
    - rewrite (bop_cfg c Ef) in *. destruct c; try discriminate Ef.
      + (* PushManifest *)
        destruct (push_manifest_cases st r t content media) as [E | [(st1 & what & EM & E & Hr) | (st1 & rp & cur & EM & Eg & Hne & Et & Hd & Hm & E)]];
          rewrite E in *.
        * apply (mem_conf orc more sane o st (PushManifest r t content media) HI H1 Hwf). exact Hsz.
        * exact Hr.
        * (* the tag already names this manifest: its descriptor *)
          cbn [snd bres_of_result bval_of_res conf_answer conf_ok desc_of].
          destruct HI as (HB & HR). pose proof (repos_ok_make_repo orc _ _ _ HR EM) as HR1.
          destruct (HR1 _ _ Eg) as (_ & Hx). destruct (x_tag _ _ Hx _ _ Et) as (_ & Hvd & _ & data & Hdg & Hsize).
          assert (Hv : vdigest all (mhash content) = true) by (rewrite Hd; apply (sane_vd _ _ sane); exact Hvd).
          split; [rewrite <- Hd; apply (sane_hash _ _ sane); exact Hv|]. split; [|exact Hm].
          rewrite Hsize. f_equal. symmetry. apply (sane_inj _ _ sane); [congruence | exact Hv].
      + destruct (delete_cases st (DeleteBlob r d) HI I) as [E | (what & E & Hr)]; rewrite E in *;
          [apply (mem_conf orc more sane o st (DeleteBlob r d) HI H1 Hwf); exact Hsz | exact Hr].
      + destruct (delete_cases st (DeleteManifest r d) HI I) as [E | (what & E & Hr)]; rewrite E in *;
          [apply (mem_conf orc more sane o st (DeleteManifest r d) HI H1 Hwf); exact Hsz | exact Hr].
      + destruct (delete_cases st (DeleteTag r t) HI I) as [E | (what & E & Hr)]; rewrite E in *;
          [apply (mem_conf orc more sane o st (DeleteTag r t) HI H1 Hwf); exact Hsz | exact Hr].
  Qed.

  (* ---------------------------------------------------------- related states *)

  Lemma refers_to_manifests rp1 rp2 : manifests rp1 = manifests rp2 ->
    forall f refs d, refers_to img idx f rp1 refs d = refers_to img idx f rp2 refs d.
  Proof.
    intros Hm. induction f as [|f IH]; intros refs d; [reflexivity|].
    rewrite !(MemReach.refers_to_S img idx). induction refs as [|[k de] rest IHr]; cbn [MemReach.refs_go]; [reflexivity|].
    destruct (beqb (d_digest de) d); [reflexivity|]. rewrite Hm, IHr.
    destruct k; try reflexivity;
      (destruct (alookup (d_digest de) (manifests rp2)) as [b|]; [|reflexivity];
       destruct (manifest_refs img idx (b_media b) (b_data b)) as [rs|]; [|reflexivity]; now rewrite IH).
  Qed.

  Lemma trt_sim rp1 rp2 d : repo_sim rp1 rp2 -> trt rp1 d = trt rp2 d.
  Proof.
    intros (Ht & Hm & _). unfold Mem.tagged_refers_to, tag_refs. rewrite Ht, Hm. now apply refers_to_manifests.
  Qed.

  Ltac same := cbn [bres_of_result bval_of_res ans_sim rbind fst snd]; try (unfold val_sim; cbn [blob_op]); reflexivity.

  Lemma mem_sim_stepT s1 s2 c : InvM s2 -> simM s1 s2 -> one_call c = true ->
    ans_sim c (bres_of_result (snd (memT s1 c))) (bres_of_result (snd (memT s2 (bop c))))
    /\ simM (fst (memT s1 c)) (fst (memT s2 (bop c))).
  Proof.
    intros HI2 Hs H1. destruct (cfg_free c) eqn:Ef.
    - rewrite (memT_same s1 c Ef), (memT_same s2 (bop c)) by (now rewrite cfg_free_bop). now apply mem_sim_step.
    - rewrite (bop_cfg c Ef). pose proof Hs as (HA & HB). destruct c; try discriminate Ef; unfold mem_step; cbn [step].
      + (* PushManifest *)
        pose proof (sim_make_repo orc s1 s2 r Hs) as Hm.
        destruct (make_repo vr s1 r) as [t1|], (make_repo vr s2 r) as [t2|]; try contradiction; [|split; [same | exact Hs]].
        pose proof Hm as (_ & HB1). pose proof (HB1 r) as Hr.
        destruct (get_repo t1 r) as [rp1|], (get_repo t2 r) as [rp2|]; cbn in Hr; try contradiction; [|split; [same | exact Hm]].
        cbn [immutable_tags andb]. pose proof Hr as (Ht & Hmf & _). rewrite Ht, Hmf.
        assert (Hcm : check_manifest mhash vd img idx rp1 media content = check_manifest mhash vd img idx rp2 media content).
        { unfold check_manifest. destruct (manifest_refs img idx media content); [|reflexivity]. now apply (check_refs_sim orc). }
        rewrite Hcm.
        set (de := {| d_media := media; d_digest := mhash content; d_size := blen content; d_artifact := [] |}).
        assert (Hst : forall tt0 : bytes,
          let X (st1 : state) : state * result :=
            if match alookup (mhash content) (manifests rp2) with Some cur => negb (beqb (b_media cur) media) | None => false end
            then (st1, Err (E DENIED (s "mismatched media type")))
            else
            match check_descriptor mhash vd de (Some content) with
            | Some _ => (st1, Err (e_plain (s "invalid descriptor")))
            | None =>
                match check_manifest mhash vd img idx rp2 media content with
                | None => (st1, Err (e_plain (s "invalid manifest")))
                | Some subject =>
                    (upd_repo st1 r (fun rp0 =>
                       let rp1' := rp_set_manifest (mhash content) {| b_media := media; b_data := content; b_subject := subject |} rp0 in
                       match tt0 with [] => rp1' | _ => rp_set_tag tt0 de rp1' end), Ok (RDesc de))
                end
            end in
          ans_sim (PushManifest r t content media) (bres_of_result (snd (X t1))) (bres_of_result (snd (X t2)))
          /\ simM (fst (X t1)) (fst (X t2))).
        { intros tt0 X. unfold X.
          destruct (match alookup (mhash content) (manifests rp2) with Some cur => negb (beqb (b_media cur) media) | None => false end);
            [split; [same | exact Hm]|].
          destruct (check_descriptor mhash vd de (Some content)); [split; [same | exact Hm]|].
          destruct (check_manifest mhash vd img idx rp2 media content); [|split; [same | exact Hm]].
          cbn [fst snd]. split; [same|]. apply sim_upd_repo; [exact Hm|].
          apply rs_same.
          - intros rp0. destruct tt0; reflexivity.
          - intros ra rb Ht' Hmf'. destruct tt0; cbn; rewrite ?Ht', ?Hmf'; split; reflexivity. }
        destruct t as [|c0 t'].
        * apply (Hst []).
        * destruct (vt (c0 :: t')); cbn [negb]; [|split; [same | exact Hm]].
          destruct (alookup (c0 :: t') (tags rp2)) as [cur|]; [|apply (Hst (c0 :: t'))].
          destruct (beqb (mhash content) (d_digest cur)); [|split; [same | exact Hm]].
          destruct (beqb (d_media cur) media); split; try same; exact Hm.
      + (* DeleteBlob *)
        pose proof (blob_for_sim s1 s2 r d Hs) as Hb.
        destruct (blob_for s1 r d) as [b1|e1| |], (blob_for s2 r d) as [b2|e2| |]; try contradiction; cbn [fst snd].
        * pose proof (HB r) as Hr.
          destruct (get_repo s1 r) as [rp1|], (get_repo s2 r) as [rp2|] eqn:Eg2; cbn in Hr; try contradiction; [|split; [same | exact Hs]].
          cbn [immutable_tags]. rewrite (trt_sim rp1 rp2 d Hr). destruct (refers_ok s2 r rp2 d HI2 Eg2) as ([|] & ->); cbn [fst snd].
          -- split; [same | exact Hs].
          -- split; [same|]. apply sim_upd_repo; [exact Hs|]. intros. now apply rs_del_blob.
        * split; [cbn; now subst | exact Hs].
      + (* DeleteManifest *)
        pose proof (manifest_for_sim s1 s2 r d Hs) as Hb.
        destruct (manifest_for s1 r d) as [b1|e1| |], (manifest_for s2 r d) as [b2|e2| |]; try contradiction; subst;
          cbn [fst snd]; try (split; [same | exact Hs]).
        pose proof (HB r) as Hr.
        destruct (get_repo s1 r) as [rp1|], (get_repo s2 r) as [rp2|] eqn:Eg2; cbn in Hr; try contradiction; [|split; [same | exact Hs]].
        cbn [immutable_tags]. rewrite (trt_sim rp1 rp2 d Hr). destruct (refers_ok s2 r rp2 d HI2 Eg2) as ([|] & ->); cbn [fst snd].
        * split; [same | exact Hs].
        * split; [same|]. apply sim_upd_repo; [exact Hs|].
          apply rs_same; [reflexivity|]. intros ra rb Ht Hmf. cbn. rewrite Ht, Hmf. split; reflexivity.
      + (* DeleteTag *)
        pose proof (HB r) as Hr.
        destruct (get_repo s1 r) as [rp1|], (get_repo s2 r) as [rp2|]; cbn in Hr; try contradiction; [|split; [same | exact Hs]].
        destruct Hr as (Ht & _ & _). rewrite Ht. destruct (alookup t (tags rp2)); split; try same; exact Hs.
  Qed.

  (* ---------------------------------------------------------- the contract *)

  Lemma listing_free c : is_listing c = true -> cfg_free c = true.
  Proof. destruct c; try discriminate; reflexivity. Qed.

  Lemma read_only_free c : read_only c = true -> cfg_free c = true.
  Proof. destruct c; try discriminate; reflexivity. Qed.

  Lemma mstepT_same st c : cfg_free c = true -> mstepT st c = mstep orc st c.
  Proof. intros H. rewrite mstepT_eq, mstep_eq, (memT_same st c H). reflexivity. Qed.

  Lemma pages_well_same st mk full : (forall s0, cfg_free (mk s0) = true) ->
    pages_well state (mstep orc) st mk full -> pages_well state mstepT st mk full.
  Proof.
    intros Hf (A & B0 & C). split; [|split; assumption]. intros s0. rewrite (mstepT_same st _ (Hf s0)). apply A.
  Qed.

  Lemma session_same s2 rp dg content b8 tr :
    session_of state (mstep orc) s2 rp dg content b8 tr -> session_of state mstepT s2 rp dg content b8 tr.
  Proof.
    unfold session_of. destruct content as [|c0 content'].
    - intros (b1 & b2 & b3 & b4 & b5 & b7 & vw & vid & vcs & rc & vw2 & vd2 & rc2 & H).
      exists b1, b2, b3, b4, b5, b7, vw, vid, vcs, rc, vw2, vd2, rc2. rewrite !mstepT_same by reflexivity. exact H.
    - intros (b1 & b2 & b3 & b4 & b5 & b6 & b7 & vw & vid & vcs & rc & vw2 & vn & vd2 & rc2 & H).
      exists b1, b2, b3, b4, b5, b6, b7, vw, vid, vcs, rc, vw2, vn, vd2, rc2. rewrite !mstepT_same by reflexivity. exact H.
  Qed.

  Theorem mem_conforming_imm : Conforming all hashhex (orc_subject orc) enc0 state mstepT o InvM simM.
  Proof.
    pose proof (mem_conforming orc more sane o) as CF.
    constructor.
    - intros b c Hi. rewrite mstepT_eq. cbn [fst]. now apply invm_stepT.
    - intros b _. apply simM_refl.
    - intros b c Hi H1 Hwf. rewrite mstepT_eq. cbn [snd]. now apply mem_confT.
    - intros b1 b2 c _ Hi2 Hs H1 _. rewrite !mstepT_eq. cbn [fst snd]. now apply mem_sim_stepT.
    - intros b1 b2 c Hi1 Hi2 Hs Hl. rewrite !(mstepT_same _ c (listing_free c Hl)).
      exact (cf_step_list _ _ _ _ _ _ _ _ _ CF b1 b2 c Hi1 Hi2 Hs Hl).
    - intros b1 b2 c Hi2 Hs Hr. rewrite (mstepT_same _ c (read_only_free c Hr)).
      exact (cf_read _ _ _ _ _ _ _ _ _ CF b1 b2 c Hi2 Hs Hr).
    - intros b rp t b' v Hi Hwf E. rewrite (mstepT_same b (GetTag rp t) eq_refl) in E. rewrite (mstepT_same b' (ResolveTag rp t) eq_refl).
      exact (cf_tag_head _ _ _ _ _ _ _ _ _ CF b rp t b' v Hi Hwf E).
    - intros b c Hi Hl. rewrite (mstepT_same b c (listing_free c Hl)).
      destruct (cf_list _ _ _ _ _ _ _ _ _ CF b c Hi Hl) as [H | (full & H)]; [left; exact H | right].
      exists full. apply pages_well_same; [|exact H]. intros s0. destruct c; try discriminate Hl; reflexivity.
    - intros b1 b2 rp d data b1' v Hi1 Hi2 Hs Hwf E. rewrite (mstepT_same b1 (PushBlob rp d data) eq_refl) in E.
      destruct (cf_session _ _ _ _ _ _ _ _ _ CF b1 b2 rp d data b1' v Hi1 Hi2 Hs Hwf E) as (Hd & b8 & tr & Hse & Hs').
      split; [exact Hd|]. exists b8, tr. split; [now apply session_same | exact Hs'].
  Qed.

End MemImm.

Print Assumptions mem_conforming_imm.

(* ================================================================ the history theorem, ImmutableTags on *)

From OCI Require Import Proofs.StackJson Proofs.StackHistoryRun.
From OCI Require Proofs.StackMemRun.

Section ImmRun.
  Variable orc : oracles.
  Variable more : list (bytes * bytes * bytes).
  Variable sv : opts.
  Variable cc : ccfg.

  Notation so := (soracles_of orc more).

  Definition mem_admissible_imm : state -> list op -> Prop :=
    admissible (so_linked so) (so_hash so) (so_subject so) enc0 state (mstepT orc) sv cc.

  Theorem mem_history_transparent_imm h :
    orc_sane orc more -> MemRel.acyclic (orc_hash orc) (orc_img orc) (orc_idx orc) ->
    o_locs sv = None -> (1 <= cc_bufsz cc)%nat ->
    mem_admissible_imm init h ->
    Forall3 result_equiv h (snd (run (registry_of_backend (mstepT orc)) init h))
                           (snd (run (one_hop orc more true sv cc) (sstate0 init) h))
    /\ simM (fst (run (registry_of_backend (mstepT orc)) init h))
            (sv_b (st_srv (fst (run (one_hop orc more true sv cc) (sstate0 init) h)))).
  Proof.
    intros Hs Hac Hl Hk Ha. unfold one_hop.
    apply (history_transparent_run so sv cc state (mstepT orc) (InvM orc) simM init h
             (mem_conforming_imm orc more Hs Hac sv) Hl Hk (invm_init orc) Ha).
  Qed.
End ImmRun.

Print Assumptions mem_history_transparent_imm.

Module ImmExample.
  Import Smoke.

  (* the oracle tables of the smoke test decode no image manifest and no index: nothing refers to anything *)
  Lemma smoke_acyclic : MemRel.acyclic (orc_hash orc) (orc_img orc) (orc_idx orc).
  Proof.
    exists (fun _ => 0%nat). intros media data k c _ Hin. exfalso. unfold children in Hin.
    destruct (beqb media MT_IMAGE); [exact Hin|]. destruct (beqb media MT_INDEX); exact Hin.
  Qed.

  (* a tag is set, deleting it is refused, setting it to another manifest is refused *)
  Definition ihist : list op :=
    [ PushManifest repo1 tag1 man1 mt;
      DeleteTag repo1 tag1;
      ResolveTag repo1 tag1;
      DeleteManifest repo1 (dg man1) ].

  Ltac bools := repeat split; vm_compute; reflexivity.
  Ltac sizes := vm_compute; try split; discriminate.

  Lemma ihist_admissible : mem_admissible_imm orc [] default_opts default_ccfg init ihist.
  Proof.
    unfold mem_admissible_imm, ihist.
    eapply StackMemRun.Example.admissible_cons; [|vm_compute; reflexivity|].
    { split; [reflexivity|]. split.
      - cbn [wf_op]. split; [vm_compute; reflexivity|]. split; [left; vm_compute; reflexivity|].
        split; [discriminate|]. vm_compute. discriminate.
      - split; [sizes | exact I]. }
    eapply StackMemRun.Example.admissible_cons; [|vm_compute; reflexivity|].
    { split; [reflexivity|]. split; [bools|]. split; [vm_compute; exact I | exact I]. }
    eapply StackMemRun.Example.admissible_cons; [|vm_compute; reflexivity|].
    { split; [reflexivity|]. split; [bools|]. split; [sizes | exact I]. }
    eapply StackMemRun.Example.admissible_cons; [|vm_compute; reflexivity|].
    { split; [reflexivity|]. split; [bools|]. split; [vm_compute; exact I | exact I]. }
    exact I.
  Qed.

  (* the two refusals are in the history *)
  Example ihist_refusals :
    map (fun r => match r with Err e => Some (e_code e) | _ => None end)
        (snd (run (registry_of_backend (mstepT orc)) init ihist))
    = [None; Some DENIED; None; Some DENIED].
  Proof. vm_compute. reflexivity. Qed.

  Example ihist_transparent :
    Forall3 result_equiv ihist
      (snd (run (registry_of_backend (mstepT orc)) init ihist))
      (snd (run (one_hop orc [] true default_opts default_ccfg) (sstate0 init) ihist)).
  Proof.
    destruct (mem_history_transparent_imm orc [] default_opts default_ccfg ihist StackMemRun.Example.smoke_sane smoke_acyclic
                eq_refl ltac:(vm_compute; lia) ihist_admissible) as (H & _).
    exact H.
  Qed.
End ImmExample.

Print Assumptions ImmExample.ihist_transparent.
