From OCI Require Import Model.Funcs.

Lemma call_no_panic t m args : call t m args <> CPanic.
Proof.
  unfold call, guard, callee, new_error.
  destruct (field_set t m); [discriminate|].
  destruct (negb (t_nil t) && t_ctor t); discriminate.
Qed.

Lemma call_delegates t m args :
  t_nil t = false -> t_set t m = true -> call t m args = CDelegated m args.
Proof.
  intros Hn Hs. unfold call, guard, callee, field_set. rewrite Hn, Hs. reflexivity.
Qed.

Lemma call_unset t m args :
  (t_nil t = true \/ t_set t m = false) ->
  call t m args =
    if negb (t_nil t) && t_ctor t
    then CCtorError (method_name m) (repo_arg m args) (if is_iter m then 1 else 0)
    else CUnsupported (method_name m) (if is_iter m then 1 else 0).
Proof.
  intros H. unfold call, guard, field_set, new_error, err_name.
  assert (E : negb (t_nil t) && t_set t m = false).
  { destruct H as [-> | ->]; [reflexivity | apply andb_false_r]. }
  rewrite E. destruct (negb (t_nil t) && t_ctor t); destruct m; reflexivity.
Qed.

Lemma call_nil t m args :
  t_nil t = true ->
  call t m args = CUnsupported (method_name m) (if is_iter m then 1 else 0).
Proof.
  intros H. rewrite call_unset by auto. rewrite H. reflexivity.
Qed.

Lemma call_independent t t' m args :
  t_nil t = t_nil t' -> t_ctor t = t_ctor t' -> t_set t m = t_set t' m ->
  call t m args = call t' m args.
Proof.
  intros H1 H2 H3. unfold call, guard, callee, field_set, new_error.
  rewrite H1, H2, H3. reflexivity.
Qed.
