(* C01, content integrity, for the in-memory registry (Model/Mem.v) and the manifest PUT by
   digest of the server in front of it (Model/IntegritySpec.v [xstep]):

     store_inv                      whatever is stored under a digest hashes to it, in every
                                    reachable state (from Proofs/MemInv.v, extended to xstep)
     get_blob_spec ... range        what a successful read returns in a well-formed state
     rejected_*                     a push whose declaration disagrees with its content fails
                                    and leaves the store as it was
     xrun_hist_ok                   every history of the model satisfies the property's
                                    specification [hist_ok] (invariant [Rel] between the state
                                    and the log, preserved by every operation) *)
From Coq Require Import String.
From OCI Require Import Model.Mem Model.MemSpec Proofs.MemBasics Proofs.MemInv Model.IntegritySpec.

Local Open Scope Z_scope.

Section Integrity.
  Variable hash : bytes -> bytes.
  Variable valid_digest : bytes -> bool.
  Variable valid_repo : bytes -> bool.
  Variable valid_tag : bytes -> bool.
  Variable decode_image : bytes -> option image_manifest.
  Variable decode_index : bytes -> option index_manifest.
  Variable cfg : config.
  Variable subject_json_ok : bytes -> bytes -> bool.

  Local Notation step := (step hash valid_digest valid_repo valid_tag decode_image decode_index cfg).
  Local Notation xstep := (xstep hash valid_digest valid_repo valid_tag decode_image decode_index cfg subject_json_ok).
  Local Notation xrun := (xrun hash valid_digest valid_repo valid_tag decode_image decode_index cfg subject_json_ok).
  Local Notation Inv := (Inv hash decode_image decode_index).
  Local Notation check_descriptor := (check_descriptor hash valid_digest).
  Local Notation make_repo := (make_repo valid_repo).
  Local Notation blob_desc := (blob_desc hash).

  (* ------------------------------------------------------------------ store invariant *)

  Lemma inv_xstep st x : Inv st -> Inv (fst (xstep st x)).
  Proof.
    intros HI. destruct x as [o|r d c m]; cbn [IntegritySpec.xstep].
    - now apply inv_step.
    - destruct (negb (valid_digest d)); [exact HI|].
      destruct (negb (beqb d (hash c))); [exact HI|].
      destruct (negb (subject_json_ok m c)); [exact HI|].
      now apply inv_step.
  Qed.

  Lemma inv_xrun h : forall st past, Inv st -> Inv (fst (xrun st past h)).
  Proof.
    induction h as [|x h IH]; intros st past HI; cbn; [exact HI|].
    pose proof (inv_xstep st x HI) as H1. destruct (xstep st x) as [st1 r]. now apply IH.
  Qed.

  (* C01 theorem 1 *)
  Theorem store_inv h r d b :
    let st := fst (xrun init [] h) in
    (iblob st r d = Some b -> hash (b_data b) = d) /\
    (iman st r d = Some b -> hash (b_data b) = d).
  Proof.
    intros st. assert (HI : Inv st) by (apply inv_xrun, inv_init).
    split; intros H.
    - eapply inv_iblob; eauto.
    - eapply inv_iman; eauto.
  Qed.

  (* ------------------------------------------------------------------ reads *)

  Lemma blob_for_iblob st r d b : blob_for st r d = Ok b <-> iblob st r d = Some b.
  Proof.
    unfold blob_for, iblob. destruct (get_repo st r) as [rp|]; [|split; discriminate].
    destruct (alookup d (blobs rp)); split; congruence.
  Qed.
  Lemma manifest_for_iman st r d b : manifest_for st r d = Ok b <-> iman st r d = Some b.
  Proof.
    unfold manifest_for, iman. destruct (get_repo st r) as [rp|]; [|split; discriminate].
    destruct (alookup d (manifests rp)); split; congruence.
  Qed.
  Lemma blob_for_cases st r d : (exists b, blob_for st r d = Ok b) \/ (exists e, blob_for st r d = Err e).
  Proof.
    unfold blob_for. destruct (get_repo st r) as [rp|]; [|right; eauto].
    destruct (alookup d (blobs rp)); [left|right]; eauto.
  Qed.
  Lemma manifest_for_cases st r d : (exists b, manifest_for st r d = Ok b) \/ (exists e, manifest_for st r d = Err e).
  Proof.
    unfold manifest_for. destruct (get_repo st r) as [rp|]; [|right; eauto].
    destruct (alookup d (manifests rp)); [left|right]; eauto.
  Qed.

  (* C01 theorem 2, complete reads *)
  Theorem get_blob_spec st r d de data :
    Inv st -> snd (step st (GetBlob r d)) = Ok (RRead de data) ->
    exists b, iblob st r d = Some b /\ data = b_data b /\
              hash data = d /\ d_digest de = d /\ d_size de = blen data.
  Proof.
    intros HI. cbn. destruct (blob_for_cases st r d) as [[b E]|[e E]]; rewrite E; cbn; [|discriminate].
    intros H; injection H as <- <-. apply blob_for_iblob in E. exists b.
    pose proof (inv_iblob _ _ _ _ _ _ _ HI E) as Hh. cbn. repeat split; auto.
  Qed.

  Theorem get_manifest_spec st r d de data :
    Inv st -> snd (step st (GetManifest r d)) = Ok (RRead de data) ->
    exists b, iman st r d = Some b /\ data = b_data b /\
              hash data = d /\ d_digest de = d /\ d_size de = blen data.
  Proof.
    intros HI. cbn. destruct (manifest_for_cases st r d) as [[b E]|[e E]]; rewrite E; cbn; [|discriminate].
    intros H; injection H as <- <-. apply manifest_for_iman in E. exists b.
    destruct (inv_iman _ _ _ _ _ _ _ HI E) as [Hh _]. cbn. repeat split; auto.
  Qed.

  Theorem get_tag_spec st r t de data :
    Inv st -> snd (step st (GetTag r t)) = Ok (RRead de data) ->
    exists td b, itag st r t = Some td /\ iman st r (d_digest td) = Some b /\ data = b_data b /\
                 hash data = d_digest td /\ d_digest de = d_digest td /\ d_size de = blen data.
  Proof.
    intros HI. cbn. unfold itag. destruct (get_repo st r) as [rp|] eqn:ER; [|discriminate].
    destruct (alookup t (tags rp)) as [td|] eqn:ET; [|discriminate].
    destruct (manifest_for_cases st r (d_digest td)) as [[b E]|[e E]]; rewrite E; cbn; [|discriminate].
    intros H; injection H as <- <-. apply manifest_for_iman in E. exists td, b.
    destruct (inv_iman _ _ _ _ _ _ _ HI E) as [Hh _]. cbn. repeat split; auto.
  Qed.

  (* C01 theorem 2, range reads: the slice [o0, o1') of the stored bytes with the descriptor
     of the whole blob *)
  Theorem get_blob_range_spec st r d o0 o1 de data :
    Inv st -> snd (step st (GetBlobRange r d o0 o1)) = Ok (RRead de data) ->
    exists b, iblob st r d = Some b /\
              let e := clamp (blen (b_data b)) o1 in
              0 <= o0 <= e /\ data = slice (b_data b) o0 e /\
              hash (b_data b) = d /\ d_digest de = d /\ d_size de = blen (b_data b).
  Proof.
    intros HI. cbn. destruct (blob_for_cases st r d) as [[b E]|[e E]]; rewrite E; cbn; [|discriminate].
    fold (clamp (blen (b_data b)) o1).
    destruct ((o0 <? 0) || (o0 >? clamp (blen (b_data b)) o1)) eqn:EB; [discriminate|].
    intros H; injection H as <- <-. apply blob_for_iblob in E. exists b.
    pose proof (inv_iblob _ _ _ _ _ _ _ HI E) as Hh. cbn.
    apply orb_false_iff in EB as [E1 E2]. apply Z.ltb_ge in E1.
    rewrite Z.gtb_ltb in E2. apply Z.ltb_ge in E2. repeat split; auto.
  Qed.

  (* the range read fails exactly when the clamped range is not a range *)
  Theorem get_blob_range_fails st r d o0 o1 b :
    iblob st r d = Some b ->
    let e := clamp (blen (b_data b)) o1 in
    is_err (snd (step st (GetBlobRange r d o0 o1))) = (o0 <? 0) || (o0 >? e).
  Proof.
    intros E. apply blob_for_iblob in E. cbn. rewrite E. cbn.
    fold (clamp (blen (b_data b)) o1). now destruct ((o0 <? 0) || (o0 >? clamp (blen (b_data b)) o1)).
  Qed.

  (* ------------------------------------------------------------------ rejected pushes *)

  Lemma check_descriptor_none de c :
    check_descriptor de (Some c) = None <->
    valid_digest (d_digest de) = true /\ hash c = d_digest de /\ d_size de = blen c /\ d_media de <> [].
  Proof.
    unfold Mem.check_descriptor.
    destruct (valid_digest (d_digest de)); cbn; [|split; [discriminate | intros [H _]; discriminate]].
    destruct (beqb (hash c) (d_digest de)) eqn:EH; cbn.
    - apply beqb_eq in EH. destruct (d_size de =? blen c) eqn:ES; cbn.
      + apply Z.eqb_eq in ES. destruct (d_media de); split; try discriminate; auto.
        * intros (_ & _ & _ & H). congruence.
        * intros _. repeat split; auto. discriminate.
      + apply Z.eqb_neq in ES. split; [discriminate | intros (_ & _ & H & _); contradiction].
    - apply beqb_neq in EH. split; [discriminate | intros (_ & H & _); contradiction].
  Qed.

  (* C01 theorem 3: a push whose declared digest or size disagrees with the content is an
     error and the state is the state before *)
  Theorem rejected_push_blob st r de c :
    hash c <> d_digest de \/ d_size de <> blen c ->
    exists e, step st (PushBlob r de c) = (st, Err e).
  Proof.
    intros H. cbn. destruct (check_descriptor de (Some c)) as [e|] eqn:EC; [eauto|].
    apply check_descriptor_none in EC as (_ & H1 & H2 & _). destruct H; contradiction.
  Qed.

  Theorem rejected_put_manifest st r d c m :
    hash c <> d -> exists e, xstep st (XPutManifest r d c m) = (st, Err e).
  Proof.
    intros H. cbn. destruct (negb (valid_digest d)); [eauto|].
    destruct (beqb d (hash c)) eqn:E; [apply beqb_eq in E; congruence|]. cbn. eauto.
  Qed.

  (* Commit with a digest that is not the digest of the buffered bytes: an error; every
     repository (blobs, manifests, tags) is as before — only the session records the error *)
  Theorem rejected_commit st w d b :
    nth_error (bufs st) (N.to_nat w) = Some b -> hash (u_buf b) <> d ->
    exists e, snd (step st (WCommit w d)) = Err e /\ repos (fst (step st (WCommit w d))) = repos st.
  Proof.
    intros Hn Hh. cbn. rewrite Hn. destruct (u_err b) as [e|]; [cbn; eauto|].
    destruct (beqb (hash (u_buf b)) d) eqn:E; [apply beqb_eq in E; contradiction|]. cbn. eauto.
  Qed.

  (* what the repositories hold is a function of [repos]: nothing is retrievable afterwards
     that was not retrievable before *)
  Lemma views_of_repos st st' :
    repos st' = repos st ->
    (forall r d, iblob st' r d = iblob st r d) /\ (forall r d, iman st' r d = iman st r d) /\
    (forall r t, itag st' r t = itag st r t).
  Proof. intros H. unfold iblob, iman, itag, get_repo. rewrite H. auto. Qed.
End Integrity.

(* ====================================================================== histories *)

(* log lookups are monotone in the log *)
Section LogFacts.
  Variable sha : bytes -> bytes.

  Definition write_ok (e : entry) : bool :=
    match e with (XO (WWrite _ _), p) => succ p | _ => false end.

  Definition opens (e : entry) (w : N) : bool :=
    match e with
    | (XO (PushBlobChunked _ _), PWriter w') | (XO (PushBlobChunkedResume _ _ _ _), PWriter w') => N.eqb w' w
    | _ => false
    end.

  (* no Commit and no Cancel was ever addressed to writer w *)
  Definition clean (past : list entry) (w : N) : bool :=
    forallb (fun e : entry =>
               match e with
               | (XO (WCommit w' _), _) | (XO (WCancel w'), _) => negb (N.eqb w' w)
               | _ => true
               end) past.

  Lemma written_cons e past w : write_ok e = false -> written (e :: past) w = written past w.
  Proof.
    destruct e as [[o|r d c m] p]; [|reflexivity]. destruct o; try reflexivity.
    cbn. intros ->. now rewrite andb_false_r.
  Qed.

  Lemma written_cons_write w data p past w' :
    succ p = true ->
    written ((XO (WWrite w data), p) :: past) w' = if N.eqb w w' then written past w' ++ data else written past w'.
  Proof. intros H. cbn. rewrite H, andb_true_r. reflexivity. Qed.

  Lemma mem_bytes_app c l1 l2 : mem_bytes c l2 = true -> mem_bytes c (l1 ++ l2) = true.
  Proof. rewrite !mem_bytes_In. intros H. apply in_or_app. now right. Qed.

  Lemma contents_cons e past c : mem_bytes c (contents past) = true -> mem_bytes c (contents (e :: past)) = true.
  Proof. destruct e as [x p]. cbn [contents]. apply mem_bytes_app. Qed.

  Lemma contents_incl e past : incl (contents past) (contents (e :: past)).
  Proof. destruct e as [x p]. cbn [contents]. intros c H. apply in_or_app. now right. Qed.

  Lemma blob_targeted_cons e past r d : blob_targeted past r d = true -> blob_targeted (e :: past) r d = true.
  Proof. destruct e as [x p]. cbn [blob_targeted]. intros ->. apply orb_true_r. Qed.

  Lemma man_pushed_cons e past r c : man_pushed past r c = true -> man_pushed (e :: past) r c = true.
  Proof. unfold man_pushed. cbn [existsb]. intros ->. apply orb_true_r. Qed.

  Lemma tag_targeted_cons e past r t d : tag_targeted sha past r t d = true -> tag_targeted sha (e :: past) r t d = true.
  Proof. unfold tag_targeted. cbn [existsb]. intros ->. apply orb_true_r. Qed.

  Lemma writer_repo_cons e past w r : writer_repo past w r = true -> writer_repo (e :: past) w r = true.
  Proof. unfold writer_repo. cbn [existsb]. intros ->. apply orb_true_r. Qed.

  Lemma writer_repo_cons_inv e past w r :
    writer_repo (e :: past) w r = true -> opens e w = true \/ writer_repo past w r = true.
  Proof.
    unfold writer_repo. cbn [existsb]. intros H. apply orb_true_iff in H as [H|H]; [left|now right].
    destruct e as [[o|? ? ? ?] p]; [|discriminate]. destruct o; try discriminate; destruct p; try discriminate;
      cbn in *; now apply andb_true_iff in H as [H _].
  Qed.

  Lemma clean_cons e past w : clean (e :: past) w = true -> clean past w = true.
  Proof. unfold clean. cbn [forallb]. intros H. now apply andb_true_iff in H as [_ H]. Qed.

  Lemma blob_just_cons e past r d c : blob_just sha past r d c = true -> blob_just sha (e :: past) r d c = true.
  Proof.
    unfold blob_just. intros H. apply andb_true_iff in H as [H H3]. apply andb_true_iff in H as [H1 H2].
    rewrite H1, (contents_cons _ _ _ H2), (blob_targeted_cons _ _ _ _ H3). reflexivity.
  Qed.

  Lemma fresh_clean past w : fresh past w = true -> clean past w = true.
  Proof.
    unfold fresh, clean. intros H. apply andb_true_iff in H as [_ H].
    rewrite forallb_forall in *. intros e He. specialize (H e He).
    destruct e as [[o|? ? ? ?] p]; [|reflexivity]. destruct o; try reflexivity; exact H.
  Qed.

  Lemma fresh_opened past w : fresh past w = true -> exists e, In e past /\ opens e w = true.
  Proof.
    unfold fresh. intros H. apply andb_true_iff in H as [H _]. apply existsb_exists in H as [e [He H]].
    exists e. split; [exact He|]. destruct e as [[o|? ? ? ?] p]; [|discriminate].
    destruct o; try discriminate; destruct p; try discriminate. exact H.
  Qed.
End LogFacts.

Section Hist.
  Variable hash : bytes -> bytes.
  Variable valid_digest : bytes -> bool.
  Variable valid_repo : bytes -> bool.
  Variable valid_tag : bytes -> bool.
  Variable decode_image : bytes -> option image_manifest.
  Variable decode_index : bytes -> option index_manifest.
  Variable cfg : config.
  Variable subject_json_ok : bytes -> bytes -> bool.

  Local Notation step := (step hash valid_digest valid_repo valid_tag decode_image decode_index cfg).
  Local Notation xstep := (xstep hash valid_digest valid_repo valid_tag decode_image decode_index cfg subject_json_ok).
  Local Notation xrun := (xrun hash valid_digest valid_repo valid_tag decode_image decode_index cfg subject_json_ok).
  Local Notation Inv := (Inv hash decode_image decode_index).
  Local Notation check_descriptor := (check_descriptor hash valid_digest).
  Local Notation make_repo := (make_repo valid_repo).
  Local Notation check := (check hash valid_digest valid_repo).
  Local Notation tag_targeted := (tag_targeted hash).
  Local Notation blob_just := (blob_just hash).

  (* the invariant that ties a state of the model to the log that produced it *)
  Record Rel (st : state) (past : list entry) : Prop := {
    rel_inv : Inv st;
    rel_blob : forall r d b, iblob st r d = Some b ->
                 mem_bytes (b_data b) (contents past) = true /\ blob_targeted past r d = true;
    rel_man : forall r d b, iman st r d = Some b -> man_pushed past r (b_data b) = true;
    rel_tag : forall r t de, itag st r t = Some de -> tag_targeted past r t (d_digest de) = true;
    rel_buf : forall w b, nth_error (bufs st) (N.to_nat w) = Some b ->
                 u_buf b = written past w /\ writer_repo past w (u_repo b) = true /\
                 (clean past w = true -> u_err b = None);
    rel_nobuf : forall w, nth_error (bufs st) (N.to_nat w) = None ->
                 written past w = [] /\ forall e, In e past -> opens e w = false
  }.

  Lemma rel_init : Rel init [].
  Proof.
    constructor; cbn; try discriminate.
    - apply inv_init.
    - intros w b H. destruct (N.to_nat w); discriminate.
    - intros w _. split; [reflexivity | intros e []].
  Qed.

  (* the general preservation lemma for every operation except a successful Write *)
  Lemma rel_next st st' past e :
    Rel st past -> Inv st' -> write_ok e = false ->
    (forall r d b, iblob st' r d = Some b ->
       iblob st r d = Some b \/
       (mem_bytes (b_data b) (contents (e :: past)) = true /\ blob_targeted (e :: past) r d = true)) ->
    (forall r d b, iman st' r d = Some b ->
       iman st r d = Some b \/ man_pushed (e :: past) r (b_data b) = true) ->
    (forall r t de, itag st' r t = Some de ->
       itag st r t = Some de \/ tag_targeted (e :: past) r t (d_digest de) = true) ->
    (forall w b', nth_error (bufs st') (N.to_nat w) = Some b' ->
       (exists b, nth_error (bufs st) (N.to_nat w) = Some b /\ u_buf b' = u_buf b /\ u_repo b' = u_repo b /\
                  (clean (e :: past) w = true -> u_err b' = u_err b)) \/
       (nth_error (bufs st) (N.to_nat w) = None /\ u_buf b' = [] /\ u_err b' = None /\
        writer_repo (e :: past) w (u_repo b') = true)) ->
    (forall w, nth_error (bufs st') (N.to_nat w) = None -> nth_error (bufs st) (N.to_nat w) = None /\ opens e w = false) ->
    Rel st' (e :: past).
  Proof.
    intros HR HI Hw Hb Hm Ht Hbuf Hnb. constructor.
    - exact HI.
    - intros r d b H. destruct (Hb _ _ _ H) as [H0|H0]; [|exact H0].
      destruct (rel_blob _ _ HR _ _ _ H0) as [A B]. split; [now apply contents_cons | now apply blob_targeted_cons].
    - intros r d b H. destruct (Hm _ _ _ H) as [H0|H0]; [|exact H0].
      apply man_pushed_cons. eapply rel_man; eauto.
    - intros r t de H. destruct (Ht _ _ _ H) as [H0|H0]; [|exact H0].
      apply tag_targeted_cons. eapply rel_tag; eauto.
    - intros w b' H. rewrite (written_cons _ _ _ Hw).
      destruct (Hbuf _ _ H) as [[b [Hn [E1 [E2 E3]]]]|[Hn [E1 [E2 E3]]]].
      + destruct (rel_buf _ _ HR _ _ Hn) as [A [B C]]. rewrite E1, E2. split; [exact A|]. split.
        * now apply writer_repo_cons.
        * intros Hc. rewrite (E3 Hc). apply C. eapply clean_cons; eauto.
      + destruct (rel_nobuf _ _ HR _ Hn) as [A _]. rewrite E1, A. auto.
    - intros w H. destruct (Hnb _ H) as [Hn Ho]. destruct (rel_nobuf _ _ HR _ Hn) as [A B].
      rewrite (written_cons _ _ _ Hw). split; [exact A|]. intros e' [<-|Hin]; auto.
  Qed.

  (* ... specialised to a state whose views and buffers did not change *)
  Lemma rel_same st st' past e :
    Rel st past -> Inv st' -> write_ok e = false -> (forall w, opens e w = false) ->
    (forall r d, iblob st' r d = iblob st r d) -> (forall r d, iman st' r d = iman st r d) ->
    (forall r t, itag st' r t = itag st r t) -> bufs st' = bufs st ->
    Rel st' (e :: past).
  Proof.
    intros HR HI Hw Ho Eb Em Et Ebuf. apply (rel_next st st' past e HR HI Hw).
    - intros r d b H. left. now rewrite <- Eb.
    - intros r d b H. left. now rewrite <- Em.
    - intros r t de H. left. now rewrite <- Et.
    - intros w b' H. left. exists b'. rewrite <- Ebuf. auto.
    - intros w H. rewrite <- Ebuf. auto.
  Qed.

  (* ---- how each store update changes the three views ---- *)

  Lemma iblob_unfold st r d : iblob st r d = match get_repo st r with Some rp => alookup d (blobs rp) | None => None end.
  Proof. reflexivity. Qed.

  Lemma views_set_blob st r d b :
    (forall r' d' b', iblob (upd_repo st r (rp_set_blob d b)) r' d' = Some b' ->
                      (r' = r /\ d' = d /\ b' = b) \/ iblob st r' d' = Some b') /\
    (forall r' d', iman (upd_repo st r (rp_set_blob d b)) r' d' = iman st r' d') /\
    (forall r' t, itag (upd_repo st r (rp_set_blob d b)) r' t = itag st r' t).
  Proof.
    repeat split.
    - intros r' d' b'. rewrite iblob_upd. destruct (beqb r' r) eqn:E; [|auto].
      apply beqb_eq in E. subst r'. unfold iblob. destruct (get_repo st r) as [rp|]; [|discriminate].
      cbn. rewrite alookup_aset. destruct (beqb d' d) eqn:E2; [|auto].
      apply beqb_eq in E2. intros H; injection H as <-. auto.
    - intros r' d'. rewrite iman_upd. destruct (beqb r' r) eqn:E; [|reflexivity].
      apply beqb_eq in E. subst r'. unfold iman. now destruct (get_repo st r).
    - intros r' t. rewrite itag_upd. destruct (beqb r' r) eqn:E; [|reflexivity].
      apply beqb_eq in E. subst r'. unfold itag. now destruct (get_repo st r).
  Qed.

  Lemma views_del_blob st r d :
    (forall r' d' b', iblob (upd_repo st r (rp_del_blob d)) r' d' = Some b' -> iblob st r' d' = Some b') /\
    (forall r' d', iman (upd_repo st r (rp_del_blob d)) r' d' = iman st r' d') /\
    (forall r' t, itag (upd_repo st r (rp_del_blob d)) r' t = itag st r' t).
  Proof.
    repeat split.
    - intros r' d' b'. rewrite iblob_upd. destruct (beqb r' r) eqn:E; [|auto].
      apply beqb_eq in E. subst r'. unfold iblob. destruct (get_repo st r) as [rp|]; [|discriminate].
      cbn. rewrite alookup_adel. destruct (beqb d' d); [discriminate | auto].
    - intros r' d'. rewrite iman_upd. destruct (beqb r' r) eqn:E; [|reflexivity].
      apply beqb_eq in E. subst r'. unfold iman. now destruct (get_repo st r).
    - intros r' t. rewrite itag_upd. destruct (beqb r' r) eqn:E; [|reflexivity].
      apply beqb_eq in E. subst r'. unfold itag. now destruct (get_repo st r).
  Qed.

  Lemma views_del_manifest st r d :
    (forall r' d', iblob (upd_repo st r (rp_del_manifest d)) r' d' = iblob st r' d') /\
    (forall r' d' b', iman (upd_repo st r (rp_del_manifest d)) r' d' = Some b' -> iman st r' d' = Some b') /\
    (forall r' t, itag (upd_repo st r (rp_del_manifest d)) r' t = itag st r' t).
  Proof.
    repeat split.
    - intros r' d'. rewrite iblob_upd. destruct (beqb r' r) eqn:E; [|reflexivity].
      apply beqb_eq in E. subst r'. unfold iblob. now destruct (get_repo st r).
    - intros r' d' b'. rewrite iman_upd. destruct (beqb r' r) eqn:E; [|auto].
      apply beqb_eq in E. subst r'. unfold iman. destruct (get_repo st r) as [rp|]; [|discriminate].
      cbn. rewrite alookup_adel. destruct (beqb d' d); [discriminate | auto].
    - intros r' t. rewrite itag_upd. destruct (beqb r' r) eqn:E; [|reflexivity].
      apply beqb_eq in E. subst r'. unfold itag. now destruct (get_repo st r).
  Qed.

  Lemma views_del_tag st r t :
    (forall r' d', iblob (upd_repo st r (rp_del_tag t)) r' d' = iblob st r' d') /\
    (forall r' d', iman (upd_repo st r (rp_del_tag t)) r' d' = iman st r' d') /\
    (forall r' t' de, itag (upd_repo st r (rp_del_tag t)) r' t' = Some de -> itag st r' t' = Some de).
  Proof.
    repeat split.
    - intros r' d'. rewrite iblob_upd. destruct (beqb r' r) eqn:E; [|reflexivity].
      apply beqb_eq in E. subst r'. unfold iblob. now destruct (get_repo st r).
    - intros r' d'. rewrite iman_upd. destruct (beqb r' r) eqn:E; [|reflexivity].
      apply beqb_eq in E. subst r'. unfold iman. now destruct (get_repo st r).
    - intros r' t' de. rewrite itag_upd. destruct (beqb r' r) eqn:E; [|auto].
      apply beqb_eq in E. subst r'. unfold itag. destruct (get_repo st r) as [rp|]; [|discriminate].
      cbn. rewrite alookup_adel. destruct (beqb t' t); [discriminate | auto].
  Qed.

  (* the store branch of PushManifest *)
  Definition store_manifest (dig : bytes) (b : blob) (t : bytes) (de : desc) (rp : repo) : repo :=
    let rp1 := rp_set_manifest dig b rp in match t with [] => rp1 | _ => rp_set_tag t de rp1 end.

  Lemma views_store_manifest st r dig b t de :
    (forall r' d', iblob (upd_repo st r (store_manifest dig b t de)) r' d' = iblob st r' d') /\
    (forall r' d' b', iman (upd_repo st r (store_manifest dig b t de)) r' d' = Some b' ->
                      (r' = r /\ b' = b) \/ iman st r' d' = Some b') /\
    (forall r' t' de', itag (upd_repo st r (store_manifest dig b t de)) r' t' = Some de' ->
                       (r' = r /\ t' = t /\ t <> [] /\ de' = de) \/ itag st r' t' = Some de').
  Proof.
    repeat split.
    - intros r' d'. rewrite iblob_upd. destruct (beqb r' r) eqn:E; [|reflexivity].
      apply beqb_eq in E. subst r'. unfold iblob. destruct (get_repo st r); [|reflexivity].
      unfold store_manifest. now destruct t.
    - intros r' d' b'. rewrite iman_upd. destruct (beqb r' r) eqn:E; [|auto].
      apply beqb_eq in E. subst r'. unfold iman. destruct (get_repo st r) as [rp|]; [|discriminate].
      assert (manifests (store_manifest dig b t de rp) = aset dig b (manifests rp)) as ->
        by (unfold store_manifest; now destruct t).
      rewrite alookup_aset. destruct (beqb d' dig); [|auto]. intros H; injection H as <-. auto.
    - intros r' t' de'. rewrite itag_upd. destruct (beqb r' r) eqn:E; [|auto].
      apply beqb_eq in E. subst r'. unfold itag. destruct (get_repo st r) as [rp|]; [|discriminate].
      unfold store_manifest. destruct t as [|c t0]; cbn; [auto|].
      rewrite alookup_aset. destruct (beqb t' (c :: t0)) eqn:E2; [|auto].
      apply beqb_eq in E2. intros H; injection H as <-. left. repeat split; auto. discriminate.
  Qed.

  Lemma views_make_repo st r st1 :
    make_repo st r = Some st1 ->
    (forall r' d, iblob st1 r' d = iblob st r' d) /\ (forall r' d, iman st1 r' d = iman st r' d) /\
    (forall r' t, itag st1 r' t = itag st r' t) /\ bufs st1 = bufs st.
  Proof.
    intros H. destruct (make_repo_views _ _ _ _ H) as (A & B & C).
    apply make_repo_some in H as (_ & _ & D & _). auto.
  Qed.

  (* ---- one operation: its result passes the check, and the invariant is kept ---- *)

  Definition stepP (st : state) (past : list entry) (x : xop) : Prop :=
    check past x (proj (snd (xstep st x))) = true /\
    Rel (fst (xstep st x)) ((x, proj (snd (xstep st x))) :: past).

  Local Ltac same HR := apply rel_same with (1 := HR); auto; try reflexivity; try apply HR.

  Lemma step_get_blob st past r d : Rel st past -> stepP st past (XO (GetBlob r d)).
  Proof.
    intros HR. split; [|same HR]. cbn.
    destruct (blob_for_cases st r d) as [[b E]|[e E]]; rewrite E; cbn; [|reflexivity].
    apply blob_for_iblob in E. pose proof (inv_iblob _ _ _ _ _ _ _ (rel_inv _ _ HR) E) as Hh.
    destruct (rel_blob _ _ HR _ _ _ E) as [A B].
    unfold IntegritySpec.blob_just. now rewrite Hh, beqb_refl, Z.eqb_refl, A, B.
  Qed.

  Lemma step_get_blob_range st past r d o0 o1 : Rel st past -> stepP st past (XO (GetBlobRange r d o0 o1)).
  Proof.
    intros HR. split; [|same HR]. cbn.
    destruct (blob_for_cases st r d) as [[b E]|[e E]]; rewrite E; cbn; [|reflexivity].
    fold (clamp (blen (b_data b)) o1).
    destruct ((o0 <? 0) || (o0 >? clamp (blen (b_data b)) o1)) eqn:EB; cbn; [reflexivity|].
    apply blob_for_iblob in E. pose proof (inv_iblob _ _ _ _ _ _ _ (rel_inv _ _ HR) E) as Hh.
    destruct (rel_blob _ _ HR _ _ _ E) as [A B].
    rewrite Hh, beqb_refl. cbn. apply existsb_exists. exists (b_data b). split; [now apply mem_bytes_In|].
    apply orb_false_iff in EB as [E1 E2]. apply Z.ltb_ge in E1. rewrite Z.gtb_ltb in E2. apply Z.ltb_ge in E2.
    unfold IntegritySpec.blob_just. rewrite Hh, beqb_refl, Z.eqb_refl, A, B, beqb_refl. cbn.
    apply Z.leb_le in E1, E2. now rewrite E1, E2.
  Qed.

  Lemma step_get_manifest st past r d : Rel st past -> stepP st past (XO (GetManifest r d)).
  Proof.
    intros HR. split; [|same HR]. cbn.
    destruct (manifest_for_cases st r d) as [[b E]|[e E]]; rewrite E; cbn; [|reflexivity].
    apply manifest_for_iman in E. destruct (inv_iman _ _ _ _ _ _ _ (rel_inv _ _ HR) E) as [Hh _].
    now rewrite Hh, beqb_refl, Z.eqb_refl, (rel_man _ _ HR _ _ _ E).
  Qed.

  Lemma step_get_tag st past r t : Rel st past -> stepP st past (XO (GetTag r t)).
  Proof.
    intros HR. split; [|same HR]. cbn.
    destruct (get_repo st r) as [rp|] eqn:ER; [|reflexivity].
    destruct (alookup t (tags rp)) as [td|] eqn:ET; [|reflexivity].
    destruct (manifest_for_cases st r (d_digest td)) as [[b E]|[e E]]; rewrite E; cbn; [|reflexivity].
    apply manifest_for_iman in E. destruct (inv_iman _ _ _ _ _ _ _ (rel_inv _ _ HR) E) as [Hh _].
    assert (Ht : itag st r t = Some td) by (unfold itag; now rewrite ER).
    now rewrite Hh, beqb_refl, Z.eqb_refl, (rel_man _ _ HR _ _ _ E), (rel_tag _ _ HR _ _ _ Ht).
  Qed.

  Lemma step_push_blob st past r de c : Rel st past -> stepP st past (XO (PushBlob r de c)).
  Proof.
    intros HR. unfold stepP. cbn [IntegritySpec.xstep Mem.step].
    destruct (check_descriptor de (Some c)) as [e|] eqn:EC.
    - split; [|same HR]. cbn.
      destruct (beqb (hash c) (d_digest de) && (d_size de =? blen c)) eqn:E1; [|reflexivity].
      destruct (valid_repo r && valid_digest (d_digest de) && negb (is_nil (d_media de))) eqn:E2; [|reflexivity].
      exfalso. assert (check_descriptor de (Some c) = None); [|congruence].
      apply check_descriptor_none. apply andb_true_iff in E1 as [A B]. apply andb_true_iff in E2 as [E2 C].
      apply andb_true_iff in E2 as [_ D]. apply beqb_eq in A. apply Z.eqb_eq in B.
      repeat split; auto. destruct (d_media de); [discriminate C | discriminate].
    - apply check_descriptor_none in EC as (Hv & Hh & Hs & Hm).
      destruct (make_repo st r) as [st1|] eqn:EM.
      + cbn [fst snd proj]. split.
        * cbn. now rewrite Hh, beqb_refl, Hs, !Z.eqb_refl, !Tauto.if_same.
        * destruct (views_make_repo _ _ _ EM) as (V1 & V2 & V3 & V4).
          pose proof (inv_step hash valid_digest valid_repo valid_tag decode_image decode_index cfg st (PushBlob r de c) (rel_inv _ _ HR)) as HI.
          cbn [Mem.step] in HI. rewrite (proj2 (check_descriptor_none hash valid_digest de c)) in HI by auto. rewrite EM in HI. cbn [fst] in HI.
          destruct (views_set_blob st1 r (d_digest de) {| b_media := d_media de; b_data := c; b_subject := [] |}) as (W1 & W2 & W3).
          apply rel_next with (1 := HR); auto.
          -- intros r' d' b' H. destruct (W1 _ _ _ H) as [(-> & -> & ->)|H0]; [right|left; now rewrite <- V1].
             cbn. rewrite !beqb_refl. auto.
          -- intros r' d' b' H. left. now rewrite <- V2, <- W2.
          -- intros r' t de' H. left. now rewrite <- V3, <- W3.
          -- intros w b' H. left. exists b'. rewrite bufs_upd_repo, V4 in H. auto.
          -- intros w H. rewrite bufs_upd_repo, V4 in H. auto.
      + apply make_repo_none in EM. split; [|same HR]. cbn.
        now rewrite Hh, beqb_refl, Hs, Z.eqb_refl, EM.
  Qed.

  Lemma step_mount st past from to d : Rel st past -> stepP st past (XO (MountBlob from to d)).
  Proof.
    intros HR. unfold stepP. cbn [IntegritySpec.xstep Mem.step].
    destruct (make_repo st to) as [st1|] eqn:EM; [|split; [reflexivity | same HR]].
    destruct (views_make_repo _ _ _ EM) as (V1 & V2 & V3 & V4).
    pose proof (inv_step hash valid_digest valid_repo valid_tag decode_image decode_index cfg st (MountBlob from to d) (rel_inv _ _ HR)) as HI.
    cbn [Mem.step] in HI. rewrite EM in HI.
    destruct (blob_for_cases st1 from d) as [[b E]|[e E]]; rewrite E in *; cbn [fst snd proj] in *.
    - split; [reflexivity|]. apply blob_for_iblob in E. rewrite V1 in E.
      destruct (rel_blob _ _ HR _ _ _ E) as [A B].
      destruct (views_set_blob st1 to d b) as (W1 & W2 & W3).
      apply rel_next with (1 := HR); auto.
      + intros r' d' b' H. destruct (W1 _ _ _ H) as [(-> & -> & ->)|H0]; [right|left; now rewrite <- V1].
        split; [now apply contents_cons|]. cbn. now rewrite !beqb_refl.
      + intros r' d' b' H. left. now rewrite <- V2, <- W2.
      + intros r' t de' H. left. now rewrite <- V3, <- W3.
      + intros w b' H. left. exists b'. rewrite bufs_upd_repo, V4 in H. auto.
      + intros w H. rewrite bufs_upd_repo, V4 in H. auto.
    - split; [reflexivity|]. same HR.
  Qed.

  (* PushManifest: an error (state as before, or with the repository entry made), or the
     immutable-tags answer for an existing tag of the same digest, or the store branch *)
  Lemma push_manifest_cases st r t c m :
    let res := step st (PushManifest r t c m) in
    (exists e, snd res = Err e /\ (fst res = st \/ make_repo st r = Some (fst res)))
    \/ (exists cur, snd res = Ok (RDesc cur) /\ d_digest cur = hash c /\ make_repo st r = Some (fst res) /\ t <> [])
    \/ (exists st1 subj, make_repo st r = Some st1 /\
          let de := {| d_media := m; d_digest := hash c; d_size := blen c; d_artifact := [] |} in
          snd res = Ok (RDesc de) /\
          fst res = upd_repo st1 r (store_manifest (hash c) {| b_media := m; b_data := c; b_subject := subj |} t de)).
  Proof.
    cbn zeta. cbn [Mem.step].
    destruct (make_repo st r) as [st1|] eqn:EM; [|left; eexists; split; [reflexivity | now left]].
    destruct (get_repo st1 r) as [rp|] eqn:ER; [|left; eexists; split; [reflexivity | now right]].
    repeat match goal with
           | |- context [match ?x with _ => _ end] => destruct x eqn:?; cbn [fst snd]
           end;
      first [ left; eexists; split; [reflexivity | now right]
            | right; left; eexists; split; [reflexivity | split; [symmetry; now apply beqb_eq | split; [reflexivity | discriminate]]]
            | right; right; eexists; eexists; split; [reflexivity | split; reflexivity] ].
  Qed.

  Lemma rel_push_manifest st past r t c m x :
    Rel st past -> (forall p, write_ok (x, p) = false) -> (forall p w, opens (x, p) w = false) ->
    (forall p, succ p = true -> man_pushed ((x, p) :: past) r c = true) ->
    (forall p, succ p = true -> t <> [] -> tag_targeted ((x, p) :: past) r t (hash c) = true) ->
    Rel (fst (step st (PushManifest r t c m))) ((x, proj (snd (step st (PushManifest r t c m)))) :: past).
  Proof.
    intros HR Hw Ho Hm Ht.
    pose proof (inv_step hash valid_digest valid_repo valid_tag decode_image decode_index cfg st (PushManifest r t c m) (rel_inv _ _ HR)) as HI.
    destruct (push_manifest_cases st r t c m) as [[e0 [_ [E|E]]]|[[cur [_ [_ [E _]]]]|[st1 [subj [EM [E2 E]]]]]].
    - rewrite E in *. same HR.
    - destruct (views_make_repo _ _ _ E) as (V1 & V2 & V3 & V4). same HR.
    - destruct (views_make_repo _ _ _ E) as (V1 & V2 & V3 & V4). same HR.
    - destruct (views_make_repo _ _ _ EM) as (V1 & V2 & V3 & V4). rewrite E in *. rewrite E2. cbn [proj d_digest d_size].
      match goal with |- Rel (upd_repo st1 r (store_manifest ?dg ?b ?t ?de)) _ =>
        destruct (views_store_manifest st1 r dg b t de) as (W1 & W2 & W3) end.
      apply rel_next with (1 := HR); auto.
      + intros r' d' b' H. left. now rewrite <- V1, <- W1.
      + intros r' d' b' H. destruct (W2 _ _ _ H) as [[-> ->]|H0]; [right; now apply Hm | left; now rewrite <- V2].
      + intros r' t' de' H. destruct (W3 _ _ _ H) as [(-> & -> & Hn & ->)|H0]; [right; now apply Ht | left; now rewrite <- V3].
      + intros w b' H. left. exists b'. rewrite bufs_upd_repo, V4 in H. auto.
      + intros w H. rewrite bufs_upd_repo, V4 in H. auto.
  Qed.

  Lemma step_push_manifest st past r t c m : Rel st past -> stepP st past (XO (PushManifest r t c m)).
  Proof.
    intros HR. unfold stepP. cbn [IntegritySpec.xstep]. split.
    - destruct (push_manifest_cases st r t c m) as [[e0 [E _]]|[[cur [E [Hd _]]]|[st1 [subj [_ [E _]]]]]];
        rewrite E; cbn; [reflexivity | now rewrite Hd, beqb_refl | apply beqb_refl].
    - apply rel_push_manifest; auto.
      + intros p Hp. unfold man_pushed. cbn [existsb fst snd]. now rewrite Hp, !beqb_refl.
      + intros p Hp _. unfold IntegritySpec.tag_targeted. cbn [existsb fst snd]. now rewrite Hp, !beqb_refl.
  Qed.

  Lemma step_put_manifest st past r d c m : Rel st past -> stepP st past (XPutManifest r d c m).
  Proof.
    intros HR. unfold stepP. cbn [IntegritySpec.xstep].
    assert (Hfail : forall e, check past (XPutManifest r d c m) (proj (Err e)) = true).
    { intros e. cbn. now destruct (beqb (hash c) d). }
    destruct (negb (valid_digest d)); [split; [apply Hfail | same HR]|].
    destruct (beqb d (hash c)) eqn:ED; cbn [negb]; [|split; [apply Hfail | same HR]].
    destruct (negb (subject_json_ok m c)); [split; [apply Hfail | same HR]|].
    apply beqb_eq in ED. subst d. set (m' := match m with [] => MT_OCTET | _ => m end). split.
    - destruct (push_manifest_cases st r [] c m') as [[e0 [E _]]|[[cur [E (_ & _ & Hn)]]|[st1 [subj [_ [E _]]]]]];
        [rewrite E; apply Hfail | now contradiction Hn |].
      rewrite E. cbn. now rewrite !beqb_refl, Z.eqb_refl.
    - apply rel_push_manifest; auto.
      intros p Hp. unfold man_pushed. cbn [existsb fst snd]. now rewrite Hp, !beqb_refl.
  Qed.

  (* deletions only remove obligations *)
  Lemma delete_blob_cases st r d :
    fst (step st (DeleteBlob r d)) = st \/ fst (step st (DeleteBlob r d)) = upd_repo st r (rp_del_blob d).
  Proof.
    cbn [Mem.step].
    repeat match goal with
           | |- context [match ?x with _ => _ end] => destruct x eqn:?; cbn [fst snd]
           end; auto.
  Qed.
  Lemma delete_manifest_cases st r d :
    fst (step st (DeleteManifest r d)) = st \/ fst (step st (DeleteManifest r d)) = upd_repo st r (rp_del_manifest d).
  Proof.
    cbn [Mem.step].
    repeat match goal with
           | |- context [match ?x with _ => _ end] => destruct x eqn:?; cbn [fst snd]
           end; auto.
  Qed.
  Lemma delete_tag_cases st r t :
    fst (step st (DeleteTag r t)) = st \/ fst (step st (DeleteTag r t)) = upd_repo st r (rp_del_tag t).
  Proof.
    cbn [Mem.step].
    repeat match goal with
           | |- context [match ?x with _ => _ end] => destruct x eqn:?; cbn [fst snd]
           end; auto.
  Qed.

  Lemma step_delete_blob st past r d : Rel st past -> stepP st past (XO (DeleteBlob r d)).
  Proof.
    intros HR. split; [reflexivity|]. cbn [IntegritySpec.xstep].
    pose proof (inv_step hash valid_digest valid_repo valid_tag decode_image decode_index cfg st (DeleteBlob r d) (rel_inv _ _ HR)) as HI.
    destruct (delete_blob_cases st r d) as [E|E]; rewrite E in *; [same HR|].
    destruct (views_del_blob st r d) as (W1 & W2 & W3).
    apply rel_next with (1 := HR); auto.
    - intros r' d' b' H. left. now rewrite <- W2.
    - intros r' t de' H. left. now rewrite <- W3.
    - intros w b' H. left. exists b'. rewrite bufs_upd_repo in H. auto.
    - intros w H. rewrite bufs_upd_repo in H. auto.
  Qed.

  Lemma step_delete_manifest st past r d : Rel st past -> stepP st past (XO (DeleteManifest r d)).
  Proof.
    intros HR. split; [reflexivity|]. cbn [IntegritySpec.xstep].
    pose proof (inv_step hash valid_digest valid_repo valid_tag decode_image decode_index cfg st (DeleteManifest r d) (rel_inv _ _ HR)) as HI.
    destruct (delete_manifest_cases st r d) as [E|E]; rewrite E in *; [same HR|].
    destruct (views_del_manifest st r d) as (W1 & W2 & W3).
    apply rel_next with (1 := HR); auto.
    - intros r' d' b' H. left. now rewrite <- W1.
    - intros r' t de' H. left. now rewrite <- W3.
    - intros w b' H. left. exists b'. rewrite bufs_upd_repo in H. auto.
    - intros w H. rewrite bufs_upd_repo in H. auto.
  Qed.

  Lemma step_delete_tag st past r t : Rel st past -> stepP st past (XO (DeleteTag r t)).
  Proof.
    intros HR. split; [reflexivity|]. cbn [IntegritySpec.xstep].
    pose proof (inv_step hash valid_digest valid_repo valid_tag decode_image decode_index cfg st (DeleteTag r t) (rel_inv _ _ HR)) as HI.
    destruct (delete_tag_cases st r t) as [E|E]; rewrite E in *; [same HR|].
    destruct (views_del_tag st r t) as (W1 & W2 & W3).
    apply rel_next with (1 := HR); auto.
    - intros r' d' b' H. left. now rewrite <- W1.
    - intros r' d' b' H. left. now rewrite <- W2.
    - intros w b' H. left. exists b'. rewrite bufs_upd_repo in H. auto.
    - intros w H. rewrite bufs_upd_repo in H. auto.
  Qed.

  (* ---- upload sessions ---- *)

  (* the common body of PushBlobChunked (id "", offset 0) and PushBlobChunkedResume *)
  Definition chunked_body (st : state) (r id : bytes) (off : Z) : state * result :=
    match make_repo st r with
    | None => (st, Err e_name_invalid)
    | Some st1 =>
        match get_repo st1 r with
        | None => (st1, Err e_name_invalid)
        | Some rp =>
            match alookup id (uploads rp) with
            | Some i =>
                (with_buf st1 (N.to_nat i) (fun b =>
                   {| u_repo := u_repo b; u_id := u_id b; u_buf := u_buf b; u_check := off;
                      u_committed := u_committed b; u_desc := u_desc b; u_err := u_err b |}),
                 Ok (RWriter i))
            | None =>
                let id' := match id with [] => fresh_id (next_id st1) | _ => id end in
                let i := N.of_nat (length (bufs st1)) in
                ({| repos := aset r (rp_set_upload id' i rp) (repos st1);
                    bufs := bufs st1 ++ [new_buffer r id' off];
                    next_id := match id with [] => N.succ (next_id st1) | _ => next_id st1 end |},
                 Ok (RWriter i))
            end
        end
    end.

  Lemma step_chunked_eq st r hint : step st (PushBlobChunked r hint) = chunked_body st r [] 0.
  Proof. reflexivity. Qed.
  Lemma step_resume_eq st r id off hint : step st (PushBlobChunkedResume r id off hint) = chunked_body st r id off.
  Proof. reflexivity. Qed.

  Lemma views_with_buf st i f :
    (forall r d, iblob (with_buf st i f) r d = iblob st r d) /\ (forall r d, iman (with_buf st i f) r d = iman st r d) /\
    (forall r t, itag (with_buf st i f) r t = itag st r t).
  Proof. auto. Qed.

  Lemma rel_chunked st past x r id off :
    Rel st past -> Inv (fst (chunked_body st r id off)) ->
    (forall p, write_ok (x, p) = false) ->
    (forall i w, opens (x, PWriter i) w = N.eqb i w) -> (forall p w, succ p = false -> opens (x, p) w = false) ->
    (forall i, writer_repo ((x, PWriter i) :: past) i r = true) ->
    Rel (fst (chunked_body st r id off)) ((x, proj (snd (chunked_body st r id off))) :: past).
  Proof.
    intros HR HI Hw Ho Hof Hwr. unfold chunked_body in *.
    destruct (make_repo st r) as [st1|] eqn:EM; [|cbn [fst snd proj] in *; same HR].
    destruct (views_make_repo _ _ _ EM) as (V1 & V2 & V3 & V4).
    pose proof (inv_make_repo hash valid_repo decode_image decode_index _ _ _ (rel_inv _ _ HR) EM) as HI1.
    destruct (get_repo st1 r) as [rp|] eqn:ER; [|cbn [fst snd proj] in *; same HR].
    destruct (alookup id (uploads rp)) as [i|] eqn:EU; cbn [fst snd proj] in *.
    - (* an existing session: only its start-offset check is reset *)
      destruct (ok_up _ _ _ _ _ _ (inv_repo _ _ _ _ HI1 _ _ ER) _ _ EU) as [b0 [Hb0 _]].
      apply rel_next with (1 := HR); [exact HI | apply Hw | | | | |].
      + intros r' d' b' H. left. rewrite <- V1. exact H.
      + intros r' d' b' H. left. rewrite <- V2. exact H.
      + intros r' t' de' H. left. rewrite <- V3. exact H.
      + intros w b' H. left. unfold with_buf in H. cbn [bufs] in H. rewrite nth_error_upd_nth, V4 in H.
        destruct (Nat.eqb (N.to_nat w) (N.to_nat i)).
        * destruct (nth_error (bufs st) (N.to_nat w)) as [b|]; [|discriminate]. cbn in H. injection H as <-.
          exists b. cbn. auto.
        * exists b'. auto.
      + intros w H. unfold with_buf in H. cbn [bufs] in H. rewrite nth_error_upd_nth, V4 in H. rewrite Ho.
        destruct (Nat.eqb (N.to_nat w) (N.to_nat i)) eqn:EW.
        * apply Nat.eqb_eq in EW. rewrite EW, <- V4, Hb0 in H. discriminate.
        * split; [exact H|]. apply N.eqb_neq. intros ->. now rewrite Nat.eqb_refl in EW.
    - (* a new session *)
      rewrite V4 in *. set (n := length (bufs st)) in *.
      assert (Hviews : forall st', repos st' = aset r (rp_set_upload (match id with [] => fresh_id (next_id st1) | _ => id end) (N.of_nat n) rp) (repos st1) ->
                (forall r' d, iblob st' r' d = iblob st1 r' d) /\ (forall r' d, iman st' r' d = iman st1 r' d) /\
                (forall r' t, itag st' r' t = itag st1 r' t)).
      { intros st' Hr. unfold iblob, iman, itag, get_repo. rewrite Hr.
        repeat split; intros r' k; rewrite alookup_aset; destruct (beqb r' r) eqn:B; try reflexivity;
          apply beqb_eq in B; subst r'; unfold get_repo in ER; now rewrite ER. }
      match goal with |- Rel ?st' _ => destruct (Hviews st' eq_refl) as (W1 & W2 & W3) end.
      apply rel_next with (1 := HR); auto.
      + intros r' d' b' H. left. now rewrite <- V1, <- W1.
      + intros r' d' b' H. left. now rewrite <- V2, <- W2.
      + intros r' t' de' H. left. now rewrite <- V3, <- W3.
      + intros w b' H. cbn [bufs] in H.
        destruct (Nat.lt_ge_cases (N.to_nat w) n) as [Hlt|Hge].
        * left. exists b'. rewrite nth_error_app1 in H by exact Hlt. auto.
        * right. destruct (Nat.eq_dec (N.to_nat w) n) as [En|En].
          -- rewrite nth_error_app2, En, Nat.sub_diag in H by lia. cbn in H. injection H as <-. cbn.
             assert (w = N.of_nat n) as -> by lia.
             split; [apply nth_error_None; rewrite Nat2N.id; fold n; lia|].
             split; [reflexivity|]. split; [reflexivity|]. apply Hwr.
          -- assert (nth_error (bufs st ++ [new_buffer r match id with [] => fresh_id (next_id st1) | _ => id end off]) (N.to_nat w) = None) as Hnone
               by (apply nth_error_None; rewrite app_length; cbn; fold n; lia).
             rewrite Hnone in H. discriminate.
      + intros w H. cbn [bufs] in H. apply nth_error_None in H.
        rewrite app_length in H. cbn in H. split; [apply nth_error_None; lia|].
        rewrite Ho. apply N.eqb_neq. fold n in H. lia.
  Qed.

  Lemma step_chunked st past r hint : Rel st past -> stepP st past (XO (PushBlobChunked r hint)).
  Proof.
    intros HR. split; [reflexivity|]. cbn [IntegritySpec.xstep].
    pose proof (inv_step hash valid_digest valid_repo valid_tag decode_image decode_index cfg st (PushBlobChunked r hint) (rel_inv _ _ HR)) as HI.
    rewrite step_chunked_eq in *. apply rel_chunked; auto.
    - intros p w0 Hp. destruct p; try discriminate; reflexivity.
    - intros i. unfold writer_repo. cbn. now rewrite N.eqb_refl, beqb_refl.
  Qed.

  Lemma step_resume st past r id off hint : Rel st past -> stepP st past (XO (PushBlobChunkedResume r id off hint)).
  Proof.
    intros HR. split; [reflexivity|]. cbn [IntegritySpec.xstep].
    pose proof (inv_step hash valid_digest valid_repo valid_tag decode_image decode_index cfg st (PushBlobChunkedResume r id off hint) (rel_inv _ _ HR)) as HI.
    rewrite step_resume_eq in *. apply rel_chunked; auto.
    - intros p w0 Hp. destruct p; try discriminate; reflexivity.
    - intros i. unfold writer_repo. cbn. now rewrite N.eqb_refl, beqb_refl.
  Qed.

  (* a buffer update that keeps the bytes and the repository: the general shape of Commit
     (both outcomes) and Cancel, which end the writer's cleanliness *)
  Lemma rel_touch_buf st st' past e w f :
    Rel st past -> Inv st' -> write_ok e = false -> (forall w', opens e w' = false) ->
    (forall b, u_buf (f b) = u_buf b /\ u_repo (f b) = u_repo b) ->
    clean (e :: past) w = false ->
    bufs st' = upd_nth (N.to_nat w) f (bufs st) ->
    (forall r d b, iblob st' r d = Some b ->
       iblob st r d = Some b \/
       (mem_bytes (b_data b) (contents (e :: past)) = true /\ blob_targeted (e :: past) r d = true)) ->
    (forall r d, iman st' r d = iman st r d) -> (forall r t, itag st' r t = itag st r t) ->
    Rel st' (e :: past).
  Proof.
    intros HR HI Hw Ho Hf Hc Hb Vb Vm Vt. apply rel_next with (1 := HR); auto.
    - intros r d b H. left. now rewrite <- Vm.
    - intros r t de H. left. now rewrite <- Vt.
    - intros w' b' H. left. rewrite Hb, nth_error_upd_nth in H.
      destruct (Nat.eqb (N.to_nat w') (N.to_nat w)) eqn:EW.
      + apply Nat.eqb_eq in EW. assert (w' = w) as -> by lia.
        destruct (nth_error (bufs st) (N.to_nat w)) as [b|]; [|discriminate]. cbn in H. injection H as <-.
        exists b. destruct (Hf b) as [A B]. repeat split; auto. intros Hc'. congruence.
      + exists b'. auto.
    - intros w' H. rewrite Hb, nth_error_upd_nth in H. split; [|apply Ho].
      destruct (Nat.eqb (N.to_nat w') (N.to_nat w)); [|exact H].
      destruct (nth_error (bufs st) (N.to_nat w')); [discriminate | reflexivity].
  Qed.

  Lemma step_write st past w data : Rel st past -> stepP st past (XO (WWrite w data)).
  Proof.
    intros HR. split; [reflexivity|]. cbn [IntegritySpec.xstep].
    pose proof (inv_step hash valid_digest valid_repo valid_tag decode_image decode_index cfg st (WWrite w data) (rel_inv _ _ HR)) as HI.
    cbn [Mem.step] in *.
    destruct (nth_error (bufs st) (N.to_nat w)) as [b|] eqn:EN; [|cbn [fst snd proj] in *; same HR].
    destruct (negb (u_check b =? -1) && negb (blen (u_buf b) =? u_check b)); cbn [fst snd proj] in *; [same HR|].
    (* the successful Write: the buffer and the log grow by the same bytes *)
    set (e := (XO (WWrite w data), PN (blen data))).
    constructor.
    - exact HI.
    - intros r d b0 H. destruct (rel_blob _ _ HR _ _ _ H) as [A B].
      split; [now apply contents_cons | now apply blob_targeted_cons].
    - intros r d b0 H. apply man_pushed_cons. eapply rel_man; eauto.
    - intros r t de H. apply tag_targeted_cons. eapply rel_tag; eauto.
    - intros w' b' H. unfold with_buf in H. cbn [bufs] in H. rewrite nth_error_upd_nth in H.
      unfold e. rewrite written_cons_write by reflexivity.
      destruct (Nat.eqb (N.to_nat w') (N.to_nat w)) eqn:EW.
      + apply Nat.eqb_eq in EW. assert (w' = w) as -> by lia. rewrite EN in H. cbn in H. injection H as <-.
        destruct (rel_buf _ _ HR _ _ EN) as [A [B C]]. cbn [u_buf u_repo u_err]. rewrite N.eqb_refl, A. split; [reflexivity|]. split.
        * now apply writer_repo_cons.
        * intros Hc. apply C. eapply clean_cons; eauto.
      + destruct (rel_buf _ _ HR _ _ H) as [A [B C]].
        assert (N.eqb w w' = false) as -> by (apply N.eqb_neq; intros ->; now rewrite Nat.eqb_refl in EW).
        split; [exact A|]. split; [now apply writer_repo_cons|]. intros Hc. apply C. eapply clean_cons; eauto.
    - intros w' H. unfold with_buf in H. cbn [bufs] in H. rewrite nth_error_upd_nth in H.
      unfold e. rewrite written_cons_write by reflexivity.
      destruct (Nat.eqb (N.to_nat w') (N.to_nat w)) eqn:EW.
      + apply Nat.eqb_eq in EW. rewrite EW, EN in H. discriminate.
      + destruct (rel_nobuf _ _ HR _ H) as [A B].
        assert (N.eqb w w' = false) as -> by (apply N.eqb_neq; intros ->; now rewrite Nat.eqb_refl in EW).
        split; [exact A|]. intros e' [<-|Hin]; [reflexivity | auto].
  Qed.

  Lemma clean_cons_commit past w d p : clean ((XO (WCommit w d), p) :: past) w = false.
  Proof. unfold clean. cbn. now rewrite N.eqb_refl. Qed.
  Lemma clean_cons_cancel past w p : clean ((XO (WCancel w), p) :: past) w = false.
  Proof. unfold clean. cbn. now rewrite N.eqb_refl. Qed.

  Lemma step_cancel st past w : Rel st past -> stepP st past (XO (WCancel w)).
  Proof.
    intros HR. split; [reflexivity|]. cbn [IntegritySpec.xstep].
    pose proof (inv_step hash valid_digest valid_repo valid_tag decode_image decode_index cfg st (WCancel w) (rel_inv _ _ HR)) as HI.
    cbn [Mem.step] in *.
    destruct (nth_error (bufs st) (N.to_nat w)) as [b|] eqn:EN; cbn [fst snd proj] in *; [|same HR].
    match goal with |- Rel (with_buf st _ ?g) _ => apply rel_touch_buf with (1 := HR) (w := w) (f := g) end;
      auto; try reflexivity.
    apply clean_cons_cancel.
  Qed.

  Lemma step_commit st past w d : Rel st past -> stepP st past (XO (WCommit w d)).
  Proof.
    intros HR. unfold stepP. cbn [IntegritySpec.xstep].
    pose proof (inv_step hash valid_digest valid_repo valid_tag decode_image decode_index cfg st (WCommit w d) (rel_inv _ _ HR)) as HI.
    cbn [Mem.step] in *.
    destruct (nth_error (bufs st) (N.to_nat w)) as [b|] eqn:EN; cbn [fst snd proj] in *.
    2:{ split; [|same HR]. cbn. destruct (rel_nobuf _ _ HR _ EN) as [A B].
        destruct (beqb (hash (written past w)) d); [|reflexivity].
        destruct (fresh past w) eqn:EF; [|reflexivity].
        apply fresh_opened in EF as [e [He Ho]]. rewrite (B _ He) in Ho. discriminate. }
    destruct (rel_buf _ _ HR _ _ EN) as [A [B C]].
    destruct (u_err b) as [e|] eqn:EE; cbn [fst snd proj] in *.
    { split; [|same HR]. cbn.
      destruct (beqb (hash (written past w)) d); [|reflexivity].
      destruct (fresh past w) eqn:EF; [|reflexivity].
      apply fresh_clean in EF. specialize (C EF). discriminate. }
    rewrite A in *.
    destruct (beqb (hash (written past w)) d) eqn:EH; cbn [fst snd proj d_digest d_size octet_desc] in *.
    - (* the commit succeeds: the blob is stored in the writer's repository *)
      split.
      + cbn. rewrite EH, beqb_refl, Z.eqb_refl. cbn. now destruct (fresh past w).
      + match goal with |- Rel (upd_repo ?s1 ?r (rp_set_blob d ?nb)) _ =>
          destruct (views_set_blob s1 r d nb) as (W1 & W2 & W3) end.
        match goal with |- Rel (upd_repo (with_buf st _ ?g) _ _) _ =>
          apply rel_touch_buf with (1 := HR) (w := w) (f := g) end; auto; try reflexivity.
        * apply clean_cons_commit.
        * rewrite bufs_upd_repo. reflexivity.
        * intros r' d' b' H. destruct (W1 _ _ _ H) as [(-> & -> & ->)|H0]; [right|left; exact H0].
          cbn. rewrite !beqb_refl, B. auto.
    - (* digest mismatch: only the session records the error *)
      split; [cbn; now rewrite EH|].
      match goal with |- Rel (with_buf st _ ?g) _ => apply rel_touch_buf with (1 := HR) (w := w) (f := g) end;
        auto; try reflexivity.
      apply clean_cons_commit.
  Qed.

  (* ---- every operation ---- *)

  Lemma rel_xstep st past x : Rel st past -> stepP st past x.
  Proof.
    intros HR. destruct x as [o|r d c m]; [|now apply step_put_manifest].
    destruct o;
      first [ now apply step_get_blob | now apply step_get_blob_range | now apply step_get_manifest
            | now apply step_get_tag | now apply step_push_blob | now apply step_chunked | now apply step_resume
            | now apply step_mount | now apply step_push_manifest | now apply step_delete_blob
            | now apply step_delete_manifest | now apply step_delete_tag | now apply step_write
            | now apply step_commit | now apply step_cancel
            | (split; [reflexivity | cbn [IntegritySpec.xstep Mem.step fst snd]; same HR]) ].
  Qed.

  (* the log lookups do not depend on what a read returned, and on a mount only on whether
     it succeeded: this is what lets the same invariant serve the stacks above ocimem *)
  Definition is_read (x : xop) : bool :=
    match x with
    | XO (GetBlob _ _) | XO (GetBlobRange _ _ _ _) | XO (GetManifest _ _) | XO (GetTag _ _) => true
    | _ => false
    end.
  Definition is_mount (x : xop) : bool := match x with XO (MountBlob _ _ _) => true | _ => false end.

  Lemma rel_swap st past x p p' :
    is_read x = true \/ (is_mount x = true /\ succ p = succ p') ->
    Rel st ((x, p) :: past) -> Rel st ((x, p') :: past).
  Proof.
    intros Hx HR.
    assert (Ew : forall w, written ((x, p') :: past) w = written ((x, p) :: past) w).
    { intros w. destruct x as [[]|]; cbn; try reflexivity; destruct Hx as [Hx|[Hx _]]; discriminate. }
    assert (Ec : contents ((x, p') :: past) = contents ((x, p) :: past)).
    { destruct Hx as [Hx|[Hx Hs]]; destruct x as [[]|]; try discriminate; cbn;
        destruct (succ p), (succ p'); reflexivity || discriminate. }
    assert (Eb : forall r d, blob_targeted ((x, p') :: past) r d = blob_targeted ((x, p) :: past) r d).
    { intros r d. destruct Hx as [Hx|[Hx Hs]]; destruct x as [[]|]; try discriminate; cbn.
      1-4: now rewrite !andb_false_r. now rewrite Hs. }
    assert (Em : forall r c, man_pushed ((x, p') :: past) r c = man_pushed ((x, p) :: past) r c).
    { intros r c. unfold man_pushed. cbn [existsb fst snd].
      destruct Hx as [Hx|[Hx Hs]]; destruct x as [[]|]; try discriminate; now rewrite !andb_false_r. }
    assert (Et : forall r t d, tag_targeted ((x, p') :: past) r t d = tag_targeted ((x, p) :: past) r t d).
    { intros r t d. unfold IntegritySpec.tag_targeted. cbn [existsb fst snd].
      destruct Hx as [Hx|[Hx Hs]]; destruct x as [[]|]; try discriminate; now rewrite !andb_false_r. }
    assert (Er : forall w r, writer_repo ((x, p') :: past) w r = writer_repo ((x, p) :: past) w r).
    { intros w r. unfold writer_repo. cbn [existsb].
      destruct Hx as [Hx|[Hx Hs]]; destruct x as [[]|]; try discriminate; reflexivity. }
    assert (El : forall w, clean ((x, p') :: past) w = clean ((x, p) :: past) w).
    { intros w. unfold clean. cbn [forallb].
      destruct Hx as [Hx|[Hx Hs]]; destruct x as [[]|]; try discriminate; reflexivity. }
    assert (Eo : forall w, opens (x, p') w = false).
    { intros w. destruct Hx as [Hx|[Hx Hs]]; destruct x as [[]|]; try discriminate; reflexivity. }
    destruct HR as [A B C D E F]. constructor.
    - exact A.
    - intros r d b H. rewrite Ec, Eb. eauto.
    - intros r d b H. rewrite Em. eauto.
    - intros r t de H. rewrite Et. eauto.
    - intros w b H. rewrite Ew, Er, El. eauto.
    - intros w H. rewrite Ew. destruct (F w H) as [F1 F2]. split; [exact F1|].
      intros e [<-|Hin]; [apply Eo | apply F2; now right].
  Qed.

  Lemma xrun_rel h : forall st past,
    Rel st past ->
    exists new, snd (xrun st past h) = rev new ++ past /\
                hist_ok_from hash valid_digest valid_repo past new = true /\
                Rel (fst (xrun st past h)) (snd (xrun st past h)).
  Proof.
    induction h as [|x h IH]; intros st past HR; cbn [IntegritySpec.xrun].
    - exists []. cbn. auto.
    - destruct (rel_xstep st past x HR) as [Hc HR1]. destruct (xstep st x) as [st1 r]. cbn [fst snd] in *.
      destruct (IH _ _ HR1) as [new [E [Hok HR2]]]. exists ((x, proj r) :: new). split; [|split].
      + rewrite E. cbn [rev]. now rewrite <- app_assoc.
      + cbn [hist_ok_from]. now rewrite Hc, Hok.
      + exact HR2.
  Qed.

  (* C01 for histories: whatever sequence of operations is run on the in-memory registry
     (with the manifest PUT by digest of the server in front of it), the log of projected
     results satisfies the property's specification *)
  Theorem xrun_hist_ok h : hist_ok hash valid_digest valid_repo (xlog hash valid_digest valid_repo valid_tag decode_image decode_index cfg subject_json_ok h) = true.
  Proof.
    unfold xlog, hist_ok. destruct (xrun_rel h init [] rel_init) as [new [E [Hok _]]].
    rewrite E, app_nil_r, rev_involutive. exact Hok.
  Qed.
End Hist.
