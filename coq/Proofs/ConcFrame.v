From Coq Require Import String Lia.
From OCI Require Import Model.Conc Proofs.MemBasics Proofs.Conc.

(* The declared lock structure is honest about what the model's sections write: an operation
   whose table entry has no write access to a state class leaves that part of the shared
   state unchanged (registry state = the repositories; buffer state = the upload buffers). *)
Definition op_intervals (o : op) : list interval :=
  match find (fun e => beqb (fst e) (op_name o)) Conc.structure with
  | Some e => snd e
  | None => []
  end.
Definition writes (c : class) (is : list interval) : bool :=
  existsb (fun i => mem_acc (Wr c) (i_acc i)) is.

Section Frame.
  Variable hash : bytes -> bytes.
  Variable valid_digest : bytes -> bool.
  Variable valid_repo : bytes -> bool.
  Variable valid_tag : bytes -> bool.
  Variable decode_image : bytes -> option image_manifest.
  Variable decode_index : bytes -> option index_manifest.
  Variable cfg : config.
  Local Notation mstep := (mstep hash valid_digest valid_repo valid_tag decode_image decode_index cfg).
  Local Notation sec_step := (sec_step hash valid_digest valid_repo valid_tag decode_image decode_index cfg).

  Lemma frame_registry m o :
    (forall w d, o <> WCommit w d) -> writes CReg (op_intervals o) = false ->
    repos (fst (mstep m o)) = repos m.
  Proof.
    intros Hn H. destruct o; try (vm_compute in H; discriminate H); try (exfalso; eapply Hn; reflexivity).
    all: unfold Conc.mstep; cbn [step]; try reflexivity.
    all: repeat match goal with
      | |- repos (fst (match ?x with _ => _ end)) = _ => destruct x
      | |- repos (fst (if ?x then _ else _)) = _ => destruct x
      end; reflexivity.
  Qed.

  Lemma frame_buffers m o :
    (forall w d, o <> WCommit w d) -> writes CBuf (op_intervals o) = false ->
    bufs (fst (mstep m o)) = bufs m.
  Proof.
    intros Hn H. destruct o; try (vm_compute in H; discriminate H); try (exfalso; eapply Hn; reflexivity).
    all: unfold Conc.mstep; cbn [step]; try reflexivity.
    all: repeat match goal with
      | |- bufs (fst (match ?x with _ => _ end)) = _ => destruct x eqn:?
      | |- bufs (fst (if ?x then _ else _)) = _ => destruct x eqn:?
      end; cbn [fst]; rewrite ?bufs_upd_repo; try reflexivity;
      try (eapply bufs_make_repo; eassumption).
  Qed.

  (* Commit: only the callback section writes registry state *)
  Lemma frame_commit_A lk m w d m' lp p' :
    sec_step lk m (PStart (WCommit w d)) = Some (m', lp, p') -> repos m' = repos m.
  Proof.
    cbn [sec_step]. destruct (lk w); [discriminate|].
    destruct (nth_error (bufs m) (N.to_nat w)) as [b|]; [|intros H; now injection H as <- _ _].
    destruct (u_err b); [intros H; now injection H as <- _ _|].
    destruct (beqb (hash (u_buf b)) d); intros H; now injection H as <- _ _.
  Qed.
  Lemma frame_commit_C lk m w e m' lp p' :
    sec_step lk m (PCommitC w e) = Some (m', lp, p') -> repos m' = repos m.
  Proof.
    cbn [sec_step]. destruct (nth_error (bufs m) (N.to_nat w)) as [b|]; [|intros H; now injection H as <- _ _].
    destruct (u_err b); intros H; now injection H as <- _ _.
  Qed.
End Frame.
