(* C03 (c), the shapes Proofs/StackTransparent.v leaves out of the upload protocol: a closing
   PUT with an empty body.

     transparent_commit_empty    blobWriter.Commit with nothing pending in the chunk: the backend
                                 sees PushBlobChunkedResume at the writer's offset with hint 0,
                                 no Write, Commit with the caller's digest, Close
     transparent_PushBlob_empty  PushBlob of the empty content: the session is opened as always;
                                 the closing PUT carries Content-Range "0-0", Content-Length 0,
                                 no body: Resume at 0, no Write, Commit, Close *)
From Coq Require Import String.
From OCI Require Import Model.Stack Proofs.Request Proofs.StackBase Proofs.StackDesc Proofs.StackRead Proofs.StackRange.
From OCI Require Import Model.RequestCodecSpec Proofs.RequestCodec Proofs.StackUpload Proofs.StackTransparent.
From OCI Require Proofs.Errors Proofs.Server.

Local Open Scope Z_scope.

(* the Content-Range of no bytes at offset f: "f-(f-1)", "0-0" at offset 0 *)
Lemma chunk_range_empty (req : Server.hreq) f :
  0 <= f <= max_int64 -> hq_crange req = Request.range_string f f -> hq_clen req = 0 ->
  chunk_range req = Ok (f, f).
Proof.
  intros [Hf Hm] Hc Hl. unfold chunk_range. rewrite Hc, Hl. clear Hc Hl.
  unfold Request.range_string. rewrite wrap64_small by (unfold min_int64, max_int64 in *; lia).
  set (e := if f - 1 <? 0 then 0 else f - 1).
  assert (He : 0 <= e <= max_int64) by (unfold e; destruct (Z.ltb_spec (f - 1) 0); lia).
  destruct (dec_Z f ++ 45%N :: dec_Z e) as [|c0 cr] eqn:E; [destruct (dec_Z f); discriminate|].
  rewrite <- E. unfold Request.parse_range.
  rewrite (Proofs.Server.cut_byte_app' 45%N (dec_Z f) _ (Proofs.Server.dec_Z_nonneg_no_dash f Hf)).
  rewrite (parse_int_dec_Z f) by (unfold min_int64, max_int64 in *; lia).
  rewrite (parse_int_dec_Z e) by (unfold min_int64, max_int64 in *; lia).
  change (0 <=? 0) with true. cbn [andb].
  destruct (Z.eqb_spec f 0) as [->|Hnz].
  - unfold e. cbn. reflexivity.
  - assert (Ee : e = f - 1) by (unfold e; destruct (Z.ltb_spec (f - 1) 0); lia).
    assert (Hp : (0 <? e) || (0 <? f) = true) by (destruct (Z.ltb_spec 0 f); [apply orb_true_r | lia]).
    rewrite Hp, Ee. replace (f - 1 + 1) with f by lia.
    rewrite (wrap64_small f) by (unfold min_int64, max_int64 in *; lia).
    change (0 =? 1) with false. rewrite andb_false_r. rewrite Z.sub_diag. reflexivity.
Qed.

(* ---------------------------------------------------------------- the server: a closing PUT without body *)

Section EmitEmpty.
  Variable linked : alg -> bool.
  Variable digest_of : bytes -> bytes.
  Variable subject_of : bytes -> option (option bytes).
  Variable enc : jval -> bytes.
  Variable redirect : bytes -> bytes -> bytes * bytes.
  Variable B : Type.
  Variable bstep : backend B.
  Variable o : opts.

  Notation H := (handle linked digest_of subject_of enc redirect B bstep o).

  Ltac fin :=
    cbn [h_b h_tr h_w fst snd set_hdr write_header write_body upd_w log rev app finish
         w_status w_hdrs w_body w_json rw0 as_desc as_read as_unit desc_of data_of negb].

  Lemma emit_complete_upload_empty b req r b1 b3 b4 start vw vd rc :
    parse_req linked (hq_method req) (hq_path req) (hq_rawquery req) = Ok r ->
    Request.q_kind r = Request.ReqBlobCompleteUpload -> o_locs o = None ->
    chunk_range req = Ok (start, start) -> hq_body req = [] ->
    bstep b (PushBlobChunkedResume (q_repo r) (q_upload r) start 0) = (b1, Ok vw) ->
    bstep b1 (WCommit (wid_of vw) (q_digest r)) = (b3, Ok vd) ->
    bstep b3 (WClose (wid_of vw)) = (b4, rc) -> rc <> Panic -> rc <> OutOfFuel ->
    H b req = (b4, [ECall (PushBlobChunkedResume (q_repo r) (q_upload r) start 0) (Ok vw);
                    ECall (WCommit (wid_of vw) (q_digest r)) (Ok vd); ECall (WClose (wid_of vw)) rc],
               Ok (mkresp 201 (hset H_dcd (d_digest (desc_of vd))
                                  (hset H_location (blob_location (q_repo r) (d_digest (desc_of vd))) [])) [] None)).
  Proof.
    intros Hp Hk Hl Hcr Hbody H1 H3 H4 Hnp Hnf.
    unfold Server.handle, Server.v2. rewrite Hp. unfold Server.dispatch. rewrite Hk.
    unfold handle_blob_complete_upload. rewrite Hcr. rewrite Z.sub_diag. change (wrap64 0) with 0.
    unfold call. fin. rewrite H1. cbn [as_writer].
    unfold copy_body. rewrite Hbody. unfold call. fin. rewrite H3. cbn [as_desc]. unfold set_location_header. rewrite Hl. fin.
    unfold defer_close, call. fin. rewrite H4. destruct rc; try congruence; fin; reflexivity.
  Qed.
End EmitEmpty.

(* ---------------------------------------------------------------- the client *)

Section Empty.
  Variable linked : alg -> bool.
  Variable hash : bytes -> bytes -> bytes.
  Variable subject_of : bytes -> option (option bytes).
  Variable media : bytes -> bytes.
  Variable enc : jval -> bytes.
  Variable dec_errors : bytes -> option (list werr).
  Variable dec_names : bool -> bytes -> option (list bytes).
  Variable dec_index : bytes -> option (list desc).
  Variable redirect : bytes -> bytes -> bytes * bytes.
  Variable B : Type.
  Variable bstep : backend B.
  Variable o : opts.
  Variable cc : ccfg.

  Notation serve := (serve_stack linked hash subject_of enc redirect bstep o).
  Notation env := (stack_env linked hash media dec_errors dec_names dec_index).
  Notation call_ := (stack_call linked hash subject_of media enc dec_errors dec_names dec_index redirect bstep o cc).
  Notation W := (world (srv B)).

  Lemma empty_range f : 0 <= f <= max_int64 ->
    Http.range_string f (w64 (f + (blenZ [] + blenZ []))) = Request.range_string f f.
  Proof.
    intros [Hf Hm]. change (blenZ [] + blenZ []) with 0.
    rewrite Z.add_0_r, w64_wrap64, wrap64_small by (unfold min_int64, max_int64 in *; lia).
    apply http_range_string.
  Qed.

  (* the closing PUT of a flush with nothing to send *)
  Lemma to_server_req_put_empty loc cr p rawq hdrs :
    interp_url loc = Ok (p, rawq) ->
    Http.hget h_range ((h_content_range, cr) :: hdrs) = [] ->
    to_server_req {| rq_method := MPut; rq_url := loc; rq_header := (h_content_range, cr) :: hdrs;
                     rq_body := BNil; rq_clen := 0 |}
    = Ok (mkhreq m_PUT p rawq [] cr (Http.hget h_content_type ((h_content_range, cr) :: hdrs)) 0 []).
  Proof.
    intros Hi Hrg. unfold to_server_req. cbn [rq_url rq_body rq_header rq_method rq_clen body_bytes].
    rewrite Hi. unfold outgoing_length. cbn [rq_body]. change (0 <? 0) with false. cbn [andb].
    rewrite Hrg. reflexivity.
  Qed.

  (* blobWriter.Commit with an empty chunk *)
  Theorem transparent_commit_empty (w : W) wr repo id dg b1 b3 b4 vw vd rc :
    let f := wr_flushed wr in
    o_locs o = None ->
    vrepo repo = true -> good_upload_id id -> writer_at wr repo id -> vdigest linked dg = true ->
    chunk_bytes wr = [] -> 0 <= f <= max_int64 ->
    bstep (sv_b (w_srv w)) (PushBlobChunkedResume repo id f 0) = (b1, Ok vw) ->
    bstep b1 (WCommit (wid_of vw) dg) = (b3, Ok vd) -> vdigest linked (d_digest (desc_of vd)) = true ->
    bstep b3 (WClose (wid_of vw)) = (b4, rc) -> rc <> Panic -> rc <> OutOfFuel ->
    exists w' wr',
      writer_commit (srv B) serve env wr dg w
      = (w', (wr', Ok {| d_media := octet_stream; d_digest := dg; d_size := wr_size wr; d_artifact := [] |}))
      /\ wr_flushed wr' = f /\ wr_size wr' = wr_size wr
      /\ w_srv w' = after B (w_srv w) b4
                       [ECall (PushBlobChunkedResume repo id f 0) (Ok vw);
                        ECall (WCommit (wid_of vw) dg) (Ok vd); ECall (WClose (wid_of vw)) rc].
  Proof.
    intros f Hl Hr Hid Hat Hd Hch Hf H1 H3 Hvd H4 Hc1 Hc2.
    assert (Hdne : is_empty dg = false) by (now apply vdigest_nonempty in Hd).
    unfold writer_commit. rewrite Hdne. unfold flush, bind. rewrite Hdne. cbn [andb negb]. rewrite Hch.
    cbn [concat_body]. fold f. rewrite (empty_range f Hf). change (blenZ [] + blenZ []) with 0.
    assert (Hint : interp_url (UDigest (wr_location wr) dg) = Ok (upath repo id, s "digest=" ++ query_escape dg)).
    { cbn [interp_url].
      rewrite (writer_at_interp wr repo id Hr Hid Hat). reflexivity. }
    set (sreq := mkhreq m_PUT (upath repo id) (s "digest=" ++ query_escape dg) [] (Request.range_string f f) [] 0 []).
    assert (Hcr : chunk_range sreq = Ok (f, f)) by (apply (chunk_range_empty sreq f Hf); reflexivity).
    pose proof (emit_complete_upload_empty linked (digest_of hash) subject_of enc redirect B bstep o
                  (sv_b (w_srv w)) sreq _ b1 b3 b4 f vw vd rc (complete_parse linked repo id dg Hr Hid Hd)
                  eq_refl Hl Hcr eq_refl H1 H3 H4 Hc1 Hc2) as Eh.
    cbn [Request.q_repo Request.q_upload Request.q_digest] in Eh.
    erewrite (client_do_stack linked hash subject_of media enc dec_errors dec_names dec_index redirect B bstep o
               _ [201] w sreq b4 _ _ _ Eh eq_refl).
    Unshelve.
    2:{ rewrite (to_server_req_put_empty (UDigest (wr_location wr) dg) _ _ _ [] Hint); reflexivity. }
    cbv zeta. cbn [p_status]. change (status_accepted [201] 201) with true. cbn iota.
    unfold lift, location_from_response, rheader, got. cbn [hr_rs hr_req].
    rewrite rs_header_of_server_resp. cbn [p_hdrs]. change location_hdr with H_location. hdrs.
    assert (Hnel : is_empty (blob_location repo (d_digest (desc_of vd))) = false) by reflexivity. rewrite Hnel.
    cbn [e_url_ok stack_env]. unfold url_ok, blob_location.
    rewrite (blob_location_parse linked repo _ Hr Hvd). cbn [negb flatten]. unfold ret.
    eexists. eexists. split; [reflexivity|]. cbn [wr_flushed wr_size].
    rewrite Z.add_0_r, w64_wrap64, wrap64_small by (unfold min_int64, max_int64 in *; lia).
    repeat split.
  Qed.

  (* PushBlob of the empty content *)
  Theorem transparent_PushBlob_empty (w : W) repo d b1 b2 b3 b4 b5 b7 b8 vw vid vcs rc vw2 vd rc2 :
    o_locs o = None ->
    vrepo repo = true -> vdigest linked (d_digest d) = true -> d_size d = 0 ->
    bstep (sv_b (w_srv w)) (PushBlobChunked repo 0) = (b1, Ok vw) ->
    bstep b1 (WID (wid_of vw)) = (b2, Ok vid) -> good_upload_id (str_of vid) ->
    bstep b2 (WChunkSize (wid_of vw)) = (b3, Ok vcs) ->
    bstep b3 (WClose (wid_of vw)) = (b4, rc) -> rc <> Panic -> rc <> OutOfFuel ->
    bstep b4 (PushBlobChunkedResume repo (str_of vid) 0 0) = (b5, Ok vw2) ->
    bstep b5 (WCommit (wid_of vw2) (d_digest d)) = (b7, Ok vd) ->
    bstep b7 (WClose (wid_of vw2)) = (b8, rc2) -> rc2 <> Panic -> rc2 <> OutOfFuel ->
    exists w',
      call_ (CPushBlob repo d true true []) w = (w', ODesc (Ok d))
      /\ w_srv w' = after B (after B (w_srv w) b4
                              [ECall (PushBlobChunked repo 0) (Ok vw); ECall (WID (wid_of vw)) (Ok vid);
                               ECall (WChunkSize (wid_of vw)) (Ok vcs); ECall (WClose (wid_of vw)) rc]) b8
                           [ECall (PushBlobChunkedResume repo (str_of vid) 0 0) (Ok vw2);
                            ECall (WCommit (wid_of vw2) (d_digest d)) (Ok vd); ECall (WClose (wid_of vw2)) rc2].
  Proof.
    intros Hl Hr Hd Hsz H1 H2 Hid H3 H4 Hc1 Hc2 H5 H7 H8 Hc3 Hc4.
    set (id := str_of vid) in *. set (dg := d_digest d) in *.
    assert (Hc : codec_at linked (req_of (start_upload_rreq repo))
                   (mkreq Request.ReqBlobStartUpload repo [] [] [] [] 0 [])).
    { unfold start_upload_rreq.
      change (mkreq Request.ReqBlobStartUpload repo [] [] [] [] 0 [])
        with (norm (req_of (mk_rreq Http.ReqBlobStartUpload repo [] []))).
      apply codec_of_wf. unfold wf_request.
      cbn [Request.q_kind req_of kind_of mk_rreq Http.q_kind Http.q_repo Http.q_digest Http.q_tag Http.q_from
           Http.q_upload Http.q_n Http.q_last Request.q_repo Request.q_digest Request.q_tag Request.q_from].
      rewrite Hr. reflexivity. }
    pose proof (codec_construct_ok _ _ _ Hc) as HC. destruct Hc as (p & rawq & Hu & Hp).
    rewrite construct_method in Hp.
    unfold stack_call, Client.run, push_blob, bind, new_request. cbn [e_construct_ok stack_env].
    unfold Stack.construct_ok. rewrite HC. unfold ret.
    change {| rq_method := kind_method (Http.q_kind (start_upload_rreq repo)); rq_url := UReq (start_upload_rreq repo);
              rq_header := []; rq_body := BNil; rq_clen := 0 |} with (request_of (start_upload_rreq repo)).
    (* the POST *)
    rewrite (client_do_stack linked hash subject_of media enc dec_errors dec_names dec_index redirect B bstep o
               (request_of (start_upload_rreq repo)) [202] w _ b4
               [ECall (PushBlobChunked repo 0) (Ok vw); ECall (WID (wid_of vw)) (Ok vid);
                ECall (WChunkSize (wid_of vw)) (Ok vcs); ECall (WClose (wid_of vw)) rc]
               (mkresp 202 (hset H_chunk_min (dec_Z (n_of vcs)) (hset H_range (s "0-0") (hset H_location (upath repo id) [])))
                       [] None)
               (to_server_req_of (start_upload_rreq repo) p rawq Hu)).
    2:{ apply (emit_start_upload linked (digest_of hash) subject_of enc redirect B bstep o
                 (sv_b (w_srv w)) (plain_req MPost p rawq) _ Hp b1 b2 b3 b4 vw vid vcs rc
                 (upath repo id) eq_refl H1 H2 (location_ok linked repo id Hr Hid) H3 H4 Hc1 Hc2). }
    2:{ reflexivity. }
    cbv zeta. cbn [p_status]. change (status_accepted [202] 202) with true. cbn iota.
    unfold lift, location_from_response, rheader, got. cbn [hr_rs hr_req].
    rewrite rs_header_of_server_resp. cbn [p_hdrs]. change location_hdr with H_location. hdrs.
    assert (Hnel : is_empty (upath repo id) = false) by reflexivity. rewrite Hnel.
    cbn [e_url_ok stack_env]. unfold url_ok. rewrite (upath_parse repo id Hr Hid). cbn [negb].
    (* the size checks *)
    rewrite Hsz. change (0 <? 0) with false. change (0 =? 0) with true. cbn [is_empty negb andb body_of_reader].
    (* the PUT *)
    set (sput := mkhreq m_PUT (upath repo id) (s "digest=" ++ query_escape dg) []
                        (Request.range_string 0 0) octet_stream 0 []).
    assert (Hcr : chunk_range sput = Ok (0, 0)).
    { apply (chunk_range_empty sput 0); [unfold max_int64; lia | reflexivity | reflexivity]. }
    pose proof (emit_complete_upload_empty linked (digest_of hash) subject_of enc redirect B bstep o
                  b4 sput _ b5 b7 b8 0 vw2 vd rc2 (complete_parse linked repo id dg Hr Hid Hd)
                  eq_refl Hl Hcr eq_refl H5 H7 H8 Hc3 Hc4) as Eh.
    cbn [Request.q_repo Request.q_upload Request.q_digest] in Eh.
    match goal with |- context [client_do (srv B) serve env ?rq [201] ?w1] =>
      erewrite (client_do_stack linked hash subject_of media enc dec_errors dec_names dec_index redirect B bstep o
                 rq [201] w1 sput b8 _ _ _ Eh eq_refl)
    end.
    Unshelve.
    2:{ rewrite http_range_string.
        rewrite (to_server_req_put_empty _ (Request.range_string 0 0) (upath repo id) (s "digest=" ++ query_escape dg)
                   [(h_content_type, octet_stream)]).
        - reflexivity.
        - cbn [interp_url]. rewrite (upath_dot_free repo id Hr Hid), (upath_parse repo id Hr Hid). reflexivity.
        - reflexivity. }
    cbv zeta. cbn [p_status]. change (status_accepted [201] 201) with true. cbn iota.
    eexists. split; reflexivity.
  Qed.

End Empty.

Print Assumptions transparent_commit_empty.
Print Assumptions transparent_PushBlob_empty.
