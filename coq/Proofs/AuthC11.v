(* Proofs about Model/Auth.v, part 6: the four clauses of C11 hold on every history the
   transport can produce - for every network, clock, configuration and schedule. *)
From Coq Require Import String ZArith Lia.
From OCI Require Import Base.Outcome Model.Scope Model.Challenge Model.Auth Model.AuthSpec
  Proofs.Challenge Proofs.AuthBase Proofs.AuthShape Proofs.AuthInv Proofs.AuthStep Proofs.AuthTrace.

Local Open Scope Z_scope.

Lemma all_ok_app ev new h :
  all_ok ev h = true ->
  (forall pre e post, new = pre ++ e :: post -> ev e (post ++ h) = true) ->
  all_ok ev (new ++ h) = true.
Proof.
  intros Hh. induction new as [|e new IH]; intros H; [exact Hh|].
  cbn [app all_ok]. apply andb_true_iff. split.
  - apply (H [] e new). reflexivity.
  - apply IH. intros pre e' post Hp. apply (H (e :: pre)). cbn. now rewrite Hp.
Qed.

Lemma authz_eqb_refl a : authz_eqb a a = true.
Proof. destruct a; cbn; rewrite ?beqb_refl; reflexivity. Qed.

Section C11.
  Variable E : env.

  (* a clause that holds at every step holds on every run *)
  Lemma run_all_ok (ev : event -> hist -> bool) :
    (forall st st' new, Inv E st -> shape E st st' new -> all_ok ev (history st) = true ->
                        all_ok ev (new ++ history st) = true) ->
    forall l, all_ok ev (history (run E l)) = true.
  Proof.
    intros Hstep l. unfold run.
    assert (forall st, Inv E st -> all_ok ev (history st) = true ->
                       all_ok ev (history (fold_left (step E) l st)) = true) as H.
    { induction l as [|x l IH]; intros st Hinv Hok; [exact Hok|]. cbn [fold_left].
      apply IH; [now apply step_Inv|].
      destruct (step_shape E st x Hinv) as [_ [Heq|[new [Hs Heq]]]]; rewrite Heq; [exact Hok | eapply Hstep; eauto]. }
    apply H; [apply Inv_init | reflexivity].
  Qed.

  (* token events do not concern a clause that only looks at registry attempts and returns *)
  Lemma all_ok_toks (ev : event -> hist -> bool) id toks X :
    tok_sends id toks ->
    (forall m rsp past, is_tok_msg m = true -> ev (ESend id m rsp) past = true) ->
    all_ok ev X = true -> all_ok ev (toks ++ X) = true.
  Proof.
    intros Ht Hev HX. apply all_ok_app; [exact HX|]. intros pre e post Hp.
    unfold tok_sends in Ht. rewrite Forall_forall in Ht.
    destruct (Ht e) as [m [rsp [-> Hm]]]; [rewrite Hp; apply in_or_app; right; now left|]. now apply Hev.
  Qed.

  Lemma RI_p1_reg st host : Inv E st -> RI E host (p1_reg E st host) (history st).
  Proof.
    intros Hinv. destruct (reg_get host (regs st)) as [r|] eqn:Eg.
    - rewrite (p1_reg_grow E _ _ Hinv _ Eg). exact (inv_reg _ _ Hinv _ _ Eg).
    - unfold p1_reg. rewrite Eg. cbn. apply RI_init.
  Qed.

  Lemma blk_sends id r0 www A B hb toks sc2 res2 resa r1 :
    blk E id r0 www A B hb toks sc2 res2 resa r1 -> tok_sends id toks.
  Proof. intros [_ Hb _ _ _ _ _]. eapply tok_block_sends, Hb. Qed.

  Lemma mids_of_body id b :
    mids id (match b with BGet => [EGetBody id; ERespClose id] | _ => [ERespClose id] end).
  Proof. destruct b; repeat (constructor; [first [now left | now right]|]); constructor. Qed.

  Lemma sc_of_body id (b : bool) : (if b then [ESelfClose id] else []) = [] \/ (if b then [ESelfClose id] else []) = [ESelfClose id].
  Proof. destruct b; auto. Qed.

  (* ---------- P3: at most two attempts; 401 on a fresh token becomes 403 ---------- *)

  (* a token issued in some phase of call [id] is one of the tokens issued to call [id] *)
  Lemma issue_at_id i e h : issue_at E (e :: h) = Some i -> i_id i = ev_id e.
  Proof.
    cbn [issue_at]. destruct e as [| |id' m [|st www [| |w]]| | | |]; try discriminate.
    destruct (is_tok_msg m && (st =? 200)%N); [|discriminate]. intros H. injection H as <-. reflexivity.
  Qed.

  Lemma call_issues_cons id e h f :
    existsb f (call_issues E id h) = true -> existsb f (call_issues E id (e :: h)) = true.
  Proof.
    unfold call_issues. cbn [issues]. destruct (issue_at E (e :: h)) as [i|]; cbn [ocons filter]; [|auto].
    destruct (Nat.eqb (i_id i) id); [|auto]. cbn [existsb]. intros ->. apply orb_true_r.
  Qed.

  Lemma phase_issues_call id h f :
    existsb f (phase_issues E id h) = true -> existsb f (call_issues E id h) = true.
  Proof.
    induction h as [|e h IH]; [discriminate|]. cbn [phase_issues].
    destruct (is_marker id e); [discriminate|].
    destruct (Nat.eqb (ev_id e) id) eqn:Ee; [|intros H; apply call_issues_cons; auto].
    unfold call_issues in *. cbn [issues]. destruct (issue_at E (e :: h)) as [i|] eqn:Ei; cbn [ocons]; [|exact IH].
    cbn [existsb filter]. rewrite (issue_at_id _ _ _ Ei), Ee. cbn [existsb].
    intros H. apply orb_true_iff in H as [->|H]; [reflexivity|]. rewrite (IH H). apply orb_true_r.
  Qed.

  Lemma evP3_tok id m rsp past : is_tok_msg m = true -> evP3 E (ESend id m rsp) past = true.
  Proof. destruct m; [discriminate| |]; reflexivity. Qed.

  Lemma evP3_quiet_events id past : evP3 E (ERespClose id) past = true /\ evP3 E (EGetBody id) past = true
    /\ evP3 E (ESelfClose id) past = true /\ evP3 E (EResume id) past = true.
  Proof. now repeat split. Qed.

  Lemma all_ok_mids ev id mid X :
    mids id mid -> (forall past, ev (ERespClose id) past = true) -> (forall past, ev (EGetBody id) past = true) ->
    all_ok ev X = true -> all_ok ev (mid ++ X) = true.
  Proof.
    intros Hm H1 H2 HX. apply all_ok_app; [exact HX|]. intros pre e post Hp.
    unfold mids in Hm. rewrite Forall_forall in Hm.
    destruct (Hm e) as [->| ->]; [rewrite Hp; apply in_or_app; right; now left| |]; auto.
  Qed.

  Lemma all_ok_sc ev id (b : bool) X :
    (forall past, ev (ESelfClose id) past = true) ->
    all_ok ev X = true -> all_ok ev ((if b then [ESelfClose id] else []) ++ X) = true.
  Proof. intros H HX. destruct b; cbn [app all_ok]; [rewrite H|]; exact HX. Qed.

  (* the return of a call that made [n] attempts, the last one answered [r], and is not due a 403 *)
  Lemma evP3_return id res past :
    returned id past = false ->
    (count_reg id past <> 2%nat \/ match last_reg id past with
                                  | Some (ABearer _, RHttp st _ _) => st <> 401%N
                                  | _ => True
                                  end) ->
    match res with
    | RetResp st denied => denied = false /\ exists a www b, last_reg id past = Some (a, RHttp st www b)
    | RetErr _ => True
    end ->
    evP3 E (EReturn id res) past = true.
  Proof.
    intros Hr Hnd Hres. cbn [evP3]. rewrite Hr. cbn [negb andb].
    set (dd := (count_reg id past =? 2)%nat && _).
    assert (dd = false) as ->.
    { unfold dd. destruct Hnd as [Hc|Hl].
      - apply Nat.eqb_neq in Hc. now rewrite Hc.
      - destruct (last_reg id past) as [[[|t| |] [|st www b]]|]; rewrite ?andb_false_r; try reflexivity.
        apply N.eqb_neq in Hl. rewrite Hl. now rewrite andb_false_r. }
    destruct res as [st denied|o]; [|reflexivity].
    destruct Hres as [-> [a [www [b ->]]]]. cbn. apply N.eqb_refl.
  Qed.

  Lemma step_P3 st st' new : Inv E st -> shape E st st' new -> all_ok (evP3 E) (history st) = true ->
    all_ok (evP3 E) (new ++ history st) = true.
  Proof.
    intros Hinv Hs Hok.
    destruct Hs as [id q Hn Hie | id q a toks rsp r1 Hn Hie Hp Hg | id q www toks sc2 res2 e r1 Hn Hie r0 Ha Hb Hrf Hblk Hg
                   | id th rsp res Hth Hpc Hres | id th rsp ch r a toks ta r1 rsp2 Hth Hpc Hch Hg Hp Hg1 Hnb
                   | id th rsp ch r a toks ta r1 Hth Hpc Hch Hg Hp Hg1 Hnb
                   | id th rsp ch r toks sc2 res2 e r1 Hth Hpc Hch Hg Hb Hblk Hg1
                   | id th rsp ta res Hth Hpc Hres | id th www b Hth Hpc];
      cbn [app]; rewrite <- ?app_assoc; cbn [app].
    - (* init error *)
      pose proof (untouched_facts id (history st) (inv_none _ _ Hinv id Hn)) as [U1 [U2 [U3 [U4 U5]]]].
      destruct (sc_facts id _ (sc_of_body id (has_body (q_body q)))) as [S1 [S2 S3]].
      cbn [app all_ok]. apply andb_true_iff. split.
      + apply evP3_return; [| left | exact I].
        * rewrite returned_quiets by exact S2. now rewrite returned_cons.
        * rewrite count_reg_quiets by exact S2. rewrite count_reg_cons by reflexivity. rewrite U3. discriminate.
      + apply all_ok_sc; [reflexivity|]. cbn [all_ok]. now rewrite Hok.
    - (* first attempt *)
      pose proof (untouched_facts id (history st) (inv_none _ _ Hinv id Hn)) as [U1 [U2 [U3 [U4 U5]]]].
      assert (Hts : tok_sends id toks). { destruct Hp; try constructor. eapply blk_sends; eauto. }
      pose proof (tok_sends_quiets _ _ Hts) as Hq.
      cbn [app all_ok]. apply andb_true_iff. split.
      + cbn [evP3]. rewrite count_reg_quiets, returned_quiets by exact Hq.
        rewrite count_reg_cons, returned_cons by reflexivity. now rewrite U3, U2.
      + apply (all_ok_toks _ id); [exact Hts | apply evP3_tok|]. cbn [app all_ok]. now rewrite Hok.
    - (* refresh failed *)
      pose proof (untouched_facts id (history st) (inv_none _ _ Hinv id Hn)) as [U1 [U2 [U3 [U4 U5]]]].
      destruct (sc_facts id _ (sc_of_body id (has_body (q_body q)))) as [S1 [S2 S3]].
      pose proof (blk_sends _ _ _ _ _ _ _ _ _ _ _ Hblk) as Hts. pose proof (tok_sends_quiets _ _ Hts) as Hq.
      cbn [app all_ok]. apply andb_true_iff. split.
      + apply evP3_return; [| left | exact I].
        * rewrite returned_quiets by exact S2. rewrite returned_quiets by exact Hq. now rewrite returned_cons.
        * rewrite count_reg_quiets by exact S2. rewrite count_reg_quiets by exact Hq.
          rewrite count_reg_cons by reflexivity. rewrite U3. discriminate.
      + apply all_ok_sc; [reflexivity|]. apply (all_ok_toks _ id); [exact Hts | apply evP3_tok|].
        cbn [app all_ok]. now rewrite Hok.
    - (* phase 2 ends without a second attempt *)
      pose proof (inv_thr _ _ Hinv _ _ Hth) as [Hq Hokt]. rewrite Hpc in Hokt.
      destruct Hokt as [T1 [T2 [T3 _]]].
      cbn [app all_ok]. rewrite Hok. cbn [evP3 andb]. rewrite andb_true_r.
      apply evP3_return.
      + now rewrite returned_cons.
      + left. rewrite count_reg_cons by reflexivity. rewrite T2. discriminate.
      + destruct rsp as [|status www b]; [now subst|]. destruct Hres as [-> _]. split; [reflexivity|].
        rewrite last_reg_cons by reflexivity. rewrite T3. eauto.
    - (* second attempt *)
      pose proof (inv_thr _ _ Hinv _ _ Hth) as [Hq Hokt]. rewrite Hpc in Hokt.
      destruct Hokt as [T1 [T2 [T3 _]]].
      assert (Hts : tok_sends id toks). { destruct Hp; try constructor. eapply blk_sends; eauto. }
      pose proof (tok_sends_quiets _ _ Hts) as Hqt.
      destruct (mids_facts _ _ (mids_of_body id (q_body (th_q th)))) as [M1 [M2 M3]].
      cbn [app all_ok]. apply andb_true_iff. split.
      + cbn [evP3]. rewrite count_reg_quiets, returned_quiets by exact M2.
        rewrite count_reg_quiets, returned_quiets by exact Hqt.
        rewrite count_reg_cons, returned_cons by reflexivity. now rewrite T2, T1.
      + apply (all_ok_mids _ id); [apply mids_of_body | reflexivity | reflexivity|].
        apply (all_ok_toks _ id); [exact Hts | apply evP3_tok|]. cbn [app all_ok]. now rewrite Hok.
    - (* GetBody failed *)
      pose proof (inv_thr _ _ Hinv _ _ Hth) as [Hq Hokt]. rewrite Hpc in Hokt.
      destruct Hokt as [T1 [T2 [T3 _]]].
      assert (Hts : tok_sends id toks). { destruct Hp; try constructor. eapply blk_sends; eauto. }
      pose proof (tok_sends_quiets _ _ Hts) as Hqt.
      cbn [app all_ok]. apply andb_true_iff. split.
      + apply evP3_return; [| left | exact I].
        * rewrite !returned_cons by reflexivity. rewrite returned_quiets by exact Hqt. now rewrite returned_cons.
        * rewrite !count_reg_cons by reflexivity. rewrite count_reg_quiets by exact Hqt.
          rewrite count_reg_cons by reflexivity. rewrite T2. discriminate.
      + cbn [evP3 andb]. apply (all_ok_toks _ id); [exact Hts | apply evP3_tok|]. cbn [app all_ok]. now rewrite Hok.
    - (* token acquisition failed *)
      pose proof (inv_thr _ _ Hinv _ _ Hth) as [Hq Hokt]. rewrite Hpc in Hokt.
      destruct Hokt as [T1 [T2 [T3 _]]].
      pose proof (blk_sends _ _ _ _ _ _ _ _ _ _ _ Hblk) as Hts. pose proof (tok_sends_quiets _ _ Hts) as Hqt.
      cbn [app all_ok]. apply andb_true_iff. split.
      + apply evP3_return; [| left | exact I].
        * rewrite !returned_cons by reflexivity. rewrite returned_quiets by exact Hqt. now rewrite returned_cons.
        * rewrite !count_reg_cons by reflexivity. rewrite count_reg_quiets by exact Hqt.
          rewrite count_reg_cons by reflexivity. rewrite T2. discriminate.
      + cbn [evP3 andb]. apply (all_ok_toks _ id); [exact Hts | apply evP3_tok|]. cbn [app all_ok]. now rewrite Hok.
    - (* phase 3, no rewrite *)
      pose proof (inv_thr _ _ Hinv _ _ Hth) as [Hq Hokt]. rewrite Hpc in Hokt.
      destruct Hokt as [T1 [T2 [T3 [_ T5]]]].
      cbn [app all_ok]. rewrite Hok. cbn [evP3 andb]. rewrite andb_true_r.
      apply evP3_return.
      + now rewrite returned_cons.
      + right. rewrite last_reg_cons by reflexivity. rewrite T3.
        destruct rsp as [|status www b]; [now destruct (th_hdr th)|].
        destruct Hres as [_ [Hne|Hta]].
        * now destruct (th_hdr th).
        * subst ta. destruct T5 as [u [p ->]]. exact I.
      + destruct rsp as [|status www b]; [now subst|]. destruct Hres as [-> _]. split; [reflexivity|].
        rewrite last_reg_cons by reflexivity. rewrite T3. eauto.
    - (* phase 3, 401 on a fresh token *)
      pose proof (inv_thr _ _ Hinv _ _ Hth) as [Hq Hokt]. rewrite Hpc in Hokt.
      destruct Hokt as [T1 [T2 [T3 [[older T4] [t [T5 T6]]]]]].
      cbn [app all_ok]. rewrite Hok. cbn [evP3 andb]. rewrite andb_true_r.
      rewrite !returned_cons by reflexivity. rewrite T1. cbn [negb andb].
      rewrite !count_reg_cons by reflexivity. rewrite T2. cbn [Nat.eqb andb].
      rewrite !last_reg_cons by reflexivity. rewrite T3, T5.
      apply phase_issues_call in T6. apply (call_issues_cons id (EResume id)) in T6.
      apply (call_issues_cons id (ERespClose id)) in T6. rewrite T6. reflexivity.
  Qed.

  Theorem P3_holds l : all_ok (evP3 E) (history (run E l)) = true.
  Proof. apply run_all_ok. intros. eapply step_P3; eauto. Qed.

  (* ---------- P4: the request body is closed on every path ---------- *)

  Definition nonret (e : event) : bool := match e with EReturn _ _ => false | _ => true end.
  Definition nonrets (l : hist) : Prop := Forall (fun e => nonret e = true) l.

  Lemma all_ok_nonrets ev new h :
    (forall e past, nonret e = true -> ev e past = true) -> nonrets new ->
    all_ok ev h = true -> all_ok ev (new ++ h) = true.
  Proof.
    intros Hev Hn Hh. apply all_ok_app; [exact Hh|]. intros pre e post Hp. apply Hev.
    unfold nonrets in Hn. rewrite Forall_forall in Hn. apply Hn. rewrite Hp. apply in_or_app. right. now left.
  Qed.

  Lemma tok_sends_nonrets id toks : tok_sends id toks -> nonrets toks.
  Proof. apply Forall_impl. intros e [m [rsp [-> _]]]. reflexivity. Qed.
  Lemma mids_nonrets id mid : mids id mid -> nonrets mid.
  Proof. apply Forall_impl. intros e [->| ->]; reflexivity. Qed.
  Lemma sc_nonrets id (b : bool) : nonrets (if b then [ESelfClose id] else []).
  Proof. destruct b; repeat constructor. Qed.
  Lemma nonrets_app a b : nonrets a -> nonrets b -> nonrets (a ++ b).
  Proof. intros. now apply Forall_app. Qed.

  Lemma evP4_nonret e past : nonret e = true -> evP4 e past = true.
  Proof. destruct e; try reflexivity. discriminate. Qed.

  Lemma p1_send_sends id q r0 h0 a toks r1 : p1_send E id q r0 h0 a toks r1 -> tok_sends id toks.
  Proof. intros Hp. destruct Hp; try constructor. eapply blk_sends; eauto. Qed.
  Lemma p2_send_sends id q r ch h1 a toks ta r1 : p2_send E id q r ch h1 a toks ta r1 -> tok_sends id toks.
  Proof. intros Hp. destruct Hp; try constructor. eapply blk_sends; eauto. Qed.

  Lemma evP4_return id res q past :
    req_of id past = Some q ->
    (has_body (q_body q) = false \/ self_closed id past = true \/ (1 <= count_reg id past)%nat) ->
    evP4 (EReturn id res) past = true.
  Proof.
    intros Hq H. cbn [evP4]. rewrite Hq. destruct H as [H|[H|H]].
    - now rewrite H.
    - rewrite H. apply orb_true_iff. left. apply orb_true_r.
    - apply Nat.leb_le in H. rewrite H. apply orb_true_r.
  Qed.

  Lemma step_P4 st st' new : Inv E st -> shape E st st' new -> all_ok evP4 (history st) = true ->
    all_ok evP4 (new ++ history st) = true.
  Proof.
    intros Hinv Hs Hok.
    destruct Hs as [id q Hn Hie | id q a toks rsp r1 Hn Hie Hp Hg | id q www toks sc2 res2 e r1 Hn Hie r0 Ha Hb Hrf Hblk Hg
                   | id th rsp res Hth Hpc Hres | id th rsp ch r a toks ta r1 rsp2 Hth Hpc Hch Hg Hp Hg1 Hnb
                   | id th rsp ch r a toks ta r1 Hth Hpc Hch Hg Hp Hg1 Hnb
                   | id th rsp ch r toks sc2 res2 e r1 Hth Hpc Hch Hg Hb Hblk Hg1
                   | id th rsp ta res Hth Hpc Hres | id th www b Hth Hpc].
    - (* init error *)
      destruct (sc_facts id _ (sc_of_body id (has_body (q_body q)))) as [S1 [S2 S3]].
      cbn [app all_ok]. apply andb_true_iff. split.
      + rewrite <- app_assoc. apply evP4_return with (q := q).
        * rewrite req_of_quiets by exact S2. cbn. now rewrite Nat.eqb_refl.
        * destruct (has_body (q_body q)); [right; left | now left]. cbn. now rewrite Nat.eqb_refl.
      + apply all_ok_nonrets; [apply evP4_nonret | | exact Hok].
        apply nonrets_app; [apply sc_nonrets | repeat constructor].
    - apply (all_ok_nonrets _ (_ :: _)); [apply evP4_nonret | | exact Hok].
      constructor; [reflexivity|]. apply nonrets_app; [eapply tok_sends_nonrets, p1_send_sends; eauto | repeat constructor].
    - destruct (sc_facts id _ (sc_of_body id (has_body (q_body q)))) as [S1 [S2 S3]].
      pose proof (blk_sends _ _ _ _ _ _ _ _ _ _ _ Hblk) as Hts. pose proof (tok_sends_quiets _ _ Hts) as Hq.
      cbn [app all_ok]. apply andb_true_iff. split.
      + rewrite <- !app_assoc. apply evP4_return with (q := q).
        * rewrite req_of_quiets by exact S2. rewrite req_of_quiets by exact Hq. cbn. now rewrite Nat.eqb_refl.
        * destruct (has_body (q_body q)); [right; left | now left]. cbn. now rewrite Nat.eqb_refl.
      + apply all_ok_nonrets; [apply evP4_nonret | | exact Hok].
        apply nonrets_app; [apply sc_nonrets|]. apply nonrets_app; [now apply tok_sends_nonrets with (id := id) | repeat constructor].
    - pose proof (inv_thr _ _ Hinv _ _ Hth) as [Hq Hokt]. rewrite Hpc in Hokt. destruct Hokt as [T1 [T2 _]].
      cbn [app all_ok]. apply andb_true_iff. split; [|exact Hok].
      apply evP4_return with (q := th_q th); [now rewrite req_of_cons|]. right. right.
      rewrite count_reg_cons by reflexivity. rewrite T2. lia.
    - apply (all_ok_nonrets _ (_ :: _)); [apply evP4_nonret | | exact Hok].
      constructor; [reflexivity|]. apply nonrets_app; [eapply mids_nonrets, mids_of_body|].
      apply nonrets_app; [eapply tok_sends_nonrets, p2_send_sends; eauto | repeat constructor].
    - pose proof (inv_thr _ _ Hinv _ _ Hth) as [Hq Hokt]. rewrite Hpc in Hokt. destruct Hokt as [T1 [T2 _]].
      pose proof (p2_send_sends _ _ _ _ _ _ _ _ _ Hp) as Hts. pose proof (tok_sends_quiets _ _ Hts) as Hqt.
      cbn [app all_ok]. apply andb_true_iff. split.
      + rewrite <- app_assoc. cbn [app]. apply evP4_return with (q := th_q th).
        * rewrite !req_of_cons by reflexivity. rewrite req_of_quiets by exact Hqt. now rewrite req_of_cons.
        * right. right. rewrite !count_reg_cons by reflexivity. rewrite count_reg_quiets by exact Hqt.
          cbn [app]. rewrite count_reg_cons by reflexivity. rewrite T2. lia.
      + apply (all_ok_nonrets _ (_ :: _ :: _)); [apply evP4_nonret | | exact Hok].
        constructor; [reflexivity|]. constructor; [reflexivity|].
        apply nonrets_app; [now apply tok_sends_nonrets with (id := id) | repeat constructor].
    - pose proof (inv_thr _ _ Hinv _ _ Hth) as [Hq Hokt]. rewrite Hpc in Hokt. destruct Hokt as [T1 [T2 _]].
      pose proof (blk_sends _ _ _ _ _ _ _ _ _ _ _ Hblk) as Hts. pose proof (tok_sends_quiets _ _ Hts) as Hqt.
      cbn [app all_ok]. apply andb_true_iff. split.
      + rewrite <- app_assoc. cbn [app]. apply evP4_return with (q := th_q th).
        * rewrite !req_of_cons by reflexivity. rewrite req_of_quiets by exact Hqt. now rewrite req_of_cons.
        * right. right. rewrite !count_reg_cons by reflexivity. rewrite count_reg_quiets by exact Hqt.
          cbn [app]. rewrite count_reg_cons by reflexivity. rewrite T2. lia.
      + apply (all_ok_nonrets _ (_ :: _)); [apply evP4_nonret | | exact Hok].
        constructor; [reflexivity|].
        apply nonrets_app; [now apply tok_sends_nonrets with (id := id) | repeat constructor].
    - pose proof (inv_thr _ _ Hinv _ _ Hth) as [Hq Hokt]. rewrite Hpc in Hokt. destruct Hokt as [T1 [T2 _]].
      cbn [app all_ok]. apply andb_true_iff. split; [|exact Hok].
      apply evP4_return with (q := th_q th); [now rewrite req_of_cons|]. right. right.
      rewrite count_reg_cons by reflexivity. rewrite T2. lia.
    - pose proof (inv_thr _ _ Hinv _ _ Hth) as [Hq Hokt]. rewrite Hpc in Hokt. destruct Hokt as [T1 [T2 _]].
      cbn [app all_ok]. apply andb_true_iff. split; [|exact Hok].
      apply evP4_return with (q := th_q th); [now rewrite !req_of_cons|]. right. right.
      rewrite !count_reg_cons by reflexivity. rewrite T2. lia.
  Qed.

  Theorem P4_holds l : all_ok evP4 (history (run E l)) = true.
  Proof. apply run_all_ok. intros. eapply step_P4; eauto. Qed.

  (* ---------- P1, P2: confinement ---------- *)

  Lemma all_ok_by (p : event -> bool) ev new h :
    (forall e past, p e = true -> ev e past = true) -> Forall (fun e => p e = true) new ->
    all_ok ev h = true -> all_ok ev (new ++ h) = true.
  Proof.
    intros Hev Hn Hh. apply all_ok_app; [exact Hh|]. intros pre e post Hp. apply Hev.
    rewrite Forall_forall in Hn. apply Hn. rewrite Hp. apply in_or_app. right. now left.
  Qed.

  Definition nonreg (e : event) : bool := match e with ESend _ (MReg _ _) _ => false | _ => true end.
  Definition nontok (e : event) : bool := match e with ESend _ m _ => negb (is_tok_msg m) | _ => true end.

  Lemma evP1_nonreg e past : nonreg e = true -> evP1 E e past = true.
  Proof. destruct e as [| |i m r| | | |]; try reflexivity. destruct m; try reflexivity. discriminate. Qed.

  Lemma evP2_nontok e past : nontok e = true -> evP2 E e past = true.
  Proof.
    destruct e as [| |i m r| | | |]; try reflexivity. destruct m; try discriminate. intros _.
    cbn [evP2]. now destruct (req_of i past).
  Qed.

  Lemma tok_sends_nonreg id toks : tok_sends id toks -> Forall (fun e => nonreg e = true) toks.
  Proof. apply Forall_impl. intros e [m [rsp [-> Hm]]]. destruct m; [discriminate| |]; reflexivity. Qed.
  Lemma mids_nonreg id mid : mids id mid -> Forall (fun e => nonreg e = true) mid.
  Proof. apply Forall_impl. intros e [->| ->]; reflexivity. Qed.
  Lemma mids_nontok id mid : mids id mid -> Forall (fun e => nontok e = true) mid.
  Proof. apply Forall_impl. intros e [->| ->]; reflexivity. Qed.
  Lemma sc_nonreg id (b : bool) : Forall (fun e => nonreg e = true) (if b then [ESelfClose id] else []).
  Proof. destruct b; repeat constructor. Qed.
  Lemma sc_nontok id (b : bool) : Forall (fun e => nontok e = true) (if b then [ESelfClose id] else []).
  Proof. destruct b; repeat constructor. Qed.

  Lemma find_In {A} (f : A -> bool) l x : find f l = Some x -> In x l /\ f x = true.
  Proof. apply find_some. Qed.

  Lemma named_of_Named host ch p new h : Named host ch h -> p ch = true -> named host p (new ++ h) = true.
  Proof. intros Hn Hp. apply named_app. eapply Named_named; eauto. Qed.

  Lemma token_of_host_app host t new h :
    fresh_new new h -> token_of_host E host t h = true -> token_of_host E host t (new ++ h) = true.
  Proof.
    induction new as [|e new IH]; intros Hf H; [exact H|].
    apply fresh_new_tail in Hf as [He Hn]. cbn [app]. apply token_of_host_cons; auto.
  Qed.

  Lemma refresh_of_host_app host t new h :
    fresh_new new h -> refresh_of_host E host t h = true -> refresh_of_host E host t (new ++ h) = true.
  Proof.
    induction new as [|e new IH]; intros Hf H; [exact H|].
    apply fresh_new_tail in Hf as [He Hn]. cbn [app]. apply refresh_of_host_cons; auto.
  Qed.

  (* a cached token is a token of its host *)
  Lemma tok_just_token_of_host host r tok h :
    tok_just E host r tok h -> token_of_host E host (st_token tok) h = true.
  Proof.
    intros [[ce [Hc [Hn ->]]]|[i [Hi [Ho [_ [Ht _]]]]]]; unfold token_of_host.
    - rewrite Hc. cbn. now rewrite Hn, beqb_refl.
    - apply orb_true_iff. right. apply existsb_exists. exists i. split; [exact Hi|]. rewrite Ho, Ht. apply beqb_refl.
  Qed.

  (* the token a successful block acquired is a token of the call's host *)
  Lemma blk_token_of_host id host q r0 www A B hb toks sc2 w r1 :
    blk E id r0 www A B hb toks sc2 (Ok w) (Ok (tok_of w)) r1 ->
    req_of id hb = Some q -> q_host q = host ->
    token_of_host E host (tok_of w) (toks ++ hb) = true.
  Proof.
    intros [_ Hb _ _ _ _ _] Hq Hh.
    pose proof (tok_block_sends E _ _ _ _ _ _ _ _ _ Hb) as Hts.
    destruct (block_issue E _ _ _ _ _ _ _ _ _ hb Hb) as [_ [_ [Hne Hi]]].
    unfold token_of_host. apply orb_true_iff. right. apply existsb_exists.
    eexists. split; [exact (issue_head_in E _ _ _ Hne Hi)|]. cbn [i_id i_tok].
    unfold on_host. rewrite (req_of_quiets _ _ _ (tok_sends_quiets _ _ Hts)), Hq, Hh. now rewrite !beqb_refl.
  Qed.

  Lemma step_P1 st st' new : Inv E st -> shape E st st' new -> all_ok (evP1 E) (history st) = true ->
    all_ok (evP1 E) (new ++ history st) = true.
  Proof.
    intros Hinv Hs Hok.
    destruct Hs as [id q Hn Hie | id q a toks rsp r1 Hn Hie Hp Hg | id q www toks sc2 res2 e r1 Hn Hie r0 Ha Hb Hrf Hblk Hg
                   | id th rsp res Hth Hpc Hres | id th rsp ch r a toks ta r1 rsp2 Hth Hpc Hch Hg Hp Hg1 Hnb
                   | id th rsp ch r a toks ta r1 Hth Hpc Hch Hg Hp Hg1 Hnb
                   | id th rsp ch r toks sc2 res2 e r1 Hth Hpc Hch Hg Hb Hblk Hg1
                   | id th rsp ta res Hth Hpc Hres | id th www b Hth Hpc].
    - apply (all_ok_by nonreg); [apply evP1_nonreg | | exact Hok].
      constructor; [reflexivity|]. apply Forall_app. split; [apply sc_nonreg | repeat constructor].
    - (* first attempt *)
      pose proof (untouched_facts id (history st) (inv_none _ _ Hinv id Hn)) as [U1 [U2 [U3 [U4 U5]]]].
      pose proof (p1_send_sends _ _ _ _ _ _ _ Hp) as Hts. pose proof (tok_sends_quiets _ _ Hts) as Hqt.
      pose proof (RI_p1_reg st (q_host q) Hinv) as Hri.
      set (host := q_host q) in *. set (r := p1_reg E st host) in *. set (h := history st) in *.
      set (h0 := EStart id q :: h) in *.
      assert (Hfresh0 : fresh_ev (EStart id q) h). { intros i q' [= <- <-]. exact U1. }
      assert (Hq0 : req_of id h0 = Some q). { cbn. now rewrite Nat.eqb_refl. }
      cbn [app all_ok]. rewrite <- app_assoc. cbn [app]. apply andb_true_iff. split.
      2:{ apply (all_ok_by nonreg); [apply evP1_nonreg | now apply tok_sends_nonreg with (id := id)|].
          cbn [all_ok]. rewrite Hok. reflexivity. }
      cbn [evP1]. rewrite req_of_quiets by exact Hqt. fold h0. rewrite Hq0. fold host. rewrite beqb_refl. cbn [andb].
      destruct Hp as [tok Ha | Ha | www u p Ha Hw Hb Hbs | www toks sc2 w r1 Ha Hb Hrf Hblk Hne].
      + apply orb_true_iff. right. apply find_In in Ha as [Hin _]. cbn in Hin. apply filter_In in Hin as [Hin _].
        apply (token_of_host_app _ _ [EStart id q]).
        * apply fresh_new_cons; [exact Hfresh0 | apply fresh_new_nil].
        * eapply tok_just_token_of_host. apply (ri_tok _ _ _ _ Hri). exact Hin.
      + now rewrite authz_eqb_refl.
      + apply orb_true_iff. right. cbn in Hbs, Hw.
        rewrite <- (ri_basic _ _ _ _ Hri Hie), Hbs. rewrite !beqb_refl. cbn [andb].
        apply (named_of_Named _ www _ [EStart id q]); [now apply (ri_www _ _ _ _ Hri)|].
        unfold is_basic_ch. unfold is_bearer in Hb. now rewrite Hb.
      + apply orb_true_iff. right. eapply blk_token_of_host; eauto.
    - apply (all_ok_by nonreg); [apply evP1_nonreg | | exact Hok].
      constructor; [reflexivity|]. apply Forall_app. split; [apply sc_nonreg|]. apply Forall_app.
      split; [eapply tok_sends_nonreg, blk_sends; eauto | repeat constructor].
    - apply (all_ok_by nonreg); [apply evP1_nonreg | repeat constructor | exact Hok].
    - (* second attempt *)
      pose proof (inv_thr _ _ Hinv _ _ Hth) as [Hq Hokt]. rewrite Hpc in Hokt.
      destruct Hokt as [T1 [T2 [T3 [T4 [[older T5] [r' [T6 T7]]]]]]].
      rewrite Hg in T6. injection T6 as <-.
      pose proof (inv_reg _ _ Hinv _ _ Hg) as Hri.
      pose proof (p2_send_sends _ _ _ _ _ _ _ _ _ Hp) as Hts. pose proof (tok_sends_quiets _ _ Hts) as Hqt.
      destruct (mids_facts _ _ (mids_of_body id (q_body (th_q th)))) as [M1 [M2 M3]].
      set (q := th_q th) in *. set (host := q_host q) in *. set (h := history st) in *.
      set (mid := match q_body q with BGet => [EGetBody id; ERespClose id] | _ => [ERespClose id] end) in *.
      set (h1 := EResume id :: h) in *.
      assert (Hq1 : req_of id h1 = Some q) by (unfold h1; now rewrite req_of_cons).
      cbn [app all_ok]. rewrite <- !app_assoc. cbn [app]. fold h1. apply andb_true_iff. split.
      2:{ apply (all_ok_by nonreg); [apply evP1_nonreg | apply mids_nonreg with (id := id), mids_of_body|].
          apply (all_ok_by nonreg); [apply evP1_nonreg | now apply tok_sends_nonreg with (id := id)|].
          unfold h1. cbn [all_ok]. rewrite Hok. reflexivity. }
      cbn [evP1]. rewrite req_of_quiets by exact M2. rewrite req_of_quiets by exact Hqt. rewrite Hq1.
      fold host. rewrite beqb_refl. cbn [andb]. apply orb_true_iff. right.
      destruct Hp as [toks sc2 w r1 Hb Hblk Hne | u p Hb Hbs].
      + apply token_of_host_app; [now apply no_start_fresh|]. eapply blk_token_of_host; eauto.
      + rewrite <- (ri_basic _ _ _ _ Hri T7), Hbs. rewrite !beqb_refl. cbn [andb]. cbn [app].
        apply named_app. apply (named_cons _ _ (EResume id)).
        apply Named_named with (ch := ch).
        * exists id, (th_hdr th), rsp. split; [exact T4 | exact Hch].
        * unfold is_basic_ch. unfold is_bearer in Hb. now rewrite Hb.
    - apply (all_ok_by nonreg); [apply evP1_nonreg | | exact Hok].
      constructor; [reflexivity|]. constructor; [reflexivity|]. constructor; [reflexivity|]. apply Forall_app.
      split; [eapply tok_sends_nonreg, p2_send_sends; eauto | repeat constructor].
    - apply (all_ok_by nonreg); [apply evP1_nonreg | | exact Hok].
      constructor; [reflexivity|]. constructor; [reflexivity|]. apply Forall_app.
      split; [eapply tok_sends_nonreg, blk_sends; eauto | repeat constructor].
    - apply (all_ok_by nonreg); [apply evP1_nonreg | repeat constructor | exact Hok].
    - apply (all_ok_by nonreg); [apply evP1_nonreg | repeat constructor | exact Hok].
  Qed.

  Theorem P1_holds l : all_ok (evP1 E) (history (run E l)) = true.
  Proof. apply run_all_ok. intros. eapply step_P1; eauto. Qed.

  Lemma tok_block_events id rf bs www A B toks sc2 res2 :
    tok_block E id rf bs www A B toks sc2 res2 ->
    Forall (fun e => exists m rsp txt, e = ESend id m rsp /\ tokmsg_for E rf bs www txt m) toks.
  Proof.
    assert (forall txt l, tok_events E id rf bs www txt l ->
              Forall (fun e => exists m rsp txt, e = ESend id m rsp /\ tokmsg_for E rf bs www txt m) l) as Hw.
    { intros txt l. apply Forall_impl. intros e [m [rsp [-> Hm]]]. eauto. }
    intros [n1 [res1 [H1 [[_ [-> _]]|[_ [n2 [H2 [-> _]]]]]]]].
    - eapply Hw, tok_seq_events, H1.
    - apply Forall_app. split; eapply Hw, tok_seq_events; eassumption.
  Qed.

  Lemma post_form_refresh rf www txt : pget k_refresh_token (post_form rf www txt) = rf.
  Proof. reflexivity. Qed.

  Lemma post_form_keys rf www txt :
    forallb (fun kv => mem_bytes (fst kv) [k_client_id; k_grant_type; k_refresh_token; k_scope; k_service])
            (post_form rf www txt) = true.
  Proof. unfold post_form. destruct (nonempty (service_of www)); reflexivity. Qed.

  (* the token traffic of a block only goes to the realm the host named, with the host's secrets *)
  Lemma blk_P2 id host q r0 www A B hb toks sc2 res2 resa r1 :
    blk E id r0 www A B hb toks sc2 res2 resa r1 ->
    RI E host r0 hb -> r_initerr r0 = false -> is_bearer www = true ->
    req_of id hb = Some q -> q_host q = host ->
    all_ok (evP2 E) hb = true -> all_ok (evP2 E) (toks ++ hb) = true.
  Proof.
    intros [Hw Hb _ _ _ _ _] Hri Hie Hbe Hq Hh Hok.
    pose proof (tok_block_sends E _ _ _ _ _ _ _ _ _ Hb) as Hts.
    pose proof (tok_block_events _ _ _ _ _ _ _ _ _ Hb) as Hev.
    apply all_ok_app; [exact Hok|]. intros pre e post Hp.
    assert (Hpost : tok_sends id post).
    { unfold tok_sends in *. rewrite Forall_forall in *. intros x Hx. apply Hts. rewrite Hp.
      apply in_or_app. right. now right. }
    rewrite Forall_forall in Hev. destruct (Hev e) as [m [rsp [txt [-> Hm]]]].
    { rewrite Hp. apply in_or_app. right. now left. }
    cbn [evP2]. rewrite (req_of_quiets _ _ _ (tok_sends_quiets _ _ Hpost)), Hq, Hh.
    pose proof (ri_www _ _ _ _ Hri _ Hw) as Hnamed.
    destruct Hm as [[Hrf [Hpu ->]]|[base [qq [Hpu ->]]]].
    - (* POST *)
      apply andb_true_iff. split; [apply andb_true_iff; split|].
      + cbn [authz_eqb andb]. apply named_of_Named with (ch := www); [exact Hnamed|].
        unfold is_bearer_ch. unfold is_bearer in Hbe. rewrite Hbe. apply beqb_refl.
      + rewrite post_form_refresh. apply refresh_of_host_app; [eapply tok_sends_fresh; eauto|].
        destruct (ri_refresh _ _ _ _ Hri) as [Hnil|Hr]; [|exact Hr].
        rewrite Hnil in Hrf. discriminate.
      + apply post_form_keys.
    - (* GET *)
      apply andb_true_iff. split.
      + apply named_of_Named with (ch := www); [exact Hnamed|].
        unfold is_bearer_ch. unfold is_bearer in Hbe. rewrite Hbe. cbn [andb].
        fold (realm_of www). rewrite Hpu. apply beqb_refl.
      + unfold basic_of. destruct (r_basic r0) as [[u p]|] eqn:Ebs; [|reflexivity].
        rewrite <- (ri_basic _ _ _ _ Hri Hie), Ebs. now rewrite !beqb_refl.
  Qed.

  Lemma step_P2 st st' new : Inv E st -> shape E st st' new -> all_ok (evP2 E) (history st) = true ->
    all_ok (evP2 E) (new ++ history st) = true.
  Proof.
    intros Hinv Hs Hok.
    destruct Hs as [id q Hn Hie | id q a toks rsp r1 Hn Hie Hp Hg | id q www toks sc2 res2 e r1 Hn Hie r0 Ha Hb Hrf Hblk Hg
                   | id th rsp res Hth Hpc Hres | id th rsp ch r a toks ta r1 rsp2 Hth Hpc Hch Hg Hp Hg1 Hnb
                   | id th rsp ch r a toks ta r1 Hth Hpc Hch Hg Hp Hg1 Hnb
                   | id th rsp ch r toks sc2 res2 e r1 Hth Hpc Hch Hg Hb Hblk Hg1
                   | id th rsp ta res Hth Hpc Hres | id th www b Hth Hpc].
    - apply (all_ok_by nontok); [apply evP2_nontok | | exact Hok].
      constructor; [reflexivity|]. apply Forall_app. split; [apply sc_nontok | repeat constructor].
    - (* first attempt: the refresh block, if any *)
      pose proof (untouched_facts id (history st) (inv_none _ _ Hinv id Hn)) as [U1 _].
      pose proof (RI_p1_reg st (q_host q) Hinv) as Hri.
      assert (Hfresh0 : fresh_ev (EStart id q) (history st)). { intros i q' [= <- <-]. exact U1. }
      assert (Hok0 : all_ok (evP2 E) (EStart id q :: history st) = true) by (cbn [all_ok]; now rewrite Hok).
      cbn [app all_ok]. rewrite <- app_assoc. cbn [app]. apply andb_true_iff. split; [apply evP2_nontok; reflexivity|].
      destruct Hp as [tok Ha | Ha | www u p Ha Hw Hb Hbs | www toks sc2 w r1 Ha Hb Hrf Hblk Hne]; try exact Hok0.
      apply (blk_P2 id (q_host q) q _ _ _ _ _ _ _ _ _ _ Hblk);
        [ apply RI_delete; apply RI_cons; auto | exact Hie | assumption | cbn; now rewrite Nat.eqb_refl | reflexivity | exact Hok0 ].
    - pose proof (untouched_facts id (history st) (inv_none _ _ Hinv id Hn)) as [U1 _].
      pose proof (RI_p1_reg st (q_host q) Hinv) as Hri.
      assert (Hfresh0 : fresh_ev (EStart id q) (history st)). { intros i q' [= <- <-]. exact U1. }
      assert (Hok0 : all_ok (evP2 E) (EStart id q :: history st) = true) by (cbn [all_ok]; now rewrite Hok).
      cbn [app all_ok]. rewrite <- !app_assoc. cbn [app]. apply andb_true_iff. split; [reflexivity|].
      apply (all_ok_by nontok); [apply evP2_nontok | apply sc_nontok|].
      apply (blk_P2 id (q_host q) q _ _ _ _ _ _ _ _ _ _ Hblk);
        [ apply RI_delete; apply RI_cons; auto | exact Hie | assumption | cbn; now rewrite Nat.eqb_refl | reflexivity | exact Hok0 ].
    - apply (all_ok_by nontok); [apply evP2_nontok | repeat constructor | exact Hok].
    - (* second attempt *)
      pose proof (inv_thr _ _ Hinv _ _ Hth) as [Hq Hokt]. rewrite Hpc in Hokt.
      destruct Hokt as [T1 [T2 [T3 [T4 [[older T5] [r' [T6 T7]]]]]]].
      rewrite Hg in T6. injection T6 as <-.
      pose proof (inv_reg _ _ Hinv _ _ Hg) as Hri.
      assert (Hok1 : all_ok (evP2 E) (EResume id :: history st) = true) by (cbn [all_ok]; now rewrite Hok).
      cbn [app all_ok]. rewrite <- !app_assoc. cbn [app]. apply andb_true_iff. split; [apply evP2_nontok; reflexivity|].
      apply (all_ok_by nontok); [apply evP2_nontok | apply mids_nontok with (id := id), mids_of_body|].
      destruct Hp as [toks sc2 w r1 Hb Hblk Hne | u p Hb Hbs]; [|exact Hok1].
      apply (blk_P2 id (q_host (th_q th)) (th_q th) _ _ _ _ _ _ _ _ _ _ Hblk);
        [ apply RI_set_www; [apply RI_cons; [intros i q' Hx; discriminate | exact Hri]|];
          exists id, (th_hdr th), rsp; split; [now right | exact Hch]
        | exact T7 | assumption | now rewrite req_of_cons | reflexivity | exact Hok1 ].
    - pose proof (inv_thr _ _ Hinv _ _ Hth) as [Hq Hokt]. rewrite Hpc in Hokt.
      destruct Hokt as [T1 [T2 [T3 [T4 [[older T5] [r' [T6 T7]]]]]]].
      rewrite Hg in T6. injection T6 as <-.
      pose proof (inv_reg _ _ Hinv _ _ Hg) as Hri.
      assert (Hok1 : all_ok (evP2 E) (EResume id :: history st) = true) by (cbn [all_ok]; now rewrite Hok).
      cbn [app all_ok]. rewrite <- !app_assoc. cbn [app].
      destruct Hp as [toks sc2 w r1 Hb Hblk Hne | u p Hb Hbs]; [|exact Hok1].
      apply (blk_P2 id (q_host (th_q th)) (th_q th) _ _ _ _ _ _ _ _ _ _ Hblk);
        [ apply RI_set_www; [apply RI_cons; [intros i q' Hx; discriminate | exact Hri]|];
          exists id, (th_hdr th), rsp; split; [now right | exact Hch]
        | exact T7 | assumption | now rewrite req_of_cons | reflexivity | exact Hok1 ].
    - pose proof (inv_thr _ _ Hinv _ _ Hth) as [Hq Hokt]. rewrite Hpc in Hokt.
      destruct Hokt as [T1 [T2 [T3 [T4 [[older T5] [r' [T6 T7]]]]]]].
      rewrite Hg in T6. injection T6 as <-.
      pose proof (inv_reg _ _ Hinv _ _ Hg) as Hri.
      assert (Hok1 : all_ok (evP2 E) (EResume id :: history st) = true) by (cbn [all_ok]; now rewrite Hok).
      cbn [app all_ok]. rewrite <- !app_assoc. cbn [app].
      apply (blk_P2 id (q_host (th_q th)) (th_q th) _ _ _ _ _ _ _ _ _ _ Hblk);
        [ apply RI_set_www; [apply RI_cons; [intros i q' Hx; discriminate | exact Hri]|];
          exists id, (th_hdr th), rsp; split; [now right | exact Hch]
        | exact T7 | assumption | now rewrite req_of_cons | reflexivity | exact Hok1 ].
    - apply (all_ok_by nontok); [apply evP2_nontok | repeat constructor | exact Hok].
    - apply (all_ok_by nontok); [apply evP2_nontok | repeat constructor | exact Hok].
  Qed.

  Theorem P2_holds l : all_ok (evP2 E) (history (run E l)) = true.
  Proof. apply run_all_ok. intros. eapply step_P2; eauto. Qed.
End C11.
