(* Streamed readers (C06): in the model of ociserver a response with a success status that
   was produced while a backend reader was held carries exactly what that reader delivered and
   is not an error document; the only errors a handler returns after it has obtained a reader
   are the two 416 refusals of handleBlobGet, returned before anything was written.
   Used by Obs/C06.v for the cases whose reader fails part-way ([CStream]). *)
From Coq Require Import String.
From OCI Require Import Base.Outcome Model.Ref Model.Errors Model.Request Model.Server Model.ServerSpec
  Model.ServerStream Proofs.Request Proofs.Server.
Local Open Scope Z_scope.

(* ================================================================ the last reader of a trace *)

(* on a trace held most recent first *)
Fixpoint first_reader (l : list ev) : option bytes :=
  match l with
  | [] => None
  | e :: t => match reader_data e with Some d => Some d | None => first_reader t end
  end.

Lemma last_of_app {A} (f : ev -> option A) l e acc :
  last_of f (l ++ [e]) acc = match f e with Some x => Some x | None => last_of f l acc end.
Proof.
  revert acc. induction l as [|a l IH]; intros acc; cbn; [reflexivity|]. apply IH.
Qed.

Lemma last_reader_rev l : last_of reader_data (rev l) None = first_reader l.
Proof.
  induction l as [|e l IH]; [reflexivity|]. cbn [rev first_reader]. rewrite last_of_app, IH. reflexivity.
Qed.

(* the promised content begins with what the last reader delivered *)
Lemma promised_last tr : forall rs acc acc',
  match acc, acc' with
  | None, None => True
  | Some full, Some data => has_prefix data full = true
  | _, _ => False
  end ->
  match promised tr rs acc, last_of reader_data tr acc' with
  | None, None => True
  | Some full, Some data => has_prefix data full = true
  | _, _ => False
  end.
Proof.
  induction tr as [|e tr IH]; intros rs acc acc' H; [exact H|].
  cbn [promised last_of]. destruct (reader_data e) as [d|].
  - destruct rs as [|r rs]; apply IH.
    + replace d with (d ++ []) at 2 by apply app_nil_r. apply has_prefix_app.
    + apply has_prefix_app.
  - now apply IH.
Qed.

Lemma has_prefix_refl a : has_prefix a a = true.
Proof. replace a with (a ++ []) at 2 by apply app_nil_r. apply has_prefix_app. Qed.

(* [stream_ok] follows from: under a success status the body is what the last reader delivered
   and no document was marshalled *)
Lemma stream_ok_of_last tr rs resp :
  (forall data, last_of reader_data tr None = Some data -> 200 <= p_status resp < 300 ->
                p_body resp = data /\ p_json resp = None) ->
  stream_ok tr rs resp = true.
Proof.
  intros H. unfold stream_ok.
  pose proof (promised_last tr rs None None I) as PL.
  destruct (promised tr rs None) as [full|]; [|reflexivity].
  destruct (last_of reader_data tr None) as [data|]; [|contradiction].
  unfold implb'. destruct ((200 <=? p_status resp) && (p_status resp <? 300)) eqn:C; [|reflexivity].
  cbn [negb orb]. apply andb_true_iff in C as [C1 C2]. apply Z.leb_le in C1. apply Z.ltb_lt in C2.
  destruct (H data eq_refl (conj C1 C2)) as [E1 E2]. unfold is_failure. rewrite E1, E2. exact PL.
Qed.

(* the clause tells responses apart: after a reader of "abcd" that failed after "ab", the two
   bytes, nothing, or more of the promised content are accepted under 200; the two bytes followed
   by anything else, and an error document, are not; under a failure status the clause is silent *)
Lemma stream_ok_discriminates :
  let d := {| d_media := s "application/octet-stream"; d_digest := []; d_size := 4; d_artifact := [] |} in
  let tr := [ECall (GetTag (s "foo") (s "latest")) (Ok (VRead d (s "ab"))); ECloseR] in
  let rs := [mkrs (s "cd") (Some (Plain (s "reset"))) None] in
  let e := JErr (W (s "UNKNOWN") [] None) in
  stream_ok tr rs (mkresp 200 [] (s "ab") None) = true
  /\ stream_ok tr rs (mkresp 200 [] [] None) = true
  /\ stream_ok tr rs (mkresp 200 [] (s "abc") None) = true
  /\ stream_ok tr rs (mkresp 200 [] (s "ab{}") None) = false
  /\ stream_ok tr rs (mkresp 200 [] (s "abcde") None) = false
  /\ stream_ok tr rs (mkresp 200 [] [] (Some e)) = false
  /\ stream_ok tr rs (mkresp 206 [] (s "x") None) = false
  /\ stream_ok tr rs (mkresp 500 [] (s "{}") (Some e)) = true.
Proof. repeat split. Qed.

(* ================================================================ the handlers *)

Section Stream.
  Variable linked : alg -> bool.
  Variable digest_of : bytes -> bytes.
  Variable subject_of : bytes -> option (option bytes).
  Variable enc : jval -> bytes.
  Variable redirect : bytes -> bytes -> bytes * bytes.
  Variable B : Type.
  Variable bstep : backend B.
  Variable o : opts.
  Variable req : hreq.

  Local Arguments dec_Z : simpl never.
  Local Arguments range_string : simpl never.
  Local Arguments Z.eqb : simpl nomatch.
  Local Arguments Z.leb : simpl nomatch.
  Local Arguments Z.ltb : simpl nomatch.
  Local Arguments Z.add : simpl nomatch.
  Local Arguments Z.sub : simpl nomatch.
  Local Arguments make_next_link : simpl never.
  Local Arguments b64u_encode : simpl never.
  Local Arguments upload_path : simpl never.
  Local Arguments text : simpl never.
  Local Arguments hset : simpl never.

  Notation hst := (hst B).

  (* what a handler leaves behind when it held a reader: a returned nil means the body is what
     the reader delivered and no document was marshalled; a returned error is a 416 refusal
     and nothing has been written *)
  Definition spost (x : hst * R gerr unit) : Prop :=
    let '(st, r) := x in
    match first_reader (h_tr st) with
    | None => True
    | Some data =>
        match r with
        | Ok _ => w_body (h_w st) = data /\ w_json (h_w st) = None
        | Err e => w_status (h_w st) = None /\ exists m, e = with_http_code 416 (Plain m)
        | Panic | OutOfFuel => True
        end
    end.

  Ltac bcall :=
    match goal with
    | |- context [bstep ?b ?c] =>
        let b' := fresh "b" in let v := fresh "v" in let e := fresh "e" in
        destruct (bstep b c) as [b' [v|e| |]]
    end.

  Ltac simp_st :=
    cbn [h_b h_tr h_w set_hdr upd_w write_header write_body log w_status w_hdrs w_body w_json rw0
         as_n as_str as_desc as_read as_writer as_unit as_list as_descs fst snd].

  Ltac if_step :=
    match goal with |- context [if (n_of ?v =? ?x) then _ else _] => destruct (n_of v =? x) end.
  Ltac loc_step :=
    match goal with |- context [location_for_upload_id _ ?r ?i] => destruct (location_for_upload_id linked r i) end.
  Ltac run := repeat (simp_st; first [loc_step | bcall | if_step]); simp_st.

  Ltac leaf := cbn; try exact I; try (split; [reflexivity | first [reflexivity | eexists; reflexivity]]).

  Ltac loc_cases :=
    unfold set_location_header, log; cbn [h_b h_tr h_w];
    match goal with
    | |- context [match ?f ?m ?d with _ => _ end] => destruct (f m d) as [[|? ?]|?| |]
    | _ => idtac
    end.

  Definition st0 (b : B) : hst := mkst b [] rw0.

  (* ---------------------------------------------------------- the handlers that hold a reader *)

  Lemma manifest_get_spost b rreq : spost (handle_manifest_get B bstep o (st0 b) rreq).
  Proof.
    unfold handle_manifest_get, call, st0. cbn [h_b h_tr h_w].
    destruct (o_omit_digest_from_tag_get o); destruct (q_tag rreq) as [|t0 t]; bcall; leaf.
  Qed.

  Ltac blob_get_body_tac :=
    unfold handle_blob_get_body, call; cbn [h_b h_tr h_w];
    destruct (parse_range_header (hq_range req)) as [[|[start end_] [|? ?]]| | |];
    [ bcall; leaf
    | bcall; cbn [as_read]; cbv zeta;
      [ let e' := fresh "end'" in
        match goal with |- context [if ?c then d_size ?d else end_] =>
          generalize (if c then d_size d else end_); intros e'
        end;
        destruct (d_size _ <? start); [leaf|]; destruct (e' <? start); leaf
      | leaf | leaf | leaf ]
    | leaf | leaf | leaf | leaf ].

  Lemma blob_get_body_spost b rreq : spost (handle_blob_get_body B bstep (st0 b) req rreq).
  Proof. unfold st0. blob_get_body_tac. Qed.

  Lemma blob_get_spost b rreq : spost (handle_blob_get redirect B bstep o (st0 b) req rreq).
  Proof.
    unfold handle_blob_get. destruct (o_locs o) as [f|]; [|apply blob_get_body_spost].
    unfold st0, call. cbn [h_b h_tr h_w].
    bcall; cbn [as_desc]; [|leaf|leaf|leaf].
    destruct (f false (desc_of v)) as [[|l0 locs]|e| |].
    - unfold log. cbn [h_b h_tr h_w]. blob_get_body_tac.
    - destruct (redirect (hq_path req) l0) as [loc body]. leaf.
    - leaf.
    - leaf.
    - leaf.
  Qed.

  (* ---------------------------------------------------------- the others never obtain one *)

  Lemma blob_head_spost b rreq : spost (handle_blob_head B bstep (st0 b) rreq).
  Proof. unfold handle_blob_head, call, st0. cbn [h_b h_tr h_w]. bcall; leaf. Qed.

  Lemma blob_delete_spost b rreq : spost (handle_blob_delete B bstep (st0 b) rreq).
  Proof. unfold handle_blob_delete, call, st0. cbn [h_b h_tr h_w]. bcall; leaf. Qed.

  Lemma manifest_delete_spost b rreq : spost (handle_manifest_delete B bstep (st0 b) rreq).
  Proof.
    unfold handle_manifest_delete, call, st0. cbn [h_b h_tr h_w].
    destruct (q_tag rreq) as [|t0 t]; bcall; leaf.
  Qed.

  Lemma manifest_head_spost b rreq : spost (handle_manifest_head B bstep o (st0 b) rreq).
  Proof.
    unfold handle_manifest_head, call, st0. cbn [h_b h_tr h_w].
    destruct (o_omit_digest_from_tag_get o); destruct (q_tag rreq) as [|t0 t]; cbv iota; bcall; leaf.
  Qed.

  Lemma blob_mount_spost b rreq : spost (handle_blob_mount B bstep o (st0 b) rreq).
  Proof.
    unfold handle_blob_mount, set_location_header, st0, call. cbn [h_b h_tr h_w].
    destruct (o_locs o) as [f|]; (bcall; cbn [as_desc]; [|leaf|leaf|leaf]).
    - loc_cases; leaf.
    - leaf.
  Qed.

  Lemma blob_start_upload_spost b rreq : spost (handle_blob_start_upload linked B bstep (st0 b) rreq).
  Proof.
    unfold handle_blob_start_upload, defer_close, with_upload_location, st0, call. cbn [h_b h_tr h_w].
    bcall; cbn [as_writer]; [|leaf|leaf|leaf].
    run; leaf.
  Qed.

  Lemma blob_upload_info_spost b rreq : spost (handle_blob_upload_info linked B bstep (st0 b) rreq).
  Proof.
    unfold handle_blob_upload_info, defer_close, with_upload_location, st0, call. cbn [h_b h_tr h_w].
    bcall; cbn [as_writer]; [|leaf|leaf|leaf].
    run; leaf.
  Qed.

  Lemma blob_upload_chunk_spost b rreq : spost (handle_blob_upload_chunk linked B bstep (st0 b) req rreq).
  Proof.
    unfold handle_blob_upload_chunk, with_upload_location, copy_body, st0, call. cbn [h_b h_tr h_w].
    destruct (chunk_range req) as [[start end_]|e| |]; [|leaf|leaf|leaf].
    bcall; cbn [as_writer]; [|leaf|leaf|leaf].
    destruct (hq_body req) as [|c0 body]; run; leaf.
  Qed.

  Lemma blob_complete_upload_spost b rreq : spost (handle_blob_complete_upload B bstep o (st0 b) req rreq).
  Proof.
    unfold handle_blob_complete_upload, defer_close, set_location_header, copy_body, st0, call.
    cbn [h_b h_tr h_w].
    destruct (chunk_range req) as [[start end_]|e| |]; [|leaf|leaf|leaf].
    destruct (o_locs o) as [f|]; (bcall; cbn [as_writer]; [|leaf|leaf|leaf]);
      (destruct (hq_body req) as [|c0 body]); run; try loc_cases; run; leaf.
  Qed.

  Lemma blob_upload_blob_spost b rreq : spost (handle_blob_upload_blob linked B bstep o (st0 b) req rreq).
  Proof.
    unfold handle_blob_upload_blob.
    destruct (o_disable_single_post o); [apply blob_start_upload_spost|].
    unfold set_location_header, st0, call. cbn [h_b h_tr h_w].
    destruct (o_locs o) as [f|]; (bcall; cbn [as_desc]; [|leaf|leaf|leaf]); try loc_cases; leaf.
  Qed.

  Lemma manifest_put_spost b rreq : spost (handle_manifest_put digest_of subject_of B bstep o (st0 b) req rreq).
  Proof.
    unfold handle_manifest_put, subject_from_manifest, set_location_header, st0, call.
    cbn [h_b h_tr h_w].
    destruct (o_locs o) as [f|];
      (destruct (q_tag rreq) as [|t0 tg];
       [ destruct (negb (beqb (q_digest rreq) (digest_of (hq_body req)))); [leaf|] | ]);
      (destruct (if beqb (hq_ctype req) media_image_manifest || beqb (hq_ctype req) media_image_index
                 then subject_of (hq_body req) else Some None) as [[sd|]|]; [| |leaf]);
      (bcall; cbn [as_desc]; [|leaf|leaf|leaf]); try loc_cases; leaf.
  Qed.

  Ltac list_tac :=
    match goal with |- context [next_list_results o req ?rq ?it] =>
      destruct (next_list_results o req rq it) as [[items link]|?| |]; unfold list_response;
      try (destruct link); leaf
    end.

  Lemma tags_list_spost b rreq : spost (handle_tags_list enc B bstep o (st0 b) req rreq).
  Proof.
    unfold handle_tags_list, st0, call. cbn [h_b h_tr h_w].
    bcall; cbn [as_list]; [ | | leaf | leaf]; list_tac.
  Qed.

  Lemma catalog_list_spost b rreq : spost (handle_catalog_list enc B bstep o (st0 b) req rreq).
  Proof.
    unfold handle_catalog_list, st0, call. cbn [h_b h_tr h_w].
    bcall; cbn [as_list]; [ | | leaf | leaf]; list_tac.
  Qed.

  Lemma referrers_list_spost b rreq : spost (handle_referrers_list enc B bstep o (st0 b) rreq).
  Proof.
    unfold handle_referrers_list, list_response, st0, call. cbn [h_b h_tr h_w].
    destruct (o_disable_referrers o); [leaf|].
    bcall; cbn [as_descs]; [destruct (iter_err_of v) | | leaf | leaf]; leaf.
  Qed.

  Lemma dispatch_spost b rreq :
    spost (dispatch linked digest_of subject_of enc redirect B bstep o (st0 b) req rreq).
  Proof.
    unfold dispatch. destruct (q_kind rreq).
    - unfold st0. leaf.
    - apply blob_get_spost.
    - apply blob_head_spost.
    - apply blob_delete_spost.
    - apply blob_start_upload_spost.
    - apply blob_upload_blob_spost.
    - apply blob_mount_spost.
    - apply blob_upload_info_spost.
    - apply blob_upload_chunk_spost.
    - apply blob_complete_upload_spost.
    - apply manifest_get_spost.
    - apply manifest_head_spost.
    - apply manifest_put_spost.
    - apply manifest_delete_spost.
    - apply tags_list_spost.
    - apply referrers_list_spost.
    - apply catalog_list_spost.
  Qed.

  (* ---------------------------------------------------------- ServeHTTP *)

  Lemma refusal_416 m wr :
    serve_error go_sprefix go_cprefix (with_http_code 416 (Plain m)) = Ok wr -> r_status wr = 416.
  Proof.
    unfold serve_error. destruct (text_panics _); [discriminate|].
    destruct (_ || _); [discriminate|]. intros H. inversion H. reflexivity.
  Qed.

  (* a response with a success status that was produced while a reader was held carries
     exactly what the reader delivered, and no marshalled document *)
  Theorem handle_streams b :
    let '(b', tr, r) := handle linked digest_of subject_of enc redirect B bstep o b req in
    forall resp data, r = Ok resp -> last_of reader_data tr None = Some data ->
    200 <= p_status resp < 300 -> p_body resp = data /\ p_json resp = None.
  Proof.
    unfold handle, v2.
    destruct (parse_req linked (hq_method req) (hq_path req) (hq_rawquery req)) as [rreq|pe| |].
    - pose proof (dispatch_spost b rreq) as P. fold (st0 b).
      destruct (dispatch _ _ _ _ _ _ _ _ _ _ _) as [st r]. unfold spost in P.
      destruct r as [u|e| |].
      + intros resp data E L _. rewrite last_reader_rev in L. rewrite L in P. inversion E. subst resp.
        exact P.
      + pose proof (write_error_trace enc B e st) as [T _].
        unfold write_error in *.
        destruct (serve_error go_sprefix go_cprefix e) as [wr| | |] eqn:SE; cbn [fst] in T;
          intros resp data E L S; try discriminate.
        rewrite last_reader_rev, T in L. rewrite L in P. destruct P as (WS & m & ->).
        apply refusal_416 in SE. inversion E. subst resp. exfalso.
        destruct st as [b0 tr0 [hd stt bd js]]. cbn [h_w w_status] in WS. subst stt.
        cbn in S. lia.
      + cbv beta iota; intros ? ? E; discriminate E.
      + cbv beta iota; intros ? ? E; discriminate E.
    - pose proof (write_error_trace enc B (handler_error_for_request_parse_error pe)
                    (set_hdr B H_api_version (s "registry/2.0") (mkst b [] rw0))) as [T _].
      destruct (write_error _ _ _ _) as [st' r'].
      intros resp data E L. exfalso. cbn in T. rewrite T in L. discriminate L.
    - cbv beta iota; intros ? ? E; discriminate E.
    - cbv beta iota; intros ? ? E; discriminate E.
  Qed.

  Theorem handle_stream_ok b rs :
    let '(b', tr, r) := handle linked digest_of subject_of enc redirect B bstep o b req in
    forall resp, r = Ok resp -> stream_ok tr rs resp = true.
  Proof.
    pose proof (handle_streams b) as H.
    destruct (handle _ _ _ _ _ _ _ _ _ _) as [[b' tr] r]. intros resp E.
    apply stream_ok_of_last. intros data. now apply H.
  Qed.

End Stream.

(* the statements of Props/C06.v (backend state before request, as in Proofs/ServerThms.v) *)
Lemma streamed_body linked digest_of subject_of enc redirect B (bstep : backend B) o b req :
  let '(_, tr, r) := handle linked digest_of subject_of enc redirect B bstep o b req in
  forall resp data, r = Ok resp -> last_of reader_data tr None = Some data ->
  200 <= p_status resp < 300 -> p_body resp = data /\ p_json resp = None.
Proof. apply handle_streams. Qed.

Lemma streamed_prefix linked digest_of subject_of enc redirect B (bstep : backend B) o b req rs :
  let '(_, tr, r) := handle linked digest_of subject_of enc redirect B bstep o b req in
  forall resp, r = Ok resp -> stream_ok tr rs resp = true.
Proof. apply handle_stream_ok. Qed.
