(* C03: the side condition of [history_transparent] (Proofs/StackHistory.v) cannot be dropped.
   The statement without it ([transparent_unconditionally]: every history of well-formed
   operations, answer by answer equivalent) is refuted on the composed model in front of the
   in-memory registry, by evaluation inside the kernel:

     history_transparent_refuted        the empty range GetBlobRange(5, 5) (recorded deviation:
                                        Ok directly, 416 through the stack)
     history_transparent_push_refuted   a PushBlob that fails (digest mismatch) followed by
                                        Repositories: directly the catalogue is empty, through the
                                        stack it lists the repository, because the upload session
                                        PushBlob is over HTTP was opened (and ocimem creates the
                                        repository then) before the content was refused
     tag_media_disagreement             in ocimem itself ResolveTag and GetTag can name different
                                        media types for the same tag (a manifest pushed again under
                                        another media type): the reason for the side condition on
                                        tag GETs above the in-memory threshold under
                                        OmitDigestFromTagGetResponse *)
From Coq Require Import String.
From OCI Require Import Obs.StackRun Proofs.StackStep Proofs.StackHistory Proofs.StackMem.

Import Smoke.

Definition so0 : soracles := soracles_of orc [].

Definition direct_run (h : list op) : list bres := snd (brun (mstep orc) init h).
Definition via_run (h : list op) : list bres :=
  snd (brun (stack_backend so0 default_opts default_ccfg (mstep orc)) (sstate0 init) h).

(* well-formed names, and nothing else asked of the arguments *)
Definition wf_names (c : op) : Prop :=
  match c with
  | GetBlobRange r d _ _ => Request.vrepo r = true /\ Request.vdigest (so_linked so0) d = true
  | PushBlob r de _ => Request.vrepo r = true /\ Request.vdigest (so_linked so0) (d_digest de) = true
  | _ => wf_op (so_linked so0) (so_hash so0) (so_subject so0) c
  end.

(* the theorem without its side condition *)
Definition transparent_unconditionally : Prop :=
  forall h, Forall wf_names h -> Forall3 bres_equiv h (direct_run h) (via_run h).

Definition push1 : op := PushBlob repo1 (bdesc blob1) blob1.

Lemma second_of {A B C} (P : A -> B -> C -> Prop) a1 a2 b1 b2 c1 c2 la lb lc :
  Forall3 P (a1 :: a2 :: la) (b1 :: b2 :: lb) (c1 :: c2 :: lc) -> P a2 b2 c2.
Proof. intros H. inversion H as [|? ? ? ? ? ? _ H2]; subst. inversion H2; subst. assumption. Qed.

Theorem history_transparent_refuted : ~ transparent_unconditionally.
Proof.
  intros H. specialize (H [push1; GetBlobRange repo1 (dg blob1) 5 5]).
  assert (Hwf : Forall wf_names [push1; GetBlobRange repo1 (dg blob1) 5 5])
    by (repeat constructor; vm_compute; reflexivity).
  specialize (H Hwf).
  remember (direct_run [push1; GetBlobRange repo1 (dg blob1) 5 5]) as ds eqn:Ed.
  remember (via_run [push1; GetBlobRange repo1 (dg blob1) 5 5]) as vs eqn:Ev.
  vm_compute in Ed, Ev. subst ds vs. apply second_of in H. exact H.
Qed.

(* a failing PushBlob leaves the repository behind *)
Definition bad_push : op := PushBlob repo1 (bdesc blob1) blob2.     (* the digest is blob1's, the content blob2 *)

Theorem history_transparent_push_refuted : ~ transparent_unconditionally.
Proof.
  intros H. specialize (H [bad_push; Repositories []]).
  assert (Hwf : Forall wf_names [bad_push; Repositories []]) by (repeat constructor; vm_compute; reflexivity).
  specialize (H Hwf).
  remember (direct_run [bad_push; Repositories []]) as ds eqn:Ed.
  remember (via_run [bad_push; Repositories []]) as vs eqn:Ev.
  vm_compute in Ed, Ev. subst ds vs. apply second_of in H. cbn in H. destruct H as [H _]. discriminate H.
Qed.

Example bad_push_catalogues :
  (direct_run [bad_push; Repositories []], map (fun r => match r with Ok (VList l _) => Some l | _ => None end) (via_run [bad_push; Repositories []]))
  = ([Err (Wire (W (s "DIGEST_INVALID") (s "digest mismatch") None)); Ok (VList [] None)],
     [None; Some [repo1]]).
Proof. vm_compute. reflexivity. Qed.

(* ocimem: ResolveTag and GetTag disagree on the media type after the same manifest is pushed
   again under another media type (direct calls, no HTTP involved) *)
Definition mt2 : bytes := s "application/vnd.other+json".

Example tag_media_disagreement :
  let h := [push1; PushManifest repo1 tag1 man1 mt; PushManifest repo1 [] man1 mt2;
            ResolveTag repo1 tag1; GetTag repo1 tag1] in
  map (fun r => match r with Ok v => Some (d_media (desc_of v)) | _ => None end) (skipn 3 (direct_run h))
  = [Some mt; Some mt2].
Proof. vm_compute. reflexivity. Qed.

Print Assumptions history_transparent_refuted.
Print Assumptions history_transparent_push_refuted.
