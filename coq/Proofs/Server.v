(* Proofs about Model/Server.v: for every request, option set, oracle and backend (an arbitrary
   function), a run of the handler whose backend answers follow the Interface conventions
   ([wb_trace], [wb_locs]) does not panic and its trace and response satisfy [spec_ok]. *)
From Coq Require Import String.
From OCI Require Import Base.Outcome Base.Base64 Base.Regex Model.Ref Model.Errors Model.Request
  Model.Server Model.ServerSpec Proofs.Ref Proofs.Request.

Local Open Scope Z_scope.

(* ================================================================ decimal *)

Lemma parse_dec_dec_Z z : parse_dec (dec_Z z) = Some z.
Proof.
  destruct z as [|p|p]; [reflexivity| |]; cbn [dec_Z].
  - destruct (dec_N_spec (N.pos p)) as (D & V & NE). unfold parse_dec.
    destruct (dec_N (N.pos p)) as [|c l] eqn:E; [congruence|].
    assert (Hc : (48 <= c <= 57)%N).
    { apply is_digit_range. cbn in D. now apply andb_true_iff in D as [D _]. }
    destruct (N.eqb_spec c 43) as [->|]; [lia|]. destruct (N.eqb_spec c 45) as [->|]; [lia|].
    assert (X : (let '(neg, ds) := match c :: l with
                                   | 43%N :: r => (false, r) | 45%N :: r => (true, r) | _ => (false, c :: l)
                                   end in
                 match ds with [] => None | _ => match digits_val ds 0 with None => None | Some v => Some (if neg then - v else v) end end)
                = Some (Z.pos p)).
    { replace (match c :: l with 43%N :: r => (false, r) | 45%N :: r => (true, r) | _ => (false, c :: l) end)
        with (false, c :: l).
      - rewrite V. reflexivity.
      - destruct c as [|q]; [lia|]. do 6 (destruct q as [q|q|]; try reflexivity); lia. }
    exact X.
  - destruct (dec_N_spec (N.pos p)) as (D & V & NE). unfold parse_dec.
    destruct (dec_N (N.pos p)) as [|c l] eqn:E; [congruence|]. rewrite V. reflexivity.
Qed.

Lemma dec_Z_nonneg_digits z : 0 <= z -> forallb is_digit (dec_Z z) = true.
Proof.
  destruct z as [|p|p]; [reflexivity| |lia]. intros _. cbn [dec_Z]. apply dec_N_spec.
Qed.

Lemma dec_Z_no_slash z : ~ In 47%N (dec_Z z).
Proof.
  destruct z as [|p|p]; cbn [dec_Z].
  - cbn. intuition discriminate.
  - apply forallb_digit_not_in; [apply dec_N_spec | lia].
  - intros [H|H]; [discriminate|]. revert H. apply forallb_digit_not_in; [apply dec_N_spec | lia].
Qed.

Lemma dec_Z_nonneg_no_dash z : 0 <= z -> ~ In 45%N (dec_Z z).
Proof. intros H. apply forallb_digit_not_in; [now apply dec_Z_nonneg_digits | lia]. Qed.

Lemma implb'_refl a : implb' a a = true.
Proof. now destruct a. Qed.

(* ================================================================ servable errors *)

Lemma servable_iff e :
  servable e = true <-> text_panics e = false /\ 100 <= marshal_status e <= 999.
Proof.
  unfold servable, serve_error. destruct (text_panics e); [split; [discriminate | intros [? _]; discriminate]|].
  cbn [r_status marshal_error].
  destruct (Z.ltb_spec (marshal_status e) 100) as [H1|H1]; cbn [orb is_ok].
  - split; [discriminate | lia].
  - destruct (Z.ltb_spec 999 (marshal_status e)) as [H2|H2]; cbn [is_ok].
    + split; [discriminate | lia].
    + split; [intros _; split; [reflexivity | lia] | reflexivity].
Qed.

Lemma servable_wrap p e : servable (Wrap p e) = servable e.
Proof.
  apply Bool.eq_true_iff_eq. rewrite !servable_iff. reflexivity.
Qed.

Lemma servable_plain m : servable (Plain m) = true.
Proof. reflexivity. Qed.

Lemma servable_http_plain st m : 100 <= st <= 999 -> servable (with_http_code st (Plain m)) = true.
Proof. intros H. apply servable_iff. split; [reflexivity|]. exact H. Qed.

Lemma servable_bad_api m : servable (bad_api_use_error m) = true.
Proof. reflexivity. Qed.

Lemma serve_error_ok e : servable e = true ->
  serve_error go_sprefix go_cprefix e = Ok (marshal_error go_sprefix go_cprefix e).
Proof.
  unfold servable. destruct (serve_error go_sprefix go_cprefix e) eqn:E; try discriminate. intros _.
  unfold serve_error in E. destruct (text_panics e); [discriminate|].
  destruct (_ || _); [discriminate|]. congruence.
Qed.

Lemma marshal_code_nonempty e : marshal_code e <> [].
Proof.
  unfold marshal_code. destruct (as_err e) as [w|]; [|discriminate].
  destruct (w_code w); discriminate.
Qed.

Lemma marshal_status_table e st : lookup (marshal_code e) error_statuses = Some st -> marshal_status e = st.
Proof. unfold marshal_status. now intros ->. Qed.

(* ================================================================ headers *)

Lemma hget_hset_eq k v h : hget k (hset k v h) = Some v.
Proof. unfold hset. cbn [hget]. now rewrite beqb_refl. Qed.

(* ================================================================ range.go *)

Lemma parse_range_one_nonneg ra p : parse_range_one ra = Some (Ok p) -> 0 <= fst p.
Proof.
  unfold parse_range_one. destruct (trim_string ra) as [|c0 r0]; [discriminate|].
  destruct (cut_byte 45 (c0 :: r0)) as [[st en]|]; [|discriminate].
  destruct (trim_string st) as [|c1 r1]; [discriminate|].
  destruct (parse_int (c1 :: r1)) as [i|]; [|discriminate].
  destruct (Z.ltb_spec i 0) as [Hi|Hi]; [discriminate|].
  destruct (trim_string en) as [|c2 r2].
  - intros H. inversion H. subst. assumption.
  - destruct (parse_int (c2 :: r2)) as [j|]; [|discriminate].
    destruct (j <? i); [discriminate|]. intros H. inversion H. subst. assumption.
Qed.

Lemma parse_range_list_nonneg l : forall rs, parse_range_list l = Ok rs -> Forall (fun p => 0 <= fst p) rs.
Proof.
  induction l as [|ra l IH]; cbn [parse_range_list]; intros rs H.
  - inversion H. constructor.
  - destruct (parse_range_one ra) as [[p|u| |]|] eqn:E; try discriminate.
    + destruct (parse_range_list l) as [rs'| | |] eqn:E2; try discriminate.
      inversion H. subst. constructor; [eapply parse_range_one_nonneg; eauto | now apply IH].
    + now apply IH.
Qed.

Lemma parse_range_header_nonneg a rs : parse_range_header a = Ok rs -> Forall (fun p => 0 <= fst p) rs.
Proof.
  unfold parse_range_header. destruct a as [|c a]; [intros H; inversion H; constructor|].
  destruct (negb _); [discriminate|]. apply parse_range_list_nonneg.
Qed.

Lemma parse_range_list_total l : (exists rs, parse_range_list l = Ok rs) \/ parse_range_list l = Err tt.
Proof.
  induction l as [|ra l IH]; cbn [parse_range_list]; [left; eauto|].
  destruct (parse_range_one ra) as [[p|[]| |]|]; auto.
  destruct IH as [[rs ->]| ->]; [left; eauto | right; reflexivity].
Qed.

Lemma parse_range_header_total a : (exists rs, parse_range_header a = Ok rs) \/ parse_range_header a = Err tt.
Proof.
  unfold parse_range_header. destruct a as [|c a]; [left; eauto|].
  destruct (negb _); [right; reflexivity|]. apply parse_range_list_total.
Qed.

Lemma cut_byte_app' c l r : ~ In c l -> cut_byte c (l ++ c :: r) = Some (l, r).
Proof. apply cut_byte_app. Qed.

Lemma content_range_render start e1 size : 0 <= start ->
  content_range_of (Some (98 :: 121 :: 116 :: 101 :: 115 :: 32 :: dec_Z start ++ 45 :: dec_Z e1 ++ 47 :: dec_Z size)%N)
  = Some (start, e1, size).
Proof.
  intros H.
  change (98 :: 121 :: 116 :: 101 :: 115 :: 32 :: dec_Z start ++ 45 :: dec_Z e1 ++ 47 :: dec_Z size)%N
    with (s "bytes " ++ dec_Z start ++ 45%N :: dec_Z e1 ++ 47%N :: dec_Z size).
  unfold content_range_of. rewrite cut_prefix_app.
  rewrite cut_byte_app' by now apply dec_Z_nonneg_no_dash.
  rewrite cut_byte_app' by apply dec_Z_no_slash.
  now rewrite !parse_dec_dec_Z.
Qed.

Lemma wrap64_small z : -9223372036854775808 <= z <= 9223372036854775807 -> wrap64 z = z.
Proof. intros H. unfold wrap64. rewrite Z.mod_small; lia. Qed.

(* the text RangeString renders, read back *)
Lemma range_string_read n :
  let e := if wrap64 (n - 1) <? 0 then 0 else wrap64 (n - 1) in
  cut_byte 45 (range_string 0 n) = Some ([48%N], dec_Z e) /\ 0 <= e.
Proof.
  cbv zeta. unfold range_string. change (dec_Z 0) with [48%N]. split; [reflexivity|].
  destruct (Z.ltb_spec (wrap64 (n - 1)) 0); lia.
Qed.

Lemma range_value_render_any n : range_value_ok None (Some (range_string 0 n)) = true.
Proof.
  unfold range_value_ok. destruct (range_string_read n) as [-> He].
  change (parse_dec [48%N]) with (Some 0). rewrite parse_dec_dec_Z, andb_true_r. now apply Z.leb_le.
Qed.

Lemma range_value_render n : range_value_ok (range_end_for n) (Some (range_string 0 n)) = true.
Proof.
  unfold range_end_for. destruct ((0 <=? n) && (n <=? int64_max)) eqn:C; [|apply range_value_render_any].
  apply andb_true_iff in C as [C1 C2]. apply Z.leb_le in C1, C2. unfold int64_max in C2.
  unfold range_value_ok. destruct (range_string_read n) as [-> He].
  change (parse_dec [48%N]) with (Some 0). rewrite parse_dec_dec_Z.
  rewrite (proj2 (Z.leb_le _ _) He). cbn [andb]. apply Z.eqb_eq.
  rewrite wrap64_small by lia. destruct (Z.ltb_spec (n - 1) 0); lia.
Qed.

(* ================================================================ the handlers *)

Section Conf.
  Variable linked : alg -> bool.
  Variable digest_of : bytes -> bytes.
  Variable subject_of : bytes -> option (option bytes).
  Variable enc : jval -> bytes.
  Variable redirect : bytes -> bytes -> bytes * bytes.
  Variable B : Type.
  Variable bstep : backend B.
  Variable o : opts.
  Variable req : hreq.

  Local Arguments dec_Z : simpl never.
  Local Arguments parse_dec : simpl never.
  Local Arguments vrepo : simpl never.
  Local Arguments vtag : simpl never.
  Local Arguments vdigest : simpl never.
  Local Arguments servable : simpl never.
  Local Arguments good_id : simpl never.
  Local Arguments range_string : simpl never.
  Local Arguments Z.eqb : simpl nomatch.
  Local Arguments Z.leb : simpl nomatch.
  Local Arguments Z.ltb : simpl nomatch.
  Local Arguments Z.add : simpl nomatch.
  Local Arguments Z.sub : simpl nomatch.
  Local Arguments make_next_link : simpl never.
  Local Arguments content_range_of : simpl never.
  Local Arguments range_value_ok : simpl never.
  Local Arguments range_end_for : simpl never.
  Local Arguments b64u_encode : simpl never.
  Local Arguments upload_path : simpl never.
  Local Arguments text : simpl never.

  Notation hst := (hst B).

  (* what a handler leaves behind *)
  Definition post (x : hst * R gerr unit) : Prop :=
    let '(st, r) := x in
    let tr := rev (h_tr st) in
    wb_trace tr = true -> wb_locs (o_locs o) tr = true ->
    match r with
    | Ok _ => spec_ok linked o req tr (finish (h_w st)) = true
    | Err e => servable e = true /\ w_status (h_w st) = None /\ args_ok linked tr = true /\ closed_ok tr = true
    | Panic | OutOfFuel => False
    end.

  Definition st0 (b : B) : hst := mkst b [] rw0.

  Ltac bcall :=
    match goal with
    | |- context [bstep ?b ?c] =>
        let b' := fresh "b" in let r := fresh "r" in let v := fresh "v" in let e := fresh "e" in
        destruct (bstep b c) as [b' [v|e| |]]
    end.

  Ltac split_wb H :=
    cbn in H; repeat (apply andb_true_iff in H; let H' := fresh "HW" in destruct H as [H' H]).

  Ltac use_hyps :=
    repeat match goal with
           | H : ?x = true |- context [?x] => rewrite H
           | H : ?x = false |- context [?x] => rewrite H
           end.

  Lemma range_value_00 : range_value_ok (Some 0) (Some [48; 45; 48]%N) = true.
  Proof. reflexivity. Qed.

  Lemma dcd_value_desc d a : dcd_value_ok d a (d_digest d) = true.
  Proof. unfold dcd_value_ok. now rewrite beqb_refl. Qed.
  Lemma dcd_value_asked d a : dcd_value_ok d (Some a) a = true.
  Proof. unfold dcd_value_ok. now rewrite beqb_refl, orb_true_r. Qed.

  (* what is known about Options.LocationsForDescriptor: whether it is set, what it answered *)
  Ltac use_locs :=
    repeat match goal with
           | H : o_locs o = _ |- context [o_locs o] => rewrite H; cbn
           | H : ?t = _ |- context [match ?t with _ => _ end] => rewrite H; cbn
           end.

  Ltac fin_ok :=
    unfold spec_ok, headers_ok, created_ok, chosen_location; use_locs; cbn; use_hyps; use_locs;
    rewrite ?parse_dec_dec_Z, ?range_value_00, ?range_value_render, ?range_value_render_any; cbn;
    rewrite ?Z.eqb_refl, ?N.eqb_refl, ?implb'_refl, ?beqb_refl, ?orb_true_r, ?dcd_value_desc, ?dcd_value_asked; cbn; use_hyps;
    rewrite ?beqb_refl, ?orb_true_r; try reflexivity.

  Ltac fin_err Hyp :=
    split_wb Hyp; (split; [first [assumption | reflexivity | rewrite servable_wrap; assumption | idtac]
                          | split; [reflexivity | split; [cbn; use_hyps; try reflexivity | cbn; rewrite ?N.eqb_refl; try reflexivity]]]).

  (* at a leaf of the case analysis: compute the final state, take the hypotheses on the
     backend's answers, and close the goal according to what the handler returned *)
  Ltac leaf :=
    cbn; let HW := fresh "HW" in let HWL := fresh "HWL" in intros HW HWL; try discriminate;
    try (match type of HWL with context [match ?t with _ => _ end] =>
           match goal with EF : t = _ |- _ => rewrite EF in HWL; cbn in HWL end end);
    try discriminate;
    try (match goal with IE : iter_err_of ?v = _ |- _ => rewrite IE in HW end);
    try solve [exfalso; split_wb HW; first [discriminate | congruence]];
    lazymatch goal with
    | |- _ /\ _ => fin_err HW
    | |- False => split_wb HW; try discriminate; try congruence
    | |- _ => fin_ok
    end.

  (* case analysis on Options.LocationsForDescriptor inside setLocationHeader *)
  Ltac loc_cases :=
    unfold set_location_header, log; cbn [h_b h_tr h_w];
    match goal with
    | |- context [match ?f ?m ?d with _ => _ end] =>
        let EF := fresh "EF" in destruct (f m d) as [[|? ?]|?| |] eqn:EF
    | _ => idtac
    end.

  (* ---------------------------------------------------------- reader.go, deleter.go *)

  Lemma blob_head_post b rreq :
    vrepo (q_repo rreq) = true -> vdigest linked (q_digest rreq) = true ->
    post (handle_blob_head B bstep (st0 b) rreq).
  Proof.
    intros Hr Hd. unfold handle_blob_head, call, st0. cbn [h_b h_tr h_w].
    bcall; leaf.
  Qed.

  Lemma blob_delete_post b rreq :
    vrepo (q_repo rreq) = true -> vdigest linked (q_digest rreq) = true ->
    post (handle_blob_delete B bstep (st0 b) rreq).
  Proof.
    intros Hr Hd. unfold handle_blob_delete, call, st0. cbn [h_b h_tr h_w].
    bcall; leaf.
  Qed.

  Definition ref_ok (rreq : request) : bool :=
    match q_tag rreq with [] => vdigest linked (q_digest rreq) | t => vtag t end.

  Lemma manifest_delete_post b rreq :
    vrepo (q_repo rreq) = true -> ref_ok rreq = true ->
    post (handle_manifest_delete B bstep (st0 b) rreq).
  Proof.
    intros Hr Hd. unfold handle_manifest_delete, call, st0, ref_ok in *. cbn [h_b h_tr h_w].
    destruct (q_tag rreq) as [|t0 t]; bcall; leaf.
  Qed.

  Lemma manifest_head_post b rreq :
    vrepo (q_repo rreq) = true -> ref_ok rreq = true ->
    post (handle_manifest_head B bstep o (st0 b) rreq).
  Proof.
    intros Hr Hd. unfold handle_manifest_head, call, st0, ref_ok in *. cbn [h_b h_tr h_w].
    destruct (o_omit_digest_from_tag_get o) eqn:Om;
      destruct (q_tag rreq) as [|t0 t]; cbv iota; bcall; leaf.
  Qed.

  Lemma manifest_get_post b rreq :
    vrepo (q_repo rreq) = true -> ref_ok rreq = true ->
    post (handle_manifest_get B bstep o (st0 b) rreq).
  Proof.
    intros Hr Hd. unfold handle_manifest_get, call, st0, ref_ok in *. cbn [h_b h_tr h_w].
    destruct (o_omit_digest_from_tag_get o) eqn:Om;
      destruct (q_tag rreq) as [|t0 t]; bcall; leaf.
  Qed.

  (* ---------------------------------------------------------- handleBlobGet *)

  Ltac range_arith :=
    repeat match goal with
           | H : (_ <? _) = false |- _ => apply Z.ltb_ge in H
           | H : (_ <? _) = true |- _ => apply Z.ltb_lt in H
           | H : (_ =? _) = true |- _ => apply Z.eqb_eq in H
           | H : (_ =? _) = false |- _ => apply Z.eqb_neq in H
           | H : (_ || _) = true |- _ => apply orb_true_iff in H
           | H : (_ || _) = false |- _ => apply orb_false_iff in H as [? ?]
           end.

  (* the script is a tactic so that it can run on both entry states of the body: directly, and
     after the ResolveBlob / LocationsForDescriptor prelude *)
  Ltac blob_get_body_tac :=
    unfold handle_blob_get_body, call; cbn [h_b h_tr h_w];
    let E := fresh "E" in
    destruct (parse_range_header (hq_range req)) as [[|[start end_] [|? ?]]| | |] eqn:E;
    [ bcall; leaf
    | let Hs := fresh "Hs" in
      apply parse_range_header_nonneg in E; inversion E as [|? ? Hs _]; subst; cbn [fst] in Hs;
      bcall; cbn [as_read]; cbv zeta;
      [ match goal with |- context [if ?c then d_size ?d else end_] =>
          let C := fresh "C" in let C1 := fresh "C" in let C2 := fresh "C" in let Hend := fresh "Hend" in
          set (end' := if c then d_size d else end_);
          assert (Hend : end' <= d_size d)
            by (unfold end'; destruct c eqn:C; [lia | apply orb_false_iff in C as [_ C]; apply Z.ltb_ge in C; lia]);
          clearbody end';
          (destruct (d_size d <? start) eqn:C1; [leaf; apply servable_http_plain; lia|]);
          (destruct (end' <? start) eqn:C2; [leaf; apply servable_http_plain; lia|]);
          apply Z.ltb_ge in C1, C2;
          leaf; rewrite content_range_render by assumption;
          replace (end' - 1 + 1) with end' by lia;
          rewrite Z.eqb_refl, implb'_refl;
          repeat rewrite (proj2 (Z.leb_le _ _)) by lia; rewrite ?Z.eqb_refl; reflexivity
        end
      | leaf | leaf | leaf ]
    | leaf; apply servable_http_plain; lia
    | leaf; apply servable_http_plain; lia
    | exfalso; destruct (parse_range_header_total (hq_range req)) as [[? ?]|?]; congruence
    | exfalso; destruct (parse_range_header_total (hq_range req)) as [[? ?]|?]; congruence ].

  Lemma blob_get_body_post b rreq :
    vrepo (q_repo rreq) = true -> vdigest linked (q_digest rreq) = true ->
    post (handle_blob_get_body B bstep (st0 b) req rreq).
  Proof.
    intros Hr Hd. unfold st0. blob_get_body_tac.
  Qed.

  Lemma blob_get_post b rreq :
    vrepo (q_repo rreq) = true -> vdigest linked (q_digest rreq) = true ->
    post (handle_blob_get redirect B bstep o (st0 b) req rreq).
  Proof.
    intros Hr Hd. unfold handle_blob_get.
    destruct (o_locs o) as [f|] eqn:EL.
    2:{ exact (blob_get_body_post b rreq Hr Hd). }
    unfold st0, call. cbn [h_b h_tr h_w]. unfold post. rewrite EL.
    bcall; cbn [as_desc]; [|leaf|leaf|leaf].
    destruct (f false (desc_of v)) as [[|l0 locs]|e| |] eqn:EF.
    - (* no location: the ordinary path, after the prelude *)
      unfold log. cbn [h_b h_tr h_w]. blob_get_body_tac.
    - destruct (redirect (hq_path req) l0) as [loc body]. leaf.
    - cbn. intros HW HWL. rewrite EF in HWL. cbn in HWL. apply andb_true_iff in HWL as [HWL _].
      repeat split; auto. cbn. now rewrite Hr, Hd.
    - cbn. intros HW HWL. rewrite EF in HWL. discriminate.
    - cbn. intros HW HWL. rewrite EF in HWL. discriminate.
  Qed.

  (* ---------------------------------------------------------- writer.go *)

  Lemma blob_mount_post b rreq :
    vrepo (q_repo rreq) = true -> vdigest linked (q_digest rreq) = true -> vrepo (q_from rreq) = true ->
    post (handle_blob_mount B bstep o (st0 b) rreq).
  Proof.
    intros Hr Hd Hf. unfold handle_blob_mount, set_location_header, st0, call, post. cbn [h_b h_tr h_w].
    destruct (o_locs o) as [f|] eqn:EL; (bcall; cbn [as_desc]; [|leaf|leaf|leaf]).
    - loc_cases; leaf.
    - leaf.
  Qed.

  Lemma location_ok repo id : vrepo repo = true -> good_id id = true ->
    location_for_upload_id linked repo id = Ok (s "/v2/" ++ repo ++ up_lit ++ b64u_encode id).
  Proof.
    intros Hr Hg. unfold good_id in Hg. apply andb_true_iff in Hg as [Hn Hu].
    unfold location_for_upload_id. rewrite upload_location_ok; auto.
    now apply nonempty_true.
  Qed.

  (* the Location header from w.ID(): either the ID is good and the location is the upload
     path, or the backend is out of scope (found at the leaf) *)
  Ltac loc_step :=
    match goal with |- context [location_for_upload_id _ ?r ?i] =>
      let G := fresh "G" in
      destruct (good_id i) eqn:G;
      [ rewrite (location_ok r i) by assumption
      | destruct (location_for_upload_id linked r i) ]
    end.

  Ltac simp_st :=
    cbn [h_b h_tr h_w set_hdr upd_w write_header write_body log w_status w_hdrs w_body w_json rw0
         as_n as_str as_desc as_read as_writer as_unit as_list as_descs fst snd].

  (* run the remaining backend calls, whatever they answer *)
  Ltac if_step :=
    match goal with |- context [if (n_of ?v =? ?x) then _ else _] => destruct (n_of v =? x) eqn:? end.

  Ltac run := repeat (simp_st; first [loc_step | bcall | if_step]); simp_st.

  Lemma blob_start_upload_post b rreq :
    vrepo (q_repo rreq) = true ->
    post (handle_blob_start_upload linked B bstep (st0 b) rreq).
  Proof.
    intros Hr. unfold handle_blob_start_upload, defer_close, with_upload_location, st0, call. cbn [h_b h_tr h_w].
    bcall; cbn [as_writer]; [|leaf|leaf|leaf].
    run; leaf.
  Qed.

  Lemma blob_upload_info_post b rreq :
    vrepo (q_repo rreq) = true ->
    post (handle_blob_upload_info linked B bstep (st0 b) rreq).
  Proof.
    intros Hr. unfold handle_blob_upload_info, defer_close, with_upload_location, st0, call. cbn [h_b h_tr h_w].
    bcall; cbn [as_writer]; [|leaf|leaf|leaf].
    run; leaf.
  Qed.

  Lemma chunk_range_cases :
    (exists p, chunk_range req = Ok p) \/ (exists m, chunk_range req = Err (bad_api_use_error m)).
  Proof.
    unfold chunk_range. destruct (hq_crange req) as [|c cr].
    - cbn. destruct (0 <=? hq_clen req); left; eauto.
    - destruct (parse_range (c :: cr)) as [[a b0]|]; [|right; eauto].
      destruct (true && (0 <=? hq_clen req)).
      + destruct (negb _); [right | left]; eauto.
      + destruct (negb true && _); left; eauto.
  Qed.

  Ltac chunk_range_step :=
    let CR := fresh "CR" in
    destruct chunk_range_cases as [[[start end_] CR]|[m CR]]; rewrite CR;
    [| leaf; apply servable_bad_api ].

  Lemma blob_upload_chunk_post b rreq :
    vrepo (q_repo rreq) = true ->
    post (handle_blob_upload_chunk linked B bstep (st0 b) req rreq).
  Proof.
    intros Hr. unfold handle_blob_upload_chunk, with_upload_location, copy_body, st0, call. cbn [h_b h_tr h_w].
    chunk_range_step.
    bcall; cbn [as_writer]; [|leaf|leaf|leaf].
    destruct (hq_body req) as [|c0 body] eqn:EB; run; leaf.
  Qed.

  Lemma blob_complete_upload_post b rreq :
    vrepo (q_repo rreq) = true -> vdigest linked (q_digest rreq) = true ->
    post (handle_blob_complete_upload B bstep o (st0 b) req rreq).
  Proof.
    intros Hr Hd. unfold handle_blob_complete_upload, defer_close, set_location_header, copy_body, st0, call, post.
    cbn [h_b h_tr h_w].
    chunk_range_step.
    destruct (o_locs o) as [f|] eqn:EL; (bcall; cbn [as_writer]; [|leaf|leaf|leaf]);
      (destruct (hq_body req) as [|c0 body] eqn:EB); run; try loc_cases; run; leaf.
  Qed.

  Lemma blob_upload_blob_post b rreq :
    vrepo (q_repo rreq) = true -> vdigest linked (q_digest rreq) = true ->
    post (handle_blob_upload_blob linked B bstep o (st0 b) req rreq).
  Proof.
    intros Hr Hd. unfold handle_blob_upload_blob.
    destruct (o_disable_single_post o); [now apply blob_start_upload_post|].
    unfold set_location_header, st0, call, post. cbn [h_b h_tr h_w].
    destruct (o_locs o) as [f|] eqn:EL; (bcall; cbn [as_desc]; [|leaf|leaf|leaf]);
      try loc_cases; leaf.
  Qed.

  Lemma manifest_put_post b rreq :
    vrepo (q_repo rreq) = true -> ref_ok rreq = true ->
    post (handle_manifest_put digest_of subject_of B bstep o (st0 b) req rreq).
  Proof.
    intros Hr Hd. unfold handle_manifest_put, subject_from_manifest, set_location_header, st0, call, post, ref_ok in *.
    cbn [h_b h_tr h_w].
    destruct (o_locs o) as [f|] eqn:EL;
      (destruct (q_tag rreq) as [|t0 tg] eqn:ET;
       [ destruct (negb (beqb (q_digest rreq) (digest_of (hq_body req)))); [leaf|] | ]);
      (destruct (if beqb (hq_ctype req) media_image_manifest || beqb (hq_ctype req) media_image_index
                 then subject_of (hq_body req) else Some None) as [[sd|]|]; [| |leaf]);
      (bcall; cbn [as_desc]; [|leaf|leaf|leaf]); try loc_cases; leaf.
  Qed.

  (* ---------------------------------------------------------- lister.go *)

  Lemma next_items_trunc n l : forall acc items, next_items n l acc = (items, true) -> items <> [].
  Proof.
    induction l as [|it l IH]; cbn [next_items]; intros acc items H; [discriminate|].
    destruct ((0 <? n) && (n <=? Z.of_nat (length acc))) eqn:C.
    - inversion H. subst. apply andb_true_iff in C as [C1 C2].
      apply Z.ltb_lt in C1. apply Z.leb_le in C2. destruct items; [cbn in C2; lia | discriminate].
    - eapply IH; eauto.
  Qed.

  Definition too_large : gerr := Wire (W (std_code SUnsupported) (s "query parameter n is too large") None).

  Lemma next_list_results_cases rreq l e :
    (exists items link, next_list_results o req rreq (l, e) = Ok (items, link) /\ (e = None \/ l <> []))
    \/ next_list_results o req rreq (l, e) = Err too_large
    \/ (exists e', e = Some e' /\ next_list_results o req rreq (l, e) = Err e').
  Proof.
    unfold next_list_results. destruct (_ && _); [right; left; reflexivity|].
    destruct (next_items (q_listn rreq) l []) as [items truncated] eqn:NI.
    assert (Hl : truncated = true -> l <> []).
    { intros -> ->. cbn in NI. discriminate. }
    destruct truncated.
    - cbn [andb]. destruct (negb (o_omit_link o)); [|left; eauto 6].
      destruct (rev items) as [|last r] eqn:ER; [|left; eauto 6].
      exfalso. apply next_items_trunc in NI. apply NI.
      apply (f_equal (@rev bytes)) in ER. now rewrite rev_involutive in ER.
    - destruct e as [e'|]; [right; right; eauto | left; cbn [andb]; eauto 6].
  Qed.

  Ltac list_tac :=
    match goal with |- context [next_list_results o req ?rq (?l, ?e)] =>
      let E := fresh "E" in
      destruct (next_list_results_cases rq l e) as [(items & link & E & [?|?])|[E|(e' & ? & E)]];
      try congruence; rewrite E; unfold list_response;
      try (match goal with |- context [match ?lk with [] => _ | _ :: _ => _ end] => is_var lk; destruct lk end);
      try match goal with H : Some _ = Some _ |- _ => inversion H; subst end;
      leaf
    end.

  Lemma tags_list_post b rreq :
    vrepo (q_repo rreq) = true ->
    post (handle_tags_list enc B bstep o (st0 b) req rreq).
  Proof.
    intros Hr. unfold handle_tags_list, st0, call. cbn [h_b h_tr h_w].
    bcall; cbn [as_list]; [destruct (iter_err_of v) eqn:IE | | leaf | leaf]; list_tac.
  Qed.

  Lemma catalog_list_post b rreq :
    post (handle_catalog_list enc B bstep o (st0 b) req rreq).
  Proof.
    unfold handle_catalog_list, st0, call. cbn [h_b h_tr h_w].
    bcall; cbn [as_list]; [destruct (iter_err_of v) eqn:IE | | leaf | leaf]; list_tac.
  Qed.

  Lemma referrers_list_post b rreq :
    vrepo (q_repo rreq) = true -> vdigest linked (q_digest rreq) = true ->
    post (handle_referrers_list enc B bstep o (st0 b) rreq).
  Proof.
    intros Hr Hd. unfold handle_referrers_list, list_response, st0, call. cbn [h_b h_tr h_w].
    destruct (o_disable_referrers o); [leaf; apply servable_http_plain; lia|].
    bcall; cbn [as_descs]; [destruct (iter_err_of v) eqn:IE | | leaf | leaf]; leaf.
  Qed.

  (* ---------------------------------------------------------- dispatch, the error exit, ServeHTTP *)

  Lemma dispatch_post b rreq :
    request_fields_ok linked rreq = true ->
    post (dispatch linked digest_of subject_of enc redirect B bstep o (st0 b) req rreq).
  Proof.
    unfold request_fields_ok, dispatch. intros H.
    assert (Href : q_kind rreq = ReqManifestGet \/ q_kind rreq = ReqManifestHead \/ q_kind rreq = ReqManifestPut
                   \/ q_kind rreq = ReqManifestDelete ->
                   vrepo (q_repo rreq) = true /\ ref_ok rreq = true).
    { intros K. unfold ref_ok. destruct K as [K|[K|[K|K]]]; rewrite K in H;
        apply andb_true_iff in H as [H1 H2]; (split; [assumption|]);
        (destruct (q_tag rreq); [assumption | now apply andb_true_iff in H2 as [H2 _]]). }
    destruct (q_kind rreq) eqn:K;
      try (destruct Href as [Hr Hf]; [tauto|]);
      repeat match goal with H : _ && _ = true |- _ => apply andb_true_iff in H as [? ?] end.
    - unfold st0. leaf.
    - now apply blob_get_post.
    - now apply blob_head_post.
    - now apply blob_delete_post.
    - now apply blob_start_upload_post.
    - now apply blob_upload_blob_post.
    - now apply blob_mount_post.
    - now apply blob_upload_info_post.
    - now apply blob_upload_chunk_post.
    - now apply blob_complete_upload_post.
    - now apply manifest_get_post.
    - now apply manifest_head_post.
    - now apply manifest_put_post.
    - now apply manifest_delete_post.
    - now apply tags_list_post.
    - now apply referrers_list_post.
    - apply catalog_list_post.
  Qed.

  Lemma error_exit (st : hst) e :
    servable e = true -> w_status (h_w st) = None ->
    args_ok linked (rev (h_tr st)) = true -> closed_ok (rev (h_tr st)) = true ->
    exists st', write_error enc B e st = (st', Ok tt) /\ h_tr st' = h_tr st /\ h_b st' = h_b st
                /\ spec_ok linked o req (rev (h_tr st)) (finish (h_w st')) = true.
  Proof.
    intros Hs Hw Ha Hc. unfold write_error. rewrite (serve_error_ok e Hs).
    destruct st as [b0 tr [hd stt bd js]]. cbn [h_tr h_b h_w w_status] in *. subst stt.
    eexists. split; [reflexivity|]. cbn [h_tr h_b]. split; [reflexivity|]. split; [reflexivity|].
    unfold spec_ok. rewrite Ha, Hc.
    unfold status_ok, headers_ok, errors_answered, is_failure.
    cbn [h_w set_hdr upd_w write_header write_body w_status w_hdrs w_body w_json finish p_json p_hdrs p_status
         r_err r_status marshal_error w_code].
    rewrite hget_hset_eq. cbn [option_eqb]. rewrite beqb_refl.
    assert (N1 : negb (beqb (marshal_code e) []) = true).
    { apply negb_true_iff, beqb_neq, marshal_code_nonempty. }
    rewrite N1. cbn [andb].
    assert (I : forall x, implb' x true = true) by (intros []; reflexivity).
    destruct (lookup (marshal_code e) error_statuses) as [stc|] eqn:L; [|now rewrite I].
    rewrite (marshal_status_table e stc L), Z.eqb_refl. now rewrite I.
  Qed.

  Lemma parse_errors_servable :
    Forall (fun pe => servable (handler_error_for_request_parse_error pe) = true) parse_errors.
  Proof. repeat constructor. Qed.

  Lemma write_error_trace e (st : hst) :
    h_tr (fst (write_error enc B e st)) = h_tr st /\ h_b (fst (write_error enc B e st)) = h_b st.
  Proof. unfold write_error. destruct (serve_error go_sprefix go_cprefix e); split; reflexivity. Qed.

  Theorem handle_conforms b :
    let '(b', tr, r) := handle linked digest_of subject_of enc redirect B bstep o b req in
    wb_trace tr = true -> wb_locs (o_locs o) tr = true ->
    exists resp, r = Ok resp /\ spec_ok linked o req tr resp = true.
  Proof.
    unfold handle, v2.
    pose proof (parse_req_good linked (hq_method req) (hq_path req) (hq_rawquery req)) as G.
    assert (EX : forall (st : hst) e,
               (wb_trace (rev (h_tr st)) = true -> wb_locs (o_locs o) (rev (h_tr st)) = true ->
                servable e = true /\ w_status (h_w st) = None /\ args_ok linked (rev (h_tr st)) = true
                /\ closed_ok (rev (h_tr st)) = true) ->
               let '(b', tr, r) :=
                 (let '(st', r') := write_error enc B e st in
                  (h_b st', rev (h_tr st'),
                   match r' return R unit hresp with Ok _ => Ok (finish (h_w st')) | Err _ => Panic | Panic => Panic | OutOfFuel => OutOfFuel end)) in
               wb_trace tr = true -> wb_locs (o_locs o) tr = true ->
               exists resp, r = Ok resp /\ spec_ok linked o req tr resp = true).
    { intros st e P. destruct (write_error_trace e st) as [T1 T2].
      destruct (write_error enc B e st) as [st' r'] eqn:EW. cbn [fst] in T1, T2. rewrite T1.
      intros W WL. destruct (P W WL) as (S1 & S2 & S3 & S4).
      destruct (error_exit st e S1 S2 S3 S4) as (st'' & E1 & E2 & E3 & E4).
      rewrite EW in E1. inversion E1. subst. eexists. split; [reflexivity | exact E4]. }
    destruct (parse_req linked (hq_method req) (hq_path req) (hq_rawquery req)) as [rreq|pe| |];
      cbn [good] in G; try contradiction.
    - pose proof (dispatch_post b rreq G) as P. fold (st0 b).
      destruct (dispatch _ _ _ _ _ _ _ _ _ _ _) as [st r]. unfold post in P.
      destruct r as [u|e| |].
      + intros W WL. eexists. split; [reflexivity|]. now apply P.
      + apply EX. exact P.
      + intros W WL. exfalso. now apply P.
      + intros W WL. exfalso. now apply P.
    - apply EX. intros _ _. cbn.
      pose proof parse_errors_servable as PS. rewrite Forall_forall in PS. repeat split. now apply PS.
  Qed.

End Conf.
