(* parseWWWAuthenticate is total: for every byte string it returns a challenge or nil; the
   writes into the unescape buffer stay inside it and the parameter loop terminates. *)
From Coq Require Import String Lia.
From OCI Require Import Base.Outcome Model.Challenge.

Lemma unescape_ok cap : forall rest escape rp,
  (List.length rp + List.length rest <= cap)%nat -> exists r, unescape cap escape rest rp = Ok r.
Proof.
  induction rest as [|b rest IH]; intros escape rp H; cbn [unescape].
  - eauto.
  - cbn [List.length] in H.
    assert ((List.length rp <? cap)%nat = true) as Hlt by (apply Nat.ltb_lt; lia).
    destruct escape.
    + rewrite Hlt. apply IH. cbn [List.length]. lia.
    + destruct (b =? backslash). { apply IH. lia. }
      destruct (b =? quote). { eauto. }
      rewrite Hlt. apply IH. cbn [List.length]. lia.
Qed.

Lemma quoted_scan_ok cap : forall rest rpre,
  (List.length rpre + List.length rest <= cap + 1)%nat -> exists r, quoted_scan cap rpre rest = Ok r.
Proof.
  induction rest as [|c rest IH]; intros rpre H; cbn [quoted_scan].
  - eauto.
  - cbn [List.length] in H.
    destruct (c =? quote). { eauto. }
    destruct (c =? backslash).
    + apply unescape_ok. rewrite rev_length, firstn_length, rev_length.
      assert (Init.Nat.min cap (List.length rpre) <= List.length rpre)%nat by apply Nat.le_min_r.
      lia.
    + apply IH. cbn [List.length]. lia.
Qed.

Lemma skip_space_len a : (List.length (skip_space a) <= List.length a)%nat.
Proof. induction a as [|c a IH]; cbn [skip_space List.length]; [lia|]. destruct (is_space c); cbn [List.length]; lia. Qed.

Lemma expect_token_len a t r : expect_token a = (t, r) -> List.length a = (List.length t + List.length r)%nat.
Proof.
  revert t r. induction a as [|c a IH]; intros t r; cbn.
  - intros [= <- <-]. reflexivity.
  - destruct (is_token c).
    + destruct (expect_token a) as [t' r'] eqn:Et. intros [= <- <-]. cbn. rewrite (IH _ _ eq_refl). lia.
    + intros [= <- <-]. reflexivity.
Qed.

Lemma unescape_len cap : forall rest escape rp v r,
  unescape cap escape rest rp = Ok (v, r) -> (List.length r <= List.length rest)%nat.
Proof.
  induction rest as [|b rest IH]; intros escape rp v r; cbn [unescape].
  - intros [= <- <-]. cbn. lia.
  - cbn [List.length]. destruct escape.
    + destruct (List.length rp <? cap)%nat; [|discriminate]. intros H. apply IH in H. lia.
    + destruct (b =? backslash). { intros H. apply IH in H. lia. }
      destruct (b =? quote). { intros [= <- <-]. lia. }
      destruct (List.length rp <? cap)%nat; [|discriminate]. intros H. apply IH in H. lia.
Qed.

Lemma quoted_scan_len cap : forall rest rpre v r,
  quoted_scan cap rpre rest = Ok (v, r) -> (List.length r <= List.length rest)%nat.
Proof.
  induction rest as [|c rest IH]; intros rpre v r; cbn [quoted_scan].
  - intros [= <- <-]. cbn. lia.
  - cbn [List.length]. destruct (c =? quote). { intros [= <- <-]. lia. }
    destruct (c =? backslash).
    + intros H. apply unescape_len in H. lia.
    + intros H. apply IH in H. lia.
Qed.

Lemma etoq_ok a : exists r, expect_token_or_quoted a = Ok r.
Proof.
  unfold expect_token_or_quoted. destruct a as [|c r]; [eauto|].
  destruct (c =? quote); [|eauto]. apply quoted_scan_ok. cbn [List.length]. lia.
Qed.

Lemma etoq_len a v r : expect_token_or_quoted a = Ok (v, r) -> (List.length r <= List.length a)%nat.
Proof.
  assert (forall b, Ok (E := unit) (expect_token b) = Ok (v, r) -> (List.length r <= List.length b)%nat) as Ht.
  { intros b H. assert (expect_token b = (v, r)) as H' by congruence. apply expect_token_len in H'. lia. }
  unfold expect_token_or_quoted. destruct a as [|c a'].
  - apply Ht.
  - destruct (c =? quote).
    + intros H. apply quoted_scan_len in H. cbn [List.length]. lia.
    + apply Ht.
Qed.

Lemma parse_params_ok : forall fuel a params,
  (List.length a < fuel)%nat -> exists r, parse_params fuel a params = Ok r.
Proof.
  induction fuel as [|f IH]; intros a params H; [lia|].
  destruct a as [|c0 a0]; [cbn; eauto|].
  cbn [parse_params]. set (a := c0 :: a0) in *.
  destruct (expect_token (skip_space a)) as [pkey s1] eqn:Et.
  destruct (is_nil pkey) eqn:En; [eauto|].
  destruct s1 as [|c s2]; [eauto|].
  destruct (negb (c =? equals)); [eauto|].
  destruct (etoq_ok s2) as [[pvalue s3] Eq]. rewrite Eq. cbn [rbind].
  destruct (is_nil pvalue); [eauto|].
  destruct (skip_space s3) as [|d s5] eqn:Es; [eauto|].
  destruct (d =? comma); [|eauto].
  apply IH.
  apply expect_token_len in Et. apply etoq_len in Eq.
  pose proof (skip_space_len a). pose proof (skip_space_len s3). rewrite Es in *.
  cbn [List.length] in *. destruct pkey; [discriminate|]. cbn [List.length] in *. lia.
Qed.

(* challenge_parser_total *)
Theorem parse_total header : exists r, parseWWWAuthenticate header = Ok r.
Proof.
  unfold parseWWWAuthenticate.
  destruct (expect_token header) as [scheme s1] eqn:Et.
  destruct (is_nil scheme); [eauto|].
  destruct (parse_params_ok (S (List.length s1)) (skip_space s1) []) as [r Hr].
  { pose proof (skip_space_len s1). lia. }
  rewrite Hr. cbn [rbind]. destruct r; eauto.
Qed.

Lemma parse_www_spec header : parseWWWAuthenticate header = Ok (parse_www header).
Proof. unfold parse_www. destruct (parse_total header) as [r ->]. reflexivity. Qed.

(* challengeFromResponse only ever selects a Basic or a Bearer challenge *)
Lemma challenge_loop_scheme vals : forall h ch,
  (forall h0, h = Some h0 -> ah_scheme h0 = sch_basic \/ ah_scheme h0 = sch_bearer) ->
  challenge_loop vals h = Some ch -> ah_scheme ch = sch_basic \/ ah_scheme ch = sch_bearer.
Proof.
  induction vals as [|v vals IH]; intros h ch Hh; cbn [challenge_loop].
  - intros ->. now apply Hh.
  - destruct (parse_www v) as [h1|]; [|now apply IH].
    destruct (beqb (ah_scheme h1) sch_basic) eqn:E1; cbn [negb andb].
    + assert (forall h0, Some h1 = Some h0 -> ah_scheme h0 = sch_basic \/ ah_scheme h0 = sch_bearer) as H1.
      { intros h0 [= <-]. left. now apply beqb_eq. }
      destruct h as [h0|]; [|now apply IH].
      destruct (beqb (ah_scheme h0) sch_bearer); [now apply IH | now apply IH].
    + destruct (beqb (ah_scheme h1) sch_bearer) eqn:E2; cbn [negb]; [|now apply IH].
      assert (forall h0, Some h1 = Some h0 -> ah_scheme h0 = sch_basic \/ ah_scheme h0 = sch_bearer) as H1.
      { intros h0 [= <-]. right. now apply beqb_eq. }
      destruct h as [h0|]; now apply IH.
Qed.

Lemma challenge_scheme vals ch :
  challenge_from_response vals = Some ch -> ah_scheme ch = sch_basic \/ ah_scheme ch = sch_bearer.
Proof. apply challenge_loop_scheme. discriminate. Qed.
