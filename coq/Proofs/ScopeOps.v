(* Proofs about Model/Scope.v (C09), part 3: NewScope, Holds, Contains, Union, Equal against
   the set a scope denotes. *)
From Coq Require Import String.
From OCI Require Import Model.Scope Proofs.Scope Proofs.ScopeAlg.

(* ================================================================== *)
(* 9. NewScope                                                         *)
(* ================================================================== *)

Definition unknownb (r : rscope) : bool := negb (is_known r).

Lemma NewScope_fields l :
  let rss := compact rs_eqb (isort rs_cmp l) in
  NewScope l = {| original := []; unlimited := false;
                  repositories := map fst (grp None rss); actions := map snd (grp None rss);
                  others := filter unknownb rss |}.
Proof.
  intros rss. unfold NewScope. fold rss. rewrite (new_loop_grp rss [] [] []) by reflexivity.
  cbn [rev tl hd_entry app]. f_equal.
  apply (sort_compact_id rs_cmp rs_eqb rs_cmp_total rs_eqb_eq).
  apply ssorted_filter. apply (sort_compact_sorted rs_cmp rs_eqb rs_cmp_total rs_eqb_eq).
Qed.

Lemma cur_ok_none rss : cur_ok None rss.
Proof. intros repo m E. discriminate. Qed.

Lemma wf_new l : wf (NewScope l).
Proof.
  rewrite NewScope_fields. set (rss := compact rs_eqb (isort rs_cmp l)).
  assert (Hs : StronglySorted rs_lt rss) by apply (sort_compact_sorted rs_cmp rs_eqb rs_cmp_total rs_eqb_eq).
  destruct (grp_spec rss None Hs (cur_ok_none rss)) as ((W1 & W2) & _ & _).
  split; unfold entries; cbn [original unlimited repositories actions others].
  - now rewrite !map_length.
  - now apply key_sorted_fst.
  - now rewrite combine_fst_snd.
  - now apply ssorted_filter.
  - apply Forall_forall. intros r Hr. apply filter_In in Hr as [_ Hr]. unfold unknownb in Hr.
    now destruct (is_known r).
  - discriminate.
  - congruence.
Qed.

Lemma abs_new l r : In r (abs (NewScope l)) <-> In r l.
Proof.
  rewrite abs_In, NewScope_fields. set (rss := compact rs_eqb (isort rs_cmp l)).
  assert (Hs : StronglySorted rs_lt rss) by apply (sort_compact_sorted rs_cmp rs_eqb rs_cmp_total rs_eqb_eq).
  destruct (grp_spec rss None Hs (cur_ok_none rss)) as (_ & _ & M).
  unfold entries. cbn [unlimited repositories actions others]. rewrite combine_fst_snd, M, filter_In.
  assert (Hi : In r rss <-> In r l) by apply (sort_compact_In rs_cmp rs_eqb rs_eqb_eq).
  unfold unknownb. rewrite <- Hi. destruct (is_known r); cbn; split.
  - intros (_ & [[(e & E & _)|[H _]]|[_ H]]); [discriminate | exact H | discriminate].
  - intros H. split; auto.
  - intros (_ & [[(e & E & _)|[_ H]]|[H _]]); [discriminate | discriminate | exact H].
  - intros H. split; auto.
Qed.

(* ================================================================== *)
(* 10. Membership of known and unknown scopes                          *)
(* ================================================================== *)

Lemma known_in_abs sc r :
  wf sc -> unlimited sc = false -> is_known r = true ->
  (In r (abs sc) <-> exists m, In (kkey r, m) (entries sc) /\ N.testbit m (kbit r) = true).
Proof.
  intros W Hu Hk. rewrite abs_In, in_known_list by apply (wf_masks _ W). split.
  - intros (_ & [(_ & H)|H]); auto. pose proof (wf_unknown _ W) as Hf. rewrite Forall_forall in Hf.
    apply Hf in H. congruence.
  - intros H. split; auto.
Qed.

Lemma unknown_in_abs sc r :
  wf sc -> unlimited sc = false -> is_known r = false -> (In r (abs sc) <-> In r (others sc)).
Proof.
  intros W Hu Hk. rewrite abs_In. split.
  - intros (_ & [H|H]); auto. apply known_list_known in H; [congruence | apply (wf_masks _ W)].
  - intros H. split; auto.
Qed.

Lemma in_combine_exists {A B} (l1 : list A) (l2 : list B) x :
  length l1 = length l2 -> In x l1 -> exists y, In (x, y) (combine l1 l2).
Proof.
  revert l2. induction l1 as [|a l1 IH]; intros [|b l2]; cbn; try discriminate; [tauto|].
  intros Hl [->|Hi]; [eauto|]. destruct (IH l2 ltac:(lia) Hi) as [y Hy]. eauto.
Qed.

Lemma nth_error_combine {A B} (l1 : list A) (l2 : list B) i x y :
  nth_error l1 i = Some x -> nth_error l2 i = Some y -> nth_error (combine l1 l2) i = Some (x, y).
Proof.
  revert l2 i. induction l1 as [|a l1 IH]; intros [|b l2] [|i]; cbn; try discriminate.
  - congruence.
  - apply IH.
Qed.

(* ================================================================== *)
(* 11. Holds                                                           *)
(* ================================================================== *)

Lemma mask_bit_test a k :
  (a = 2 \/ a = 4 \/ a = 6) -> (k = 1 \/ k = 2) ->
  negb (N.land a (N.shiftl 1 k) =? 0) = N.testbit a k.
Proof. intros [->|[->| ->]] [->| ->]; reflexivity. Qed.

Lemma holds_spec sc r :
  wf sc -> exists b, Holds sc r = Ok b /\ (b = true <-> unlimited sc = true \/ In r (abs sc)).
Proof.
  intros W. unfold Holds, IsUnlimited. destruct (unlimited sc) eqn:Hu.
  { exists true. split; auto. split; auto. }
  assert (Hothers : is_known r = false ->
            exists b, (do (_, ok) <- bsearch rs_cmp (others sc) r; Ok ok) = Ok b /\
                      (b = true <-> false = true \/ In r (abs sc))).
  { intros Hk. destruct (bsearch_sorted rs_cmp rs_cmp_total (others sc) r (wf_others _ W)) as (k & b & E & Hb & _).
    rewrite E. cbn. exists b. split; auto. rewrite unknown_in_abs by auto. rewrite Hb.
    split; auto. intros [H|H]; [discriminate | auto]. }
  destruct (rs_eqb r CatalogScope) eqn:Ec.
  - apply rs_eqb_eq in Ec. subst r.
    destruct (bsearch_sorted bcmp bcmp_total (repositories sc) [] (wf_repos _ W)) as (k & b & E & Hb & _).
    rewrite E. cbn. exists b. split; auto.
    rewrite known_in_abs by auto. cbn [kkey kbit CatalogScope rtype]. cbn. rewrite Hb. split.
    + intros Hi. right. destruct (in_combine_exists _ (actions sc) _ (wf_len _ W) Hi) as [m Hm].
      exists m. split; auto. pose proof (wf_masks _ W) as Hf. rewrite Forall_forall in Hf.
      apply Hf in Hm. cbn in Hm. now subst m.
    + intros [H|(m & Hm & _)]; [discriminate|]. now apply in_combine_l in Hm.
  - apply rs_eqb_neq in Ec.
    destruct (beqb (rtype r) TypeRepository && negb (beqb (rres r) [])) eqn:Et.
    + apply andb_true_iff in Et as [Et En]. apply beqb_eq in Et. apply negb_true_iff, beqb_neq in En.
      destruct (negb (parse_known_action (ract r) =? unknownAction)) eqn:Ea.
      * apply negb_true_iff, N.eqb_neq in Ea.
        assert (Hk : is_known r = true).
        { apply is_known_cases. right. repeat split; auto.
          destruct (pka_cases (ract r)) as [[? ?]|[[? ?]|(_ & _ & ?)]]; auto. contradiction. }
        destruct (known_repo_facts r Hk Ec) as (_ & _ & K3 & K4 & K5 & _).
        destruct (bsearch_sorted bcmp bcmp_total (repositories sc) (rres r) (wf_repos _ W)) as (k & b & E & Hb & Hn & _).
        rewrite E. cbn [rbind]. pose proof (known_in_abs sc r W Hu Hk) as Hin. rewrite K3 in Hin.
        destruct b; cbn [negb].
        -- specialize (Hn eq_refl).
           destruct (nth_error (actions sc) k) as [a|] eqn:Ek.
           2:{ apply nth_error_None in Ek. assert (k < length (repositories sc))%nat by (apply nth_error_Some; congruence).
               rewrite (wf_len _ W) in H. lia. }
           pose proof (nth_error_combine _ _ _ _ _ Hn Ek) as Hc. apply nth_error_In in Hc.
           fold (entries sc) in Hc.
           pose proof (wf_masks _ W) as Hf. rewrite Forall_forall in Hf. pose proof (Hf _ Hc) as Hm.
           apply mask_cases in Hm. rewrite <- K4.
           exists (N.testbit a (kbit r)). split; [f_equal; now apply mask_bit_test|].
           rewrite Hin. split.
           ++ intros Hb'. right. eauto.
           ++ intros [H|(m & Hm' & Ht)]; [discriminate|].
              destruct (wf_entries_of_wf sc W) as [Hs _].
              now rewrite (key_sorted_functional _ _ _ _ Hs Hc Hm').
        -- exists false. split; auto. rewrite Hin. split; [discriminate|].
           intros [H|(m & Hm & _)]; [discriminate|]. apply in_combine_l in Hm. now apply Hb in Hm.
      * apply Hothers. apply negb_false_iff, N.eqb_eq in Ea.
        unfold is_known. rewrite Et, beqb_refl. cbn. rewrite Ea. now rewrite andb_false_r.
    + apply Hothers. destruct (is_known r) eqn:Hk; auto. exfalso.
      apply is_known_cases in Hk as [?|(H1 & H2 & _)]; [contradiction|].
      rewrite H1, beqb_refl in Et. cbn in Et. apply negb_false_iff, beqb_eq in Et. contradiction.
Qed.

Lemma holds_total sc r : wf sc -> exists b, Holds sc r = Ok b.
Proof. intros W. destruct (holds_spec sc r W) as (b & H & _). eauto. Qed.

(* ================================================================== *)
(* 12. Contains                                                        *)
(* ================================================================== *)

Lemma scan_repo_some e1 r a rest :
  contains_scan_repo e1 r a = Some rest ->
  exists pre a1, e1 = pre ++ (r, a1) :: rest /\ Forall (fun e => blt (fst e) r) pre /\ N.land a1 a = a.
Proof.
  induction e1 as [|[r1 a1] e1 IH]; cbn; [discriminate|].
  destruct (bcmp r1 r) eqn:E.
  - apply bcmp_eq in E. subst r1. destruct (N.eqb_spec (N.land a1 a) a); cbn; [|discriminate].
    intros H. injection H as <-. exists [], a1. repeat split; auto.
  - intros H. destruct (IH H) as (pre & a1' & -> & Hf & Hl). exists ((r1, a1) :: pre), a1'.
    repeat split; auto.
  - discriminate.
Qed.

Lemma scan_repo_none e1 r a :
  StronglySorted key_lt e1 -> contains_scan_repo e1 r a = None ->
  forall a1, In (r, a1) e1 -> N.land a1 a <> a.
Proof.
  induction 1 as [|[r1 a1] e1 Hs IH Hf]; cbn; [tauto|]. rewrite Forall_forall in Hf.
  destruct (bcmp r1 r) eqn:E.
  - apply bcmp_eq in E. subst r1. destruct (N.eqb_spec (N.land a1 a) a); cbn; [discriminate|].
    intros _ a1' [H|H]; [congruence|]. apply Hf in H. now apply blt_irrefl in H.
  - intros Hn a1' [H|H]; [|now apply IH]. injection H as -> ->. rewrite bcmp_refl in E. discriminate.
  - apply bcmp_gt_lt in E. intros _ a1' [H|H].
    + injection H as -> ->. now apply blt_irrefl in E.
    + apply Hf in H. unfold key_lt in H. cbn in H. exfalso. apply (blt_irrefl r). eapply blt_trans; eauto.
Qed.

Definition covers (e1 e2 : list (bytes * N)) : Prop :=
  forall r a, In (r, a) e2 -> exists a1, In (r, a1) e1 /\ N.land a1 a = a.

Lemma contains_repos_spec e2 : forall e1,
  StronglySorted key_lt e1 -> StronglySorted key_lt e2 ->
  (contains_repos e1 e2 = true <-> covers e1 e2).
Proof.
  induction e2 as [|[r2 a2] t2 IH]; intros e1 H1 H2; cbn [contains_repos].
  - split; auto. intros _ r a [].
  - inversion H2 as [|? ? H2' Hf2]; subst. rewrite Forall_forall in Hf2.
    destruct (contains_scan_repo e1 r2 a2) as [rest1|] eqn:Es.
    + destruct (scan_repo_some _ _ _ _ Es) as (pre & a1 & -> & Hpre & Hl).
      assert (H1' := H1). apply ssorted_app in H1' as (Hp & Hrest & Hcross).
      inversion Hrest as [|? ? Hrest' Hfr]; subst. rewrite IH by auto. split.
      * intros Hc r a [E|Hi].
        -- injection E as <- <-. exists a1. split; auto. apply in_or_app. right. now left.
        -- destruct (Hc r a Hi) as (a1' & Hi' & Hl'). exists a1'. split; auto.
           apply in_or_app. right. now right.
      * intros Hc r a Hi. destruct (Hc r a (or_intror Hi)) as (a1' & Hi' & Hl'). exists a1'. split; auto.
        apply Hf2 in Hi. unfold key_lt in Hi. cbn [fst] in Hi.
        apply in_app_or in Hi' as [Hi'|[E|Hi']]; auto.
        -- rewrite Forall_forall in Hpre. apply Hpre in Hi'. cbn [fst] in Hi'. exfalso.
           apply (blt_irrefl r). eapply blt_trans; eauto.
        -- injection E as -> _. now apply blt_irrefl in Hi.
    + split; [discriminate|]. intros Hc. destruct (Hc r2 a2 (or_introl eq_refl)) as (a1 & Hi & Hl).
      exfalso. exact (scan_repo_none e1 r2 a2 H1 Es a1 Hi Hl).
Qed.

Lemma scan_other_some o1 r rest :
  contains_scan_other o1 r = Some rest ->
  exists pre, o1 = pre ++ r :: rest /\ Forall (fun e => rs_lt e r) pre.
Proof.
  induction o1 as [|x o1 IH]; cbn; [discriminate|].
  destruct (rs_cmp x r) eqn:E.
  - apply (tc_eq _ rs_cmp_total) in E. subst x. intros H. injection H as <-. exists []. split; auto.
  - intros H. destruct (IH H) as (pre & -> & Hf). exists (x :: pre). split; auto.
  - discriminate.
Qed.

Lemma scan_other_none o1 r :
  StronglySorted rs_lt o1 -> contains_scan_other o1 r = None -> ~ In r o1.
Proof.
  induction 1 as [|x o1 Hs IH Hf]; cbn; [tauto|]. rewrite Forall_forall in Hf.
  destruct (rs_cmp x r) eqn:E; [discriminate| |].
  - intros Hn [H|H]; [|now apply IH]. subst x. rewrite (cmp_refl _ rs_cmp_total) in E. discriminate.
  - apply (cmp_gt_lt _ rs_cmp_total) in E. intros _ [H|H].
    + subst x. now apply rs_lt_irrefl in E.
    + apply Hf in H. apply (rs_lt_irrefl r). eapply rs_lt_trans; eauto.
Qed.

Lemma contains_others_spec o2 : forall o1,
  StronglySorted rs_lt o1 -> StronglySorted rs_lt o2 ->
  (contains_others o1 o2 = true <-> incl o2 o1).
Proof.
  induction o2 as [|r2 t2 IH]; intros o1 H1 H2; cbn [contains_others].
  - split; auto. intros _ r [].
  - inversion H2 as [|? ? H2' Hf2]; subst. rewrite Forall_forall in Hf2.
    destruct (contains_scan_other o1 r2) as [rest1|] eqn:Es.
    + destruct (scan_other_some _ _ _ Es) as (pre & -> & Hpre).
      assert (H1' := H1). apply ssorted_app in H1' as (Hp & Hrest & Hcross).
      inversion Hrest as [|? ? Hrest' Hfr]; subst. rewrite IH by auto. split.
      * intros Hc r [<-|Hi]; apply in_or_app; right; [now left | right; now apply Hc].
      * intros Hc r Hi. pose proof (Hc r (or_intror Hi)) as Hi'. apply Hf2 in Hi.
        apply in_app_or in Hi' as [Hi'|[E|Hi']]; auto.
        -- rewrite Forall_forall in Hpre. apply Hpre in Hi'. exfalso.
           apply (rs_lt_irrefl r). eapply rs_lt_trans; eauto.
        -- subst r. now apply rs_lt_irrefl in Hi.
    + split; [discriminate|]. intros Hc. exfalso. apply (scan_other_none o1 r2 H1 Es). apply Hc. now left.
Qed.

(* a known scope with a given key and bit *)
Definition mk_known (k : bytes) (b : N) : rscope :=
  if beqb k [] then CatalogScope else RS TypeRepository k (known_action_string b).

Lemma mk_known_facts k b :
  (k = [] -> b = 1) -> (b = 1 \/ b = 2) ->
  is_known (mk_known k b) = true /\ kkey (mk_known k b) = k /\ kbit (mk_known k b) = b.
Proof.
  intros H0 Hb. unfold mk_known. destruct (beqb k []) eqn:E.
  - apply beqb_eq in E. subst k. rewrite (H0 eq_refl). repeat split.
  - apply beqb_neq in E. split; [|split].
    + apply is_known_cases. right. cbn. repeat split; auto. destruct Hb as [-> | ->]; auto.
    + reflexivity.
    + destruct Hb as [-> | ->]; reflexivity.
Qed.

Lemma mask_has_bit k m : mask_ok (k, m) -> exists b, (k = [] -> b = 1) /\ (b = 1 \/ b = 2) /\ N.testbit m b = true.
Proof.
  cbn. destruct (beqb k []) eqn:E.
  - intros ->. exists 1. auto.
  - apply beqb_neq in E. intros [->|[->| ->]]; [exists 1 | exists 2 | exists 1]; repeat split; auto; intros; contradiction.
Qed.

Lemma mask_sub a1 a :
  (a = 2 \/ a = 4 \/ a = 6) -> (a1 = 2 \/ a1 = 4 \/ a1 = 6) ->
  (forall b, (b = 1 \/ b = 2) -> N.testbit a b = true -> N.testbit a1 b = true) -> N.land a1 a = a.
Proof.
  intros [->|[->| ->]] [->|[->| ->]] H; try reflexivity; exfalso.
  - specialize (H 1 (or_introl eq_refl) eq_refl). discriminate.
  - specialize (H 2 (or_intror eq_refl) eq_refl). discriminate.
  - specialize (H 2 (or_intror eq_refl) eq_refl). discriminate.
  - specialize (H 1 (or_introl eq_refl) eq_refl). discriminate.
Qed.

Lemma mask_eq_bits a1 a :
  (a = 2 \/ a = 4 \/ a = 6) -> (a1 = 2 \/ a1 = 4 \/ a1 = 6) ->
  (forall b, (b = 1 \/ b = 2) -> N.testbit a b = N.testbit a1 b) -> a1 = a.
Proof.
  intros [->|[->| ->]] [->|[->| ->]] H; try reflexivity; exfalso;
    (pose proof (H 1 (or_introl eq_refl)) as H1; pose proof (H 2 (or_intror eq_refl)) as H2;
     cbn in H1, H2; congruence).
Qed.

(* covering of entries = inclusion of what they stand for *)
Lemma covers_incl e1 e2 :
  wf_entries e1 -> wf_entries e2 -> (covers e1 e2 <-> incl (known_list e2) (known_list e1)).
Proof.
  intros [S1 M1] [S2 M2]. split.
  - intros Hc v Hv. apply in_known_list in Hv as (Hk & m & Hm & Hb); auto.
    apply in_known_list; auto. split; auto. destruct (Hc _ _ Hm) as (a1 & Hi & Hl).
    exists a1. split; auto. rewrite <- Hl, N.land_spec in Hb. now apply andb_true_iff in Hb as [? _].
  - intros Hi r a Ha.
    assert (Hget : forall b, (r = [] -> b = 1) -> (b = 1 \/ b = 2) -> N.testbit a b = true ->
                     exists a1, In (r, a1) e1 /\ N.testbit a1 b = true).
    { intros b H0 Hb Ht. destruct (mk_known_facts r b H0 Hb) as (K1 & K2 & K3).
      assert (Hv : In (mk_known r b) (known_list e2)).
      { apply in_known_list; auto. split; auto. exists a. now rewrite K2, K3. }
      apply Hi, in_known_list in Hv as (_ & a1 & Ha1 & Ht1); auto. rewrite K2, K3 in *. eauto. }
    rewrite Forall_forall in M1, M2. pose proof (M2 _ Ha) as Hma.
    destruct (mask_has_bit _ _ Hma) as (b0 & B0 & B1 & B2).
    destruct (Hget b0 B0 B1 B2) as (a1 & Ha1 & _). exists a1. split; auto.
    pose proof (M1 _ Ha1) as Hma1. cbn [mask_ok] in Hma, Hma1. destruct (beqb r []) eqn:Er.
    + subst. reflexivity.
    + apply beqb_neq in Er. apply mask_sub; auto. intros b Hb Ht.
      destruct (Hget b ltac:(intros; contradiction) Hb Ht) as (a1' & Ha1' & Ht').
      now rewrite (key_sorted_functional _ _ _ _ S1 Ha1 Ha1').
Qed.

Lemma incl_split sc1 sc2 :
  wf sc1 -> wf sc2 -> unlimited sc1 = false -> unlimited sc2 = false ->
  (incl (abs sc2) (abs sc1) <->
   incl (known_list (entries sc2)) (known_list (entries sc1)) /\ incl (others sc2) (others sc1)).
Proof.
  intros W1 W2 U1 U2. split.
  - intros Hi. split; intros v Hv.
    + assert (Hk : is_known v = true) by (eapply known_list_known; [apply (wf_masks _ W2) | eauto]).
      assert (Ha : In v (abs sc1)) by (apply Hi, abs_In; auto).
      apply abs_In in Ha as (_ & [Ha|Ha]); auto. exfalso.
      pose proof (wf_unknown _ W1) as Hf. rewrite Forall_forall in Hf. apply Hf in Ha. congruence.
    + pose proof (wf_unknown _ W2) as Hf. rewrite Forall_forall in Hf. pose proof (Hf _ Hv) as Hk.
      assert (Ha : In v (abs sc1)) by (apply Hi, abs_In; auto).
      now apply unknown_in_abs in Ha.
  - intros [Hk Ho] v Hv. apply abs_In in Hv as (_ & [Hv|Hv]); apply abs_In; auto.
Qed.

Lemma contains_spec sc1 sc2 :
  wf sc1 -> wf sc2 ->
  (Contains sc1 sc2 = true <-> unlimited sc1 = true \/ (unlimited sc2 = false /\ incl (abs sc2) (abs sc1))).
Proof.
  intros W1 W2. unfold Contains, IsUnlimited. destruct (unlimited sc1) eqn:U1; [tauto|].
  destruct (unlimited sc2) eqn:U2.
  - split; [discriminate|]. intros [H|[H _]]; discriminate.
  - destruct (wf_entries_of_wf _ W1) as [S1 M1]. destruct (wf_entries_of_wf _ W2) as [S2 M2].
    rewrite andb_true_iff, contains_repos_spec, contains_others_spec, covers_incl, incl_split;
      auto using (wf_others _ W1), (wf_others _ W2); try (split; assumption).
    split; [auto | intros [H|[_ H]]; [discriminate | auto]].
Qed.

(* ================================================================== *)
(* 13. Equal                                                           *)
(* ================================================================== *)

Lemma Equal_same a b : Equal a b = true <-> same_fields a b.
Proof.
  unfold Equal, same_fields. rewrite !andb_true_iff, Bool.eqb_true_iff.
  rewrite (list_eqb_eq beqb beqb_eq), (list_eqb_eq N.eqb N.eqb_eq), (list_eqb_eq rs_eqb rs_eqb_eq). tauto.
Qed.

Lemma same_fields_refl a : same_fields a a.
Proof. repeat split. Qed.

Lemma same_fields_sym a b : same_fields a b -> same_fields b a.
Proof. intros (H1 & H2 & H3 & H4). repeat split; auto. Qed.

Lemma same_fields_trans a b c : same_fields a b -> same_fields b c -> same_fields a c.
Proof. intros (H1 & H2 & H3 & H4) (G1 & G2 & G3 & G4). repeat split; congruence. Qed.

Lemma entries_unique e1 e2 :
  wf_entries e1 -> wf_entries e2 ->
  (forall v, In v (known_list e1) <-> In v (known_list e2)) -> e1 = e2.
Proof.
  intros W1 W2 Hi.
  assert (Hdir : forall e1 e2, wf_entries e1 -> wf_entries e2 ->
            (forall v, In v (known_list e1) <-> In v (known_list e2)) -> forall e, In e e1 -> In e e2).
  { clear. intros e1 e2 [S1 M1] [S2 M2] Hi [k m] He.
    assert (Hbit : forall ea eb, Forall mask_ok ea -> Forall mask_ok eb -> incl (known_list ea) (known_list eb) ->
              forall k m b, In (k, m) ea -> (k = [] -> b = 1) -> (b = 1 \/ b = 2) -> N.testbit m b = true ->
              exists m', In (k, m') eb /\ N.testbit m' b = true).
    { clear. intros ea eb Ma Mb Hinc k m b He H0 Hb Ht. destruct (mk_known_facts k b H0 Hb) as (K1 & K2 & K3).
      assert (Hv : In (mk_known k b) (known_list ea)).
      { apply in_known_list; auto. split; auto. exists m. now rewrite K2, K3. }
      apply Hinc, in_known_list in Hv as (_ & m' & Hm' & Ht'); auto. rewrite K2, K3 in *. eauto. }
    assert (I12 : incl (known_list e1) (known_list e2)) by (intros v; apply Hi).
    assert (I21 : incl (known_list e2) (known_list e1)) by (intros v; apply Hi).
    pose proof M1 as M1'. pose proof M2 as M2'. rewrite Forall_forall in M1', M2'.
    pose proof (M1' _ He) as Hm. destruct (mask_has_bit _ _ Hm) as (b0 & B0 & B1 & B2).
    destruct (Hbit e1 e2 M1 M2 I12 k m b0 He B0 B1 B2) as (m' & He' & _).
    assert (m' = m) as ->; auto.
    pose proof (M2' _ He') as Hm'. cbn [mask_ok] in Hm, Hm'. destruct (beqb k []) eqn:Ek; [congruence|].
    apply beqb_neq in Ek. apply mask_eq_bits; auto. intros b Hb.
    destruct (N.testbit m b) eqn:T1.
    - destruct (Hbit e1 e2 M1 M2 I12 k m b He ltac:(intros; contradiction) Hb T1) as (m2 & Hm2 & T2).
      now rewrite (key_sorted_functional _ _ _ _ S2 He' Hm2).
    - destruct (N.testbit m' b) eqn:T2; auto.
      destruct (Hbit e2 e1 M2 M1 I21 k m' b He' ltac:(intros; contradiction) Hb T2) as (m1 & Hm1 & T1').
      rewrite (key_sorted_functional _ _ _ _ S1 He Hm1) in T1. congruence. }
  apply (ssorted_unique_gen key_lt key_lt_irrefl key_lt_trans); try apply W1; try apply W2.
  intros e. split; apply Hdir; auto. intros v. symmetry. apply Hi.
Qed.

Lemma wf_unlimited : wf UnlimitedScope.
Proof.
  split; cbn; try constructor; auto. congruence.
Qed.

Lemma equal_spec sc1 sc2 :
  wf sc1 -> wf sc2 ->
  (Equal sc1 sc2 = true <-> unlimited sc1 = unlimited sc2 /\ abs sc1 = abs sc2).
Proof.
  intros W1 W2. rewrite Equal_same. split.
  - intros H. split; [apply H | now apply abs_same].
  - intros [Hu Ha]. destruct (unlimited sc1) eqn:U1; symmetry in Hu.
    + rewrite (wf_unl _ W1 U1), (wf_unl _ W2 Hu). apply same_fields_refl.
    + assert (He : entries sc1 = entries sc2).
      { apply entries_unique; auto using wf_entries_of_wf. intros v.
        assert (Hx : forall sc, wf sc -> unlimited sc = false ->
                  (In v (known_list (entries sc)) <-> In v (abs sc) /\ is_known v = true)).
        { intros sc W U. rewrite abs_In. split.
          - intros H. repeat split; auto. eapply known_list_known; [apply (wf_masks _ W) | eauto].
          - intros [(_ & [H|H]) Hk]; auto. pose proof (wf_unknown _ W) as Hf. rewrite Forall_forall in Hf.
            apply Hf in H. congruence. }
        rewrite (Hx sc1), (Hx sc2), Ha by auto. tauto. }
      assert (Ho : others sc1 = others sc2).
      { apply rs_sorted_unique; try apply (wf_others _ W1); try apply (wf_others _ W2). intros v.
        assert (Hx : forall sc, wf sc -> unlimited sc = false ->
                  (In v (others sc) <-> In v (abs sc) /\ is_known v = false)).
        { intros sc W U. split.
          - intros H. split; [apply abs_In; auto|]. pose proof (wf_unknown _ W) as Hf.
            rewrite Forall_forall in Hf. now apply Hf.
          - intros [H Hk]. now apply unknown_in_abs in H. }
        rewrite (Hx sc1), (Hx sc2), Ha by auto. tauto. }
      repeat split; auto; try congruence.
      * now rewrite <- (entries_fst sc1 W1), <- (entries_fst sc2 W2), He.
      * now rewrite <- (entries_snd sc1 W1), <- (entries_snd sc2 W2), He.
Qed.

(* the same, with sets as membership *)
Lemma equal_spec_in sc1 sc2 :
  wf sc1 -> wf sc2 ->
  (Equal sc1 sc2 = true <-> unlimited sc1 = unlimited sc2 /\ forall v, In v (abs sc1) <-> In v (abs sc2)).
Proof.
  intros W1 W2. rewrite equal_spec by auto. split; intros [Hu Ha]; split; auto.
  - intros v. now rewrite Ha.
  - apply rs_sorted_unique; auto using abs_sorted.
Qed.

(* ================================================================== *)
(* 14. Union                                                           *)
(* ================================================================== *)

Lemma union_repos_nil_l e2 : union_repos [] e2 = e2.
Proof. destruct e2; reflexivity. Qed.

Lemma union_repos_nil_r e1 : union_repos e1 [] = e1.
Proof. destruct e1 as [|[r a] t]; reflexivity. Qed.

Lemma union_repos_cons r1 a1 t1 r2 a2 t2 :
  union_repos ((r1, a1) :: t1) ((r2, a2) :: t2) =
    match bcmp r1 r2 with
    | Eq => (r1, N.lor a1 a2) :: union_repos t1 t2
    | Lt => (r1, a1) :: union_repos t1 ((r2, a2) :: t2)
    | Gt => (r2, a2) :: union_repos ((r1, a1) :: t1) t2
    end.
Proof. reflexivity. Qed.

Lemma union_others_nil_l o2 : union_others [] o2 = o2.
Proof. destruct o2; reflexivity. Qed.

Lemma union_others_nil_r o1 : union_others o1 [] = o1.
Proof. destruct o1; reflexivity. Qed.

Lemma union_others_cons a1 t1 a2 t2 :
  union_others (a1 :: t1) (a2 :: t2) =
    match rs_cmp a1 a2 with
    | Eq => a1 :: union_others t1 t2
    | Lt => a1 :: union_others t1 (a2 :: t2)
    | Gt => a2 :: union_others (a1 :: t1) t2
    end.
Proof. reflexivity. Qed.

Definition lbk (k : bytes) (es : list (bytes * N)) : Prop := Forall (fun e => blt k (fst e)) es.

Lemma lbk_weaken k k' es : blt k k' -> lbk k' es -> lbk k es.
Proof.
  intros Hl H. unfold lbk in *. rewrite Forall_forall in *. intros e He. eapply blt_trans; eauto.
Qed.

Lemma mask_lor_ok k a1 a2 : mask_ok (k, a1) -> mask_ok (k, a2) -> mask_ok (k, N.lor a1 a2).
Proof.
  cbn. destruct (beqb k []).
  - intros -> ->. reflexivity.
  - intros [->|[->| ->]] [->|[->| ->]]; cbn; auto.
Qed.

Lemma expand_lor k a1 a2 v :
  mask_ok (k, a1) -> mask_ok (k, a2) ->
  (In v (expand (k, N.lor a1 a2)) <-> In v (expand (k, a1)) \/ In v (expand (k, a2))).
Proof.
  intros M1 M2. rewrite !in_expand by auto using mask_lor_ok. rewrite N.lor_spec, orb_true_iff. tauto.
Qed.

Lemma union_repos_spec e1 : forall e2,
  wf_entries e1 -> wf_entries e2 ->
  wf_entries (union_repos e1 e2) /\
  (forall k, lbk k e1 -> lbk k e2 -> lbk k (union_repos e1 e2)) /\
  (forall v, In v (known_list (union_repos e1 e2)) <-> In v (known_list e1) \/ In v (known_list e2)).
Proof.
  induction e1 as [|[r1 a1] t1 IH1].
  - intros e2 _ W2. rewrite union_repos_nil_l. split; [exact W2|]. split; [auto|]. intros v. cbn. tauto.
  - induction e2 as [|[r2 a2] t2 IH2]; intros W1 W2.
    + rewrite union_repos_nil_r. split; [exact W1|]. split; [auto|]. intros v. cbn. tauto.
    + rewrite union_repos_cons.
      destruct W1 as [S1 M1], W2 as [S2 M2].
      inversion S1 as [|? ? S1' F1]; subst. inversion M1 as [|? ? Ma1 M1']; subst.
      inversion S2 as [|? ? S2' F2]; subst. inversion M2 as [|? ? Ma2 M2']; subst.
      fold (lbk r1 t1) in F1. fold (lbk r2 t2) in F2.
      destruct (bcmp r1 r2) eqn:E.
      * apply bcmp_eq in E. subst r2.
        destruct (IH1 t2 (conj S1' M1') (conj S2' M2')) as ((Su & Mu) & Lu & Iu).
        repeat split.
        -- constructor; auto. apply Lu; auto.
        -- constructor; auto using mask_lor_ok.
        -- intros k L1 L2. inversion L1; subst. inversion L2; subst. constructor; auto. apply Lu; auto.
        -- rewrite !known_list_cons, !in_app_iff, Iu, expand_lor by auto. tauto.
        -- rewrite !known_list_cons, !in_app_iff, Iu, expand_lor by auto. tauto.
      * destruct (IH1 ((r2, a2) :: t2) (conj S1' M1') (conj S2 M2)) as ((Su & Mu) & Lu & Iu).
        repeat split.
        -- constructor; auto. apply Lu; auto. constructor; auto. eapply lbk_weaken; eauto.
        -- constructor; auto.
        -- intros k L1 L2. inversion L1; subst. constructor; auto. apply Lu; auto.
        -- rewrite !known_list_cons, !in_app_iff, Iu, !known_list_cons, !in_app_iff. tauto.
        -- rewrite !known_list_cons, !in_app_iff, Iu, !known_list_cons, !in_app_iff. tauto.
      * apply bcmp_gt_lt in E.
        destruct (IH2 (conj S1 M1) (conj S2' M2')) as ((Su & Mu) & Lu & Iu).
        repeat split.
        -- constructor; auto. apply Lu; auto. constructor; auto. eapply lbk_weaken; eauto.
        -- constructor; auto.
        -- intros k L1 L2. inversion L2; subst. constructor; auto. apply Lu; auto.
        -- rewrite !known_list_cons, !in_app_iff, Iu, !known_list_cons, !in_app_iff. tauto.
        -- rewrite !known_list_cons, !in_app_iff, Iu, !known_list_cons, !in_app_iff. tauto.
Qed.

Definition lbr (k : rscope) (l : list rscope) : Prop := Forall (rs_lt k) l.

Lemma lbr_weaken k k' l : rs_lt k k' -> lbr k' l -> lbr k l.
Proof.
  intros Hl H. unfold lbr in *. rewrite Forall_forall in *. intros e He. eapply rs_lt_trans; eauto.
Qed.

Lemma union_others_spec o1 : forall o2,
  StronglySorted rs_lt o1 -> StronglySorted rs_lt o2 ->
  StronglySorted rs_lt (union_others o1 o2) /\
  (forall k, lbr k o1 -> lbr k o2 -> lbr k (union_others o1 o2)) /\
  (forall v, In v (union_others o1 o2) <-> In v o1 \/ In v o2).
Proof.
  induction o1 as [|a1 t1 IH1].
  - intros o2 _ S2. rewrite union_others_nil_l. split; [exact S2|]. split; [auto|]. intros v. cbn. tauto.
  - induction o2 as [|a2 t2 IH2]; intros S1 S2.
    + rewrite union_others_nil_r. split; [exact S1|]. split; [auto|]. intros v. cbn. tauto.
    + rewrite union_others_cons.
      inversion S1 as [|? ? S1' F1]; subst. inversion S2 as [|? ? S2' F2]; subst.
      fold (lbr a1 t1) in F1. fold (lbr a2 t2) in F2.
      destruct (rs_cmp a1 a2) eqn:E.
      * apply (tc_eq _ rs_cmp_total) in E. subst a2.
        destruct (IH1 t2 S1' S2') as (Su & Lu & Iu). repeat split.
        -- constructor; auto. apply Lu; auto.
        -- intros k L1 L2. inversion L1; subst. constructor; auto. apply Lu; auto. now inversion L2.
        -- cbn [In]. rewrite Iu. tauto.
        -- cbn [In]. rewrite Iu. tauto.
      * destruct (IH1 (a2 :: t2) S1' S2) as (Su & Lu & Iu). repeat split.
        -- constructor; auto. apply Lu; auto. constructor; auto. eapply lbr_weaken; eauto.
        -- intros k L1 L2. inversion L1; subst. constructor; auto. apply Lu; auto.
        -- cbn [In]. rewrite Iu. cbn [In]. tauto.
        -- cbn [In]. rewrite Iu. cbn [In]. tauto.
      * apply (cmp_gt_lt _ rs_cmp_total) in E.
        destruct (IH2 S1 S2') as (Su & Lu & Iu). repeat split.
        -- constructor; auto. apply Lu; auto. constructor; auto. eapply lbr_weaken; eauto.
        -- intros k L1 L2. inversion L2; subst. constructor; auto. apply Lu; auto.
        -- cbn [In]. rewrite Iu. cbn [In]. tauto.
        -- cbn [In]. rewrite Iu. cbn [In]. tauto.
Qed.

Lemma union_repos_skip pre : forall e1 r2 a2 t2,
  Forall (fun e => blt (fst e) r2) pre ->
  union_repos (pre ++ e1) ((r2, a2) :: t2) = pre ++ union_repos e1 ((r2, a2) :: t2).
Proof.
  induction pre as [|[r a] pre IH]; intros e1 r2 a2 t2 Hf; [reflexivity|].
  inversion Hf as [|? ? Hr Hf']; subst. cbn [fst] in Hr. cbn [app]. rewrite union_repos_cons.
  unfold blt in Hr. rewrite Hr. f_equal. now apply IH.
Qed.

Lemma lor_absorb a1 a2 : N.land a1 a2 = a2 -> N.lor a1 a2 = a1.
Proof.
  intros H. apply N.bits_inj. intros n. rewrite N.lor_spec, <- H, N.land_spec.
  destruct (N.testbit a1 n), (N.testbit a2 n); reflexivity.
Qed.

Lemma contains_union_repos e2 : forall e1, contains_repos e1 e2 = true -> union_repos e1 e2 = e1.
Proof.
  induction e2 as [|[r2 a2] t2 IH]; intros e1; [intros _; apply union_repos_nil_r|].
  cbn [contains_repos]. destruct (contains_scan_repo e1 r2 a2) as [rest1|] eqn:Es; [|discriminate].
  intros Hc. destruct (scan_repo_some _ _ _ _ Es) as (pre & a1 & -> & Hpre & Hl).
  rewrite union_repos_skip by auto. rewrite union_repos_cons, bcmp_refl, (lor_absorb _ _ Hl), (IH _ Hc).
  reflexivity.
Qed.

Lemma union_others_skip pre : forall o1 a2 t2,
  Forall (fun e => rs_lt e a2) pre ->
  union_others (pre ++ o1) (a2 :: t2) = pre ++ union_others o1 (a2 :: t2).
Proof.
  induction pre as [|a pre IH]; intros o1 a2 t2 Hf; [reflexivity|].
  inversion Hf as [|? ? Hr Hf']; subst. cbn [app]. rewrite union_others_cons.
  unfold rs_lt in Hr. rewrite Hr. f_equal. now apply IH.
Qed.

Lemma contains_union_others o2 : forall o1, contains_others o1 o2 = true -> union_others o1 o2 = o1.
Proof.
  induction o2 as [|a2 t2 IH]; intros o1; [intros _; apply union_others_nil_r|].
  cbn [contains_others]. destruct (contains_scan_other o1 a2) as [rest1|] eqn:Es; [|discriminate].
  intros Hc. destruct (scan_other_some _ _ _ Es) as (pre & -> & Hpre).
  rewrite union_others_skip by auto. rewrite union_others_cons, (cmp_refl _ rs_cmp_total), (IH _ Hc).
  reflexivity.
Qed.

(* the scope built by the merge loops of Union *)
Definition union_raw (s1 s2 : scope) : scope :=
  let e := union_repos (entries s1) (entries s2) in
  {| original := []; unlimited := false; repositories := map fst e; actions := map snd e;
     others := union_others (others s1) (others s2) |}.

Lemma entries_union_raw s1 s2 : entries (union_raw s1 s2) = union_repos (entries s1) (entries s2).
Proof. unfold union_raw, entries at 1. cbn [repositories actions]. apply combine_fst_snd. Qed.

Lemma Union_unfold s1 s2 :
  Union s1 s2 =
    if IsUnlimited s1 || IsUnlimited s2 then UnlimitedScope
    else if IsEmpty s2 || Equal s1 s2 then s1
    else if Equal (union_raw s1 s2) s1 then s1 else union_raw s1 s2.
Proof. reflexivity. Qed.

(* A union that adds nothing returns its receiver: the very same value, text included. *)
Lemma union_noop s1 s2 : wf s1 -> Contains s1 s2 = true -> Union s1 s2 = s1.
Proof.
  intros W1 Hc. rewrite Union_unfold. unfold IsUnlimited. destruct (unlimited s1) eqn:U1.
  { cbn. symmetry. now apply (wf_unl _ W1). }
  unfold Contains, IsUnlimited in Hc. rewrite U1 in Hc. destruct (unlimited s2) eqn:U2; [discriminate|].
  cbn [orb]. destruct (IsEmpty s2 || Equal s1 s2); auto.
  apply andb_true_iff in Hc as [Hc1 Hc2].
  assert (E : Equal (union_raw s1 s2) s1 = true).
  { apply Equal_same. unfold union_raw. rewrite (contains_union_repos _ _ Hc1), (contains_union_others _ _ Hc2).
    repeat split; cbn; auto using entries_fst, entries_snd. }
  now rewrite E.
Qed.

Lemma wf_union_raw s1 s2 :
  wf s1 -> wf s2 ->
  wf (union_raw s1 s2) /\
  forall v, In v (abs (union_raw s1 s2)) <->
            In v (known_list (entries s1)) \/ In v (others s1) \/ In v (known_list (entries s2)) \/ In v (others s2).
Proof.
  intros W1 W2.
  destruct (union_repos_spec (entries s1) (entries s2) (wf_entries_of_wf _ W1) (wf_entries_of_wf _ W2))
    as ((Su & Mu) & _ & Iu).
  destruct (union_others_spec (others s1) (others s2) (wf_others _ W1) (wf_others _ W2)) as (So & _ & Io).
  assert (W : wf (union_raw s1 s2)).
  { split; unfold union_raw, entries; cbn [original unlimited repositories actions others].
    - now rewrite !map_length.
    - now apply key_sorted_fst.
    - now rewrite combine_fst_snd.
    - exact So.
    - apply Forall_forall. intros v Hv. apply Io in Hv.
      pose proof (wf_unknown _ W1) as F1. pose proof (wf_unknown _ W2) as F2. rewrite Forall_forall in F1, F2.
      destruct Hv; auto.
    - discriminate.
    - congruence. }
  split; auto. intros v. rewrite abs_In, entries_union_raw, Iu.
  change (others (union_raw s1 s2)) with (union_others (others s1) (others s2)). rewrite Io.
  change (unlimited (union_raw s1 s2)) with false. tauto.
Qed.

Lemma empty_abs sc : wf sc -> IsEmpty sc = true -> abs sc = [].
Proof.
  intros W H. unfold IsEmpty in H. apply andb_true_iff in H as [H Hu]. apply andb_true_iff in H as [Hr Ho].
  apply Nat.eqb_eq in Hr, Ho. apply negb_true_iff in Hu. apply length_zero_iff_nil in Hr, Ho.
  unfold abs, entries. rewrite Hu, Hr, Ho. reflexivity.
Qed.

Lemma union_spec s1 s2 :
  wf s1 -> wf s2 ->
  wf (Union s1 s2) /\
  unlimited (Union s1 s2) = unlimited s1 || unlimited s2 /\
  (unlimited s1 = false -> unlimited s2 = false ->
   forall v, In v (abs (Union s1 s2)) <-> In v (abs s1) \/ In v (abs s2)).
Proof.
  intros W1 W2. rewrite Union_unfold. unfold IsUnlimited.
  destruct (unlimited s1) eqn:U1.
  { cbn. split; [apply wf_unlimited|]. split; [reflexivity|]. intros H; discriminate. }
  destruct (unlimited s2) eqn:U2.
  { cbn. split; [apply wf_unlimited|]. split; [reflexivity|]. intros _ H; discriminate. }
  cbn [orb]. destruct (IsEmpty s2) eqn:Ee; cbn [orb].
  { split; [auto|]. split; [auto|]. intros _ _ v. rewrite (empty_abs s2 W2 Ee). cbn. tauto. }
  destruct (Equal s1 s2) eqn:E12.
  { apply Equal_same in E12. split; [auto|]. split; [auto|]. intros _ _ v. rewrite <- (abs_same _ _ E12). tauto. }
  destruct (wf_union_raw s1 s2 W1 W2) as [Wr Ir].
  assert (Hr : forall v, In v (abs (union_raw s1 s2)) <-> In v (abs s1) \/ In v (abs s2)).
  { intros v. rewrite Ir, !abs_In, U1, U2. tauto. }
  destruct (Equal (union_raw s1 s2) s1) eqn:Er.
  - apply Equal_same in Er. split; [auto|]. split; [auto|]. intros _ _ v. specialize (Hr v). rewrite (abs_same _ _ Er) in Hr. exact Hr.
  - split; [auto|]. split; [reflexivity|]. intros _ _. exact Hr.
Qed.

(* ================================================================== *)
(* 15. Order-theoretic consequences                                    *)
(* ================================================================== *)

Lemma contains_refl sc : wf sc -> Contains sc sc = true.
Proof.
  intros W. apply contains_spec; auto. destruct (unlimited sc); auto. right. split; auto. apply incl_refl.
Qed.

Lemma contains_trans a b c :
  wf a -> wf b -> wf c -> Contains a b = true -> Contains b c = true -> Contains a c = true.
Proof.
  intros Wa Wb Wc H1 H2. apply contains_spec in H1, H2; auto. apply contains_spec; auto.
  destruct H1 as [H1|[U1 I1]]; auto. destruct H2 as [H2|[U2 I2]]; [congruence|].
  right. split; auto. eapply incl_tran; eauto.
Qed.

Lemma contains_union_l a b : wf a -> wf b -> Contains (Union a b) a = true.
Proof.
  intros Wa Wb. destruct (union_spec a b Wa Wb) as (Wu & Uu & Iu). apply contains_spec; auto.
  destruct (unlimited a) eqn:Ua; [left; now rewrite Uu|].
  destruct (unlimited b) eqn:Ub; [left; now rewrite Uu|].
  right. split; auto. intros v Hv. apply Iu; auto.
Qed.

Lemma contains_union_r a b : wf a -> wf b -> Contains (Union a b) b = true.
Proof.
  intros Wa Wb. destruct (union_spec a b Wa Wb) as (Wu & Uu & Iu). apply contains_spec; auto.
  destruct (unlimited a) eqn:Ua; [left; now rewrite Uu|].
  destruct (unlimited b) eqn:Ub; [left; now rewrite Uu|].
  right. split; auto. intros v Hv. apply Iu; auto.
Qed.

(* Contains, Holds, Len, Iter read the representation only, never the text *)
Lemma contains_same a a' b b' : same_fields a a' -> same_fields b b' -> Contains a b = Contains a' b'.
Proof.
  intros (A1 & A2 & A3 & A4) (B1 & B2 & B3 & B4). unfold Contains, IsUnlimited, entries.
  now rewrite A1, A2, A3, A4, B1, B2, B3, B4.
Qed.

Lemma holds_same a a' r : same_fields a a' -> Holds a r = Holds a' r.
Proof.
  intros (A1 & A2 & A3 & A4). unfold Holds, IsUnlimited. now rewrite A1, A2, A3, A4.
Qed.
