(* C01 through HTTP hops (Model/IntegrityStack.v):

     hop_blob / hop_range / hop_manifest   one client -> server hop in front of any backend
                                           that answers with digest d: an error, or the
                                           backend's bytes under digest d with the backend's
                                           (whole-blob) size
     range_over_http                       over ocimem, for int64 offsets: GetBlobRange through
                                           a hop = GetBlobRange directly whenever o0 < o1' can be
                                           written as a Range header, an error otherwise
     hops_refine                           any number of hops
     vstep_hist_ok                         every history seen through k hops satisfies the
                                           property's specification *)
From Coq Require Import String.
From OCI Require Import Model.Mem Model.MemSpec Proofs.MemBasics Proofs.MemInv.
From OCI Require Import Model.RangeCodec Proofs.RangeCodec Model.BlobReader Proofs.BlobReader.
From OCI Require Import Model.IntegritySpec Model.IntegrityStack Proofs.Integrity.

Local Open Scope Z_scope.

Definition pres (x : R err (desc * bytes)) : option (bytes * Z * bytes) :=
  match x with
  | Ok (de, data) => Some (d_digest de, d_size de, data)
  | _ => None
  end.

(* hi is not a successful read, or it is the same read as lo on digest, size and bytes *)
Definition refines (hi lo : R err (desc * bytes)) : Prop := pres hi = None \/ pres hi = pres lo.

Lemma refines_trans a b c : refines a b -> refines b c -> refines a c.
Proof. unfold refines. intros [H|H] [H'|H']; auto; right + left; congruence. Qed.

Lemma refines_refl a : refines a a.
Proof. now right. Qed.

Lemma refines_eq a b c : refines a b -> pres b = pres c -> refines a c.
Proof. unfold refines. intros [H|H] E; [now left | right; congruence]. Qed.

Lemma refines_ok hi lo de data :
  refines hi lo -> hi = Ok (de, data) ->
  exists de', lo = Ok (de', data) /\ d_digest de' = d_digest de /\ d_size de' = d_size de.
Proof.
  intros [H|H] ->; cbn in H; [discriminate|].
  destruct lo as [[de' data']| | |]; cbn in H; try discriminate. injection H as E1 E2 E3. subst data'. eauto.
Qed.

Definition in64 (z : Z) : Prop := MIN64 <= z <= MAX64.

Lemma blen_slice data o0 e : 0 <= o0 <= e -> e <= blen data -> blen (slice data o0 e) = e - o0.
Proof.
  intros H1 H2. unfold slice, blen in *. rewrite firstn_length, skipn_length. lia.
Qed.

Section Hops.
  Variable vref : bytes -> bool.
  Variable hashd : bytes -> bytes -> bytes.

  Local Notation http_get_blob := (http_get_blob vref hashd).
  Local Notation http_get_blob_range := (http_get_blob_range vref hashd).
  Local Notation http_get_manifest := (http_get_manifest vref hashd).

  Lemma finish_pres x : pres (finish x) = None \/ exists de data, x = Ok (de, DClean data) /\ finish x = Ok (de, data).
  Proof.
    destruct x as [[de dr]| | |]; cbn; auto. destruct dr; cbn; auto. right. eauto.
  Qed.

  (* reading a body that arrives in one piece *)
  Lemma drain_whole r body out :
    drain hashd r (whole body) [] = DClean out -> out = body.
  Proof.
    unfold whole. cbn [drain]. destruct (br_read hashd r body REOF) as [r' res]. destruct res; try discriminate.
    intros H; injection H as <-. reflexivity.
  Qed.

  (* ... and as bytes.Reader delivers it (the in-memory digest path of client.read) *)
  Lemma drain_bytes_reader r body out :
    drain hashd r (match body with [] => [([], REOF)] | _ => [(body, RNil); ([], REOF)] end) [] = DClean out ->
    out = body.
  Proof.
    intros H. destruct body; cbn [drain] in H.
    - destruct (br_read hashd _ [] REOF) as [r' res]. destruct res; try discriminate. now injection H as <-.
    - destruct (br_read hashd _ (n :: body) RNil) as [r' res]. destruct res; try discriminate.
      + destruct (br_read hashd r' [] REOF) as [r'' res']. destruct res'; try discriminate.
        injection H as <-. now rewrite app_nil_r.
      + now injection H as <-.
  Qed.

  Opaque BlobReader.drain.

  Lemma client_read_whole kind known resp body de out :
    client_read vref hashd kind known resp (whole body) None = Ok (de, DClean out) ->
    out = body /\ d_size de = rs_clen resp /\
    (rs_digest resp <> [] -> d_digest de = rs_digest resp) /\
    (rs_digest resp = [] -> known <> [] -> d_digest de = known) /\
    (rs_digest resp = [] -> known = [] -> d_digest de = canon_hash hashd body /\ kind = KManifestGet).
  Proof.
    unfold client_read. destruct (negb (rs_status resp =? 200)) eqn:ES; [cbn; discriminate|].
    apply negb_false_iff, Z.eqb_eq in ES.
    unfold descriptor_from_response. rewrite ES. cbn [Z.eqb Pos.eqb].
    destruct (rs_clen resp <? 0); [cbn; discriminate|].
    destruct (rs_digest resp) as [|c rdg] eqn:ED.
    - destruct known as [|k kn].
      + cbn [andb d_digest]. destruct kind; [cbn; discriminate|]. cbn [d_size d_media].
        destruct (rs_clen resp <=? IN_MEM_THRESHOLD); [|cbn; discriminate].
        unfold whole. cbn [flatten].
        destruct (negb (blen body =? rs_clen resp)) eqn:EL; [cbn; discriminate|].
        apply negb_false_iff, Z.eqb_eq in EL. unfold new_blob_reader. cbn [d_digest].
        destruct (alg_ok (canon_hash hashd body)); cbn [rbind]; [|cbn; discriminate].
        intros H. injection H as <- H. cbn [d_size d_digest].
        apply drain_bytes_reader in H. subst out.
        repeat split; auto; try congruence; try (intros Hn; now contradiction Hn).
      + destruct (vref (k :: kn)); [|cbn; discriminate]. cbn [andb d_digest].
        unfold new_blob_reader. cbn [d_digest]. destruct (alg_ok (k :: kn)); cbn [rbind]; [|cbn; discriminate].
        intros H. injection H as <- H. apply drain_whole in H. cbn [d_size d_digest].
        repeat split; auto; try congruence; try (intros Hn; now contradiction Hn).
    - destruct (vref (c :: rdg)); [|cbn; discriminate]. cbn [andb d_digest].
      unfold new_blob_reader. cbn [d_digest]. destruct (alg_ok (c :: rdg)); cbn [rbind]; [|cbn; discriminate].
      intros H. injection H as <- H. apply drain_whole in H. cbn [d_size d_digest].
      repeat split; auto; try discriminate.
  Qed.

  (* ---- one hop, GetBlob ---- *)
  Lemma hop_blob d get :
    (forall de data, get = Ok (de, data) -> d_digest de = d) ->
    refines (http_get_blob d get) get.
  Proof.
    intros Hg. unfold BlobReader.http_get_blob, server_blob_get. cbn [parse_http_range].
    destruct get as [[de data]|e| |]; cbn [sresp_err]; try (now left).
    specialize (Hg _ _ eq_refl).
    destruct (finish_pres (client_read vref hashd KBlobGet d
                {| rs_status := 200; rs_ctype := d_media de; rs_clen := d_size de; rs_crange := []; rs_digest := d |}
                (whole data) None)) as [H|(de' & out & E & ->)]; [now left|].
    right. apply client_read_whole in E as (-> & Es & Ed1 & Ed2 & Ed3). cbn in *.
    destruct d as [|c d'].
    - (* with no digest at all the client gives up on a blob GET *)
      destruct (Ed3 eq_refl eq_refl) as [_ Hk]. discriminate.
    - rewrite Ed1 by discriminate. now rewrite Hg, Es.
  Qed.

  (* ---- one hop, GetBlobRange ---- *)

  Lemma client_range_206 o0 o1 d ctype clen a b n body de out :
    (o0 =? 0) && (o1 <? 0) = false ->
    client_get_blob_range vref hashd o0 o1 d
      {| rs_status := 206; rs_ctype := ctype; rs_clen := clen; rs_crange := content_range_header a b n; rs_digest := d |}
      (whole body) = Ok (de, DClean out) ->
    out = body /\ d_size de = n /\ d_digest de = d.
  Proof.
    intros Hif. unfold client_get_blob_range. rewrite Hif. cbn [rs_status Z.eqb Pos.eqb orb negb].
    unfold descriptor_from_response. cbn [rs_status rs_crange rs_digest rs_ctype Z.eqb Pos.eqb].
    pose proof (content_range_nonempty a b n) as Hne.
    destruct (content_range_header a b n) as [|c0 cr] eqn:EC; [congruence|]. rewrite <- EC.
    rewrite content_range_total, parse_int_fmt_int_gen.
    destruct (in_int64 n); [|cbn; discriminate].
    destruct d as [|c d'].
    - cbn [andb]. unfold new_blob_reader. cbn [d_digest]. destruct (alg_ok []); cbn [rbind]; [|discriminate].
      intros H. injection H as <- H. apply drain_whole in H. auto.
    - destruct (vref (c :: d')); [|cbn; discriminate]. cbn [andb].
      unfold new_blob_reader. cbn [d_digest]. destruct (alg_ok (c :: d')); cbn [rbind]; [|discriminate].
      intros H. injection H as <- H. apply drain_whole in H. auto.
  Qed.

  Lemma hop_range d o0 o1 get getrange :
    in64 o0 -> in64 o1 ->
    (forall de data, get = Ok (de, data) -> d_digest de = d) ->
    (forall de data, getrange o0 (if o1 <? 0 then -1 else o1) = Ok (de, data) -> d_digest de = d) ->
    refines (http_get_blob_range d o0 o1 get getrange)
            (if (o0 =? 0) && (o1 <? 0) then get else getrange o0 (if o1 <? 0 then -1 else o1)).
  Proof.
    intros H0 H1 Hg Hr. unfold BlobReader.http_get_blob_range.
    destruct ((o0 =? 0) && (o1 <? 0)) eqn:Hif; [now apply hop_blob|].
    unfold server_blob_get. rewrite (parse_client_range o0 o1 H0 H1).
    destruct (o0 <? 0); [now left|].
    assert (Hcase : forall e, e = (if o1 <? 0 then -1 else o1) ->
      refines
        match
          match getrange o0 e with
          | Ok (de, data) =>
              let en := if (e =? -1) || (e >? d_size de) then d_size de else e in
              if o0 >? d_size de then S416
              else if en <? o0 then S416
              else SResp {| rs_status := 206; rs_ctype := d_media de; rs_clen := en - o0;
                            rs_crange := content_range_header o0 en (d_size de); rs_digest := d |} data
          | Err e0 => SBackend e0
          | _ => SPanic
          end
        with
        | SResp resp body => finish (client_get_blob_range vref hashd o0 o1 d resp (whole body))
        | other => sresp_err other
        end (getrange o0 e)).
    { intros e He. destruct (getrange o0 e) as [[de data]|e0| |] eqn:EG; cbn [sresp_err]; try (now left).
      cbn zeta. destruct (o0 >? d_size de); [now left|].
      destruct ((if (e =? -1) || (e >? d_size de) then d_size de else e) <? o0); [now left|].
      match goal with |- refines (finish ?x) _ => destruct (finish_pres x) as [H|(de' & out & E & ->)] end; [now left|].
      right. apply client_range_206 in E as (-> & Es & Ed); [|exact Hif]. cbn.
      rewrite He in EG. now rewrite Es, Ed, (Hr _ _ EG). }
    destruct (o1 <? 0); [now apply (Hcase (-1))|].
    destruct (o1 <=? o0); [now left|]. now apply (Hcase o1).
  Qed.

  (* ---- one hop, GetManifest / GetTag ---- *)

  Lemma hop_manifest known get :
    (forall de data, get = Ok (de, data) -> d_digest de = canon_hash hashd data /\ (known = [] \/ d_digest de = known)) ->
    refines (http_get_manifest known get) get.
  Proof.
    intros Hg. unfold BlobReader.http_get_manifest.
    destruct get as [[de data]|e| |]; try (now left).
    destruct (Hg _ _ eq_refl) as [Hc Hk].
    match goal with |- refines (finish ?x) _ => destruct (finish_pres x) as [H|(de' & out & E & ->)] end; [now left|].
    right. apply client_read_whole in E as (-> & Es & Ed1 & Ed2 & Ed3). cbn in *.
    rewrite Es. destruct (d_digest de) as [|c dd] eqn:ED.
    - destruct known as [|k kn].
      + destruct (Ed3 eq_refl eq_refl) as [-> _]. now rewrite <- Hc.
      + destruct Hk; discriminate.
    - rewrite Ed1 by discriminate. reflexivity.
  Qed.
  (* ---- the positive direction: a well-formed answer is read back in full ---- *)

  Lemma whole_deliver body : whole body = deliver [] body.
  Proof. reflexivity. Qed.

  Lemma client_read_200_ok d ctype body :
    vref d = true -> alg_of d = Some (s "sha256") -> canon_hash hashd body = d ->
    finish (client_read vref hashd KBlobGet d
              {| rs_status := 200; rs_ctype := ctype; rs_clen := blen body; rs_crange := []; rs_digest := d |}
              (whole body) None)
    = Ok ({| d_media := match ctype with [] => OCTET | c => c end; d_digest := d; d_size := blen body; d_artifact := [] |}, body).
  Proof.
    intros Hv Ha Hh. unfold client_read, descriptor_from_response. cbn [rs_status rs_clen rs_digest rs_ctype Z.eqb Pos.eqb negb].
    pose proof (blen_nonneg body) as Hn. destruct (Z.ltb_spec (blen body) 0); [lia|].
    assert (Hne : d <> []) by (intros ->; discriminate).
    destruct d as [|c d']; [congruence|]. rewrite Hv. cbn [andb d_digest].
    unfold new_blob_reader. cbn [d_digest]. unfold alg_ok. rewrite Ha.
    assert (alg_available (s "sha256") = true) as -> by reflexivity. cbn [rbind].
    set (de := {| d_media := _; d_digest := c :: d'; d_size := blen body; d_artifact := [] |}).
    rewrite whole_deliver.
    assert (E : drain hashd (fresh_reader de true) (deliver [] body) [] = DClean body).
    { apply verified_clean_iff. unfold body_of. cbn [concat app]. repeat split; auto.
      unfold br_alg. cbn [br_desc fresh_reader d_digest de]. rewrite Ha. exact Hh. }
    unfold fresh_reader in E. rewrite E. cbn [finish]. unfold de. now destruct ctype.
  Qed.

  Lemma client_range_206_ok o0 o1 d ctype clen a b n body :
    (o0 =? 0) && (o1 <? 0) = false -> in_int64 n = true ->
    vref d = true -> alg_ok d = true -> blen body <= n ->
    finish (client_get_blob_range vref hashd o0 o1 d
              {| rs_status := 206; rs_ctype := ctype; rs_clen := clen; rs_crange := content_range_header a b n; rs_digest := d |}
              (whole body))
    = Ok ({| d_media := match ctype with [] => OCTET | c => c end; d_digest := d; d_size := n; d_artifact := [] |}, body).
  Proof.
    intros Hif H64 Hv Ha Hlen. unfold client_get_blob_range. rewrite Hif. cbn [rs_status Z.eqb Pos.eqb orb negb].
    unfold descriptor_from_response. cbn [rs_status rs_crange rs_digest rs_ctype Z.eqb Pos.eqb].
    pose proof (content_range_nonempty a b n) as Hne.
    destruct (content_range_header a b n) as [|c0 cr] eqn:EC; [congruence|]. rewrite <- EC.
    rewrite content_range_total, parse_int_fmt_int_gen, H64.
    assert (Hd : d <> []) by (intros ->; discriminate).
    destruct d as [|c d']; [congruence|]. rewrite Hv. cbn [andb].
    unfold new_blob_reader. cbn [d_digest]. rewrite Ha. cbn [rbind].
    set (de := {| d_media := _; d_digest := c :: d'; d_size := n; d_artifact := [] |}).
    rewrite whole_deliver.
    assert (E : drain hashd (fresh_reader de false) (deliver [] body) [] = DClean body).
    { apply unverified_clean_iff. unfold body_of. cbn [concat app]. auto. }
    unfold fresh_reader in E. rewrite E. cbn [finish]. unfold de. now destruct ctype.
  Qed.

  Transparent BlobReader.drain.
End Hops.

Section StackProofs.
  Variable vref : bytes -> bool.
  Variable hashd : bytes -> bytes -> bytes.
  Variable valid_digest : bytes -> bool.
  Variable valid_repo : bytes -> bool.
  Variable valid_tag : bytes -> bool.
  Variable decode_image : bytes -> option image_manifest.
  Variable decode_index : bytes -> option index_manifest.
  Variable cfg : config.
  Variable subject_json_ok : bytes -> bytes -> bool.

  Local Notation hash := (canon_hash hashd).
  Local Notation step := (step hash valid_digest valid_repo valid_tag decode_image decode_index cfg).
  Local Notation xstep := (xstep hash valid_digest valid_repo valid_tag decode_image decode_index cfg subject_json_ok).
  Local Notation Inv := (Inv hash decode_image decode_index).
  Local Notation mem_rb := (mem_rb hashd valid_digest valid_repo valid_tag decode_image decode_index cfg).
  Local Notation http_layer := (http_layer vref hashd).
  Local Notation hops := (hops vref hashd).
  Local Notation view := (view vref hashd valid_digest valid_repo valid_tag decode_image decode_index cfg).
  Local Notation vstep := (vstep vref hashd valid_digest valid_repo valid_tag decode_image decode_index cfg subject_json_ok).
  Local Notation vresults := (vresults vref hashd valid_digest valid_repo valid_tag decode_image decode_index cfg subject_json_ok).
  Local Notation vlog := (vlog vref hashd valid_digest valid_repo valid_tag decode_image decode_index cfg subject_json_ok).
  Local Notation Rel := (Rel hash decode_image decode_index).
  Local Notation check := (check hash valid_digest valid_repo).

  Lemma rd_ok r de data : rd r = Ok (de, data) <-> r = Ok (RRead de data).
  Proof.
    destruct r as [[]| | |]; cbn; split; try discriminate; intros H; injection H as <- <-; reflexivity.
  Qed.

  (* what ocimem answers, as digest / size facts *)
  Lemma mem_blob_facts st r d de data :
    Inv st -> rb_blob (mem_rb st) r d = Ok (de, data) -> d_digest de = d /\ d_size de = blen data.
  Proof.
    intros HI H. apply rd_ok in H. apply get_blob_spec in H as (b & _ & _ & _ & A & B); auto.
  Qed.
  Lemma mem_range_facts st r d o0 o1 de data :
    Inv st -> rb_range (mem_rb st) r d o0 o1 = Ok (de, data) -> d_digest de = d.
  Proof.
    intros HI H. apply rd_ok in H. apply get_blob_range_spec in H as (b & _ & _ & _ & _ & A & _); auto.
  Qed.
  Lemma mem_man_facts st r d de data :
    Inv st -> rb_man (mem_rb st) r d = Ok (de, data) -> d_digest de = hash data /\ d_digest de = d.
  Proof.
    intros HI H. apply rd_ok in H. apply get_manifest_spec in H as (b & _ & _ & A & B & _); auto.
    split; congruence.
  Qed.
  Lemma mem_tag_facts st r t de data :
    Inv st -> rb_tag (mem_rb st) r t = Ok (de, data) -> d_digest de = hash data.
  Proof.
    intros HI H. apply rd_ok in H. apply get_tag_spec in H as (td & b & _ & _ & _ & A & B & _); auto.
    congruence.
  Qed.

  (* a negative end means "to the end", whatever its value; the range [0, end) is the blob *)
  Lemma mem_range_neg st r d o0 o1 :
    o1 < 0 -> rb_range (mem_rb st) r d o0 o1 = rb_range (mem_rb st) r d o0 (-1).
  Proof.
    intros H. cbn. destruct (blob_for st r d); cbn; try reflexivity.
    destruct (Z.ltb_spec o1 0); [|lia]. reflexivity.
  Qed.
  Lemma mem_range_whole st r d o1 :
    o1 < 0 -> pres (rb_range (mem_rb st) r d 0 o1) = pres (rb_blob (mem_rb st) r d).
  Proof.
    intros H. cbn. destruct (blob_for st r d) as [b| | |]; cbn; try reflexivity.
    destruct (Z.ltb_spec o1 0); [|lia]. cbn [orb].
    pose proof (blen_nonneg (b_data b)). rewrite Z.gtb_ltb. destruct (Z.ltb_spec (blen (b_data b)) 0); [lia|].
    cbn. unfold slice. rewrite Z.sub_0_r. cbn [Z.to_nat skipn]. unfold blen. rewrite Nat2Z.id, firstn_all. reflexivity.
  Qed.

  Record below (st : state) (b : rb) : Prop := {
    bl_blob : forall r d, refines (rb_blob b r d) (rb_blob (mem_rb st) r d);
    bl_range : forall r d o0 o1, in64 o0 -> in64 o1 -> refines (rb_range b r d o0 o1) (rb_range (mem_rb st) r d o0 o1);
    bl_man : forall r d, refines (rb_man b r d) (rb_man (mem_rb st) r d);
    bl_tag : forall r t, refines (rb_tag b r t) (rb_tag (mem_rb st) r t)
  }.

  Lemma below_mem st : below st (mem_rb st).
  Proof. constructor; intros; apply refines_refl. Qed.

  Lemma in64_m1 : in64 (-1).
  Proof. unfold in64, MIN64, MAX64. lia. Qed.

  (* one more hop keeps a stack below ocimem *)
  Lemma below_layer st b : Inv st -> below st b -> below st (http_layer b).
  Proof.
    intros HI [Bb Br Bm Bt].
    assert (Fb : forall r d de data, rb_blob b r d = Ok (de, data) -> d_digest de = d).
    { intros r d de data H. destruct (refines_ok _ _ _ _ (Bb r d) H) as (de' & E & A & _).
      apply (mem_blob_facts st) in E as [E _]; auto. congruence. }
    assert (Fr : forall r d o0 o1 de data, in64 o0 -> in64 o1 -> rb_range b r d o0 o1 = Ok (de, data) -> d_digest de = d).
    { intros r d o0 o1 de data H0 H1 H. destruct (refines_ok _ _ _ _ (Br r d o0 o1 H0 H1) H) as (de' & E & A & _).
      apply (mem_range_facts st) in E; auto. congruence. }
    constructor.
    - intros r d. eapply refines_trans; [|apply Bb]. cbn. apply hop_blob. apply Fb.
    - intros r d o0 o1 H0 H1. unfold IntegrityStack.http_layer. cbn [rb_range].
      destruct (Z.ltb_spec o0 0) as [Hneg|Hpos].
      + (* a negative start is refused by the server's parser; nothing to compare *)
        unfold http_get_blob_range. destruct ((o0 =? 0) && (o1 <? 0)) eqn:E.
        * apply andb_true_iff in E as [E _]. apply Z.eqb_eq in E. lia.
        * unfold server_blob_get. rewrite (parse_client_range o0 o1 H0 H1).
          destruct (Z.ltb_spec o0 0); [|lia]. now left.
      + assert (Hr' : forall de data, rb_range b r d o0 (if o1 <? 0 then -1 else o1) = Ok (de, data) -> d_digest de = d).
        { intros de data H. eapply Fr; [exact H0 | | exact H]. destruct (o1 <? 0); [apply in64_m1 | exact H1]. }
        eapply refines_trans.
        * apply (hop_range vref hashd d o0 o1 (rb_blob b r d) (rb_range b r d) H0 H1); [apply Fb | exact Hr'].
        * destruct ((o0 =? 0) && (o1 <? 0)) eqn:E.
          -- apply andb_true_iff in E as [E0 E1]. apply Z.eqb_eq in E0. apply Z.ltb_lt in E1. subst o0.
             eapply refines_eq; [apply Bb|]. symmetry. now apply mem_range_whole.
          -- destruct (Z.ltb_spec o1 0).
             ++ rewrite (mem_range_neg st r d o0 o1) by assumption. apply Br; [exact H0 | apply in64_m1].
             ++ now apply Br.
    - intros r d. eapply refines_trans; [|apply Bm]. cbn. apply hop_manifest.
      intros de data H. destruct (refines_ok _ _ _ _ (Bm r d) H) as (de' & E & A & _).
      apply (mem_man_facts st) in E as [E1 E2]; auto. split; [congruence | right; congruence].
    - intros r t. eapply refines_trans; [|apply Bt]. cbn. apply hop_manifest.
      intros de data H. destruct (refines_ok _ _ _ _ (Bt r t) H) as (de' & E & A & _).
      apply (mem_tag_facts st) in E; auto. split; [congruence | now left].
  Qed.

  Theorem hops_refine k st : Inv st -> below st (hops k (mem_rb st)).
  Proof. intros HI. induction k; cbn; [apply below_mem | now apply below_layer]. Qed.

  (* C01 theorem 5: GetBlobRange through one client -> server hop over ocimem.  For a stored
     blob no longer than int64, a well-formed sha256 digest, and offsets that are int64
     values: when the range can be written as a Range header (0 <= o0 and o1 < 0 or o0 < o1)
     the hop returns what the direct call returns - the same bytes, the digest and the size
     of the whole blob, or an error where the direct call fails; otherwise (o0 < 0, or
     0 <= o1 <= o0: HTTP cannot ask for an empty or backward range) it is an error. *)
  Theorem range_over_http st r d o0 o1 b :
    Inv st -> iblob st r d = Some b ->
    in64 o0 -> in64 o1 -> blen (b_data b) <= MAX64 ->
    vref d = true -> alg_of d = Some (s "sha256") ->
    let direct := rb_range (mem_rb st) r d o0 o1 in
    let via := rb_range (http_layer (mem_rb st)) r d o0 o1 in
    (0 <= o0 -> o1 < 0 \/ o0 < o1 -> pres via = pres direct) /\
    (o0 < 0 \/ 0 <= o1 <= o0 -> pres via = None).
  Proof.
    intros HI Hb H0 H1 Hmax Hv Ha. cbn zeta.
    pose proof (inv_iblob _ _ _ _ _ _ _ HI Hb) as Hh.
    assert (Hok : alg_ok d = true) by (unfold alg_ok; now rewrite Ha).
    pose proof (blen_nonneg (b_data b)) as Hn.
    assert (E64 : in_int64 (blen (b_data b)) = true) by (apply in_int64_iff; unfold MIN64; lia).
    apply blob_for_iblob in Hb.
    unfold IntegrityStack.http_layer. cbn [rb_range]. unfold http_get_blob_range.
    split.
    - intros Hp Hr. destruct ((o0 =? 0) && (o1 <? 0)) eqn:Hif.
      + (* the client asks for the whole blob *)
        apply andb_true_iff in Hif as [E0 E1]. apply Z.eqb_eq in E0. apply Z.ltb_lt in E1. subst o0.
        rewrite (mem_range_whole st r d o1 E1).
        unfold http_get_blob, server_blob_get. cbn [parse_http_range]. cbn. rewrite Hb. cbn [rbind rd].
        unfold blob_desc. cbn [d_media d_size].
        rewrite (client_read_200_ok vref hashd d (b_media b) (b_data b) Hv Ha Hh). cbn. now rewrite Hh.
      + unfold server_blob_get. rewrite (parse_client_range o0 o1 H0 H1).
        destruct (Z.ltb_spec o0 0); [lia|].
        assert (Hgo : forall e, (e = -1 /\ o1 < 0) \/ (e = o1 /\ 0 <= o1) ->
          pres match
                 match rb_range (mem_rb st) r d o0 e with
                 | Ok (de, data) =>
                     let en := if (e =? -1) || (e >? d_size de) then d_size de else e in
                     if o0 >? d_size de then S416
                     else if en <? o0 then S416
                     else SResp {| rs_status := 206; rs_ctype := d_media de; rs_clen := en - o0;
                                   rs_crange := content_range_header o0 en (d_size de); rs_digest := d |} data
                 | Err e0 => SBackend e0
                 | _ => SPanic
                 end
               with
               | SResp resp body => finish (client_get_blob_range vref hashd o0 o1 d resp (whole body))
               | other => sresp_err other
               end = pres (rb_range (mem_rb st) r d o0 o1)).
        { intros e He.
          assert (Hsame : rb_range (mem_rb st) r d o0 e = rb_range (mem_rb st) r d o0 o1).
          { destruct He as [[-> Hlt]|[-> _]]; [|reflexivity]. symmetry. now apply mem_range_neg. }
          rewrite Hsame. cbn. rewrite Hb. cbn [rbind].
          fold (clamp (blen (b_data b)) o1). set (c := clamp (blen (b_data b)) o1).
          change (firstn (Z.to_nat (c - o0)) (skipn (Z.to_nat o0) (b_data b))) with (slice (b_data b) o0 c).
          assert (Hc : c <= blen (b_data b)).
          { unfold c, clamp. destruct ((o1 <? 0) || (o1 >? blen (b_data b))) eqn:E; [lia|].
            apply orb_false_iff in E as [_ E]. rewrite Z.gtb_ltb in E. apply Z.ltb_ge in E. lia. }
          destruct ((o0 <? 0) || (o0 >? c)) eqn:EB; [reflexivity|]. cbn [rd].
          apply orb_false_iff in EB as [_ EB]. rewrite Z.gtb_ltb in EB. apply Z.ltb_ge in EB.
          unfold blob_desc. cbn [d_size d_media d_digest].
          assert (Hen : (if (e =? -1) || (e >? blen (b_data b)) then blen (b_data b) else e) = c).
          { unfold c, clamp. destruct He as [[-> Hlt]|[-> Hge]].
            - cbn. destruct (Z.ltb_spec o1 0); [reflexivity | lia].
            - destruct (Z.eqb_spec o1 (-1)); [lia|]. destruct (Z.ltb_spec o1 0); [lia|]. reflexivity. }
          rewrite Hen. rewrite Z.gtb_ltb. destruct (Z.ltb_spec (blen (b_data b)) o0); [lia|].
          destruct (Z.ltb_spec c o0); [lia|].
          match goal with |- context [Build_response _ _ _ ?x _] =>
            change x with (content_range_header o0 c (blen (b_data b))) end.
          rewrite (client_range_206_ok vref hashd o0 o1 d (b_media b) (c - o0) o0 c (blen (b_data b)) (slice (b_data b) o0 c) Hif E64 Hv Hok).
          - cbn. now rewrite Hh.
          - rewrite blen_slice; lia. }
        destruct (Z.ltb_spec o1 0).
        * apply (Hgo (-1)). left. auto.
        * destruct (Z.leb_spec o1 o0); [lia|]. apply (Hgo o1). right. auto.
    - intros Hbad.
      assert (Hif : (o0 =? 0) && (o1 <? 0) = false).
      { destruct Hbad as [Hneg|[Hp Hle]].
        - destruct (Z.eqb_spec o0 0); [lia | reflexivity].
        - destruct (Z.ltb_spec o1 0); [lia | apply andb_false_r]. }
      rewrite Hif. unfold server_blob_get. rewrite (parse_client_range o0 o1 H0 H1).
      destruct (Z.ltb_spec o0 0); [reflexivity|].
      destruct Hbad as [Hneg|[Hp Hle]]; [lia|].
      destruct (Z.ltb_spec o1 0); [lia|]. destruct (Z.leb_spec o1 o0); [reflexivity | lia].
  Qed.

  (* ---- histories seen through k hops ---- *)

  Definition int64_op (x : xop) : Prop :=
    match x with XO (GetBlobRange _ _ o0 o1) => in64 o0 /\ in64 o1 | _ => True end.

  Lemma back_rd r : (exists de data, r = Ok (RRead de data)) \/ (exists e, r = Err e) -> back (rd r) = r.
  Proof. intros [(de & data & ->)|(e & ->)]; reflexivity. Qed.

  Lemma proj_back hi lo :
    refines hi lo -> proj (back hi) = proj (back lo) \/ succ (proj (back hi)) = false.
  Proof.
    intros [H|H].
    - right. destruct hi as [[de data]| | |]; cbn in *; try reflexivity; discriminate.
    - destruct hi as [[de data]| | |]; cbn in H; try (right; reflexivity).
      destruct lo as [[de' data']| | |]; cbn in H; try discriminate. injection H as E1 E2 E3. left. cbn. congruence.
  Qed.

  (* a read through k hops: what ocimem answered, or no successful read *)
  Lemma view_read k st x :
    Inv st -> is_read x = true -> int64_op x ->
    let r := snd (xstep st x) in
    fst (xstep st x) = st /\ (proj (view k st x r) = proj r \/ succ (proj (view k st x r)) = false).
  Proof.
    intros HI Hr H64. destruct x as [o|]; [|discriminate]. destruct o; try discriminate; cbn [IntegritySpec.xstep].
    all: split; [reflexivity|]; destruct k as [|k]; [left; reflexivity|]; cbn [IntegrityStack.view].
    all: pose proof (hops_refine (S k) st HI) as [Bb Br Bm Bt].
    - destruct (proj_back _ _ (Bb r d)) as [E|E]; [left|now right]. rewrite E. f_equal.
      apply back_rd. cbn. destruct (blob_for_cases st r d) as [[b ->]|[e ->]]; cbn; eauto.
    - destruct H64 as [H0 H1]. destruct (proj_back _ _ (Br r d o0 o1 H0 H1)) as [E|E]; [left|now right]. rewrite E. f_equal.
      apply back_rd. cbn. destruct (blob_for_cases st r d) as [[b ->]|[e ->]]; cbn; eauto.
      destruct (_ || _); eauto.
    - destruct (proj_back _ _ (Bm r d)) as [E|E]; [left|now right]. rewrite E. f_equal.
      apply back_rd. cbn. destruct (manifest_for_cases st r d) as [[b ->]|[e ->]]; cbn; eauto.
    - destruct (proj_back _ _ (Bt r t)) as [E|E]; [left|now right]. rewrite E. f_equal.
      apply back_rd. cbn. destruct (get_repo st r) as [rp|]; [|eauto].
      destruct (alookup t (tags rp)) as [td|]; [|eauto].
      destruct (manifest_for_cases st r (d_digest td)) as [[b ->]|[e ->]]; cbn; eauto.
  Qed.

  (* a mount the client was willing to send: its success survives the hops *)
  Lemma mount_hops_succ k d r :
    d <> [] -> vref d = true ->
    (forall de, r = Ok (RDesc de) -> d_digest de = d) ->
    (forall de data, r <> Ok (RRead de data)) ->
    succ (proj (mount_hops vref k d r)) = succ (proj r) /\
    (forall de, mount_hops vref k d r = Ok (RDesc de) -> d_digest de = d) /\
    (forall de data, mount_hops vref k d r <> Ok (RRead de data)).
  Proof.
    intros Hn Hv. induction k as [|k IH]; intros Hd Hnr; cbn [mount_hops]; [auto|].
    destruct (IH Hd Hnr) as (A & B & C). unfold mount_layer.
    destruct (mount_hops vref k d r) as [[de| | | | | | |]| | |] eqn:E; try (repeat split; auto; congruence).
    specialize (B _ eq_refl). unfold descriptor_from_response. cbn [rs_digest rs_ctype]. rewrite B.
    destruct d as [|c d']; [congruence|]. rewrite Hv. cbn. repeat split; auto; try congruence.
    intros de' H. injection H as <-. reflexivity.
  Qed.

  Definition stepV (k : nat) (st : state) (past : list entry) (x : xop) : Prop :=
    check past x (proj (snd (vstep k st x))) = true /\
    Rel (fst (vstep k st x)) ((x, proj (snd (vstep k st x))) :: past).

  Lemma check_read_fail past x p : is_read x = true -> succ p = false -> check past x p = true.
  Proof.
    destruct x as [[]|]; try discriminate; intros _; destruct p; try discriminate; reflexivity.
  Qed.

  Lemma rel_vstep k st past x : Rel st past -> int64_op x -> stepV k st past x.
  Proof.
    intros HR H64. pose proof (rel_xstep hash valid_digest valid_repo valid_tag decode_image decode_index cfg subject_json_ok st past x HR) as [Hc HR1].
    unfold stepV. destruct (is_read x) eqn:ER.
    - (* a read *)
      destruct (view_read k st x (rel_inv _ _ _ _ _ HR) ER H64) as [Est Hv].
      assert (Ev : vstep k st x = (fst (xstep st x), view k st x (snd (xstep st x)))).
      { unfold IntegrityStack.vstep. destruct k, x as [[]|]; try discriminate; destruct (xstep st _); reflexivity. }
      rewrite Ev. cbn [fst snd]. split.
      + destruct Hv as [E|E]; [now rewrite E | now apply check_read_fail].
      + eapply rel_swap; [left; exact ER | exact HR1].
    - destruct (is_mount x) eqn:EM.
      + (* a mount *)
        destruct x as [[]|]; try discriminate. destruct k as [|k].
        * unfold IntegrityStack.vstep. destruct (xstep st _) eqn:E. cbn [fst snd IntegrityStack.view] in *. auto.
        * unfold IntegrityStack.vstep.
          destruct (negb (is_nil d) && vref d) eqn:EV.
          -- apply andb_true_iff in EV as [En Ev]. destruct (xstep st (XO (MountBlob from to d))) as [st1 r] eqn:E.
             cbn [fst snd IntegrityStack.view] in *. split; [reflexivity|].
             eapply rel_swap; [right; split; [reflexivity|] | exact HR1].
             symmetry. apply mount_hops_succ; auto.
             ++ destruct d; [discriminate | discriminate].
             ++ intros de Hr. cbn [IntegritySpec.xstep Mem.step] in E.
                destruct (make_repo valid_repo st to) as [s1|] eqn:EMk; [|congruence].
                destruct (blob_for_cases s1 from d) as [[b Eb]|[e Eb]]; rewrite Eb in E; [|congruence].
                injection E as _ <-. injection Hr as <-. cbn.
                apply blob_for_iblob in Eb.
                eapply (inv_iblob hash decode_image decode_index); [|exact Eb].
                eapply (inv_make_repo hash valid_repo decode_image decode_index); [apply HR | exact EMk].
             ++ intros de data Hr. cbn [IntegritySpec.xstep Mem.step] in E.
                destruct (make_repo valid_repo st to) as [s1|]; [|congruence].
                destruct (blob_for_cases s1 from d) as [[b Eb]|[e Eb]]; rewrite Eb in E; congruence.
          -- cbn [fst snd proj]. split; [reflexivity|].
             apply (rel_same hash decode_image decode_index) with (1 := HR); auto; try reflexivity. apply HR.
      + (* anything else is seen unchanged *)
        assert (Ev : vstep k st x = xstep st x).
        { unfold IntegrityStack.vstep. destruct k, x as [[]|]; try discriminate; destruct (xstep st _); reflexivity. }
        rewrite Ev. auto.
  Qed.

  (* the bound on range offsets: they are Go int64 values *)
  Definition int64_ops (h : list xop) : Prop := Forall int64_op h.

  Lemma vrun_rel k h : forall st past,
    Rel st past -> int64_ops h ->
    hist_ok_from hash valid_digest valid_repo past (combine h (map proj (vresults k st h))) = true.
  Proof.
    induction h as [|x h IH]; intros st past HR H64; cbn [IntegrityStack.vresults]; [reflexivity|].
    inversion H64 as [|? ? Hx Hh]; subst.
    destruct (rel_vstep k st past x HR Hx) as [Hc HR1]. destruct (vstep k st x) as [st1 r]. cbn [fst snd] in *.
    cbn [map combine hist_ok_from]. rewrite Hc. cbn. now apply IH.
  Qed.

  (* C01 for histories through k HTTP hops *)
  Theorem vstep_hist_ok k h : int64_ops h -> hist_ok hash valid_digest valid_repo (vlog k h) = true.
  Proof. intros H. unfold hist_ok, IntegrityStack.vlog. apply vrun_rel; [apply rel_init | exact H]. Qed.
End StackProofs.
