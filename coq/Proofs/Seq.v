(* Facts about the iterator model (Base/Seq.v): the calls made by a represented iterator
   are those of the canonical one, and they obey the protocol against every consumer. *)
From OCI Require Import Base.Seq.

Section SeqFacts.
  Context {E T : Type}.
  Implicit Types (xs : list T) (oe : option E).

  Lemma slice_loop_app {S} xs1 xs2 (y : consumer E T S) s :
    slice_loop (xs1 ++ xs2) y s =
      let (s1, ok) := slice_loop xs1 y s in
      if ok then slice_loop xs2 y s1 else (s1, false).
  Proof.
    revert s; induction xs1 as [|x xs1 IH]; intros s; cbn; [reflexivity|].
    destruct (y (inl x) s) as [s1 ok]. destruct ok; [apply IH | reflexivity].
  Qed.

  Lemma seq_of_app {S} xs1 xs2 oe (y : consumer E T S) s :
    seq_of (xs1 ++ xs2) oe S y s =
      let (s1, ok) := slice_loop xs1 y s in
      if ok then seq_of xs2 oe S y s1 else s1.
  Proof.
    unfold seq_of. rewrite slice_loop_app.
    destruct (slice_loop xs1 y s) as [s1 ok]. destruct ok; reflexivity.
  Qed.

  Lemma seq_of_cons {S} x xs oe (y : consumer E T S) s :
    seq_of (x :: xs) oe S y s =
      let (s1, ok) := y (inl x) s in if ok then seq_of xs oe S y s1 else s1.
  Proof.
    unfold seq_of. cbn. destruct (y (inl x) s) as [s1 ok]. destruct ok; reflexivity.
  Qed.

  (* running the canonical iterator against the logging consumer *)
  Lemma seq_of_logged {S} xs oe (y : consumer E T S) s lg :
    seq_of xs oe _ (logged y) (s, lg) = (seq_of xs oe S y s, lg ++ trace_of xs oe y s).
  Proof.
    revert s lg; induction xs as [|x xs IH]; intros s lg.
    - unfold seq_of, logged. cbn. destruct oe as [e|]; cbn.
      + destruct (y (inr e) s) as [s1 b]. reflexivity.
      + now rewrite app_nil_r.
    - rewrite !seq_of_cons. cbn [trace_of]. unfold logged at 1. cbn [fst snd].
      destruct (y (inl x) s) as [s1 ok]. destruct ok.
      + rewrite IH. now rewrite <- app_assoc.
      + reflexivity.
  Qed.

  Lemma calls_seq_of {S} xs oe (y : consumer E T S) s :
    calls (seq_of xs oe) y s = trace_of xs oe y s.
  Proof. unfold calls. now rewrite seq_of_logged. Qed.

  Lemma final_seq_of {S} xs oe (y : consumer E T S) s :
    final (seq_of xs oe) y s = seq_of xs oe S y s.
  Proof. unfold final. now rewrite seq_of_logged. Qed.

  Lemma calls_represents {S} q xs oe (y : consumer E T S) s :
    represents q xs oe -> calls q y s = trace_of xs oe y s.
  Proof. intros H. unfold calls. rewrite H. now rewrite seq_of_logged. Qed.

  Lemma final_represents {S} q xs oe (y : consumer E T S) s :
    represents q xs oe -> final q y s = q S y s.
  Proof. intros H. unfold final. rewrite !H. now rewrite seq_of_logged. Qed.

  (* ---- the protocol ---- *)

  Lemma protocol_okb_spec (l : list (call E T)) : protocol_okb l = true <-> protocol_ok l.
  Proof.
    induction l as [|c l IH]; cbn; [tauto|]. destruct l as [|d l]; [tauto|].
    rewrite !andb_true_iff, IH. destruct c as [[x|e] b]; cbn; split.
    - intros [[-> _] H]. eauto.
    - intros (-> & _ & H). auto.
    - intros [[_ H] _]. discriminate.
    - intros (_ & [x H] & _). discriminate.
  Qed.

  Lemma protocol_trace_of {S} xs oe (y : consumer E T S) s : protocol_ok (trace_of xs oe y s).
  Proof.
    revert s; induction xs as [|x xs IH]; intros s.
    - cbn. destruct oe; cbn; auto.
    - cbn [trace_of]. destruct (y (inl x) s) as [s1 ok]. destruct ok.
      + specialize (IH s1). cbn [protocol_ok]. destruct (trace_of xs oe y s1); [exact I|].
        cbn. eauto.
      + exact I.
  Qed.

  (* every represented iterator obeys the protocol against every consumer *)
  Theorem protocol_represents {S} q xs oe (y : consumer E T S) s :
    represents q xs oe -> protocol_ok (calls q y s).
  Proof. intros H. rewrite (calls_represents _ _ _ _ _ H). apply protocol_trace_of. Qed.

  (* the items handed over are a prefix of the sequence, in order *)
  Lemma items_trace_of {S} xs oe (y : consumer E T S) s :
    exists n, items_of (trace_of xs oe y s) = firstn n xs.
  Proof.
    revert s; induction xs as [|x xs IH]; intros s.
    - exists O. cbn. destruct oe; reflexivity.
    - cbn [trace_of]. destruct (y (inl x) s) as [s1 ok]. destruct ok.
      + destruct (IH s1) as [n Hn]. exists (Datatypes.S n). cbn. now rewrite <- Hn.
      + exists 1%nat. reflexivity.
  Qed.

  (* answers of a log *)
  Definition all_true (l : list (call E T)) : bool := forallb (fun c => snd c) l.

  (* against a consumer that never declines the iterator delivers everything: the complete
     sequence, then the error if there is one ("complete or ends with an error") *)
  Lemma trace_of_complete {S} xs oe (y : consumer E T S) s :
    all_true (trace_of xs oe y s) = true ->
    map fst (trace_of xs oe y s) = map inl xs ++ match oe with Some e => [inr e] | None => [] end.
  Proof.
    revert s; induction xs as [|x xs IH]; intros s.
    - cbn. destruct oe; reflexivity.
    - cbn [trace_of]. destruct (y (inl x) s) as [s1 ok]. cbn. destruct ok; cbn; [|discriminate].
      intros H. now rewrite IH.
  Qed.

  Lemma trace_of_always xs oe :
    trace_of xs oe always tt =
      map (fun x => (inl x, true)) xs ++ match oe with Some e => [(inr e, true)] | None => [] end.
  Proof.
    induction xs as [|x xs IH]; cbn.
    - destruct oe; reflexivity.
    - now rewrite IH.
  Qed.

  (* a declined call is the last one *)
  Lemma trace_of_stops {S} xs oe (y : consumer E T S) s l1 c l2 :
    trace_of xs oe y s = l1 ++ c :: l2 -> snd c = false -> l2 = [].
  Proof.
    intros Ht Hc. pose proof (protocol_trace_of xs oe y s) as Hp. rewrite Ht in Hp. clear Ht.
    induction l1 as [|d l1 IH]; cbn in Hp.
    - destruct l2; [reflexivity|]. destruct Hp as [H _]. congruence.
    - destruct (l1 ++ c :: l2) eqn:El; [destruct l1; discriminate|].
      destruct Hp as (_ & _ & Hp). auto.
  Qed.

  (* an error is the last call *)
  Lemma trace_of_error_last {S} xs oe (y : consumer E T S) s l1 c l2 :
    trace_of xs oe y s = l1 ++ c :: l2 -> is_item (fst c) = false -> l2 = [].
  Proof.
    intros Ht Hc. pose proof (protocol_trace_of xs oe y s) as Hp. rewrite Ht in Hp. clear Ht.
    induction l1 as [|d l1 IH]; cbn in Hp.
    - destruct l2; [reflexivity|]. destruct Hp as (_ & [x Hx] & _). rewrite Hx in Hc. discriminate.
    - destruct (l1 ++ c :: l2) eqn:El; [destruct l1; discriminate|].
      destruct Hp as (_ & _ & Hp). auto.
  Qed.

  (* ---- the helpers of iter.go ---- *)

  Lemma represents_seq_of xs oe : represents (seq_of xs oe) xs oe.
  Proof. intros S y s. reflexivity. Qed.

  Lemma represents_SliceSeq xs : represents (SliceSeq xs) xs (@None E).
  Proof. intros S y s. unfold SliceSeq, seq_of. destruct (slice_loop xs y s) as [s1 ok]. now destruct ok. Qed.

  Lemma represents_ErrorSeq (e : E) : represents (@ErrorSeq E T e) [] (Some e).
  Proof. intros S y s. reflexivity. Qed.

  Lemma represents_ext (q : Seq E T) xs oe xs' oe' :
    represents q xs oe -> xs = xs' -> oe = oe' -> represents q xs' oe'.
  Proof. intros H -> ->. exact H. Qed.

  Lemma slice_loop_all_cb xs (acc : list T) (o : option E) :
    slice_loop xs all_cb (acc, o) = ((acc ++ xs, o), true).
  Proof.
    revert acc; induction xs as [|x xs IH]; intros acc; cbn.
    - now rewrite app_nil_r.
    - rewrite IH. now rewrite <- app_assoc.
  Qed.

  (* All returns the items and the error of a represented iterator *)
  Lemma All_represents (q : Seq E T) xs oe : represents q xs oe -> All q = (xs, oe).
  Proof.
    intros H. unfold All. rewrite H. unfold seq_of. rewrite slice_loop_all_cb. cbn.
    destruct oe; reflexivity.
  Qed.

  (* a represented iterator has one representation *)
  Lemma represents_unique (q : Seq E T) xs oe xs' oe' :
    represents q xs oe -> represents q xs' oe' -> xs = xs' /\ oe = oe'.
  Proof.
    intros H1 H2. apply All_represents in H1. apply All_represents in H2.
    rewrite H1 in H2. now injection H2.
  Qed.
End SeqFacts.
