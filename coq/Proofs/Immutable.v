(* Proofs about the wrappers of Model/Immutable.v over an ARBITRARY wrapped registry:
   ReadOnly (method-set shadowing; nothing but reads reaches the backend) and Immutable
   (resolve-push-resolve protocol; no delete reaches the backend; tags are stable once
   observed, for every backend that answers ResolveTag from a tag table which only tagged
   pushes and deletes can change). *)
From Coq Require Import String Lia.
From OCI Require Import Model.Immutable Proofs.FilterSelect.

(* ------------------------------------------------------------------------------------ *)
(* Method sets                                                                          *)
(* ------------------------------------------------------------------------------------ *)

(* ReadOnly: the seven Reader methods and the three Lister methods are promoted from the
   shallow embeddings, the other eight fall through to the nil *Funcs; no selector is
   ambiguous or missing, so the struct implements Interface. *)
Lemma readonly_method_set m :
  select_method readonly_fields m =
  if reader_methods m then SelUnique SrcReader
  else if lister_methods m then SelUnique SrcLister
  else SelUnique SrcFuncs.
Proof. destruct m; reflexivity. Qed.

(* Immutable: its own four methods shadow the embedded Interface's; everything else is
   promoted from the embedded Interface. *)
Lemma immutable_method_set m :
  select_method immutable_fields m =
  if immutable_declared m then SelUnique SrcSelf else SelUnique SrcInterface.
Proof. destruct m; reflexivity. Qed.

(* had the registry been embedded at the same depth as the nil table, or the nil table at
   the shallow level, the program would not compile / would pass writes through: the two
   refactorings the property's rationale mentions, evaluated by the same rule *)
Example shallow_interface_passes_writes :
  select_method [ {| f_depth := 1; f_src := SrcInterface; f_has := all_methods_set |};
                  {| f_depth := 2; f_src := SrcFuncs; f_has := all_methods_set |} ] MPushBlob
  = SelUnique SrcInterface.
Proof. reflexivity. Qed.
Example same_depth_is_ambiguous :
  select_method [ {| f_depth := 1; f_src := SrcReader; f_has := reader_methods |};
                  {| f_depth := 1; f_src := SrcLister; f_has := lister_methods |};
                  {| f_depth := 1; f_src := SrcFuncs; f_has := all_methods_set |} ] MGetBlob
  = SelAmbiguous.
Proof. reflexivity. Qed.

Lemma is_read_op_method o m : op_method o = Some m -> is_read_op o = is_read_method m.
Proof. unfold is_read_op. now intros ->. Qed.

(* ------------------------------------------------------------------------------------ *)
(* ReadOnly                                                                             *)
(* ------------------------------------------------------------------------------------ *)

Section ReadOnly.
  Context {B : Type}.
  Variable bstep : registry B.

  (* what ro_step does, method by method *)
  Lemma ro_step_spec st o :
    ro_step bstep st o =
    match op_method o with
    | Some m => if is_read_method m then delegate bstep st o else (st, promoted_result m, [])
    | None => (st, Err no_writer_err, [])
    end.
  Proof.
    unfold ro_step. destruct (op_method o) as [m|]; [|reflexivity].
    unfold run_selected. rewrite readonly_method_set. unfold is_read_method.
    destruct (reader_methods m); [reflexivity|]. destruct (lister_methods m); reflexivity.
  Qed.

  (* a read is exactly the direct call: same result, the backend's new state, one call *)
  Lemma ro_read_forwarded st o :
    is_read_op o = true ->
    ro_step bstep st o = (fst (bstep st o), snd (bstep st o), [o]).
  Proof.
    intros H. rewrite ro_step_spec. unfold is_read_op in H.
    destruct (op_method o) as [m|]; [|discriminate]. rewrite H.
    unfold delegate. destruct (bstep st o); reflexivity.
  Qed.

  (* every mutating method: no backend call, state untouched, the unsupported error *)
  Lemma ro_mutating_unsupported st o m :
    op_method o = Some m -> is_read_method m = false ->
    ro_step bstep st o = (st, promoted_result m, []) /\
    result_error (promoted_result m) = Some (unsupported_err (method_name m)).
  Proof.
    intros Hm Hr. rewrite ro_step_spec, Hm, Hr. split; [reflexivity|].
    rewrite promoted_result_unsupported. destruct m; reflexivity.
  Qed.

  (* an operation that is not a read never reaches the backend *)
  Lemma ro_nonread_untouched st o :
    is_read_op o = false -> fst (fst (ro_step bstep st o)) = st /\ snd (ro_step bstep st o) = [].
  Proof.
    intros H. rewrite ro_step_spec. unfold is_read_op in H.
    destruct (op_method o) as [m|]; [rewrite H|]; split; reflexivity.
  Qed.

  (* over every history the backend sees exactly the reads of the history, in order, with the
     caller's arguments; its final state is the replay of those reads *)
  Theorem ro_trace h : forall st,
    ttrace (ro_step bstep) st h = filter is_read_op h /\
    fst (trun (ro_step bstep) st h) = final bstep st (filter is_read_op h).
  Proof.
    unfold ttrace. induction h as [|o h IH]; intros st; [split; reflexivity|].
    cbn [trun filter].
    destruct (is_read_op o) eqn:E.
    - rewrite (ro_read_forwarded st o E).
      destruct (IH (fst (bstep st o))) as [IH1 IH2].
      destruct (trun (ro_step bstep) (fst (bstep st o)) h) as [s2 rs] eqn:Et.
      cbn [fst snd map concat app] in *. rewrite final_cons. split; [now rewrite IH1 | exact IH2].
    - destruct (ro_nonread_untouched st o E) as [H1 H2].
      destruct (ro_step bstep st o) as [[s1 r] t]. cbn [fst snd] in H1, H2. subst s1 t.
      destruct (IH st) as [IH1 IH2].
      destruct (trun (ro_step bstep) st h) as [s2 rs]. cbn [fst snd map concat app] in *.
      split; assumption.
  Qed.

  (* when reads do not change the wrapped registry, no history through ReadOnly does *)
  Theorem ro_no_change :
    (forall st o, is_read_op o = true -> fst (bstep st o) = st) ->
    forall h st, fst (trun (ro_step bstep) st h) = st.
  Proof.
    intros Hpure h st. rewrite (proj2 (ro_trace h st)).
    induction h as [|o h IH]; [reflexivity|]. cbn [filter].
    destruct (is_read_op o) eqn:E; [|exact IH].
    rewrite final_cons, (Hpure st o E). exact IH.
  Qed.

  (* the registry view of the wrapper, result by result *)
  Lemma ro_forget_spec st o :
    forget (ro_step bstep) st o =
    if is_read_op o then bstep st o
    else (st, match op_method o with Some m => promoted_result m | None => Err no_writer_err end).
  Proof.
    unfold forget. destruct (is_read_op o) eqn:E.
    - rewrite (ro_read_forwarded st o E). cbn. now destruct (bstep st o).
    - rewrite ro_step_spec. unfold is_read_op in E. destruct (op_method o); [rewrite E|]; reflexivity.
  Qed.
End ReadOnly.

(* ------------------------------------------------------------------------------------ *)
(* Immutable                                                                            *)
(* ------------------------------------------------------------------------------------ *)

Section Immutable.
  Context {B : Type}.
  Variable bstep : registry B.
  Variable hash : bytes -> bytes.

  Local Notation imm_step := (imm_step bstep hash).
  Local Notation imm_self := (imm_self bstep hash).

  Lemma imm_step_spec st o :
    imm_step st o =
    match op_method o with
    | Some m => if immutable_declared m then imm_self st o else delegate bstep st o
    | None => delegate bstep st o
    end.
  Proof.
    unfold Immutable.imm_step. destruct (op_method o) as [m|]; [|reflexivity].
    unfold run_selected. rewrite immutable_method_set. now destruct (immutable_declared m).
  Qed.

  (* every delete: refused with ErrDenied, no backend call, state untouched *)
  Lemma imm_delete_denied st o :
    is_delete_op o = true -> imm_step st o = (st, Err ErrDenied, []).
  Proof. intros H. rewrite imm_step_spec. destruct o; try discriminate; reflexivity. Qed.

  (* everything that is not a tagged push or a delete is the direct call *)
  Definition is_tagged_push (o : op) : bool :=
    match o with PushManifest _ (_ :: _) _ _ => true | _ => false end.

  Lemma imm_forwarded st o :
    is_delete_op o = false -> is_tagged_push o = false ->
    imm_step st o = (fst (bstep st o), snd (bstep st o), [o]).
  Proof.
    intros Hd Ht. rewrite imm_step_spec. unfold delegate.
    destruct o; try discriminate; cbn; try (destruct (bstep st _); reflexivity).
    destruct t; [|discriminate]. cbn. unfold delegate. destruct (bstep st _); reflexivity.
  Qed.

  (* the calls a tagged push makes: resolve; or resolve, push; or resolve, push, resolve *)
  Lemma imm_tagged_push_trace st r t c m :
    t <> [] ->
    let o := PushManifest r t c m in
    let tr := snd (imm_step st o) in
    tr = [ResolveTag r t] \/ tr = [ResolveTag r t; o] \/ tr = [ResolveTag r t; o; ResolveTag r t].
  Proof.
    intros Ht. cbn zeta. rewrite imm_step_spec. cbn [op_method immutable_declared Immutable.imm_self].
    destruct t; [congruence|].
    destruct (bstep st (ResolveTag r (n :: t))) as [st1 r1].
    destruct (as_desc r1) as [d| | |]; cbn; auto.
    - destruct (beqb (d_digest d) (hash c)); cbn; auto.
    - destruct (bstep st1 _) as [st2 r2]. destruct (as_desc r2) as [d2| | |]; cbn; auto.
      destruct (bstep st2 _) as [st3 r3]. destruct (as_desc r3) as [d3| | |]; cbn; auto.
      destruct (beqb (d_digest d3) (hash c)); cbn; auto.
  Qed.

  (* no delete ever reaches the backend *)
  Theorem imm_no_delete_in_trace h : forall st c,
    In c (ttrace imm_step st h) -> is_delete_op c = false.
  Proof.
    unfold ttrace. induction h as [|o h IH]; intros st c; cbn [trun]; [intros []|].
    destruct (imm_step st o) as [[s1 r] t] eqn:E.
    specialize (IH s1 c). destruct (trun imm_step s1 h) as [s2 rs]. cbn [snd map concat] in *.
    rewrite in_app_iff. intros [Hc|Hc]; [|auto].
    destruct (is_delete_op o) eqn:Ed.
    { rewrite (imm_delete_denied st o Ed) in E. injection E as _ _ <-. destruct Hc. }
    destruct (is_tagged_push o) eqn:Et.
    - destruct o; try discriminate. destruct t0 as [|n t0]; [discriminate|].
      pose proof (imm_tagged_push_trace st r0 (n :: t0) content media ltac:(discriminate)) as Htr.
      cbn zeta in Htr. rewrite E in Htr. cbn [snd] in Htr.
      destruct Htr as [->|[->| ->]]; cbn in Hc; intuition (subst; reflexivity).
    - rewrite (imm_forwarded st o Ed Et) in E. injection E as _ _ <-.
      destruct Hc as [<-|[]]. exact Ed.
  Qed.

  (* ---- tag stability over a backend with a tag table ---- *)

  (* [tagv st r t]: the digest tag t of repository r is bound to in backend state st.
     What is asked of the backend:
       resolve : ResolveTag answers from the table (success with that digest exactly when
                 the tag is bound) and does not change it;
       frame   : an operation that is neither a delete nor a push under tag (r, t) leaves the
                 binding of (r, t) alone. *)
  Variable tagv : B -> bytes -> bytes -> option bytes.

  Definition touches (o : op) (r t : bytes) : bool :=
    match o with
    | PushManifest r' (n :: t') _ _ => beqb r' r && beqb (n :: t') t
    | _ => false
    end.

  Hypothesis resolve_answers : forall st r t,
    match tagv st r t with
    | Some d => exists de, snd (bstep st (ResolveTag r t)) = Ok (RDesc de) /\ d_digest de = d
    | None => exists e, snd (bstep st (ResolveTag r t)) = Err e
    end.
  Hypothesis frame : forall st o r t,
    is_delete_op o = false -> touches o r t = false ->
    tagv (fst (bstep st o)) r t = tagv st r t.

  Lemma resolve_frame st r t r' t' :
    tagv (fst (bstep st (ResolveTag r t))) r' t' = tagv st r' t'.
  Proof. apply frame; reflexivity. Qed.

  (* one step of the wrapper keeps every binding *)
  Theorem imm_binding_kept st o r t d :
    tagv st r t = Some d -> tagv (fst (fst (imm_step st o))) r t = Some d.
  Proof.
    intros Hb. destruct (is_delete_op o) eqn:Ed.
    { now rewrite (imm_delete_denied st o Ed). }
    destruct (is_tagged_push o) eqn:Et.
    2:{ rewrite (imm_forwarded st o Ed Et). cbn [fst]. rewrite frame; auto.
        destruct o; try reflexivity. destruct t0; [reflexivity|discriminate]. }
    destruct o; try discriminate. destruct t0 as [|n t0]; [discriminate|].
    rewrite imm_step_spec. cbn [op_method immutable_declared Immutable.imm_self].
    pose proof (resolve_frame st r0 (n :: t0)) as Hf1.
    pose proof (resolve_answers st r0 (n :: t0)) as Ha.
    destruct (bstep st (ResolveTag r0 (n :: t0))) as [st1 r1] eqn:E1. cbn [fst snd] in *.
    destruct (beqb r0 r && beqb (n :: t0) t) eqn:Esame.
    - (* the pushed tag is the bound one: the first resolve succeeds, nothing is pushed *)
      apply andb_true_iff in Esame as [Hr Ht]. apply beqb_eq in Hr, Ht. subst r t.
      rewrite Hb in Ha. destruct Ha as [de [-> _]]. cbn [as_desc].
      destruct (beqb (d_digest de) (hash content)); cbn [fst]; now rewrite Hf1.
    - assert (Htouch : touches (PushManifest r0 (n :: t0) content media) r t = false).
      { cbn [touches]. exact Esame. }
      destruct (as_desc r1) as [de| | |]; cbn [fst].
      + destruct (beqb (d_digest de) (hash content)); cbn [fst]; now rewrite Hf1.
      + pose proof (frame st1 (PushManifest r0 (n :: t0) content media) r t eq_refl Htouch) as Hf2.
        destruct (bstep st1 (PushManifest r0 (n :: t0) content media)) as [st2 r2]. cbn [fst] in Hf2.
        destruct (as_desc r2) as [d2| | |]; cbn [fst]; try (now rewrite Hf2, Hf1).
        pose proof (resolve_frame st2 r0 (n :: t0) r t) as Hf3.
        destruct (bstep st2 (ResolveTag r0 (n :: t0))) as [st3 r3]. cbn [fst] in Hf3.
        destruct (as_desc r3) as [d3| | |]; cbn [fst]; try (now rewrite Hf3, Hf2, Hf1).
        destruct (beqb (d_digest d3) (hash content)); cbn [fst]; now rewrite Hf3, Hf2, Hf1.
      + now rewrite Hf1.
      + now rewrite Hf1.
  Qed.

  (* a successful tagged push through the wrapper leaves the tag bound to the digest of the
     pushed bytes *)
  Theorem imm_push_binds st r t c m de :
    t <> [] ->
    snd (fst (imm_step st (PushManifest r t c m))) = Ok (RDesc de) ->
    d_digest de = hash c /\ tagv (fst (fst (imm_step st (PushManifest r t c m)))) r t = Some (hash c).
  Proof.
    intros Ht. destruct t as [|n t]; [congruence|].
    rewrite imm_step_spec. cbn [op_method immutable_declared Immutable.imm_self].
    pose proof (resolve_frame st r (n :: t) r (n :: t)) as Hf1.
    pose proof (resolve_answers st r (n :: t)) as Ha.
    destruct (bstep st (ResolveTag r (n :: t))) as [st1 r1] eqn:E1. cbn [fst snd] in *.
    destruct (as_desc r1) as [d1| | |] eqn:Ed1; cbn [fst snd]; try discriminate.
    - destruct (beqb (d_digest d1) (hash c)) eqn:Eb; cbn [fst snd]; [|discriminate].
      intros H; injection H as <-. apply beqb_eq in Eb. split; [exact Eb|].
      rewrite Hf1. destruct (tagv st r (n :: t)) as [d|].
      + destruct Ha as [de [-> Hd]]. cbn in Ed1. injection Ed1 as ->. congruence.
      + destruct Ha as [e0 ->]. discriminate.
    - destruct (bstep st1 (PushManifest r (n :: t) c m)) as [st2 r2].
      destruct (as_desc r2) as [d2| | |]; cbn [fst snd]; try discriminate.
      pose proof (resolve_answers st2 r (n :: t)) as Ha3.
      pose proof (resolve_frame st2 r (n :: t) r (n :: t)) as Hf3.
      destruct (bstep st2 (ResolveTag r (n :: t))) as [st3 r3]. cbn [fst snd] in *.
      destruct (as_desc r3) as [d3| | |] eqn:Ed3; cbn [fst snd]; try discriminate.
      destruct (beqb (d_digest d3) (hash c)) eqn:Eb; cbn [fst snd]; [|discriminate].
      intros H; injection H as <-. apply beqb_eq in Eb. split; [exact Eb|].
      rewrite Hf3. destruct (tagv st2 r (n :: t)) as [d|].
      + destruct Ha3 as [de [-> Hd]]. cbn in Ed3. injection Ed3 as ->. congruence.
      + destruct Ha3 as [e0 ->]. discriminate.
  Qed.

  (* over every history: a binding, once there, is there after any continuation *)
  Theorem imm_binding_forever h : forall st r t d,
    tagv st r t = Some d -> tagv (fst (trun imm_step st h)) r t = Some d.
  Proof.
    induction h as [|o h IH]; intros st r t d Hb; [exact Hb|]. cbn [trun].
    pose proof (imm_binding_kept st o r t d Hb) as H1.
    destruct (imm_step st o) as [[s1 res] tr]. cbn [fst] in H1.
    specialize (IH s1 r t d H1). destruct (trun imm_step s1 h). exact IH.
  Qed.

  (* a ResolveTag through the wrapper is the backend's *)
  Lemma imm_resolve st r t :
    imm_step st (ResolveTag r t) = (fst (bstep st (ResolveTag r t)), snd (bstep st (ResolveTag r t)), [ResolveTag r t]).
  Proof. apply imm_forwarded; reflexivity. Qed.

  (* the statement of the property, on results: once ResolveTag r t answered digest d (at
     any point of any history through the wrapper), every later ResolveTag r t answers d *)
  Theorem imm_tag_forever h1 h2 st r t de :
    let '(s1, _) := trun imm_step st h1 in
    snd (fst (imm_step s1 (ResolveTag r t))) = Ok (RDesc de) ->
    let s1' := fst (fst (imm_step s1 (ResolveTag r t))) in
    let '(s2, _) := trun imm_step s1' h2 in
    exists de', snd (fst (imm_step s2 (ResolveTag r t))) = Ok (RDesc de') /\ d_digest de' = d_digest de.
  Proof.
    destruct (trun imm_step st h1) as [s1 rs1]. rewrite !imm_resolve. cbn [fst snd].
    intros Hres.
    assert (Hb : tagv s1 r t = Some (d_digest de)).
    { pose proof (resolve_answers s1 r t) as Ha. destruct (tagv s1 r t) as [d|].
      - destruct Ha as [de0 [H1 H2]]. rewrite H1 in Hres. injection Hres as <-. now subst.
      - destruct Ha as [e H1]. rewrite H1 in Hres. discriminate. }
    pose proof (imm_binding_forever h2 (fst (bstep s1 (ResolveTag r t))) r t (d_digest de)) as Hf.
    rewrite resolve_frame in Hf. specialize (Hf Hb).
    destruct (trun imm_step (fst (bstep s1 (ResolveTag r t))) h2) as [s2 rs2]. cbn [fst] in Hf.
    rewrite imm_resolve. cbn [fst snd].
    pose proof (resolve_answers s2 r t) as Ha. rewrite Hf in Ha. exact Ha.
  Qed.
End Immutable.

(* the backend state after one wrapper call is the replay of the calls it made, and none of
   them is a delete *)
Section Replay.
  Context {B : Type}.
  Variable bstep : registry B.
  Variable hash : bytes -> bytes.

  Lemma imm_state_replay st o :
    fst (fst (imm_step bstep hash st o)) = final bstep st (snd (imm_step bstep hash st o)).
  Proof.
    destruct (is_delete_op o) eqn:Ed.
    { rewrite (imm_delete_denied bstep hash st o Ed). reflexivity. }
    destruct (is_tagged_push o) eqn:Et.
    2:{ rewrite (imm_forwarded bstep hash st o Ed Et). cbn [fst snd]. unfold final. cbn.
        now destruct (bstep st o). }
    destruct o; try discriminate. destruct t as [|n t]; [discriminate|].
    rewrite imm_step_spec. cbn [op_method immutable_declared Model.Immutable.imm_self].
    unfold final.
    destruct (bstep st (ResolveTag r (n :: t))) as [st1 r1] eqn:E1.
    destruct (as_desc r1) as [d| | |]; cbn [fst snd run]; rewrite ?E1; try reflexivity.
    - destruct (beqb (d_digest d) (hash content)); cbn [fst snd run]; rewrite ?E1; reflexivity.
    - destruct (bstep st1 (PushManifest r (n :: t) content media)) as [st2 r2] eqn:E2.
      destruct (as_desc r2) as [d2| | |]; cbn [fst snd run]; rewrite ?E1, ?E2; try reflexivity.
      destruct (bstep st2 (ResolveTag r (n :: t))) as [st3 r3] eqn:E3.
      destruct (as_desc r3) as [d3| | |]; cbn [fst snd run]; rewrite ?E1, ?E2, ?E3; try reflexivity.
      destruct (beqb (d_digest d3) (hash content)); cbn [fst snd run]; rewrite ?E1, ?E2, ?E3; reflexivity.
  Qed.

  Lemma imm_step_no_delete st o c :
    In c (snd (imm_step bstep hash st o)) -> is_delete_op c = false.
  Proof.
    intros H. apply (imm_no_delete_in_trace bstep hash [o] st c).
    unfold ttrace. cbn [trun]. destruct (imm_step bstep hash st o) as [[s1 r] t].
    cbn [snd map concat] in *. now rewrite app_nil_r.
  Qed.
End Replay.

(* ------------------------------------------------------------------------------------ *)
(* Tag stability, one tag at a time: a backend that other writers use as well            *)
(* ------------------------------------------------------------------------------------ *)

(* The theorems of Section Immutable ask the frame condition of every tag.  A registry that
   somebody else writes to while the wrapper is in use (a rival client whose push lands between
   two backend calls of the wrapper) does not meet it for the tags the rival pushes; it does
   meet it for every other tag.  The same theorems therefore, for ONE tag (r, t):
       resolve_at : ResolveTag r t answers from the binding of (r, t);
       frame_at   : an operation that is neither a delete nor a push under (r, t) leaves the
                    binding of (r, t) alone - whatever else the backend does while serving it. *)
Section ImmutableAt.
  Context {B : Type}.
  Variable bstep : registry B.
  Variable hash : bytes -> bytes.
  Variable r t : bytes.
  Variable tagv : B -> option bytes.

  Local Notation imm_step := (imm_step bstep hash).

  Hypothesis resolve_at : forall st,
    match tagv st with
    | Some d => exists de, snd (bstep st (ResolveTag r t)) = Ok (RDesc de) /\ d_digest de = d
    | None => exists e, snd (bstep st (ResolveTag r t)) = Err e
    end.
  Hypothesis frame_at : forall st o,
    is_delete_op o = false -> touches o r t = false -> tagv (fst (bstep st o)) = tagv st.

  Lemma resolve_frame_at st r' t' : tagv (fst (bstep st (ResolveTag r' t'))) = tagv st.
  Proof. apply frame_at; reflexivity. Qed.

  Theorem imm_binding_kept_at st o d :
    tagv st = Some d -> tagv (fst (fst (imm_step st o))) = Some d.
  Proof.
    intros Hb. destruct (is_delete_op o) eqn:Ed.
    { now rewrite (imm_delete_denied bstep hash st o Ed). }
    destruct (is_tagged_push o) eqn:Et.
    2:{ rewrite (imm_forwarded bstep hash st o Ed Et). cbn [fst]. rewrite frame_at; auto.
        destruct o; try reflexivity. destruct t0; [reflexivity|discriminate]. }
    destruct o; try discriminate. destruct t0 as [|n t0]; [discriminate|].
    rewrite imm_step_spec. cbn [op_method immutable_declared Immutable.imm_self].
    pose proof (resolve_frame_at st r0 (n :: t0)) as Hf1.
    destruct (beqb r0 r && beqb (n :: t0) t) eqn:Esame.
    - apply andb_true_iff in Esame as [Hr Ht]. apply beqb_eq in Hr, Ht. subst r0 t.
      pose proof (resolve_at st) as Ha.
      destruct (bstep st (ResolveTag r (n :: t0))) as [st1 r1] eqn:E1. cbn [fst snd] in *.
      rewrite Hb in Ha. destruct Ha as [de [-> _]]. cbn [as_desc].
      destruct (beqb (d_digest de) (hash content)); cbn [fst]; now rewrite Hf1.
    - assert (Htouch : touches (PushManifest r0 (n :: t0) content media) r t = false).
      { cbn [touches]. exact Esame. }
      destruct (bstep st (ResolveTag r0 (n :: t0))) as [st1 r1] eqn:E1. cbn [fst snd] in *.
      destruct (as_desc r1) as [de| | |]; cbn [fst].
      + destruct (beqb (d_digest de) (hash content)); cbn [fst]; now rewrite Hf1.
      + pose proof (frame_at st1 (PushManifest r0 (n :: t0) content media) eq_refl Htouch) as Hf2.
        destruct (bstep st1 (PushManifest r0 (n :: t0) content media)) as [st2 r2]. cbn [fst] in Hf2.
        destruct (as_desc r2) as [d2| | |]; cbn [fst]; try (now rewrite Hf2, Hf1).
        pose proof (resolve_frame_at st2 r0 (n :: t0)) as Hf3.
        destruct (bstep st2 (ResolveTag r0 (n :: t0))) as [st3 r3]. cbn [fst] in Hf3.
        destruct (as_desc r3) as [d3| | |]; cbn [fst]; try (now rewrite Hf3, Hf2, Hf1).
        destruct (beqb (d_digest d3) (hash content)); cbn [fst]; now rewrite Hf3, Hf2, Hf1.
      + now rewrite Hf1.
      + now rewrite Hf1.
  Qed.

  Theorem imm_push_binds_at st c m de :
    t <> [] ->
    snd (fst (imm_step st (PushManifest r t c m))) = Ok (RDesc de) ->
    d_digest de = hash c /\ tagv (fst (fst (imm_step st (PushManifest r t c m)))) = Some (hash c).
  Proof.
    intros Ht. rewrite imm_step_spec. cbn [op_method immutable_declared].
    assert (Hne : exists n t0, t = n :: t0) by (destruct t as [|n t0]; [congruence | eauto]).
    destruct Hne as [n [t0 Et]]. rewrite Et. cbn [Immutable.imm_self]. clear Ht. rewrite <- Et. clear Et n t0.
    pose proof (resolve_frame_at st r t) as Hf1.
    pose proof (resolve_at st) as Ha.
    destruct (bstep st (ResolveTag r t)) as [st1 r1] eqn:E1. cbn [fst snd] in *.
    destruct (as_desc r1) as [d1| | |] eqn:Ed1; cbn [fst snd]; try discriminate.
    - destruct (beqb (d_digest d1) (hash c)) eqn:Eb; cbn [fst snd]; [|discriminate].
      intros H; injection H as <-. apply beqb_eq in Eb. split; [exact Eb|].
      rewrite Hf1. destruct (tagv st) as [d|].
      + destruct Ha as [de [-> Hd]]. cbn in Ed1. injection Ed1 as ->. congruence.
      + destruct Ha as [e0 ->]. discriminate.
    - destruct (bstep st1 (PushManifest r t c m)) as [st2 r2].
      destruct (as_desc r2) as [d2| | |]; cbn [fst snd]; try discriminate.
      pose proof (resolve_at st2) as Ha3.
      pose proof (resolve_frame_at st2 r t) as Hf3.
      destruct (bstep st2 (ResolveTag r t)) as [st3 r3]. cbn [fst snd] in *.
      destruct (as_desc r3) as [d3| | |] eqn:Ed3; cbn [fst snd]; try discriminate.
      destruct (beqb (d_digest d3) (hash c)) eqn:Eb; cbn [fst snd]; [|discriminate].
      intros H; injection H as <-. apply beqb_eq in Eb. split; [exact Eb|].
      rewrite Hf3. destruct (tagv st2) as [d|].
      + destruct Ha3 as [de [-> Hd]]. cbn in Ed3. injection Ed3 as ->. congruence.
      + destruct Ha3 as [e0 ->]. discriminate.
  Qed.

  Theorem imm_binding_forever_at h : forall st d,
    tagv st = Some d -> tagv (fst (trun imm_step st h)) = Some d.
  Proof.
    induction h as [|o h IH]; intros st d Hb; [exact Hb|]. cbn [trun].
    pose proof (imm_binding_kept_at st o d Hb) as H1.
    destruct (imm_step st o) as [[s1 res] tr]. cbn [fst] in H1.
    specialize (IH s1 d H1). destruct (trun imm_step s1 h). exact IH.
  Qed.

  (* once ResolveTag r t answered digest d through the wrapper, every later ResolveTag r t
     through the wrapper answers d - whatever was pushed under other tags in between, by the
     wrapper's user or by anybody else *)
  Theorem imm_tag_forever_at h1 h2 st de :
    let '(s1, _) := trun imm_step st h1 in
    snd (fst (imm_step s1 (ResolveTag r t))) = Ok (RDesc de) ->
    let s1' := fst (fst (imm_step s1 (ResolveTag r t))) in
    let '(s2, _) := trun imm_step s1' h2 in
    exists de', snd (fst (imm_step s2 (ResolveTag r t))) = Ok (RDesc de') /\ d_digest de' = d_digest de.
  Proof.
    destruct (trun imm_step st h1) as [s1 rs1]. rewrite !imm_resolve. cbn [fst snd].
    intros Hres.
    assert (Hb : tagv s1 = Some (d_digest de)).
    { pose proof (resolve_at s1) as Ha. destruct (tagv s1) as [d|].
      - destruct Ha as [de0 [H1 H2]]. rewrite H1 in Hres. injection Hres as <-. now subst.
      - destruct Ha as [e H1]. rewrite H1 in Hres. discriminate. }
    pose proof (imm_binding_forever_at h2 (fst (bstep s1 (ResolveTag r t))) (d_digest de)) as Hf.
    rewrite resolve_frame_at in Hf. specialize (Hf Hb).
    destruct (trun imm_step (fst (bstep s1 (ResolveTag r t))) h2) as [s2 rs2]. cbn [fst] in Hf.
    rewrite imm_resolve. cbn [fst snd].
    pose proof (resolve_at s2) as Ha. rewrite Hf in Ha. exact Ha.
  Qed.
End ImmutableAt.
