(* C03: the history theorem for the stack of Obs/StackRun.v in front of the in-memory registry
   ([one_hop orc more false sv cc] against [mem_step orc false]), from [mem_conforming]
   (Proofs/StackMem.v) and [history_transparent_run] (Proofs/StackHistoryRun.v); and a concrete
   oracle table and history on which every hypothesis holds (the hypotheses are satisfiable). *)
From Coq Require Import String.
From OCI Require Import Obs.StackRun Proofs.StackStep Proofs.StackHistory Proofs.StackHistoryRun Proofs.StackMem.
From OCI Require Import Proofs.StackTwoHops Proofs.RequestCodec Proofs.StackRange Proofs.StackTransparent.

Local Open Scope Z_scope.

Section MemRun.
  Variable orc : oracles.
  Variable more : list (bytes * bytes * bytes).
  Variable sv : opts.
  Variable cc : ccfg.

  Notation so := (soracles_of orc more).
  Notation mback := (mstep orc).

  Definition mem_admissible : state -> list op -> Prop :=
    admissible (so_linked so) (so_hash so) (so_subject so) enc0 state mback sv cc.

  (* every history of the one-call methods, outside the recorded deviations, gives equivalent
     answers through the stack and directly, and leaves the same store behind *)
  Theorem mem_history_transparent h :
    orc_sane orc more -> o_locs sv = None -> (1 <= cc_bufsz cc)%nat ->
    mem_admissible init h ->
    Forall3 result_equiv h (snd (run (registry_of_backend mback) init h))
                           (snd (run (one_hop orc more false sv cc) (sstate0 init) h))
    /\ simM (fst (run (registry_of_backend mback) init h))
            (sv_b (st_srv (fst (run (one_hop orc more false sv cc) (sstate0 init) h)))).
  Proof.
    intros Hs Hl Hk Ha. unfold one_hop.
    apply (history_transparent_run so sv cc state mback (InvM orc) simM init h
             (mem_conforming orc more Hs sv) Hl Hk (invm_init orc) Ha).
  Qed.
End MemRun.

Print Assumptions mem_history_transparent.

(* ================================================================ the hypotheses are satisfiable *)

Module Example.
  Import Smoke.

  Lemma alookup3 {V} (c k1 k2 k3 : bytes) (v1 v2 v3 : V) (P : option V -> Prop) :
    (c = k1 -> P (Some v1)) -> (c = k2 -> P (Some v2)) -> (c = k3 -> P (Some v3)) ->
    (c <> k1 -> c <> k2 -> c <> k3 -> P None) ->
    P (alookup c [(k1, v1); (k2, v2); (k3, v3)]).
  Proof.
    intros H1 H2 H3 H4. cbn [alookup].
    destruct (beqb c k1) eqn:E1; [apply H1; now apply beqb_eq|].
    destruct (beqb c k2) eqn:E2; [apply H2; now apply beqb_eq|].
    destruct (beqb c k3) eqn:E3; [apply H3; now apply beqb_eq|].
    apply H4; now apply beqb_neq.
  Qed.

  (* the oracle tables of the smoke test are consistent *)
  Lemma smoke_sane : orc_sane orc [].
  Proof.
    constructor.
    - intros d H. apply mem_bytes_In in H. cbn [o_digests orc In] in H.
      destruct H as [<-|[<-|[<-|[]]]]; vm_compute; reflexivity.
    - intros r H. apply mem_bytes_In in H. cbn [o_repos orc In] in H.
      destruct H as [<-|[<-|[]]]; (split; [discriminate | vm_compute; reflexivity]).
    - intros t H. apply mem_bytes_In in H. cbn [o_tags orc In] in H.
      destruct H as [<-|[]]; (split; [discriminate | vm_compute; reflexivity]).
    - intros c. unfold orc_hash, digest_of, orc_hashhex. cbn [hash_lookup o_hash orc].
      change (beqb sha256_name sha256_name) with true. cbn iota.
      apply (alookup3 c blob1 blob2 man1 (dg blob1) (dg blob2) (dg man1)
               (fun x => Request.vdigest (fun _ => true) (match x with Some d => d | None => s "?unknown-content" end) = true ->
                         match x with Some d => d | None => s "?unknown-content" end
                         = sha256_prefix ++ match x with Some d => skipn 7 d | None => [63%N] end)).
      + intros _ _. reflexivity.
      + intros _ _. reflexivity.
      + intros _ _. reflexivity.
      + intros _ _ _ H. vm_compute in H. discriminate H.
    - intros a b. unfold orc_hash. cbn [o_hash orc].
      apply (alookup3 a blob1 blob2 man1 (dg blob1) (dg blob2) (dg man1)
               (fun x => match x with Some d => d | None => s "?unknown-content" end
                         = match alookup b [(blob1, dg blob1); (blob2, dg blob2); (man1, dg man1)] with
                           | Some d => d | None => s "?unknown-content" end ->
                         Request.vdigest (fun _ => true) (match x with Some d => d | None => s "?unknown-content" end) = true ->
                         a = b)).
      4:{ intros _ _ _ _ H. vm_compute in H. discriminate H. }
      all: intros -> ;
        apply (alookup3 b blob1 blob2 man1 (dg blob1) (dg blob2) (dg man1)
                 (fun y => _ = match y with Some d => d | None => s "?unknown-content" end -> _ -> _ = b));
        try (intros -> _ _; reflexivity);
        try (intros _ H _; vm_compute in H; discriminate H);
        try (intros _ _ _ H _; vm_compute in H; discriminate H).
  Qed.

  Definition hist1 : list op :=
    [ PushBlob repo1 (bdesc blob1) blob1;
      ResolveBlob repo1 (dg blob1);
      GetBlob repo1 (dg blob1);
      GetBlobRange repo1 (dg blob1) 5 50;
      PushManifest repo1 tag1 man1 mt;
      GetTag repo1 tag1;
      ResolveTag repo1 tag1;
      MountBlob repo1 repo2 (dg blob1);
      DeleteTag repo1 tag1;
      GetTag repo1 tag1;
      DeleteBlob repo2 (dg blob1);
      ResolveBlob repo2 (dg blob1) ].

  Lemma admissible_cons l h s e St (bs : backend St) o cc b c rest b' :
  ok_step l h s e St bs o cc b c (snd (bs b c)) -> b' = fst (bs b c) ->
  admissible l h s e St bs o cc b' rest -> admissible l h s e St bs o cc b (c :: rest).
  Proof. intros H1 -> H2. split; assumption. Qed.

  Ltac le_max := vm_compute; discriminate.
  Ltac bools := repeat split; vm_compute; reflexivity.
  Ltac sizes := vm_compute; try split; discriminate.

  Lemma hist1_admissible : mem_admissible orc [] default_opts default_ccfg init hist1.
  Proof.
    unfold mem_admissible, hist1.
    (* PushBlob *)
    eapply admissible_cons; [|vm_compute; reflexivity|].
    { split; [reflexivity|]. split; [cbn [wf_op]; repeat split; try (vm_compute; reflexivity); le_max|].
      split; [sizes|]. eexists. vm_compute. reflexivity. }
    (* ResolveBlob *)
    eapply admissible_cons; [|vm_compute; reflexivity|].
    { split; [reflexivity|]. split; [bools|]. split; [sizes | exact I]. }
    (* GetBlob *)
    eapply admissible_cons; [|vm_compute; reflexivity|].
    { split; [reflexivity|]. split; [bools|]. split; [sizes | exact I]. }
    (* GetBlobRange *)
    eapply admissible_cons; [|vm_compute; reflexivity|].
    { split; [reflexivity|]. split.
      - cbn [wf_op]. split; [vm_compute; reflexivity|]. split; [vm_compute; reflexivity|].
        unfold expressible, Request.max_int64. lia.
      - split; [sizes | exact I]. }
    (* PushManifest *)
    eapply admissible_cons; [|vm_compute; reflexivity|].
    { split; [reflexivity|]. split.
      - cbn [wf_op]. split; [vm_compute; reflexivity|]. split; [left; vm_compute; reflexivity|].
        split; [discriminate|]. vm_compute. discriminate.
      - split; [sizes | exact I]. }
    (* GetTag *)
    eapply admissible_cons; [|vm_compute; reflexivity|].
    { split; [reflexivity|]. split; [bools|]. split; [sizes|]. intros H. discriminate H. }
    (* ResolveTag *)
    eapply admissible_cons; [|vm_compute; reflexivity|].
    { split; [reflexivity|]. split; [bools|]. split; [sizes | exact I]. }
    (* MountBlob *)
    eapply admissible_cons; [|vm_compute; reflexivity|].
    { split; [reflexivity|]. split; [bools|]. split; [sizes | exact I]. }
    (* DeleteTag *)
    eapply admissible_cons; [|vm_compute; reflexivity|].
    { split; [reflexivity|]. split; [bools|]. split; [sizes | exact I]. }
    (* GetTag: fails *)
    eapply admissible_cons; [|vm_compute; reflexivity|].
    { split; [reflexivity|]. split; [bools|]. split; [vm_compute; exact I|]. intros H. discriminate H. }
    (* DeleteBlob *)
    eapply admissible_cons; [|vm_compute; reflexivity|].
    { split; [reflexivity|]. split; [bools|]. split; [sizes | exact I]. }
    (* ResolveBlob: fails *)
    eapply admissible_cons; [|vm_compute; reflexivity|].
    { split; [reflexivity|]. split; [bools|]. split; [vm_compute; exact I | exact I]. }
    exact I.
  Qed.

  (* ... and so the theorem applies to it *)
  Example hist1_transparent :
    Forall3 result_equiv hist1
      (snd (run (registry_of_backend (mstep orc)) init hist1))
      (snd (run (one_hop orc [] false default_opts default_ccfg) (sstate0 init) hist1))
    /\ simM (fst (run (registry_of_backend (mstep orc)) init hist1))
            (sv_b (st_srv (fst (run (one_hop orc [] false default_opts default_ccfg) (sstate0 init) hist1)))).
  Proof.
    apply mem_history_transparent; [apply smoke_sane | reflexivity | vm_compute; lia | apply hist1_admissible].
  Qed.
End Example.

Print Assumptions Example.smoke_sane.
Print Assumptions Example.hist1_transparent.
