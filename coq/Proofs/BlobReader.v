(* Proofs about Model/BlobReader.v:

     drain_clean_sound            any script at all: a clean EOF from a verifying reader means
                                  the relayed bytes have the descriptor's length and digest;
                                  from a non-verifying one, that they are not longer than it
     drain_deliver                every way of cutting a body into reads: the exact outcome
     verified_clean_iff, unverified_clean_iff, early_failure, never_hangs
     after_last / Content-Range   the client recovers the total the server wrote
     parse_client_range           the server parses the client's Range header back to (o0, o1)
     server/client composition    one HTTP hop in front of a backend returns the backend's
                                  bytes and whole-blob size, or an error *)
From Coq Require Import String.
From OCI Require Import Model.RangeCodec Proofs.RangeCodec Model.BlobReader.

Local Open Scope Z_scope.

Lemma blen_app a b : blen (a ++ b) = blen a + blen b.
Proof. unfold blen. rewrite app_length. lia. Qed.
Lemma blen_nonneg a : 0 <= blen a.
Proof. unfold blen. lia. Qed.
Lemma blen_nil : blen [] = 0.
Proof. reflexivity. Qed.

Section ReaderProofs.
  Variable valid_digest : bytes -> bool.
  Variable hashd : bytes -> bytes -> bytes.

  Local Notation br_read := (br_read hashd).
  Local Notation drain := (drain hashd).

  Definition size_of (r : br) : Z := d_size (br_desc r).
  Definition digest_of (r : br) : bytes := d_digest (br_desc r).

  Lemma br_read_fields r chunk e :
    let r' := fst (br_read r chunk e) in
    br_n r' = br_n r + blen chunk /\ br_acc r' = br_acc r ++ chunk /\
    br_desc r' = br_desc r /\ br_verify r' = br_verify r.
  Proof.
    unfold BlobReader.br_read. destruct e; cbn.
    - destruct (_ >? _); cbn; auto.
    - destruct (negb (br_verify r)); [destruct (_ >? _); cbn; auto|].
      destruct (negb (_ =? _)); [cbn; auto|]. destruct (negb (beqb _ _)); cbn; auto.
    - auto.
  Qed.

  (* ---- soundness, for every script ---- *)

  Lemma drain_clean_sound sc : forall r data out,
    drain r sc data = DClean out ->
    exists relayed, out = data ++ relayed /\
      (br_verify r = true ->
         br_n r + blen relayed = size_of r /\ hashd (br_alg r) (br_acc r ++ relayed) = digest_of r) /\
      (br_verify r = false -> br_n r + blen relayed <= size_of r).
  Proof.
    induction sc as [|[chunk e] rest IH]; intros r data out; cbn [BlobReader.drain]; [discriminate|].
    destruct (br_read_fields r chunk e) as (Fn & Fa & Fd & Fv).
    destruct (br_read r chunk e) as [r' res] eqn:ER. cbn [fst] in *.
    destruct res; try discriminate.
    - (* the read returned nil: continue *)
      intros H. destruct (IH _ _ _ H) as [rel [E [Hv Hu]]]. exists (chunk ++ rel).
      unfold size_of, digest_of, br_alg in *. rewrite Fd, Fv, Fn, Fa in *.
      rewrite <- app_assoc in E. rewrite <- app_assoc in Hv. rewrite blen_app.
      split; [exact E|]. split; intros Hb.
      + destruct (Hv Hb) as [A B]. split; [lia | exact B].
      + specialize (Hu Hb). lia.
    - (* the read returned io.EOF *)
      intros H; injection H as <-. exists chunk. split; [reflexivity|].
      unfold BlobReader.br_read in ER. destruct e.
      + destruct (_ >? _); discriminate.
      + unfold size_of, digest_of. cbn [br_n br_acc] in ER.
        destruct (br_verify r) eqn:EV; cbn [negb] in ER.
        * destruct (br_n r + blen chunk =? d_size (br_desc r)) eqn:E1; cbn [negb] in ER; [|discriminate].
          destruct (beqb _ _) eqn:E2; cbn [negb] in ER; [|discriminate].
          apply Z.eqb_eq in E1. apply beqb_eq in E2. split; [auto | discriminate].
        * destruct (br_n r + blen chunk >? d_size (br_desc r)) eqn:E1; [discriminate|].
          rewrite Z.gtb_ltb in E1. apply Z.ltb_ge in E1. split; [discriminate | auto].
      + discriminate.
  Qed.

  Lemma new_blob_reader_ok de v r :
    new_blob_reader de v = Ok r -> r = {| br_n := 0; br_acc := []; br_desc := de; br_verify := v |}.
  Proof. unfold new_blob_reader. destruct (alg_ok (d_digest de)); congruence. Qed.

  (* C01 theorem 4, soundness: whatever the underlying reader does, a read that ends in a
     clean EOF has relayed bytes of the descriptor's size and digest *)
  Theorem blobreader_sound de r sc data :
    new_blob_reader de true = Ok r -> drain r sc [] = DClean data ->
    blen data = d_size de /\ hashd (br_alg r) data = d_digest de.
  Proof.
    intros Hn Hd. apply new_blob_reader_ok in Hn. subst r.
    destruct (drain_clean_sound _ _ _ _ Hd) as [rel [E [Hv _]]]. cbn in *. subst data.
    destruct (Hv eq_refl) as [A B]. auto.
  Qed.

  (* the reader of a range read: never more bytes than the whole blob *)
  Theorem blobreader_unverified_sound de r sc data :
    new_blob_reader de false = Ok r -> drain r sc [] = DClean data -> blen data <= d_size de.
  Proof.
    intros Hn Hd. apply new_blob_reader_ok in Hn. subst r.
    destruct (drain_clean_sound _ _ _ _ Hd) as [rel [E [_ Hu]]]. cbn in *. subst data.
    apply (Hu eq_refl).
  Qed.

  (* ---- every delivery of a body ---- *)

  (* the body cut into [parts], each delivered with a nil error, then [last] (possibly
     empty) delivered together with io.EOF *)
  Definition deliver (parts : list bytes) (last : bytes) : script :=
    map (fun p => (p, RNil)) parts ++ [(last, REOF)].

  Definition body_of (parts : list bytes) (last : bytes) : bytes := concat parts ++ last.

  (* the bytes relayed up to and including the first non-final read that takes the count
     beyond [size] *)
  Fixpoint cross (n size : Z) (parts : list bytes) (acc : bytes) : option bytes :=
    match parts with
    | [] => None
    | p :: ps => if n + blen p >? size then Some (acc ++ p) else cross (n + blen p) size ps (acc ++ p)
    end.

  Definition at_eof (r : br) (data body : bytes) : drained :=
    if br_verify r then
      if br_n r + blen body =? size_of r then
        if beqb (hashd (br_alg r) (br_acc r ++ body)) (digest_of r) then DClean (data ++ body)
        else DErr (data ++ body) RRDigest
      else DErr (data ++ body) RRSize
    else if br_n r + blen body >? size_of r then DErr (data ++ body) RRSize
         else DClean (data ++ body).

  Theorem drain_deliver parts last : forall r data,
    drain r (deliver parts last) data =
    match cross (br_n r) (size_of r) parts data with
    | Some d => DErr d RRSize
    | None => at_eof r data (body_of parts last)
    end.
  Proof.
    induction parts as [|p ps IH]; intros r data; cbn [deliver map app BlobReader.drain cross].
    - unfold at_eof, body_of, BlobReader.br_read, size_of, digest_of. cbn.
      destruct (br_verify r); cbn.
      + destruct (_ =? _); cbn; [|reflexivity]. destruct (beqb _ _); reflexivity.
      + destruct (_ >? _); reflexivity.
    - destruct (br_read_fields r p RNil) as (Fn & Fa & Fd & Fv).
      destruct (br_read r p RNil) as [r' res] eqn:ER. cbn [fst] in *.
      unfold BlobReader.br_read in ER. cbn [br_n] in ER. fold (size_of r) in ER.
      destruct (br_n r + blen p >? size_of r) eqn:EC; injection ER as <- <-; [reflexivity|].
      fold (deliver ps last). rewrite IH. cbn [br_n br_acc br_desc br_verify].
      unfold size_of. cbn [br_desc]. fold (size_of r).
      destruct (cross (br_n r + blen p) (size_of r) ps (data ++ p)); [reflexivity|].
      unfold at_eof, body_of, size_of, digest_of, br_alg. cbn [br_n br_acc br_desc br_verify concat].
      rewrite <- !app_assoc, !blen_app. rewrite !Z.add_assoc. reflexivity.
  Qed.

  Lemma cross_some_total ps : forall n size acc d,
    cross n size ps acc = Some d -> n + blen (concat ps) > size.
  Proof.
    induction ps as [|p ps IH]; intros n size acc d; cbn; [discriminate|].
    rewrite blen_app. destruct (n + blen p >? size) eqn:E.
    - intros _. rewrite Z.gtb_ltb in E. apply Z.ltb_lt in E. pose proof (blen_nonneg (concat ps)). lia.
    - intros H. apply IH in H. lia.
  Qed.

  Definition fresh_reader (de : desc) (v : bool) : br := {| br_n := 0; br_acc := []; br_desc := de; br_verify := v |}.

  (* C01 theorem 4, completeness: for every cutting of the body, the verifying reader ends in
     a clean EOF exactly when the body has the descriptor's size and digest ... *)
  Theorem verified_clean_iff de parts last out :
    drain (fresh_reader de true) (deliver parts last) [] = DClean out <->
    out = body_of parts last /\ blen (body_of parts last) = d_size de /\
    hashd (br_alg (fresh_reader de true)) (body_of parts last) = d_digest de.
  Proof.
    rewrite drain_deliver. unfold size_of. cbn [br_n br_desc fresh_reader].
    destruct (cross 0 (d_size de) parts []) eqn:EC.
    - split; [discriminate|]. intros (_ & Hs & _). apply cross_some_total in EC.
      unfold body_of in Hs. rewrite blen_app in Hs. pose proof (blen_nonneg last). lia.
    - unfold at_eof, size_of, digest_of. cbn.
      destruct (Z.eqb_spec (blen (body_of parts last)) (d_size de)) as [E1|E1].
      + destruct (beqb _ _) eqn:E2.
        * apply beqb_eq in E2. split; [intros H; injection H as <-; auto | intros (-> & _); reflexivity].
        * apply beqb_neq in E2. split; [discriminate | intros (_ & _ & H); contradiction].
      + split; [discriminate | intros (_ & H & _); contradiction].
  Qed.

  (* ... the non-verifying one exactly when the body is not longer than the described size *)
  Theorem unverified_clean_iff de parts last out :
    drain (fresh_reader de false) (deliver parts last) [] = DClean out <->
    out = body_of parts last /\ blen (body_of parts last) <= d_size de.
  Proof.
    rewrite drain_deliver. unfold size_of. cbn [br_n br_desc fresh_reader].
    destruct (cross 0 (d_size de) parts []) eqn:EC.
    - split; [discriminate|]. intros (_ & Hs). apply cross_some_total in EC.
      unfold body_of in Hs. rewrite blen_app in Hs. pose proof (blen_nonneg last). lia.
    - unfold at_eof, size_of. cbn. rewrite Z.gtb_ltb.
      destruct (Z.ltb_spec (d_size de) (blen (body_of parts last))) as [E1|E1].
      + split; [discriminate | intros (_ & H); lia].
      + split; [intros H; injection H as <-; auto | intros (-> & _); reflexivity].
  Qed.

  (* a delivered body never leaves the consumer hanging: clean EOF or an error *)
  Theorem never_hangs de v parts last :
    match drain (fresh_reader de v) (deliver parts last) [] with DHang _ => False | _ => True end.
  Proof.
    rewrite drain_deliver. destruct (cross _ _ _ _); [exact I|].
    unfold at_eof. destruct (br_verify _); repeat match goal with |- context [if ?b then _ else _] => destruct b end; exact I.
  Qed.

  (* too long: the error comes no later than the first non-final read that crosses the size,
     whether or not the reader verifies, whatever follows *)
  Theorem early_failure de v parts last d :
    cross 0 (d_size de) parts [] = Some d ->
    drain (fresh_reader de v) (deliver parts last) [] = DErr d RRSize.
  Proof. intros H. rewrite drain_deliver. unfold size_of. cbn [br_n br_desc fresh_reader]. now rewrite H. Qed.

  (* the outcome of a verified read does not depend on how the body is cut *)
  Corollary verified_partition_independent de parts last parts' last' :
    body_of parts last = body_of parts' last' ->
    (exists out, drain (fresh_reader de true) (deliver parts last) [] = DClean out) <->
    (exists out, drain (fresh_reader de true) (deliver parts' last') [] = DClean out).
  Proof.
    intros E. split; intros [out H]; apply verified_clean_iff in H as (-> & A & B); eexists;
      apply verified_clean_iff; (split; [reflexivity|]); [rewrite <- E | rewrite E]; auto.
  Qed.
End ReaderProofs.

(* ====================================================================== the wire codecs *)

Lemma parse_int_fmt_int_gen z : parse_int (fmt_int z) = if in_int64 z then Some z else None.
Proof.
  destruct (in_int64 z) eqn:Hr; [now apply parse_int_fmt_int|].
  destruct z as [|q|q]; cbn [fmt_int].
  - discriminate.
  - destruct (fmt_N_head (N.pos q)) as (c & r & E & Hc). unfold parse_int. rewrite E.
    assert (c =? 43 = false /\ c =? 45 = false)%N as [-> ->].
    { unfold is_digit in Hc. apply andb_true_iff in Hc as [H1 H2]. apply N.leb_le in H1.
      split; apply N.eqb_neq; lia. }
    rewrite <- E, parse_digits_fmt_N. cbn [Z.of_N]. now rewrite Hr.
  - unfold parse_int. cbn [N.eqb Pos.eqb]. rewrite parse_digits_fmt_N. cbn [Z.of_N Z.opp].
    now rewrite Hr.
Qed.

Lemma after_last_app c l r : ~ In c r -> after_last c (l ++ c :: r) = Some r.
Proof.
  intros Hn. assert (Hr : after_last c r = None).
  { induction r as [|d r IH]; cbn; [reflexivity|]. rewrite IH by (intros H; apply Hn; now right).
    destruct (N.eqb_spec d c); [subst; exfalso; apply Hn; now left | reflexivity]. }
  induction l as [|d l IH]; cbn.
  - now rewrite Hr, N.eqb_refl.
  - now rewrite IH.
Qed.

Lemma digits_no_byte a c : forallb is_digit a = true -> is_digit c = false -> ~ In c a.
Proof.
  induction a as [|x a IH]; cbn; [tauto|]. intros H Hc. apply andb_true_iff in H as [Hx Ha].
  intros [E|Hi]; [subst; congruence | now apply IH].
Qed.

Lemma fmt_int_no_slash z : ~ In 47%N (fmt_int z).
Proof.
  destruct z; cbn [fmt_int]; try (apply digits_no_byte; [apply fmt_N_digits | reflexivity]).
  intros [E|H]; [discriminate|]. revert H. apply digits_no_byte; [apply fmt_N_digits | reflexivity].
Qed.

(* the client reads back the total the server wrote into Content-Range *)
Lemma content_range_total a b n :
  after_last 47%N (content_range_header a b n) = Some (fmt_int n).
Proof.
  unfold content_range_header.
  assert (E : forall (p q : bytes) c r e f, p ++ q ++ c :: r ++ e :: f = (p ++ q ++ c :: r) ++ e :: f).
  { intros. rewrite <- !app_assoc. cbn. reflexivity. }
  rewrite E. apply after_last_app, fmt_int_no_slash.
Qed.

Lemma content_range_nonempty a b n : content_range_header a b n <> [].
Proof. unfold content_range_header. discriminate. Qed.

(* ---- the server parses the client's Range header back ---- *)

(* strings of digits and dashes: no commas, no spaces *)
Definition plain (a : bytes) : bool := forallb (fun c => is_digit c || (c =? 45)%N) a.

Lemma plain_app a b : plain (a ++ b) = plain a && plain b.
Proof. unfold plain. apply forallb_app. Qed.

Lemma plain_fmt_int z : plain (fmt_int z) = true.
Proof.
  assert (H : forall n, plain (fmt_N n) = true).
  { intros n. unfold plain. pose proof (fmt_N_digits n) as Hd. rewrite forallb_forall in *.
    intros c Hc. now rewrite (Hd c Hc). }
  destruct z; cbn [fmt_int]; try apply H. all: try (cbn; apply H).
Qed.

Lemma split_plain a : plain a = true -> split_byte 44%N a = [a].
Proof.
  induction a as [|c a IH]; cbn; [reflexivity|]. intros H. apply andb_true_iff in H as [Hc Ha].
  destruct (N.eqb_spec c 44) as [->|_]; [discriminate|]. now rewrite IH.
Qed.

Lemma trim_left_plain a : plain a = true -> trim_left a = a.
Proof.
  destruct a as [|c a]; cbn; [reflexivity|]. intros H. apply andb_true_iff in H as [Hc _].
  unfold is_ascii_space. unfold is_digit in Hc.
  destruct (N.eqb_spec c 32) as [->|_]; [discriminate|]. destruct (N.eqb_spec c 9) as [->|_]; [discriminate|].
  destruct (N.eqb_spec c 10) as [->|_]; [discriminate|]. destruct (N.eqb_spec c 13) as [->|_]; [discriminate|].
  reflexivity.
Qed.

Lemma plain_rev a : plain (rev a) = plain a.
Proof. unfold plain. apply forallb_rev. Qed.

Lemma trim_plain a : plain a = true -> trim_string a = a.
Proof.
  intros H. unfold trim_string. rewrite (trim_left_plain a H).
  rewrite trim_left_plain by now rewrite plain_rev. apply rev_involutive.
Qed.

Lemma cut_byte_plain c a l r : cut_byte c a = Some (l, r) -> plain a = true -> plain l = true /\ plain r = true.
Proof.
  intros H Hp. apply cut_byte_some in H as [-> _]. rewrite plain_app in Hp. apply andb_true_iff in Hp as [A B].
  cbn in B. apply andb_true_iff in B as [_ B]. auto.
Qed.

Lemma has_prefix_app p a : has_prefix p (p ++ a) = true.
Proof. apply has_prefix_spec. eauto. Qed.

Lemma skipn_app_len {A} (p a : list A) : skipn (length p) (p ++ a) = a.
Proof. induction p; cbn; auto. Qed.

Lemma parse_plain_range x :
  plain x = true -> x <> [] ->
  parse_http_range (BYTES_EQ ++ x) = parse_http_ranges [x] [].
Proof.
  intros Hp Hn. unfold parse_http_range. rewrite has_prefix_app, skipn_app_len, (split_plain x Hp).
  destruct (BYTES_EQ ++ x) eqn:E; [|reflexivity]. unfold BYTES_EQ in E. cbn in E. discriminate.
Qed.

(* "bytes=%d-" *)
Lemma parse_client_range_open o0 :
  0 <= o0 <= MAX64 ->
  parse_http_range (client_range_header o0 (-1)) = HROk [{| hr_start := o0; hr_end := -1 |}].
Proof.
  intros H. unfold client_range_header. cbn [Z.ltb Z.compare].
  assert (Hp : plain (fmt_int o0 ++ [DASH]) = true) by (rewrite plain_app, plain_fmt_int; reflexivity).
  rewrite parse_plain_range; [|exact Hp | destruct (fmt_int o0); discriminate].
  cbn [parse_http_ranges]. rewrite (trim_plain _ Hp).
  destruct (fmt_int o0 ++ [DASH]) eqn:E; [destruct (fmt_int o0); discriminate|]. rewrite <- E.
  rewrite cut_byte_app by (apply fmt_int_no_dash; lia).
  rewrite (trim_plain _ (plain_fmt_int o0)). cbn [trim_string trim_left rev app].
  pose proof (fmt_int_nonempty o0) as Hne. destruct (fmt_int o0) eqn:E0; [congruence|]. rewrite <- E0.
  rewrite parse_int_fmt_int by (apply in_int64_iff; unfold MIN64; lia).
  destruct (Z.ltb_spec o0 0); [lia|]. reflexivity.
Qed.

Lemma parse_neg_start rest c r :
  plain rest = true -> rest = c :: r -> is_digit c = true ->
  parse_http_range (BYTES_EQ ++ DASH :: rest) = HREndRelative.
Proof.
  intros Hp -> Hc.
  assert (Hpl : plain (DASH :: c :: r) = true) by (cbn; cbn in Hp; exact Hp).
  rewrite parse_plain_range; [|exact Hpl | discriminate].
  cbn [parse_http_ranges]. rewrite (trim_plain _ Hpl). cbn [cut_byte]. cbn [N.eqb DASH Pos.eqb].
  rewrite (trim_plain _ Hp). cbn [trim_string trim_left rev app].
  assert ((c =? 45)%N = false) as ->
    by (unfold is_digit in Hc; apply andb_true_iff in Hc as [A B]; apply N.leb_le in A; apply N.eqb_neq; lia).
  reflexivity.
Qed.

Lemma fmt_int_neg z : z < 0 -> exists c r, fmt_int z = DASH :: c :: r /\ is_digit c = true /\ plain (c :: r) = true.
Proof.
  destruct z as [|q|q]; try lia. intros _. cbn [fmt_int].
  destruct (fmt_N_head (N.pos q)) as (c & r & E & Hc). exists c, r. rewrite E. repeat split; auto.
  rewrite <- E. change (plain (fmt_N (N.pos q))) with (plain (fmt_int (Z.pos q))). apply plain_fmt_int.
Qed.

(* what the header of GetBlobRange(o0, o1) is parsed to, for offsets that are int64 values *)
Theorem parse_client_range o0 o1 :
  MIN64 <= o0 <= MAX64 -> MIN64 <= o1 <= MAX64 ->
  parse_http_range (client_range_header o0 o1) =
    if o0 <? 0 then HREndRelative
    else if o1 <? 0 then HROk [{| hr_start := o0; hr_end := -1 |}]
    else if o1 <=? o0 then HRInvalid
    else HROk [{| hr_start := o0; hr_end := o1 |}].
Proof.
  intros H0 H1. destruct (Z.ltb_spec o0 0) as [Hneg|Hpos].
  - (* "bytes=-N..." : an empty start *)
    destruct (fmt_int_neg o0 Hneg) as (c & r & E & Hc & Hp).
    unfold client_range_header. rewrite E. destruct (o1 <? 0).
    + replace (BYTES_EQ ++ (DASH :: c :: r) ++ [DASH]) with (BYTES_EQ ++ DASH :: (c :: r) ++ [DASH]) by reflexivity.
      eapply parse_neg_start; [|reflexivity|exact Hc]. now rewrite plain_app, Hp.
    + replace (BYTES_EQ ++ (DASH :: c :: r) ++ DASH :: fmt_int (wrap64 (o1 - 1)))
        with (BYTES_EQ ++ DASH :: (c :: r) ++ DASH :: fmt_int (wrap64 (o1 - 1))) by reflexivity.
      eapply parse_neg_start; [|reflexivity|exact Hc]. rewrite plain_app, Hp. cbn. apply plain_fmt_int.
  - destruct (Z.ltb_spec o1 0) as [H1n|H1p].
    + assert (client_range_header o0 o1 = client_range_header o0 (-1)) as ->
        by (unfold client_range_header; destruct (Z.ltb_spec o1 0); [reflexivity | lia]).
      apply parse_client_range_open. lia.
    + unfold client_range_header. destruct (Z.ltb_spec o1 0); [lia|].
      rewrite wrap64_id by (unfold MIN64 in *; lia).
      assert (Hp : plain (fmt_int o0 ++ DASH :: fmt_int (o1 - 1)) = true)
        by (rewrite plain_app, plain_fmt_int; cbn; apply plain_fmt_int).
      rewrite parse_plain_range; [|exact Hp | destruct (fmt_int o0); discriminate].
      cbn [parse_http_ranges]. rewrite (trim_plain _ Hp).
      destruct (fmt_int o0 ++ DASH :: fmt_int (o1 - 1)) eqn:E; [destruct (fmt_int o0); discriminate|]. rewrite <- E.
      rewrite cut_byte_app by (apply fmt_int_no_dash; lia).
      rewrite (trim_plain _ (plain_fmt_int o0)), (trim_plain _ (plain_fmt_int (o1 - 1))).
      pose proof (fmt_int_nonempty o0) as Hne. destruct (fmt_int o0) eqn:E0; [congruence|]. rewrite <- E0.
      rewrite parse_int_fmt_int by (apply in_int64_iff; unfold MIN64; lia).
      destruct (Z.ltb_spec o0 0); [lia|].
      pose proof (fmt_int_nonempty (o1 - 1)) as Hne1. destruct (fmt_int (o1 - 1)) eqn:E1; [congruence|]. rewrite <- E1.
      rewrite parse_int_fmt_int by (apply in_int64_iff; unfold MIN64 in *; lia).
      rewrite Z.gtb_ltb. destruct (Z.ltb_spec (o1 - 1) o0), (Z.leb_spec o1 o0); try lia; [reflexivity|].
      rewrite wrap64_id by (unfold MIN64 in *; lia). now replace (o1 - 1 + 1) with o1 by lia.
Qed.
