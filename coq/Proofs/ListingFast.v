(* Evaluation of C05's correspondence on long listings (more than ten thousand names: the
   server's built-in page cap and page sizes above it can only be seen there).

   The definitions of Model/ListingSpec.v and Obs/C05.v are written to be read, not to be
   run on long lists: [nodupb] and the membership tests of the specification are quadratic,
   and so is the model itself where it follows the Go code literally (len(items) and append
   in the server's callback, the log of yield calls).  This file gives, for each of them, a
   function that computes THE SAME VALUE in (nearly) linear time on the lists the harness
   produces, with the proof that it is the same value for every argument:

     nodupb_fast_eq     nodupb_fast l   = nodupb l               (sort, compare neighbours)
     stack_wfb_fast_eq  stack_wfb_fast k = stack_wfb k
     incl_b_eq          incl_b a b      = forallb (fun x => mem_bytes x b) a
                        (both sides sorted - merge sort unless already ascending - and
                        de-duplicated, then one pass)
     listing_closed     for a well-formed stack that must not fail, the calls the model's
                        listing makes against any consumer are the canonical trace of the
                        sorted, de-duplicated names after the start point (from the stack
                        theorem, by uniqueness of strictly sorted lists)

   Nothing here weakens a check: Obs/C05.v proves that its fast [model_agrees] and [obs_ok]
   equal the literal ones on every case. *)
From Coq Require Import String Sorted Permutation Sorting.Mergesort Orders RelationClasses.
From OCI Require Import Model.Listing Model.ListingSpec Proofs.Seq Proofs.Listing Proofs.ListingStack.

(* ---------------------------------------------------------------- no duplicates *)

(* sort (linear on an ascending list), then look at neighbours *)
Definition nodupb_fast (l : list bytes) : bool := ascending (sort_bytes l).

Lemma NoDup_nodupb l : NoDup l -> nodupb l = true.
Proof.
  induction 1 as [|a l Hn _ IH]; cbn; [reflexivity|].
  rewrite IH, andb_true_r. apply negb_true_iff.
  destruct (mem_bytes a l) eqn:E; [|reflexivity]. apply mem_bytes_In in E. contradiction.
Qed.

Lemma nodupb_fast_eq l : nodupb_fast l = nodupb l.
Proof.
  unfold nodupb_fast. destruct (nodupb l) eqn:E.
  - apply ascending_spec. apply sort_bytes_ssorted. now apply nodupb_NoDup.
  - destruct (ascending (sort_bytes l)) eqn:A; [|reflexivity].
    apply ascending_spec in A. apply ssorted_NoDup in A.
    apply (Permutation_NoDup (Permutation_sym (sort_bytes_perm l))) in A.
    apply NoDup_nodupb in A. congruence.
Qed.

Definition mrepo_wfb_fast (r : mrepo) : bool :=
  nodupb_fast (mr_tags r) && nodupb_fast (map fst (mr_manifests r)) && forallb nonempty (map fst (mr_manifests r)).

Lemma mrepo_wfb_fast_eq r : mrepo_wfb_fast r = mrepo_wfb r.
Proof. unfold mrepo_wfb_fast, mrepo_wfb. now rewrite !nodupb_fast_eq. Qed.

Fixpoint stack_wfb_fast (k : stack) : bool :=
  match k with
  | KMem m => nodupb_fast (map fst m) && forallb (fun r => mrepo_wfb_fast (snd r)) m
  | KScript xs oe => ascending xs && err_wfb xs oe && forallb nonempty xs
  | KFuncs => true
  | KHop n o i => (n >=? 0)%Z && stack_wfb_fast i
  | KSelect _ i | KDebug i => stack_wfb_fast i
  | KSub p i => negb (mem_bytes (p ++ slash) (names i QRepos)) && stack_wfb_fast i
  | KUnify a b => stack_wfb_fast a && stack_wfb_fast b
  end.

Lemma forallb_ext' {A} (f g : A -> bool) l : (forall a, f a = g a) -> forallb f l = forallb g l.
Proof. intros H. induction l as [|a l IH]; cbn; [reflexivity|]. now rewrite H, IH. Qed.

Lemma stack_wfb_fast_eq k : stack_wfb_fast k = stack_wfb k.
Proof.
  induction k; cbn [stack_wfb_fast stack_wfb]; try congruence.
  rewrite nodupb_fast_eq. f_equal. apply forallb_ext'. intros r. apply mrepo_wfb_fast_eq.
Qed.

(* ---------------------------------------------------------------- inclusion *)

(* merge sort (Coq's Sorting.Mergesort) under the byte order *)
Module BytesOrder <: TotalLeBool.
  Definition t := bytes.
  Definition leb := bleb.
  Theorem leb_total : forall a b, leb a b = true \/ leb b a = true.
  Proof.
    intros a b. unfold leb. destruct (bleb a b) eqn:E; [now left|right].
    apply bleb_le. apply blt_le. now apply bleb_false_lt.
  Qed.
End BytesOrder.
Module BSort := Sort BytesOrder.

Lemma msort_wsorted l : wsorted (BSort.sort l).
Proof.
  assert (Htr : Transitive (fun x y => is_true (bleb x y))).
  { intros a b c H1 H2. unfold is_true in *. apply bleb_le. apply bleb_le in H1, H2. eapply ble_trans; eauto. }
  pose proof (BSort.StronglySorted_sort l Htr) as H. unfold wsorted.
  induction H as [|a l' Hs IH Hf]; constructor; auto.
  rewrite Forall_forall in *. intros x Hx. apply bleb_le. exact (Hf x Hx).
Qed.

Lemma msort_In x l : In x (BSort.sort l) <-> In x l.
Proof.
  split; intros H.
  - eapply Permutation_in; [apply Permutation_sym, BSort.Permuted_sort | exact H].
  - eapply Permutation_in; [apply BSort.Permuted_sort | exact H].
Qed.

(* the strictly ascending list with the members of l *)
Definition norm (l : list bytes) : list bytes :=
  if ascending l then l else compact (BSort.sort l).

Lemma norm_ssorted l : ssorted (norm l).
Proof.
  unfold norm. destruct (ascending l) eqn:A.
  - now apply ascending_spec.
  - apply compact_ssorted, msort_wsorted.
Qed.

Lemma norm_In x l : In x (norm l) <-> In x l.
Proof.
  unfold norm. destruct (ascending l); [tauto|]. now rewrite compact_In, msort_In.
Qed.

(* a, b strictly ascending: one pass over b *)
Fixpoint walk (a b : list bytes) {struct b} : bool :=
  match a, b with
  | [], _ => true
  | _ :: _, [] => false
  | x :: a', y :: b' => if beqb x y then walk a' b' else walk a b'
  end.

Lemma walk_nil_r a : walk a [] = match a with [] => true | _ => false end.
Proof. destruct a; reflexivity. Qed.

Lemma walk_incl a b : walk a b = true -> forall x, In x a -> In x b.
Proof.
  revert a; induction b as [|y b IH]; intros a H x Hx.
  - rewrite walk_nil_r in H. destruct a; [destruct Hx | discriminate].
  - destruct a as [|z a]; [destruct Hx|]. cbn [walk] in H.
    destruct (beqb z y) eqn:E.
    + apply beqb_eq in E. subst z. destruct Hx as [<-|Hx]; [now left|]. right. eapply IH; eauto.
    + right. eapply IH; eauto.
Qed.

Lemma incl_walk a b : ssorted a -> ssorted b -> (forall x, In x a -> In x b) -> walk a b = true.
Proof.
  revert a; induction b as [|y b IH]; intros a Ha Hb H.
  - destruct a as [|z a]; [reflexivity|]. destruct (H z (or_introl eq_refl)).
  - destruct a as [|z a]; [reflexivity|]. cbn [walk].
    apply ssorted_cons_inv in Hb as [Hb Fb]. rewrite Forall_forall in Fb.
    pose proof Ha as Ha0. apply ssorted_cons_inv in Ha as [Ha Fa]. rewrite Forall_forall in Fa.
    destruct (beqb z y) eqn:E.
    + apply beqb_eq in E. subst z. apply IH; auto. intros x Hx.
      destruct (H x (or_intror Hx)) as [<-|Hi]; auto.
      exfalso. exact (blt_irrefl _ (Fa _ Hx)).
    + assert (Hzy : z <> y) by (intros ->; rewrite (proj2 (beqb_eq y y) eq_refl) in E; discriminate).
      assert (Hz : In z b) by (destruct (H z (or_introl eq_refl)) as [->|Hi]; [congruence | exact Hi]).
      apply IH; auto. intros x [<-|Hx]; auto.
      destruct (H x (or_intror Hx)) as [<-|Hi]; auto.
      exfalso. apply (blt_asym y z); auto.
Qed.

Definition incl_b (a b : list bytes) : bool := walk (norm a) (norm b).

Lemma norm_id l : ssorted l -> norm l = l.
Proof. intros H. unfold norm. apply ascending_spec in H. now rewrite H. Qed.

(* norm is idempotent (so a list normalised once can be handed to incl_b again at no cost) *)
Lemma norm_norm l : norm (norm l) = norm l.
Proof.
  unfold norm at 1. pose proof (norm_ssorted l) as H. apply ascending_spec in H. now rewrite H.
Qed.

Lemma incl_b_eq a b : incl_b a b = forallb (fun x => mem_bytes x b) a.
Proof.
  unfold incl_b. destruct (forallb (fun x => mem_bytes x b) a) eqn:E.
  - apply incl_walk; try apply norm_ssorted. intros x Hx. apply (proj1 (norm_In _ _)) in Hx. apply (proj2 (norm_In _ _)).
    rewrite forallb_forall in E. apply mem_bytes_In. auto.
  - destruct (walk (norm a) (norm b)) eqn:W; [|reflexivity].
    assert (forallb (fun x => mem_bytes x b) a = true); [|congruence].
    apply forallb_forall. intros x Hx. apply mem_bytes_In. apply (proj1 (norm_In _ _)).
    eapply walk_incl; eauto. now apply (proj2 (norm_In _ _)).
Qed.

(* forallb over "p -> q" is forallb q over the p's *)
Lemma forallb_impl_filter {A} (p q : A -> bool) l :
  forallb (fun w => negb (p w) || q w) l = forallb q (filter p l).
Proof.
  induction l as [|a l IH]; cbn; [reflexivity|]. destruct (p a); cbn; now rewrite IH.
Qed.

(* ---------------------------------------------------------------- the listing in closed form *)

(* what a well-formed stack that must not fail lists after the start point *)
Definition expected (k : stack) (q : query) (start : bytes) : list bytes :=
  norm (filter (after q start) (names k q)).

Theorem listing_closed k q start S (y : consumer err bytes S) s :
  stack_wfb k = true -> fails k q = FNo ->
  calls (listing k q start) y s = trace_of (expected k q start) None y s.
Proof.
  intros Hw Hf. destruct (stack_listing k q start Hw) as (xs & oe & Hrep & Hs & Hin & Hfc).
  rewrite Hf in Hfc. destruct Hfc as [-> Hc].
  rewrite (calls_represents _ _ _ y s Hrep). f_equal.
  apply ssorted_unique; auto; [apply norm_ssorted|].
  intros x. unfold expected. rewrite norm_In, filter_In. split.
  - intros Hx. apply Hin in Hx. tauto.
  - intros [H1 H2]. auto.
Qed.
