(* Settled writers (C06): in the model of ociserver every report of a BlobWriter (ID, Size) that a
   response is built from was asked while the writer was settled - before any Write, or after
   the Close that followed the last Write - whatever the backend answers; so the Location and
   the Range of a 202 / 204, which Proofs/Server.v shows to be the last ID / size reported, are
   the ones the settled writer reported ([settled_ok] of Model/ServerSettled.v).
   Used by Obs/C06.v for every served request. *)
From Coq Require Import String.
From OCI Require Import Base.Outcome Model.Ref Model.Errors Model.Request Model.Server Model.ServerSpec
  Model.ServerSettled Proofs.Request Proofs.Server.
Local Open Scope Z_scope.

(* ================================================================ the clause and the one of ServerSpec *)

(* the clause follows from [spec_ok] once the reports that count were made while settled *)
Lemma settled_ok_of_spec linked o req tr resp :
  spec_ok linked o req tr resp = true -> reports_settled tr -> settled_ok tr resp = true.
Proof.
  intros S [E1 E2]. unfold spec_ok in S.
  apply andb_true_iff in S as [S _]. apply andb_true_iff in S as [S _]. apply andb_true_iff in S as [S _].
  apply andb_true_iff in S as [_ S].
  unfold settled_ok, settled_location_ok, settled_range_ok. rewrite E1, E2.
  unfold headers_ok in S.
  destruct (p_json resp) as [[n t|r|m|w]|]; try reflexivity;
    (apply andb_true_iff in S as [S _]; apply andb_true_iff in S as [S _]; apply andb_true_iff in S as [S _];
     apply andb_true_iff in S as [_ S]; exact S).
Qed.

(* the clause tells exchanges apart: a PATCH whose writer was asked after the Close passes with
   the values reported then; the same values asked between the Write and the Close, or before
   the Write, do not count (nothing the headers could have been built from), although they are
   the last ones reported; without a Write the order does not matter *)
Lemma settled_ok_discriminates :
  let opn := ECall (PushBlobChunkedResume (s "foo") (s "id0") 0 3) (Ok (VWriter 1%N)) in
  let wr := ECall (WWrite 1%N (s "abc")) (Ok (VN 3)) in
  let cl := ECall (WClose 1%N) (Ok VUnit) in
  let id := ECall (WID 1%N) (Ok (VStr (s "id1"))) in
  let sz := ECall (WSize 1%N) (Ok (VN 3)) in
  let resp := mkresp 202 [(H_location, upload_location (s "foo") (s "id1")); (H_range, s "0-2")] [] None in
  settled_ok [opn; wr; cl; id; sz] resp = true
  /\ settled_ok [opn; wr; id; sz; cl] resp = false
  /\ settled_ok [opn; wr; id; cl; sz] resp = false
  /\ settled_ok [opn; wr; cl; id; sz; wr; cl] resp = false
  /\ settled_ok [opn; id; sz; wr; cl] resp = false
  /\ settled_ok [opn; id; sz; cl] resp = true
  /\ settled_ok [opn; cl; id; sz] resp = true
  /\ settled_ok [opn; wr; id; sz; cl] (mkresp 500 [] [] (Some (JErr (W (s "UNKNOWN") [] None)))) = true.
Proof. repeat split. Qed.

(* ================================================================ the handlers *)

Section Settled.
  Variable linked : alg -> bool.
  Variable digest_of : bytes -> bytes.
  Variable subject_of : bytes -> option (option bytes).
  Variable enc : jval -> bytes.
  Variable redirect : bytes -> bytes -> bytes * bytes.
  Variable B : Type.
  Variable bstep : backend B.
  Variable o : opts.
  Variable req : hreq.

  Local Arguments dec_Z : simpl never.
  Local Arguments range_string : simpl never.
  Local Arguments Z.eqb : simpl nomatch.
  Local Arguments Z.leb : simpl nomatch.
  Local Arguments Z.ltb : simpl nomatch.
  Local Arguments Z.add : simpl nomatch.
  Local Arguments Z.sub : simpl nomatch.
  Local Arguments make_next_link : simpl never.
  Local Arguments b64u_encode : simpl never.
  Local Arguments upload_path : simpl never.
  Local Arguments text : simpl never.
  Local Arguments hset : simpl never.

  Notation hst := (hst B).

  (* what a handler leaves behind, whatever it returns *)
  Definition tpost (x : hst * R gerr unit) : Prop := reports_settled (rev (h_tr (fst x))).

  Ltac bcall :=
    match goal with
    | |- context [bstep ?b ?c] =>
        let b' := fresh "b" in let v := fresh "v" in let e := fresh "e" in
        destruct (bstep b c) as [b' [v|e| |]]
    end.

  Ltac simp_st :=
    cbn [h_b h_tr h_w set_hdr upd_w write_header write_body log w_status w_hdrs w_body w_json rw0
         as_n as_str as_desc as_read as_writer as_unit as_list as_descs fst snd].

  Ltac if_step :=
    match goal with |- context [if (n_of ?v =? ?x) then _ else _] => destruct (n_of v =? x) end.
  Ltac loc_step :=
    match goal with |- context [location_for_upload_id _ ?r ?i] => destruct (location_for_upload_id linked r i) end.
  Ltac run := repeat (simp_st; first [loc_step | bcall | if_step]); simp_st.

  Ltac leaf := unfold tpost, reports_settled, settled_id, settled_size; cbn; try (split; reflexivity).

  Ltac loc_cases :=
    unfold set_location_header, log; cbn [h_b h_tr h_w];
    match goal with
    | |- context [match ?f ?m ?d with _ => _ end] => destruct (f m d) as [[|? ?]|?| |]
    | _ => idtac
    end.

  Definition st0 (b : B) : hst := mkst b [] rw0.

  Lemma manifest_get_tpost b rreq : tpost (handle_manifest_get B bstep o (st0 b) rreq).
  Proof.
    unfold handle_manifest_get, call, st0. cbn [h_b h_tr h_w].
    destruct (o_omit_digest_from_tag_get o); destruct (q_tag rreq) as [|t0 t]; bcall; leaf.
  Qed.

  Ltac blob_get_body_tac :=
    unfold handle_blob_get_body, call; cbn [h_b h_tr h_w];
    destruct (parse_range_header (hq_range req)) as [[|[start end_] [|? ?]]| | |];
    [ bcall; leaf
    | bcall; cbn [as_read]; cbv zeta;
      [ let e' := fresh "end'" in
        match goal with |- context [if ?c then d_size ?d else end_] =>
          generalize (if c then d_size d else end_); intros e'
        end;
        destruct (d_size _ <? start); [leaf|]; destruct (e' <? start); leaf
      | leaf | leaf | leaf ]
    | leaf | leaf | leaf | leaf ].

  Lemma blob_get_body_tpost b rreq : tpost (handle_blob_get_body B bstep (st0 b) req rreq).
  Proof. unfold st0. blob_get_body_tac. Qed.

  Lemma blob_get_tpost b rreq : tpost (handle_blob_get redirect B bstep o (st0 b) req rreq).
  Proof.
    unfold handle_blob_get. destruct (o_locs o) as [f|]; [|apply blob_get_body_tpost].
    unfold st0, call. cbn [h_b h_tr h_w].
    bcall; cbn [as_desc]; [|leaf|leaf|leaf].
    destruct (f false (desc_of v)) as [[|l0 locs]|e| |].
    - unfold log. cbn [h_b h_tr h_w]. blob_get_body_tac.
    - destruct (redirect (hq_path req) l0) as [loc body]. leaf.
    - leaf.
    - leaf.
    - leaf.
  Qed.

  Lemma blob_head_tpost b rreq : tpost (handle_blob_head B bstep (st0 b) rreq).
  Proof. unfold handle_blob_head, call, st0. cbn [h_b h_tr h_w]. bcall; leaf. Qed.

  Lemma blob_delete_tpost b rreq : tpost (handle_blob_delete B bstep (st0 b) rreq).
  Proof. unfold handle_blob_delete, call, st0. cbn [h_b h_tr h_w]. bcall; leaf. Qed.

  Lemma manifest_delete_tpost b rreq : tpost (handle_manifest_delete B bstep (st0 b) rreq).
  Proof.
    unfold handle_manifest_delete, call, st0. cbn [h_b h_tr h_w].
    destruct (q_tag rreq) as [|t0 t]; bcall; leaf.
  Qed.

  Lemma manifest_head_tpost b rreq : tpost (handle_manifest_head B bstep o (st0 b) rreq).
  Proof.
    unfold handle_manifest_head, call, st0. cbn [h_b h_tr h_w].
    destruct (o_omit_digest_from_tag_get o); destruct (q_tag rreq) as [|t0 t]; cbv iota; bcall; leaf.
  Qed.

  Lemma blob_mount_tpost b rreq : tpost (handle_blob_mount B bstep o (st0 b) rreq).
  Proof.
    unfold handle_blob_mount, set_location_header, st0, call. cbn [h_b h_tr h_w].
    destruct (o_locs o) as [f|]; (bcall; cbn [as_desc]; [|leaf|leaf|leaf]).
    - loc_cases; leaf.
    - leaf.
  Qed.

  (* ---------------------------------------------------------- the handlers that hold a writer *)

  Lemma blob_start_upload_tpost b rreq : tpost (handle_blob_start_upload linked B bstep (st0 b) rreq).
  Proof.
    unfold handle_blob_start_upload, defer_close, with_upload_location, st0, call. cbn [h_b h_tr h_w].
    bcall; cbn [as_writer]; [|leaf|leaf|leaf].
    run; leaf.
  Qed.

  Lemma blob_upload_info_tpost b rreq : tpost (handle_blob_upload_info linked B bstep (st0 b) rreq).
  Proof.
    unfold handle_blob_upload_info, defer_close, with_upload_location, st0, call. cbn [h_b h_tr h_w].
    bcall; cbn [as_writer]; [|leaf|leaf|leaf].
    run; leaf.
  Qed.

  Lemma blob_upload_chunk_tpost b rreq : tpost (handle_blob_upload_chunk linked B bstep (st0 b) req rreq).
  Proof.
    unfold handle_blob_upload_chunk, with_upload_location, copy_body, st0, call. cbn [h_b h_tr h_w].
    destruct (chunk_range req) as [[start end_]|e| |]; [|leaf|leaf|leaf].
    bcall; cbn [as_writer]; [|leaf|leaf|leaf].
    destruct (hq_body req) as [|c0 body]; run; leaf.
  Qed.

  Lemma blob_complete_upload_tpost b rreq : tpost (handle_blob_complete_upload B bstep o (st0 b) req rreq).
  Proof.
    unfold handle_blob_complete_upload, defer_close, set_location_header, copy_body, st0, call.
    cbn [h_b h_tr h_w].
    destruct (chunk_range req) as [[start end_]|e| |]; [|leaf|leaf|leaf].
    destruct (o_locs o) as [f|]; (bcall; cbn [as_writer]; [|leaf|leaf|leaf]);
      (destruct (hq_body req) as [|c0 body]); run; try loc_cases; run; leaf.
  Qed.

  Lemma blob_upload_blob_tpost b rreq : tpost (handle_blob_upload_blob linked B bstep o (st0 b) req rreq).
  Proof.
    unfold handle_blob_upload_blob.
    destruct (o_disable_single_post o); [apply blob_start_upload_tpost|].
    unfold set_location_header, st0, call. cbn [h_b h_tr h_w].
    destruct (o_locs o) as [f|]; (bcall; cbn [as_desc]; [|leaf|leaf|leaf]); try loc_cases; leaf.
  Qed.

  Lemma manifest_put_tpost b rreq : tpost (handle_manifest_put digest_of subject_of B bstep o (st0 b) req rreq).
  Proof.
    unfold handle_manifest_put, subject_from_manifest, set_location_header, st0, call.
    cbn [h_b h_tr h_w].
    destruct (o_locs o) as [f|];
      (destruct (q_tag rreq) as [|t0 tg];
       [ destruct (negb (beqb (q_digest rreq) (digest_of (hq_body req)))); [leaf|] | ]);
      (destruct (if beqb (hq_ctype req) media_image_manifest || beqb (hq_ctype req) media_image_index
                 then subject_of (hq_body req) else Some None) as [[sd|]|]; [| |leaf]);
      (bcall; cbn [as_desc]; [|leaf|leaf|leaf]); try loc_cases; leaf.
  Qed.

  Ltac list_tac :=
    match goal with |- context [next_list_results o req ?rq ?it] =>
      destruct (next_list_results o req rq it) as [[items link]|?| |]; unfold list_response;
      try (destruct link); leaf
    end.

  Lemma tags_list_tpost b rreq : tpost (handle_tags_list enc B bstep o (st0 b) req rreq).
  Proof.
    unfold handle_tags_list, st0, call. cbn [h_b h_tr h_w].
    bcall; cbn [as_list]; [ | | leaf | leaf]; list_tac.
  Qed.

  Lemma catalog_list_tpost b rreq : tpost (handle_catalog_list enc B bstep o (st0 b) req rreq).
  Proof.
    unfold handle_catalog_list, st0, call. cbn [h_b h_tr h_w].
    bcall; cbn [as_list]; [ | | leaf | leaf]; list_tac.
  Qed.

  Lemma referrers_list_tpost b rreq : tpost (handle_referrers_list enc B bstep o (st0 b) rreq).
  Proof.
    unfold handle_referrers_list, list_response, st0, call. cbn [h_b h_tr h_w].
    destruct (o_disable_referrers o); [leaf|].
    bcall; cbn [as_descs]; [destruct (iter_err_of v) | | leaf | leaf]; leaf.
  Qed.

  Lemma dispatch_tpost b rreq :
    tpost (dispatch linked digest_of subject_of enc redirect B bstep o (st0 b) req rreq).
  Proof.
    unfold dispatch. destruct (q_kind rreq).
    - unfold st0. leaf.
    - apply blob_get_tpost.
    - apply blob_head_tpost.
    - apply blob_delete_tpost.
    - apply blob_start_upload_tpost.
    - apply blob_upload_blob_tpost.
    - apply blob_mount_tpost.
    - apply blob_upload_info_tpost.
    - apply blob_upload_chunk_tpost.
    - apply blob_complete_upload_tpost.
    - apply manifest_get_tpost.
    - apply manifest_head_tpost.
    - apply manifest_put_tpost.
    - apply manifest_delete_tpost.
    - apply tags_list_tpost.
    - apply referrers_list_tpost.
    - apply catalog_list_tpost.
  Qed.

  (* ---------------------------------------------------------- ServeHTTP *)

  (* whatever the backend answers, the writer of an exchange is asked who it is and how much it
     holds only while it is settled (no hypothesis on the backend) *)
  Theorem handle_reports_settled b :
    let '(b', tr, r) := handle linked digest_of subject_of enc redirect B bstep o b req in
    reports_settled tr.
  Proof.
    unfold handle, v2.
    destruct (parse_req linked (hq_method req) (hq_path req) (hq_rawquery req)) as [rreq|pe| |].
    - pose proof (dispatch_tpost b rreq) as P. fold (st0 b).
      destruct (dispatch _ _ _ _ _ _ _ _ _ _ _) as [st r]. unfold tpost in P. cbn [fst] in P.
      destruct r as [u|e| |]; try exact P.
      pose proof (write_error_trace enc B e st) as [T _].
      destruct (write_error enc B e st) as [st' r']. cbn [fst] in T. rewrite T. exact P.
    - pose proof (write_error_trace enc B (handler_error_for_request_parse_error pe)
                    (set_hdr B H_api_version (s "registry/2.0") (mkst b [] rw0))) as [T _].
      destruct (write_error _ _ _ _) as [st' r']. cbn [fst] in T. rewrite T. cbn. split; reflexivity.
    - cbn. split; reflexivity.
    - cbn. split; reflexivity.
  Qed.

  (* a 202 that continues an upload and a 204 name the session and the size the settled writer
     reported, for a backend within the conventions *)
  Theorem handle_settled_ok b :
    let '(b', tr, r) := handle linked digest_of subject_of enc redirect B bstep o b req in
    wb_trace tr = true -> wb_locs (o_locs o) tr = true ->
    exists resp, r = Ok resp /\ settled_ok tr resp = true.
  Proof.
    pose proof (handle_conforms linked digest_of subject_of enc redirect B bstep o req b) as HC.
    pose proof (handle_reports_settled b) as HS.
    destruct (handle _ _ _ _ _ _ _ _ _ _) as [[b' tr] r]. intros W WL.
    destruct (HC W WL) as (resp & E & S). exists resp. split; [exact E|].
    eapply settled_ok_of_spec; eauto.
  Qed.

End Settled.

(* the statements of Props/C06.v *)
Lemma reports_settled_always linked digest_of subject_of enc redirect B (bstep : backend B) o b req :
  let '(_, tr, r) := handle linked digest_of subject_of enc redirect B bstep o b req in
  reports_settled tr.
Proof. apply handle_reports_settled. Qed.

Lemma settled_headers linked digest_of subject_of enc redirect B (bstep : backend B) o b req :
  let '(_, tr, r) := handle linked digest_of subject_of enc redirect B bstep o b req in
  wb_trace tr = true -> wb_locs (o_locs o) tr = true ->
  exists resp, r = Ok resp /\ settled_ok tr resp = true.
Proof. apply handle_settled_ok. Qed.
