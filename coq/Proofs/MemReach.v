(* Reachability through stored manifests: what the implementation's refersTo walk
   (Model/Mem.v, [refers_to]) and the reference registry's search (Model/MemSpec.v,
   [reaches]) compute, characterised by one inductive relation.  When both searches give
   a definite answer the answers are equal, whatever the order in which tags are visited;
   and when digests cannot form a cycle neither search runs out of fuel. *)
From Coq Require Import String Lia.
From OCI Require Import Model.Mem Model.MemSpec Proofs.MemBasics Proofs.MemSpecFacts.

Definition bmd (b : blob) : bytes * bytes := (b_media b, b_data b).

(* a reference as the reference registry sees it: (is a manifest?, digest) *)
Definition kid (kd : refkind * desc) : bool * bytes :=
  (match fst kd with KBlob => false | _ => true end, d_digest (snd kd)).

(* the two inner loops, named *)
Fixpoint kids_go (rec : bytes -> option bool) (d : bytes) (cs : list (bool * bytes)) : option bool :=
  match cs with
  | [] => Some false
  | (ism, c) :: cs' =>
      if ism then
        match rec c with
        | Some true => Some true
        | Some false => kids_go rec d cs'
        | None => None
        end
      else if beqb c d then Some true else kids_go rec d cs'
  end.

Section Reach.
  Variable decode_image : bytes -> option image_manifest.
  Variable decode_index : bytes -> option index_manifest.

  Local Notation manifest_refs := (manifest_refs decode_image decode_index).
  Local Notation children := (children decode_image decode_index).
  Local Notation reaches := (reaches decode_image decode_index).
  Local Notation refers_to := (refers_to decode_image decode_index).

  Fixpoint refs_go (rec : list (refkind * desc) -> R err bool) (rp : repo) (d : bytes)
           (refs : list (refkind * desc)) : R err bool :=
    match refs with
    | [] => Ok false
    | (k, de) :: rest =>
        if beqb (d_digest de) d then Ok true
        else
          match k with
          | KBlob => refs_go rec rp d rest
          | KManifest | KSubject =>
              match alookup (d_digest de) (manifests rp) with
              | None => refs_go rec rp d rest
              | Some b =>
                  match manifest_refs (b_media b) (b_data b) with
                  | None => Err (e_plain (s "cannot unmarshal"))
                  | Some rs =>
                      match rec rs with
                      | Ok true => Ok true
                      | Ok false => refs_go rec rp d rest
                      | other => other
                      end
                  end
              end
          end
    end.

  Lemma refers_to_S f rp refs d :
    refers_to (S f) rp refs d = refs_go (fun rs => refers_to f rp rs d) rp d refs.
  Proof.
    cbn [Mem.refers_to]. induction refs as [|[k de] rest IH]; [reflexivity|].
    cbn [refs_go]. rewrite <- IH. reflexivity.
  Qed.

  Lemma reaches_S f l r m d :
    reaches (S f) l r m d =
    if beqb m d then Some true
    else match sman l r m with
         | None => Some false
         | Some (media, data) => kids_go (fun c => reaches f l r c d) d (children media data)
         end.
  Proof.
    cbn [MemSpec.reaches]. destruct (beqb m d); [reflexivity|].
    destruct (sman l r m) as [[media data]|]; [|reflexivity].
    induction (children media data) as [|[ism c] cs IH]; [reflexivity|].
    cbn [kids_go]. rewrite <- IH. reflexivity.
  Qed.

  Lemma reaches_0 l r m d : reaches 0 l r m d = if beqb m d then Some true else None.
  Proof. reflexivity. Qed.

  (* what a manifest references, in both vocabularies *)
  Lemma children_refs media data rs :
    manifest_refs media data = Some rs -> children media data = map kid rs.
  Proof.
    unfold Mem.manifest_refs, MemSpec.children.
    destruct (beqb media MT_IMAGE).
    - destruct (decode_image data) as [m|]; cbn; [|discriminate]. intros H; injection H as <-.
      unfold image_refs. rewrite !map_app, !map_map, <- app_assoc. cbn.
      destruct (im_subject m); reflexivity.
    - destruct (beqb media MT_INDEX).
      + destruct (decode_index data) as [m|]; cbn; [|discriminate]. intros H; injection H as <-.
        unfold index_refs. rewrite !map_app, !map_map. cbn. destruct (ix_subject m); reflexivity.
      + intros H; injection H as <-. reflexivity.
  Qed.

  Lemma children_undecodable media data : manifest_refs media data = None -> children media data = [].
  Proof.
    unfold Mem.manifest_refs, MemSpec.children.
    destruct (beqb media MT_IMAGE).
    - destruct (decode_image data); cbn; [discriminate | reflexivity].
    - destruct (beqb media MT_INDEX); [|discriminate].
      destruct (decode_index data); cbn; [discriminate | reflexivity].
  Qed.

  (* ---- the relation both searches decide ---- *)
  Section View.
    Variable mv : bytes -> option (bytes * bytes).    (* digest -> stored (media, data) *)

    Inductive Reach : bytes -> bytes -> Prop :=
    | reach_refl d : Reach d d
    | reach_blob m media data d :
        mv m = Some (media, data) -> In (false, d) (children media data) -> Reach m d
    | reach_step m media data c d :
        mv m = Some (media, data) -> In (true, c) (children media data) -> Reach c d -> Reach m d.

    Definition kid_reach (k : bool * bytes) (d : bytes) : Prop :=
      if fst k then Reach (snd k) d else snd k = d.

    Lemma reach_inv m d :
      Reach m d ->
      m = d \/ exists media data k, mv m = Some (media, data) /\ In k (children media data) /\ kid_reach k d.
    Proof.
      intros H. inversion H; subst; [now left | right | right].
      - exists media, data, (false, d). repeat split; auto.
      - exists media, data, (true, c). repeat split; auto.
    Qed.

    Lemma reach_kid m media data k d :
      mv m = Some (media, data) -> In k (children media data) -> kid_reach k d -> Reach m d.
    Proof.
      destruct k as [[|] c]; unfold kid_reach; cbn; intros Hm Hi Hk.
      - eapply reach_step; eauto.
      - subst. eapply reach_blob; eauto.
    Qed.

    (* the reference registry's loop over the children of one manifest *)
    Lemma kids_go_sound rec d cs :
      (forall c, rec c = Some true -> Reach c d) ->
      (forall c, rec c = Some false -> ~ Reach c d) ->
      (kids_go rec d cs = Some true -> exists k, In k cs /\ kid_reach k d) /\
      (kids_go rec d cs = Some false -> forall k, In k cs -> ~ kid_reach k d).
    Proof.
      intros HT HF. induction cs as [|[ism c] cs [IH1 IH2]]; cbn [kids_go].
      - split; [discriminate | intros _ k []].
      - destruct ism.
        + destruct (rec c) as [[|]|] eqn:E.
          * split; [|discriminate]. intros _. exists (true, c). split; [now left | now apply HT].
          * split.
            -- intros H. destruct (IH1 H) as [k [Hi Hk]]. exists k. split; [now right | exact Hk].
            -- intros H k [<-|Hi]; [now apply HF | now apply IH2].
          * split; discriminate.
        + destruct (beqb c d) eqn:B.
          * split; [|discriminate]. intros _. exists (false, c). split; [now left | now apply beqb_eq].
          * split.
            -- intros H. destruct (IH1 H) as [k [Hi Hk]]. exists k. split; [now right | exact Hk].
            -- intros H k [<-|Hi]; [unfold kid_reach; cbn; now apply beqb_neq | now apply IH2].
    Qed.
  End View.

  (* ---- the reference registry's search ---- *)
  Lemma reaches_sound l r f : forall m d,
    (reaches f l r m d = Some true -> Reach (sman l r) m d) /\
    (reaches f l r m d = Some false -> ~ Reach (sman l r) m d).
  Proof.
    induction f as [|f IH]; intros m d.
    - rewrite reaches_0. destruct (beqb m d) eqn:B.
      + apply beqb_eq in B. subst. split; [constructor | discriminate].
      + split; discriminate.
    - rewrite reaches_S. destruct (beqb m d) eqn:B.
      + apply beqb_eq in B. subst. split; [constructor | discriminate].
      + apply beqb_neq in B. destruct (sman l r m) as [[media data]|] eqn:E.
        * destruct (kids_go_sound (sman l r) (fun c => reaches f l r c d) d (children media data)) as [K1 K2].
          { intros c. apply IH. } { intros c. apply IH. }
          split.
          -- intros H. destruct (K1 H) as [k [Hi Hk]]. eapply reach_kid; eauto.
          -- intros H HR. apply reach_inv in HR as [Heq|(media' & data' & k & Hm & Hi & Hk)]; [congruence|].
             rewrite E in Hm. injection Hm as <- <-. exact (K2 H k Hi Hk).
        * split; [discriminate|]. intros _ HR.
          apply reach_inv in HR as [Heq|(media' & data' & k & Hm & _)]; congruence.
  Qed.

  (* ---- the implementation's walk ---- *)
  Section MemSide.
    Variable rp : repo.
    Let mv (x : bytes) : option (bytes * bytes) := option_map bmd (alookup x (manifests rp)).

    Definition ref_reach (kd : refkind * desc) (d : bytes) : Prop := kid_reach mv (kid kd) d.

    Lemma refs_go_sound rec d refs :
      (forall rs, rec rs = Ok true -> exists kd, In kd rs /\ ref_reach kd d) ->
      (forall rs, rec rs = Ok false -> forall kd, In kd rs -> ~ ref_reach kd d) ->
      (refs_go rec rp d refs = Ok true -> exists kd, In kd refs /\ ref_reach kd d) /\
      (refs_go rec rp d refs = Ok false -> forall kd, In kd refs -> ~ ref_reach kd d).
    Proof.
      intros HT HF. induction refs as [|[k de] rest [IH1 IH2]]; cbn [refs_go].
      - split; [discriminate | intros _ kd []].
      - assert (Hrest : (refs_go rec rp d rest = Ok true -> exists kd, In kd ((k, de) :: rest) /\ ref_reach kd d)).
        { intros H. destruct (IH1 H) as [kd [Hi Hk]]. exists kd. split; [now right | exact Hk]. }
        destruct (beqb (d_digest de) d) eqn:B.
        { apply beqb_eq in B. split; [|discriminate]. intros _. exists (k, de). split; [now left|].
          unfold ref_reach, kid_reach, kid. cbn. destruct k; cbn; subst; try constructor; reflexivity. }
        apply beqb_neq in B.
        assert (Hblob : k = KBlob -> ~ ref_reach (k, de) d).
        { intros ->. unfold ref_reach, kid_reach, kid. cbn. exact B. }
        assert (Hnone : k <> KBlob -> alookup (d_digest de) (manifests rp) = None -> ~ ref_reach (k, de) d).
        { intros Hk E. unfold ref_reach, kid_reach, kid. cbn.
          assert (Hm : mv (d_digest de) = None) by (unfold mv; now rewrite E).
          destruct k; cbn; try congruence; intros HR;
            apply reach_inv in HR as [Heq|(media' & data' & k' & Hm' & _)]; congruence. }
        destruct k.
        + (* subject *)
          destruct (alookup (d_digest de) (manifests rp)) as [b|] eqn:E.
          * destruct (manifest_refs (b_media b) (b_data b)) as [rs|] eqn:ER; [|split; discriminate].
            assert (Hmv : mv (d_digest de) = Some (b_media b, b_data b)) by (unfold mv; now rewrite E).
            pose proof (children_refs _ _ _ ER) as HC.
            destruct (rec rs) as [[|]| | |] eqn:ERec; try (split; discriminate).
            -- split; [|discriminate]. intros _. destruct (HT _ ERec) as [kd [Hi Hk]].
               exists (KSubject, de). split; [now left|]. unfold ref_reach, kid_reach, kid. cbn.
               eapply reach_kid; [exact Hmv | rewrite HC; apply in_map; exact Hi | exact Hk].
            -- split; [exact Hrest|]. intros H kd [<-|Hi]; [|now apply IH2].
               unfold ref_reach, kid_reach, kid. cbn. intros HR.
               apply reach_inv in HR as [Heq|(media' & data' & k' & Hm' & Hi' & Hk')]; [congruence|].
               rewrite Hmv in Hm'. injection Hm' as <- <-. rewrite HC in Hi'.
               apply in_map_iff in Hi' as [kd' [<- Hi']]. exact (HF _ ERec kd' Hi' Hk').
          * split; [exact Hrest|]. intros H kd [<-|Hi]; [apply Hnone; [discriminate | reflexivity] | now apply IH2].
        + (* blob *)
          split; [exact Hrest|]. intros H kd [<-|Hi]; [now apply Hblob | now apply IH2].
        + (* manifest *)
          destruct (alookup (d_digest de) (manifests rp)) as [b|] eqn:E.
          * destruct (manifest_refs (b_media b) (b_data b)) as [rs|] eqn:ER; [|split; discriminate].
            assert (Hmv : mv (d_digest de) = Some (b_media b, b_data b)) by (unfold mv; now rewrite E).
            pose proof (children_refs _ _ _ ER) as HC.
            destruct (rec rs) as [[|]| | |] eqn:ERec; try (split; discriminate).
            -- split; [|discriminate]. intros _. destruct (HT _ ERec) as [kd [Hi Hk]].
               exists (KManifest, de). split; [now left|]. unfold ref_reach, kid_reach, kid. cbn.
               eapply reach_kid; [exact Hmv | rewrite HC; apply in_map; exact Hi | exact Hk].
            -- split; [exact Hrest|]. intros H kd [<-|Hi]; [|now apply IH2].
               unfold ref_reach, kid_reach, kid. cbn. intros HR.
               apply reach_inv in HR as [Heq|(media' & data' & k' & Hm' & Hi' & Hk')]; [congruence|].
               rewrite Hmv in Hm'. injection Hm' as <- <-. rewrite HC in Hi'.
               apply in_map_iff in Hi' as [kd' [<- Hi']]. exact (HF _ ERec kd' Hi' Hk').
          * split; [exact Hrest|]. intros H kd [<-|Hi]; [apply Hnone; [discriminate | reflexivity] | now apply IH2].
    Qed.

    Lemma refers_to_sound f : forall refs d,
      (refers_to f rp refs d = Ok true -> exists kd, In kd refs /\ ref_reach kd d) /\
      (refers_to f rp refs d = Ok false -> forall kd, In kd refs -> ~ ref_reach kd d).
    Proof.
      induction f as [|f IH]; intros refs d; [split; discriminate|].
      rewrite refers_to_S. apply refs_go_sound; intros rs; apply IH.
    Qed.
  End MemSide.

  (* when every stored manifest decodes under its stored media type the walk never fails:
     it answers, or runs out of fuel *)
  Lemma refers_to_shape rp :
    (forall x b, alookup x (manifests rp) = Some b -> manifest_refs (b_media b) (b_data b) <> None) ->
    forall f refs d, match refers_to f rp refs d with Ok _ | OutOfFuel => True | _ => False end.
  Proof.
    intros Hok. induction f as [|f IH]; intros refs d; [exact I|].
    rewrite refers_to_S. induction refs as [|[k de] rest IHr]; cbn [refs_go]; [exact I|].
    destruct (beqb (d_digest de) d); [exact I|].
    destruct k; [|exact IHr|].
    - destruct (alookup (d_digest de) (manifests rp)) as [b|] eqn:E; [|exact IHr].
      destruct (manifest_refs (b_media b) (b_data b)) as [rs|] eqn:ER; [|now elim (Hok _ _ E)].
      specialize (IH rs d). destruct (refers_to f rp rs d) as [[|]| | |]; auto.
    - destruct (alookup (d_digest de) (manifests rp)) as [b|] eqn:E; [|exact IHr].
      destruct (manifest_refs (b_media b) (b_data b)) as [rs|] eqn:ER; [|now elim (Hok _ _ E)].
      specialize (IH rs d). destruct (refers_to f rp rs d) as [[|]| | |]; auto.
  Qed.

  Lemma Reach_ext mv mv' m d : (forall x, mv x = mv' x) -> Reach mv m d -> Reach mv' m d.
  Proof.
    intros He H. induction H.
    - constructor.
    - eapply reach_blob; [rewrite <- He|]; eauto.
    - eapply reach_step; [rewrite <- He| |]; eauto.
  Qed.

  (* ---- both searches started from the tags ---- *)
  Lemma tagged_reaches_sound l r d :
    (tagged_reaches decode_image decode_index l r d = Some true ->
       exists t de, stag l r t = Some de /\ Reach (sman l r) (d_digest de) d) /\
    (tagged_reaches decode_image decode_index l r d = Some false ->
       forall t de, stag l r t = Some de -> ~ Reach (sman l r) (d_digest de) d).
  Proof.
    unfold tagged_reaches.
    assert (H : forall ts,
      let go := (fix go (ts : list bytes) : option bool :=
         match ts with
         | [] => Some false
         | t :: ts' =>
             match stag l r t with
             | Some de =>
                 match reaches (S (length (man_keys l r))) l r (d_digest de) d with
                 | Some true => Some true
                 | Some false => go ts'
                 | None => None
                 end
             | None => go ts'
             end
         end) in
      (go ts = Some true -> exists t de, stag l r t = Some de /\ Reach (sman l r) (d_digest de) d) /\
      (go ts = Some false -> forall t de, In t ts -> stag l r t = Some de -> ~ Reach (sman l r) (d_digest de) d)).
    { induction ts as [|t ts [IH1 IH2]]; cbn -[MemSpec.reaches].
      - split; [discriminate | intros _ t de []].
      - destruct (stag l r t) as [de|] eqn:E.
        + destruct (reaches_sound l r (S (length (man_keys l r))) (d_digest de) d) as [S1 S2].
          destruct (reaches _ l r (d_digest de) d) as [[|]|].
          * split; [|discriminate]. intros _. exists t, de. auto.
          * split; [exact IH1|]. intros H t' de' [<-|Hi] Ht; [|eapply IH2; eauto].
            rewrite E in Ht. injection Ht as <-. now apply S2.
          * split; discriminate.
        + split; [exact IH1|]. intros H t' de' [<-|Hi] Ht; [congruence | eapply IH2; eauto]. }
    destruct (H (tag_keys l r)) as [H1 H2]. split; [exact H1|].
    intros Hf t de Ht. eapply H2; eauto. apply tag_keys_In. congruence.
  Qed.

  Lemma tagged_refers_to_sound rp d :
    NoDup (akeys (tags rp)) ->
    let mv := fun x => option_map bmd (alookup x (manifests rp)) in
    (tagged_refers_to decode_image decode_index rp d = Ok true ->
       exists t de, alookup t (tags rp) = Some de /\ Reach mv (d_digest de) d) /\
    (tagged_refers_to decode_image decode_index rp d = Ok false ->
       forall t de, alookup t (tags rp) = Some de -> ~ Reach mv (d_digest de) d).
  Proof.
    intros Hnd mv. unfold tagged_refers_to.
    destruct (refers_to_sound rp (S (length (manifests rp))) (tag_refs rp) d) as [S1 S2]. split.
    - intros H. destruct (S1 H) as [[k de] [Hi Hk]]. unfold tag_refs in Hi.
      apply in_map_iff in Hi as [[t de'] [E Hi]]. cbn in E. injection E as <- <-.
      exists t, de'. split; [|exact Hk].
      clear - Hi Hnd. induction (tags rp) as [|[t0 d0] m IH]; [destruct Hi|]. cbn in *.
      inversion Hnd; subst. destruct Hi as [E|Hi].
      + injection E as -> ->. now rewrite beqb_refl.
      + destruct (beqb t t0) eqn:B; [|auto]. apply beqb_eq in B. subst.
        exfalso. apply H1. apply (in_map fst) in Hi. exact Hi.
    - intros H t de Ht. apply alookup_In in Ht.
      apply (S2 H (KManifest, de)). unfold tag_refs.
      apply in_map_iff. exists (t, de). auto.
  Qed.

  (* when both give a definite answer the answers coincide *)
  Lemma definite_agree rp l r d b1 b2 :
    NoDup (akeys (tags rp)) ->
    (forall x, option_map bmd (alookup x (manifests rp)) = sman l r x) ->
    (forall t, alookup t (tags rp) = stag l r t) ->
    tagged_refers_to decode_image decode_index rp d = Ok b1 ->
    tagged_reaches decode_image decode_index l r d = Some b2 ->
    b1 = b2.
  Proof.
    intros Hnd Hm Ht H1 H2.
    destruct (tagged_refers_to_sound rp d Hnd) as [M1 M2].
    destruct (tagged_reaches_sound l r d) as [S1 S2].
    destruct b1, b2; try reflexivity; exfalso.
    - destruct (M1 H1) as (t & de & Hl & HR). eapply (S2 H2 t de); [now rewrite <- Ht|].
      eapply Reach_ext; [|exact HR]. exact Hm.
    - destruct (S1 H2) as (t & de & Hl & HR). eapply (M2 H1 t de); [now rewrite Ht|].
      eapply Reach_ext; [|exact HR]. intros x. symmetry. apply Hm.
  Qed.

  (* ---- fuel: with no digest cycles neither search runs out ---- *)
  Section Fuel.
    Variable hash : bytes -> bytes.
    Variable P : bytes -> Prop.
    Variable rk : bytes -> nat.
    Hypothesis Hrk : forall media data k c, P data -> In (k, c) (children media data) -> (rk c < rk (hash data))%nat.

    Lemma seen_cons (seen : list bytes) (keys : list bytes) m :
      NoDup seen -> incl seen keys -> In m keys -> (forall s0, In s0 seen -> (rk m < rk s0)%nat) ->
      NoDup (m :: seen) /\ incl (m :: seen) keys.
    Proof.
      intros Hnd Hin Hm Hlt. split.
      - constructor; [|exact Hnd]. intros Hi. apply Hlt in Hi. lia.
      - intros x [<-|Hx]; auto.
    Qed.

    Lemma refers_to_fuel rp :
      (forall x b, alookup x (manifests rp) = Some b -> hash (b_data b) = x /\ P (b_data b)) ->
      forall f refs d seen,
        NoDup seen -> incl seen (akeys (manifests rp)) ->
        (forall kd s0, In kd refs -> In s0 seen -> (rk (d_digest (snd kd)) < rk s0)%nat) ->
        (length (manifests rp) < length seen + f)%nat ->
        refers_to f rp refs d <> OutOfFuel.
    Proof.
      intros Hh. induction f as [|f IH]; intros refs d seen Hnd Hin Hlt Hlen.
      - exfalso. pose proof (NoDup_incl_length Hnd Hin) as Hl. unfold akeys in Hl. rewrite map_length in Hl. lia.
      - rewrite refers_to_S. induction refs as [|[k de] rest IHr]; cbn [refs_go]; [discriminate|].
        assert (Hrest : refs_go (fun rs => refers_to f rp rs d) rp d rest <> OutOfFuel).
        { apply IHr. intros kd s0 Hk. apply Hlt. now right. }
        destruct (beqb (d_digest de) d); [discriminate|].
        assert (Hman : forall b, alookup (d_digest de) (manifests rp) = Some b ->
                  match manifest_refs (b_media b) (b_data b) with
                  | None => Err (e_plain (s "cannot unmarshal"))
                  | Some rs =>
                      match refers_to f rp rs d with
                      | Ok true => Ok true
                      | Ok false => refs_go (fun rs => refers_to f rp rs d) rp d rest
                      | other => other
                      end
                  end <> OutOfFuel).
        { intros b E. destruct (manifest_refs (b_media b) (b_data b)) as [rs|] eqn:ER; [|discriminate].
          assert (Hm : forall s0, In s0 seen -> (rk (d_digest de) < rk s0)%nat).
          { intros s0 Hs. apply (Hlt (k, de) s0); [now left | exact Hs]. }
          destruct (seen_cons seen (akeys (manifests rp)) (d_digest de) Hnd Hin) as [Hnd' Hin'];
            [eapply alookup_Some_in; eauto | exact Hm |].
          assert (Hrec : refers_to f rp rs d <> OutOfFuel).
          { apply (IH rs d (d_digest de :: seen) Hnd' Hin').
            - intros kd s0 Hk Hs.
              assert (Hc : (rk (d_digest (snd kd)) < rk (d_digest de))%nat).
              { rewrite <- (proj1 (Hh _ _ E)). apply (Hrk (b_media b) (b_data b) (fst (kid kd))); [exact (proj2 (Hh _ _ E))|].
                rewrite (children_refs _ _ _ ER). apply (in_map kid) in Hk.
                destruct kd as [k' de']. exact Hk. }
              destruct Hs as [<-|Hs]; [exact Hc|]. specialize (Hm _ Hs). lia.
            - cbn [length]. lia. }
          destruct (refers_to f rp rs d) as [[|]| | |]; try discriminate; auto. }
        destruct k; [|exact Hrest|].
        + destruct (alookup (d_digest de) (manifests rp)) as [b|] eqn:E; [now apply Hman | exact Hrest].
        + destruct (alookup (d_digest de) (manifests rp)) as [b|] eqn:E; [now apply Hman | exact Hrest].
    Qed.

    Lemma tagged_refers_to_fuel rp d :
      (forall x b, alookup x (manifests rp) = Some b -> hash (b_data b) = x /\ P (b_data b)) ->
      tagged_refers_to decode_image decode_index rp d <> OutOfFuel.
    Proof.
      intros Hh. unfold tagged_refers_to. apply (refers_to_fuel rp Hh _ _ _ []).
      - constructor.
      - intros x [].
      - intros kd s0 _ [].
      - cbn. lia.
    Qed.

    Lemma kids_go_some rec d cs :
      (forall c, In (true, c) cs -> rec c <> None) -> kids_go rec d cs <> None.
    Proof.
      induction cs as [|[ism c] cs IH]; intros H; cbn [kids_go]; [discriminate|].
      assert (Hrest : kids_go rec d cs <> None) by (apply IH; intros c' Hc; apply H; now right).
      destruct ism.
      - pose proof (H c (or_introl eq_refl)) as Hc. destruct (rec c) as [[|]|]; [discriminate | exact Hrest | congruence].
      - destruct (beqb c d); [discriminate | exact Hrest].
    Qed.

    Lemma reaches_fuel l r :
      (forall m media data, sman l r m = Some (media, data) -> hash data = m /\ P data) ->
      forall f m d seen,
        NoDup seen -> incl seen (man_keys l r) ->
        (forall s0, In s0 seen -> (rk m < rk s0)%nat) ->
        (length (man_keys l r) < length seen + f)%nat ->
        reaches f l r m d <> None.
    Proof.
      intros Hh. induction f as [|f IH]; intros m d seen Hnd Hin Hlt Hlen.
      - exfalso. pose proof (NoDup_incl_length Hnd Hin) as Hl. lia.
      - rewrite reaches_S. destruct (beqb m d); [discriminate|].
        destruct (sman l r m) as [[media data]|] eqn:E; [|discriminate].
        apply kids_go_some. intros c Hc.
        destruct (seen_cons seen (man_keys l r) m Hnd Hin) as [Hnd' Hin'];
          [apply man_keys_In; congruence | exact Hlt |].
        apply (IH c d (m :: seen) Hnd' Hin').
        + assert (Hcm : (rk c < rk m)%nat)
            by (rewrite <- (proj1 (Hh _ _ _ E)); eapply Hrk; [exact (proj2 (Hh _ _ _ E)) | eauto]).
          intros s0 [<-|Hs]; [exact Hcm|]. specialize (Hlt _ Hs). lia.
        + cbn [length]. lia.
    Qed.

    Lemma tagged_reaches_fuel l r d :
      (forall m media data, sman l r m = Some (media, data) -> hash data = m /\ P data) ->
      tagged_reaches decode_image decode_index l r d <> None.
    Proof.
      intros Hh. unfold tagged_reaches.
      induction (tag_keys l r) as [|t ts IH]; [discriminate|].
      destruct (stag l r t) as [de|]; [|exact IH].
      pose proof (reaches_fuel l r Hh (S (length (man_keys l r))) (d_digest de) d []) as HF.
      destruct (MemSpec.reaches decode_image decode_index (S (length (man_keys l r))) l r (d_digest de) d) as [[|]|];
        [discriminate | exact IH |].
      exfalso. apply HF; [constructor | intros x [] | intros s0 [] | cbn; lia | reflexivity].
    Qed.
  End Fuel.
End Reach.
