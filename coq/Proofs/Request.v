(* Proofs about Model/Request.v: decimal rendering, base64url round trip, string surgery,
   the router (no panic, what it lets through is valid, which errors it returns), and that
   the location built for an upload ID parses back (MustConstruct does not panic). *)
From Coq Require Import String.
From OCI Require Import Base.Outcome Base.Base64 Base.Regex Model.Ref Model.Errors Model.Request Proofs.Ref.

Local Open Scope N_scope.

(* ================================================================ decimal *)

Lemma is_digit_48 n : n < 10 -> is_digit (48 + n) = true.
Proof. intros H. unfold is_digit. apply andb_true_iff. split; apply N.leb_le; lia. Qed.

Lemma digits_val_digit n rest a : n < 10 ->
  digits_val ((48 + n) :: rest) a = digits_val rest (a * 10 + Z.of_N n)%Z.
Proof.
  intros H. cbn [digits_val]. rewrite (is_digit_48 n H). do 2 f_equal. lia.
Qed.

Lemma dec_fuel_spec f : forall n acc, n < 2 ^ N.of_nat f ->
  exists l, dec_fuel f n acc = l ++ acc
            /\ forallb is_digit l = true
            /\ (forall a rest, digits_val (l ++ rest) a = digits_val rest (a * 10 ^ Z.of_nat (length l) + Z.of_N n)%Z)
            /\ (f <> O -> l <> []).
Proof.
  induction f as [|f IH]; intros n acc Hn.
  - exists []. cbn in Hn. assert (n = 0) as -> by lia. repeat split; try reflexivity.
    + intros a rest. cbn. f_equal. lia.
    + congruence.
  - cbn [dec_fuel]. assert (Hm : n mod 10 < 10) by (apply N.mod_lt; discriminate).
    destruct (N.ltb_spec n 10) as [Hlt|Hge].
    + exists [48 + n mod 10]. rewrite (N.mod_small n 10 Hlt).
      split; [reflexivity|]. split; [cbn [forallb]; now rewrite (is_digit_48 n Hlt)|]. split.
      * intros a rest. cbn [app length]. rewrite (digits_val_digit n rest a Hlt). reflexivity.
      * discriminate.
    + assert (Hd : n / 10 < 2 ^ N.of_nat f).
      { rewrite Nat2N.inj_succ, N.pow_succ_r' in Hn.
        apply N.div_lt_upper_bound; [discriminate|]. lia. }
      destruct (IH (n / 10) ((48 + n mod 10) :: acc) Hd) as (l & E & D & V & _).
      exists (l ++ [48 + n mod 10]). rewrite E, <- app_assoc.
      split; [reflexivity|]. split; [rewrite forallb_app, D; cbn [forallb]; now rewrite (is_digit_48 _ Hm)|]. split.
      * intros a rest. rewrite <- app_assoc. cbn [app]. rewrite V.
        rewrite (digits_val_digit _ rest _ Hm). f_equal.
        rewrite app_length. cbn [length]. rewrite Nat.add_1_r, Nat2Z.inj_succ, Z.pow_succ_r by lia.
        pose proof (N.div_mod' n 10). lia.
      * intros _. destruct l; discriminate.
Qed.

Lemma pos_lt_pow_size p : N.pos p < 2 ^ N.of_nat (Pos.size_nat p).
Proof.
  induction p as [p IH|p IH|]; cbn [Pos.size_nat]; rewrite ?Nat2N.inj_succ, ?N.pow_succ_r'; try lia.
Qed.

Lemma dec_N_spec n :
  forallb is_digit (dec_N n) = true /\ digits_val (dec_N n) 0 = Some (Z.of_N n) /\ dec_N n <> [].
Proof.
  unfold dec_N.
  assert (Hn : n < 2 ^ N.of_nat (S (N.size_nat n))).
  { destruct n as [|p]; [cbn; lia|].
    rewrite Nat2N.inj_succ, N.pow_succ_r'. cbn [N.size_nat].
    pose proof (pos_lt_pow_size p). lia. }
  destruct (dec_fuel_spec _ n [] Hn) as (l & E & D & V & NE).
  rewrite app_nil_r in E. rewrite E. repeat split; auto.
  specialize (V 0%Z []). rewrite app_nil_r in V. rewrite V. cbn. f_equal.
Qed.

Lemma is_digit_range c : is_digit c = true -> 48 <= c <= 57.
Proof. unfold is_digit. rewrite andb_true_iff, !N.leb_le. tauto. Qed.

Lemma forallb_digit_not_in l c : forallb is_digit l = true -> (c < 48 \/ 57 < c) -> ~ In c l.
Proof.
  intros H Hc Hin. rewrite forallb_forall in H. apply H, is_digit_range in Hin. lia.
Qed.

(* ================================================================ base64url *)

Lemma b64u_decode_map_char v : v < 64 -> b64u_decode_map (b64u_char v) = Some v.
Proof.
  intros H. unfold b64u_char, b64u_decode_map.
  destruct (N.ltb_spec v 26).
  { replace ((65 <=? 65 + v) && (65 + v <=? 90)) with true; [f_equal; lia|].
    symmetry. apply andb_true_iff. split; apply N.leb_le; lia. }
  destruct (N.ltb_spec v 52).
  { replace ((65 <=? 71 + v) && (71 + v <=? 90)) with false.
    2:{ symmetry. apply andb_false_iff. right. apply N.leb_gt. lia. }
    replace ((97 <=? 71 + v) && (71 + v <=? 122)) with true; [f_equal; lia|].
    symmetry. apply andb_true_iff. split; apply N.leb_le; lia. }
  destruct (N.ltb_spec v 62).
  { replace ((65 <=? v - 4) && (v - 4 <=? 90)) with false.
    2:{ symmetry. apply andb_false_iff. left. apply N.leb_gt. lia. }
    replace ((97 <=? v - 4) && (v - 4 <=? 122)) with false.
    2:{ symmetry. apply andb_false_iff. left. apply N.leb_gt. lia. }
    replace ((48 <=? v - 4) && (v - 4 <=? 57)) with true; [f_equal; lia|].
    symmetry. apply andb_true_iff. split; apply N.leb_le; lia. }
  destruct (N.eqb_spec v 62); [subst; reflexivity|].
  assert (v = 63) as -> by lia. reflexivity.
Qed.

(* the alphabet: A-Z a-z 0-9 - _ *)
Definition b64u_alpha (c : N) : bool :=
  ((65 <=? c) && (c <=? 90)) || ((97 <=? c) && (c <=? 122)) || ((48 <=? c) && (c <=? 57)) || (c =? 45) || (c =? 95).

Lemma b64u_char_alpha v : v < 64 -> b64u_alpha (b64u_char v) = true.
Proof.
  intros H. unfold b64u_char, b64u_alpha.
  destruct (N.ltb_spec v 26).
  { replace ((65 <=? 65 + v) && (65 + v <=? 90)) with true; [reflexivity|].
    symmetry. apply andb_true_iff. split; apply N.leb_le; lia. }
  destruct (N.ltb_spec v 52).
  { replace ((97 <=? 71 + v) && (71 + v <=? 122)) with true; [now rewrite orb_true_r|].
    symmetry. apply andb_true_iff. split; apply N.leb_le; lia. }
  destruct (N.ltb_spec v 62).
  { replace ((48 <=? v - 4) && (v - 4 <=? 57)) with true; [now rewrite !orb_true_r|].
    symmetry. apply andb_true_iff. split; apply N.leb_le; lia. }
  destruct (N.eqb_spec v 62); reflexivity.
Qed.

Lemma b64u_alpha_cases c : b64u_alpha c = true ->
  (65 <= c <= 90) \/ (97 <= c <= 122) \/ (48 <= c <= 57) \/ c = 45 \/ c = 95.
Proof.
  unfold b64u_alpha. rewrite !orb_true_iff, !andb_true_iff, !N.leb_le, !N.eqb_eq. tauto.
Qed.

(* the sextets EncodeToString emits *)
Fixpoint enc_sextets (l : bytes) : list N :=
  match l with
  | [] => []
  | [a] => [a / 4; (a mod 4) * 16]
  | [a; b] => [a / 4; (a mod 4) * 16 + b / 16; (b mod 16) * 4]
  | a :: b :: c :: r => a / 4 :: (a mod 4) * 16 + b / 16 :: (b mod 16) * 4 + c / 64 :: c mod 64 :: enc_sextets r
  end.

Lemma b64u_encode_map l : b64u_encode l = map b64u_char (enc_sextets l).
Proof.
  induction l as [|a|a b|a b c l IH] using list_ind3; try reflexivity.
  cbn [b64u_encode enc_sextets map]. now rewrite IH.
Qed.

Lemma enc_sextets_bound l : is_bytes l -> Forall (fun v => v < 64) (enc_sextets l).
Proof.
  induction l as [|a|a b|a b c l IH] using list_ind3; intros Hl; cbn [enc_sextets].
  - constructor.
  - inversion Hl as [|? ? Ha _]; subst.
    destruct (sextet_bounds a 0 0) as (S0 & _ & _ & _ & S1 & _); try lia. repeat constructor; auto.
  - inversion Hl as [|? ? Ha Hl']; subst. inversion Hl' as [|? ? Hb _]; subst.
    destruct (sextet_bounds a b 0) as (S0 & S1 & _ & _ & _ & S2); try lia. repeat constructor; auto.
  - inversion Hl as [|? ? Ha Hl1]; subst. inversion Hl1 as [|? ? Hb Hl2]; subst.
    inversion Hl2 as [|? ? Hc Hl3]; subst.
    destruct (sextet_bounds a b c Ha Hb Hc) as (S0 & S1 & S2 & S3 & _ & _).
    repeat constructor; auto.
Qed.

Lemma b64u_alpha_not_nl c : b64u_alpha c = true -> (c =? 10) || (c =? 13) = false.
Proof.
  intros H. apply b64u_alpha_cases in H. apply orb_false_iff. split; apply N.eqb_neq; lia.
Qed.

Lemma b64u_sextets_map vs : Forall (fun v => v < 64) vs -> b64u_sextets (map b64u_char vs) = Some vs.
Proof.
  induction 1 as [|v vs Hv _ IH]; [reflexivity|].
  cbn [map b64u_sextets]. rewrite (b64u_alpha_not_nl _ (b64u_char_alpha v Hv)).
  now rewrite (b64u_decode_map_char v Hv), IH.
Qed.

Lemma b64u_quanta_enc l : is_bytes l -> b64u_quanta (enc_sextets l) = Some l.
Proof.
  induction l as [|a|a b|a b c l IH] using list_ind3; intros Hl.
  - reflexivity.
  - inversion Hl as [|? ? Ha _]; subst. cbn [enc_sextets b64u_quanta]. now rewrite (tail1_bytes a Ha).
  - inversion Hl as [|? ? Ha Hl']; subst. inversion Hl' as [|? ? Hb _]; subst.
    cbn [enc_sextets b64u_quanta]. cbv zeta.
    destruct (tail2_bytes a b Ha Hb) as (B0 & B1). now rewrite B0, B1.
  - inversion Hl as [|? ? Ha Hl1]; subst. inversion Hl1 as [|? ? Hb Hl2]; subst.
    inversion Hl2 as [|? ? Hc Hl3]; subst.
    cbn [enc_sextets b64u_quanta]. cbv zeta. rewrite (IH Hl3).
    pose proof (quantum_bytes a b c Ha Hb Hc) as Q. cbv zeta in Q. rewrite Q.
    destruct (bytes_of_val a b c Ha Hb Hc) as (B0 & B1 & B2). now rewrite B0, B1, B2.
Qed.

Theorem b64u_roundtrip l : is_bytes l -> b64u_decode (b64u_encode l) = Some l.
Proof.
  intros Hl. unfold b64u_decode. rewrite b64u_encode_map.
  rewrite (b64u_sextets_map _ (enc_sextets_bound l Hl)). now apply b64u_quanta_enc.
Qed.

Lemma b64u_encode_alpha l : is_bytes l -> forallb b64u_alpha (b64u_encode l) = true.
Proof.
  intros Hl. rewrite b64u_encode_map. pose proof (enc_sextets_bound l Hl) as H.
  induction H as [|v vs Hv _ IH]; [reflexivity|]. cbn. now rewrite (b64u_char_alpha v Hv).
Qed.

Lemma b64u_encode_nonempty l : l <> [] -> b64u_encode l <> [].
Proof. destruct l as [|a [|b [|c r]]]; cbn; congruence. Qed.

(* utf8.Valid strings are byte strings *)
Lemma utf8_valid_bytes : forall l, utf8_valid l = true -> is_bytes l.
Proof.
  fix IH 1. intros [|c r]; [constructor|].
  cbn [utf8_valid]. unfold in_rng, cont.
  destruct (N.ltb_spec c 128) as [Hlt|Hge].
  { intros H. constructor; [lia | now apply IH]. }
  destruct ((194 <=? c) && (c <=? 223)) eqn:E2.
  { apply andb_true_iff in E2 as [_ E2]. apply N.leb_le in E2.
    destruct r as [|c1 r1]; [discriminate|]. intros H. apply andb_true_iff in H as [H1 H2].
    apply andb_true_iff in H1 as [_ H1]. apply N.leb_le in H1.
    constructor; [lia|]. constructor; [lia | now apply IH]. }
  destruct ((224 <=? c) && (c <=? 239)) eqn:E3.
  { apply andb_true_iff in E3 as [_ E3]. apply N.leb_le in E3.
    destruct r as [|c1 [|c2 r2]]; try discriminate. intros H.
    apply andb_true_iff in H as [H H3]. apply andb_true_iff in H as [H1 H2].
    apply andb_true_iff in H2 as [_ H2]. apply N.leb_le in H2.
    assert (c1 <= 191).
    { destruct (c =? 224); [|destruct (c =? 237)];
        apply andb_true_iff in H1 as [_ H1]; apply N.leb_le in H1; lia. }
    constructor; [lia|]. constructor; [lia|]. constructor; [lia | now apply IH]. }
  destruct ((240 <=? c) && (c <=? 244)) eqn:E4; [|discriminate].
  apply andb_true_iff in E4 as [_ E4]. apply N.leb_le in E4.
  destruct r as [|c1 [|c2 [|c3 r3]]]; try discriminate. intros H.
  apply andb_true_iff in H as [H H4]. apply andb_true_iff in H as [H H3].
  apply andb_true_iff in H as [H1 H2].
  apply andb_true_iff in H2 as [_ H2]. apply N.leb_le in H2.
  apply andb_true_iff in H3 as [_ H3]. apply N.leb_le in H3.
  assert (c1 <= 191).
  { destruct (c =? 240); [|destruct (c =? 244)];
      apply andb_true_iff in H1 as [_ H1]; apply N.leb_le in H1; lia. }
  constructor; [lia|]. constructor; [lia|]. constructor; [lia|]. constructor; [lia | now apply IH].
Qed.

(* ================================================================ strings *)

Lemma cut_last_app c a b : ~ In c b -> cut_last c (a ++ c :: b) = Some (a, b).
Proof.
  intros H. unfold cut_last. rewrite rev_app_distr. cbn [rev]. rewrite <- app_assoc. cbn [app].
  rewrite cut_byte_app by (rewrite <- in_rev; exact H). now rewrite !rev_involutive.
Qed.

Lemma has_prefix_app p r : has_prefix p (p ++ r) = true.
Proof. apply has_prefix_spec. eauto. Qed.

Lemma cut_suffix_app q a : cut_suffix q (a ++ q) = Some a.
Proof.
  unfold cut_suffix, has_suffix. rewrite rev_app_distr, has_prefix_app.
  rewrite app_length, Nat.add_sub. f_equal. rewrite firstn_app, Nat.sub_diag, firstn_all. cbn.
  apply app_nil_r.
Qed.

Lemma cut_prefix_app p a : cut_prefix p (p ++ a) = Some a.
Proof.
  unfold cut_prefix. rewrite has_prefix_app. f_equal.
  rewrite skipn_app, Nat.sub_diag, skipn_all. reflexivity.
Qed.

Lemma beqb_length a b : beqb a b = true -> length a = length b.
Proof. intros H. apply beqb_eq in H. now subst. Qed.

Lemma has_suffix_last q a c d : c <> d -> has_suffix (q ++ [c]) (a ++ [d]) = false.
Proof.
  intros H. unfold has_suffix. rewrite !rev_app_distr. cbn.
  destruct (N.eqb_spec c d); [contradiction | reflexivity].
Qed.

(* ================================================================ the validators are total *)

Section Router.
  Variable linked : alg -> bool.

  Lemma digest_validate_total d :
    (exists r, digest_validate linked d = Ok r) \/ (exists e, digest_validate linked d = Err e).
  Proof.
    unfold digest_validate.
    destruct (cut_byte b_colon d) as [[a e]|]; [|right; eauto].
    destruct (negb (nonempty a) || negb (nonempty e)); [right; eauto|].
    destruct (negb (available linked a)).
    { destruct (negb (matches digestRegexp d)); right; eauto. }
    unfold alg_validate. destruct (alg_of a); [|right; eauto].
    destruct (negb _); [right; eauto|]. destruct (matches _ _); [left | right]; eauto.
  Qed.

  Lemma valid_digest_eq d : valid_digest linked d = Ok (vdigest linked d).
  Proof.
    unfold valid_digest, vdigest, is_valid_digest.
    destruct (digest_validate_total d) as [[r H]|[e H]]; rewrite H; reflexivity.
  Qed.

  Lemma valid_repo_eq w : valid_repo w = Ok (vrepo w).
  Proof. unfold valid_repo, vrepo, is_valid_repository. now destruct (matches repoPat w). Qed.

  Lemma valid_tag_eq w : valid_tag w = Ok (vtag w).
  Proof. unfold valid_tag, vtag. rewrite is_valid_tag_spec. now destruct (tag_spec w). Qed.

  Lemma vtag_nonempty w : vtag w = true -> w <> [].
  Proof. intros H ->. vm_compute in H. discriminate. Qed.

  Lemma vrepo_matches w : vrepo w = true -> matches repoPat w = true.
  Proof. unfold vrepo, is_valid_repository. now destruct (matches repoPat w). Qed.

  (* ============================================================== the router *)

  (* every error value parse can return *)
  Definition parse_errors : list perr :=
    [ PSentinel PNotFound; PSentinel PBadlyFormedDigest; PSentinel PMethodNotAllowed;
      name_invalid; digest_invalid;
      PErr (Plain (s "invalid query"));
      PErr (Wire (W (std_code SNameUnknown) (s "unknown URL path") None));
      PErr (Plain (s "invalid upload ID (cannot decode)"));
      PErr (Plain (s "upload ID decoded to invalid utf8"));
      PErr (Wrap (s "n is not a valid integer: ") (Plain err_bad_request)) ].

  Definition good (r : R perr request) : Prop :=
    match r with
    | Ok q => request_fields_ok linked q = true
    | Err e => In e parse_errors
    | Panic | OutOfFuel => False
    end.

  Lemma slqp_cases r u :
    (exists r', set_list_query_params r u = Ok r' /\ q_kind r' = q_kind r /\ q_repo r' = q_repo r)
    \/ set_list_query_params r u = Err (PErr (Wrap (s "n is not a valid integer: ") (Plain err_bad_request))).
  Proof.
    unfold set_list_query_params. destruct (qget (s "n") u) as [|c n]; [left; eexists; split; [reflexivity|split; reflexivity]|].
    destruct (parse_int (c :: n)); [left; eexists; split; [reflexivity|split; reflexivity] | right; reflexivity].
  Qed.

  Local Arguments vrepo : simpl never.
  Local Arguments vtag : simpl never.
  Local Arguments vdigest : simpl never.

  Ltac in_list := cbn; solve [repeat (first [left; reflexivity | right])].

  Ltac facts :=
    repeat match goal with
           | H : negb _ = false |- _ => apply negb_false_iff in H
           | H : negb _ = true |- _ => apply negb_true_iff in H
           end.

  Ltac ok_leaf :=
    facts; unfold good, request_fields_ok; cbn in *;
    repeat match goal with H : ?x = true |- context [?x] => rewrite H end; reflexivity.

  Ltac step :=
    match goal with
    | |- good (pred (valid_repo ?w) _) => rewrite (valid_repo_eq w); cbn [pred]
    | |- good (pred (valid_digest _ ?w) _) => rewrite (valid_digest_eq w); cbn [pred]
    | |- good (pred (valid_tag ?w) _) => rewrite (valid_tag_eq w); cbn [pred]
    | |- good (if ?x then _ else _) => destruct x eqn:?
    | |- good (match ?x with _ => _ end) => destruct x eqn:?
    | |- good (Err _) => in_list
    | |- good (Ok _) => ok_leaf
    end.

  Theorem parse_req_good m p q : good (parse_req linked m p q).
  Proof.
    unfold parse_req. destruct (parse_query q) as [urlq qerr].
    destruct qerr; [in_list|].
    destruct (beqb p (s "/v2") || beqb p (s "/v2/")); [reflexivity|].
    destruct (cut_prefix (s "/v2/") p) as [rest|]; [|in_list].
    unfold parse_req_rest.
    destruct (beqb rest (s "_catalog")).
    { destruct (negb (beqb m m_GET)); [in_list|].
      match goal with |- good (match set_list_query_params ?r ?u with _ => _ end) =>
        destruct (slqp_cases r u) as [(r' & E & K & _)|E]; rewrite E end.
      - unfold good, request_fields_ok. now rewrite K.
      - reflexivity. }
    cbv zeta.
    repeat step.
    all: facts; unfold good, request_fields_ok; cbn in *.
    all: try match goal with
             | H : vtag [] = true |- _ => apply vtag_nonempty in H; congruence
             end.
    all: try match goal with
             | H : set_list_query_params ?r ?u = _ |- _ =>
                 destruct (slqp_cases r u) as [(r' & E & _ & _)|E]; rewrite E in H; inversion H; subst
             end.
    all: try in_list.
    all: try match goal with
             | H : vtag ?w = true |- context [match ?w with _ => _ end] =>
                 destruct w; [apply vtag_nonempty in H; congruence|]
             end.
    all: try (repeat match goal with H : ?x = true |- context [?x] => rewrite H end; reflexivity).
    repeat match goal with H : qget _ _ = _ :: _ |- _ => rewrite H; clear H end.
    repeat match goal with H : ?x = true |- context [?x] => rewrite H end; reflexivity.
  Qed.

End Router.

(* ================================================================ the upload location parses back *)

Lemma repo_alpha c : alpha repoName c = true ->
  (97 <= c <= 122) \/ (48 <= c <= 57) \/ c = 46 \/ c = 95 \/ c = 45 \/ c = 47.
Proof.
  intros H. cbn in H. unfold cls_mem, in_range in H. cbn in H.
  assert (X : forall b : bool, (if b then true else false) = b) by (intros []; reflexivity).
  rewrite !X in H. rewrite ?orb_false_r in H.
  rewrite ?orb_true_iff, ?andb_true_iff, ?N.leb_le in H.
  unfold b_dot, b_us, b_dash, b_slash in H. lia.
Qed.

(* bytes that url.Parse leaves alone and that are not a slash-free routing hazard *)
Definition plain_url_byte (c : N) : bool :=
  negb (is_ctl c) && negb (c =? 35) && negb (c =? 63) && negb (c =? 37).

Lemma unescape_plain plus a :
  forallb (fun c => negb (c =? 37) && negb (plus && (c =? 43))) a = true -> unescape plus a = Some a.
Proof.
  induction a as [|c r IH]; [reflexivity|]. cbn [forallb unescape]. intros H.
  apply andb_true_iff in H as [H1 H2]. apply andb_true_iff in H1 as [H1 H3].
  apply negb_true_iff in H1, H3. rewrite H1, (IH H2), H3. reflexivity.
Qed.

Lemma cut_byte_absent c a : ~ In c a -> cut_byte c a = None.
Proof. apply cut_byte_none. Qed.

Section Location.
  Variable linked : alg -> bool.

  Definition up_lit : bytes := s "/blobs/uploads/".

  Lemma repo_bytes_ok repo c : vrepo repo = true -> In c repo ->
    (97 <= c <= 122) \/ (48 <= c <= 57) \/ c = 46 \/ c = 95 \/ c = 45 \/ c = 47.
  Proof. intros H Hin. apply repo_alpha. eapply repo_chars; eauto. now apply vrepo_matches. Qed.

  (* the 14-byte suffix "/blobs/uploads" cannot end a path whose last segment is preceded by
     "/blobs/uploads/" *)
  Lemma no_upload_suffix rr re :
    ~ In 47 re -> re <> [] ->
    has_prefix (rev (s "/blobs/uploads")) (re ++ rev up_lit ++ rr) = false.
  Proof.
    intros Hno Hne.
    change (rev (s "/blobs/uploads")) with [115; 100; 97; 111; 108; 112; 117; 47; 115; 98; 111; 108; 98; 47].
    change (rev up_lit) with [47; 115; 100; 97; 111; 108; 112; 117; 47; 115; 98; 111; 108; 98; 47].
    destruct re as [|c0 re]; [congruence|].
    cbn [app has_prefix]. destruct (N.eqb_spec 115 c0) as [<-|]; [|reflexivity]. cbn [andb].
    destruct re as [|c1 re]; [reflexivity|].
    cbn [app has_prefix]. destruct (N.eqb_spec 100 c1) as [<-|]; [|reflexivity]. cbn [andb].
    destruct re as [|c2 re]; [reflexivity|].
    cbn [app has_prefix]. destruct (N.eqb_spec 97 c2) as [<-|]; [|reflexivity]. cbn [andb].
    destruct re as [|c3 re]; [reflexivity|].
    cbn [app has_prefix]. destruct (N.eqb_spec 111 c3) as [<-|]; [|reflexivity]. cbn [andb].
    destruct re as [|c4 re]; [reflexivity|].
    cbn [app has_prefix]. destruct (N.eqb_spec 108 c4) as [<-|]; [|reflexivity]. cbn [andb].
    destruct re as [|c5 re]; [reflexivity|].
    cbn [app has_prefix]. destruct (N.eqb_spec 112 c5) as [<-|]; [|reflexivity]. cbn [andb].
    destruct re as [|c6 re]; [reflexivity|].
    cbn [app has_prefix]. destruct (N.eqb_spec 117 c6) as [<-|]; [|reflexivity]. cbn [andb].
    destruct re as [|c7 re]; [reflexivity|].
    cbn [app has_prefix]. destruct (N.eqb_spec 47 c7) as [<-|]; [|reflexivity].
    exfalso. apply Hno. cbn. tauto.
  Qed.

  Theorem upload_location_ok repo id :
    vrepo repo = true -> id <> [] -> utf8_valid id = true ->
    MustConstruct linked (mkreq ReqBlobUploadInfo repo [] [] [] id 0 [])
    = Ok (m_GET, s "/v2/" ++ repo ++ up_lit ++ b64u_encode id).
  Proof.
    intros Hrepo Hid Hutf.
    pose proof (utf8_valid_bytes id Hutf) as Hbytes.
    remember (b64u_encode id) as e eqn:Ee0.
    assert (He_alpha : forallb b64u_alpha e = true) by (subst e; now apply b64u_encode_alpha).
    assert (He_ne : e <> []) by (subst e; now apply b64u_encode_nonempty).
    assert (He_dec : b64u_decode e = Some id) by (subst e; now apply b64u_roundtrip).
    assert (Hrepo_ne : repo <> []) by (apply repo_nonempty; now apply vrepo_matches).
    (* byte classes *)
    assert (Hre : forall c, In c repo -> plain_url_byte c = true /\ c <> 95 \/ c = 95).
    { intros c Hc. destruct (N.eq_dec c 95); [now right | left]. split; [|assumption].
      destruct (repo_bytes_ok repo c Hrepo Hc) as [H|[H|[H|[H|[H|H]]]]]; unfold plain_url_byte, is_ctl;
        repeat (apply andb_true_iff; split); apply negb_true_iff;
        try apply orb_false_iff; try split; try apply N.ltb_ge; try apply N.eqb_neq; lia. }
    assert (Hplain_repo : forallb plain_url_byte repo = true).
    { apply forallb_forall. intros c Hc.
      destruct (repo_bytes_ok repo c Hrepo Hc) as [H|[H|[H|[H|[H|H]]]]]; unfold plain_url_byte, is_ctl;
        repeat (apply andb_true_iff; split); apply negb_true_iff;
        try apply orb_false_iff; try split; try apply N.ltb_ge; try apply N.eqb_neq; lia. }
    clear Hre.
    assert (Hplain_e : forallb plain_url_byte e = true /\ ~ In 47 e).
    { split.
      - apply forallb_forall. intros c Hc. rewrite forallb_forall in He_alpha.
        destruct (b64u_alpha_cases c (He_alpha c Hc)) as [H|[H|[H|[H|H]]]]; unfold plain_url_byte, is_ctl;
          repeat (apply andb_true_iff; split); apply negb_true_iff;
          try apply orb_false_iff; try split; try apply N.ltb_ge; try apply N.eqb_neq; lia.
      - intros Hc. rewrite forallb_forall in He_alpha.
        destruct (b64u_alpha_cases 47 (He_alpha 47 Hc)) as [H|[H|[H|[H|H]]]]; lia. }
    destruct Hplain_e as [Hplain_e Hnoslash].
    set (u := s "/v2/" ++ repo ++ up_lit ++ e).
    assert (Hplain_u : forallb plain_url_byte u = true).
    { unfold u. rewrite !forallb_app, Hplain_repo, Hplain_e. reflexivity. }
    assert (Hno : forall c, (c = 35 \/ c = 63 \/ c = 37) -> ~ In c u).
    { intros c Hc Hin. rewrite forallb_forall in Hplain_u. specialize (Hplain_u c Hin).
      unfold plain_url_byte in Hplain_u. repeat (apply andb_true_iff in Hplain_u as [Hplain_u ?]).
      repeat match goal with H : negb _ = true |- _ => apply negb_true_iff, N.eqb_neq in H end. lia. }
    (* url.Parse *)
    assert (Hurl : url_parse_v2 u = Ok (u, [])).
    { unfold url_parse_v2. replace (has_prefix (s "/v2/") u) with true by (symmetry; apply has_prefix_app).
      cbn [negb]. unfold cut_or_all. rewrite (cut_byte_absent 35 u) by (apply Hno; tauto).
      replace (existsb is_ctl u) with false.
      2:{ symmetry. apply not_true_is_false. intros Hx. apply existsb_exists in Hx as (c & Hc & Hx).
          rewrite forallb_forall in Hplain_u. specialize (Hplain_u c Hc). unfold plain_url_byte in Hplain_u.
          rewrite Hx in Hplain_u. discriminate. }
      cbn [unescape]. rewrite (cut_byte_absent 63 u) by (apply Hno; tauto).
      rewrite unescape_plain; [reflexivity|].
      apply forallb_forall. intros c Hc. cbn [andb]. rewrite andb_true_r. apply negb_true_iff, N.eqb_neq.
      intros ->. apply (Hno 37); tauto. }
    (* Parse *)
    assert (Hparse : parse_req linked m_GET u [] = Ok (mkreq ReqBlobUploadInfo repo [] [] [] id (0%Z) [])).
    { unfold parse_req. cbn [parse_query].
      assert (Hnov2 : beqb u (s "/v2") || beqb u (s "/v2/") = false).
      { apply orb_false_iff. split; apply beqb_neq; intros E; apply (f_equal (@length N)) in E;
          unfold u in E; rewrite !app_length in E; cbn in E; (destruct repo; [congruence | cbn in E; lia]). }
      rewrite Hnov2. unfold u. rewrite cut_prefix_app.
      set (rest := repo ++ up_lit ++ e).
      unfold parse_req_rest.
      replace (beqb rest (s "_catalog")) with false.
      2:{ symmetry. apply beqb_neq. intros E. apply (f_equal (@length N)) in E. unfold rest in E.
          rewrite !app_length in E. cbn in E. lia. }
      (* neither upload suffix *)
      destruct (exists_last He_ne) as (e0 & clast & Ee).
      assert (Hclast : clast <> 47).
      { intros ->. apply Hnoslash. rewrite Ee. apply in_or_app. right. now left. }
      replace (cut_suffix (s "/blobs/uploads/") rest) with (@None bytes).
      2:{ symmetry. unfold cut_suffix.
          replace (has_suffix (s "/blobs/uploads/") rest) with false; [reflexivity|].
          symmetry. unfold rest. rewrite Ee, !app_assoc.
          change (s "/blobs/uploads/") with (s "/blobs/uploads" ++ [47]).
          apply has_suffix_last. congruence. }
      replace (cut_suffix (s "/blobs/uploads") rest) with (@None bytes).
      2:{ symmetry. unfold cut_suffix, has_suffix.
          replace (has_prefix (rev (s "/blobs/uploads")) (rev rest)) with false; [reflexivity|].
          symmetry. unfold rest. rewrite !rev_app_distr, <- app_assoc.
          apply no_upload_suffix.
          - rewrite <- in_rev. exact Hnoslash.
          - intros E. apply (f_equal (@rev N)) in E. rewrite rev_involutive in E. cbn in E. congruence. }
      (* the two cutLasts *)
      unfold rest.
      replace (repo ++ up_lit ++ e) with ((repo ++ s "/blobs/uploads") ++ 47 :: e)
        by (rewrite <- app_assoc; reflexivity).
      rewrite (cut_last_app 47 _ e Hnoslash).
      replace (repo ++ s "/blobs/uploads") with ((repo ++ s "/blobs") ++ 47 :: s "uploads")
        by (rewrite <- app_assoc; reflexivity).
      rewrite cut_last_app by (vm_compute; intuition discriminate).
      change (beqb (s "uploads") (s "blobs")) with false.
      change (beqb (s "uploads") (s "uploads")) with true. cbv iota.
      rewrite cut_suffix_app.
      rewrite valid_repo_eq. cbn [pred set_repo q_repo zero_request]. rewrite Hrepo. cbn [negb].
      destruct e as [|e1 e']; [congruence|].
      rewrite He_dec, Hutf. cbn [negb].
      change (beqb m_GET m_GET) with true. cbv iota. reflexivity. }
    unfold MustConstruct, Construct. cbn [construct q_kind]. unfold upload_path. cbn [q_repo q_upload].
    rewrite <- Ee0. fold up_lit. fold u. rewrite Hurl, Hparse. reflexivity.
  Qed.

End Location.
