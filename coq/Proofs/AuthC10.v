(* Proofs about Model/Auth.v, part 7: the clauses of C10 about the tokens that are sent (S1)
   and about what a token request asks for (S3), for every network, clock, configuration and
   schedule.  Two side conditions, both about the run itself and both decidable on it:
   the scopes of the requests are well formed (they are whenever they were built with the
   exported API, Proofs/ScopeEval.v: wf_eval), and every scope a token was asked for reads back
   from its text as itself (true of every clean scope, Proofs/ScopeText.v: print_parse). *)
From Coq Require Import String ZArith Lia.
From OCI Require Import Proofs.Scope Proofs.ScopeAlg Proofs.ScopeOps Proofs.ScopeEval.
From OCI Require Import Base.Outcome Model.Scope Model.Challenge Model.Auth Model.AuthSpec
  Proofs.Challenge Proofs.AuthBase Proofs.AuthShape Proofs.AuthInv Proofs.AuthStep Proofs.AuthTrace Proofs.AuthC11.

Local Open Scope Z_scope.

(* the text of the scope parses back to the scope *)
Definition rt (sc : scope) : Prop := same_fields (ParseScope (String sc)) sc.

Section C10.
  Variable E : env.

  Definition hist_wf (h : hist) : Prop :=
    forall id q, In (EStart id q) h -> wf (q_required q) /\ wf (q_want q).

  Definition rt_ok (st : state) : Prop :=
    forall host r sc, reg_get host (regs st) = Some r -> In sc (r_asked r) -> rt sc.

  Definition side (st : state) : Prop := hist_wf (history st) /\ rt_ok st.

  Lemma side_back st x : Inv E st -> side (step E st x) -> side st.
  Proof.
    intros Hinv [Hw Hr]. destruct (step_shape E st x Hinv) as [Hg Hh]. split.
    - intros id q Hin. apply (Hw id q). destruct Hh as [->|[new [_ ->]]]; [exact Hin|]. apply in_or_app. now right.
    - intros host r sc Hget Hin. destruct (Hg _ _ Hget) as [r' [Hget' Hi]]. apply (Hr host r'); auto.
  Qed.

  Lemma side_back_run l : forall st, Inv E st -> side (fold_left (step E) l st) -> side st.
  Proof.
    induction l as [|x l IH]; intros st Hinv Hs; [exact Hs|]. cbn [fold_left] in Hs.
    apply (side_back st x Hinv). apply IH; [now apply step_Inv | exact Hs].
  Qed.

  (* a clause that holds at every step, given the side conditions of the state reached *)
  Lemma run_all_ok_side (ev : event -> hist -> bool) :
    (forall st x new, Inv E st -> side (step E st x) -> shape E st (step E st x) new ->
                      history (step E st x) = new ++ history st ->
                      all_ok ev (history st) = true -> all_ok ev (new ++ history st) = true) ->
    forall l, side (run E l) -> all_ok ev (history (run E l)) = true.
  Proof.
    intros Hstep l. unfold run.
    assert (forall st, Inv E st -> all_ok ev (history st) = true -> side (fold_left (step E) l st) ->
                       all_ok ev (history (fold_left (step E) l st)) = true) as H.
    { induction l as [|x l IH]; intros st Hinv Hok Hs; [exact Hok|]. cbn [fold_left] in *.
      assert (Hs1 : side (step E st x)) by (apply (side_back_run l); [now apply step_Inv | exact Hs]).
      apply IH; [now apply step_Inv | | exact Hs].
      destruct (step_shape E st x Hinv) as [_ [Heq|[new [Hsh Heq]]]]; rewrite Heq; [exact Hok|].
      now apply (Hstep st x new). }
    apply H; [apply Inv_init | reflexivity].
  Qed.

  (* ---------- scope facts ---------- *)

  Lemma rt_contains sc x : rt sc -> Contains (ParseScope (String sc)) x = Contains sc x.
  Proof. intros H. apply contains_same; [exact H | apply same_fields_refl]. Qed.

  Lemma tok_block_sc2 id rf bs www A B toks sc2 res2 :
    tok_block E id rf bs www A B toks sc2 res2 -> sc2 = Union A B \/ sc2 = A.
  Proof. intros [n1 [res1 [_ [[_ [_ [_ ->]]]|[_ [n2 [_ [_ ->]]]]]]]]; auto. Qed.

  (* what a block asked for contains what it was told to acquire *)
  Lemma sc2_contains A B sc2 : wf A -> wf B -> sc2 = Union A B \/ sc2 = A -> Contains sc2 A = true.
  Proof. intros WA WB [->| ->]; [now apply contains_union_l | now apply contains_refl]. Qed.

  (* the issue of the block is among the issues of the current phase *)
  Lemma blk_phase_issue id r0 www A B hb toks sc2 w r1 mid :
    blk E id r0 www A B hb toks sc2 (Ok w) (Ok (tok_of w)) r1 -> mids id mid ->
    exists i, In i (phase_issues E id (mid ++ toks ++ hb)) /\ i_tok i = tok_of w /\ i_text i = String sc2.
  Proof.
    intros [_ Hb _ _ _ _ _] Hmid.
    pose proof (tok_block_sends E _ _ _ _ _ _ _ _ _ Hb) as Hts.
    destruct (block_issue E _ _ _ _ _ _ _ _ _ hb Hb) as [_ [_ [Hne Hi]]].
    exists {| i_id := id; i_text := String sc2; i_tok := tok_of w; i_refresh := wt_refresh w;
              i_exp := e_clock E (toks ++ hb) + life w |}. split; [|split; reflexivity].
    induction Hmid as [|e mid He _ IH]; cbn [app].
    - destruct toks as [|e0 toks0]; [congruence|].
      assert (ev_id e0 = id /\ is_marker id e0 = false) as [He1 He2].
      { inversion Hts as [|x l [m [rsp0 [-> _]]] _]. now split. }
      cbn [app phase_issues]. rewrite He2, He1, Nat.eqb_refl. cbn [app] in Hi. rewrite Hi. now left.
    - cbn [phase_issues]. assert (is_marker id e = false /\ ev_id e = id) as [-> ->] by (destruct He as [->| ->]; now split).
      rewrite Nat.eqb_refl. destruct (issue_at E (e :: mid ++ toks ++ hb)); [right|]; exact IH.
  Qed.

  Definition nonbearer (e : event) : bool :=
    match e with ESend _ (MReg _ (ABearer _)) _ => false | _ => true end.

  Lemma evS1_nonbearer e past : nonbearer e = true -> evS1 E e past = true.
  Proof.
    destruct e as [| |i m r| | | |]; try reflexivity. destruct m as [host a| |]; try reflexivity.
    destruct a; try reflexivity. discriminate.
  Qed.

  Lemma nonreg_nonbearer l : Forall (fun e => nonreg e = true) l -> Forall (fun e => nonbearer e = true) l.
  Proof.
    apply Forall_impl. intros e. destruct e as [| |i m r| | | |]; try reflexivity. destruct m; try reflexivity. discriminate.
  Qed.


  Lemma existsb_filter_intro (f g : issue -> bool) l i :
    In i l -> f i = true -> g i = true -> existsb g (filter f l) = true.
  Proof. intros Hi Hf Hg. apply existsb_exists. exists i. split; [apply filter_In; now split | exact Hg]. Qed.

  Lemma evS1_first id q host t rsp toks h :
    quiets id toks ->
    (q_auth q = ABearer t
     \/ (exists i, In i (phase_issues E id (toks ++ EStart id q :: h)) /\ i_tok i = t /\ nonempty t = true
                   /\ Contains (ParseScope (i_text i)) (q_required q) = true)
     \/ cached_valid E host (q_required q) (e_clock E (EStart id q :: h)) (Some t) h = true) ->
    evS1 E (ESend id (MReg host (ABearer t)) rsp) (toks ++ EStart id q :: h) = true.
  Proof.
    intros Hq H. cbn [evS1]. rewrite req_of_quiets, before_phase_quiets by exact Hq.
    cbn [req_of before_phase is_marker]. rewrite Nat.eqb_refl.
    destruct H as [H|[[i [Hi [Ht [Hn Hc]]]]|H]].
    - rewrite H, beqb_refl. reflexivity.
    - apply orb_true_iff. left. apply orb_true_iff. right.
      apply existsb_filter_intro with (i := i); auto. now rewrite Ht, beqb_refl, Hn.
    - rewrite H. apply orb_true_r.
  Qed.

  Lemma evS1_retry id q host t rsp2 new h hdr rsp ch :
    quiets id new -> req_of id h = Some q -> last_reg id h = Some (hdr, rsp) -> challenge_of rsp = Some ch ->
    (exists i, In i (phase_issues E id (new ++ EResume id :: h)) /\ i_tok i = t /\ nonempty t = true
               /\ Contains (ParseScope (i_text i)) (ParseScope (pget k_scope (ah_params ch))) = true) ->
    evS1 E (ESend id (MReg host (ABearer t)) rsp2) (new ++ EResume id :: h) = true.
  Proof.
    intros Hq Hr Hl Hc [i [Hi [Ht [Hn Hcon]]]]. cbn [evS1]. rewrite req_of_quiets, before_phase_quiets by exact Hq.
    rewrite req_of_cons by reflexivity. rewrite Hr. cbn [before_phase is_marker]. rewrite Nat.eqb_refl, Hl, Hc.
    apply existsb_filter_intro with (i := i); auto. now rewrite Ht, beqb_refl, Hn.
  Qed.

  Lemma step_S1 st x new : Inv E st -> side (step E st x) -> shape E st (step E st x) new ->
    history (step E st x) = new ++ history st ->
    all_ok (evS1 E) (history st) = true -> all_ok (evS1 E) (new ++ history st) = true.
  Proof.
    intros Hinv [Hwf Hrt] Hs Hhist Hok. remember (step E st x) as st' eqn:Est'.
    destruct Hs as [id q Hn Hie | id q a toks rsp r1 Hn Hie Hp Hg | id q www toks sc2 res2 e r1 Hn Hie r0 Ha Hb Hrf Hblk Hg
                   | id th rsp res Hth Hpc Hres | id th rsp ch r a toks ta r1 rsp2 Hth Hpc Hch Hg Hp Hg1 Hnb
                   | id th rsp ch r a toks ta r1 Hth Hpc Hch Hg Hp Hg1 Hnb
                   | id th rsp ch r toks sc2 res2 e r1 Hth Hpc Hch Hg Hb Hblk Hg1
                   | id th rsp ta res Hth Hpc Hres | id th www b Hth Hpc].
    - apply (all_ok_by nonbearer); [apply evS1_nonbearer | | exact Hok].
      constructor; [reflexivity|]. apply Forall_app. split; [apply nonreg_nonbearer, sc_nonreg | repeat constructor].
    - (* first attempt *)
      pose proof (untouched_facts id (history st) (inv_none _ _ Hinv id Hn)) as [U1 [U2 [U3 [U4 U5]]]].
      pose proof (p1_send_sends _ _ _ _ _ _ _ _ Hp) as Hts. pose proof (tok_sends_quiets _ _ Hts) as Hqt.
      pose proof (RI_p1_reg E st (q_host q) Hinv) as Hri.
      assert (Hwq : wf (q_required q) /\ wf (q_want q)).
      { apply (Hwf id q). rewrite Hhist. apply in_or_app. left. right. apply in_or_app. right. now left. }
      destruct Hwq as [WR WW].
      set (host := q_host q) in *. set (r := p1_reg E st host) in *. set (h := history st) in *.
      cbn [app all_ok]. rewrite <- app_assoc. cbn [app]. apply andb_true_iff. split.
      2:{ apply (all_ok_by nonbearer); [apply evS1_nonbearer | now apply nonreg_nonbearer, tok_sends_nonreg with (id := id)|].
          cbn [all_ok]. rewrite Hok. reflexivity. }
      destruct Hp as [tok Ha | Ha | www u p Ha Hw Hb Hbs | www toks sc2 w r1 Ha Hb Hrf Hblk Hne].
      + (* cached *)
        apply (evS1_first id q host _ rsp []); [constructor|]. right. right.
        apply find_In in Ha as [Hin Hcon]. cbn in Hin. apply filter_In in Hin as [Hin Hexp].
        apply negb_true_iff, Z.ltb_ge in Hexp.
        unfold cached_valid.
        destruct (ri_tok _ _ _ _ Hri _ Hin) as [[ce [Hc [Hne ->]]]|[i [Hi [Ho [Htx [Htk [Hne [Hex Hask]]]]]]]].
        * apply orb_true_iff. right. rewrite Hc, Hne. cbn [st_token st_expires opt_match] in *.
          rewrite beqb_refl, andb_true_r. apply Z.leb_le. exact Hexp.
        * apply orb_true_iff. left. apply existsb_exists. exists i. split; [exact Hi|].
          rewrite Htk, Hne, Ho, Hex, Htx. cbn [opt_match]. rewrite beqb_refl, !andb_true_r. cbn [andb].
          apply andb_true_iff. split; [apply Z.leb_le; exact Hexp|].
          rewrite rt_contains; [exact Hcon|]. eapply Hrt; [exact Hg | exact Hask].
      + destruct (q_auth q) as [|t|u p|raw] eqn:Eq; try reflexivity.
        apply (evS1_first id q host t rsp []); [constructor|]. now left.
      + reflexivity.
      + (* acquired with the refresh token *)
        apply (evS1_first id q host); [exact Hqt|]. right. left.
        destruct (blk_phase_issue id _ _ _ _ _ _ _ _ _ [] Hblk) as [i [Hi [Ht Htx]]]; [constructor|].
        exists i. split; [exact Hi|]. split; [exact Ht|]. split; [unfold nonempty; now rewrite Hne|].
        rewrite Htx. rewrite rt_contains.
        * apply sc2_contains with (B := q_want q); auto. eapply tok_block_sc2, blk_block. exact Hblk.
        * apply (Hrt host r1); [exact Hg | exact (blk_in2 _ _ _ _ _ _ _ _ _ _ _ _ Hblk)].
    - apply (all_ok_by nonbearer); [apply evS1_nonbearer | | exact Hok].
      constructor; [reflexivity|]. apply Forall_app. split; [apply nonreg_nonbearer, sc_nonreg|]. apply Forall_app.
      split; [eapply nonreg_nonbearer, tok_sends_nonreg, blk_sends; eauto | repeat constructor].
    - apply (all_ok_by nonbearer); [apply evS1_nonbearer | repeat constructor | exact Hok].
    - (* second attempt *)
      pose proof (inv_thr _ _ Hinv _ _ Hth) as [Hq Hokt]. rewrite Hpc in Hokt.
      destruct Hokt as [T1 [T2 [T3 [T4 [[older T5] [r' [T6 T7]]]]]]].
      pose proof (p2_send_sends _ _ _ _ _ _ _ _ _ _ Hp) as Hts. pose proof (tok_sends_quiets _ _ Hts) as Hqt.
      destruct (mids_facts _ _ (mids_of_body id (q_body (th_q th)))) as [M1 [M2 M3]].
      assert (Hwq : wf (q_required (th_q th)) /\ wf (q_want (th_q th))).
      { apply (Hwf id (th_q th)). rewrite Hhist. apply in_or_app. right.
        clear - Hq. induction (history st) as [|e h IH]; [discriminate|].
        destruct e as [i q0| | | | | |]; cbn in Hq; try (right; now apply IH).
        destruct (Nat.eqb i id) eqn:Ei; [|right; now apply IH]. apply Nat.eqb_eq in Ei. injection Hq as ->. subst. now left. }
      destruct Hwq as [WR WW].
      set (q := th_q th) in *. set (host := q_host q) in *. set (h := history st) in *.
      set (mid := match q_body q with BGet => [EGetBody id; ERespClose id] | _ => [ERespClose id] end) in *.
      cbn [app all_ok]. rewrite <- !app_assoc. cbn [app]. apply andb_true_iff. split.
      2:{ apply (all_ok_by nonbearer); [apply evS1_nonbearer | apply nonreg_nonbearer, mids_nonreg with (id := id), mids_of_body|].
          apply (all_ok_by nonbearer); [apply evS1_nonbearer | now apply nonreg_nonbearer, tok_sends_nonreg with (id := id)|].
          cbn [all_ok]. rewrite Hok. reflexivity. }
      destruct Hp as [toks sc2 w r1 Hb Hblk Hne | u p Hb Hbs]; [|reflexivity].
      rewrite app_assoc.
      apply (evS1_retry id q host _ rsp2 (mid ++ toks) h (th_hdr th) rsp ch); auto.
      + apply quiets_app; auto.
      + destruct (blk_phase_issue id _ _ _ _ _ _ _ _ _ mid Hblk (mids_of_body id (q_body q))) as [i [Hi [Ht Htx]]].
        exists i. rewrite <- app_assoc. split; [exact Hi|]. split; [exact Ht|]. split; [unfold nonempty; now rewrite Hne|].
        rewrite Htx. rewrite rt_contains.
        * apply sc2_contains with (B := Union (q_want q) (q_required q)); [apply wf_parse | now apply union_spec|].
          eapply tok_block_sc2, blk_block. exact Hblk.
        * apply (Hrt host r1); [exact Hg1 | exact (blk_in2 _ _ _ _ _ _ _ _ _ _ _ _ Hblk)].
    - apply (all_ok_by nonbearer); [apply evS1_nonbearer | | exact Hok].
      constructor; [reflexivity|]. constructor; [reflexivity|]. constructor; [reflexivity|]. apply Forall_app.
      split; [eapply nonreg_nonbearer, tok_sends_nonreg, p2_send_sends; eauto | repeat constructor].
    - apply (all_ok_by nonbearer); [apply evS1_nonbearer | | exact Hok].
      constructor; [reflexivity|]. constructor; [reflexivity|]. apply Forall_app.
      split; [eapply nonreg_nonbearer, tok_sends_nonreg, blk_sends; eauto | repeat constructor].
    - apply (all_ok_by nonbearer); [apply evS1_nonbearer | repeat constructor | exact Hok].
    - apply (all_ok_by nonbearer); [apply evS1_nonbearer | repeat constructor | exact Hok].
  Qed.

  Theorem S1_holds l : side (run E l) -> all_ok (evS1 E) (history (run E l)) = true.
  Proof. apply run_all_ok_side. intros. eapply step_S1; eauto. Qed.

  (* ---------- S3: what a token request asks for ---------- *)

  Lemma evS3_nontok e past : nontok e = true -> evS3 e past = true.
  Proof.
    destruct e as [| |i m r| | | |]; try reflexivity. destruct m; try discriminate. reflexivity.
  Qed.

  Lemma app_split {A} (l1 l2 pre post : list A) e :
    l1 ++ l2 = pre ++ e :: post ->
    (exists p2, l1 = pre ++ e :: p2 /\ post = p2 ++ l2) \/ (exists q, pre = l1 ++ q /\ l2 = q ++ e :: post).
  Proof.
    revert pre. induction l1 as [|a l1 IH]; intros pre H.
    - right. exists pre. now split.
    - destruct pre as [|b pre]; cbn in H.
      + injection H as <- <-. left. exists l1. now split.
      + injection H as <- H. destruct (IH _ H) as [[p2 [-> ->]]|[q [-> ->]]].
        * left. exists p2. now split.
        * right. exists q. now split.
  Qed.

  (* every message of one acquireToken asks for the same text; none but the newest was answered 401 *)
  Lemma tok_seq_split id rf bs www txt n res pre e post :
    tok_seq E id rf bs www txt n res -> n = pre ++ e :: post ->
    exists m rsp, e = ESend id m rsp /\ is_tok_msg m = true /\ scope_text m = txt /\ existsb is_401 post = false.
  Proof.
    intros Hs Hn. pose proof (tok_seq_401 E _ _ _ _ _ _ _ Hs) as H4.
    pose proof (tok_seq_events E _ _ _ _ _ _ _ Hs) as Hev. unfold tok_events in Hev. rewrite Forall_forall in Hev.
    destruct (Hev e) as [m [rsp [-> Hm]]]; [rewrite Hn; apply in_or_app; right; now left|].
    destruct (tokmsg_facts E _ _ _ _ _ Hm) as [Hm1 Hm2].
    exists m, rsp. repeat split; auto.
    destruct n as [|e0 rest]; [destruct pre; discriminate|]. destruct H4 as [H4 _].
    destruct pre as [|b pre]; cbn in Hn.
    - injection Hn as _ <-. exact H4.
    - injection Hn as _ ->. rewrite existsb_app in H4. apply orb_false_iff in H4 as [_ H4].
      cbn in H4. now apply orb_false_iff in H4 as [_ H4].
  Qed.

  Lemma tok_block_split id rf bs www A B toks sc2 res2 pre e post :
    tok_block E id rf bs www A B toks sc2 res2 -> toks = pre ++ e :: post ->
    exists m rsp, e = ESend id m rsp /\ is_tok_msg m = true
      /\ ((scope_text m = String (Union A B) /\ existsb is_401 post = false)
          \/ (scope_text m = String A /\ existsb is_401 post = true /\ sc2 = A)).
  Proof.
    intros [n1 [res1 [H1 [[_ [-> _]]|[Hr [n2 [H2 [-> ->]]]]]]]] Hn.
    - destruct (tok_seq_split _ _ _ _ _ _ _ _ _ _ H1 Hn) as [m [rsp [-> [Hm [Ht H4]]]]].
      exists m, rsp. repeat split; auto.
    - apply app_split in Hn as [[p2 [Hn ->]]|[q [-> Hn]]].
      + destruct (tok_seq_split _ _ _ _ _ _ _ _ _ _ H2 Hn) as [m [rsp [-> [Hm [Ht H4]]]]].
        exists m, rsp. repeat split; auto. right. split; [exact Ht|]. split; [|reflexivity].
        rewrite existsb_app. apply orb_true_iff. right.
        pose proof (tok_seq_401 E _ _ _ _ _ _ _ H1) as H41. destruct n1 as [|e1 rest1]; [congruence|].
        destruct H41 as [_ H41]. cbn. apply H41 in Hr. now rewrite Hr.
      + destruct (tok_seq_split _ _ _ _ _ _ _ _ _ _ H1 Hn) as [m [rsp [-> [Hm [Ht H4]]]]].
        exists m, rsp. repeat split; auto.
  Qed.

  Lemma phase_events_sends id post mk older :
    tok_sends id post -> is_marker id mk = true -> phase_events id (post ++ mk :: older) = post.
  Proof.
    intros Hp Hm. induction Hp as [|e post [m [rsp [-> _]]] _ IH]; cbn [app phase_events].
    - now rewrite Hm.
    - cbn [is_marker ev_id]. rewrite Nat.eqb_refl. now rewrite IH.
  Qed.

  Lemma narrowed_sends id post mk older :
    tok_sends id post -> is_marker id mk = true -> narrowed id (post ++ mk :: older) = existsb is_401 post.
  Proof. intros Hp Hm. unfold narrowed. now rewrite phase_events_sends. Qed.

  Lemma sub_sends id toks pre e post : tok_sends id toks -> toks = pre ++ e :: post -> tok_sends id post.
  Proof.
    intros Hts ->. unfold tok_sends in *. rewrite Forall_forall in *. intros y Hy. apply Hts.
    apply in_or_app. right. now right.
  Qed.

  (* the refresh-token block of phase 1 *)
  Lemma blk_S3_p1 id q r0 www h toks sc2 res2 resa r1 :
    blk E id r0 www (q_required q) (q_want q) (EStart id q :: h) toks sc2 res2 resa r1 ->
    wf (q_required q) -> wf (q_want q) -> rt (Union (q_required q) (q_want q)) -> rt sc2 ->
    all_ok evS3 (EStart id q :: h) = true -> all_ok evS3 (toks ++ EStart id q :: h) = true.
  Proof.
    intros Hblk WR WW RtU Rt2 Hok. pose proof (blk_sends _ _ _ _ _ _ _ _ _ _ _ _ Hblk) as Hts.
    apply all_ok_app; [exact Hok|]. intros pre e post Hp.
    destruct (tok_block_split _ _ _ _ _ _ _ _ _ _ _ _ (blk_block _ _ _ _ _ _ _ _ _ _ _ _ Hblk) Hp)
      as [m [rsp [-> [Hm Htxt]]]].
    pose proof (sub_sends _ _ _ _ _ Hts Hp) as Hps. pose proof (tok_sends_quiets _ _ Hps) as Hpq.
    cbn [evS3]. rewrite Hm. cbn [negb]. rewrite req_of_quiets, before_phase_quiets by exact Hpq.
    cbn [req_of before_phase is_marker]. rewrite Nat.eqb_refl.
    rewrite narrowed_sends; [|exact Hps | cbn; apply Nat.eqb_refl].
    destruct Htxt as [[-> ->]|[-> [-> ->]]].
    - cbn [orb]. rewrite !rt_contains by exact RtU.
      rewrite contains_union_l, contains_union_r by assumption. reflexivity.
    - cbn [orb]. rewrite andb_true_r. rewrite rt_contains by exact Rt2. now apply contains_refl.
  Qed.

  (* the block of phase 2, in answer to challenge [ch] *)
  Lemma blk_S3_p2 id q r0 ch h hdr rsp toks sc2 res2 resa r1 :
    blk E id r0 ch (ParseScope (pget k_scope (ah_params ch))) (Union (q_want q) (q_required q))
        (EResume id :: h) toks sc2 res2 resa r1 ->
    req_of id h = Some q -> last_reg id h = Some (hdr, rsp) -> challenge_of rsp = Some ch ->
    wf (q_required q) -> wf (q_want q) ->
    rt (Union (ParseScope (pget k_scope (ah_params ch))) (Union (q_want q) (q_required q))) ->
    all_ok evS3 (EResume id :: h) = true -> all_ok evS3 (toks ++ EResume id :: h) = true.
  Proof.
    intros Hblk Hq Hl Hc WR WW RtU Hok. pose proof (blk_sends _ _ _ _ _ _ _ _ _ _ _ _ Hblk) as Hts.
    set (c := pget k_scope (ah_params ch)) in *. set (P := ParseScope c) in *.
    set (WRs := Union (q_want q) (q_required q)) in *.
    assert (WP : wf P) by apply wf_parse.
    assert (WWR : wf WRs) by now apply union_spec.
    assert (WU : wf (Union P WRs)) by now apply union_spec.
    apply all_ok_app; [exact Hok|]. intros pre e post Hp.
    destruct (tok_block_split _ _ _ _ _ _ _ _ _ _ _ _ (blk_block _ _ _ _ _ _ _ _ _ _ _ _ Hblk) Hp)
      as [m [rsp0 [-> [Hm Htxt]]]].
    pose proof (sub_sends _ _ _ _ _ Hts Hp) as Hps. pose proof (tok_sends_quiets _ _ Hps) as Hpq.
    cbn [evS3]. rewrite Hm. cbn [negb]. rewrite req_of_quiets, before_phase_quiets by exact Hpq.
    rewrite req_of_cons by reflexivity. rewrite Hq. cbn [before_phase is_marker]. rewrite Nat.eqb_refl, Hl, Hc.
    rewrite narrowed_sends; [|exact Hps | cbn; apply Nat.eqb_refl].
    fold c. fold P. fold WRs.
    destruct Htxt as [[-> ->]|[-> [-> _]]].
    - rewrite !rt_contains by exact RtU.
      rewrite contains_union_l by assumption.
      assert (Contains (Union P WRs) (q_required q) = true) as ->.
      { apply contains_trans with (b := WRs); auto. - now apply contains_union_r. - now apply contains_union_r. }
      assert (Contains (Union P WRs) (q_want q) = true) as ->.
      { apply contains_trans with (b := WRs); auto. - now apply contains_union_r. - now apply contains_union_l. }
      cbn [andb]. destruct (Contains P WRs) eqn:Ec; [|reflexivity].
      rewrite (union_noop P WRs WP Ec). unfold P. rewrite parse_keeps_text. apply beqb_refl.
    - unfold P. rewrite parse_keeps_text. apply beqb_refl.
  Qed.

  Lemma rt_of st host r1 sc : rt_ok st -> reg_get host (regs st) = Some r1 -> In sc (r_asked r1) -> rt sc.
  Proof. intros H Hg Hi. exact (H host r1 sc Hg Hi). Qed.

  Lemma start_in_hist id q h : req_of id h = Some q -> In (EStart id q) h.
  Proof.
    induction h as [|e h IH]; [discriminate|].
    destruct e as [i q0| | | | | |]; cbn; try (intros H; right; now apply IH).
    destruct (Nat.eqb i id) eqn:Ei; [|intros H; right; now apply IH].
    apply Nat.eqb_eq in Ei. intros [= ->]. subst. now left.
  Qed.

  Lemma step_S3 st x new : Inv E st -> side (step E st x) -> shape E st (step E st x) new ->
    history (step E st x) = new ++ history st ->
    all_ok evS3 (history st) = true -> all_ok evS3 (new ++ history st) = true.
  Proof.
    intros Hinv [Hwf Hrt] Hs Hhist Hok. remember (step E st x) as st' eqn:Est'.
    destruct Hs as [id q Hn Hie | id q a toks rsp r1 Hn Hie Hp Hg | id q www toks sc2 res2 e r1 Hn Hie r0 Ha Hb Hrf Hblk Hg
                   | id th rsp res Hth Hpc Hres | id th rsp ch r a toks ta r1 rsp2 Hth Hpc Hch Hg Hp Hg1 Hnb
                   | id th rsp ch r a toks ta r1 Hth Hpc Hch Hg Hp Hg1 Hnb
                   | id th rsp ch r toks sc2 res2 e r1 Hth Hpc Hch Hg Hb Hblk Hg1
                   | id th rsp ta res Hth Hpc Hres | id th www b Hth Hpc].
    - apply (all_ok_by nontok); [apply evS3_nontok | | exact Hok].
      constructor; [reflexivity|]. apply Forall_app. split; [apply sc_nontok | repeat constructor].
    - assert (Hwq : wf (q_required q) /\ wf (q_want q)).
      { apply (Hwf id q). rewrite Hhist. apply in_or_app. left. right. apply in_or_app. right. now left. }
      destruct Hwq as [WR WW].
      assert (Hok0 : all_ok evS3 (EStart id q :: history st) = true) by (cbn [all_ok]; now rewrite Hok).
      cbn [app all_ok]. rewrite <- app_assoc. cbn [app]. apply andb_true_iff. split; [reflexivity|].
      destruct Hp as [tok Ha | Ha | www u p Ha Hw Hb Hbs | www toks sc2 w r1 Ha Hb Hrf Hblk Hne]; try exact Hok0.
      eapply blk_S3_p1; eauto.
      + eapply rt_of; [exact Hrt | exact Hg | exact (blk_inU _ _ _ _ _ _ _ _ _ _ _ _ Hblk)].
      + eapply rt_of; [exact Hrt | exact Hg | exact (blk_in2 _ _ _ _ _ _ _ _ _ _ _ _ Hblk)].
    - assert (Hwq : wf (q_required q) /\ wf (q_want q)).
      { apply (Hwf id q). rewrite Hhist. apply in_or_app. left. right. apply in_or_app. right.
        apply in_or_app. right. now left. }
      destruct Hwq as [WR WW].
      assert (Hok0 : all_ok evS3 (EStart id q :: history st) = true) by (cbn [all_ok]; now rewrite Hok).
      cbn [app all_ok]. rewrite <- !app_assoc. cbn [app]. apply andb_true_iff. split; [reflexivity|].
      apply (all_ok_by nontok); [apply evS3_nontok | apply sc_nontok|].
      eapply blk_S3_p1; eauto.
      + eapply rt_of; [exact Hrt | exact Hg | exact (blk_inU _ _ _ _ _ _ _ _ _ _ _ _ Hblk)].
      + eapply rt_of; [exact Hrt | exact Hg | exact (blk_in2 _ _ _ _ _ _ _ _ _ _ _ _ Hblk)].
    - apply (all_ok_by nontok); [apply evS3_nontok | repeat constructor | exact Hok].
    - pose proof (inv_thr _ _ Hinv _ _ Hth) as [Hq Hokt]. rewrite Hpc in Hokt. destruct Hokt as [T1 [T2 [T3 _]]].
      destruct (Hwf id (th_q th)) as [WR WW]. { rewrite Hhist. apply in_or_app. right. now apply start_in_hist. }
      assert (Hok1 : all_ok evS3 (EResume id :: history st) = true) by (cbn [all_ok]; now rewrite Hok).
      cbn [app all_ok]. rewrite <- !app_assoc. cbn [app]. apply andb_true_iff. split; [reflexivity|].
      apply (all_ok_by nontok); [apply evS3_nontok | apply mids_nontok with (id := id), mids_of_body|].
      destruct Hp as [toks sc2 w r1 Hb Hblk Hne | u p Hb Hbs]; [|exact Hok1].
      eapply blk_S3_p2; eauto.
      eapply rt_of; [exact Hrt | exact Hg1 | exact (blk_inU _ _ _ _ _ _ _ _ _ _ _ _ Hblk)].
    - pose proof (inv_thr _ _ Hinv _ _ Hth) as [Hq Hokt]. rewrite Hpc in Hokt. destruct Hokt as [T1 [T2 [T3 _]]].
      destruct (Hwf id (th_q th)) as [WR WW]. { rewrite Hhist. apply in_or_app. right. now apply start_in_hist. }
      assert (Hok1 : all_ok evS3 (EResume id :: history st) = true) by (cbn [all_ok]; now rewrite Hok).
      cbn [app all_ok]. rewrite <- !app_assoc. cbn [app].
      destruct Hp as [toks sc2 w r1 Hb Hblk Hne | u p Hb Hbs]; [|exact Hok1].
      eapply blk_S3_p2; eauto.
      eapply rt_of; [exact Hrt | exact Hg1 | exact (blk_inU _ _ _ _ _ _ _ _ _ _ _ _ Hblk)].
    - pose proof (inv_thr _ _ Hinv _ _ Hth) as [Hq Hokt]. rewrite Hpc in Hokt. destruct Hokt as [T1 [T2 [T3 _]]].
      destruct (Hwf id (th_q th)) as [WR WW]. { rewrite Hhist. apply in_or_app. right. now apply start_in_hist. }
      assert (Hok1 : all_ok evS3 (EResume id :: history st) = true) by (cbn [all_ok]; now rewrite Hok).
      cbn [app all_ok]. rewrite <- !app_assoc. cbn [app].
      eapply blk_S3_p2; eauto.
      eapply rt_of; [exact Hrt | exact Hg1 | exact (blk_inU _ _ _ _ _ _ _ _ _ _ _ _ Hblk)].
    - apply (all_ok_by nontok); [apply evS3_nontok | repeat constructor | exact Hok].
    - apply (all_ok_by nontok); [apply evS3_nontok | repeat constructor | exact Hok].
  Qed.

  Theorem S3_holds l : side (run E l) -> all_ok evS3 (history (run E l)) = true.
  Proof. apply run_all_ok_side. intros. eapply step_S3; eauto. Qed.
End C10.
