(* C02: the in-memory registry refines the reference registry.
   A simulation relation [Rel] between implementation states and reference states is
   established initially and preserved by every operation, and every result agrees up to
   the slack the property grants for content-free repositories. *)
From Coq Require Import String.
From OCI Require Import Model.Mem Model.MemSpec Proofs.MemBasics Proofs.MemInv Proofs.MemSpecFacts.

Definition bmd (b : blob) : bytes * bytes := (b_media b, b_data b).
Definition iup (st : state) (r id : bytes) : option N :=
  match get_repo st r with Some rp => alookup id (uploads rp) | None => None end.

Record Rel (st : state) (sp : sstate) : Prop := {
  rel_blob : forall r d, option_map bmd (iblob st r d) = sblob (slog sp) r d;
  rel_man : forall r d, option_map bmd (iman st r d) = sman (slog sp) r d;
  rel_tag : forall r t, itag st r t = stag (slog sp) r t;
  rel_bufs : bufs st = sbufs sp;
  rel_next : next_id st = snext sp;
  rel_up : forall r id, iup st r id = sup (sups sp) r id
}.

Lemma rel_init : Rel init sinit.
Proof. constructor; reflexivity. Qed.

Lemma iup_upd st r f r' id :
  (forall rp, uploads (f rp) = uploads rp) -> iup (upd_repo st r f) r' id = iup st r' id.
Proof.
  intros Hf. unfold iup. rewrite get_repo_upd_repo. destruct (beqb r' r) eqn:B; [|reflexivity].
  apply beqb_eq in B. subst. destruct (get_repo st r); cbn; [now rewrite Hf | reflexivity].
Qed.

Lemma beqb_pair_false r r' d d' : beqb r' r = false -> beqb r' r && beqb d' d = false.
Proof. intros ->. reflexivity. Qed.

(* --- each store update on the implementation matches one event of the reference log --- *)

Lemma rel_set_blob st sp r d b :
  Rel st sp -> get_repo st r <> None ->
  Rel (upd_repo st r (rp_set_blob d b)) (with_log sp (EvBlob r d (Some (bmd b)))).
Proof.
  intros [A B C D E F] Hr. destruct (get_repo st r) as [rp|] eqn:ER; [|congruence].
  constructor; cbn [slog sbufs sups snext with_log]; intros.
  - rewrite iblob_upd, ER. cbn [sblob]. destruct (beqb r0 r) eqn:B1; cbn [andb].
    + apply beqb_eq in B1. subst r0. cbn. rewrite alookup_aset. destruct (beqb d0 d); [reflexivity|].
      rewrite <- A. unfold iblob. now rewrite ER.
    + apply A.
  - rewrite iman_upd, ER. cbn [sman]. destruct (beqb r0 r) eqn:B1; [|apply B].
    apply beqb_eq in B1. subst r0. cbn. rewrite <- B. unfold iman. now rewrite ER.
  - rewrite itag_upd, ER. cbn [stag]. destruct (beqb r0 r) eqn:B1; [|apply C].
    apply beqb_eq in B1. subst r0. cbn. rewrite <- C. unfold itag. now rewrite ER.
  - now rewrite bufs_upd_repo.
  - now rewrite next_upd_repo.
  - rewrite iup_upd by reflexivity. apply F.
Qed.

Lemma rel_del_blob st sp r d :
  Rel st sp -> Rel (upd_repo st r (rp_del_blob d)) (with_log sp (EvBlob r d None)).
Proof.
  intros [A B C D E F].
  constructor; cbn [slog sbufs sups snext with_log]; intros.
  - rewrite iblob_upd. cbn [sblob]. destruct (beqb r0 r) eqn:B1; cbn [andb]; [|apply A].
    apply beqb_eq in B1. subst r0. destruct (get_repo st r) as [rp|] eqn:ER.
    + cbn. rewrite alookup_adel. destruct (beqb d0 d); [reflexivity|].
      rewrite <- A. unfold iblob. now rewrite ER.
    + destruct (beqb d0 d); [reflexivity|]. rewrite <- A. unfold iblob. now rewrite ER.
  - rewrite iman_upd. cbn [sman]. destruct (beqb r0 r) eqn:B1; [|apply B].
    apply beqb_eq in B1. subst r0. rewrite <- B. unfold iman. destruct (get_repo st r); reflexivity.
  - rewrite itag_upd. cbn [stag]. destruct (beqb r0 r) eqn:B1; [|apply C].
    apply beqb_eq in B1. subst r0. rewrite <- C. unfold itag. destruct (get_repo st r); reflexivity.
  - now rewrite bufs_upd_repo.
  - now rewrite next_upd_repo.
  - rewrite iup_upd by reflexivity. apply F.
Qed.

Lemma rel_set_manifest st sp r d b :
  Rel st sp -> get_repo st r <> None ->
  Rel (upd_repo st r (rp_set_manifest d b)) (with_log sp (EvMan r d (Some (bmd b)))).
Proof.
  intros [A B C D E F] Hr. destruct (get_repo st r) as [rp|] eqn:ER; [|congruence].
  constructor; cbn [slog sbufs sups snext with_log]; intros.
  - rewrite iblob_upd, ER. cbn [sblob]. destruct (beqb r0 r) eqn:B1; [|apply A].
    apply beqb_eq in B1. subst r0. cbn. rewrite <- A. unfold iblob. now rewrite ER.
  - rewrite iman_upd, ER. cbn [sman]. destruct (beqb r0 r) eqn:B1; cbn [andb].
    + apply beqb_eq in B1. subst r0. cbn. rewrite alookup_aset. destruct (beqb d0 d); [reflexivity|].
      rewrite <- B. unfold iman. now rewrite ER.
    + apply B.
  - rewrite itag_upd, ER. cbn [stag]. destruct (beqb r0 r) eqn:B1; [|apply C].
    apply beqb_eq in B1. subst r0. cbn. rewrite <- C. unfold itag. now rewrite ER.
  - now rewrite bufs_upd_repo.
  - now rewrite next_upd_repo.
  - rewrite iup_upd by reflexivity. apply F.
Qed.

Lemma rel_del_manifest st sp r d :
  Rel st sp -> Rel (upd_repo st r (rp_del_manifest d)) (with_log sp (EvMan r d None)).
Proof.
  intros [A B C D E F].
  constructor; cbn [slog sbufs sups snext with_log]; intros.
  - rewrite iblob_upd. cbn [sblob]. destruct (beqb r0 r) eqn:B1; [|apply A].
    apply beqb_eq in B1. subst r0. rewrite <- A. unfold iblob. destruct (get_repo st r); reflexivity.
  - rewrite iman_upd. cbn [sman]. destruct (beqb r0 r) eqn:B1; cbn [andb]; [|apply B].
    apply beqb_eq in B1. subst r0. destruct (get_repo st r) as [rp|] eqn:ER.
    + cbn. rewrite alookup_adel. destruct (beqb d0 d); [reflexivity|].
      rewrite <- B. unfold iman. now rewrite ER.
    + destruct (beqb d0 d); [reflexivity|]. rewrite <- B. unfold iman. now rewrite ER.
  - rewrite itag_upd. cbn [stag]. destruct (beqb r0 r) eqn:B1; [|apply C].
    apply beqb_eq in B1. subst r0. rewrite <- C. unfold itag. destruct (get_repo st r); reflexivity.
  - now rewrite bufs_upd_repo.
  - now rewrite next_upd_repo.
  - rewrite iup_upd by reflexivity. apply F.
Qed.

Lemma rel_set_tag st sp r t de :
  Rel st sp -> get_repo st r <> None ->
  Rel (upd_repo st r (rp_set_tag t de)) (with_log sp (EvTag r t (Some de))).
Proof.
  intros [A B C D E F] Hr. destruct (get_repo st r) as [rp|] eqn:ER; [|congruence].
  constructor; cbn [slog sbufs sups snext with_log]; intros.
  - rewrite iblob_upd, ER. cbn [sblob]. destruct (beqb r0 r) eqn:B1; [|apply A].
    apply beqb_eq in B1. subst r0. cbn. rewrite <- A. unfold iblob. now rewrite ER.
  - rewrite iman_upd, ER. cbn [sman]. destruct (beqb r0 r) eqn:B1; [|apply B].
    apply beqb_eq in B1. subst r0. cbn. rewrite <- B. unfold iman. now rewrite ER.
  - rewrite itag_upd, ER. cbn [stag]. destruct (beqb r0 r) eqn:B1; cbn [andb].
    + apply beqb_eq in B1. subst r0. cbn. rewrite alookup_aset. destruct (beqb t0 t); [reflexivity|].
      rewrite <- C. unfold itag. now rewrite ER.
    + apply C.
  - now rewrite bufs_upd_repo.
  - now rewrite next_upd_repo.
  - rewrite iup_upd by reflexivity. apply F.
Qed.

Lemma rel_del_tag st sp r t :
  Rel st sp -> Rel (upd_repo st r (rp_del_tag t)) (with_log sp (EvTag r t None)).
Proof.
  intros [A B C D E F].
  constructor; cbn [slog sbufs sups snext with_log]; intros.
  - rewrite iblob_upd. cbn [sblob]. destruct (beqb r0 r) eqn:B1; [|apply A].
    apply beqb_eq in B1. subst r0. rewrite <- A. unfold iblob. destruct (get_repo st r); reflexivity.
  - rewrite iman_upd. cbn [sman]. destruct (beqb r0 r) eqn:B1; [|apply B].
    apply beqb_eq in B1. subst r0. rewrite <- B. unfold iman. destruct (get_repo st r); reflexivity.
  - rewrite itag_upd. cbn [stag]. destruct (beqb r0 r) eqn:B1; cbn [andb]; [|apply C].
    apply beqb_eq in B1. subst r0. destruct (get_repo st r) as [rp|] eqn:ER.
    + cbn. rewrite alookup_adel. destruct (beqb t0 t); [reflexivity|].
      rewrite <- C. unfold itag. now rewrite ER.
    + destruct (beqb t0 t); [reflexivity|]. rewrite <- C. unfold itag. now rewrite ER.
  - now rewrite bufs_upd_repo.
  - now rewrite next_upd_repo.
  - rewrite iup_upd by reflexivity. apply F.
Qed.

Lemma rel_make_repo valid_repo st sp r st1 :
  Rel st sp -> make_repo valid_repo st r = Some st1 -> Rel st1 sp.
Proof.
  intros [A B C D E F] H.
  pose proof (make_repo_views _ _ _ _ H) as (V1 & V2 & V3).
  pose proof (make_repo_some _ _ _ _ H) as (_ & _ & Hb & Hn & Hg).
  constructor; intros; rewrite ?V1, ?V2, ?V3; auto; try congruence.
  rewrite <- F. unfold iup. rewrite Hg. destruct (get_repo st r0); [reflexivity|].
  destruct (beqb r0 r); reflexivity.
Qed.

Lemma rel_with_buf st sp i f :
  Rel st sp -> Rel (with_buf st i f) (with_sbuf sp i f).
Proof.
  intros [A B C D E F]. constructor; cbn; auto. now rewrite D.
Qed.

(* agreement of the store views, in the forms the cases below use *)
Lemma rel_blob_some st sp r d b :
  Rel st sp -> iblob st r d = Some b -> sblob (slog sp) r d = Some (bmd b).
Proof. intros HR H. rewrite <- (rel_blob _ _ HR), H. reflexivity. Qed.
Lemma rel_blob_none st sp r d :
  Rel st sp -> iblob st r d = None -> sblob (slog sp) r d = None.
Proof. intros HR H. rewrite <- (rel_blob _ _ HR), H. reflexivity. Qed.
Lemma rel_man_some st sp r d b :
  Rel st sp -> iman st r d = Some b -> sman (slog sp) r d = Some (bmd b).
Proof. intros HR H. rewrite <- (rel_man _ _ HR), H. reflexivity. Qed.
Lemma rel_man_none st sp r d :
  Rel st sp -> iman st r d = None -> sman (slog sp) r d = None.
Proof. intros HR H. rewrite <- (rel_man _ _ HR), H. reflexivity. Qed.

(* a repository with content exists in the implementation's table *)
Lemma has_content_repo st sp r :
  Rel st sp -> has_content (slog sp) r = true -> get_repo st r <> None.
Proof.
  intros HR H. apply has_content_spec in H as [[k H]|[[k H]|[k H]]].
  - rewrite <- (rel_blob _ _ HR) in H. unfold iblob in H. destruct (get_repo st r); cbn in *; congruence.
  - rewrite <- (rel_man _ _ HR) in H. unfold iman in H. destruct (get_repo st r); cbn in *; congruence.
  - rewrite <- (rel_tag _ _ HR) in H. unfold itag in H. destruct (get_repo st r); cbn in *; congruence.
Qed.
