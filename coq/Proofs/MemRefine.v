(* C02: the in-memory registry refines the reference registry.
   A simulation relation [Rel] between implementation states and reference states is
   established initially and preserved by every operation, and every result agrees up to
   the slack the property grants for content-free repositories. *)
From Coq Require Import String.
From Coq Require Import Lia.
From OCI Require Import Model.Mem Model.MemSpec Model.MemRel Proofs.MemBasics Proofs.MemInv Proofs.MemSpecFacts
  Proofs.MemReach.
Definition iup (st : state) (r id : bytes) : option N :=
  match get_repo st r with Some rp => alookup id (uploads rp) | None => None end.

Record Rel (st : state) (sp : sstate) : Prop := {
  rel_blob : forall r d, option_map bmd (iblob st r d) = sblob (slog sp) r d;
  rel_man : forall r d, option_map bmd (iman st r d) = sman (slog sp) r d;
  rel_tag : forall r t, itag st r t = stag (slog sp) r t;
  rel_bufs : bufs st = sbufs sp;
  rel_next : next_id st = snext sp;
  rel_up : forall r id, iup st r id = sup (sups sp) r id
}.

Lemma rel_init : Rel init sinit.
Proof. constructor; reflexivity. Qed.

Lemma iup_upd st r f r' id :
  (forall rp, uploads (f rp) = uploads rp) -> iup (upd_repo st r f) r' id = iup st r' id.
Proof.
  intros Hf. unfold iup. rewrite get_repo_upd_repo. destruct (beqb r' r) eqn:B; [|reflexivity].
  apply beqb_eq in B. subst. destruct (get_repo st r); cbn; [now rewrite Hf | reflexivity].
Qed.

Lemma beqb_pair_false r r' d d' : beqb r' r = false -> beqb r' r && beqb d' d = false.
Proof. intros ->. reflexivity. Qed.

(* --- each store update on the implementation matches one event of the reference log --- *)

Lemma rel_set_blob st sp r d b :
  Rel st sp -> get_repo st r <> None ->
  Rel (upd_repo st r (rp_set_blob d b)) (with_log sp (EvBlob r d (Some (bmd b)))).
Proof.
  intros [A B C D E F] Hr. destruct (get_repo st r) as [rp|] eqn:ER; [|congruence].
  constructor; cbn [slog sbufs sups snext with_log]; intros.
  - rewrite iblob_upd, ER. cbn [sblob]. destruct (beqb r0 r) eqn:B1; cbn [andb].
    + apply beqb_eq in B1. subst r0. cbn. rewrite alookup_aset. destruct (beqb d0 d); [reflexivity|].
      rewrite <- A. unfold iblob. now rewrite ER.
    + apply A.
  - rewrite iman_upd, ER. cbn [sman]. destruct (beqb r0 r) eqn:B1; [|apply B].
    apply beqb_eq in B1. subst r0. cbn. rewrite <- B. unfold iman. now rewrite ER.
  - rewrite itag_upd, ER. cbn [stag]. destruct (beqb r0 r) eqn:B1; [|apply C].
    apply beqb_eq in B1. subst r0. cbn. rewrite <- C. unfold itag. now rewrite ER.
  - now rewrite bufs_upd_repo.
  - now rewrite next_upd_repo.
  - rewrite iup_upd by reflexivity. apply F.
Qed.

Lemma rel_del_blob st sp r d :
  Rel st sp -> Rel (upd_repo st r (rp_del_blob d)) (with_log sp (EvBlob r d None)).
Proof.
  intros [A B C D E F].
  constructor; cbn [slog sbufs sups snext with_log]; intros.
  - rewrite iblob_upd. cbn [sblob]. destruct (beqb r0 r) eqn:B1; cbn [andb]; [|apply A].
    apply beqb_eq in B1. subst r0. destruct (get_repo st r) as [rp|] eqn:ER.
    + cbn. rewrite alookup_adel. destruct (beqb d0 d); [reflexivity|].
      rewrite <- A. unfold iblob. now rewrite ER.
    + destruct (beqb d0 d); [reflexivity|]. rewrite <- A. unfold iblob. now rewrite ER.
  - rewrite iman_upd. cbn [sman]. destruct (beqb r0 r) eqn:B1; [|apply B].
    apply beqb_eq in B1. subst r0. rewrite <- B. unfold iman. destruct (get_repo st r); reflexivity.
  - rewrite itag_upd. cbn [stag]. destruct (beqb r0 r) eqn:B1; [|apply C].
    apply beqb_eq in B1. subst r0. rewrite <- C. unfold itag. destruct (get_repo st r); reflexivity.
  - now rewrite bufs_upd_repo.
  - now rewrite next_upd_repo.
  - rewrite iup_upd by reflexivity. apply F.
Qed.

Lemma rel_set_manifest st sp r d b :
  Rel st sp -> get_repo st r <> None ->
  Rel (upd_repo st r (rp_set_manifest d b)) (with_log sp (EvMan r d (Some (bmd b)))).
Proof.
  intros [A B C D E F] Hr. destruct (get_repo st r) as [rp|] eqn:ER; [|congruence].
  constructor; cbn [slog sbufs sups snext with_log]; intros.
  - rewrite iblob_upd, ER. cbn [sblob]. destruct (beqb r0 r) eqn:B1; [|apply A].
    apply beqb_eq in B1. subst r0. cbn. rewrite <- A. unfold iblob. now rewrite ER.
  - rewrite iman_upd, ER. cbn [sman]. destruct (beqb r0 r) eqn:B1; cbn [andb].
    + apply beqb_eq in B1. subst r0. cbn. rewrite alookup_aset. destruct (beqb d0 d); [reflexivity|].
      rewrite <- B. unfold iman. now rewrite ER.
    + apply B.
  - rewrite itag_upd, ER. cbn [stag]. destruct (beqb r0 r) eqn:B1; [|apply C].
    apply beqb_eq in B1. subst r0. cbn. rewrite <- C. unfold itag. now rewrite ER.
  - now rewrite bufs_upd_repo.
  - now rewrite next_upd_repo.
  - rewrite iup_upd by reflexivity. apply F.
Qed.

Lemma rel_del_manifest st sp r d :
  Rel st sp -> Rel (upd_repo st r (rp_del_manifest d)) (with_log sp (EvMan r d None)).
Proof.
  intros [A B C D E F].
  constructor; cbn [slog sbufs sups snext with_log]; intros.
  - rewrite iblob_upd. cbn [sblob]. destruct (beqb r0 r) eqn:B1; [|apply A].
    apply beqb_eq in B1. subst r0. rewrite <- A. unfold iblob. destruct (get_repo st r); reflexivity.
  - rewrite iman_upd. cbn [sman]. destruct (beqb r0 r) eqn:B1; cbn [andb]; [|apply B].
    apply beqb_eq in B1. subst r0. destruct (get_repo st r) as [rp|] eqn:ER.
    + cbn. rewrite alookup_adel. destruct (beqb d0 d); [reflexivity|].
      rewrite <- B. unfold iman. now rewrite ER.
    + destruct (beqb d0 d); [reflexivity|]. rewrite <- B. unfold iman. now rewrite ER.
  - rewrite itag_upd. cbn [stag]. destruct (beqb r0 r) eqn:B1; [|apply C].
    apply beqb_eq in B1. subst r0. rewrite <- C. unfold itag. destruct (get_repo st r); reflexivity.
  - now rewrite bufs_upd_repo.
  - now rewrite next_upd_repo.
  - rewrite iup_upd by reflexivity. apply F.
Qed.

Lemma rel_set_tag st sp r t de :
  Rel st sp -> get_repo st r <> None ->
  Rel (upd_repo st r (rp_set_tag t de)) (with_log sp (EvTag r t (Some de))).
Proof.
  intros [A B C D E F] Hr. destruct (get_repo st r) as [rp|] eqn:ER; [|congruence].
  constructor; cbn [slog sbufs sups snext with_log]; intros.
  - rewrite iblob_upd, ER. cbn [sblob]. destruct (beqb r0 r) eqn:B1; [|apply A].
    apply beqb_eq in B1. subst r0. cbn. rewrite <- A. unfold iblob. now rewrite ER.
  - rewrite iman_upd, ER. cbn [sman]. destruct (beqb r0 r) eqn:B1; [|apply B].
    apply beqb_eq in B1. subst r0. cbn. rewrite <- B. unfold iman. now rewrite ER.
  - rewrite itag_upd, ER. cbn [stag]. destruct (beqb r0 r) eqn:B1; cbn [andb].
    + apply beqb_eq in B1. subst r0. cbn. rewrite alookup_aset. destruct (beqb t0 t); [reflexivity|].
      rewrite <- C. unfold itag. now rewrite ER.
    + apply C.
  - now rewrite bufs_upd_repo.
  - now rewrite next_upd_repo.
  - rewrite iup_upd by reflexivity. apply F.
Qed.

Lemma rel_del_tag st sp r t :
  Rel st sp -> Rel (upd_repo st r (rp_del_tag t)) (with_log sp (EvTag r t None)).
Proof.
  intros [A B C D E F].
  constructor; cbn [slog sbufs sups snext with_log]; intros.
  - rewrite iblob_upd. cbn [sblob]. destruct (beqb r0 r) eqn:B1; [|apply A].
    apply beqb_eq in B1. subst r0. rewrite <- A. unfold iblob. destruct (get_repo st r); reflexivity.
  - rewrite iman_upd. cbn [sman]. destruct (beqb r0 r) eqn:B1; [|apply B].
    apply beqb_eq in B1. subst r0. rewrite <- B. unfold iman. destruct (get_repo st r); reflexivity.
  - rewrite itag_upd. cbn [stag]. destruct (beqb r0 r) eqn:B1; cbn [andb]; [|apply C].
    apply beqb_eq in B1. subst r0. destruct (get_repo st r) as [rp|] eqn:ER.
    + cbn. rewrite alookup_adel. destruct (beqb t0 t); [reflexivity|].
      rewrite <- C. unfold itag. now rewrite ER.
    + destruct (beqb t0 t); [reflexivity|]. rewrite <- C. unfold itag. now rewrite ER.
  - now rewrite bufs_upd_repo.
  - now rewrite next_upd_repo.
  - rewrite iup_upd by reflexivity. apply F.
Qed.

Lemma rel_make_repo valid_repo st sp r st1 :
  Rel st sp -> make_repo valid_repo st r = Some st1 -> Rel st1 sp.
Proof.
  intros [A B C D E F] H.
  pose proof (make_repo_views _ _ _ _ H) as (V1 & V2 & V3).
  pose proof (make_repo_some _ _ _ _ H) as (_ & _ & Hb & Hn & Hg).
  constructor; intros; rewrite ?V1, ?V2, ?V3; auto; try congruence.
  rewrite <- F. unfold iup. rewrite Hg. destruct (get_repo st r0); [reflexivity|].
  destruct (beqb r0 r); reflexivity.
Qed.

Lemma rel_with_buf st sp i f :
  Rel st sp -> Rel (with_buf st i f) (with_sbuf sp i f).
Proof.
  intros [A B C D E F]. constructor; cbn; auto. now rewrite D.
Qed.

(* agreement of the store views, in the forms the cases below use *)
Lemma rel_blob_some st sp r d b :
  Rel st sp -> iblob st r d = Some b -> sblob (slog sp) r d = Some (bmd b).
Proof. intros HR H. rewrite <- (rel_blob _ _ HR), H. reflexivity. Qed.
Lemma rel_blob_none st sp r d :
  Rel st sp -> iblob st r d = None -> sblob (slog sp) r d = None.
Proof. intros HR H. rewrite <- (rel_blob _ _ HR), H. reflexivity. Qed.
Lemma rel_man_some st sp r d b :
  Rel st sp -> iman st r d = Some b -> sman (slog sp) r d = Some (bmd b).
Proof. intros HR H. rewrite <- (rel_man _ _ HR), H. reflexivity. Qed.
Lemma rel_man_none st sp r d :
  Rel st sp -> iman st r d = None -> sman (slog sp) r d = None.
Proof. intros HR H. rewrite <- (rel_man _ _ HR), H. reflexivity. Qed.

(* a repository with content exists in the implementation's table *)
Lemma has_content_repo st sp r :
  Rel st sp -> has_content (slog sp) r = true -> get_repo st r <> None.
Proof.
  intros HR H. apply has_content_spec in H as [[k H]|[[k H]|[k H]]].
  - rewrite <- (rel_blob _ _ HR) in H. unfold iblob in H. destruct (get_repo st r); cbn in *; congruence.
  - rewrite <- (rel_man _ _ HR) in H. unfold iman in H. destruct (get_repo st r); cbn in *; congruence.
  - rewrite <- (rel_tag _ _ HR) in H. unfold itag in H. destruct (get_repo st r); cbn in *; congruence.
Qed.

(* a repository the implementation does not know holds no content *)
Lemma rel_repo_none st sp r : Rel st sp -> get_repo st r = None -> has_content (slog sp) r = false.
Proof.
  intros HR H. destruct (has_content (slog sp) r) eqn:E; [|reflexivity].
  exfalso. eapply has_content_repo; eauto.
Qed.

(* ---- comparison of results: reflexivity facts ---- *)
Lemma desc_eqb_refl x : desc_eqb x x = true.
Proof. now apply desc_eqb_eq. Qed.
Lemma list_eqb_beqb_refl l : list_eqb beqb l l = true.
Proof. now apply (list_eqb_eq beqb beqb_eq). Qed.
Lemma list_eqb_desc_refl l : list_eqb desc_eqb l l = true.
Proof. now apply (list_eqb_eq desc_eqb desc_eqb_eq). Qed.
Lemma res_same_refl a : res_same a a = true.
Proof.
  destruct a; cbn; rewrite ?desc_eqb_refl, ?beqb_refl, ?list_eqb_beqb_refl, ?list_eqb_desc_refl,
    ?N.eqb_refl, ?Z.eqb_refl; try reflexivity;
    unfold opt_code_eqb; destruct e; cbn; auto; now apply ecode_eqb_eq.
Qed.
Lemma code_ok_refl c : code_ok c c = true.
Proof. unfold code_ok. destruct c; try reflexivity. cbn. apply beqb_refl. Qed.
Lemma result_match_refl r : definite r -> result_match r r = true.
Proof.
  destruct r; cbn; intros H; [apply res_same_refl | apply code_ok_refl | reflexivity | now elim H].
Qed.
Lemma result_match_err e e' : e_code e = e_code e' -> result_match (Err e) (Err e') = true.
Proof. cbn. intros ->. apply code_ok_refl. Qed.
Lemma result_match_plain e what : result_match (Err e) (Err (e_plain what)) = true.
Proof. reflexivity. Qed.

Section Refine.
  Variable hash : bytes -> bytes.
  Variable valid_digest : bytes -> bool.
  Variable valid_repo : bytes -> bool.
  Variable valid_tag : bytes -> bool.
  Variable decode_image : bytes -> option image_manifest.
  Variable decode_index : bytes -> option index_manifest.
  Variable cfg : config.

  Local Notation step := (step hash valid_digest valid_repo valid_tag decode_image decode_index cfg).
  Local Notation sstep := (sstep hash valid_digest valid_repo valid_tag decode_image decode_index cfg).
  Local Notation Inv := (Inv hash decode_image decode_index).
  Local Notation blob_desc := (blob_desc hash).
  Local Notation make_repo := (make_repo valid_repo).

  (* the implementation's step and the reference step on related states: related states
     again, and an answer the reference registry accepts *)
  Definition step_ok (l : list event) (o : op) (p : state * result) (q : sstate * result) : Prop :=
    Rel (fst p) (fst q) /\ res_ok l o (snd p) (snd q) = true.

  Lemma blob_desc_sdesc b d : hash (b_data b) = d -> blob_desc b = sdesc (b_media b) d (b_data b).
  Proof. intros <-. reflexivity. Qed.

  (* Registry.blobForDigest / manifestForDigest against the reference lookups *)
  Lemma blob_for_sim st sp r d :
    Rel st sp -> Inv st ->
    match blob_for st r d with
    | Ok b => sblob (slog sp) r d = Some (bmd b) /\ hash (b_data b) = d /\ iblob st r d = Some b
    | Err e => sblob (slog sp) r d = None /\
               ((e = e_name_unknown /\ get_repo st r = None) \/ (e = e_blob_unknown /\ get_repo st r <> None))
    | _ => False
    end.
  Proof.
    intros HR HI. unfold blob_for. destruct (get_repo st r) as [rp|] eqn:ER.
    - destruct (alookup d (blobs rp)) as [b|] eqn:EL.
      + assert (Hi : iblob st r d = Some b) by (unfold iblob; now rewrite ER).
        repeat split; [eapply rel_blob_some; eauto | eapply inv_iblob; eauto | exact Hi].
      + split; [|right; split; [reflexivity | discriminate]].
        eapply rel_blob_none; eauto. unfold iblob. now rewrite ER.
    - split; [|left; auto]. eapply rel_blob_none; eauto. unfold iblob. now rewrite ER.
  Qed.

  Lemma manifest_for_sim st sp r d :
    Rel st sp -> Inv st ->
    match manifest_for st r d with
    | Ok b => sman (slog sp) r d = Some (bmd b) /\ hash (b_data b) = d /\ iman st r d = Some b
    | Err e => sman (slog sp) r d = None /\
               ((e = e_name_unknown /\ get_repo st r = None) \/ (e = e_manifest_unknown /\ get_repo st r <> None))
    | _ => False
    end.
  Proof.
    intros HR HI. unfold manifest_for. destruct (get_repo st r) as [rp|] eqn:ER.
    - destruct (alookup d (manifests rp)) as [b|] eqn:EL.
      + assert (Hi : iman st r d = Some b) by (unfold iman; now rewrite ER).
        repeat split; [eapply rel_man_some; eauto | eapply inv_iman; eauto | exact Hi].
      + split; [|right; split; [reflexivity | discriminate]].
        eapply rel_man_none; eauto. unfold iman. now rewrite ER.
    - split; [|left; auto]. eapply rel_man_none; eauto. unfold iman. now rewrite ER.
  Qed.

  (* "unknown" answers: NAME_UNKNOWN from an absent repository is the reference answer;
     X_UNKNOWN from a present one is the reference answer when the repository holds
     content and the allowed empty answer when it does not *)
  Lemma unknown_ok st sp r e c what :
    Rel st sp ->
    (e = e_name_unknown /\ get_repo st r = None) \/ (e_code e = c /\ get_repo st r <> None) ->
    result_match (Err e) (Err (unknown_or (slog sp) r c what)) = true \/
    (has_content (slog sp) r = false /\ e_code e = c).
  Proof.
    intros HR [[-> Hn]|[Hc Hn]]; unfold unknown_or.
    - rewrite (rel_repo_none _ _ _ HR Hn). now left.
    - destruct (has_content (slog sp) r); [left | right; auto].
      apply result_match_err. exact Hc.
  Qed.

  (* finishing an "unknown" answer *)
  Lemma finish_unknown l o rn e q c :
    op_repo o = Some rn ->
    (forall s, o <> Repositories s) ->
    (empty_answer o (Err e) = true <-> (e_code e = c \/ e_code e = NAME_UNKNOWN)) ->
    result_match (Err e) q = true \/ (has_content l rn = false /\ e_code e = c) ->
    res_ok l o (Err e) q = true.
  Proof.
    intros Ho Hn He H.
    assert (res_ok l o (Err e) q = result_match (Err e) q || slack l o (Err e)) as ->.
    { destruct o; reflexivity. }
    unfold slack. rewrite Ho. destruct H as [->|[-> Hc]]; [reflexivity|].
    cbn [negb andb]. apply orb_true_iff. right. apply He. now left.
  Qed.

  Lemma res_ok_match l o r q :
    (forall s, o <> Repositories s) -> result_match r q = true -> res_ok l o r q = true.
  Proof.
    intros Hn H.
    assert (res_ok l o r q = result_match r q || slack l o r) as ->.
    { destruct o; try reflexivity. now elim (Hn start). }
    now rewrite H.
  Qed.

  Lemma blob_codes e : ecode_eqb (e_code e) BLOB_UNKNOWN || ecode_eqb (e_code e) NAME_UNKNOWN = true <->
                       (e_code e = BLOB_UNKNOWN \/ e_code e = NAME_UNKNOWN).
  Proof. rewrite orb_true_iff, !ecode_eqb_eq. tauto. Qed.
  Lemma man_codes e : ecode_eqb (e_code e) MANIFEST_UNKNOWN || ecode_eqb (e_code e) NAME_UNKNOWN = true <->
                      (e_code e = MANIFEST_UNKNOWN \/ e_code e = NAME_UNKNOWN).
  Proof. rewrite orb_true_iff, !ecode_eqb_eq. tauto. Qed.

  Lemma blob_unknown_cases st r e :
    (e = e_name_unknown /\ get_repo st r = None) \/ (e = e_blob_unknown /\ get_repo st r <> None) ->
    (e = e_name_unknown /\ get_repo st r = None) \/ (e_code e = BLOB_UNKNOWN /\ get_repo st r <> None).
  Proof. intros [H|[-> H]]; auto. Qed.
  Lemma man_unknown_cases st r e :
    (e = e_name_unknown /\ get_repo st r = None) \/ (e = e_manifest_unknown /\ get_repo st r <> None) ->
    (e = e_name_unknown /\ get_repo st r = None) \/ (e_code e = MANIFEST_UNKNOWN /\ get_repo st r <> None).
  Proof. intros [H|[-> H]]; auto. Qed.

  Lemma read_ok l o de data :
    (forall s, o <> Repositories s) -> res_ok l o (Ok (RRead de data)) (Ok (RRead de data)) = true.
  Proof. intros Hn. apply res_ok_match; [exact Hn|]. apply result_match_refl. discriminate. Qed.
  Lemma desc_ok l o de :
    (forall s, o <> Repositories s) -> res_ok l o (Ok (RDesc de)) (Ok (RDesc de)) = true.
  Proof. intros Hn. apply res_ok_match; [exact Hn|]. apply result_match_refl. discriminate. Qed.

  (* ---- reads ---- *)
  Lemma sim_GetBlob st sp r d :
    Rel st sp -> Inv st -> step_ok (slog sp) (GetBlob r d) (step st (GetBlob r d)) (sstep sp (GetBlob r d)).
  Proof.
    intros HR HI. unfold step_ok. cbn [Mem.step MemSpec.sstep fst snd]. split; [exact HR|].
    pose proof (blob_for_sim st sp r d HR HI) as H.
    destruct (blob_for st r d) as [b|e| |]; cbn [rbind]; try contradiction.
    - destruct H as (-> & Hh & _). cbn [bmd]. rewrite (blob_desc_sdesc b d Hh).
      apply read_ok. discriminate.
    - destruct H as (-> & H). apply blob_unknown_cases in H.
      eapply finish_unknown; [reflexivity | discriminate | apply blob_codes |].
      eapply unknown_ok; eauto.
  Qed.

  Lemma sim_GetBlobRange st sp r d o0 o1 :
    Rel st sp -> Inv st ->
    step_ok (slog sp) (GetBlobRange r d o0 o1) (step st (GetBlobRange r d o0 o1)) (sstep sp (GetBlobRange r d o0 o1)).
  Proof.
    intros HR HI. unfold step_ok. cbn [Mem.step MemSpec.sstep fst snd]. split; [exact HR|].
    pose proof (blob_for_sim st sp r d HR HI) as H.
    destruct (blob_for st r d) as [b|e| |]; cbn [rbind]; try contradiction.
    - destruct H as (-> & Hh & _). cbn [bmd]. rewrite (blob_desc_sdesc b d Hh).
      destruct ((o0 <? 0)%Z || (o0 >? _)%Z).
      + apply res_ok_match; [discriminate | reflexivity].
      + apply read_ok. discriminate.
    - destruct H as (-> & H). apply blob_unknown_cases in H.
      eapply finish_unknown; [reflexivity | discriminate | apply blob_codes |].
      eapply unknown_ok; eauto.
  Qed.

  Lemma sim_ResolveBlob st sp r d :
    Rel st sp -> Inv st -> step_ok (slog sp) (ResolveBlob r d) (step st (ResolveBlob r d)) (sstep sp (ResolveBlob r d)).
  Proof.
    intros HR HI. unfold step_ok. cbn [Mem.step MemSpec.sstep fst snd]. split; [exact HR|].
    pose proof (blob_for_sim st sp r d HR HI) as H.
    destruct (blob_for st r d) as [b|e| |]; cbn [rbind]; try contradiction.
    - destruct H as (-> & Hh & _). cbn [bmd]. rewrite (blob_desc_sdesc b d Hh).
      apply desc_ok. discriminate.
    - destruct H as (-> & H). apply blob_unknown_cases in H.
      eapply finish_unknown; [reflexivity | discriminate | apply blob_codes |].
      eapply unknown_ok; eauto.
  Qed.

  Lemma sim_GetManifest st sp r d :
    Rel st sp -> Inv st -> step_ok (slog sp) (GetManifest r d) (step st (GetManifest r d)) (sstep sp (GetManifest r d)).
  Proof.
    intros HR HI. unfold step_ok. cbn [Mem.step MemSpec.sstep fst snd]. split; [exact HR|].
    pose proof (manifest_for_sim st sp r d HR HI) as H.
    destruct (manifest_for st r d) as [b|e| |]; cbn [rbind]; try contradiction.
    - destruct H as (-> & Hh & _). cbn [bmd]. rewrite (blob_desc_sdesc b d Hh).
      apply read_ok. discriminate.
    - destruct H as (-> & H). apply man_unknown_cases in H.
      eapply finish_unknown; [reflexivity | discriminate | apply man_codes |].
      eapply unknown_ok; eauto.
  Qed.

  Lemma sim_ResolveManifest st sp r d :
    Rel st sp -> Inv st ->
    step_ok (slog sp) (ResolveManifest r d) (step st (ResolveManifest r d)) (sstep sp (ResolveManifest r d)).
  Proof.
    intros HR HI. unfold step_ok. cbn [Mem.step MemSpec.sstep fst snd]. split; [exact HR|].
    pose proof (manifest_for_sim st sp r d HR HI) as H.
    destruct (manifest_for st r d) as [b|e| |]; cbn [rbind]; try contradiction.
    - destruct H as (-> & Hh & _). cbn [bmd]. rewrite (blob_desc_sdesc b d Hh).
      apply desc_ok. discriminate.
    - destruct H as (-> & H). apply man_unknown_cases in H.
      eapply finish_unknown; [reflexivity | discriminate | apply man_codes |].
      eapply unknown_ok; eauto.
  Qed.

  (* Registry.repo + tag lookup *)
  Lemma tag_sim st sp r t :
    Rel st sp ->
    match get_repo st r with
    | None => stag (slog sp) r t = None
    | Some rp => alookup t (tags rp) = stag (slog sp) r t
    end.
  Proof.
    intros HR. pose proof (rel_tag _ _ HR r t) as H. unfold itag in H.
    destruct (get_repo st r); auto.
  Qed.

  Lemma sim_ResolveTag st sp r t :
    Rel st sp -> Inv st -> step_ok (slog sp) (ResolveTag r t) (step st (ResolveTag r t)) (sstep sp (ResolveTag r t)).
  Proof.
    intros HR HI. unfold step_ok. cbn [Mem.step MemSpec.sstep fst snd]. split; [exact HR|].
    pose proof (tag_sim st sp r t HR) as H.
    destruct (get_repo st r) as [rp|] eqn:ER.
    - rewrite H. destruct (stag (slog sp) r t) as [de|].
      + apply desc_ok. discriminate.
      + eapply finish_unknown; [reflexivity | discriminate | apply man_codes |].
        eapply unknown_ok; [exact HR|]. right. split; [reflexivity | congruence].
    - rewrite H. eapply finish_unknown; [reflexivity | discriminate | apply man_codes |].
      eapply unknown_ok; [exact HR|]. left. auto.
  Qed.

  Lemma sim_GetTag st sp r t :
    Rel st sp -> Inv st -> step_ok (slog sp) (GetTag r t) (step st (GetTag r t)) (sstep sp (GetTag r t)).
  Proof.
    intros HR HI. unfold step_ok. cbn [Mem.step MemSpec.sstep fst snd]. split; [exact HR|].
    pose proof (tag_sim st sp r t HR) as H.
    destruct (get_repo st r) as [rp|] eqn:ER.
    - rewrite H. destruct (stag (slog sp) r t) as [de|].
      + pose proof (manifest_for_sim st sp r (d_digest de) HR HI) as Hm.
        destruct (manifest_for st r (d_digest de)) as [b|e| |]; cbn [rbind]; try contradiction.
        * destruct Hm as (-> & Hh & _). cbn [bmd]. rewrite (blob_desc_sdesc b _ Hh).
          apply read_ok. discriminate.
        * destruct Hm as (-> & [[_ Hn]|[-> _]]); [congruence|].
          apply res_ok_match; [discriminate | reflexivity].
      + eapply finish_unknown; [reflexivity | discriminate | apply man_codes |].
        eapply unknown_ok; [exact HR|]. right. split; [reflexivity | congruence].
    - rewrite H. eapply finish_unknown; [reflexivity | discriminate | apply man_codes |].
      eapply unknown_ok; [exact HR|]. left. auto.
  Qed.

  (* ---- PushBlob ---- *)
  Lemma sim_PushBlob st sp r de content :
    Rel st sp -> Inv st ->
    step_ok (slog sp) (PushBlob r de content) (step st (PushBlob r de content)) (sstep sp (PushBlob r de content)).
  Proof.
    intros HR HI. unfold step_ok. cbn [Mem.step MemSpec.sstep]. unfold check_descriptor.
    destruct (valid_digest (d_digest de)); cbn [negb orb];
      [|split; [exact HR | apply res_ok_match; [discriminate | reflexivity]]].
    destruct (beqb (hash content) (d_digest de)); cbn [negb];
      [|split; [exact HR | apply res_ok_match; [discriminate | reflexivity]]].
    destruct (d_size de =? blen content)%Z; cbn [negb];
      [|split; [exact HR | apply res_ok_match; [discriminate | reflexivity]]].
    destruct (d_media de) as [|c m] eqn:EM;
      [split; [exact HR | apply res_ok_match; [discriminate | reflexivity]]|].
    cbn [beqb]. destruct (make_repo st r) as [st1|] eqn:EMR.
    - pose proof (make_repo_some _ _ _ _ EMR) as (-> & Hne & _). cbn [negb fst snd].
      split; [|apply desc_ok; discriminate].
      apply (rel_set_blob st1 sp r (d_digest de) {| b_media := c :: m; b_data := content; b_subject := [] |});
        [eapply rel_make_repo; eauto | exact Hne].
    - apply make_repo_none in EMR. rewrite EMR. cbn [negb fst snd].
      split; [exact HR | apply res_ok_match; [discriminate | reflexivity]].
  Qed.

  (* ---- upload sessions ---- *)
  Lemma rel_new_upload st sp r rp id off nx :
    Rel st sp -> get_repo st r = Some rp ->
    Rel {| repos := aset r (rp_set_upload id (N.of_nat (length (bufs st))) rp) (repos st);
           bufs := bufs st ++ [new_buffer r id off]; next_id := nx |}
        {| slog := slog sp; sbufs := sbufs sp ++ [new_buffer r id off];
           sups := (r, id, N.of_nat (length (sbufs sp))) :: sups sp; snext := nx |}.
  Proof.
    intros [A B C D E F] ER.
    set (st' := {| repos := _; bufs := _; next_id := _ |}).
    assert (Hg : forall r', get_repo st' r' =
                   if beqb r' r then Some (rp_set_upload id (N.of_nat (length (bufs st))) rp) else get_repo st r').
    { intros r'. unfold get_repo, st'; cbn. apply alookup_aset. }
    constructor; cbn [slog sbufs sups snext]; intros.
    - rewrite <- A. unfold iblob. rewrite Hg. destruct (beqb r0 r) eqn:B1; [|reflexivity].
      apply beqb_eq in B1. subst. now rewrite ER.
    - rewrite <- B. unfold iman. rewrite Hg. destruct (beqb r0 r) eqn:B1; [|reflexivity].
      apply beqb_eq in B1. subst. now rewrite ER.
    - rewrite <- C. unfold itag. rewrite Hg. destruct (beqb r0 r) eqn:B1; [|reflexivity].
      apply beqb_eq in B1. subst. now rewrite ER.
    - unfold st'; cbn. now rewrite D.
    - reflexivity.
    - cbn [sup]. rewrite <- F, <- D. unfold iup. rewrite Hg. destruct (beqb r0 r) eqn:B1; cbn [andb]; [|reflexivity].
      apply beqb_eq in B1. subst. cbn [uploads rp_set_upload]. rewrite alookup_aset, ER.
      destruct (beqb id0 id); reflexivity.
  Qed.

  Lemma sim_chunked st sp r id off o :
    Rel st sp -> Inv st -> (forall s, o <> Repositories s) ->
    step_ok (slog sp) o
      (match make_repo st r with
        | None => (st, Err e_name_invalid)
        | Some st1 =>
            match get_repo st1 r with
            | None => (st1, Err e_name_invalid)
            | Some rp =>
                match alookup id (uploads rp) with
                | Some i =>
                    (with_buf st1 (N.to_nat i) (fun b =>
                       {| u_repo := u_repo b; u_id := u_id b; u_buf := u_buf b; u_check := off;
                          u_committed := u_committed b; u_desc := u_desc b; u_err := u_err b |}),
                     Ok (RWriter i))
                | None =>
                    let id' := match id with [] => fresh_id (next_id st1) | _ => id end in
                    let i := N.of_nat (length (bufs st1)) in
                    ({| repos := aset r (rp_set_upload id' i rp) (repos st1);
                        bufs := bufs st1 ++ [new_buffer r id' off];
                        next_id := match id with [] => N.succ (next_id st1) | _ => next_id st1 end |},
                     Ok (RWriter i))
                end
            end
        end : state * result)
      (if negb (valid_repo r) then (sp, Err e_name_invalid)
        else
          match sup (sups sp) r id with
          | Some i =>
              (with_sbuf sp (N.to_nat i) (fun b =>
                 {| u_repo := u_repo b; u_id := u_id b; u_buf := u_buf b; u_check := off;
                    u_committed := u_committed b; u_desc := u_desc b; u_err := u_err b |}),
               Ok (RWriter i))
          | None =>
              let id' := match id with [] => fresh_id (snext sp) | _ => id end in
              let i := N.of_nat (length (sbufs sp)) in
              ({| slog := slog sp; sbufs := sbufs sp ++ [new_buffer r id' off];
                  sups := (r, id', i) :: sups sp;
                  snext := match id with [] => N.succ (snext sp) | _ => snext sp end |},
               Ok (RWriter i))
          end : sstate * result).
  Proof.
    intros HR HI Hn. unfold step_ok. destruct (make_repo st r) as [st1|] eqn:EMR.
    - pose proof (make_repo_some _ _ _ _ EMR) as (-> & Hne & Hb & Hnx & _). cbn [negb].
      pose proof (rel_make_repo _ _ _ _ _ HR EMR) as HR1.
      destruct (get_repo st1 r) as [rp|] eqn:ER; [|congruence].
      pose proof (rel_up _ _ HR1 r id) as HU. unfold iup in HU. rewrite ER in HU. rewrite <- HU.
      destruct (alookup id (uploads rp)) as [i|]; cbn [fst snd].
      + split; [now apply rel_with_buf | apply res_ok_match; [exact Hn | apply result_match_refl; discriminate]].
      + rewrite <- (rel_next _ _ HR1), <- (rel_bufs _ _ HR1). split.
        * rewrite (rel_bufs _ _ HR1) at 3. rewrite (rel_bufs _ _ HR1) at 3.
          apply rel_new_upload; auto.
        * apply res_ok_match; [exact Hn | apply result_match_refl; discriminate].
    - apply make_repo_none in EMR. rewrite EMR. cbn [negb fst snd].
      split; [exact HR | apply res_ok_match; [exact Hn | reflexivity]].
  Qed.

  Lemma sim_PushBlobChunked st sp r hint :
    Rel st sp -> Inv st ->
    step_ok (slog sp) (PushBlobChunked r hint) (step st (PushBlobChunked r hint)) (sstep sp (PushBlobChunked r hint)).
  Proof. intros HR HI. apply (sim_chunked st sp r [] 0%Z); auto. discriminate. Qed.

  Lemma sim_PushBlobChunkedResume st sp r id off hint :
    Rel st sp -> Inv st ->
    step_ok (slog sp) (PushBlobChunkedResume r id off hint)
      (step st (PushBlobChunkedResume r id off hint)) (sstep sp (PushBlobChunkedResume r id off hint)).
  Proof. intros HR HI. apply (sim_chunked st sp r id off); auto. discriminate. Qed.

  (* ---- MountBlob ---- *)
  Lemma sim_MountBlob st sp from to d :
    Rel st sp -> Inv st ->
    step_ok (slog sp) (MountBlob from to d) (step st (MountBlob from to d)) (sstep sp (MountBlob from to d)).
  Proof.
    intros HR HI. unfold step_ok. cbn [Mem.step MemSpec.sstep].
    destruct (make_repo st to) as [st1|] eqn:EMR.
    - pose proof (make_repo_some _ _ _ _ EMR) as (-> & Hne & _). cbn [negb].
      pose proof (rel_make_repo _ _ _ _ _ HR EMR) as HR1.
      pose proof (inv_make_repo _ _ _ _ _ _ _ HI EMR) as HI1.
      pose proof (blob_for_sim st1 sp from d HR1 HI1) as H.
      destruct (blob_for st1 from d) as [b|e| |]; try contradiction.
      + destruct H as (-> & Hh & _). cbn [bmd fst snd]. split.
        * apply (rel_set_blob st1 sp to d b HR1 Hne).
        * rewrite (blob_desc_sdesc b d Hh). apply desc_ok. discriminate.
      + destruct H as (-> & H). cbn [fst snd]. split; [exact HR1|]. apply blob_unknown_cases in H.
        eapply finish_unknown; [reflexivity | discriminate | apply blob_codes |].
        eapply unknown_ok; eauto.
    - apply make_repo_none in EMR. rewrite EMR. cbn [negb fst snd].
      split; [exact HR | apply res_ok_match; [discriminate | reflexivity]].
  Qed.

  (* ---- PushManifest ---- *)
  Local Notation check_descriptor := (check_descriptor hash valid_digest).
  Local Notation check_refs := (check_refs hash valid_digest).
  Local Notation check_manifest := (check_manifest hash valid_digest decode_image decode_index).
  Local Notation ref_wf := (ref_wf valid_digest).
  Local Notation acceptable := (acceptable valid_digest decode_image decode_index).

  Lemma check_descriptor_wf de : is_some (check_descriptor de None) = negb (ref_wf de).
  Proof.
    unfold Mem.check_descriptor, MemSpec.ref_wf.
    destruct (valid_digest (d_digest de)); cbn [negb andb is_some]; [|reflexivity].
    destruct ((d_size de =? 0)%Z && negb (beqb (d_digest de) EMPTY_HASH)); cbn [negb andb is_some]; [reflexivity|].
    destruct (d_media de); reflexivity.
  Qed.

  Definition ref_ok (rp : repo) (kd : refkind * desc) : bool :=
    ref_wf (snd kd) &&
    match fst kd with
    | KBlob => is_some (alookup (d_digest (snd kd)) (blobs rp))
    | KManifest => is_some (alookup (d_digest (snd kd)) (manifests rp))
    | KSubject => true
    end.

  Lemma check_refs_okb rp refs acc : is_some (check_refs rp refs acc) = forallb (ref_ok rp) refs.
  Proof.
    revert acc; induction refs as [|[k de] rest IH]; intros acc; cbn [Mem.check_refs forallb]; [reflexivity|].
    unfold ref_ok at 1. cbn [fst snd]. pose proof (check_descriptor_wf de) as Hw.
    destruct (check_descriptor de None); cbn in Hw.
    - apply (f_equal negb) in Hw. rewrite negb_involutive in Hw. cbn in Hw. rewrite <- Hw. reflexivity.
    - apply (f_equal negb) in Hw. rewrite negb_involutive in Hw. cbn in Hw. rewrite <- Hw. cbn [andb].
      destruct k.
      + apply IH.
      + destruct (alookup (d_digest de) (blobs rp)); cbn [is_some andb]; [apply IH | reflexivity].
      + destruct (alookup (d_digest de) (manifests rp)); cbn [is_some andb]; [apply IH | reflexivity].
  Qed.

  Lemma forallb_blob_refs rp l r L :
    (forall d, is_some (alookup d (blobs rp)) = is_some (sblob l r d)) ->
    forallb (ref_ok rp) (map (pair KBlob) L) =
    forallb (fun de => ref_wf de && is_some (sblob l r (d_digest de))) L.
  Proof.
    intros Hb. induction L as [|de L IH]; cbn [map forallb]; [reflexivity|].
    rewrite IH. unfold ref_ok. cbn [fst snd]. now rewrite Hb.
  Qed.
  Lemma forallb_man_refs rp l r L :
    (forall d, is_some (alookup d (manifests rp)) = is_some (sman l r d)) ->
    forallb (ref_ok rp) (map (pair KManifest) L) =
    forallb (fun de => ref_wf de && is_some (sman l r (d_digest de))) L.
  Proof.
    intros Hb. induction L as [|de L IH]; cbn [map forallb]; [reflexivity|].
    rewrite IH. unfold ref_ok. cbn [fst snd]. now rewrite Hb.
  Qed.

  (* checkManifest accepts exactly what the reference registry calls acceptable *)
  Lemma check_manifest_acceptable rp l r media data :
    (forall d, is_some (alookup d (blobs rp)) = is_some (sblob l r d)) ->
    (forall d, is_some (alookup d (manifests rp)) = is_some (sman l r d)) ->
    is_some (check_manifest rp media data) = acceptable l r media data.
  Proof.
    intros Hb Hm. unfold Mem.check_manifest, Mem.manifest_refs, MemSpec.acceptable.
    destruct (beqb media MT_IMAGE).
    - destruct (decode_image data) as [m|]; cbn [option_map]; [|reflexivity].
      rewrite check_refs_okb. unfold image_refs.
      replace (map (pair KBlob) (im_layers m) ++ [(KBlob, im_config m)] ++
               match im_subject m with Some sd => [(KSubject, sd)] | None => [] end)
        with (map (pair KBlob) (im_layers m ++ [im_config m]) ++
              match im_subject m with Some sd => [(KSubject, sd)] | None => [] end)
        by (rewrite map_app, <- app_assoc; reflexivity).
      rewrite forallb_app, (forallb_blob_refs rp l r _ Hb). f_equal.
      destruct (im_subject m); cbn; [|reflexivity]. unfold ref_ok. cbn. now rewrite !andb_true_r.
    - destruct (beqb media MT_INDEX); [|reflexivity].
      destruct (decode_index data) as [m|]; cbn [option_map]; [|reflexivity].
      rewrite check_refs_okb. unfold index_refs.
      rewrite forallb_app, (forallb_man_refs rp l r _ Hm). f_equal.
      destruct (ix_subject m); cbn; [|reflexivity]. unfold ref_ok. cbn. now rewrite !andb_true_r.
  Qed.

  (* states with the same repository table, buffers and counter are related to the same
     reference states *)
  Lemma rel_ext st st' sp :
    (forall r, get_repo st r = get_repo st' r) -> bufs st = bufs st' -> next_id st = next_id st' ->
    Rel st sp -> Rel st' sp.
  Proof.
    intros Hg Hb Hn [A B C D E F]. constructor; intros.
    - rewrite <- A. unfold iblob. now rewrite Hg.
    - rewrite <- B. unfold iman. now rewrite Hg.
    - rewrite <- C. unfold itag. now rewrite Hg.
    - congruence.
    - congruence.
    - rewrite <- F. unfold iup. now rewrite Hg.
  Qed.

  Lemma upd_repo_compose_rel st sp r f g :
    Rel (upd_repo (upd_repo st r f) r g) sp -> Rel (upd_repo st r (fun rp => g (f rp))) sp.
  Proof.
    apply rel_ext.
    - intros r'. rewrite !get_repo_upd_repo. destruct (beqb r' r) eqn:B; [|reflexivity].
      rewrite beqb_refl. destruct (get_repo st r); reflexivity.
    - now rewrite !bufs_upd_repo.
    - now rewrite !next_upd_repo.
  Qed.

  Definition mem_store (st1 : state) (r : bytes) (rp : repo) (t data media : bytes) : state * result :=
    let dig := hash data in
    let de := {| d_media := media; d_digest := dig; d_size := blen data; d_artifact := [] |} in
    if immutable_tags cfg
       && match alookup dig (manifests rp) with
          | Some cur => negb (beqb (b_media cur) media)
          | None => false
          end
    then (st1, Err (E DENIED (s "mismatched media type")))
    else
    match check_descriptor de (Some data) with
    | Some e => (st1, Err (e_plain (s "invalid descriptor")))
    | None =>
        match check_manifest rp media data with
        | None => (st1, Err (e_plain (s "invalid manifest")))
        | Some subject =>
            (upd_repo st1 r (fun rp =>
               let rp1 := rp_set_manifest dig {| b_media := media; b_data := data; b_subject := subject |} rp in
               match t with [] => rp1 | _ => rp_set_tag t de rp1 end),
             Ok (RDesc de))
        end
    end.

  Definition spec_store (sp : sstate) (r t data media : bytes) : sstate * result :=
    let l := slog sp in
    let dig := hash data in
    let de := sdesc media dig data in
    if immutable_tags cfg
       && match sman l r dig with Some (m, _) => negb (beqb m media) | None => false end
    then (sp, Err (E DENIED (s "stored under another media type")))
    else
    if beqb media [] || negb (valid_digest dig) then (sp, Err (e_plain (s "rejected")))
    else if negb (acceptable l r media data) then (sp, Err (e_plain (s "rejected")))
    else
      let st1 := with_log sp (EvMan r dig (Some (media, data))) in
      (match t with [] => st1 | _ => with_log st1 (EvTag r t (Some de)) end, Ok (RDesc de)).

  Lemma sim_store st1 sp r rp t data media o :
    Rel st1 sp -> get_repo st1 r = Some rp -> (forall s, o <> Repositories s) ->
    step_ok (slog sp) o (mem_store st1 r rp t data media) (spec_store sp r t data media).
  Proof.
    intros HR ER Hn. unfold step_ok, mem_store, spec_store. cbn zeta.
    assert (Hb : forall d, alookup d (blobs rp) = iblob st1 r d) by (intros; unfold iblob; now rewrite ER).
    assert (Hm : forall d, alookup d (manifests rp) = iman st1 r d) by (intros; unfold iman; now rewrite ER).
    rewrite <- (rel_man _ _ HR), <- Hm.
    assert (Hbad : forall what what' : bytes,
               Rel st1 sp /\ res_ok (slog sp) o (Err (e_plain what)) (Err (e_plain what')) = true).
    { intros. split; [exact HR | apply res_ok_match; [exact Hn | reflexivity]]. }
    destruct (immutable_tags cfg && _) eqn:EI.
    - assert (immutable_tags cfg &&
              match option_map bmd (alookup (hash data) (manifests rp)) with
              | Some (m, _) => negb (beqb m media) | None => false end = true) as ->.
      { destruct (alookup (hash data) (manifests rp)); exact EI. }
      cbn [fst snd]. split; [exact HR | apply res_ok_match; [exact Hn | reflexivity]].
    - assert (immutable_tags cfg &&
              match option_map bmd (alookup (hash data) (manifests rp)) with
              | Some (m, _) => negb (beqb m media) | None => false end = false) as ->.
      { destruct (alookup (hash data) (manifests rp)); exact EI. }
      unfold Mem.check_descriptor. cbn [d_digest d_size d_media].
      rewrite beqb_refl, Z.eqb_refl. cbn [negb].
      destruct (valid_digest (hash data)); cbn [negb orb].
      2:{ rewrite orb_true_r. cbn [fst snd]. apply Hbad. }
      rewrite orb_false_r. destruct media as [|c m]; [cbn [beqb fst snd]; apply Hbad|]. cbn [beqb].
      pose proof (check_manifest_acceptable rp (slog sp) r (c :: m) data) as HA.
      rewrite <- HA.
      2:{ intros d. rewrite Hb, <- (rel_blob _ _ HR). now destruct (iblob st1 r d). }
      2:{ intros d. rewrite Hm, <- (rel_man _ _ HR). now destruct (iman st1 r d). }
      destruct (check_manifest rp (c :: m) data) as [subj|]; cbn [is_some negb fst snd]; [|apply Hbad].
      split; [|apply desc_ok; exact Hn].
      assert (Hne : get_repo st1 r <> None) by congruence.
      pose proof (rel_set_manifest st1 sp r (hash data)
                    {| b_media := c :: m; b_data := data; b_subject := subj |} HR Hne) as HR2.
      destruct t as [|c' t'].
      + exact HR2.
      + apply upd_repo_compose_rel. apply rel_set_tag; [exact HR2|].
        rewrite get_repo_upd_repo, beqb_refl, ER. discriminate.
  Qed.

  Lemma sim_PushManifest st sp r t data media :
    Rel st sp -> Inv st ->
    step_ok (slog sp) (PushManifest r t data media)
      (step st (PushManifest r t data media)) (sstep sp (PushManifest r t data media)).
  Proof.
    intros HR HI. set (o := PushManifest r t data media).
    assert (Hn : forall s, o <> Repositories s) by discriminate.
    assert (Hm : step st o =
      match make_repo st r with
      | None => (st, Err e_name_invalid)
      | Some st1 =>
          match get_repo st1 r with
          | None => (st1, Err e_name_invalid)
          | Some rp =>
              match t with
              | [] => mem_store st1 r rp t data media
              | _ =>
                  if negb (valid_tag t) then (st1, Err (e_plain (s "invalid tag")))
                  else if immutable_tags cfg then
                    match alookup t (tags rp) with
                    | Some cur =>
                        if beqb (hash data) (d_digest cur) then
                          if beqb (d_media cur) media then (st1, Ok (RDesc cur))
                          else (st1, Err (E DENIED (s "mismatched media type")))
                        else (st1, Err (E DENIED (s "cannot overwrite tag")))
                    | None => mem_store st1 r rp t data media
                    end
                  else mem_store st1 r rp t data media
              end
          end
      end) by reflexivity.
    assert (Hs : sstep sp o =
      if negb (valid_repo r) then (sp, Err e_name_invalid)
      else match t with
           | [] => spec_store sp r t data media
           | _ =>
               if negb (valid_tag t) then (sp, Err (e_plain (s "rejected")))
               else if immutable_tags cfg then
                 match stag (slog sp) r t with
                 | Some cur =>
                     if beqb (hash data) (d_digest cur) && beqb (d_media cur) media then (sp, Ok (RDesc cur))
                     else (sp, Err (E DENIED (s "tag is immutable")))
                 | None => spec_store sp r t data media
                 end
               else spec_store sp r t data media
           end) by reflexivity.
    rewrite Hm, Hs. clear Hm Hs.
    destruct (make_repo st r) as [st1|] eqn:EMR.
    - pose proof (make_repo_some _ _ _ _ EMR) as (-> & Hne & _). cbn [negb].
      pose proof (rel_make_repo _ _ _ _ _ HR EMR) as HR1.
      destruct (get_repo st1 r) as [rp|] eqn:ER; [|congruence].
      assert (Hstore : step_ok (slog sp) o (mem_store st1 r rp t data media) (spec_store sp r t data media))
        by (apply sim_store; auto).
      destruct t as [|c t']; [exact Hstore|].
      destruct (valid_tag (c :: t')); cbn [negb];
        [|split; [exact HR1 | apply res_ok_match; [exact Hn | reflexivity]]].
      destruct (immutable_tags cfg); [|exact Hstore].
      pose proof (tag_sim st1 sp r (c :: t') HR1) as HT. rewrite ER in HT. rewrite <- HT.
      destruct (alookup (c :: t') (tags rp)) as [cur|]; [|exact Hstore].
      destruct (beqb (hash data) (d_digest cur)); cbn [andb];
        [|split; [exact HR1 | apply res_ok_match; [exact Hn | reflexivity]]].
      destruct (beqb (d_media cur) media).
      + split; [exact HR1 | apply desc_ok; exact Hn].
      + split; [exact HR1 | apply res_ok_match; [exact Hn | reflexivity]].
    - apply make_repo_none in EMR. rewrite EMR. cbn [negb].
      split; [exact HR | apply res_ok_match; [exact Hn | reflexivity]].
  Qed.

  (* ---- deletes ---- *)
  Local Notation tagged_refers_to := (tagged_refers_to decode_image decode_index).
  Local Notation tagged_reaches := (tagged_reaches decode_image decode_index).

  (* the two searches on related states *)
  Lemma tagged_sim st sp r rp d :
    Rel st sp -> Inv st -> get_repo st r = Some rp ->
    match tagged_refers_to rp d, tagged_reaches (slog sp) r d with
    | Ok b1, Some b2 => b1 = b2
    | (Err _ | Panic), _ => False
    | _, _ => True
    end.
  Proof.
    intros HR HI ER. pose proof (inv_repo _ _ _ _ HI _ _ ER) as Hok.
    pose proof (refers_to_shape decode_image decode_index rp) as Hsh.
    unfold Mem.tagged_refers_to in *.
    specialize (Hsh (fun x b Hx => proj1 (proj2 (ok_man _ _ _ _ _ _ Hok x b Hx)))
                    (S (length (manifests rp))) (tag_refs rp) d).
    destruct (refers_to decode_image decode_index (S (length (manifests rp))) rp (tag_refs rp) d) as [b1| | |] eqn:E1;
      try contradiction; [|exact I].
    destruct (tagged_reaches (slog sp) r d) as [b2|] eqn:E2; [|exact I].
    eapply (definite_agree decode_image decode_index rp (slog sp) r d b1 b2); eauto.
    - apply Hok.
    - intros x. rewrite <- (rel_man _ _ HR). unfold iman. now rewrite ER.
    - intros t. rewrite <- (rel_tag _ _ HR). unfold itag. now rewrite ER.
  Qed.

  Lemma sim_DeleteBlob st sp r d :
    Rel st sp -> Inv st ->
    definite (snd (step st (DeleteBlob r d))) -> definite (snd (sstep sp (DeleteBlob r d))) ->
    step_ok (slog sp) (DeleteBlob r d) (step st (DeleteBlob r d)) (sstep sp (DeleteBlob r d)).
  Proof.
    intros HR HI. unfold step_ok, definite. cbn [Mem.step MemSpec.sstep].
    pose proof (blob_for_sim st sp r d HR HI) as H.
    destruct (blob_for st r d) as [b|e| |]; try contradiction.
    - destruct H as (-> & _ & Hi). unfold iblob in Hi.
      destruct (get_repo st r) as [rp|] eqn:ER; [|discriminate].
      assert (Hdel : Rel (upd_repo st r (rp_del_blob d)) (with_log sp (EvBlob r d None)) /\
                     res_ok (slog sp) (DeleteBlob r d) (Ok RUnit) (Ok RUnit) = true).
      { split; [now apply rel_del_blob | apply res_ok_match; [discriminate | reflexivity]]. }
      destruct (immutable_tags cfg); [|intros _ _; exact Hdel].
      pose proof (tagged_sim st sp r rp d HR HI ER) as HT.
      destruct (tagged_refers_to rp d) as [[|]| | |]; destruct (tagged_reaches (slog sp) r d) as [[|]|];
        cbn [fst snd]; intros D1 D2; try contradiction; try discriminate; try (now elim D1); try (now elim D2).
      + split; [exact HR | apply res_ok_match; [discriminate | reflexivity]].
      + exact Hdel.
    - destruct H as (-> & H). cbn [fst snd]. intros _ _. split; [exact HR|]. apply blob_unknown_cases in H.
      eapply finish_unknown; [reflexivity | discriminate | apply blob_codes |].
      eapply unknown_ok; eauto.
  Qed.

  Lemma sim_DeleteManifest st sp r d :
    Rel st sp -> Inv st ->
    definite (snd (step st (DeleteManifest r d))) -> definite (snd (sstep sp (DeleteManifest r d))) ->
    step_ok (slog sp) (DeleteManifest r d) (step st (DeleteManifest r d)) (sstep sp (DeleteManifest r d)).
  Proof.
    intros HR HI. unfold step_ok, definite. cbn [Mem.step MemSpec.sstep].
    pose proof (manifest_for_sim st sp r d HR HI) as H.
    destruct (manifest_for st r d) as [b|e| |]; try contradiction.
    - destruct H as (-> & _ & Hi). unfold iman in Hi.
      destruct (get_repo st r) as [rp|] eqn:ER; [|discriminate].
      assert (Hdel : Rel (upd_repo st r (rp_del_manifest d)) (with_log sp (EvMan r d None)) /\
                     res_ok (slog sp) (DeleteManifest r d) (Ok RUnit) (Ok RUnit) = true).
      { split; [now apply rel_del_manifest | apply res_ok_match; [discriminate | reflexivity]]. }
      destruct (immutable_tags cfg); [|intros _ _; exact Hdel].
      pose proof (tagged_sim st sp r rp d HR HI ER) as HT.
      destruct (tagged_refers_to rp d) as [[|]| | |]; destruct (tagged_reaches (slog sp) r d) as [[|]|];
        cbn [fst snd]; intros D1 D2; try contradiction; try discriminate; try (now elim D1); try (now elim D2).
      + split; [exact HR | apply res_ok_match; [discriminate | reflexivity]].
      + exact Hdel.
    - destruct H as (-> & H). cbn [fst snd]. intros _ _. split; [exact HR|]. apply man_unknown_cases in H.
      eapply finish_unknown; [reflexivity | discriminate | apply man_codes |].
      eapply unknown_ok; eauto.
  Qed.

  Lemma sim_DeleteTag st sp r t :
    Rel st sp -> Inv st -> step_ok (slog sp) (DeleteTag r t) (step st (DeleteTag r t)) (sstep sp (DeleteTag r t)).
  Proof.
    intros HR HI. unfold step_ok. cbn [Mem.step MemSpec.sstep].
    pose proof (tag_sim st sp r t HR) as H.
    destruct (get_repo st r) as [rp|] eqn:ER.
    - rewrite <- H. destruct (alookup t (tags rp)) as [de|].
      + destruct (immutable_tags cfg); cbn [fst snd].
        * split; [exact HR | apply res_ok_match; [discriminate | reflexivity]].
        * split; [now apply rel_del_tag | apply res_ok_match; [discriminate | reflexivity]].
      + cbn [fst snd]. split; [exact HR|].
        eapply finish_unknown; [reflexivity | discriminate | apply man_codes |].
        eapply unknown_ok; [exact HR|]. right. split; [reflexivity | congruence].
    - rewrite H. cbn [fst snd]. split; [exact HR|].
      eapply finish_unknown; [reflexivity | discriminate | apply man_codes |].
      eapply unknown_ok; [exact HR|]. left. auto.
  Qed.

  (* ---- listings ---- *)
  Lemma alookup_NoDup_In {V} (m : alist V) k v : NoDup (akeys m) -> In (k, v) m -> alookup k m = Some v.
  Proof.
    induction m as [|[k0 v0] m IH]; [intros _ []|]. cbn. intros Hnd Hi. inversion Hnd; subst.
    destruct Hi as [E|Hi].
    - injection E as -> ->. now rewrite beqb_refl.
    - destruct (beqb k k0) eqn:B; [|auto]. apply beqb_eq in B. subst.
      exfalso. apply H1. apply (in_map fst) in Hi. exact Hi.
  Qed.

  Lemma NoDup_akeys_filter {V} (p : bytes * V -> bool) (m : alist V) :
    NoDup (akeys m) -> NoDup (akeys (filter p m)).
  Proof.
    unfold akeys. induction m as [|kv m IH]; cbn; [auto|]. intros H. inversion H; subst.
    destruct (p kv); cbn; [|auto]. constructor; [|auto].
    intros Hi. apply H2. apply in_map_iff in Hi as [kv' [E Hi]]. apply filter_In in Hi as [Hi _].
    rewrite <- E. now apply in_map.
  Qed.

  Lemma alist_all_none {V} (m : alist V) : (forall k, alookup k m = None) -> m = [].
  Proof.
    destruct m as [|[k v] m]; [reflexivity|]. intros H. specialize (H k). cbn in H.
    now rewrite beqb_refl in H.
  Qed.

  Lemma sim_Repositories st sp start :
    Rel st sp -> Inv st ->
    step_ok (slog sp) (Repositories start) (step st (Repositories start)) (sstep sp (Repositories start)).
  Proof.
    intros HR HI. unfold step_ok. cbn [Mem.step MemSpec.sstep fst snd res_ok]. split; [exact HR|].
    apply andb_true_iff. split.
    - apply ssortedb_spec. apply list_after_ssorted. apply HI.
    - apply (list_eqb_eq beqb beqb_eq). apply ssorted_unique.
      + apply ssorted_filter. apply list_after_ssorted. apply HI.
      + apply list_after_ssorted. apply repo_keys_NoDup.
      + intros a. rewrite filter_In, !list_after_In, repo_keys_In. split.
        * intros [[_ Hlt] Hc]. auto.
        * intros [Hc Hlt]. repeat split; auto.
          pose proof (has_content_repo _ _ _ HR Hc) as Hne. unfold get_repo in Hne.
          destruct (alookup a (repos st)) eqn:E; [|congruence]. eapply alookup_Some_in; eauto.
  Qed.

  Lemma sim_Tags st sp r start :
    Rel st sp -> Inv st -> step_ok (slog sp) (Tags r start) (step st (Tags r start)) (sstep sp (Tags r start)).
  Proof.
    intros HR HI. unfold step_ok. cbn [Mem.step MemSpec.sstep fst snd]. split; [exact HR|].
    destruct (get_repo st r) as [rp|] eqn:ER.
    - assert (HT : forall t, alookup t (tags rp) = stag (slog sp) r t).
      { intros t. rewrite <- (rel_tag _ _ HR). unfold itag. now rewrite ER. }
      destruct (has_content (slog sp) r) eqn:EC.
      + apply res_ok_match; [discriminate|].
        replace (list_after start (akeys (tags rp))) with (list_after start (tag_keys (slog sp) r));
          [apply result_match_refl; discriminate|].
        apply ssorted_unique.
        * apply list_after_ssorted. apply tag_keys_NoDup.
        * apply list_after_ssorted. apply (inv_repo _ _ _ _ HI _ _ ER).
        * intros a. rewrite !list_after_In, tag_keys_In, <- HT. split; intros [H1 H2]; split; auto.
          -- destruct (alookup a (tags rp)) eqn:E; [|congruence]. eapply alookup_Some_in; eauto.
          -- apply In_akeys_lookup in H1 as [v ->]. discriminate.
      + pose proof (has_content_false _ _ EC) as (_ & _ & ET).
        assert (tags rp = []) as -> by (apply alist_all_none; intros k; now rewrite HT).
        unfold res_ok. apply orb_true_iff. right. unfold slack. cbn [op_repo]. now rewrite EC.
    - rewrite (rel_repo_none _ _ _ HR ER). apply res_ok_match; [discriminate | reflexivity].
  Qed.

  (* sorting descriptors by digest is sorting their digests *)
  Lemma dinsert_map (F : bytes -> desc) a L :
    (forall k, In k (a :: L) -> d_digest (F k) = k) ->
    dinsert (F a) (map F L) = map F (binsert a L).
  Proof.
    intros HF. induction L as [|b L IH]; cbn [map dinsert binsert]; [reflexivity|].
    rewrite (HF a), (HF b) by (cbn; auto). destruct (bleb a b); [reflexivity|].
    cbn [map]. f_equal. apply IH. intros k [<-|Hk]; apply HF; cbn; auto.
  Qed.

  Lemma dsort_map (F : bytes -> desc) K :
    (forall k, In k K -> d_digest (F k) = k) -> dsort (map F K) = map F (bsort K).
  Proof.
    induction K as [|a K IH]; intros HF; cbn [map dsort bsort]; [reflexivity|].
    rewrite IH by (intros; apply HF; now right).
    apply dinsert_map. intros k [<-|Hk]; apply HF; [now left | right; now apply bsort_In].
  Qed.

  Local Notation subject_of := (subject_of decode_image decode_index).

  Lemma sim_Referrers st sp r d art :
    Rel st sp -> Inv st ->
    step_ok (slog sp) (Referrers r d art) (step st (Referrers r d art)) (sstep sp (Referrers r d art)).
  Proof.
    intros HR HI. unfold step_ok. cbn [Mem.step MemSpec.sstep fst snd]. split; [exact HR|].
    destruct (get_repo st r) as [rp|] eqn:ER.
    2:{ rewrite (rel_repo_none _ _ _ HR ER). apply res_ok_match; [discriminate | reflexivity]. }
    pose proof (inv_repo _ _ _ _ HI _ _ ER) as Hok.
    assert (HM : forall k, sman (slog sp) r k = option_map bmd (alookup k (manifests rp))).
    { intros k. rewrite <- (rel_man _ _ HR). unfold iman. now rewrite ER. }
    destruct (has_content (slog sp) r) eqn:EC.
    2:{ pose proof (has_content_false _ _ EC) as (_ & EMn & _).
        assert (manifests rp = []) as ->.
        { apply alist_all_none. intros k. specialize (EMn k). rewrite HM in EMn.
          now destruct (alookup k (manifests rp)). }
        unfold res_ok. apply orb_true_iff. right. unfold slack. cbn [op_repo]. now rewrite EC. }
    apply res_ok_match; [discriminate|].
    set (M := manifests rp) in *.
    set (p := fun kv : bytes * blob => beqb (b_subject (snd kv)) d).
    set (F := fun k => match alookup k M with Some b => blob_desc b | None => zero_desc end).
    set (ks := filter _ (man_keys (slog sp) r)).
    assert (HF : forall k b, alookup k M = Some b ->
                   F k = blob_desc b /\ hash (b_data b) = k /\ b_subject b = subject_of (b_media b) (b_data b)).
    { intros k b Hk. unfold F. rewrite Hk. destruct (ok_man _ _ _ _ _ _ Hok k b Hk) as (Hh & _ & Hs). auto. }
    (* the implementation's list, as the sorted matching keys mapped through the store *)
    assert (H1 : map (fun kv => blob_desc (snd kv)) (filter p M) = map F (akeys (filter p M))).
    { unfold akeys. rewrite map_map. apply map_ext_in. intros [k b] Hi. cbn.
      apply filter_In in Hi as [Hi _]. apply (alookup_NoDup_In M k b (ok_mkeys _ _ _ _ _ _ Hok)) in Hi.
      symmetry. now apply HF. }
    rewrite H1, dsort_map.
    2:{ intros k Hk. apply in_map_iff in Hk as [[k' b] [E Hi]]. cbn in E. subst k'.
        apply filter_In in Hi as [Hi _]. apply (alookup_NoDup_In M k b (ok_mkeys _ _ _ _ _ _ Hok)) in Hi.
        destruct (HF _ _ Hi) as (-> & Hh & _). exact Hh. }
    assert (H2 : bsort (akeys (filter p M)) = bsort ks).
    { apply ssorted_unique.
      - apply bsort_ssorted. apply NoDup_akeys_filter. apply Hok.
      - apply bsort_ssorted. apply NoDup_filter. apply man_keys_NoDup.
      - intros k. rewrite !bsort_In. unfold ks. rewrite filter_In, man_keys_In, HM. split.
        + intros Hk. apply in_map_iff in Hk as [[k' b] [E Hi]]. cbn in E. subst k'.
          apply filter_In in Hi as [Hi Hp].
          apply (alookup_NoDup_In M k b (ok_mkeys _ _ _ _ _ _ Hok)) in Hi. fold M. rewrite Hi. cbn.
          split; [discriminate|]. destruct (HF _ _ Hi) as (_ & _ & <-). exact Hp.
        + fold M. intros [_ Hk]. destruct (alookup k M) as [b|] eqn:E; [|discriminate]. cbn in Hk.
          apply in_map_iff. exists (k, b). split; [reflexivity|]. apply filter_In.
          split; [now apply alookup_In|]. unfold p. cbn. destruct (HF _ _ E) as (_ & _ & ->). exact Hk. }
    rewrite H2.
    assert (H3 : forall L, (forall k, In k L -> In k ks) ->
               flat_map (fun k => match sman (slog sp) r k with
                                  | Some (m, data) => [sdesc m k data] | None => [] end) L = map F L).
    { induction L as [|k L IH]; intros HL; cbn [flat_map map]; [reflexivity|].
      rewrite IH by (intros; apply HL; now right). f_equal.
      assert (Hk : In k ks) by (apply HL; now left). unfold ks in Hk.
      apply filter_In in Hk as [Hk _]. apply man_keys_In in Hk. rewrite HM in *. fold M in Hk |- *.
      destruct (alookup k M) as [b|] eqn:E; [|now elim Hk]. cbn.
      destruct (HF _ _ E) as (-> & Hh & _). now rewrite (blob_desc_sdesc b k Hh). }
    rewrite H3 by (intros k Hk; apply (bsort_In k ks); exact Hk).
    apply result_match_refl. discriminate.
  Qed.

  (* ---- BlobWriter operations ---- *)
  Lemma sim_writer st sp o w :
    Rel st sp -> (forall s, o <> Repositories s) ->
    forall (f : buffer -> state * result) (g : buffer -> sstate * result),
      (forall b, nth_error (bufs st) (N.to_nat w) = Some b -> step_ok (slog sp) o (f b) (g b)) ->
      step_ok (slog sp) o
        (match nth_error (bufs st) (N.to_nat w) with None => (st, Err no_writer) | Some b => f b end)
        (match nth_error (sbufs sp) (N.to_nat w) with
         | None => (sp, Err (e_plain (s "no such writer"))) | Some b => g b end).
  Proof.
    intros HR Hn f g H. rewrite <- (rel_bufs _ _ HR).
    destruct (nth_error (bufs st) (N.to_nat w)) as [b|]; [now apply H|].
    split; [exact HR | apply res_ok_match; [exact Hn | reflexivity]].
  Qed.

  Lemma sim_WWrite st sp w data :
    Rel st sp -> Inv st -> step_ok (slog sp) (WWrite w data) (step st (WWrite w data)) (sstep sp (WWrite w data)).
  Proof.
    intros HR HI. cbn [Mem.step MemSpec.sstep]. apply sim_writer; [exact HR | discriminate|].
    intros b _. destruct (negb (u_check b =? -1)%Z && negb (blen (u_buf b) =? u_check b)%Z).
    - split; [exact HR | apply res_ok_match; [discriminate | reflexivity]].
    - split; [now apply rel_with_buf | apply res_ok_match; [discriminate | apply result_match_refl; discriminate]].
  Qed.

  Lemma sim_WCancel st sp w :
    Rel st sp -> Inv st -> step_ok (slog sp) (WCancel w) (step st (WCancel w)) (sstep sp (WCancel w)).
  Proof.
    intros HR HI. cbn [Mem.step MemSpec.sstep]. apply sim_writer; [exact HR | discriminate|].
    intros b _. split; [now apply rel_with_buf | apply res_ok_match; [discriminate | reflexivity]].
  Qed.

  Lemma sim_WCommit st sp w d :
    Rel st sp -> Inv st -> step_ok (slog sp) (WCommit w d) (step st (WCommit w d)) (sstep sp (WCommit w d)).
  Proof.
    intros HR HI. cbn [Mem.step MemSpec.sstep]. apply sim_writer; [exact HR | discriminate|].
    intros b Hb. destruct (u_err b) as [e|].
    - split; [exact HR | apply res_ok_match; [discriminate | apply result_match_refl; discriminate]].
    - destruct (beqb (hash (u_buf b)) d).
      + split; [|apply desc_ok; discriminate]. cbn [fst].
        apply (rel_set_blob _ _ (u_repo b) d {| b_media := MT_OCTET; b_data := u_buf b; b_subject := [] |}).
        * now apply rel_with_buf.
        * apply (inv_buf _ _ _ _ HI _ _ Hb).
      + split; [now apply rel_with_buf | apply res_ok_match; [discriminate | reflexivity]].
  Qed.

  Lemma sim_reader st sp o w (k : buffer -> result) :
    Rel st sp -> (forall s, o <> Repositories s) -> (forall b, definite (k b)) ->
    step_ok (slog sp) o
      (st, match nth_error (bufs st) (N.to_nat w) with None => Err no_writer | Some b => k b end)
      (sp, match nth_error (sbufs sp) (N.to_nat w) with
           | None => Err (e_plain (s "no such writer")) | Some b => k b end).
  Proof.
    intros HR Hn Hk. rewrite <- (rel_bufs _ _ HR). split; [exact HR|]. cbn [snd].
    apply res_ok_match; [exact Hn|].
    destruct (nth_error (bufs st) (N.to_nat w)); [apply result_match_refl; apply Hk | reflexivity].
  Qed.

  (* ---- every operation ---- *)
  Theorem sim_step st sp o :
    Rel st sp -> Inv st ->
    (fuelled o = true -> definite (snd (step st o)) /\ definite (snd (sstep sp o))) ->
    step_ok (slog sp) o (step st o) (sstep sp o).
  Proof.
    intros HR HI D. destruct o; try (destruct (D eq_refl) as [D1 D2]).
    - now apply sim_GetBlob.
    - now apply sim_GetBlobRange.
    - now apply sim_GetManifest.
    - now apply sim_GetTag.
    - now apply sim_ResolveBlob.
    - now apply sim_ResolveManifest.
    - now apply sim_ResolveTag.
    - now apply sim_PushBlob.
    - now apply sim_PushBlobChunked.
    - now apply sim_PushBlobChunkedResume.
    - now apply sim_MountBlob.
    - now apply sim_PushManifest.
    - now apply sim_DeleteBlob.
    - now apply sim_DeleteManifest.
    - now apply sim_DeleteTag.
    - now apply sim_Repositories.
    - now apply sim_Tags.
    - now apply sim_Referrers.
    - now apply sim_WWrite.
    - apply (sim_reader st sp (WClose w) w (fun _ => Ok RUnit)); [auto | discriminate | discriminate].
    - apply (sim_reader st sp (WSize w) w (fun b => Ok (RN (blen (u_buf b))))); [auto | discriminate | discriminate].
    - apply (sim_reader st sp (WChunkSize w) w (fun b => Ok (RN 8192))); [auto | discriminate | discriminate].
    - apply (sim_reader st sp (WID w) w (fun b => Ok (RStr (u_id b)))); [auto | discriminate | discriminate].
    - now apply sim_WCommit.
    - now apply sim_WCancel.
  Qed.
End Refine.
