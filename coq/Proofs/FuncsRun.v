From Coq Require Import String.
From OCI Require Import Model.Funcs Model.FuncsRun Proofs.Funcs.

(* the error an unset method m reports on table t for (ctx, args) *)
Definition unset_err (t : table) (m : method) (ctx : bytes) (args : list bytes) : errv :=
  if negb (t_nil t) && t_ctor t
  then ECtorErr ctx (method_name m) (repo_arg m args)
  else EUnsup (method_name m).

Lemma invoke_no_panic t m ctx args : invoke t m ctx args <> RPanic.
Proof.
  unfold invoke, guard, callee.
  destruct (field_set t m); [discriminate|].
  destruct (is_iter m); discriminate.
Qed.

Lemma invoke_delegates t m ctx args :
  t_nil t = false -> t_set t m = true -> invoke t m ctx args = RDelegated m ctx args.
Proof.
  intros Hn Hs. unfold invoke, guard, callee, field_set. rewrite Hn, Hs. reflexivity.
Qed.

Lemma invoke_unset t m ctx args :
  (t_nil t = true \/ t_set t m = false) ->
  invoke t m ctx args =
    if is_iter m then RErrorSeq (unset_err t m ctx args) else RError (unset_err t m ctx args).
Proof.
  intros H. unfold invoke, guard, field_set, new_error_v, unset_err, err_name.
  assert (E : negb (t_nil t) && t_set t m = false).
  { destruct H as [-> | ->]; [reflexivity | apply andb_false_r]. }
  rewrite E. destruct (negb (t_nil t) && t_ctor t); destruct m; reflexivity.
Qed.

(* forgetting the context and the iterator value gives the one-call model of Model/Funcs.v *)
Lemma erase_invoke t m ctx args : erase (invoke t m ctx args) = call t m args.
Proof.
  unfold invoke, call, new_error_v, new_error.
  destruct (field_set t (guard m)).
  - destruct (field_set t (callee m)); reflexivity.
  - destruct (negb (t_nil t) && t_ctor t); destruct (is_iter m); reflexivity.
Qed.

Lemma traverse_once e k : traverse_error_seq e k = [e].
Proof. reflexivity. Qed.

(* ---- histories ---- *)

(* what the property asks of one step, given the table *)
Definition step_spec (t : table) (st : step) (o : sobs) : Prop :=
  (t_nil t = false /\ t_set t (s_m st) = true /\
     o = SDelegated (s_m st) (s_ctx st) (s_args st))
  \/
  ((t_nil t = true \/ t_set t (s_m st) = false) /\
     let e := unset_err t (s_m st) (s_ctx st) (s_args st) in
     o = if is_iter (s_m st)
         then SSeq (map (fun _ => [YErr e]) (s_trav st))
         else SError e).

Lemma run_step_spec t st : step_spec t st (run_step t st).
Proof.
  unfold step_spec, run_step.
  destruct (t_nil t) eqn:Hn.
  - right. split; [now left|]. rewrite invoke_unset by now left.
    destruct (is_iter (s_m st)); reflexivity.
  - destruct (t_set t (s_m st)) eqn:Hs.
    + left. rewrite invoke_delegates by assumption. auto.
    + right. split; [now right|]. rewrite invoke_unset by now right.
      destruct (is_iter (s_m st)); reflexivity.
Qed.

Lemma run_spec t steps : Forall2 (step_spec t) steps (run t steps).
Proof.
  induction steps as [|st steps IH]; cbn; constructor; auto using run_step_spec.
Qed.

Lemma run_history t pre st post :
  run t (pre ++ st :: post) = run t pre ++ run_step t st :: run t post.
Proof. unfold run. rewrite map_app. reflexivity. Qed.

Lemma run_step_no_panic t st : run_step t st <> SPanic.
Proof.
  unfold run_step. pose proof (invoke_no_panic t (s_m st) (s_ctx st) (s_args st)) as H.
  destruct (invoke t (s_m st) (s_ctx st) (s_args st)); try discriminate. congruence.
Qed.

Lemma run_no_panic t steps : ~ In SPanic (run t steps).
Proof.
  unfold run. intros H. apply in_map_iff in H as [st [H _]]. now apply run_step_no_panic in H.
Qed.

Lemma run_step_independent t t' st :
  t_nil t = t_nil t' -> t_ctor t = t_ctor t' -> t_set t (s_m st) = t_set t' (s_m st) ->
  run_step t st = run_step t' st.
Proof.
  intros H1 H2 H3. unfold run_step, invoke, guard, callee, field_set, new_error_v.
  rewrite H1, H2, H3. reflexivity.
Qed.

Lemma run_independent t t' steps :
  t_nil t = t_nil t' -> t_ctor t = t_ctor t' ->
  (forall st, In st steps -> t_set t (s_m st) = t_set t' (s_m st)) ->
  run t steps = run t' steps.
Proof.
  intros H1 H2 H3. unfold run. apply map_ext_in. intros st Hin.
  apply run_step_independent; auto.
Qed.

(* the answer to the call made after the calls [pre] (and before [post]) *)
Lemma run_nth t pre st post d :
  nth (List.length pre) (run t (pre ++ st :: post)) d = run_step t st.
Proof.
  rewrite run_history. rewrite app_nth2; unfold run; rewrite map_length; [|lia].
  now rewrite Nat.sub_diag.
Qed.

Lemma run_delegates t pre st post :
  t_nil t = false -> t_set t (s_m st) = true ->
  nth (List.length pre) (run t (pre ++ st :: post)) SPanic
  = SDelegated (s_m st) (s_ctx st) (s_args st).
Proof.
  intros Hn Hs. rewrite run_nth. unfold run_step. now rewrite invoke_delegates.
Qed.

Lemma run_unset t pre st post :
  (t_nil t = true \/ t_set t (s_m st) = false) ->
  nth (List.length pre) (run t (pre ++ st :: post)) SPanic
  = let e := unset_err t (s_m st) (s_ctx st) (s_args st) in
    if is_iter (s_m st) then SSeq (map (fun _ => [YErr e]) (s_trav st)) else SError e.
Proof.
  intros H. rewrite run_nth. unfold run_step. rewrite invoke_unset by assumption.
  destruct (is_iter (s_m st)); reflexivity.
Qed.

(* the hypotheses of the history lemmas are satisfiable by a table that has a constructor, one
   field set and is called three times, twice for iterators *)
Example run_example :
  let t := {| t_nil := false; t_ctor := true; t_set := fun m => method_eqb m MTags |} in
  run t [ {| s_m := MTags; s_ctx := s "c0"; s_args := [s "r"; s "after"]; s_results := 0; s_trav := [KGoOn] |};
          {| s_m := MRepositories; s_ctx := s "c1"; s_args := [s "after"]; s_results := 0; s_trav := [KGoOn; KStop; KAll] |};
          {| s_m := MMountBlob; s_ctx := s "c2"; s_args := [s "from"; s "to"; s "d"]; s_results := 0; s_trav := [] |} ]
  = [ SDelegated MTags (s "c0") [s "r"; s "after"];
      SSeq (let y := [YErr (ECtorErr (s "c1") (s "Repositories") [])] in [y; y; y]);
      SError (ECtorErr (s "c2") (s "MountBlob") (s "to")) ].
Proof. reflexivity. Qed.
