(* ocimem satisfies the upload contract ([mem_law]); hence so do one hop, two hops and
   ociunify over them ([hop1_law], [hop2_law], [unify_mem_law], [unify_hop1_law]), and the
   specification checker accepts every script run on any of these stacks from the empty
   registry ([*_check]). *)
From Coq Require Import String.
From OCI Require Import Model.UploadMem Model.UploadSpec Proofs.MemBasics Proofs.RangeCodec
  Proofs.UploadLaw Proofs.Upload.

Local Open Scope Z_scope.

Section MemLaw.
  Variable hash : bytes -> bytes.
  Variable valid_digest : bytes -> bool.
  Variable valid_repo : bytes -> bool.
  Variable valid_tag : bytes -> bool.
  Variable decode_image : bytes -> option image_manifest.
  Variable decode_index : bytes -> option index_manifest.
  Variable cfg : config.
  Variable repo : bytes.
  Hypothesis Hvr : valid_repo repo = true.

  Notation MB := (mem_backend hash valid_digest valid_repo valid_tag decode_image decode_index cfg).
  Notation mst := (mstep hash valid_digest valid_repo valid_tag decode_image decode_index cfg).

  Definition m_stor (st : state) (x : bytes) : list (option bytes) := [mem_blob st repo x].

  (* the session of upload id i: its index among the buffers and the buffer *)
  Definition m_buf (i : bytes) (st : state) : option (N * buffer) :=
    match get_repo st repo with
    | Some rp => match alookup i (uploads rp) with
                 | Some k => match nth_error (bufs st) (N.to_nat k) with
                             | Some b => Some (k, b)
                             | None => None
                             end
                 | None => None
                 end
    | None => None
    end.
  Definition m_rcv (i : bytes) (st : state) : bytes :=
    match m_buf i st with Some (_, b) => u_buf b | None => [] end.

  Definition m_Inv (st : state) : Prop :=
    forall rp, get_repo st repo = Some rp -> alookup [] (uploads rp) = None.

  Definition alive (i : bytes) (b : buffer) : Prop := u_err b = None /\ u_id b = i /\ u_repo b = repo.

  Definition m_Good (i : bytes) (st : state) : Prop :=
    exists k b, m_buf i st = Some (k, b) /\ alive i b.
  Definition m_Syn (i : bytes) (st : state) (w : wid) (pend : bytes) : Prop :=
    pend = [] /\ exists b, m_buf i st = Some (w, b) /\ alive i b /\
                           (u_check b = -1 \/ u_check b = blen (u_buf b)).
  Definition m_Uns (i : bytes) (st : state) (w : wid) (a n : Z) (pend : bytes) : Prop :=
    pend = [] /\ 0 <= n /\ exists b, m_buf i st = Some (w, b) /\ alive i b /\
                                     u_check b = a /\ 0 <= a /\ a <> blen (u_buf b).

  (* ---------------------------------------------------------- what each operation computes *)

  Definition set_check (off : Z) (b : buffer) : buffer :=
    {| u_repo := u_repo b; u_id := u_id b; u_buf := u_buf b; u_check := off;
       u_committed := u_committed b; u_desc := u_desc b; u_err := u_err b |}.
  Definition append (data : bytes) (b : buffer) : buffer :=
    {| u_repo := u_repo b; u_id := u_id b; u_buf := u_buf b ++ data; u_check := -1;
       u_committed := u_committed b; u_desc := u_desc b; u_err := u_err b |}.

  Lemma make_repo_existing st rp : get_repo st repo = Some rp ->
    make_repo valid_repo st repo = Some st.
  Proof. intros H. unfold make_repo. now rewrite Hvr, H. Qed.

  Lemma m_buf_parts i st k b : m_buf i st = Some (k, b) ->
    exists rp, get_repo st repo = Some rp /\ alookup i (uploads rp) = Some k /\
               nth_error (bufs st) (N.to_nat k) = Some b.
  Proof.
    unfold m_buf. destruct (get_repo st repo) as [rp|] eqn:Eg; [|discriminate].
    destruct (alookup i (uploads rp)) as [k'|] eqn:El; [|discriminate].
    destruct (nth_error (bufs st) (N.to_nat k')) as [b'|] eqn:E; [|discriminate].
    intros H; injection H as <- <-. exists rp. repeat split; auto.
  Qed.

  Lemma m_buf_with_buf i st k b f : m_buf i st = Some (k, b) ->
    m_buf i (with_buf st (N.to_nat k) f) = Some (k, f b).
  Proof.
    intros H. destruct (m_buf_parts _ _ _ _ H) as (rp & Hg & Hl & Hn).
    unfold m_buf, with_buf, get_repo in *. cbn [repos bufs]. rewrite Hg, Hl.
    rewrite nth_error_upd_nth, Nat.eqb_refl, Hn. reflexivity.
  Qed.

  Lemma resume_existing i st k b off hint : m_buf i st = Some (k, b) ->
    mst st (PushBlobChunkedResume repo i off hint) =
      (with_buf st (N.to_nat k) (set_check off), Ok (RWriter k)).
  Proof.
    intros H. destruct (m_buf_parts _ _ _ _ H) as (rp & Hg & Hl & Hn).
    unfold mstep, step. rewrite (make_repo_existing _ _ Hg), Hg, Hl. reflexivity.
  Qed.

  Lemma write_at st w b data : nth_error (bufs st) (N.to_nat w) = Some b ->
    mst st (WWrite w data) =
      if negb (u_check b =? -1) && negb (blen (u_buf b) =? u_check b)
      then (st, Err (E RANGE_INVALID (s "invalid offset in resumed upload")))
      else (with_buf st (N.to_nat w) (append data), Ok (RN (blen data))).
  Proof. intros H. unfold mstep, step. rewrite H. reflexivity. Qed.

  Lemma mem_blob_with_buf st k f x : mem_blob (with_buf st k f) repo x = mem_blob st repo x.
  Proof. reflexivity. Qed.

  (* ---------------------------------------------------------- frame *)

  Lemma chunked_frame st r id off hint o x :
    o = PushBlobChunked r hint \/ o = PushBlobChunkedResume r id off hint ->
    mem_blob (fst (mst st o)) repo x = mem_blob st repo x.
  Proof.
    intros Ho. unfold mstep.
    assert (E : fst (step hash valid_digest valid_repo valid_tag decode_image decode_index cfg st o) =
                fst (let id := match o with PushBlobChunkedResume _ id _ _ => id | _ => [] end in
                     let off := match o with PushBlobChunkedResume _ _ off _ => off | _ => 0 end in
                     match make_repo valid_repo st r with
                     | None => (st, Err e_name_invalid)
                     | Some st1 =>
                         match get_repo st1 r with
                         | None => (st1, Err e_name_invalid)
                         | Some rp =>
                             match alookup id (uploads rp) with
                             | Some i =>
                                 (with_buf st1 (N.to_nat i) (set_check off), Ok (RWriter i))
                             | None =>
                                 let id' := match id with [] => fresh_id (next_id st1) | _ => id end in
                                 let i := N.of_nat (length (bufs st1)) in
                                 ({| repos := aset r (rp_set_upload id' i rp) (repos st1);
                                     bufs := bufs st1 ++ [new_buffer r id' off];
                                     next_id := match id with [] => N.succ (next_id st1) | _ => next_id st1 end |},
                                  Ok (RWriter i))
                             end
                         end
                     end)).
    { destruct Ho as [-> | ->]; reflexivity. }
    rewrite E. clear E. cbn zeta.
    destruct (make_repo valid_repo st r) as [st1|] eqn:Em; [|reflexivity].
    destruct (make_repo_views valid_repo _ _ _ Em) as (Hv & _ & _).
    assert (Hb1 : mem_blob st1 repo x = mem_blob st repo x) by (unfold mem_blob; now rewrite Hv).
    destruct (get_repo st1 r) as [rp|] eqn:Eg; [|exact Hb1].
    destruct (alookup _ (uploads rp)) as [k|]; cbn [fst]; [exact Hb1|].
    rewrite <- Hb1. unfold mem_blob, iblob, get_repo. cbn [repos].
    rewrite alookup_aset. destruct (beqb repo r) eqn:Er; [|reflexivity].
    apply beqb_eq in Er. subst r. unfold get_repo in Eg. rewrite Eg. reflexivity.
  Qed.

  Lemma write_frame st w data x : mem_blob (fst (mst st (WWrite w data))) repo x = mem_blob st repo x.
  Proof.
    unfold mstep, step. destruct (nth_error (bufs st) (N.to_nat w)) as [b|]; [|reflexivity].
    destruct (negb (u_check b =? -1) && negb (blen (u_buf b) =? u_check b)); reflexivity.
  Qed.

  Lemma as_writer_fst r : fst (as_writer r) = fst r.
  Proof. destruct r as [st [[]|e| |]]; reflexivity. Qed.
  Lemma as_unit_fst w r : fst (fst (as_unit w r)) = fst r.
  Proof. destruct r as [st [x|e| |]]; reflexivity. Qed.

  (* ---------------------------------------------------------- the contract *)

  Theorem mem_law : ulaw MB hash repo m_stor m_rcv m_Inv m_Good m_Syn m_Uns 0.
  Proof.
    constructor.
    - (* frame_start *)
      intros st r hint x. cbn [mem_backend ub_start]. rewrite as_writer_fst. unfold m_stor. f_equal.
      apply (chunked_frame st r [] 0 hint). now left.
    - (* frame_resume *)
      intros st r i a hint x. cbn [mem_backend ub_resume]. rewrite as_writer_fst. unfold m_stor. f_equal.
      apply (chunked_frame st r i a hint). now right.
    - (* frame_write *)
      intros st w data x. cbn [mem_backend ub_write]. rewrite as_unit_fst. unfold m_stor. f_equal.
      apply write_frame.
    - (* frame_close *)
      intros st w x. cbn [mem_backend ub_close]. rewrite as_unit_fst. unfold mstep, step.
      destruct (nth_error (bufs st) (N.to_nat w)); reflexivity.
    - (* law_start *)
      intros st hint Hinv. cbn [mem_backend ub_start]. unfold mstep, step.
      destruct (make_repo valid_repo st repo) as [st1|] eqn:Em.
      2:{ apply make_repo_none in Em. congruence. }
      destruct (make_repo_some valid_repo _ _ _ Em) as (_ & Hne & Hbufs & Hnext & Hg).
      destruct (get_repo st1 repo) as [rp|] eqn:Eg; [|congruence].
      assert (Hnil : alookup [] (uploads rp) = None).
      { specialize (Hg repo). rewrite Eg in Hg. destruct (get_repo st repo) as [rp0|] eqn:E0.
        - injection Hg as ->. now apply Hinv.
        - rewrite beqb_refl in Hg. injection Hg as ->. reflexivity. }
      rewrite Hnil. cbn [as_writer].
      eexists. exists (N.of_nat (length (bufs st1))), (fresh_id (next_id st1)).
      split; [reflexivity|].
      assert (Hbuf : m_buf (fresh_id (next_id st1))
                {| repos := aset repo (rp_set_upload (fresh_id (next_id st1)) (N.of_nat (length (bufs st1))) rp) (repos st1);
                   bufs := bufs st1 ++ [new_buffer repo (fresh_id (next_id st1)) 0];
                   next_id := N.succ (next_id st1) |}
              = Some (N.of_nat (length (bufs st1)), new_buffer repo (fresh_id (next_id st1)) 0)).
      { unfold m_buf, get_repo. cbn [repos bufs]. rewrite alookup_aset_eq. cbn [uploads rp_set_upload].
        rewrite alookup_aset_eq, Nnat.Nat2N.id, nth_error_app2, Nat.sub_diag by lia. reflexivity. }
      split.
      + split; [reflexivity|]. eexists. split; [exact Hbuf|]. split; [repeat split|]. right. reflexivity.
      + unfold m_rcv. rewrite Hbuf. reflexivity.
    - (* law_resume_at *)
      intros i st a hint (k & b & Hbuf & Hal) Ha. cbn [mem_backend ub_resume].
      rewrite (resume_existing _ _ _ _ a hint Hbuf). cbn [as_writer].
      exists (with_buf st (N.to_nat k) (set_check a)), k. split; [reflexivity|].
      pose proof (m_buf_with_buf _ _ _ _ (set_check a) Hbuf) as Hbuf'.
      unfold m_rcv. rewrite Hbuf', Hbuf. cbn [set_check u_buf]. split; [reflexivity|].
      split; intros Hoff.
      + split; [reflexivity|]. exists (set_check a b). split; [exact Hbuf'|]. split; [exact Hal|].
        right. exact Hoff.
      + split; [reflexivity|]. split; [lia|]. exists (set_check a b). split; [exact Hbuf'|]. split; [exact Hal|].
        cbn [set_check u_check u_buf]. repeat split; auto; lia.
    - (* law_resume_info *)
      intros i st hint (k & b & Hbuf & Hal) Hne Hb. cbn [mem_backend ub_resume].
      rewrite (resume_existing _ _ _ _ (-1) hint Hbuf). cbn [as_writer].
      exists (with_buf st (N.to_nat k) (set_check (-1))), k. split; [reflexivity|].
      pose proof (m_buf_with_buf _ _ _ _ (set_check (-1)) Hbuf) as Hbuf'.
      unfold m_rcv. rewrite Hbuf', Hbuf. cbn [set_check u_buf]. split; [reflexivity|].
      split; [reflexivity|]. exists (set_check (-1) b). split; [exact Hbuf'|]. split; [exact Hal|].
      left. reflexivity.
    - (* syn_size *)
      intros i st w pend (-> & b & Hbuf & Hal & Hck). cbn [mem_backend ub_size].
      destruct (m_buf_parts _ _ _ _ Hbuf) as (rp & Hg & Hl & Hn).
      unfold mstep, step. rewrite Hn. unfold m_rcv. rewrite Hbuf. cbn. lia.
    - (* syn_id *)
      intros i st w pend (-> & b & Hbuf & (He & Hid & Hrp) & Hck). cbn [mem_backend ub_id].
      destruct (m_buf_parts _ _ _ _ Hbuf) as (rp & Hg & Hl & Hn).
      unfold mstep, step. rewrite Hn. exact Hid.
    - (* law_write_syn *)
      intros i st w pend data (-> & b & Hbuf & Hal & Hck) Hb. cbn [mem_backend ub_write].
      destruct (m_buf_parts _ _ _ _ Hbuf) as (rp & Hg & Hl & Hn).
      rewrite (write_at _ _ _ data Hn).
      assert (Hpass : negb (u_check b =? -1) && negb (blen (u_buf b) =? u_check b) = false).
      { destruct Hck as [-> | ->]; [reflexivity|]. rewrite Z.eqb_refl. apply andb_false_r. }
      rewrite Hpass. cbn [as_unit].
      pose proof (m_buf_with_buf _ _ _ _ (append data) Hbuf) as Hbuf'.
      eexists. exists w, []. split; [reflexivity|]. split.
      + split; [reflexivity|]. exists (append data b). split; [exact Hbuf'|]. split; [exact Hal|]. left. reflexivity.
      + unfold m_rcv. rewrite Hbuf', Hbuf. cbn [append u_buf]. rewrite !app_nil_r. reflexivity.
    - (* law_close_syn *)
      intros i st w pend (-> & b & Hbuf & Hal & Hck) Hb. cbn [mem_backend ub_close ub_id ub_size].
      destruct (m_buf_parts _ _ _ _ Hbuf) as (rp & Hg & Hl & Hn).
      exists st, w. unfold mstep, step. rewrite !Hn. cbn [as_unit as_str as_n].
      split; [reflexivity|]. split; [exists w, b; auto|]. rewrite app_nil_r.
      split; [reflexivity|]. destruct Hal as (He & Hid & Hrp). split; [exact Hid|].
      unfold m_rcv. rewrite Hbuf. reflexivity.
    - (* law_commit_syn *)
      intros i st w pend d (-> & b & Hbuf & (He & Hid & Hrp) & Hck) Hb c. cbn [mem_backend ub_commit].
      destruct (m_buf_parts _ _ _ _ Hbuf) as (rp & Hg & Hl & Hn).
      assert (Hc : c = u_buf b). { unfold c, m_rcv. rewrite Hbuf. apply app_nil_r. }
      unfold mstep, step. rewrite Hn, He. rewrite Hc. split.
      + intros Hh _. rewrite Hh, beqb_refl. cbn [as_desc].
        eexists. exists w. eexists. split; [reflexivity|]. split; [reflexivity|].
        intros x. unfold m_stor, put_view. rewrite Hrp. unfold mem_blob.
        rewrite iblob_upd, beqb_refl. unfold with_buf, get_repo. cbn [repos].
        unfold get_repo in Hg. rewrite Hg. cbn [rp_set_blob blobs]. rewrite alookup_aset.
        destruct (beqb x d); [reflexivity|]. unfold iblob, get_repo. rewrite Hg. reflexivity.
      + intros Hh. apply beqb_neq in Hh. rewrite Hh. cbn [as_desc].
        eexists. exists w. eexists. split; [reflexivity|]. intros x. reflexivity.
    - (* uns_good *)
      intros i st w a n pend (-> & Hn0 & b & Hbuf & Hal & Hck & Ha & Hne).
      split; [exists w, b; auto|].
      destruct (m_buf_parts _ _ _ _ Hbuf) as (rp & Hg & Hl & Hn).
      split; [cbn [mem_backend ub_id]; unfold mstep, step; rewrite Hn; apply Hal|].
      split; [exact Hn0|]. split; [exact Ha|]. unfold m_rcv. rewrite Hbuf. exact Hne.
    - (* law_write_uns *)
      intros i st w a n pend data (-> & Hn0 & b & Hbuf & Hal & Hck & Ha & Hne) Hb. cbn [mem_backend ub_write].
      destruct (m_buf_parts _ _ _ _ Hbuf) as (rp & Hg & Hl & Hn).
      rewrite (write_at _ _ _ data Hn).
      assert (Hfail : negb (u_check b =? -1) && negb (blen (u_buf b) =? u_check b) = true).
      { rewrite Hck. destruct (Z.eqb_spec a (-1)); [lia|]. destruct (Z.eqb_spec (blen (u_buf b)) a); [lia|]. reflexivity. }
      rewrite Hfail. cbn [as_unit].
      exists st, w, (Some (uerr_of (E RANGE_INVALID (s "invalid offset in resumed upload")))).
      split; [reflexivity|]. split; [reflexivity|]. split; [split; reflexivity|].
      split; [reflexivity|]. pose proof (blen_nonneg data). split; [lia|]. exists b. auto.
    - (* law_close_uns *)
      intros i st w a n pend (-> & Hn0 & b & Hbuf & Hal & Hck & Ha & Hne) Hb. cbn [mem_backend ub_close ub_id].
      destruct (m_buf_parts _ _ _ _ Hbuf) as (rp & Hg & Hl & Hn).
      exists st, w, None. unfold mstep, step. rewrite !Hn. cbn [as_unit as_str].
      split; [reflexivity|]. split; [reflexivity|]. split; [exists w, b; auto|].
      split; [apply Hal|reflexivity].
    - (* law_commit_uns: an ocimem writer never holds unsent bytes *)
      intros i st w a n pend d (-> & _) _ Hpend. congruence.
  Qed.
End MemLaw.

(* ------------------------------------------------------------------ the stacks of the property *)

Section Stacks.
  Variable hash : bytes -> bytes.
  Variable valid_digest : bytes -> bool.
  Variable valid_repo : bytes -> bool.
  Variable valid_tag : bytes -> bool.
  Variable decode_image : bytes -> option image_manifest.
  Variable decode_index : bytes -> option index_manifest.
  Variable cfg : config.
  Variable repo : bytes.
  Hypothesis Hvr : valid_repo repo = true.
  Variable pieces : bytes -> list bytes.
  Hypothesis pieces_concat : forall b, concat (pieces b) = b.

  Notation MB := (mem_backend hash valid_digest valid_repo valid_tag decode_image decode_index cfg).
  Notation H1 := (hop1 hash valid_digest valid_repo valid_tag decode_image decode_index cfg pieces).
  Notation H2 := (hop2 hash valid_digest valid_repo valid_tag decode_image decode_index cfg pieces).

  Definition mem_law' := mem_law hash valid_digest valid_repo valid_tag decode_image decode_index cfg repo Hvr.

  Definition hop1_law := hop_law MB pieces pieces_concat hash repo _ _ _ _ _ _ _ mem_law'.
  Definition hop2_law := hop_law H1 pieces pieces_concat hash repo _ _ _ _ _ _ _ hop1_law.
  Definition unify_mem_law := unify_law MB hash repo _ _ _ _ _ _ _ mem_law'.
  Definition unify_hop1_law := unify_law H1 hash repo _ _ _ _ _ _ _ hop1_law.

  Lemma init_inv : m_Inv repo init.
  Proof. intros rp H. discriminate. Qed.
  Lemma init_empty x : Forall (fun v => v = None) (m_stor repo init x).
  Proof. repeat constructor. Qed.
  Lemma init_empty2 x : Forall (fun v => v = None) (storU (m_stor repo) (init, init) x).
  Proof. repeat constructor. Qed.

  (* The specification checker accepts every script (all contents, partitions, chunk-size
     hints, close-and-resume patterns, wrong offsets, right and wrong digests) that fits
     int64, on each stack, started on the empty registry. *)
  Theorem mem_check ops st' cur' obs digests :
    weight ops <= MAX64 ->
    run_script MB repo init None ops = (st', cur', obs) ->
    check hash false ops obs (map (fun d => (d, m_stor repo st' d)) digests) = true.
  Proof.
    apply (check_sound MB hash repo _ _ _ _ _ _ 0 mem_law' false (or_introl eq_refl) init init_inv init_empty).
  Qed.

  Theorem hop1_check ops st' cur' obs digests :
    weight ops <= MAX64 ->
    run_script H1 repo init None ops = (st', cur', obs) ->
    check hash true ops obs (map (fun d => (d, m_stor repo st' d)) digests) = true.
  Proof.
    apply (check_sound H1 hash repo _ _ _ _ _ _ 416 hop1_law true eq_refl init init_inv init_empty).
  Qed.

  Theorem hop2_check ops st' cur' obs digests :
    weight ops <= MAX64 ->
    run_script H2 repo init None ops = (st', cur', obs) ->
    check hash true ops obs (map (fun d => (d, m_stor repo st' d)) digests) = true.
  Proof.
    apply (check_sound H2 hash repo _ _ _ _ _ _ 416 hop2_law true eq_refl init init_inv init_empty).
  Qed.

  Theorem unify_mem_check ops st' cur' obs digests :
    weight ops <= MAX64 ->
    run_script (unify_backend MB MB) repo (init, init) None ops = (st', cur', obs) ->
    check hash false ops obs (map (fun d => (d, storU (m_stor repo) st' d)) digests) = true.
  Proof.
    apply (check_sound (unify_backend MB MB) hash repo _ _ _ _ _ _ 0 unify_mem_law false (or_introl eq_refl)
             (init, init) (conj eq_refl init_inv) init_empty2).
  Qed.

  Theorem unify_hop1_check ops st' cur' obs digests :
    weight ops <= MAX64 ->
    run_script (unify_backend H1 H1) repo (init, init) None ops = (st', cur', obs) ->
    check hash true ops obs (map (fun d => (d, storU (m_stor repo) st' d)) digests) = true.
  Proof.
    apply (check_sound (unify_backend H1 H1) hash repo _ _ _ _ _ _ 416 unify_hop1_law true eq_refl
             (init, init) (conj eq_refl init_inv) init_empty2).
  Qed.
End Stacks.
