(* One hop preserves the upload contract: if a backend satisfies [ulaw] then so does
   [client_backend (serve B pieces)], the ociclient blobWriter talking to ociserver in front
   of that backend - for every way io.Copy cuts request bodies into Writes.  The proof goes
   through what the server answers to the requests a client sends (the H_ lemmas), which is
   where the Content-Range codec theorems of Proofs/RangeCodec.v are used.  Also: ociunify
   over two registries in the same state. *)
From Coq Require Import String.
From OCI Require Import Model.Upload Model.UploadSpec Proofs.RangeCodec Proofs.UploadLaw.

Local Open Scope Z_scope.

Lemma blen_concat_cons (q : bytes) ps : blen (concat (q :: ps)) = blen q + blen (concat ps).
Proof. cbn [concat]. apply blen_app. Qed.

Section Hop.
  Context {S W I : Type}.
  Variable B : ubackend S W I.
  Variable pieces : bytes -> list bytes.
  Hypothesis pieces_concat : forall b, concat (pieces b) = b.
  Variable hash : bytes -> bytes.
  Variable repo : bytes.
  Variable stor : S -> bytes -> list (option bytes).
  Variable rcv : I -> S -> bytes.
  Variable Inv : S -> Prop.
  Variable Good : I -> S -> Prop.
  Variable Syn : I -> S -> W -> bytes -> Prop.
  Variable Uns : I -> S -> W -> Z -> Z -> bytes -> Prop.
  Variable rs : Z.
  Hypothesis L : ulaw B hash repo stor rcv Inv Good Syn Uns rs.

  Notation srv := (serve B pieces).
  Notation refusal := (range_refusal rs).

  (* ------------------------------------------------------------ io.Copy into a writer *)

  Lemma copy_frame ps : forall st w x, stor (fst (fst (copy_pieces B st w ps))) x = stor st x.
  Proof.
    induction ps as [|q ps IH]; intros st w x; cbn [copy_pieces]; [reflexivity|].
    pose proof (frame_write L st w q x) as F.
    destruct (ub_write B st w q) as [[st1 w1] [e|]]; cbn [fst] in *; [exact F|].
    rewrite IH. exact F.
  Qed.

  Lemma copy_syn ps : forall i st w pend, Syn i st w pend ->
    blen (rcv i st) + blen pend + blen (concat ps) <= MAX64 ->
    exists st' w' pend', copy_pieces B st w ps = (st', w', None) /\ Syn i st' w' pend' /\
      rcv i st' ++ pend' = rcv i st ++ pend ++ concat ps.
  Proof.
    induction ps as [|q ps IH]; intros i st w pend Hsyn Hb.
    - exists st, w, pend. cbn. rewrite app_nil_r. auto.
    - rewrite blen_concat_cons in Hb. pose proof (blen_nonneg (concat ps)).
      destruct (law_write_syn L _ _ _ _ q Hsyn ltac:(lia)) as (st1 & w1 & pend1 & E & Hsyn1 & Hc).
      cbn [copy_pieces]. rewrite E.
      assert (Hl : blen (rcv i st1) + blen pend1 = blen (rcv i st) + blen pend + blen q).
      { rewrite <- !blen_app, Hc, app_assoc. reflexivity. }
      destruct (IH _ _ _ _ Hsyn1 ltac:(lia)) as (st' & w' & pend' & E' & Hsyn' & Hc').
      exists st', w', pend'. split; [exact E'|]. split; [exact Hsyn'|].
      rewrite Hc'. cbn [concat]. rewrite !app_assoc. f_equal. rewrite <- app_assoc. exact Hc.
  Qed.

  Lemma copy_uns ps : forall i st w a n pend, Uns i st w a n pend ->
    a + n + blen (concat ps) <= MAX64 ->
    exists st' w' r, copy_pieces B st w ps = (st', w', r) /\ rcv i st' = rcv i st /\
      match r with
      | None => Uns i st' w' a (n + blen (concat ps)) (pend ++ concat ps)
      | Some e => refusal e /\ exists n' pend', Uns i st' w' a n' pend' /\ n' <= n + blen (concat ps)
      end.
  Proof.
    induction ps as [|q ps IH]; intros i st w a n pend Huns Hb.
    - exists st, w, None. cbn. rewrite app_nil_r, Z.add_0_r. auto.
    - rewrite blen_concat_cons in Hb. pose proof (blen_nonneg (concat ps)). pose proof (blen_nonneg q).
      destruct (law_write_uns L _ _ _ _ _ _ q Huns ltac:(lia)) as (st1 & w1 & r1 & E & Hr1 & Hcase).
      cbn [copy_pieces]. rewrite E. destruct r1 as [e|].
      + destruct Hcase as [Hre Hu]. exists st1, w1, (Some e). split; [reflexivity|]. split; [exact Hr1|].
        split; [exact Hre|]. exists (n + blen q), pend. split; [exact Hu|]. rewrite blen_concat_cons. lia.
      + destruct (IH _ _ _ _ _ _ Hcase ltac:(lia)) as (st' & w' & r & E' & Hr' & Hc').
        exists st', w', r. split; [exact E'|]. split; [congruence|].
        destruct r as [e|].
        * destruct Hc' as (Hre & n' & pend' & Hu & Hle). split; [exact Hre|].
          exists n', pend'. split; [exact Hu|]. rewrite blen_concat_cons. lia.
        * rewrite blen_concat_cons. cbn [concat]. rewrite app_assoc, Z.add_assoc. exact Hc'.
  Qed.

  (* ------------------------------------------------------------ the server never stores
     anything except through the closing PUT *)

  Lemma handle_start_frame st r x : stor (fst (handle_start B st r)) x = stor st x.
  Proof.
    unfold handle_start. pose proof (frame_start L st r 0 x) as F.
    destruct (ub_start B st r 0) as [st1 [w|e| |]]; cbn [fst] in *; try exact F.
    pose proof (frame_close L st1 w x) as F2.
    destruct (ub_close B st1 w) as [[st2 w2] e2]; cbn [fst] in *. congruence.
  Qed.

  Lemma handle_info_frame st r i x : stor (fst (handle_info B st r i)) x = stor st x.
  Proof.
    unfold handle_info. pose proof (frame_resume L st r i (-1) 0 x) as F.
    destruct (ub_resume B st r i (-1) 0) as [st1 [w|e| |]]; cbn [fst] in *; try exact F.
    pose proof (frame_close L st1 w x) as F2.
    destruct (ub_close B st1 w) as [[st2 w2] e2]; cbn [fst] in *. congruence.
  Qed.

  Lemma handle_patch_frame st r i cr cl body x :
    stor (fst (handle_patch B pieces st r i cr cl body)) x = stor st x.
  Proof.
    unfold handle_patch. destruct (chunk_range_of cr cl) as [[a b]|e| |]; try reflexivity.
    pose proof (frame_resume L st r i a (wrap64 (b - a)) x) as F.
    destruct (ub_resume B st r i a (wrap64 (b - a))) as [st1 [w|e| |]]; cbn [fst] in *; try exact F.
    unfold copy_body. pose proof (copy_frame (pieces body) st1 w x) as F2.
    destruct (copy_pieces B st1 w (pieces body)) as [[st2 w2] [e|]]; cbn [fst] in *.
    - pose proof (frame_close L st2 w2 x) as F3.
      destruct (ub_close B st2 w2) as [[st3 w3] e3]; cbn [fst] in *. congruence.
    - pose proof (frame_close L st2 w2 x) as F3.
      destruct (ub_close B st2 w2) as [[st3 w3] [e3|]]; cbn [fst] in *; congruence.
  Qed.

  Lemma serve_frame st q x :
    match q with QPut _ _ _ _ _ => True | _ => stor (fst (srv st q)) x = stor st x end.
  Proof.
    destruct q as [r|[r i|r d]|[r i|r d] cr cl body|l d cr cl body]; cbn [serve fst];
      try exact Logic.I; try reflexivity.
    - apply handle_start_frame.
    - apply handle_info_frame.
    - apply handle_patch_frame.
  Qed.

  (* ------------------------------------------------------------ what the server answers *)

  Definition L_ (i : I) : loc I := LUpload repo i.

  (* POST: a fresh upload *)
  Lemma H_start st : Inv st ->
    exists st' i c, srv st (QStart repo) = (st', upload_response 202 repo i (s "0-0") (fmt_int c)) /\
      Good i st' /\ rcv i st' = [].
  Proof.
    intros Hinv. cbn [serve]. unfold handle_start.
    destruct (law_start L st 0 Hinv) as (st1 & w & i & E & Hsyn & Hr). rewrite E.
    destruct (law_close_syn L _ _ _ _ Hsyn) as (st2 & w2 & Ec & Hgood & Hr2 & _).
    { rewrite Hr. cbn. unfold MAX64. lia. }
    rewrite Ec. exists st2, i, (ub_chunk B st1 w). rewrite (syn_id L _ _ _ _ Hsyn).
    split; [reflexivity|]. split; [exact Hgood|]. rewrite Hr2, Hr. reflexivity.
  Qed.

  (* GET of the upload location: how much has been received (as a Range header) *)
  Lemma H_info i st : Good i st -> blen (rcv i st) <> 1 -> blen (rcv i st) <= MAX64 ->
    exists st', srv st (QInfo (L_ i)) =
                  (st', upload_response 204 repo i (range_string 0 (blen (rcv i st))) []) /\
      Good i st' /\ rcv i st' = rcv i st.
  Proof.
    intros Hgood Hne Hb. cbn [serve L_]. unfold handle_info.
    destruct (law_resume_info L i st 0 Hgood Hne Hb) as (st1 & w & E & Hr & Hsyn). rewrite E.
    destruct (law_close_syn L _ _ _ _ Hsyn) as (st2 & w2 & Ec & Hgood2 & Hr2 & _).
    { rewrite Hr. cbn. lia. }
    rewrite Ec, (syn_id L _ _ _ _ Hsyn), (syn_size L _ _ _ _ Hsyn), Hr. cbn [blen List.length Z.of_nat].
    rewrite Z.add_0_r. exists st2. split; [reflexivity|]. split; [exact Hgood2|].
    rewrite Hr2, Hr, app_nil_r. reflexivity.
  Qed.

  Lemma chunk_range_of_ok a n : 0 <= a -> 0 <= n -> a + n <= MAX64 ->
    chunk_range_of (range_string a (a + n)) n = Ok (a, a + n).
  Proof.
    intros Ha Hn Hb. unfold chunk_range_of.
    replace n with ((a + n) - a) at 2 by lia.
    rewrite chunk_range_range_string by lia. reflexivity.
  Qed.

  (* PATCH at the right offset: appended *)
  Lemma H_patch_ok i st body : Good i st -> blen (rcv i st) + blen body <= MAX64 ->
    let a := blen (rcv i st) in
    exists st', srv st (QPatch (L_ i) (range_string a (a + blen body)) (blen body) body) =
                  (st', upload_response 202 repo i (range_string 0 (a + blen body)) []) /\
      Good i st' /\ rcv i st' = rcv i st ++ body.
  Proof.
    intros Hgood Hb a. cbn [serve L_]. unfold handle_patch.
    pose proof (blen_nonneg (rcv i st)) as Ha. pose proof (blen_nonneg body) as Hn.
    rewrite chunk_range_of_ok by (subst a; lia).
    destruct (law_resume_at L i st a (wrap64 (a + blen body - a)) Hgood ltac:(subst a; lia)) as (st1 & w & E & Hr & Hs & _).
    rewrite E. specialize (Hs eq_refl). unfold copy_body.
    destruct (copy_syn (pieces body) _ _ _ _ Hs) as (st2 & w2 & pend2 & Ec & Hsyn2 & Hc).
    { rewrite pieces_concat, Hr. cbn. subst a. lia. }
    rewrite Ec. rewrite pieces_concat, Hr in Hc. cbn [app] in Hc.
    destruct (law_close_syn L _ _ _ _ Hsyn2) as (st3 & w3 & Ecl & Hgood3 & Hr3 & Hid3 & Hsz3).
    { rewrite <- blen_app, Hc, blen_app. lia. }
    rewrite Ecl, Hid3, Hsz3, Hr3, Hc, blen_app. exists st3. split; [reflexivity|]. split; [exact Hgood3|].
    rewrite Hr3. exact Hc.
  Qed.

  Lemma wire_range e : ue_code e = RANGE_INVALID -> wire_code e = RANGE_INVALID /\ wire_status e = 416.
  Proof. intros H. unfold wire_status, wire_code. rewrite H. split; reflexivity. Qed.

  (* PATCH at a wrong offset: refused, nothing changes *)
  Lemma H_patch_bad i st a body : Good i st -> body <> [] -> 0 <= a -> a <> blen (rcv i st) ->
    a + blen body <= MAX64 ->
    exists st' e, srv st (QPatch (L_ i) (range_string a (a + blen body)) (blen body) body) =
                    (st', error_response e) /\ ue_code e = RANGE_INVALID /\
      Good i st' /\ rcv i st' = rcv i st.
  Proof.
    intros Hgood Hne Ha Hoff Hb. cbn [serve L_]. unfold handle_patch.
    pose proof (blen_nonneg body) as Hn.
    rewrite chunk_range_of_ok by lia.
    destruct (law_resume_at L i st a (wrap64 (a + blen body - a)) Hgood ltac:(lia)) as (st1 & w & E & Hr & _ & Hu).
    rewrite E. specialize (Hu Hoff). unfold copy_body.
    destruct (copy_uns (pieces body) _ _ _ _ _ _ Hu) as (st2 & w2 & r & Ec & Hr2 & Hcase).
    { rewrite pieces_concat. lia. }
    rewrite Ec. destruct r as [e|].
    - destruct Hcase as ([Hcode _] & n' & pend' & Hu2 & Hle). rewrite pieces_concat in Hle.
      destruct (law_close_uns L _ _ _ _ _ _ Hu2 ltac:(lia)) as (st3 & w3 & r3 & Ecl & Hr3 & Hgood3 & _).
      rewrite Ecl. exists st3, e. split; [reflexivity|]. split; [exact Hcode|]. split; [exact Hgood3|]. congruence.
    - rewrite pieces_concat in Hcase. cbn [app] in Hcase.
      destruct (law_close_uns L _ _ _ _ _ _ Hcase ltac:(lia)) as (st3 & w3 & r3 & Ecl & Hr3 & Hgood3 & _ & Hres).
      rewrite Ecl. destruct body as [|b0 body]; [congruence|].
      destruct Hres as (e & -> & [Hcode _]).
      exists st3, e. split; [reflexivity|]. split; [exact Hcode|]. split; [exact Hgood3|]. congruence.
  Qed.

  (* the closing PUT at the right offset: the upload plus the body is committed iff the digest is its hash *)
  Lemma H_put_ok i st body d : Good i st -> blen (rcv i st) + blen body <= MAX64 ->
    let a := blen (rcv i st) in
    let c := rcv i st ++ body in
    let q := QPut (L_ i) d (range_string a (a + blen body)) (blen body) body in
    (hash c = d -> d <> [] ->
       exists st' l, srv st q = (st', {| p_status := 201; p_code := ENone; p_location := Some l;
                                         p_range := []; p_minchunk := [] |}) /\
         forall x, stor st' x = put_view d c x (stor st x)) /\
    (hash c <> d ->
       exists st' e, srv st q = (st', error_response e) /\ forall x, stor st' x = stor st x).
  Proof.
    intros Hgood Hb a c q. subst q. cbn [serve L_]. unfold handle_put.
    pose proof (blen_nonneg (rcv i st)) as Ha. pose proof (blen_nonneg body) as Hn.
    rewrite chunk_range_of_ok by (subst a; lia).
    destruct (law_resume_at L i st a (wrap64 (a + blen body - a)) Hgood ltac:(subst a; lia)) as (st1 & w & E & Hr & Hs & _).
    rewrite E. specialize (Hs eq_refl). unfold copy_body.
    assert (Hf1 : forall x, stor st1 x = stor st x).
    { intros x. pose proof (frame_resume L st repo i a (wrap64 (a + blen body - a)) x) as F. now rewrite E in F. }
    destruct (copy_syn (pieces body) _ _ _ _ Hs) as (st2 & w2 & pend2 & Ec & Hsyn2 & Hc).
    { rewrite pieces_concat, Hr. cbn. subst a. lia. }
    rewrite Ec. rewrite pieces_concat, Hr in Hc. cbn [app] in Hc.
    assert (Hf2 : forall x, stor st2 x = stor st1 x).
    { intros x. pose proof (copy_frame (pieces body) st1 w x) as F. now rewrite Ec in F. }
    destruct (law_commit_syn L _ _ _ _ d Hsyn2) as [Hok Hbad].
    { rewrite <- blen_app, Hc, blen_app. lia. }
    rewrite Hc in Hok, Hbad. fold c in Hok, Hbad. split.
    - intros Hh Hd. destruct (Hok Hh Hd) as (st3 & w3 & de & Ecm & _ & Hstor). rewrite Ecm.
      pose proof (fun x => frame_close L st3 w3 x) as F.
      destruct (ub_close B st3 w3) as [[st4 w4] e4]. cbn [fst] in F.
      exists st4, (LBlob repo (d_digest de)). split; [reflexivity|].
      intros x. rewrite F, Hstor, Hf2, Hf1. reflexivity.
    - intros Hh. destruct (Hbad Hh) as (st3 & w3 & e & Ecm & Hstor). rewrite Ecm.
      pose proof (fun x => frame_close L st3 w3 x) as F.
      destruct (ub_close B st3 w3) as [[st4 w4] e4]. cbn [fst] in F.
      exists st4, e. split; [reflexivity|]. intros x. rewrite F, Hstor, Hf2, Hf1. reflexivity.
  Qed.

  (* the closing PUT with data at a wrong offset: refused, nothing changes *)
  Lemma H_put_bad i st a body d : Good i st -> body <> [] -> 0 <= a -> a <> blen (rcv i st) ->
    a + blen body <= MAX64 -> d <> [] ->
    exists st' e, srv st (QPut (L_ i) d (range_string a (a + blen body)) (blen body) body) =
                    (st', error_response e) /\ ue_code e = RANGE_INVALID /\
      Good i st' /\ rcv i st' = rcv i st /\ forall x, stor st' x = stor st x.
  Proof.
    intros Hgood Hne Ha Hoff Hb Hd. cbn [serve L_]. unfold handle_put.
    pose proof (blen_nonneg body) as Hn.
    rewrite chunk_range_of_ok by lia.
    destruct (law_resume_at L i st a (wrap64 (a + blen body - a)) Hgood ltac:(lia)) as (st1 & w & E & Hr & _ & Hu).
    rewrite E. specialize (Hu Hoff). unfold copy_body.
    assert (Hf1 : forall x, stor st1 x = stor st x).
    { intros x. pose proof (frame_resume L st repo i a (wrap64 (a + blen body - a)) x) as F. now rewrite E in F. }
    destruct (copy_uns (pieces body) _ _ _ _ _ _ Hu) as (st2 & w2 & r & Ec & Hr2 & Hcase).
    { rewrite pieces_concat. lia. }
    rewrite Ec.
    assert (Hf2 : forall x, stor st2 x = stor st1 x).
    { intros x. pose proof (copy_frame (pieces body) st1 w x) as F. now rewrite Ec in F. }
    destruct r as [e|].
    - destruct Hcase as ([Hcode _] & n' & pend' & Hu2 & Hle). rewrite pieces_concat in Hle.
      pose proof (fun x => frame_close L st2 w2 x) as F.
      destruct (law_close_uns L _ _ _ _ _ _ Hu2 ltac:(lia)) as (st3 & w3 & r3 & Ecl & Hr3 & Hgood3 & _).
      rewrite Ecl in *. cbn [fst] in F. exists st3, e. split; [reflexivity|]. split; [exact Hcode|].
      split; [exact Hgood3|]. split; [congruence|]. intros x. rewrite F, Hf2, Hf1. reflexivity.
    - rewrite pieces_concat in Hcase. cbn [app] in Hcase.
      destruct (law_commit_uns L _ _ _ _ _ _ d Hcase ltac:(lia) Hne Hd)
        as (st3 & w3 & e & Ecm & [Hcode _] & Hr3 & Hu3 & Hstor).
      rewrite Ecm.
      pose proof (fun x => frame_close L st3 w3 x) as F.
      destruct (law_close_uns L _ _ _ _ _ _ Hu3 ltac:(lia)) as (st4 & w4 & r4 & Ecl & Hr4 & Hgood4 & _).
      rewrite Ecl in *. cbn [fst] in F. exists st4, e. split; [reflexivity|]. split; [exact Hcode|].
      split; [exact Hgood4|]. split; [congruence|]. intros x. rewrite F, Hstor, Hf2, Hf1. reflexivity.
  Qed.

  (* ------------------------------------------------------------ the client on top *)

  Notation CB := (client_backend srv).

  Definition rcv' (l : loc I) (st : S) : bytes :=
    match l with LUpload _ i => rcv i st | LBlob _ _ => [] end.
  Definition Good' (l : loc I) (st : S) : Prop := exists i, l = L_ i /\ Good i st.

  (* the writer invariant: the registry holds the first [flushed] bytes of everything
     written, the client's chunk holds the rest, never more than a chunk *)
  Definition Syn' (l : loc I) (st : S) (w : bwriter I) (pend : bytes) : Prop :=
    exists i, l = L_ i /\ Good i st /\ w_loc w = l /\ w_flushed w = blen (rcv i st) /\
      w_chunk w = pend /\ w_size w = w_flushed w + blen pend /\ w_closed w = false /\
      blen pend <= w_chunksize w.

  Definition Uns' (l : loc I) (st : S) (w : bwriter I) (a n : Z) (pend : bytes) : Prop :=
    exists i, l = L_ i /\ Good i st /\ w_loc w = l /\ w_flushed w = a /\ 0 <= a /\
      a <> blen (rcv i st) /\ w_chunk w = pend /\ blen pend <= n /\ w_closed w = false /\
      w_size w = a + blen pend.

  Lemma client_flush_frame st w buf x :
    stor (fst (fst (client_flush srv st w buf None))) x = stor st x.
  Proof.
    unfold client_flush. destruct (w_chunk w ++ buf) as [|b0 data] eqn:Ed; [reflexivity|].
    pose proof (serve_frame st (QPatch (w_loc w) (range_string (w_flushed w) (w_flushed w + blen (b0 :: data)))
                                       (blen (b0 :: data)) (b0 :: data)) x) as F. cbn beta iota in F.
    destruct (srv st _) as [st1 p]. cbn [fst] in F.
    destruct (check_response 202 p) as [p'|e| |]; cbn [fst]; try exact F.
    destruct (p_location p'); exact F.
  Qed.

  (* a response to a request that was refused as range-invalid, seen by the client *)
  Lemma check_refused expect e : ue_code e = RANGE_INVALID -> expect <> 416 ->
    check_response expect (@error_response I e) = Err (UE RANGE_INVALID 416).
  Proof.
    intros Hc Hne. destruct (wire_range e Hc) as [Hw Hs].
    unfold check_response, error_response. cbn [p_status p_code]. rewrite Hw, Hs.
    destruct (Z.eqb_spec 416 expect); [congruence|]. reflexivity.
  Qed.

  Lemma flush_patch_syn l st w pend buf : Syn' l st w pend -> pend ++ buf <> [] ->
    blen (rcv' l st) + blen pend + blen buf <= MAX64 ->
    exists st' w', client_flush srv st w buf None = (st', w', None) /\
      Good' l st' /\ rcv' l st' = rcv' l st ++ pend ++ buf /\
      w_loc w' = l /\ w_flushed w' = blen (rcv' l st') /\ w_chunk w' = [] /\ w_closed w' = false /\
      w_chunksize w' = w_chunksize w /\ w_size w' = w_size w.
  Proof.
    intros (i & -> & Hgood & Hloc & Hfl & Hch & Hsz & Hcl & Hcs) Hne Hb. cbn [rcv' L_] in *.
    unfold client_flush. rewrite Hch. destruct (pend ++ buf) as [|b0 data] eqn:Ed; [congruence|].
    rewrite <- Ed. clear b0 data Ed Hne.
    destruct (H_patch_ok i st (pend ++ buf) Hgood) as (st' & E & Hgood' & Hr').
    { rewrite blen_app. lia. }
    cbn zeta in E. rewrite Hloc, Hfl. fold (L_ i). rewrite E.
    unfold check_response, upload_response. cbn [p_status p_location]. rewrite Z.eqb_refl.
    cbn [rbind]. exists st'.
    eexists. split; [reflexivity|]. cbn [w_loc w_flushed w_chunk w_size w_closed w_chunksize w_closeerr].
    split; [exists i; auto|]. split; [exact Hr'|].
    rewrite Hr', !blen_app. repeat split; auto.
  Qed.

  Lemma flush_patch_uns l st w a n pend buf : Uns' l st w a n pend -> pend ++ buf <> [] ->
    a + blen pend + blen buf <= MAX64 ->
    exists st' e, client_flush srv st w buf None = (st', w, Some e) /\ range_refusal 416 e /\
      Good' l st' /\ rcv' l st' = rcv' l st.
  Proof.
    intros (i & -> & Hgood & Hloc & Hfl & Ha & Hne & Hch & Hn & Hcl & Hsz) Hd Hb. cbn [rcv' L_] in *.
    unfold client_flush. rewrite Hch. destruct (pend ++ buf) as [|b0 data] eqn:Ed; [congruence|].
    rewrite <- Ed. assert (Hd' : pend ++ buf <> []) by congruence. clear b0 data Ed Hd.
    destruct (H_patch_bad i st a (pend ++ buf) Hgood Hd' Ha Hne) as (st' & e & E & Hcode & Hgood' & Hr').
    { rewrite blen_app. lia. }
    rewrite Hloc, Hfl. fold (L_ i). rewrite E, (check_refused 202 e Hcode) by lia.
    exists st', (UE RANGE_INVALID 416). split; [reflexivity|]. split; [split; reflexivity|].
    split; [exists i; auto|exact Hr'].
  Qed.

  Theorem hop_law : ulaw CB hash repo stor rcv' Inv Good' Syn' Uns' 416.
  Proof.
    constructor.
    - (* frame_start *)
      intros st r hint x. cbn [client_backend ub_start]. unfold client_start.
      pose proof (serve_frame st (QStart r) x) as F. cbn beta iota in F.
      destruct (srv st (QStart r)) as [st1 p]. exact F.
    - (* frame_resume *)
      intros st r i a hint x. cbn [client_backend ub_resume]. unfold client_resume.
      destruct (a =? -1).
      + pose proof (serve_frame st (QInfo i) x) as F. cbn beta iota in F.
        destruct (srv st (QInfo i)) as [st1 p]. exact F.
      + destruct (a <? 0); reflexivity.
    - (* frame_write *)
      intros st w data x. cbn [client_backend ub_write]. unfold client_write.
      destruct (blen (w_chunk w) + blen data >? w_chunksize w); [|reflexivity].
      pose proof (client_flush_frame st w data x) as F.
      destruct (client_flush srv st w data None) as [[st1 w1] [e|]]; exact F.
    - (* frame_close *)
      intros st w x. cbn [client_backend ub_close]. unfold client_close.
      destruct (w_closed w); [reflexivity|].
      pose proof (client_flush_frame st w [] x) as F.
      destruct (client_flush srv st w [] None) as [[st1 w1] e]. exact F.
    - (* law_start *)
      intros st hint Hinv. cbn [client_backend ub_start]. unfold client_start.
      destruct (H_start st Hinv) as (st' & i & c & E & Hgood & Hr). rewrite E.
      unfold check_response, upload_response. cbn [p_status p_location rbind]. rewrite Z.eqb_refl. cbn [rbind p_location].
      exists st'. eexists. exists (L_ i). split; [reflexivity|]. split; [|exact Hr].
      exists i. cbn [w_loc w_flushed w_chunk w_size w_closed w_chunksize]. rewrite Hr.
      repeat split; auto. cbn [blen List.length Z.of_nat].
      unfold chunk_size_from_response. cbn [p_minchunk].
      assert (0 < (if hint <=? 0 then DEFAULT_CHUNK else hint)).
      { destruct (Z.leb_spec hint 0); unfold DEFAULT_CHUNK; lia. }
      destruct (parse_int (fmt_int c)) as [m|]; [|lia].
      destruct (Z.gtb_spec m (if hint <=? 0 then DEFAULT_CHUNK else hint)); lia.
    - (* law_resume_at *)
      intros l st a hint (i & -> & Hgood) Ha. cbn [client_backend ub_resume]. unfold client_resume.
      destruct (Z.eqb_spec a (-1)); [lia|]. destruct (Z.ltb_spec a 0); [lia|].
      exists st. eexists. split; [reflexivity|]. split; [reflexivity|].
      assert (Hc : 0 <= (if hint <=? 0 then DEFAULT_CHUNK else hint)).
      { destruct (Z.leb_spec hint 0); unfold DEFAULT_CHUNK; lia. }
      cbn [rcv' L_]. split; intros Hoff.
      + exists i. cbn [w_loc w_flushed w_chunk w_size w_closed w_chunksize blen List.length Z.of_nat].
        repeat split; auto; lia.
      + exists i. cbn [w_loc w_flushed w_chunk w_size w_closed w_chunksize blen List.length Z.of_nat].
        repeat split; auto; lia.
    - (* law_resume_info *)
      intros l st hint (i & -> & Hgood) Hne Hb. cbn [rcv' L_] in *.
      cbn [client_backend ub_resume]. unfold client_resume. cbn [Z.eqb]. rewrite Pos.eqb_refl.
      destruct (H_info i st Hgood Hne Hb) as (st' & E & Hgood' & Hr'). rewrite E.
      unfold check_response, upload_response. cbn [p_status p_location p_range rbind]. rewrite Z.eqb_refl.
      cbn [rbind p_location p_range].
      pose proof (blen_nonneg (rcv i st)) as H0.
      rewrite (status_range_roundtrip (blen (rcv i st))) by lia. cbn [Z.eqb negb].
      exists st'. eexists. split; [reflexivity|]. split; [exact Hr'|].
      exists i. cbn [w_loc w_flushed w_chunk w_size w_closed w_chunksize blen List.length Z.of_nat].
      rewrite Hr'. repeat split; auto; try lia.
      unfold chunk_size_from_response. cbn [p_minchunk parse_int].
      destruct (Z.leb_spec hint 0); unfold DEFAULT_CHUNK; lia.
    - (* syn_size *)
      intros l st w pend (i & -> & Hgood & Hloc & Hfl & Hch & Hsz & Hcl & Hcs). cbn [client_backend ub_size rcv' L_].
      lia.
    - (* syn_id *)
      intros l st w pend (i & -> & Hgood & Hloc & _). exact Hloc.
    - (* law_write_syn *)
      intros l st w pend data Hsyn Hb.
      pose proof Hsyn as (i & -> & Hgood & Hloc & Hfl & Hch & Hsz & Hcl & Hcs).
      cbn [client_backend ub_write]. unfold client_write. rewrite Hch.
      destruct (Z.gtb_spec (blen pend + blen data) (w_chunksize w)) as [Hgt|Hle].
      + (* flush *)
        assert (Hne : pend ++ data <> []).
        { intros E. apply (f_equal blen) in E. rewrite blen_app in E. change (blen []) with 0 in E.
          pose proof (blen_nonneg pend). pose proof (blen_nonneg data). lia. }
        destruct (flush_patch_syn _ _ _ _ data Hsyn Hne Hb)
          as (st' & w' & E & (i' & Hi & Hgood') & Hr' & Hloc' & Hfl' & Hch' & Hcl' & Hcs' & Hsz').
        rewrite E. exists st'. eexists. exists []. split; [reflexivity|]. split.
        * exists i'. cbn [w_loc w_flushed w_chunk w_size w_closed w_chunksize].
          injection Hi as <-. cbn [rcv' L_] in *.
          rewrite Hr', !blen_app in Hfl'. rewrite ?Hr', ?blen_app. cbn [blen List.length Z.of_nat] in *.
          pose proof (blen_nonneg pend). repeat split; auto; try lia.
        * rewrite app_nil_r. exact Hr'.
      + (* buffer *)
        exists st. eexists. exists (pend ++ data). split; [reflexivity|]. split.
        * exists i. cbn [w_loc w_flushed w_chunk w_size w_closed w_chunksize].
          rewrite blen_app. repeat split; auto; try lia.
        * rewrite app_assoc. reflexivity.
    - (* law_close_syn *)
      intros l st w pend Hsyn Hb.
      pose proof Hsyn as (i & -> & Hgood & Hloc & Hfl & Hch & Hsz & Hcl & Hcs).
      cbn [client_backend ub_close ub_id ub_size]. unfold client_close. rewrite Hcl.
      destruct pend as [|p0 pend].
      + unfold client_flush. rewrite Hch. cbn [app].
        exists st. eexists. split; [reflexivity|]. cbn [w_loc w_size]. rewrite app_nil_r.
        split; [exists i; auto|]. split; [reflexivity|]. split; [exact Hloc|].
        cbn [rcv' L_] in *. cbn [blen List.length Z.of_nat] in Hsz. lia.
      + destruct (flush_patch_syn _ _ _ _ [] Hsyn)
          as (st' & w' & E & Hgood' & Hr' & Hloc' & Hfl' & Hch' & Hcl' & Hcs' & Hsz').
        { rewrite app_nil_r. discriminate. }
        { change (blen []) with 0. lia. }
        rewrite E. rewrite app_nil_r in Hr'.
        exists st'. eexists. split; [reflexivity|]. cbn [w_loc w_size].
        split; [exact Hgood'|]. split; [exact Hr'|]. split; [exact Hloc'|].
        rewrite Hr', Hsz'. cbn [rcv' L_] in *. rewrite blen_app. lia.
    - (* law_commit_syn *)
      intros l st w pend d Hsyn Hb c.
      pose proof Hsyn as (i & -> & Hgood & Hloc & Hfl & Hch & Hsz & Hcl & Hcs).
      cbn [rcv' L_] in *. cbn [client_backend ub_commit]. unfold client_commit.
      destruct (H_put_ok i st pend d Hgood Hb) as [Hok Hbad]. cbn zeta in Hok, Hbad. fold c in Hok, Hbad.
      assert (Hflush : forall dd, client_flush srv st w [] (Some dd) =
                let '(st1, p) := srv st (QPut (L_ i) dd (range_string (blen (rcv i st)) (blen (rcv i st) + blen pend)) (blen pend) pend) in
                match check_response 201 p with
                | Ok p => match p_location p with
                          | None => (st1, w, Some plain_error)
                          | Some l => (st1, {| w_chunksize := w_chunksize w; w_closed := w_closed w; w_chunk := [];
                                               w_closeerr := w_closeerr w; w_size := w_size w;
                                               w_flushed := w_flushed w + blen pend; w_loc := l |}, None)
                          end
                | Err e => (st1, w, Some e)
                | _ => (st1, w, Some plain_error)
                end).
      { intros dd. unfold client_flush. rewrite Hch, app_nil_r, Hloc, Hfl. reflexivity. }
      split.
      + intros Hh Hd. destruct (Hok Hh Hd) as (st' & l' & E & Hstor).
        destruct d as [|d0 d]; [congruence|]. rewrite Hflush, E.
        unfold check_response. cbn [p_status p_location]. rewrite Z.eqb_refl.
        exists st'. eexists. eexists. split; [reflexivity|]. cbn [d_size w_size]. split; [|exact Hstor].
        unfold c. rewrite blen_app. lia.
      + intros Hh. destruct d as [|d0 d].
        * exists st, w, plain_error. split; [reflexivity|]. reflexivity.
        * destruct (Hbad Hh) as (st' & e & E & Hstor). rewrite Hflush, E.
          unfold check_response, error_response. cbn [p_status p_code].
          destruct (wire_status e =? 201); [|destruct (negb (is_ok_status (wire_status e)))].
          -- cbn [p_location]. exists st', w, plain_error. split; [reflexivity|exact Hstor].
          -- exists st', w, (UE (wire_code e) (wire_status e)). split; [reflexivity|exact Hstor].
          -- exists st', w, plain_error. split; [reflexivity|exact Hstor].
    - (* uns_good *)
      intros l st w a n pend (i & -> & Hgood & Hloc & Hfl & Ha & Hne & Hch & Hn & Hcl & Hsz).
      split; [exists i; auto|]. split; [exact Hloc|]. cbn [rcv' L_]. auto.
    - (* law_write_uns *)
      intros l st w a n pend data Huns Hb.
      pose proof Huns as (i & -> & Hgood & Hloc & Hfl & Ha & Hne & Hch & Hn & Hcl & Hsz).
      cbn [client_backend ub_write]. unfold client_write. rewrite Hch.
      pose proof (blen_nonneg data) as Hd0. pose proof (blen_nonneg pend) as Hp0.
      destruct (Z.gtb_spec (blen pend + blen data) (w_chunksize w)) as [Hgt|Hle].
      + destruct (pend ++ data) as [|b0 rest] eqn:Ed.
        * (* nothing to send: flush returns at once *)
          apply app_eq_nil in Ed as [-> ->].
          unfold client_flush. rewrite Hch. cbn [app].
          exists st. eexists. exists None. split; [reflexivity|]. split; [reflexivity|].
          exists i. cbn [w_loc w_flushed w_chunk w_size w_closed blen List.length Z.of_nat] in *.
          repeat split; auto; lia.
        * destruct (flush_patch_uns _ _ _ _ _ _ data Huns) as (st' & e & E & Hre & (i' & Hi & Hgood') & Hr').
          { rewrite Ed. discriminate. }
          { lia. }
          rewrite E. exists st', w, (Some e). split; [reflexivity|]. split; [exact Hr'|].
          split; [exact Hre|]. injection Hi as <-. cbn [rcv' L_] in Hr'.
          exists i. rewrite Hr'. repeat split; auto; lia.
      + exists st. eexists. exists None. split; [reflexivity|]. split; [reflexivity|].
        exists i. cbn [w_loc w_flushed w_chunk w_size w_closed]. rewrite blen_app.
        repeat split; auto; lia.
    - (* law_close_uns *)
      intros l st w a n pend Huns Hb.
      pose proof Huns as (i & -> & Hgood & Hloc & Hfl & Ha & Hne & Hch & Hn & Hcl & Hsz).
      cbn [client_backend ub_close ub_id]. unfold client_close. rewrite Hcl.
      destruct pend as [|p0 pend].
      + unfold client_flush. rewrite Hch. cbn [app].
        exists st. eexists. exists None. split; [reflexivity|]. split; [reflexivity|].
        split; [exists i; auto|]. split; [exact Hloc|reflexivity].
      + destruct (flush_patch_uns _ _ _ _ _ _ [] Huns) as (st' & e & E & Hre & Hgood' & Hr').
        { rewrite app_nil_r. discriminate. }
        { cbn [blen List.length Z.of_nat] in *. lia. }
        rewrite E. exists st'. eexists. exists (Some e). split; [reflexivity|]. split; [exact Hr'|].
        split; [exact Hgood'|]. split; [exact Hloc|]. exists e. auto.
    - (* law_commit_uns *)
      intros l st w a n pend d Huns Hb Hpend Hd.
      pose proof Huns as (i & -> & Hgood & Hloc & Hfl & Ha & Hne & Hch & Hn & Hcl & Hsz).
      cbn [client_backend ub_commit]. unfold client_commit.
      destruct d as [|d0 d]; [congruence|].
      destruct (H_put_bad i st a pend (d0 :: d) Hgood Hpend Ha Hne ltac:(lia) Hd)
        as (st' & e & E & Hcode & Hgood' & Hr' & Hstor).
      unfold client_flush. rewrite Hch, app_nil_r. destruct pend as [|p0 pend]; [congruence|].
      rewrite Hloc, Hfl. fold (L_ i). rewrite E, (check_refused 201 e Hcode) by lia.
      exists st', w, (UE RANGE_INVALID 416). split; [reflexivity|]. split; [split; reflexivity|].
      cbn [rcv' L_]. split; [exact Hr'|]. split; [|exact Hstor].
      exists i. rewrite Hr'. repeat split; auto.
  Qed.
End Hop.

(* ------------------------------------------------------------------ ociunify *)

(* ociunify over two registries that are in the same state (as two registries that have
   seen the same uploads are): every operation does the same thing on both sides, so the
   unified writer satisfies the contract the members satisfy, and what is stored is stored
   in both. *)
Section UnifyDiag.
  Context {S W I : Type}.
  Variable B : ubackend S W I.
  Variable hash : bytes -> bytes.
  Variable repo : bytes.
  Variable stor : S -> bytes -> list (option bytes).
  Variable rcv : I -> S -> bytes.
  Variable Inv : S -> Prop.
  Variable Good : I -> S -> Prop.
  Variable Syn : I -> S -> W -> bytes -> Prop.
  Variable Uns : I -> S -> W -> Z -> Z -> bytes -> Prop.
  Variable rs : Z.
  Hypothesis L : ulaw B hash repo stor rcv Inv Good Syn Uns rs.

  Notation UB := (unify_backend B B).

  Definition storU (st : S * S) (x : bytes) := stor (fst st) x ++ stor (snd st) x.
  Definition rcvU (i : I * I) (st : S * S) := rcv (fst i) (fst st).
  Definition InvU (st : S * S) := fst st = snd st /\ Inv (fst st).
  Definition GoodU (i : I * I) (st : S * S) := fst st = snd st /\ fst i = snd i /\ Good (fst i) (fst st).
  Definition SynU (i : I * I) (st : S * S) (w : uniwriter W W) (pend : bytes) :=
    fst st = snd st /\ fst i = snd i /\ uw_0 w = uw_1 w /\ Syn (fst i) (fst st) (uw_0 w) pend /\
    uw_size w = ub_size B (fst st) (uw_0 w).
  Definition UnsU (i : I * I) (st : S * S) (w : uniwriter W W) (a n : Z) (pend : bytes) :=
    fst st = snd st /\ fst i = snd i /\ uw_0 w = uw_1 w /\ Uns (fst i) (fst st) (uw_0 w) a n pend.

  Lemma put_view_app d c x u v : put_view d c x (u ++ v) = put_view d c x u ++ put_view d c x v.
  Proof. unfold put_view. destruct (beqb x d); [apply map_app | reflexivity]. Qed.

  Lemma close_if_ok0_frame st r x : stor (close_if_ok0 B st r) x = stor st x.
  Proof. destruct r; cbn; try reflexivity. apply (frame_close L). Qed.
  Lemma close_if_ok1_frame st r x : stor (close_if_ok1 B st r) x = stor st x.
  Proof. destruct r; cbn; try reflexivity. apply (frame_close L). Qed.

  Theorem unify_law : ulaw UB hash repo storU rcvU InvU GoodU SynU UnsU rs.
  Proof.
    constructor.
    - (* frame_start *)
      intros [s0 s1] r hint x. cbn [unify_backend ub_start]. unfold unify_start, storU. cbn [fst snd].
      pose proof (frame_start L s0 r hint x) as F0. pose proof (frame_start L s1 r hint x) as F1.
      destruct (ub_start B s0 r hint) as [a r0]. destruct (ub_start B s1 r hint) as [b r1]. cbn [fst] in *.
      destruct r0 as [w0|e0| |], r1 as [w1|e1| |]; cbn [fst snd];
        rewrite ?close_if_ok0_frame, ?close_if_ok1_frame; congruence.
    - (* frame_resume *)
      intros [s0 s1] r [i0 i1] a0 hint x. cbn [unify_backend ub_resume]. unfold unify_resume, storU. cbn [fst snd].
      pose proof (frame_resume L s0 r i0 a0 hint x) as F0. pose proof (frame_resume L s1 r i1 a0 hint x) as F1.
      destruct (ub_resume B s0 r i0 a0 hint) as [a r0]. destruct (ub_resume B s1 r i1 a0 hint) as [b r1]. cbn [fst] in *.
      destruct r0 as [w0|e0| |], r1 as [w1|e1| |]; cbn [fst snd];
        try (rewrite ?close_if_ok0_frame, ?close_if_ok1_frame; congruence).
      destruct (negb (ub_size B b w1 =? ub_size B a w0)); cbn [fst snd];
        rewrite ?close_if_ok0_frame, ?close_if_ok1_frame; congruence.
    - (* frame_write *)
      intros [s0 s1] w data x. cbn [unify_backend ub_write]. unfold unify_write, storU. cbn [fst snd].
      pose proof (frame_write L s0 (uw_0 w) data x) as F0. pose proof (frame_write L s1 (uw_1 w) data x) as F1.
      destruct (ub_write B s0 (uw_0 w) data) as [[a w0] e0]. destruct (ub_write B s1 (uw_1 w) data) as [[b w1] e1].
      cbn [fst] in *. destruct (both_err e0 e1); cbn [fst snd]; congruence.
    - (* frame_close *)
      intros [s0 s1] w x. cbn [unify_backend ub_close]. unfold unify_close, storU. cbn [fst snd].
      pose proof (frame_close L s0 (uw_0 w) x) as F0. pose proof (frame_close L s1 (uw_1 w) x) as F1.
      destruct (ub_close B s0 (uw_0 w)) as [[a w0] e0]. destruct (ub_close B s1 (uw_1 w)) as [[b w1] e1].
      cbn [fst snd] in *. congruence.
    - (* law_start *)
      intros [s0 s1] hint [Hd Hinv]. cbn [fst snd] in *. subst s1.
      destruct (law_start L s0 hint Hinv) as (st' & w & i & E & Hsyn & Hr).
      cbn [unify_backend ub_start]. unfold unify_start. cbn [fst snd]. rewrite E.
      exists (st', st'). eexists. exists (i, i). split; [reflexivity|]. split; [|exact Hr].
      repeat split; auto.
    - (* law_resume_at *)
      intros [i0 i1] [s0 s1] a hint (Hd & Hi & Hgood) Ha. cbn [fst snd] in *. subst s1 i1.
      destruct (law_resume_at L i0 s0 a hint Hgood Ha) as (st' & w & E & Hr & Hs & Hu).
      cbn [unify_backend ub_resume]. unfold unify_resume. cbn [fst snd]. rewrite E, Z.eqb_refl. cbn [negb].
      exists (st', st'). eexists. split; [reflexivity|]. unfold rcvU. cbn [fst snd]. split; [exact Hr|].
      split; intros Hoff.
      + repeat split; auto.
      + repeat split; auto.
    - (* law_resume_info *)
      intros [i0 i1] [s0 s1] hint (Hd & Hi & Hgood) Hne Hb. unfold rcvU in *. cbn [fst snd] in *. subst s1 i1.
      destruct (law_resume_info L i0 s0 hint Hgood Hne Hb) as (st' & w & E & Hr & Hs).
      cbn [unify_backend ub_resume]. unfold unify_resume. cbn [fst snd]. rewrite E, Z.eqb_refl. cbn [negb].
      exists (st', st'). eexists. split; [reflexivity|]. cbn [fst snd]. split; [exact Hr|].
      repeat split; auto.
    - (* syn_size *)
      intros [i0 i1] [s0 s1] w pend (Hd & Hi & Hw & Hsyn & Hsz). unfold rcvU. cbn [fst snd unify_backend ub_size] in *.
      rewrite Hsz. apply (syn_size L _ _ _ _ Hsyn).
    - (* syn_id *)
      intros [i0 i1] [s0 s1] w pend (Hd & Hi & Hw & Hsyn & Hsz). cbn [fst snd unify_backend ub_id] in *. subst s1 i1.
      rewrite <- Hw, (syn_id L _ _ _ _ Hsyn). reflexivity.
    - (* law_write_syn *)
      intros [i0 i1] [s0 s1] w pend data (Hd & Hi & Hw & Hsyn & Hsz) Hb. unfold rcvU in *.
      cbn [fst snd] in *. subst s1 i1.
      destruct (law_write_syn L _ _ _ _ data Hsyn Hb) as (st' & w' & pend' & E & Hsyn' & Hc).
      cbn [unify_backend ub_write]. unfold unify_write. cbn [fst snd]. rewrite <- Hw, E. cbn [both_err].
      exists (st', st'). eexists. exists pend'. split; [reflexivity|]. split; [|exact Hc].
      repeat split; auto. cbn [uw_size uw_0 fst].
      rewrite Hsz, (syn_size L _ _ _ _ Hsyn), (syn_size L _ _ _ _ Hsyn'), <- !blen_app, Hc, !blen_app. lia.
    - (* law_close_syn *)
      intros [i0 i1] [s0 s1] w pend (Hd & Hi & Hw & Hsyn & Hsz) Hb. unfold rcvU in *.
      cbn [fst snd] in *. subst s1 i1.
      destruct (law_close_syn L _ _ _ _ Hsyn Hb) as (st' & w' & E & Hgood & Hr & Hid & Hsz').
      cbn [unify_backend ub_close ub_id ub_size]. unfold unify_close. cbn [fst snd]. rewrite <- Hw, E. cbn [both_err].
      exists (st', st'). eexists. split; [reflexivity|]. cbn [fst snd uw_0 uw_1 uw_size].
      split; [repeat split; auto|]. split; [exact Hr|]. split; [now rewrite Hid|].
      rewrite Hsz, (syn_size L _ _ _ _ Hsyn), Hr, blen_app. reflexivity.
    - (* law_commit_syn *)
      intros [i0 i1] [s0 s1] w pend d (Hd & Hi & Hw & Hsyn & Hsz) Hb c. unfold rcvU in *.
      cbn [fst snd] in *. subst s1 i1.
      destruct (law_commit_syn L _ _ _ _ d Hsyn Hb) as [Hok Hbad]. fold c in Hok, Hbad.
      cbn [unify_backend ub_commit]. unfold unify_commit. cbn [fst snd]. rewrite <- Hw. split.
      + intros Hh Hne. destruct (Hok Hh Hne) as (st' & w' & de & E & Hds & Hstor). rewrite E. cbn [r_err both_err].
        exists (st', st'). eexists. exists de. split; [reflexivity|]. split; [exact Hds|].
        intros x. unfold storU. cbn [fst snd]. rewrite put_view_app, Hstor. reflexivity.
      + intros Hh. destruct (Hbad Hh) as (st' & w' & e & E & Hstor). rewrite E. cbn [r_err both_err].
        exists (st', st'). eexists. exists e. split; [reflexivity|].
        intros x. unfold storU. cbn [fst snd]. rewrite Hstor. reflexivity.
    - (* uns_good *)
      intros [i0 i1] [s0 s1] w a n pend (Hd & Hi & Hw & Huns). unfold rcvU. cbn [fst snd] in *. subst s1 i1.
      destruct (uns_good L _ _ _ _ _ _ Huns) as (Hgood & Hid & Hrest).
      split; [repeat split; auto|]. split; [|exact Hrest].
      cbn [unify_backend ub_id fst snd]. rewrite <- Hw, Hid. reflexivity.
    - (* law_write_uns *)
      intros [i0 i1] [s0 s1] w a n pend data (Hd & Hi & Hw & Huns) Hb. unfold rcvU in *.
      cbn [fst snd] in *. subst s1 i1.
      destruct (law_write_uns L _ _ _ _ _ _ data Huns Hb) as (st' & w' & r & E & Hr & Hcase).
      cbn [unify_backend ub_write]. unfold unify_write. cbn [fst snd]. rewrite <- Hw, E.
      destruct r as [e|]; cbn [both_err].
      + exists (st', st'). eexists. exists (Some e). split; [reflexivity|]. split; [exact Hr|].
        destruct Hcase as [Hre Hu]. split; [exact Hre|]. repeat split; auto.
      + exists (st', st'). eexists. exists None. split; [reflexivity|]. split; [exact Hr|].
        repeat split; auto.
    - (* law_close_uns *)
      intros [i0 i1] [s0 s1] w a n pend (Hd & Hi & Hw & Huns) Hb. unfold rcvU in *.
      cbn [fst snd] in *. subst s1 i1.
      destruct (law_close_uns L _ _ _ _ _ _ Huns Hb) as (st' & w' & r & E & Hr & Hgood & Hid & Hcase).
      cbn [unify_backend ub_close ub_id]. unfold unify_close. cbn [fst snd]. rewrite <- Hw, E.
      exists (st', st'). eexists. exists (both_err r r). split; [reflexivity|]. cbn [fst snd uw_0 uw_1].
      split; [exact Hr|]. split; [repeat split; auto|]. split; [now rewrite Hid|].
      destruct pend as [|p0 pend].
      + subst r. reflexivity.
      + destruct Hcase as (e & -> & Hre). exists e. split; [reflexivity|exact Hre].
    - (* law_commit_uns *)
      intros [i0 i1] [s0 s1] w a n pend d (Hd & Hi & Hw & Huns) Hb Hpend Hne. unfold rcvU in *.
      cbn [fst snd] in *. subst s1 i1.
      destruct (law_commit_uns L _ _ _ _ _ _ d Huns Hb Hpend Hne) as (st' & w' & e & E & Hre & Hr & Hu & Hstor).
      cbn [unify_backend ub_commit]. unfold unify_commit. cbn [fst snd]. rewrite <- Hw, E. cbn [r_err both_err].
      exists (st', st'). eexists. exists e. split; [reflexivity|]. split; [exact Hre|]. split; [exact Hr|].
      split; [repeat split; auto|].
      intros x. unfold storU. cbn [fst snd]. rewrite Hstor. reflexivity.
  Qed.
End UnifyDiag.
