(* What the correspondence lemma of Obs/C06.v needs besides the theorems of Proofs/Server.v:
   the boolean equalities of Model/ServerSpec.v decide equality (so an agreeing trace is the
   model's trace), [spec_ok] looks at the response only through header lookups and through the
   part of the JSON document [jval_eqb] compares, and Construct never panics on a request the
   router produced. *)
From Coq Require Import String.
From OCI Require Import Base.Outcome Base.Regex Model.Ref Model.Errors Model.Request Model.Server
  Model.ServerSpec Proofs.Ref Proofs.Request.

(* ================================================================ equalities *)

Lemma option_eqb_eq {A} (eqb : A -> A -> bool) :
  (forall a b, eqb a b = true -> a = b) -> forall a b, option_eqb eqb a b = true -> a = b.
Proof. intros H [a|] [b|]; cbn; try discriminate; auto. intros E. f_equal. auto. Qed.

Lemma list_eqb_eq' {A} (eqb : A -> A -> bool) (l1 : list A) :
  (forall a, In a l1 -> forall b, eqb a b = true -> a = b) ->
  forall l2, list_eqb eqb l1 l2 = true -> l1 = l2.
Proof.
  induction l1 as [|a l1 IH]; intros H [|b l2]; cbn; try discriminate; auto.
  intros E. apply andb_true_iff in E as [E1 E2]. f_equal.
  - apply H; [now left | assumption].
  - apply IH; [|assumption]. intros x Hx. apply H. now right.
Qed.

Lemma werr_eqb_eq a b : werr_eqb a b = true -> a = b.
Proof.
  destruct a, b. unfold werr_eqb. cbn. intros H. repeat (apply andb_true_iff in H as [H ?]).
  apply beqb_eq in H, H1. apply (option_eqb_eq beqb) in H0; [|intros; now apply beqb_eq]. now subst.
Qed.

Fixpoint gerr_eqb_eq (a : gerr) : forall b, gerr_eqb a b = true -> a = b.
Proof.
  destruct a as [w|l|p e|st u r|m]; intros [w'|l'|p' e'|st' u' r'|m']; cbn [gerr_eqb]; try discriminate; intros H.
  - f_equal. now apply werr_eqb_eq.
  - f_equal. apply (list_eqb_eq' werr_eqb); [|assumption]. intros; now apply werr_eqb_eq.
  - apply andb_true_iff in H as [H1 H2]. apply beqb_eq in H1. apply gerr_eqb_eq in H2. now subst.
  - apply andb_true_iff in H as [H H3]. apply andb_true_iff in H as [H1 H2].
    apply Z.eqb_eq in H1. apply Bool.eqb_prop in H2. subst.
    destruct u as [x|], u' as [y|]; try discriminate; [|reflexivity].
    apply gerr_eqb_eq in H3. now subst.
  - apply beqb_eq in H. now subst.
Qed.

Lemma desc_eqb_true a b : desc_eqb a b = true -> a = b.
Proof. apply desc_eqb_eq. Qed.

Lemma bval_eqb_eq a b : bval_eqb a b = true -> a = b.
Proof.
  destruct a, b; cbn; try discriminate; intros H.
  - apply desc_eqb_true in H. now subst.
  - apply andb_true_iff in H as [H1 H2]. apply desc_eqb_true in H1. apply beqb_eq in H2. now subst.
  - apply andb_true_iff in H as [H1 H2].
    apply (list_eqb_eq' beqb) in H1; [|intros; now apply beqb_eq].
    apply (option_eqb_eq gerr_eqb gerr_eqb_eq) in H2. now subst.
  - apply andb_true_iff in H as [H1 H2].
    apply (list_eqb_eq' desc_eqb) in H1; [|intros; now apply desc_eqb_true].
    apply (option_eqb_eq gerr_eqb gerr_eqb_eq) in H2. now subst.
  - apply N.eqb_eq in H. now subst.
  - apply Z.eqb_eq in H. now subst.
  - apply beqb_eq in H. now subst.
  - reflexivity.
Qed.

Lemma bres_eqb_eq a b : bres_eqb a b = true -> a = b.
Proof.
  destruct a, b; cbn; try discriminate; intros H; try reflexivity.
  - f_equal. now apply bval_eqb_eq.
  - f_equal. now apply gerr_eqb_eq.
Qed.

Lemma op_eqb_eq a b : op_eqb a b = true -> a = b.
Proof.
  destruct a, b; cbn; try discriminate; intros H;
    repeat match goal with H : _ && _ = true |- _ => apply andb_true_iff in H as [? ?] end;
    repeat match goal with
           | H : beqb _ _ = true |- _ => apply beqb_eq in H
           | H : Z.eqb _ _ = true |- _ => apply Z.eqb_eq in H
           | H : N.eqb _ _ = true |- _ => apply N.eqb_eq in H
           | H : desc_eqb _ _ = true |- _ => apply desc_eqb_true in H
           end; subst; reflexivity.
Qed.

Lemma ev_eqb_eq a b : ev_eqb a b = true -> a = b.
Proof.
  destruct a, b; cbn; try discriminate; intros H; try reflexivity.
  - apply andb_true_iff in H as [H1 H2]. apply op_eqb_eq in H1. apply bres_eqb_eq in H2. now subst.
  - apply andb_true_iff in H as [H1 H2]. apply Bool.eqb_prop in H1. apply desc_eqb_true in H2. now subst.
Qed.

Lemma trace_eqb_eq a b : trace_eqb a b = true -> a = b.
Proof. apply list_eqb_eq'. intros; now apply ev_eqb_eq. Qed.

Lemma kind_eqb_eq a b : kind_eqb a b = true -> a = b.
Proof. destruct a, b; cbn; try discriminate; reflexivity. Qed.

Lemma request_eqb_eq a b : request_eqb a b = true -> a = b.
Proof.
  destruct a, b. unfold request_eqb. cbn. intros H.
  repeat match goal with H : _ && _ = true |- _ => apply andb_true_iff in H as [? ?] end.
  repeat match goal with
         | H : beqb _ _ = true |- _ => apply beqb_eq in H
         | H : Z.eqb _ _ = true |- _ => apply Z.eqb_eq in H
         | H : kind_eqb _ _ = true |- _ => apply kind_eqb_eq in H
         end. now subst.
Qed.

(* ================================================================ headers *)

Lemma hget_none k h : ~ In k (map fst h) -> hget k h = None.
Proof.
  induction h as [|[k' v] h IH]; [reflexivity|]. cbn. intros H.
  destruct (beqb k k') eqn:E; [apply beqb_eq in E; subst; tauto|]. apply IH. tauto.
Qed.

Lemma hdrs_le_get a b : hdrs_le a b = true -> forall k, In k (map fst a) -> option_eqb beqb (hget k a) (hget k b) = true.
Proof.
  unfold hdrs_le. rewrite forallb_forall. intros H k Hk.
  apply in_map_iff in Hk as ([k' v] & <- & Hin). exact (H _ Hin).
Qed.

Lemma headers_eqb_get a b : headers_eqb a b = true -> forall k, hget k a = hget k b.
Proof.
  unfold headers_eqb. intros H k. apply andb_true_iff in H as [H1 H2].
  destruct (in_dec bytes_eq_dec k (map fst a)) as [Ha|Ha].
  - apply (option_eqb_eq beqb); [intros; now apply beqb_eq|]. now apply hdrs_le_get.
  - destruct (in_dec bytes_eq_dec k (map fst b)) as [Hb|Hb].
    + symmetry. apply (option_eqb_eq beqb); [intros; now apply beqb_eq|]. now apply hdrs_le_get.
    + now rewrite !hget_none.
Qed.

(* ================================================================ spec_ok and the comparison *)

Lemma spec_ok_ext linked o req tr st h1 h2 b j1 j2 :
  spec_ok linked o req tr (mkresp st h1 b j1) = true ->
  headers_eqb h1 h2 = true -> option_eqb jval_eqb j1 j2 = true ->
  spec_ok linked o req tr (mkresp st h2 b j2) = true.
Proof.
  intros S H J. pose proof (headers_eqb_get h1 h2 H) as G.
  unfold spec_ok, status_ok, headers_ok, errors_answered, is_failure, has, hnum in *. cbn [p_json p_hdrs p_status p_body] in *.
  rewrite <- !G.
  destruct j1 as [[n t|r|m|w]|], j2 as [[n' t'|r'|m'|w']|]; cbn in J; try discriminate; try exact S.
  apply andb_true_iff in J as [J _]. apply beqb_eq in J. now rewrite <- J.
Qed.

(* ================================================================ Construct *)

Section Construct.
  Variable linked : alg -> bool.

  Lemma construct_prefix rq : has_prefix (s "/v2/") (snd (construct rq)) = true.
  Proof. unfold construct, upload_path. destruct (q_kind rq); cbn [snd]; try apply has_prefix_app; reflexivity. Qed.

  Lemma Construct_no_panic rq : Construct linked rq <> Panic /\ Construct linked rq <> OutOfFuel.
  Proof.
    unfold Construct. pose proof (construct_prefix rq) as P.
    destruct (construct rq) as [m u]. cbn [snd] in P.
    unfold url_parse_v2. rewrite P. cbn [negb].
    destruct (cut_or_all 35 u) as [u1 frag]. destruct (existsb is_ctl u1); [split; discriminate|].
    destruct (unescape false frag); [|split; discriminate].
    destruct (cut_or_all 63 u1) as [rest rawq]. destruct (unescape false rest) as [path|]; [|split; discriminate].
    pose proof (parse_req_good linked m path rawq) as G.
    destruct (parse_req linked m path rawq); cbn in G; try contradiction; split; discriminate.
  Qed.
End Construct.
