(* The concrete JSON of Obs/StackRun.v ([enc0] and its three decoders) satisfies the round-trip
   hypotheses of Proofs/StackTransparent.v; so does [media0] for "application/json". *)
From Coq Require Import String.
From OCI Require Import Obs.StackRun.

Local Open Scope N_scope.

Lemma db_eb l rest : db (eb l ++ rest) = Some (l, rest).
Proof.
  unfold eb. induction l as [|c l IH]; cbn [map app db].
  - reflexivity.
  - destruct (N.eqb_spec (N.succ c) 0) as [E|_]; [lia|]. rewrite <- app_assoc in *. cbn [app] in *.
    rewrite IH. rewrite N.pred_succ. reflexivity.
Qed.

Lemma dz_ez z rest : dz (ez z ++ rest) = Some (z, rest).
Proof.
  unfold ez, dz. cbn [app]. destruct (Z.ltb_spec z 0).
  - cbn. f_equal. f_equal. lia.
  - cbn. f_equal. f_equal. lia.
Qed.

Lemma eb_length l : length (eb l) = S (length l).
Proof. unfold eb. rewrite app_length, map_length. cbn. lia. Qed.

Section ListRT.
  Context {A : Type}.
  Variable ea : A -> bytes.
  Variable da : bytes -> option (A * bytes).
  Hypothesis da_ea : forall a rest, da (ea a ++ rest) = Some (a, rest).

  Lemma dl_el l : forall fuel rest, (length l < fuel)%nat -> dl da fuel (el ea l ++ rest) = Some (l, rest).
  Proof.
    unfold el. induction l as [|a l IH]; intros fuel rest Hf; (destruct fuel as [|fuel]; [cbn in Hf; lia|]).
    - reflexivity.
    - cbn [flat_map app dl]. change (1 =? 0) with false. cbn iota.
      rewrite <- !app_assoc, da_ea. rewrite app_assoc. rewrite IH by (cbn in Hf; lia). reflexivity.
  Qed.

  Lemma el_length l : (length l < length (el ea l))%nat.
  Proof.
    unfold el. induction l as [|a l IH]; cbn [flat_map app length]; [lia|].
    rewrite !app_length in *. cbn [length] in *. lia.
  Qed.

  Lemma dl_el_all l : dl da (length (el ea l)) (el ea l) = Some (l, []).
  Proof. rewrite <- (app_nil_r (el ea l)) at 2. apply dl_el, el_length. Qed.
End ListRT.

Lemma ddesc_edesc d rest : ddesc (edesc d ++ rest) = Some (d, rest).
Proof.
  unfold ddesc, edesc. rewrite <- !app_assoc, db_eb, db_eb, dz_ez, db_eb. destruct d; reflexivity.
Qed.

Lemma dwerr_ewerr w rest : dwerr (ewerr w ++ rest) = Some (w, rest).
Proof.
  unfold dwerr, ewerr. rewrite <- !app_assoc, db_eb, db_eb. destruct w as [c m [d|]]; cbn [w_detail app N.eqb].
  - rewrite db_eb. reflexivity.
  - reflexivity.
Qed.

Theorem json_errors_rt0 w : dec_errors0 (enc0 (JErr w)) = Some [w].
Proof.
  unfold dec_errors0, enc0. rewrite <- (app_nil_r (ewerr w)), dwerr_ewerr. reflexivity.
Qed.

Theorem json_tags_rt0 name tags : dec_names0 true (enc0 (JTags name tags)) = Some tags.
Proof.
  unfold dec_names0, enc0. rewrite db_eb, (dl_el_all eb db db_eb). reflexivity.
Qed.

Theorem json_catalog_rt0 repos : dec_names0 false (enc0 (JCatalog repos)) = Some repos.
Proof. unfold dec_names0, enc0. rewrite (dl_el_all eb db db_eb). reflexivity. Qed.

Theorem json_index_rt0 ms : dec_index0 (enc0 (JIndex ms)) = Some ms.
Proof. unfold dec_index0, enc0. rewrite (dl_el_all edesc ddesc ddesc_edesc). reflexivity. Qed.

Theorem media_json0 : media0 (s "application/json") = s "application/json".
Proof. reflexivity. Qed.

Print Assumptions json_errors_rt0.
Print Assumptions json_tags_rt0.
Print Assumptions json_catalog_rt0.
Print Assumptions json_index_rt0.
