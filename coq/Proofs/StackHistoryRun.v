(* C03: [history_transparent] (Proofs/StackHistory.v) for the executable runner of
   Obs/StackRun.v: [stack_step so o cc bstep], with the concrete JSON encoding [enc0] and the
   concrete media-type parser [media0], whose round trips are proved in Proofs/StackJson.v.  No
   hypothesis about JSON is left.

   Also what the backend-level relation [bres_equiv] means for the results the registry-level
   runner shows ([result_of_bres]): same success / failure, the same OCI code (an error without a
   code is UNKNOWN on the wire), the status in the tag for the HEAD-based resolves. *)
From Coq Require Import String.
From OCI Require Import Obs.StackRun Proofs.StackJson Proofs.StackBase Proofs.StackTransparent Proofs.StackTwoHops.
From OCI Require Import Proofs.StackStep Proofs.StackHistory.

Local Open Scope Z_scope.

Section Run.
  Variable so : soracles.
  Variable o : opts.
  Variable cc : ccfg.
  Variable St : Type.
  Variable bstep : backend St.

  Notation conforming := (Conforming (so_linked so) (so_hash so) (so_subject so) enc0 St bstep o).
  Notation admissible_ := (admissible (so_linked so) (so_hash so) (so_subject so) enc0 St bstep o cc).

  (* the theorem, on backends *)
  Theorem history_transparent_backend Inv sim b h :
    conforming Inv sim -> o_locs o = None -> (1 <= cc_bufsz cc)%nat ->
    Inv b -> admissible_ b h ->
    Forall3 bres_equiv h (snd (brun bstep b h)) (snd (brun (stack_backend so o cc bstep) (sstate0 b) h))
    /\ sim (fst (brun bstep b h)) (sv_b (st_srv (fst (brun (stack_backend so o cc bstep) (sstate0 b) h))))
    /\ clean (fst (brun (stack_backend so o cc bstep) (sstate0 b) h)).
  Proof.
    intros CF Hl Hk Hi Ha. unfold stack_backend.
    exact (history_transparent (so_linked so) (so_hash so) (so_subject so) media0 enc0 dec_errors0 dec_names0 dec_index0
             redirect0 St bstep o cc Inv sim CF media_json0 json_errors_rt0 json_index_rt0 json_tags_rt0 json_catalog_rt0
             Hl Hk b h Hi Ha).
  Qed.

  (* registry-level results related by [bres_equiv] on the backend results they show *)
  Definition result_equiv (c : op) (rd rv : result) : Prop :=
    exists bd bv, rd = result_of_bres bd /\ rv = result_of_bres bv /\ bres_equiv c bd bv.

  Lemma Forall3_results h ds vs :
    Forall3 bres_equiv h ds vs -> Forall3 result_equiv h (map result_of_bres ds) (map result_of_bres vs).
  Proof.
    induction 1 as [|c bd bv h' ds vs Hc _ IH]; cbn [map]; [constructor|].
    constructor; [|exact IH]. exists bd, bv. auto.
  Qed.

  (* the theorem, on the runner: [run (stack_step so o cc bstep) (sstate0 b) h] against
     [run bstep b h] *)
  Theorem history_transparent_run Inv sim b h :
    conforming Inv sim -> o_locs o = None -> (1 <= cc_bufsz cc)%nat ->
    Inv b -> admissible_ b h ->
    Forall3 result_equiv h (snd (run (registry_of_backend bstep) b h))
                           (snd (run (stack_step so o cc bstep) (sstate0 b) h))
    /\ sim (fst (run (registry_of_backend bstep) b h))
           (sv_b (st_srv (fst (run (stack_step so o cc bstep) (sstate0 b) h)))).
  Proof.
    intros CF Hl Hk Hi Ha.
    destruct (history_transparent_backend Inv sim b h CF Hl Hk Hi Ha) as (H3 & Hs & _).
    unfold stack_step. rewrite !run_registry_of_backend. cbn [fst snd]. split; [|exact Hs].
    apply Forall3_results. exact H3.
  Qed.
End Run.

(* ================================================================ what the caller sees *)

(* an error without a code is UNKNOWN once it has crossed the wire *)
Definition wire_ecode (c : ecode) : ecode :=
  match c with ENone => ECustom unknown_code | _ => c end.

Lemma ecode_of_code_nonempty c : c <> [] -> ecode_of_code c <> ENone.
Proof.
  intros Hc. unfold ecode_of_code. destruct c as [|c0 c']; [congruence|].
  repeat match goal with |- (if ?b then _ else _) <> _ => destruct b; [discriminate|] end. discriminate.
Qed.

Lemma code_of_marshal_code e :
  ecode_of_code (marshal_code e) = wire_ecode (e_code (err_of_gerr e)).
Proof.
  unfold marshal_code, err_of_gerr. cbn [e_code]. destruct (as_err e) as [w|]; [|reflexivity].
  destruct (w_code w) as [|c0 c'] eqn:Ec; [reflexivity|].
  pose proof (ecode_of_code_nonempty (c0 :: c') ltac:(discriminate)) as Hn.
  destruct (ecode_of_code (c0 :: c')); try reflexivity. congruence.
Qed.

(* body carriers: the same OCI code *)
Lemma err_equiv_code d v :
  err_equiv false d v -> wire_ecode (e_code (err_of_gerr v)) = wire_ecode (e_code (err_of_gerr d)).
Proof. intros (Hc & _ & _). rewrite <- !code_of_marshal_code. now rewrite Hc. Qed.

(* HEAD carriers: the tag of the caller's error is the status the backend's error is served with *)
Lemma err_equiv_head_status d v :
  err_equiv true d v -> e_tag (err_of_gerr v) = dec_Z (marshal_status d).
Proof. intros H. cbn [err_equiv] in H. unfold err_of_gerr. cbn [e_tag]. now rewrite H. Qed.

(* success and failure agree *)
Lemma result_equiv_success c rd rv :
  result_equiv c rd rv -> (is_ok rd = is_ok rv) \/ lists c = true.
Proof.
  intros (bd & bv & -> & -> & H). destruct (lists c) eqn:El; [right; reflexivity | left].
  unfold bres_equiv in H. rewrite El in H. destruct bd, bv; try contradiction; reflexivity.
Qed.

Print Assumptions history_transparent_backend.
Print Assumptions history_transparent_run.
Print Assumptions err_equiv_code.
